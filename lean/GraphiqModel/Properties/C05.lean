/-
  C05 — stabilizer state comparison and fidelity are exact.

  Contents (every theorem for every n; nothing conditional since `C11.inverse_circuit_complete`):
  * canonical form / equality   `canonical_form_preserves_state`, `canonical_form_returns_canon`, `canon_shape_unique`,
                                `canonical_form_is_normal_form`, `canonical_form_returns_iff_independent`,
                                `canonical_form_idempotent`, `canonical_form_depends_only_on_state`, `equality_sound`, `equality_exact`, `equality_is_equivalence`,
                                `sign_matters`, `shape_checker_sound`
  * fidelity, group level       `inner_product_zero_iff`, `inner_product_exponent`, `inner_product_exponent_counts`,
                                `overlap_dim_unique`, `fidelity_self`, `fidelity_self_returns`, `fidelity_one_iff`,
                                `fidelity_symmetric`, `fidelity_presentation_independent`, `fidelity_circuit_invariant`,
                                `fidelity_value_set`, `inner_product_returns`, `inner_product_returns_only_if`
  * fidelity, Hilbert space     `fidelity_is_state_overlap`, `fidelity_is_squared_inner_product`,
                                `fidelity_on_valid_tableaux`, `mixture_fidelity_is_state_overlap`,
                                `same_density_matrix_iff_same_group`, `same_state_iff_same_group`
  * executable specification    `overlap_spec_checker_exact`, `overlap_spec_count_exact`
-/
import GraphiqModel.Proofs.InverseCircuit
import GraphiqModel.Proofs.CanonUnique
import GraphiqModel.Proofs.CanonCheck
import GraphiqModel.Proofs.InnerProductTotal
import GraphiqModel.Proofs.InnerProductExec
import GraphiqModel.Proofs.InnerProductFull
import GraphiqModel.Proofs.InnerProductHilbert
import GraphiqModel.Proofs.InvHilbert
import GraphiqModel.Proofs.InvValid
import GraphiqModel.Proofs.InnerProductCount
import GraphiqModel.Proofs.InvClifford
import GraphiqModel.Proofs.InvGauge
namespace Graphiq.C05
open Graphiq Graphiq.PRow Graphiq.STab Graphiq.Tab

/-- **`canonical_form` depends only on, and preserves, the state** (one half: preservation; every n, every generating set):
    whenever it returns, its result generates the same signed group as its input — no sign is lost or flipped. -/
theorem canonical_form_preserves_state (t t' : STab) (hg : t.Good) (h : t.canonicalForm = .ok t') :
    t'.n = t.n ∧ (∀ a, t.Spn a ↔ t'.Spn a) := by
  obtain ⟨s, _⟩ := canonicalForm_spanEq t t' hg h
  exact ⟨s.n_eq.symm, fun a => ⟨s.sub a, s.sup a⟩⟩

/-- row-wise equality of two tableaux (what `StabilizerTableau.__eq__` compares: table and sign vector) -/
def SameRows (a b : STab) : Prop := a.n = b.n ∧ ∀ i, i < a.n → EqOn a.n (a.row i) (b.row i)

theorem spanEq_of_sameRows (a b : STab) (h : SameRows a b) : SpanEq a b := by
  apply spanEq_of_gens a b h.1.symm
  · intro i hi
    exact InSpan.eqv _ _ (spn_gen a i (h.1 ▸ hi)) (h.2 i (h.1 ▸ hi))
  · intro i hi
    have := (h.2 i hi).symm
    rw [h.1] at this
    exact InSpan.eqv _ _ (spn_gen b i (h.1 ▸ hi)) this

/-- **Soundness of state equality, sign-sensitive** (every n): if the canonical forms of two generating sets coincide
    row by row — which is what `Stabilizer.__eq__` tests — then the two sets generate the same signed group, i.e. the two
    objects are the same state. In particular two states that differ in the sign of a generator are never reported equal. -/
theorem equality_sound (a b ca cb : STab) (ha : a.Good) (hb : b.Good)
    (h1 : a.canonicalForm = .ok ca) (h2 : b.canonicalForm = .ok cb) (heq : SameRows ca cb) :
    a.n = b.n ∧ ∀ p, a.Spn p ↔ b.Spn p := by
  obtain ⟨s1, _⟩ := canonicalForm_spanEq a ca ha h1
  obtain ⟨s2, _⟩ := canonicalForm_spanEq b cb hb h2
  have s := (s1.trans (spanEq_of_sameRows ca cb heq)).trans s2.symm
  exact ⟨s.n_eq, fun p => ⟨s.sub p, s.sup p⟩⟩

/-- a sign flip changes the group: `+Z` and `−Z` generate different signed groups (so equality must, and does, separate them) -/
theorem sign_matters : ¬ (STab.zero 1).Spn (PRow.Zq 0 true) := by
  intro h
  -- every element of the span of {+Z_0} on one qubit has x-bit 0 and sign bit equal to ... we show r = false by induction
  have key : ∀ a, (STab.zero 1).Spn a → (a.x 0 = false ∧ a.r = false ∧ a.ip = false) := by
    intro a ha
    unfold Spn at ha
    induction ha with
    | one => exact ⟨rfl, rfl, rfl⟩
    | gen i hi =>
      have : i = 0 := by
        have : i < 1 := hi
        omega
      subst this; exact ⟨rfl, rfl, rfl⟩
    | mul a b _ _ iha ihb =>
      obtain ⟨ax, ar, ai⟩ := iha
      obtain ⟨bx, br, bi⟩ := ihb
      have hp := mul_ph 1 a b
      have g0 : gSum 1 a b = 0 := by
        unfold gSum sumTo sumTo
        rw [ax, bx]
        cases a.z 0 <;> cases b.z 0 <;> decide
      have pa : a.ph = 0 := by unfold PRow.ph; rw [ar, ai]; rfl
      have pb : b.ph = 0 := by unfold PRow.ph; rw [br, bi]; rfl
      rw [g0, pa, pb] at hp
      have hx : (PRow.mul 1 a b).x 0 = false := by simp [ax, bx]
      have hz : (PRow.mul 1 a b).ph = PRow.one.ph := by rw [hp]; rfl
      have := ph_inj _ _ hz
      exact ⟨hx, this.1, this.2⟩
    | eqv a b _ hab iha =>
      obtain ⟨ax, ar, ai⟩ := iha
      exact ⟨(hab.1 0 (by decide)).1 ▸ ax, hab.2.1 ▸ ar, hab.2.2 ▸ ai⟩
  have := (key _ h).2.1
  simp [PRow.Zq] at this

/-- **Postcondition of `canonical_form`** (every n, every input tableau, no hypothesis on the rows): whenever it returns,
    the result has the reduced echelon shape `STab.Canon` (Proofs/CanonShape.lean): there are `k` and pivot columns
    `px 0 < … < px (k-1)`, `pz k < … < pz (n-1)` such that
    * row `i < k` (X block) has x-bit 1 at column `px i`, no x-bit left of it, and *every other row* has x-bit 0 there;
    * the rows `k..n-1` (Z block) have no x-bit at all; row `i ≥ k` has z-bit 1 at column `pz i`, no z-bit left of it, and
      *every other row of the tableau*, X block included, has z-bit 0 there.
    Proved by loop invariants over the two `for` loops of the code (`canonStepXY`, `canonStepZ`). -/
theorem canonical_form_returns_canon (t c : STab) (h : t.canonicalForm = .ok c) : STab.Canon c :=
  canonicalForm_canon t c h

/-- **`canonical_form` returns exactly on the independent generating sets** (every n, real commuting rows): its final
    `assert pivot[0] == n` passes iff no non-empty subset of the generators multiplies to `±I` (`STab.Indep`; equivalently
    the 2n-bit vectors are linearly independent over GF(2), `C11.independent_iff_linear_independent`), and the only error it
    can raise is that `AssertionError`. -/
theorem canonical_form_returns_iff_independent (t : STab) (hg : t.Good) :
    ((∃ c, t.canonicalForm = .ok c) ↔ t.Indep) ∧ ∀ e, t.canonicalForm = .error e → e = .assertion := by
  refine ⟨canonicalForm_returns_iff t hg, fun e h => ?_⟩
  unfold STab.canonicalForm at h
  split at h
  · cases h
  · injection h with h; exact h.symm

/-- **Uniqueness of the shape** (every n): two real commuting tableaux in `Canon` shape that generate the same signed
    group are equal row by row — Pauli strings *and* sign bits (uniqueness of the reduced row echelon form over the
    2n-bit symplectic vectors with the pivot order of `canonical_form`; a sign is determined by its Pauli string because
    the group of a `Canon` tableau does not contain `−I`). -/
theorem canon_shape_unique (a b : STab) (ha : STab.Canon a) (hb : STab.Canon b) (ga : a.Good) (gb : b.Good)
    (s : a.n = b.n ∧ ∀ p, a.Spn p ↔ b.Spn p) : SameRows a b :=
  ⟨s.1, canon_unique a b ha hb ga gb ⟨s.1, fun p => (s.2 p).1, fun p => (s.2 p).2⟩⟩

/-- **The executable shape checker is sound**: a tableau accepted by `STab.isCanon` (driver command `stab.iscanon`, which
    the correspondence harness runs on every canonical form the *real* `canonical_form` returns) has the shape `Canon`;
    so two accepted real commuting tableaux with the same signed group are row-wise equal (`canon_shape_unique`). -/
theorem shape_checker_sound (c : STab) (h : c.isCanon = true) : STab.Canon c := isCanon_sound c h

/-- the full normal-form statement: `canonical_form` is a *normal form* for the signed group — two real commuting
    generating sets of the same signed group have row-wise equal canonical forms (completeness of `Stabilizer.__eq__`:
    it never reports two equal states different).  Proved below as `canonical_form_is_normal_form`; it is pure Gaussian
    elimination and does not depend on `inverse_circuit`.

    The second half of C05, the value of the overlap, is proved further below (`inner_product_zero_iff`,
    `inner_product_exponent`, …), unconditionally since `inverse_circuit` is proved to reach |0…0⟩
    (`C11.inverse_circuit_ends_in_zero`; D42 repaired in graphiq 74abae4). -/
def canonical_form_is_normal_form_statement : Prop :=
  ∀ (a b ca cb : STab), a.Good → b.Good → (a.n = b.n ∧ ∀ p, a.Spn p ↔ b.Spn p) →
    a.canonicalForm = .ok ca → b.canonicalForm = .ok cb → SameRows ca cb

/-- **Completeness of state equality / `canonical_form` is a normal form** (every n, every pair of generating sets):
    if two real commuting tableaux generate the same signed group and `canonical_form` returns on both, the two results
    are equal row by row, sign bits included. -/
theorem canonical_form_is_normal_form : canonical_form_is_normal_form_statement := by
  intro a b ca cb ha hb hs h1 h2
  obtain ⟨s1, g1⟩ := canonicalForm_spanEq a ca ha h1
  obtain ⟨s2, g2⟩ := canonicalForm_spanEq b cb hb h2
  have s : SpanEq ca cb := (s1.symm.trans ⟨hs.1, fun p => (hs.2 p).1, fun p => (hs.2 p).2⟩).trans s2
  exact canon_shape_unique ca cb (canonicalForm_canon a ca h1) (canonicalForm_canon b cb h2) g1 g2
    ⟨s.n_eq, fun p => ⟨s.sub p, s.sup p⟩⟩

/-- **The canonical form depends only on the state — as a value** (every n ≥ 1): two real commuting generating sets of the
    same signed group get *equal* canonical forms (not only row-wise equal below the size: `canonical_form` returns a
    tabulated tableau), so everything computed from the canonical form alone — `Stabilizer.__eq__`, `inverse_circuit`,
    `fidelity` — is a function of the state. -/
theorem canonical_form_depends_only_on_state (a b ca cb : STab) (ga : a.Good) (gb : b.Good)
    (hs : a.n = b.n ∧ ∀ p, a.Spn p ↔ b.Spn p) (ha : a.canonicalForm = .ok ca) (hb : b.canonicalForm = .ok cb)
    (hn : 0 < a.n) : ca = cb :=
  canonicalForm_eq_of_spanEq a b ca cb ga gb ⟨hs.1, fun p => (hs.2 p).1, fun p => (hs.2 p).2⟩ ha hb hn

/-- **State equality is exact** (every n): for real commuting generating sets on which `canonical_form` returns, the
    canonical forms coincide row by row *iff* the two sets generate the same signed group (soundness `equality_sound` +
    completeness `canonical_form_is_normal_form`). -/
theorem equality_exact (a b ca cb : STab) (ha : a.Good) (hb : b.Good)
    (h1 : a.canonicalForm = .ok ca) (h2 : b.canonicalForm = .ok cb) :
    SameRows ca cb ↔ (a.n = b.n ∧ ∀ p, a.Spn p ↔ b.Spn p) :=
  ⟨equality_sound a b ca cb ha hb h1 h2, fun hs => canonical_form_is_normal_form a b ca cb ha hb hs h1 h2⟩


/-! ## The fidelity half: `inner_product` computes the stabilizer overlap

  Specification (Proofs/InnerProductSpec.lean), for the signed groups `A`, `B` of two `n`-qubit stabilizer states |a⟩, |b⟩:
  * `Orth A B`         — some Pauli `P` lies in `A` and `−P` lies in `B`;                          then ⟨a|b⟩ = 0;
  * `OverlapDim A B d` — `A ∩ B` has an independent generating set of `d` elements (`|A ∩ B| = 2^d`; `d` is unique:
                         `overlap_dim_unique`);                        then, if not `Orth A B`, |⟨a|b⟩|² = 2^{-(n-d)}.
  Both are properties of the two groups, not of the generating sets.  The Hilbert-space reading on the right is textbook
  mathematics (Aaronson–Gottesman 2004; Garcia–Markov–Cross 2012) and is cited, **not** proved here.

  The model `STab.innerProduct a b` returns `ok none` for the value `0` and `ok (some e)` for the value `2^{-e/2}`
  (fidelity `2^{-e}`).  The theorems below are **unconditional** (every n, every pair of real commuting generating sets,
  every destabilizer half): the former hypothesis `hzero` — the tableau `s1` that `inverse_circuit` returns for the
  first argument is the tableau of |0…0⟩ — is a theorem since the repair of D42 in graphiq 74abae4
  (`C11.inverse_circuit_ends_in_zero`, Proofs/InvBridge.lean).  The conditional forms are kept with the suffix `_of_zero`;
  the correspondence harness still evaluates `isZero` on every input as a regression. -/

/-- `x = ok v`, from a Boolean evaluation (there is no `DecidableEq (Except _ _)`) -/
theorem ok_of_check (x : Except Err (Option Nat)) (v : Option Nat)
    (h : (match x with | .ok r => r == v | .error _ => false) = true) : x = .ok v := by
  cases x with
  | error e => simp at h
  | ok r => simp at h; rw [h]

/-- the statement as it was kept while D42 was open: the reported value is 0 exactly when the groups contain a Pauli with
    opposite signs -/
def inner_product_zero_iff_statement : Prop :=
  ∀ (a b : Tab) (r : Option Nat), (STab.ofTab a).Good → (STab.ofTab b).Good → STab.innerProduct a b = .ok r →
    (r = none ↔ Orth (STab.ofTab a) (STab.ofTab b))

/-- **Zero overlap is exact** (every n, every pair of generating sets, every destabilizer half): `inner_product` reports 0
    **iff** the two signed groups contain a Pauli `P` and its negative `−P` — which is when ⟨a|b⟩ = 0. -/
theorem inner_product_zero_iff : inner_product_zero_iff_statement :=
  fun a b r ga gb h => innerProduct_none_iff_full a b r ga gb h

/-- conditional form (hypothesis `hzero` explicit), as proved before the repair of D42 -/
theorem inner_product_zero_iff_of_zero (a b : Tab) (s1 : STab) (circ : List Gate) (r : Option Nat)
    (ga : (STab.ofTab a).Good) (gb : (STab.ofTab b).Good)
    (hs : (STab.ofTab a).inverseCircuit = .ok (s1, circ)) (hzero : s1.isZero = true)
    (h : STab.innerProduct a b = .ok r) :
    r = none ↔ Orth (STab.ofTab a) (STab.ofTab b) :=
  innerProduct_none_iff a b s1 circ r ga gb hs hzero h

/-- a non-zero value `2^{-e/2}` has `e = n − dim(A ∩ B)` -/
def inner_product_exponent_statement : Prop :=
  ∀ (a b : Tab) (e : Nat), (STab.ofTab a).Good → (STab.ofTab b).Good → STab.innerProduct a b = .ok (some e) →
    e ≤ a.n ∧ ¬ Orth (STab.ofTab a) (STab.ofTab b) ∧ OverlapDim (STab.ofTab a) (STab.ofTab b) (a.n - e)

/-- **The non-zero overlap is exact** (every n).  If `inner_product` reports `2^{-e/2}` then `e ≤ n`, the groups are not
    orthogonal, and the common subgroup `A ∩ B` has an independent generating set of exactly `n − e` elements:
    `e = n − dim(A ∩ B)`, i.e. fidelity `2^{-(n - dim(A ∩ B))}` (`dim` is well defined: `overlap_dim_unique`). -/
theorem inner_product_exponent : inner_product_exponent_statement := by
  intro a b e ga gb h
  obtain ⟨h1, h2, h3, _⟩ := innerProduct_some_full a b (some e) ga gb h e rfl
  exact ⟨h1, h2, h3⟩

/-- … moreover `e` is what the code counts: in the canonical form `s2` of the second state transformed by the gate list
    `circ` synthesised for the first, exactly the rows `i < e` carry an x-bit, and the `n − e` x-free rows `e..n-1` all
    have the sign `+`. -/
theorem inner_product_exponent_counts (a b : Tab) (e : Nat) (ga : (STab.ofTab a).Good) (gb : (STab.ofTab b).Good)
    (h : STab.innerProduct a b = .ok (some e)) :
    ∃ s1 circ s2, (STab.ofTab a).inverseCircuit = .ok (s1, circ) ∧
      (STab.ofTab (b.runCircuit circ)).canonicalForm = .ok s2 ∧
      (∀ i, i < a.n → (((List.range a.n).any fun j => (s2.row i).x j) = true ↔ i < e)) ∧
      (∀ i, e ≤ i → i < a.n → (s2.row i).r = false) :=
  (innerProduct_some_full a b (some e) ga gb h e rfl).2.2.2

/-- the rank in `OverlapDim` is a property of the two groups: two independent generating sets of `A ∩ B` have the same size -/
theorem overlap_dim_unique (A B : STab) (hg : A.Good) (hn : A.n = B.n) (d d2 : Nat)
    (h : OverlapDim A B d) (h2 : OverlapDim A B d2) : d = d2 := overlapDim_unique A B hg hn d d2 h h2

/-- the fidelity of a state with itself is 1 -/
def fidelity_self_statement : Prop :=
  ∀ (a : Tab) (r : Option Nat), (STab.ofTab a).Good → STab.innerProduct a a = .ok r → r = some 0

/-- **Fidelity of a state with itself is 1** (every n): whatever `inner_product` of a real commuting generating set with
    itself returns is the value 1 … -/
theorem fidelity_self : fidelity_self_statement :=
  fun a r ga h => innerProduct_self_val a r ga h

/-- … **and on a stabilizer state (independent generators) it does return**: `inner_product a a = 1`. -/
theorem fidelity_self_returns (a : Tab) (ga : (STab.ofTab a).Good) (ia : (STab.ofTab a).Indep) :
    STab.innerProduct a a = .ok (some 0) :=
  innerProduct_self_full a ga ia

/-- conditional form (hypothesis `hzero` explicit) -/
theorem fidelity_self_of_zero (a : Tab) (s1 : STab) (circ : List Gate) (ga : (STab.ofTab a).Good)
    (hs : (STab.ofTab a).inverseCircuit = .ok (s1, circ)) (hzero : s1.isZero = true) :
    STab.innerProduct a a = .ok (some 0) :=
  innerProduct_self a s1 circ ga hs hzero

/-- **`inner_product` returns on every pair of stabilizer states of the same size** (every n): for two tableaux of the
    same size whose stabilizer halves are independent real commuting generating sets, no internal assert of
    `inner_product`, `inverse_circuit` or `canonical_form` fails and no IndexError is raised. -/
theorem inner_product_returns (a b : Tab) (ga : (STab.ofTab a).Good) (gb : (STab.ofTab b).Good)
    (ia : (STab.ofTab a).Indep) (ib : (STab.ofTab b).Indep) (hn : a.n = b.n) : ∃ r, STab.innerProduct a b = .ok r :=
  innerProduct_total_full a b ga gb ia ib hn

/-- … and it returns *only* on pairs of the same size whose first argument is an independent generating set -/
theorem inner_product_returns_only_if (a b : Tab) (r : Option Nat) (ga : (STab.ofTab a).Good)
    (h : STab.innerProduct a b = .ok r) : a.n = b.n ∧ (STab.ofTab a).Indep :=
  innerProduct_ok_indep a b r ga h

/-- fidelity 1 iff same state -/
def fidelity_one_iff_statement : Prop :=
  ∀ (a b : Tab) (r : Option Nat), (STab.ofTab a).Good → (STab.ofTab b).Good → STab.innerProduct a b = .ok r →
    (r = some 0 ↔ ((STab.ofTab a).n = (STab.ofTab b).n ∧ ∀ p, (STab.ofTab a).Spn p ↔ (STab.ofTab b).Spn p))

/-- **Fidelity 1 exactly for equal states** (every n): `inner_product` reports 1 **iff** the two generating sets generate
    the same signed group. -/
theorem fidelity_one_iff : fidelity_one_iff_statement := by
  intro a b r ga gb h
  rw [innerProduct_one_iff_full a b r ga gb h]
  exact ⟨fun s => ⟨s.n_eq, fun p => ⟨s.sub p, s.sup p⟩⟩, fun s => ⟨s.1, fun p => (s.2 p).1, fun p => (s.2 p).2⟩⟩

/-- the two argument orders report the same value -/
def fidelity_symmetric_statement : Prop :=
  ∀ (a b : Tab) (rab rba : Option Nat), (STab.ofTab a).Good → (STab.ofTab b).Good →
    STab.innerProduct a b = .ok rab → STab.innerProduct b a = .ok rba → rab = rba

/-- **The fidelity is symmetric** (every n): the two argument orders report the same value — `Orth` is symmetric, and
    the rank of `A ∩ B` is symmetric and unique.  (Both calls return on stabilizer states: `inner_product_returns`.) -/
theorem fidelity_symmetric : fidelity_symmetric_statement :=
  fun a b rab rba ga gb hab hba => innerProduct_symm_full a b rab rba ga gb hab hba

/-- **The fidelity is a function of the two states, not of the generating sets or destabilizers** (every n): if `a`, `a'`
    generate the same signed group and so do `b`, `b'`, then `inner_product a b` and `inner_product a' b'` report the
    same value. -/
theorem fidelity_presentation_independent (a a' b b' : Tab) (r r' : Option Nat)
    (ga : (STab.ofTab a).Good) (gb : (STab.ofTab b).Good) (ga' : (STab.ofTab a').Good) (gb' : (STab.ofTab b').Good)
    (sa : SpanEq (STab.ofTab a) (STab.ofTab a')) (sb : SpanEq (STab.ofTab b) (STab.ofTab b'))
    (h : STab.innerProduct a b = .ok r) (h' : STab.innerProduct a' b' = .ok r') : r = r' :=
  innerProduct_congr a a' b b' r r' ga gb ga' gb' sa sb h h'

/-! ### The Hilbert-space reading: the reported value *is* the overlap of the two states

  `Hilbert.rho n T = ∏_i (1 + P_i)/2` is the density matrix of the stabilizer tableau `T` (matrices over ℂ indexed by bit
  strings; `pauliMat` is shown in C07 to be the Kronecker product graphiq builds).  For the stabilizer half of a valid
  Clifford tableau it is a pure state (`C07.stabilizer_state_is_pure`: `ρ² = ρ = ρ†`, `tr ρ = 1`, `ρ ≥ 0`), so
  `tr(ρ_a ρ_b) = |⟨a|b⟩|²`.  What was cited as textbook mathematics before (Aaronson–Gottesman; Garcia–Markov–Cross) is
  now a theorem about the model. -/

/-- **The fidelity is the overlap of the two states** (every n, every pair of real commuting generating sets, every
    destabilizer half): if `inner_product` reports the value 0 then `tr(ρ_a ρ_b) = 0`, and if it reports `2^{-e/2}` then
    `tr(ρ_a ρ_b) = 2^{-e}` — which is the number `abs(2**(-e/2))**2` that `fidelity` returns.
    (`Hilbert.ipVal none = 0`, `Hilbert.ipVal (some e) = (1/2)^e`.) -/
theorem fidelity_is_state_overlap (a b : Tab) (r : Option Nat) (ga : (STab.ofTab a).Good) (gb : (STab.ofTab b).Good)
    (h : STab.innerProduct a b = .ok r) :
    Matrix.trace (Hilbert.rho a.n (STab.ofTab a) * Hilbert.rho a.n (STab.ofTab b)) = Hilbert.ipVal r :=
  Hilbert.innerProduct_trace a b r ga gb h

/-- the same for valid Clifford tableaux (what the stabilizer backend holds): both density matrices are pure states -/
theorem fidelity_is_state_overlap_of_valid (a b : Tab) (r : Option Nat) (va : a.Valid) (vb : b.Valid)
    (h : STab.innerProduct a b = .ok r) :
    Matrix.trace (Hilbert.rho a.n (STab.ofTab a) * Hilbert.rho a.n (STab.ofTab b)) = Hilbert.ipVal r ∧
    Matrix.trace (Hilbert.rho a.n (STab.ofTab a)) = 1 ∧ Matrix.trace (Hilbert.rho b.n (STab.ofTab b)) = 1 :=
  ⟨Hilbert.innerProduct_trace a b r (Hilbert.ofTab_good a va) (Hilbert.ofTab_good b vb) h,
    Hilbert.rho_ofTab_trace a va, Hilbert.rho_ofTab_trace b vb⟩

/-- **The fidelity is |⟨a|b⟩|²** (every n): for two stabilizer states (real commuting generators; the second one
    independent, the first one is because `inner_product` returned) there are unit vectors `ψ_a`, `ψ_b` with
    `ρ_a = |ψ_a⟩⟨ψ_a|`, `ρ_b = |ψ_b⟩⟨ψ_b|` — the states prepared from |0…0⟩ by the reversed synthesised circuits — and the
    squared modulus of their inner product is exactly the value reported: `0` for `none`, `2^{-e}` for `some e`. -/
theorem fidelity_is_squared_inner_product (a b : Tab) (r : Option Nat) (ga : (STab.ofTab a).Good)
    (gb : (STab.ofTab b).Good) (ib : (STab.ofTab b).Indep) (h : STab.innerProduct a b = .ok r) :
    ∃ ψa ψb : Hilbert.Bits a.n → ℂ,
      (∑ x, star (ψa x) * ψa x = 1) ∧ (∑ x, star (ψb x) * ψb x = 1) ∧
      (∀ x y, Hilbert.rho a.n (STab.ofTab a) x y = ψa x * star (ψa y)) ∧
      (∀ x y, Hilbert.rho a.n (STab.ofTab b) x y = ψb x * star (ψb y)) ∧
      (∑ x, star (ψa x) * ψb x) * star (∑ x, star (ψa x) * ψb x) = Hilbert.ipVal r := by
  obtain ⟨hn, ia⟩ := innerProduct_ok_indep a b r ga h
  obtain ⟨ta, ca, ha, _⟩ := inverseCircuit_complete _ ga ia
  obtain ⟨tb, cb, hb, _⟩ := inverseCircuit_complete _ gb ib
  obtain ⟨a1, a2⟩ := Hilbert.rho_rank_one _ ta ca ga ha
  obtain ⟨b1, b2⟩ := Hilbert.rho_rank_one _ tb cb gb hb
  have nb : (STab.ofTab b).n = a.n := hn.symm
  rw [nb] at b1 b2
  refine ⟨_, _, a2, b2, a1, b1, ?_⟩
  exact (Hilbert.trace_rank_one _ _ _ _ a1 b1).symm.trans (Hilbert.innerProduct_trace a b r ga gb h)

/-- **On valid Clifford tableaux — what the stabilizer backend holds — nothing is assumed** (every n): for two valid
    tableaux of the same size `inner_product` returns; the fidelity of a tableau with itself is 1; and the reported value
    is `|⟨ψ_a|ψ_b⟩|²` for unit vectors with `ρ_a = |ψ_a⟩⟨ψ_a|`, `ρ_b = |ψ_b⟩⟨ψ_b|`. -/
theorem fidelity_on_valid_tableaux (a b : Tab) (va : a.Valid) (vb : b.Valid) (hn : a.n = b.n) :
    STab.innerProduct a a = .ok (some 0) ∧
    ∃ r, STab.innerProduct a b = .ok r ∧
      ∃ ψa ψb : Hilbert.Bits a.n → ℂ,
        (∑ x, star (ψa x) * ψa x = 1) ∧ (∑ x, star (ψb x) * ψb x = 1) ∧
        (∀ x y, Hilbert.rho a.n (STab.ofTab a) x y = ψa x * star (ψa y)) ∧
        (∀ x y, Hilbert.rho a.n (STab.ofTab b) x y = ψb x * star (ψb y)) ∧
        (∑ x, star (ψa x) * ψb x) * star (∑ x, star (ψa x) * ψb x) = Hilbert.ipVal r := by
  have ga := ofTab_good_of_valid a va
  have gb := ofTab_good_of_valid b vb
  have ia := ofTab_indep a va
  have ib := ofTab_indep b vb
  obtain ⟨r, hr⟩ := inner_product_returns a b ga gb ia ib hn
  exact ⟨fidelity_self_returns a ga ia, r, hr, fidelity_is_squared_inner_product a b r ga gb ib hr⟩

/-- **The executable specification is exact** (every n): the brute-force test `STab.orthB` (driver command `stab.overlap`,
    which the correspondence harness compares with the *real* `fidelity` on every pair with n ≤ 3) decides `Orth`, and the
    membership test behind its count `STab.commonCount` decides "this subset product of `a`'s rows lies in the group of
    `b`" — so the predicates the fidelity theorems speak about are themselves checked against the code's values.
    That the count equals `2^dim(A ∩ B)` is `overlap_spec_count_exact` below. -/
theorem overlap_spec_checker_exact (a b : STab) (ga : a.Good) (gb : b.Good) (hn : a.n = b.n) :
    (a.orthB b = true ↔ Orth a b) ∧ ∀ ma, (a.commonB b ma = true ↔ b.Spn (mprod a.n a.row ma a.n)) :=
  ⟨orthB_iff a b ga gb hn, commonB_iff a b gb hn⟩

/-- **… and its count is `2^dim(A ∩ B)`** (every n): for independent real commuting generators of `A` the number
    `STab.commonCount` of subsets of `A`'s rows whose product lies in the group of `B` — the number the harness reads from
    the driver and compares with the real fidelity — is `2^d` whenever `A ∩ B` has an independent generating set of `d`
    elements (`|A ∩ B| = 2^dim`). -/
theorem overlap_spec_count_exact (a b : STab) (ga : a.Good) (gb : b.Good) (ia : a.Indep) (hn : a.n = b.n) (d : Nat)
    (h : OverlapDim a b d) : a.commonCount b = 2 ^ d :=
  commonCount_eq a b ga gb ia hn d h

/-! ### Further consequences -/

/-- **`canonical_form` is idempotent** (every n): on its own result it returns, and returns the same rows. -/
theorem canonical_form_idempotent (t c : STab) (hg : t.Good) (h : t.canonicalForm = .ok c) :
    ∃ c', c.canonicalForm = .ok c' ∧ SameRows c' c := by
  obtain ⟨s, gc⟩ := canonicalForm_spanEq t c hg h
  have it : t.Indep := (canonicalForm_returns_iff t hg).1 ⟨c, h⟩
  -- `c` is independent as well: it generates the same group, so `canonical_form` returns on it
  have ic : c.Indep := by
    obtain ⟨k, px, pz, hx, hz⟩ := canonicalForm_canon t c h
    intro S hS i hi
    exact canon_rows_indep c k px pz hx hz S (by
      have hb : SameBits c.n (sprod c.n c.row S c.n) PRow.one := by
        intro j hj; rw [sprod_x, sprod_z]; exact hS j hj
      have hsp := sprod_spn c S c.n (Nat.le_refl _)
      have := canon_trivial c k px pz hx hz gc _ hsp (fun i hi => (hb _ (hx.piv_lt i (Nat.zero_le _) hi)).1)
        (fun i h1 h2 => (hb _ (hz.piv_lt i h1 h2)).2)
      exact this) i hi
  obtain ⟨c', hc'⟩ := canonicalForm_of_indep c gc ic
  refine ⟨c', hc', ?_⟩
  exact canonical_form_is_normal_form c t c' c gc hg ⟨s.n_eq.symm, fun p => ⟨s.sup p, s.sub p⟩⟩ hc' h

/-- **State equality via canonical forms is an equivalence relation** on generating sets on which `canonical_form` returns -/
theorem equality_is_equivalence (a b c ca cb cc : STab) (ga : a.Good) (gb : b.Good) (gc : c.Good)
    (ha : a.canonicalForm = .ok ca) (hb : b.canonicalForm = .ok cb) (hc : c.canonicalForm = .ok cc) :
    SameRows ca ca ∧ (SameRows ca cb → SameRows cb ca) ∧ (SameRows ca cb → SameRows cb cc → SameRows ca cc) := by
  refine ⟨⟨rfl, fun i _ => EqOn.refl _ _⟩, fun h => ?_, fun h1 h2 => ?_⟩
  · have := (equality_exact a b ca cb ga gb ha hb).1 h
    exact (equality_exact b a cb ca gb ga hb ha).2 ⟨this.1.symm, fun p => (this.2 p).symm⟩
  · have e1 := (equality_exact a b ca cb ga gb ha hb).1 h1
    have e2 := (equality_exact b c cb cc gb gc hb hc).1 h2
    exact (equality_exact a c ca cc ga gc ha hc).2 ⟨e1.1.trans e2.1, fun p => (e1.2 p).trans (e2.2 p)⟩

/-- **The fidelity takes values in `{0} ∪ {2^{-e} : e ≤ n}`**, is at most 1, and is 1 only for `e = 0` -/
theorem fidelity_value_set (a b : Tab) (r : Option Nat) (ga : (STab.ofTab a).Good) (gb : (STab.ofTab b).Good)
    (h : STab.innerProduct a b = .ok r) : r = none ∨ ∃ e, r = some e ∧ e ≤ a.n := by
  cases hr : r with
  | none => left; rfl
  | some e =>
    right
    rw [hr] at h
    exact ⟨e, rfl, (inner_product_exponent a b e ga gb h).1⟩


theorem half_pow_eq_one (e : Nat) (h : (1 / 2 : ℂ) ^ e = 1) : e = 0 := by
  cases e with
  | zero => rfl
  | succ k =>
    exfalso
    have h2 : (2 : ℂ) ^ (k + 1) = 1 := by
      have : (1 / 2 : ℂ) ^ (k + 1) * (2 : ℂ) ^ (k + 1) = 1 := by
        rw [← mul_pow]; norm_num
      rw [h, _root_.one_mul] at this
      exact this
    have h3 : ((2 ^ (k + 1) : ℕ) : ℂ) = ((1 : ℕ) : ℂ) := by push_cast; exact h2
    have h4 : 2 ^ (k + 1) = 1 := Nat.cast_injective h3
    have : 2 ^ (k + 1) ≥ 2 := by
      calc 2 ^ (k + 1) = 2 ^ k * 2 := pow_succ 2 k
        _ ≥ 1 * 2 := Nat.mul_le_mul_right 2 (Nat.one_le_two_pow)
    omega

/-- **Two valid tableaux describe the same density matrix iff their stabilizer halves generate the same signed group**
    (every n): the group-level semantics used throughout (C01, C02, C07, C08, C11) is *faithful* — equality of signed groups
    is exactly equality of states. -/
theorem same_density_matrix_iff_same_group (a b : Tab) (va : a.Valid) (vb : b.Valid) (hn : a.n = b.n) :
    Hilbert.rho a.n (STab.ofTab a) = Hilbert.rho a.n (STab.ofTab b) ↔
      ((STab.ofTab a).n = (STab.ofTab b).n ∧ ∀ p, (STab.ofTab a).Spn p ↔ (STab.ofTab b).Spn p) := by
  have ga := ofTab_good_of_valid a va
  have gb := ofTab_good_of_valid b vb
  constructor
  · intro h
    obtain ⟨r, hr⟩ := inner_product_returns a b ga gb (ofTab_indep a va) (ofTab_indep b vb) hn
    have ht := fidelity_is_state_overlap a b r ga gb hr
    have hid : Hilbert.rho a.n (STab.ofTab a) * Hilbert.rho a.n (STab.ofTab a) = Hilbert.rho a.n (STab.ofTab a) :=
      Hilbert.rho_idem _ ga
    rw [← h, hid, Hilbert.rho_ofTab_trace a va] at ht
    have hr0 : r = some 0 := by
      cases hr' : r with
      | none => rw [hr'] at ht; simp [Hilbert.ipVal] at ht
      | some e =>
        rw [hr'] at ht
        have : e = 0 := half_pow_eq_one e (by simpa [Hilbert.ipVal] using ht.symm)
        rw [this]
    exact (fidelity_one_iff a b r ga gb hr).1 hr0
  · intro h
    exact Hilbert.rho_spanEq _ _ ⟨h.1, fun p => (h.2 p).1, fun p => (h.2 p).2⟩ ga gb


/-- **… and the same for stabilizer tableaux** (`n` independent real commuting generators each): equal density matrices iff
    equal signed groups. -/
theorem same_state_iff_same_group (t t' : STab) (g : t.Good) (g' : t'.Good) (i : t.Indep) (i' : t'.Indep) (hn : t.n = t'.n) :
    Hilbert.rho t.n t = Hilbert.rho t.n t' ↔ (t.n = t'.n ∧ ∀ p, t.Spn p ↔ t'.Spn p) := by
  obtain ⟨T, _, n1, v1, _, s1⟩ := cliffordFromStabilizer_complete t g i
  obtain ⟨T', _, n2, v2, _, s2⟩ := cliffordFromStabilizer_complete t' g' i'
  have e1 : Hilbert.rho t.n (STab.ofTab T) = Hilbert.rho t.n t := by
    have := Hilbert.rho_spanEq (STab.ofTab T) t s1 (Hilbert.ofTab_good T v1) g
    have e : (STab.ofTab T).n = t.n := n1
    rw [e] at this; exact this
  have e2 : Hilbert.rho t.n (STab.ofTab T') = Hilbert.rho t.n t' := by
    have := Hilbert.rho_spanEq (STab.ofTab T') t' s2 (Hilbert.ofTab_good T' v2) g'
    have e : (STab.ofTab T').n = t.n := n2.trans hn.symm
    rw [e] at this; exact this
  have key := same_density_matrix_iff_same_group T T' v1 v2 (n1.trans (hn.trans n2.symm))
  rw [n1, e1, e2] at key
  rw [key]
  constructor
  · intro h
    have s : SpanEq t t' := (s1.symm.trans ⟨h.1, fun p => (h.2 p).1, fun p => (h.2 p).2⟩).trans s2
    exact ⟨s.n_eq, fun p => ⟨s.sub p, s.sup p⟩⟩
  · intro h
    have s : SpanEq (STab.ofTab T) (STab.ofTab T') := (s1.trans ⟨h.1, fun p => (h.2 p).1, fun p => (h.2 p).2⟩).trans s2.symm
    exact ⟨s.n_eq, fun p => ⟨s.sub p, s.sup p⟩⟩


/-! ### Non-vacuity -/
def bellMinus : STab :=   -- generators −XX, ZZ in the gauge (−XX·ZZ = YY, ZZ):  YY, ZZ
  STab.ofRows 2 #[
    PRow.ofArrays #[true,true] #[true,true] false false,
    PRow.ofArrays #[false,false] #[true,true] false false]

example : (match bellMinus.canonicalForm with | .ok c => c.n == 2 | .error _ => false) = true := by decide
example : (List.range 2).all (fun i => (bellMinus.row i).ip == false &&
    (List.range 2).all fun k => PRow.sp 2 (bellMinus.row i) (bellMinus.row k) == false) = true := by decide

/-- the same state from another generating set: −XX, ZZ -/
def bellMinusXX : STab :=
  STab.ofRows 2 #[
    PRow.ofArrays #[true,true] #[false,false] true false,
    PRow.ofArrays #[false,false] #[true,true] false false]

theorem good2 (t : STab) (hn : t.n = 2)
    (h : (List.range 2).all (fun i => (t.row i).ip == false &&
      (List.range 2).all fun k => PRow.sp 2 (t.row i) (t.row k) == false) = true) : t.Good := by
  simp only [List.all_eq_true, List.mem_range, Bool.and_eq_true, beq_iff_eq] at h
  constructor
  · intro i hi; exact (h i (hn ▸ hi)).1
  · intro i k hi hk; rw [hn]; exact (h i (hn ▸ hi)).2 k (hn ▸ hk)

theorem bellMinus_good : bellMinus.Good := good2 _ rfl (by decide)
theorem bellMinusXX_good : bellMinusXX.Good := good2 _ rfl (by decide)

/-- `YY, ZZ` and `−XX, ZZ` generate the same signed group (`−XX = YY · ZZ`, `YY = −XX · ZZ`) -/
theorem bell_spanEq : SpanEq bellMinus bellMinusXX := by
  apply spanEq_of_gens bellMinus bellMinusXX rfl
  · intro i hi
    have : i = 0 ∨ i = 1 := by have : i < 2 := hi; omega
    rcases this with rfl | rfl
    · exact InSpan.eqv _ _ (InSpan.mul _ _ (spn_gen bellMinus 0 (by decide)) (spn_gen bellMinus 1 (by decide)))
        (beqOn_eqOn _ _ _ (by decide))
    · exact InSpan.eqv _ _ (spn_gen bellMinus 1 (by decide)) (beqOn_eqOn _ _ _ (by decide))
  · intro i hi
    have : i = 0 ∨ i = 1 := by have : i < 2 := hi; omega
    rcases this with rfl | rfl
    · exact InSpan.eqv _ _ (InSpan.mul _ _ (spn_gen bellMinusXX 0 (by decide)) (spn_gen bellMinusXX 1 (by decide)))
        (beqOn_eqOn _ _ _ (by decide))
    · exact InSpan.eqv _ _ (spn_gen bellMinusXX 1 (by decide)) (beqOn_eqOn _ _ _ (by decide))

/-- the checker accepts a non-trivial tableau (−XX, ZZ) and rejects a non-reduced one (YY, ZZ) -/
example : bellMinusXX.isCanon = true ∧ bellMinus.isCanon = false := by decide

theorem canonicalForm_ok (t : STab) (h : t.canonLoops.2 = t.n) : t.canonicalForm = .ok t.canonLoops.1 := by
  unfold canonicalForm; rw [if_pos h]

/-- the hypotheses of `canonical_form_is_normal_form` / `equality_exact` / `canon_shape_unique` /
    `canonical_form_returns_canon` are met by two *different* generating sets of one state on which `canonical_form`
    returns (so the conclusion `SameRows ca cb` is not the trivial reflexive one) -/
example : ∃ a b ca cb : STab, a.Good ∧ b.Good ∧ (a.n = b.n ∧ ∀ p, a.Spn p ↔ b.Spn p) ∧
    a.canonicalForm = .ok ca ∧ b.canonicalForm = .ok cb ∧ ¬ SameRows a b ∧
    STab.Canon ca ∧ STab.Canon cb ∧ ca.Good ∧ cb.Good ∧ SameRows ca cb := by
  have h1 := canonicalForm_ok bellMinus (by decide)
  have h2 := canonicalForm_ok bellMinusXX (by decide)
  have hs : bellMinus.n = bellMinusXX.n ∧ ∀ p, bellMinus.Spn p ↔ bellMinusXX.Spn p :=
    ⟨rfl, fun p => ⟨bell_spanEq.sub p, bell_spanEq.sup p⟩⟩
  refine ⟨bellMinus, bellMinusXX, _, _, bellMinus_good, bellMinusXX_good, hs, h1, h2, ?_,
    canonical_form_returns_canon _ _ h1, canonical_form_returns_canon _ _ h2,
    (canonicalForm_spanEq _ _ bellMinus_good h1).2, (canonicalForm_spanEq _ _ bellMinusXX_good h2).2,
    canonical_form_is_normal_form _ _ _ _ bellMinus_good bellMinusXX_good hs h1 h2⟩
  intro h
  have := (h.2 0 (by decide)).2.1
  revert this
  decide

/-! ### Non-vacuity of the fidelity theorems -/

/-- a real commuting stabilizer half, from a Boolean evaluation -/
theorem good_of_check (t : STab)
    (h : (List.range t.n).all (fun i => (t.row i).ip == false &&
      (List.range t.n).all fun k => PRow.sp t.n (t.row i) (t.row k) == false) = true) : t.Good := by
  simp only [List.all_eq_true, List.mem_range, Bool.and_eq_true, beq_iff_eq] at h
  exact ⟨fun i hi => (h i hi).1, fun i k hi hk => (h i hi).2 k hk⟩

/-- Clifford tableaux (destabilizers X_i resp. Z_i) of (XX, ZZ), (−XX, ZZ) and (Z_0, Z_1) -/
def bellPlusTab : Tab := Tab.ofRows 2 #[PRow.Zq 0, PRow.Xq 1,
    PRow.ofArrays #[true,true] #[false,false] false false,
    PRow.ofArrays #[false,false] #[true,true] false false]
def bellMinusTab : Tab := Tab.ofRows 2 #[PRow.Zq 0, PRow.Xq 1,
    PRow.ofArrays #[true,true] #[false,false] true false,
    PRow.ofArrays #[false,false] #[true,true] false false]
def ket00Tab : Tab := Tab.ofRows 2 #[PRow.Xq 0, PRow.Xq 1,
    PRow.ofArrays #[false,false] #[true,false] false false,
    PRow.ofArrays #[false,false] #[false,true] false false]

/-- the pair `inverse_circuit` returns (the input with an empty list where it raises) -/
def invOut (t : STab) : STab × List Gate :=
  match t.inverseCircuit with
  | .ok p => p
  | .error _ => (t, [])

theorem inverseCircuit_ok (t : STab)
    (h : (match t.inverseCircuit with | .ok _ => true | .error _ => false) = true) :
    t.inverseCircuit = .ok ((invOut t).1, (invOut t).2) := by
  unfold invOut
  cases hx : t.inverseCircuit with
  | error e => rw [hx] at h; cases h
  | ok p => rfl

/-- the hypotheses of the fidelity theorems are met by concrete pairs, with all three kinds of result:
    Φ⁺ against Φ⁻ (orthogonal: result 0), Φ⁺ against |00⟩ (overlap 1/√2: `some 1`), Φ⁺ against itself (`some 0`);
    the syntheses of Φ⁺ and of |00⟩ reach |0…0⟩ -/
example : ∃ s1 circ, (STab.ofTab bellPlusTab).Good ∧ (STab.ofTab bellMinusTab).Good ∧ (STab.ofTab ket00Tab).Good ∧
    (STab.ofTab bellPlusTab).inverseCircuit = .ok (s1, circ) ∧ s1.isZero = true ∧ 0 < circ.length ∧
    STab.innerProduct bellPlusTab bellMinusTab = .ok none ∧
    STab.innerProduct bellPlusTab ket00Tab = .ok (some 1) ∧
    STab.innerProduct bellPlusTab bellPlusTab = .ok (some 0) :=
  ⟨_, _, good_of_check _ (by decide), good_of_check _ (by decide), good_of_check _ (by decide),
    inverseCircuit_ok _ (by decide +kernel), by decide +kernel, by decide +kernel,
    ok_of_check _ _ (by decide +kernel), ok_of_check _ _ (by decide +kernel), ok_of_check _ _ (by decide +kernel)⟩

/-- … and in the other argument order (hypotheses of `fidelity_symmetric`) -/
example : ∃ s1 circ, (STab.ofTab ket00Tab).inverseCircuit = .ok (s1, circ) ∧ s1.isZero = true ∧
    STab.innerProduct ket00Tab bellPlusTab = .ok (some 1) :=
  ⟨_, _, inverseCircuit_ok _ (by decide +kernel), by decide +kernel, ok_of_check _ _ (by decide +kernel)⟩

/-- so the two groups of Φ⁺ and Φ⁻ do contain a Pauli with opposite signs (here `XX` and `−XX`), and those of Φ⁺ and
    |00⟩ share a subgroup of rank 1 (generated by `ZZ`) — consequences of the theorems, not evaluations -/
example : Orth (STab.ofTab bellPlusTab) (STab.ofTab bellMinusTab) ∧ OverlapDim (STab.ofTab bellPlusTab) (STab.ofTab ket00Tab) 1 := by
  have hs := inverseCircuit_ok (STab.ofTab bellPlusTab) (by decide +kernel)
  have hz : (invOut (STab.ofTab bellPlusTab)).1.isZero = true := by decide +kernel
  have g1 : (STab.ofTab bellPlusTab).Good := good_of_check _ (by decide)
  have g2 : (STab.ofTab bellMinusTab).Good := good_of_check _ (by decide)
  have g3 : (STab.ofTab ket00Tab).Good := good_of_check _ (by decide)
  exact ⟨(inner_product_zero_iff _ _ _ g1 g2 (ok_of_check _ _ (by decide +kernel))).1 rfl,
    (inner_product_exponent _ _ 1 g1 g3 (ok_of_check _ _ (by decide +kernel))).2.2⟩

/-- the hypotheses of `inner_product_returns` / `fidelity_self_returns`: Φ⁺, Φ⁻ and |00⟩ are independent generating sets —
    derived (`inner_product_returns_only_if`) from the fact that `inner_product` returns on them, not assumed -/
theorem bell_indep : (STab.ofTab bellPlusTab).Indep ∧ (STab.ofTab bellMinusTab).Indep ∧ (STab.ofTab ket00Tab).Indep :=
  ⟨(inner_product_returns_only_if bellPlusTab bellPlusTab _ (good_of_check _ (by decide)) (ok_of_check _ (some 0) (by decide +kernel))).2,
   (inner_product_returns_only_if bellMinusTab bellMinusTab _ (good_of_check _ (by decide)) (ok_of_check _ (some 0) (by decide +kernel))).2,
   (inner_product_returns_only_if ket00Tab ket00Tab _ (good_of_check _ (by decide)) (ok_of_check _ (some 0) (by decide +kernel))).2⟩

example : ∃ r, STab.innerProduct bellPlusTab ket00Tab = .ok r :=
  inner_product_returns _ _ (good_of_check _ (by decide)) (good_of_check _ (by decide)) bell_indep.1 bell_indep.2.2 rfl

/-- the hypotheses of `fidelity_is_state_overlap_of_valid` are met by Φ⁺ and |00⟩ (valid Clifford tableaux); the theorem
    gives `tr(ρ_{Φ⁺} ρ_{00}) = 1/2` and `tr(ρ_{Φ⁺} ρ_{Φ⁻}) = 0` -/
example : bellPlusTab.Valid ∧ ket00Tab.Valid ∧
    Matrix.trace (Hilbert.rho 2 (STab.ofTab bellPlusTab) * Hilbert.rho 2 (STab.ofTab ket00Tab)) = 1 / 2 ∧
    Matrix.trace (Hilbert.rho 2 (STab.ofTab bellPlusTab) * Hilbert.rho 2 (STab.ofTab bellMinusTab)) = 0 := by
  have v1 : bellPlusTab.Valid := (Tab.isSymplectic_iff _).1 (by decide)
  have v2 : ket00Tab.Valid := (Tab.isSymplectic_iff _).1 (by decide)
  have v3 : bellMinusTab.Valid := (Tab.isSymplectic_iff _).1 (by decide)
  refine ⟨v1, v2, ?_, ?_⟩
  · have h := (fidelity_is_state_overlap_of_valid bellPlusTab ket00Tab (some 1) v1 v2 (ok_of_check _ _ (by decide +kernel))).1
    have e : Hilbert.ipVal (some 1) = 1 / 2 := by simp [Hilbert.ipVal]
    rw [e] at h; exact h
  · exact (fidelity_is_state_overlap_of_valid bellPlusTab bellMinusTab none v1 v3 (ok_of_check _ _ (by decide +kernel))).1

/-- the hypotheses of `fidelity_on_valid_tableaux` are met by Φ⁺ and |00⟩ -/
example : bellPlusTab.Valid ∧ ket00Tab.Valid ∧ bellPlusTab.n = ket00Tab.n :=
  ⟨(Tab.isSymplectic_iff _).1 (by decide), (Tab.isSymplectic_iff _).1 (by decide), rfl⟩

/-- the hypotheses of `overlap_spec_count_exact` are met by Φ⁺ against |00⟩ (rank 1 from `inner_product_exponent`): the
    theorem gives the count `2^1`, which is what the executable specification evaluates to -/
example : (STab.ofTab bellPlusTab).commonCount (STab.ofTab ket00Tab) = 2 ^ 1 := by
  have g1 : (STab.ofTab bellPlusTab).Good := good_of_check _ (by decide)
  have g3 : (STab.ofTab ket00Tab).Good := good_of_check _ (by decide)
  have hd : OverlapDim (STab.ofTab bellPlusTab) (STab.ofTab ket00Tab) 1 :=
    (inner_product_exponent bellPlusTab ket00Tab 1 g1 g3 (ok_of_check _ _ (by decide +kernel))).2.2
  exact overlap_spec_count_exact (STab.ofTab bellPlusTab) (STab.ofTab ket00Tab) g1 g3 bell_indep.1 rfl 1 hd

/-- `overlap_spec_checker_exact` here evaluates to: orthogonal, two common elements with |00⟩ -/
example : (STab.ofTab bellPlusTab).orthB (STab.ofTab bellMinusTab) = true ∧
    (STab.ofTab bellPlusTab).commonCount (STab.ofTab ket00Tab) = 2 :=
  ⟨by decide +kernel, by decide +kernel⟩

/-- Φ⁻ in the other gauge `YY, ZZ`, with other destabilizers -/
def bellMinusYYTab : Tab := Tab.ofRows 2 #[PRow.Xq 0, PRow.Zq 1,
    PRow.ofArrays #[true,true] #[true,true] false false,
    PRow.ofArrays #[false,false] #[true,true] false false]

/-- the hypotheses of `fidelity_presentation_independent` are met by two different presentations of Φ⁻ (against |00⟩);
    both calls return the same value, as the theorem says -/
example : ∃ r r', (STab.ofTab bellMinusTab).Good ∧ (STab.ofTab bellMinusYYTab).Good ∧
    SpanEq (STab.ofTab bellMinusTab) (STab.ofTab bellMinusYYTab) ∧
    STab.innerProduct bellMinusTab ket00Tab = .ok r ∧ STab.innerProduct bellMinusYYTab ket00Tab = .ok r' ∧ r = r' := by
  have g1 : (STab.ofTab bellMinusTab).Good := good_of_check _ (by decide)
  have g2 : (STab.ofTab bellMinusYYTab).Good := good_of_check _ (by decide)
  have g3 : (STab.ofTab ket00Tab).Good := good_of_check _ (by decide)
  have s : SpanEq (STab.ofTab bellMinusTab) (STab.ofTab bellMinusYYTab) := by
    apply spanEq_of_gens (STab.ofTab bellMinusTab) (STab.ofTab bellMinusYYTab) rfl
    · intro i hi
      have : i = 0 ∨ i = 1 := by have : i < 2 := hi; omega
      rcases this with rfl | rfl
      · exact InSpan.eqv _ _ (InSpan.mul _ _ (spn_gen (STab.ofTab bellMinusTab) 0 (by decide))
          (spn_gen (STab.ofTab bellMinusTab) 1 (by decide))) (beqOn_eqOn _ _ _ (by decide))
      · exact InSpan.eqv _ _ (spn_gen (STab.ofTab bellMinusTab) 1 (by decide)) (beqOn_eqOn _ _ _ (by decide))
    · intro i hi
      have : i = 0 ∨ i = 1 := by have : i < 2 := hi; omega
      rcases this with rfl | rfl
      · exact InSpan.eqv _ _ (InSpan.mul _ _ (spn_gen (STab.ofTab bellMinusYYTab) 0 (by decide))
          (spn_gen (STab.ofTab bellMinusYYTab) 1 (by decide))) (beqOn_eqOn _ _ _ (by decide))
      · exact InSpan.eqv _ _ (spn_gen (STab.ofTab bellMinusYYTab) 1 (by decide)) (beqOn_eqOn _ _ _ (by decide))
  have h1 : STab.innerProduct bellMinusTab ket00Tab = .ok (some 1) := ok_of_check _ _ (by decide +kernel)
  have h2 : STab.innerProduct bellMinusYYTab ket00Tab = .ok (some 1) := ok_of_check _ _ (by decide +kernel)
  exact ⟨_, _, g1, g2, s, h1, h2,
    fidelity_presentation_independent _ _ _ _ _ _ g1 g3 g2 g3 s (SpanEq.refl _) h1 h2⟩

/-- **The fidelity is invariant under applying the same Clifford circuit to both states** (every n, every well-formed gate
    list `c` of `run_circuit`): `fidelity(c·a, c·b) = fidelity(a, b)`. -/
theorem fidelity_circuit_invariant (a b : Tab) (c : List Gate) (hc : ∀ g, g ∈ c → g.WF a.n) (hn : b.n = a.n)
    (ga : (STab.ofTab a).Good) (gb : (STab.ofTab b).Good) (r r' : Option Nat)
    (h : STab.innerProduct a b = .ok r) (h' : STab.innerProduct (a.runCircuit c) (b.runCircuit c) = .ok r') : r = r' :=
  innerProduct_circuit_invariant a b c hc hn ga gb r r' h h'

/-- the hypotheses of `fidelity_circuit_invariant` are met by Φ⁺, |00⟩ and the list `H₀, CNOT₀₁, P₁`; both calls return
    the same value, as the theorem says -/
example : (∀ g, g ∈ [Gate.H 0, Gate.CNOT 0 1, Gate.P 1] → g.WF bellPlusTab.n) ∧
    STab.innerProduct bellPlusTab ket00Tab = .ok (some 1) ∧
    STab.innerProduct (bellPlusTab.runCircuit [Gate.H 0, Gate.CNOT 0 1, Gate.P 1])
      (ket00Tab.runCircuit [Gate.H 0, Gate.CNOT 0 1, Gate.P 1]) = .ok (some 1) := by
  refine ⟨?_, ok_of_check _ _ (by decide +kernel), ok_of_check _ _ (by decide +kernel)⟩
  intro g hg
  simp only [List.mem_cons, List.mem_nil_iff, or_false] at hg
  rcases hg with rfl | rfl | rfl
  · show 0 < 2; decide
  · show 0 < 2 ∧ 1 < 2 ∧ 0 ≠ 1; decide
  · show 1 < 2; decide

/-- **Infidelity of a branched mixed stabilizer state against a pure target** (`graphiq.metrics.Infidelity.evaluate`, every n,
    every finite mixture): the fidelity it forms, `Σ_i p_i · fidelity(T_t, T_i)`, is the overlap `tr(ρ_t · Σ_i p_i ρ_i)` of the
    target with the mixed density matrix (entries of the list: weight `p_i`, tableau `T_i`, and the value `r_i` reported by
    `inner_product(T_t, T_i)`). -/
theorem mixture_fidelity_is_state_overlap (a : Tab) (ga : (STab.ofTab a).Good) (l : List (ℂ × Tab × Option Nat))
    (h : ∀ x, x ∈ l → (STab.ofTab x.2.1).Good ∧ STab.innerProduct a x.2.1 = .ok x.2.2) :
    Matrix.trace (Hilbert.rho a.n (STab.ofTab a) * (l.map fun x => x.1 • Hilbert.rho a.n (STab.ofTab x.2.1)).sum)
      = (l.map fun x => x.1 * Hilbert.ipVal x.2.2).sum :=
  Hilbert.mixture_trace a ga l h

/-- the hypothesis is met by the mixture {¼: Φ⁻, ¾: |00⟩} against the target Φ⁺ -/
example : ∀ x, x ∈ [((1 / 4 : ℂ), bellMinusTab, (none : Option Nat)), ((3 / 4 : ℂ), ket00Tab, some 1)] →
    (STab.ofTab x.2.1).Good ∧ STab.innerProduct bellPlusTab x.2.1 = .ok x.2.2 := by
  intro x hx
  simp only [List.mem_cons, List.mem_nil_iff, or_false] at hx
  rcases hx with rfl | rfl
  · exact ⟨good_of_check _ (by decide), ok_of_check _ _ (by decide +kernel)⟩
  · exact ⟨good_of_check _ (by decide), ok_of_check _ _ (by decide +kernel)⟩

/-- the witness of the repaired defect D42 (`C11.d42`: −XIYXI, −IXXZZ, IIZZX, −ZIIZI, IZZZI) as a Clifford tableau
    (the destabilizer half is not read by `inner_product` on its first argument) -/
def d42Tab : Tab := Tab.ofRows 5 #[PRow.one, PRow.one, PRow.one, PRow.one, PRow.one,
    PRow.ofArrays #[true,false,true,true,false] #[false,false,true,false,false] true false,
    PRow.ofArrays #[false,true,true,false,false] #[false,false,false,true,true] true false,
    PRow.ofArrays #[false,false,false,false,true] #[false,false,true,true,false] false false,
    PRow.ofArrays #[false,false,false,false,false] #[true,false,false,true,false] true false,
    PRow.ofArrays #[false,false,false,false,false] #[false,true,true,true,false] false false]

/-- **Regression for D42** (kernel-checked): on the 5-qubit state for which `inverse_circuit` (before graphiq commit
    74abae4) did not reach |0…0⟩ and `inner_product` reported `2^{-1/2}` (fidelity 1/2) for the state with itself, the
    repaired synthesis reaches |0…0⟩ and the fidelity of the state with itself is 1. -/
theorem d42_witness_now_synthesised :
    (STab.ofTab d42Tab).Good ∧ (invOut (STab.ofTab d42Tab)).1.isZero = true ∧
    STab.innerProduct d42Tab d42Tab = .ok (some 0) :=
  ⟨good_of_check _ (by decide +kernel), by decide +kernel, ok_of_check _ _ (by decide +kernel)⟩

end Graphiq.C05
