/-
  C05 — stabilizer state comparison and fidelity are exact.
-/
import GraphiqModel.Proofs.InverseCircuit
import GraphiqModel.Proofs.CanonUnique
import GraphiqModel.Proofs.CanonCheck
namespace Graphiq.C05
open Graphiq Graphiq.PRow Graphiq.STab Graphiq.Tab

/-- **`canonical_form` depends only on, and preserves, the state** (one half: preservation; every n, every generating set):
    whenever it returns, its result generates the same signed group as its input — no sign is lost or flipped. -/
theorem canonical_form_preserves_state (t t' : STab) (hg : t.Good) (h : t.canonicalForm = .ok t') :
    t'.n = t.n ∧ (∀ a, t.Spn a ↔ t'.Spn a) := by
  obtain ⟨s, _⟩ := canonicalForm_spanEq t t' hg h
  exact ⟨s.n_eq.symm, fun a => ⟨s.sub a, s.sup a⟩⟩

/-- row-wise equality of two tableaux (what `StabilizerTableau.__eq__` compares: table and sign vector) -/
def SameRows (a b : STab) : Prop := a.n = b.n ∧ ∀ i, i < a.n → EqOn a.n (a.row i) (b.row i)

theorem spanEq_of_sameRows (a b : STab) (h : SameRows a b) : SpanEq a b := by
  apply spanEq_of_gens a b h.1.symm
  · intro i hi
    exact InSpan.eqv _ _ (spn_gen a i (h.1 ▸ hi)) (h.2 i (h.1 ▸ hi))
  · intro i hi
    have := (h.2 i hi).symm
    rw [h.1] at this
    exact InSpan.eqv _ _ (spn_gen b i (h.1 ▸ hi)) this

/-- **Soundness of state equality, sign-sensitive** (every n): if the canonical forms of two generating sets coincide
    row by row — which is what `Stabilizer.__eq__` tests — then the two sets generate the same signed group, i.e. the two
    objects are the same state. In particular two states that differ in the sign of a generator are never reported equal. -/
theorem equality_sound (a b ca cb : STab) (ha : a.Good) (hb : b.Good)
    (h1 : a.canonicalForm = .ok ca) (h2 : b.canonicalForm = .ok cb) (heq : SameRows ca cb) :
    a.n = b.n ∧ ∀ p, a.Spn p ↔ b.Spn p := by
  obtain ⟨s1, _⟩ := canonicalForm_spanEq a ca ha h1
  obtain ⟨s2, _⟩ := canonicalForm_spanEq b cb hb h2
  have s := (s1.trans (spanEq_of_sameRows ca cb heq)).trans s2.symm
  exact ⟨s.n_eq, fun p => ⟨s.sub p, s.sup p⟩⟩

/-- a sign flip changes the group: `+Z` and `−Z` generate different signed groups (so equality must, and does, separate them) -/
theorem sign_matters : ¬ (STab.zero 1).Spn (PRow.Zq 0 true) := by
  intro h
  -- every element of the span of {+Z_0} on one qubit has x-bit 0 and sign bit equal to ... we show r = false by induction
  have key : ∀ a, (STab.zero 1).Spn a → (a.x 0 = false ∧ a.r = false ∧ a.ip = false) := by
    intro a ha
    unfold Spn at ha
    induction ha with
    | one => exact ⟨rfl, rfl, rfl⟩
    | gen i hi =>
      have : i = 0 := by
        have : i < 1 := hi
        omega
      subst this; exact ⟨rfl, rfl, rfl⟩
    | mul a b _ _ iha ihb =>
      obtain ⟨ax, ar, ai⟩ := iha
      obtain ⟨bx, br, bi⟩ := ihb
      have hp := mul_ph 1 a b
      have g0 : gSum 1 a b = 0 := by
        unfold gSum sumTo sumTo
        rw [ax, bx]
        cases a.z 0 <;> cases b.z 0 <;> decide
      have pa : a.ph = 0 := by unfold PRow.ph; rw [ar, ai]; rfl
      have pb : b.ph = 0 := by unfold PRow.ph; rw [br, bi]; rfl
      rw [g0, pa, pb] at hp
      have hx : (PRow.mul 1 a b).x 0 = false := by simp [ax, bx]
      have hz : (PRow.mul 1 a b).ph = PRow.one.ph := by rw [hp]; rfl
      have := ph_inj _ _ hz
      exact ⟨hx, this.1, this.2⟩
    | eqv a b _ hab iha =>
      obtain ⟨ax, ar, ai⟩ := iha
      exact ⟨(hab.1 0 (by decide)).1 ▸ ax, hab.2.1 ▸ ar, hab.2.2 ▸ ai⟩
  have := (key _ h).2.1
  simp [PRow.Zq] at this

/-- the fidelity reported by `metric.fidelity` is always `0` or `2^{-k}` (by construction of `inner_product`) — the value set of
    |⟨a|b⟩|² for stabilizer states -/
theorem fidelity_value_set (a b : Tab) (r : Option Nat) (_ : STab.innerProduct a b = .ok r) :
    r = none ∨ ∃ k, r = some k := by
  cases r with
  | none => exact Or.inl rfl
  | some k => exact Or.inr ⟨k, rfl⟩

/-- **Postcondition of `canonical_form`** (every n, every input tableau, no hypothesis on the rows): whenever it returns,
    the result has the reduced echelon shape `STab.Canon` (Proofs/CanonShape.lean): there are `k` and pivot columns
    `px 0 < … < px (k-1)`, `pz k < … < pz (n-1)` such that
    * row `i < k` (X block) has x-bit 1 at column `px i`, no x-bit left of it, and *every other row* has x-bit 0 there;
    * the rows `k..n-1` (Z block) have no x-bit at all; row `i ≥ k` has z-bit 1 at column `pz i`, no z-bit left of it, and
      *every other row of the tableau*, X block included, has z-bit 0 there.
    Proved by loop invariants over the two `for` loops of the code (`canonStepXY`, `canonStepZ`). -/
theorem canonical_form_returns_canon (t c : STab) (h : t.canonicalForm = .ok c) : STab.Canon c :=
  canonicalForm_canon t c h

/-- **Uniqueness of the shape** (every n): two real commuting tableaux in `Canon` shape that generate the same signed
    group are equal row by row — Pauli strings *and* sign bits (uniqueness of the reduced row echelon form over the
    2n-bit symplectic vectors with the pivot order of `canonical_form`; a sign is determined by its Pauli string because
    the group of a `Canon` tableau does not contain `−I`). -/
theorem canon_shape_unique (a b : STab) (ha : STab.Canon a) (hb : STab.Canon b) (ga : a.Good) (gb : b.Good)
    (s : a.n = b.n ∧ ∀ p, a.Spn p ↔ b.Spn p) : SameRows a b :=
  ⟨s.1, canon_unique a b ha hb ga gb ⟨s.1, fun p => (s.2 p).1, fun p => (s.2 p).2⟩⟩

/-- **The executable shape checker is sound**: a tableau accepted by `STab.isCanon` (driver command `stab.iscanon`, which
    the correspondence harness runs on every canonical form the *real* `canonical_form` returns) has the shape `Canon`;
    so two accepted real commuting tableaux with the same signed group are row-wise equal (`canon_shape_unique`). -/
theorem shape_checker_sound (c : STab) (h : c.isCanon = true) : STab.Canon c := isCanon_sound c h

/-- the full normal-form statement: `canonical_form` is a *normal form* for the signed group — two real commuting
    generating sets of the same signed group have row-wise equal canonical forms (completeness of `Stabilizer.__eq__`:
    it never reports two equal states different).  Proved below as `canonical_form_is_normal_form`; it is pure Gaussian
    elimination and does not depend on `inverse_circuit`.

    What is still **not** a theorem of this development is the second half of C05, the value of the overlap:
    `inner_product` returns `0` if the groups contain `P` and `−P`, else `2^{-(n - dim(A ∩ B))/2}`.  That one rests on
    `inverse_circuit` always reaching |0…0⟩, which is false on the current code (C11 `synthesis_incomplete`, D42); on the
    inputs where the model reaches |0…0⟩ it is checked against an independent oracle on every correspondence input. -/
def canonical_form_is_normal_form_statement : Prop :=
  ∀ (a b ca cb : STab), a.Good → b.Good → (a.n = b.n ∧ ∀ p, a.Spn p ↔ b.Spn p) →
    a.canonicalForm = .ok ca → b.canonicalForm = .ok cb → SameRows ca cb

/-- **Completeness of state equality / `canonical_form` is a normal form** (every n, every pair of generating sets):
    if two real commuting tableaux generate the same signed group and `canonical_form` returns on both, the two results
    are equal row by row, sign bits included. -/
theorem canonical_form_is_normal_form : canonical_form_is_normal_form_statement := by
  intro a b ca cb ha hb hs h1 h2
  obtain ⟨s1, g1⟩ := canonicalForm_spanEq a ca ha h1
  obtain ⟨s2, g2⟩ := canonicalForm_spanEq b cb hb h2
  have s : SpanEq ca cb := (s1.symm.trans ⟨hs.1, fun p => (hs.2 p).1, fun p => (hs.2 p).2⟩).trans s2
  exact canon_shape_unique ca cb (canonicalForm_canon a ca h1) (canonicalForm_canon b cb h2) g1 g2
    ⟨s.n_eq, fun p => ⟨s.sub p, s.sup p⟩⟩

/-- **State equality is exact** (every n): for real commuting generating sets on which `canonical_form` returns, the
    canonical forms coincide row by row *iff* the two sets generate the same signed group (soundness `equality_sound` +
    completeness `canonical_form_is_normal_form`). -/
theorem equality_exact (a b ca cb : STab) (ha : a.Good) (hb : b.Good)
    (h1 : a.canonicalForm = .ok ca) (h2 : b.canonicalForm = .ok cb) :
    SameRows ca cb ↔ (a.n = b.n ∧ ∀ p, a.Spn p ↔ b.Spn p) :=
  ⟨equality_sound a b ca cb ha hb h1 h2, fun hs => canonical_form_is_normal_form a b ca cb ha hb hs h1 h2⟩

/-! ### Non-vacuity -/
def bellMinus : STab :=   -- generators −XX, ZZ in the gauge (−XX·ZZ = YY, ZZ):  YY, ZZ
  STab.ofRows 2 #[
    PRow.ofArrays #[true,true] #[true,true] false false,
    PRow.ofArrays #[false,false] #[true,true] false false]

example : (match bellMinus.canonicalForm with | .ok c => c.n == 2 | .error _ => false) = true := by decide
example : (List.range 2).all (fun i => (bellMinus.row i).ip == false &&
    (List.range 2).all fun k => PRow.sp 2 (bellMinus.row i) (bellMinus.row k) == false) = true := by decide

/-- the same state from another generating set: −XX, ZZ -/
def bellMinusXX : STab :=
  STab.ofRows 2 #[
    PRow.ofArrays #[true,true] #[false,false] true false,
    PRow.ofArrays #[false,false] #[true,true] false false]

theorem good2 (t : STab) (hn : t.n = 2)
    (h : (List.range 2).all (fun i => (t.row i).ip == false &&
      (List.range 2).all fun k => PRow.sp 2 (t.row i) (t.row k) == false) = true) : t.Good := by
  simp only [List.all_eq_true, List.mem_range, Bool.and_eq_true, beq_iff_eq] at h
  constructor
  · intro i hi; exact (h i (hn ▸ hi)).1
  · intro i k hi hk; rw [hn]; exact (h i (hn ▸ hi)).2 k (hn ▸ hk)

theorem bellMinus_good : bellMinus.Good := good2 _ rfl (by decide)
theorem bellMinusXX_good : bellMinusXX.Good := good2 _ rfl (by decide)

/-- `YY, ZZ` and `−XX, ZZ` generate the same signed group (`−XX = YY · ZZ`, `YY = −XX · ZZ`) -/
theorem bell_spanEq : SpanEq bellMinus bellMinusXX := by
  apply spanEq_of_gens bellMinus bellMinusXX rfl
  · intro i hi
    have : i = 0 ∨ i = 1 := by have : i < 2 := hi; omega
    rcases this with rfl | rfl
    · exact InSpan.eqv _ _ (InSpan.mul _ _ (spn_gen bellMinus 0 (by decide)) (spn_gen bellMinus 1 (by decide)))
        (beqOn_eqOn _ _ _ (by decide))
    · exact InSpan.eqv _ _ (spn_gen bellMinus 1 (by decide)) (beqOn_eqOn _ _ _ (by decide))
  · intro i hi
    have : i = 0 ∨ i = 1 := by have : i < 2 := hi; omega
    rcases this with rfl | rfl
    · exact InSpan.eqv _ _ (InSpan.mul _ _ (spn_gen bellMinusXX 0 (by decide)) (spn_gen bellMinusXX 1 (by decide)))
        (beqOn_eqOn _ _ _ (by decide))
    · exact InSpan.eqv _ _ (spn_gen bellMinusXX 1 (by decide)) (beqOn_eqOn _ _ _ (by decide))

/-- the checker accepts a non-trivial tableau (−XX, ZZ) and rejects a non-reduced one (YY, ZZ) -/
example : bellMinusXX.isCanon = true ∧ bellMinus.isCanon = false := by decide

theorem canonicalForm_ok (t : STab) (h : t.canonLoops.2 = t.n) : t.canonicalForm = .ok t.canonLoops.1 := by
  unfold canonicalForm; rw [if_pos h]

/-- the hypotheses of `canonical_form_is_normal_form` / `equality_exact` / `canon_shape_unique` /
    `canonical_form_returns_canon` are met by two *different* generating sets of one state on which `canonical_form`
    returns (so the conclusion `SameRows ca cb` is not the trivial reflexive one) -/
example : ∃ a b ca cb : STab, a.Good ∧ b.Good ∧ (a.n = b.n ∧ ∀ p, a.Spn p ↔ b.Spn p) ∧
    a.canonicalForm = .ok ca ∧ b.canonicalForm = .ok cb ∧ ¬ SameRows a b ∧
    STab.Canon ca ∧ STab.Canon cb ∧ ca.Good ∧ cb.Good ∧ SameRows ca cb := by
  have h1 := canonicalForm_ok bellMinus (by decide)
  have h2 := canonicalForm_ok bellMinusXX (by decide)
  have hs : bellMinus.n = bellMinusXX.n ∧ ∀ p, bellMinus.Spn p ↔ bellMinusXX.Spn p :=
    ⟨rfl, fun p => ⟨bell_spanEq.sub p, bell_spanEq.sup p⟩⟩
  refine ⟨bellMinus, bellMinusXX, _, _, bellMinus_good, bellMinusXX_good, hs, h1, h2, ?_,
    canonical_form_returns_canon _ _ h1, canonical_form_returns_canon _ _ h2,
    (canonicalForm_spanEq _ _ bellMinus_good h1).2, (canonicalForm_spanEq _ _ bellMinusXX_good h2).2,
    canonical_form_is_normal_form _ _ _ _ bellMinus_good bellMinusXX_good hs h1 h2⟩
  intro h
  have := (h.2 0 (by decide)).2.1
  revert this
  decide

end Graphiq.C05
