import GraphiqModel.Proofs.Wire
namespace Graphiq.C13
open Graphiq Graphiq.Wire

theorem copy_preserves_flat (c : Circuit) : c.copy.flat = c.flat := rfl

end Graphiq.C13
