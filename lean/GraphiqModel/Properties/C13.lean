/-
  C13 — circuit rewrites preserve the state; library calls do not mutate their inputs.

  Property theorems only (helper lemmas live in Proofs/Wire.lean).

  Objects.  `Wire.Circuit` is the wire-level view of a `CircuitDAG`.  `c.flat` is what the circuit *does*: the register
  counts and, for every quantum register, the sequence of base one-qubit gates (wrappers expanded in application
  order — a wrapper's class list is "last listed acts first" —, identities dropped) and of occurrences of
  multi-register / measuring operations.  `c.sops seq` is the compile sequence `sequence(unwrapped=True)` along a
  topological order `seq` (identities, no-ops of both compilers, dropped); `runSeq app l s` applies a list of
  operations to a state under an arbitrary semantics `app`.

  First half (rewrites): proved for every circuit, every iteration order of the Python dictionaries and every
  topological order.  §2 states the semantic theorems for an abstract semantics `app` under the hypothesis that operations
  on disjoint quantum registers commute; §2b discharges that hypothesis for the verified stabilizer semantics (C07's group
  transformers, outcomes attached to the measuring operations) and §2c ties that semantics to the compile loop `stabRun`,
  so that "rewrites preserve the compiled state / compile does not depend on the topological order" is a theorem about
  the tableaux the stabilizer backend produces, with no physical assumption.  §2d: gate-only circuits — literally the
  same tableau; §2e: the classical record; §2e′: the probability of the outcome assignment; §2f: the conclusions as
  equalities of density matrices.  (The density-matrix backend is compared with the stabilizer backend branch by branch
  by the correspondence run.)
  Second half (aliasing): *partial by nature* — see §3.
-/
import GraphiqModel.Proofs.Wire
import GraphiqModel.Proofs.CommuteTableau
import GraphiqModel.Proofs.CommuteRecordRw
import GraphiqModel.Proofs.CommuteHilbert
import GraphiqModel.Proofs.CommuteProb
namespace Graphiq.C13
open Graphiq Graphiq.Wire

/-! ## 1. the rewrites are list identities on wires -/

theorem copy_preserves_flat (c : Circuit) : c.copy.flat = c.flat := flat_copy c

/-- `remove_identity`, for every iteration order of `node_dict["Identity"]` and every circuit -/
theorem remove_identity_preserves_flat (c : Circuit) (order : List Nat) : (c.removeIdentity order).flat = c.flat :=
  flat_removeIdentity c order

/-- `unwrap_nodes`, for every iteration order of `node_dict["OneQubitGateWrapper"]` -/
theorem unwrap_preserves_flat (c : Circuit) (order : List Nat) (hwf : c.WF) : (c.unwrapNodes order).flat = c.flat :=
  (flat_unwrapNodes c order hwf).2

/-- `group_one_qubit_gates`, for every register order: the backward collection order and the wrapper convention cancel;
    a `MeasurementZ` (which also carries the label `one-qubit`) is a boundary (fix D48) -/
theorem group_preserves_flat (c : Circuit) (order : List Reg) (hwf : c.WF) (har : c.Arity1) :
    (c.groupOneQubitGates order).flat = c.flat :=
  (flat_groupOneQubitGates c order hwf har).2.2

/-- `assign_noise(∅)`: re-adding every operation along any topological order -/
theorem assign_noise_preserves_flat (c : Circuit) (seq : List Nat) (c' : Circuit) (hwf : c.WF) (hok : c.OpsOk)
    (h : c.assignNoise seq = Except.ok c') : c'.flat = c.flat :=
  (flat_assignNoise c seq c' hwf hok h).1

/-- all five at once, on sane circuits (`Good`: well-formed wires; every operation has a quantum register,
    duplicate-free registers, existing classical registers; one-qubit gates act on one register) -/
theorem rewrite_preserves_flat (c c' : Circuit) (hgood : c.Good) (h : Rewrites c c') : c'.flat = c.flat :=
  h.flat_eq hgood

/-- sanity is preserved, so rewrites can be chained -/
theorem rewrite_preserves_sanity (c c' : Circuit) (hgood : c.Good) (h : Rewrites c c') : c'.Good := h.good hgood

/-! ## 2. the compiled state factors through `flat` -/

/-- two sequences of operations with the same per-register subsequences compute the same state, for every semantics in
    which operations on disjoint registers commute -/
theorem same_wires_same_state {ι σ : Type} [DecidableEq ι] (regs : ι → List Reg) (app : ι → σ → σ)
    (hcomm : ∀ a b, (∀ r, r ∈ regs a → r ∉ regs b) → ∀ s, app a (app b s) = app b (app a s))
    (l1 l2 : List ι) (hne1 : ∀ a, a ∈ l1 → regs a ≠ []) (hne2 : ∀ a, a ∈ l2 → regs a ≠ [])
    (h : ∀ r, projReg regs r l1 = projReg regs r l2) (s : σ) : runSeq app l1 s = runSeq app l2 s :=
  runSeq_eq_of_proj_eq regs app hcomm l1 l2 hne1 hne2 h s

/-- the state does not depend on which topological order `sequence()` returns -/
theorem compile_independent_of_topological_order {σ : Type} (app : SOp → σ → σ)
    (hcomm : ∀ a b : SOp, (∀ r, r ∈ a.regs → r ∉ b.regs) → ∀ s, app a (app b s) = app b (app a s))
    (c : Circuit) (hgood : c.Good) (seq1 seq2 : List Nat)
    (hl1 : c.isLinearExtension seq1 = true) (hl2 : c.isLinearExtension seq2 = true) (s : σ) :
    runSeq app (c.sops seq1) s = runSeq app (c.sops seq2) s :=
  denote_eq_of_flat_eq app hcomm c c hgood.1 hgood.1 (good_arity1 hgood) (good_arity1 hgood)
    (good_qNonempty hgood) (good_qNonempty hgood) seq1 seq2 hl1 hl2 rfl s

/-- **copying, unwrapping, grouping, removing identities and attaching an empty noise map do not change the state the
    circuit compiles to** — whatever topological orders the two compilations use -/
theorem rewrite_preserves_compiled_state {σ : Type} (app : SOp → σ → σ)
    (hcomm : ∀ a b : SOp, (∀ r, r ∈ a.regs → r ∉ b.regs) → ∀ s, app a (app b s) = app b (app a s))
    (c c' : Circuit) (hgood : c.Good) (h : Rewrites c c') (seq seq' : List Nat)
    (hl : c.isLinearExtension seq = true) (hl' : c'.isLinearExtension seq' = true) (s : σ) :
    runSeq app (c'.sops seq') s = runSeq app (c.sops seq) s := by
  have hg' := h.good hgood
  exact denote_eq_of_flat_eq app hcomm c' c hg'.1 hgood.1 (good_arity1 hg') (good_arity1 hgood)
    (good_qNonempty hg') (good_qNonempty hgood) seq' seq hl' hl (h.flat_eq hgood) s

/-- the same for any finite chain of rewrites (`Commute.RewritesStar`; sanity is preserved along the chain) -/
theorem rewrite_chain_preserves_compiled_state {σ : Type} (app : SOp → σ → σ)
    (hcomm : ∀ a b : SOp, (∀ r, r ∈ a.regs → r ∉ b.regs) → ∀ s, app a (app b s) = app b (app a s))
    (c c' : Circuit) (hgood : c.Good) (h : Commute.RewritesStar c c') (seq seq' : List Nat)
    (hl : c.isLinearExtension seq = true) (hl' : c'.isLinearExtension seq' = true) (s : σ) :
    runSeq app (c'.sops seq') s = runSeq app (c.sops seq) s := by
  have hg' := h.good hgood
  exact denote_eq_of_flat_eq app hcomm c' c hg'.1 hgood.1 (good_arity1 hg') (good_arity1 hgood)
    (good_qNonempty hg') (good_qNonempty hgood) seq' seq hl' hl (h.flat_eq hgood) s

/-! ## 2b. the commutation hypothesis discharged: the verified stabilizer semantics

  `Commute.appG ne np : SOp → GSt ne np → GSt ne np` (Proofs/CommuteSem) is the semantics of one operation of the compile
  sequence on states "stabilizer group of a valid tableau on `ne + np` qubits + the unread measurement outcomes of every
  register" (or "cannot occur"): gates act by C07's `specGate`, measurements by C07's `specMeasure`; the outcome of a
  measuring operation is attached to the *operation* (the k-th measuring operation on a wire takes the k-th entry of that
  wire's outcome stream), and a recorded outcome of probability zero makes the run impossible.  In this semantics the
  hypothesis `hcomm` of the theorems of §2 is a theorem (`stabilizer_ops_on_disjoint_registers_commute`), so the three
  theorems hold for the stabilizer semantics with no physical assumption left. -/

/-- **operations on disjoint quantum registers commute in the stabilizer semantics** — gate/gate (pointwise on rows),
    gate/measurement, measurement/measurement (the same outcome pairs are possible in both orders and give the same group),
    classically controlled gates and measure-and-reset; for every state -/
theorem stabilizer_ops_on_disjoint_registers_commute (ne np : Nat) (a b : SOp) (h : ∀ r, r ∈ a.regs → r ∉ b.regs)
    (s : Commute.GSt ne np) :
    Commute.appG ne np a (Commute.appG ne np b s) = Commute.appG ne np b (Commute.appG ne np a s) :=
  Commute.appG_comm ne np a b h s

/-- `same_wires_same_state` for the stabilizer semantics, no hypothesis on the semantics left -/
theorem same_wires_same_state_stab (ne np : Nat) (l1 l2 : List SOp) (hne1 : ∀ a, a ∈ l1 → a.regs ≠ [])
    (hne2 : ∀ a, a ∈ l2 → a.regs ≠ []) (h : ∀ r, projReg SOp.regs r l1 = projReg SOp.regs r l2) (s : Commute.GSt ne np) :
    runSeq (Commute.appG ne np) l1 s = runSeq (Commute.appG ne np) l2 s :=
  same_wires_same_state SOp.regs (Commute.appG ne np) (Commute.appG_comm ne np) l1 l2 hne1 hne2 h s

/-- **the stabilizer state a circuit compiles to does not depend on the topological order** `sequence()` returns: same
    stabilizer group (and the same outcome assignments are possible), for every circuit, every pair of linear extensions,
    every initial state and every assignment of outcomes to the measuring operations -/
theorem compile_independent_of_topological_order_stab (ne np : Nat) (c : Circuit) (hgood : c.Good) (seq1 seq2 : List Nat)
    (hl1 : c.isLinearExtension seq1 = true) (hl2 : c.isLinearExtension seq2 = true) (s : Commute.GSt ne np) :
    runSeq (Commute.appG ne np) (c.sops seq1) s = runSeq (Commute.appG ne np) (c.sops seq2) s :=
  compile_independent_of_topological_order (Commute.appG ne np) (Commute.appG_comm ne np) c hgood seq1 seq2 hl1 hl2 s

/-- for any finite chain of the five rewrites (`Commute.RewritesStar`) —
    **copying, unwrapping, grouping, removing identities and attaching an empty noise map do not change the stabilizer
    state the circuit compiles to**, whatever topological orders the two compilations use, for every assignment of
    outcomes to the measuring operations (named by their position on the wire of the measured qubit, which the rewrites
    preserve) -/
theorem rewrite_chain_preserves_compiled_state_stab (ne np : Nat) (c c' : Circuit) (hgood : c.Good) (h : Commute.RewritesStar c c')
    (seq seq' : List Nat) (hl : c.isLinearExtension seq = true) (hl' : c'.isLinearExtension seq' = true)
    (s : Commute.GSt ne np) :
    runSeq (Commute.appG ne np) (c'.sops seq') s = runSeq (Commute.appG ne np) (c.sops seq) s :=
  rewrite_chain_preserves_compiled_state (Commute.appG ne np) (Commute.appG_comm ne np) c c' hgood h seq seq' hl hl' s

/-- **copying, unwrapping, grouping, removing identities and attaching an empty noise map do not change the stabilizer
    state the circuit compiles to**, whatever topological orders the two compilations use, for every assignment of
    outcomes to the measuring operations (named by their position on the wire of the measured qubit, which the rewrites
    preserve) -/
theorem rewrite_preserves_compiled_state_stab (ne np : Nat) (c c' : Circuit) (hgood : c.Good) (h : Rewrites c c')
    (seq seq' : List Nat) (hl : c.isLinearExtension seq = true) (hl' : c'.isLinearExtension seq' = true)
    (s : Commute.GSt ne np) :
    runSeq (Commute.appG ne np) (c'.sops seq') s = runSeq (Commute.appG ne np) (c.sops seq) s :=
  rewrite_chain_preserves_compiled_state_stab ne np c c' hgood (Commute.RewritesStar.single h) seq seq' hl hl' s

/-- for any finite chain of the five rewrites (`Commute.RewritesStar`) —
    read on the compile loop proper: started in `|0…0⟩` with the circuit's own register counts, the rewritten circuit
    ends in the same stabilizer group as the original (or both runs are impossible for that outcome assignment) -/
theorem rewrite_chain_preserves_compiled_group (c c' : Circuit) (hgood : c.Good) (h : Commute.RewritesStar c c') (seq seq' : List Nat)
    (hl : c.isLinearExtension seq = true) (hl' : c'.isLinearExtension seq' = true) (sc : Commute.Script) :
    runSeq (Commute.appRaw c.ne c.np) (c'.sops seq') (some (TabSpec.gstate (Tab.ket0 (c.ne + c.np)), sc)) =
      runSeq (Commute.appRaw c.ne c.np) (c.sops seq) (some (TabSpec.gstate (Tab.ket0 (c.ne + c.np)), sc)) := by
  have := rewrite_chain_preserves_compiled_state_stab c.ne c.np c c' hgood h seq seq' hl hl' (Commute.GSt.init c.ne c.np sc)
  have h2 := congrArg Subtype.val this
  rw [Commute.runSeq_appG_val, Commute.runSeq_appG_val] at h2
  exact h2

/-- read on the compile loop proper: started in `|0…0⟩` with the circuit's own register counts, the rewritten circuit
    ends in the same stabilizer group as the original (or both runs are impossible for that outcome assignment) -/
theorem rewrite_preserves_compiled_group (c c' : Circuit) (hgood : c.Good) (h : Rewrites c c') (seq seq' : List Nat)
    (hl : c.isLinearExtension seq = true) (hl' : c'.isLinearExtension seq' = true) (sc : Commute.Script) :
    runSeq (Commute.appRaw c.ne c.np) (c'.sops seq') (some (TabSpec.gstate (Tab.ket0 (c.ne + c.np)), sc)) =
      runSeq (Commute.appRaw c.ne c.np) (c.sops seq) (some (TabSpec.gstate (Tab.ket0 (c.ne + c.np)), sc)) :=
  rewrite_chain_preserves_compiled_group c c' hgood (Commute.RewritesStar.single h) seq seq' hl hl' sc

/-! ## 2c. the compile loop of the stabilizer backend refines that semantics

  `stabRun` / `stepOp` (Model/Circuit.lean) is the function-by-function model of `CompilerBase.compile` +
  `StabilizerCompiler.compile_one_gate` that C01 compares with the real compiler on every run.  Each of its steps, under
  every measurement setting (`Det`: forced 0, forced 1, probabilistic with a drawn script), acts on the stabilizer group of
  the tableau as `appRaw` does with the outcome the step recorded; so the theorems of §2b are theorems about the tableaux
  the compile loop produces. -/

/-- **the stabilizer compile loop refines the group semantics**: if the loop runs the compile sequence of a sane circuit
    (along any node order `seq`, under any measurement setting and drawn script) to the state `s'`, then the tableau stays
    valid and the group semantics, run on the outcome streams made of the outcomes `s'.outs` the loop recorded, is possible
    and ends in exactly the stabilizer group of the final tableau, with all outcomes read -/
theorem compile_loop_refines_stabilizer_semantics (c : Circuit) (hgood : c.Good) (har : Commute.ArityOk c) (seq : List Nat)
    (d : Det) (script : List Bool) (s' : RunState)
    (h : stabRun c.ne c.np d script ((c.sops seq).map Commute.toCOp) = some s') :
    s'.t.Valid ∧ ∀ sc, runSeq (Commute.appRaw c.ne c.np) (c.sops seq)
        (some (TabSpec.gstate (Tab.ket0 (c.ne + c.np)), Commute.feed c.ne c.np (c.sops seq) s'.outs sc)) =
      some (TabSpec.gstate s'.t, sc) :=
  ⟨(Commute.stabRun_refines c hgood har seq d script s' h).1.valid, (Commute.stabRun_refines c hgood har seq d script s' h).2⟩

/-- the hypothesis `hout` of the theorems below, spelled out: the per-register outcome streams of two runs agree iff on every
    register the measuring operations recorded, in the order of that wire, the same outcomes (`Commute.outsOn`) -/
theorem same_outcome_streams_iff (c c' : Circuit) (seq seq' : List Nat) (outs outs' : List Bool) :
    Commute.feed c.ne c.np (c.sops seq) outs (fun _ => []) = Commute.feed c'.ne c'.np (c'.sops seq') outs' (fun _ => []) ↔
      ∀ r, Commute.outsOn c.ne c.np (c.sops seq) outs r = Commute.outsOn c'.ne c'.np (c'.sops seq') outs' r :=
  Commute.feed_eq_iff _ _ _ _ _ _ _ _

/-- **and conversely (completeness)**: every run of the compile sequence that is possible in the group semantics — from
    `|0…0⟩`, reading the outcome streams `F` completely — is produced by the compile loop in probabilistic mode under some
    script of drawn bits: the loop ends in a tableau with exactly the final group and records exactly the outcomes read -/
theorem compile_loop_complete_for_stabilizer_semantics (c : Circuit) (hgood : c.Good) (har : Commute.ArityOk c)
    (seq : List Nat) (F : Commute.Script) (g' : TabSpec.GState)
    (h : runSeq (Commute.appRaw c.ne c.np) (c.sops seq) (some (TabSpec.gstate (Tab.ket0 (c.ne + c.np)), F)) =
      some (g', fun _ => [])) :
    ∃ (script : List Bool) (s' : RunState),
      stabRun c.ne c.np .prob script ((c.sops seq).map Commute.toCOp) = some s' ∧ TabSpec.gstate s'.t = g' ∧
        F = Commute.feed c.ne c.np (c.sops seq) s'.outs (fun _ => []) :=
  Commute.stabRun_complete c hgood har seq F g' h

/-- **the tableau the stabilizer backend compiles to does not depend on the topological order**: two runs of the compile
    loop on the same sane circuit, along any two linear extensions of its DAG, under any measurement settings and scripts, in
    which every measuring operation recorded the same outcome (`hout`: the per-register outcome streams agree), end in
    tableaux with the same signed stabilizer group -/
theorem compiled_tableau_independent_of_topological_order (c : Circuit) (hgood : c.Good) (har : Commute.ArityOk c)
    (seq1 seq2 : List Nat) (hl1 : c.isLinearExtension seq1 = true) (hl2 : c.isLinearExtension seq2 = true)
    (d1 d2 : Det) (script1 script2 : List Bool) (s1 s2 : RunState)
    (h1 : stabRun c.ne c.np d1 script1 ((c.sops seq1).map Commute.toCOp) = some s1)
    (h2 : stabRun c.ne c.np d2 script2 ((c.sops seq2).map Commute.toCOp) = some s2)
    (hout : Commute.feed c.ne c.np (c.sops seq1) s1.outs (fun _ => []) =
      Commute.feed c.ne c.np (c.sops seq2) s2.outs (fun _ => [])) :
    ∀ P, TabSpec.Grp s1.t P ↔ TabSpec.Grp s2.t P := by
  have r1 := (Commute.stabRun_refines c hgood har seq1 d1 script1 s1 h1).2 (fun _ => [])
  have r2 := (Commute.stabRun_refines c hgood har seq2 d2 script2 s2 h2).2 (fun _ => [])
  have e := compile_independent_of_topological_order_stab c.ne c.np c hgood seq1 seq2 hl1 hl2
    (Commute.GSt.init c.ne c.np (Commute.feed c.ne c.np (c.sops seq1) s1.outs (fun _ => [])))
  have e' := congrArg Subtype.val e
  rw [Commute.runSeq_appG_val, Commute.runSeq_appG_val] at e'
  have e'' : some (TabSpec.gstate s1.t, (fun _ => [] : Commute.Script)) = some (TabSpec.gstate s2.t, fun _ => []) := by
    rw [← r1, ← r2, ← hout]; exact e'
  simp only [Option.some.injEq, Prod.mk.injEq, and_true] at e''
  intro P
  show (TabSpec.gstate s1.t).G P ↔ (TabSpec.gstate s2.t).G P
  rw [e'']

/-- for any finite chain of the five rewrites (`Commute.RewritesStar`) —
    **the tableau the stabilizer backend compiles a rewritten circuit to**: the original and the copied / unwrapped /
    grouped / identity-free / empty-noise-map circuit, each compiled along any topological order under any measurement
    setting, with every measuring operation recording the same outcome in both runs, end in tableaux with the same signed
    stabilizer group -/
theorem rewrite_chain_preserves_compiled_tableau (c c' : Circuit) (hgood : c.Good) (har : Commute.ArityOk c) (h : Commute.RewritesStar c c')
    (seq seq' : List Nat) (hl : c.isLinearExtension seq = true) (hl' : c'.isLinearExtension seq' = true)
    (d d' : Det) (script script' : List Bool) (s s' : RunState)
    (h1 : stabRun c.ne c.np d script ((c.sops seq).map Commute.toCOp) = some s)
    (h2 : stabRun c'.ne c'.np d' script' ((c'.sops seq').map Commute.toCOp) = some s')
    (hout : Commute.feed c.ne c.np (c.sops seq) s.outs (fun _ => []) =
      Commute.feed c'.ne c'.np (c'.sops seq') s'.outs (fun _ => [])) :
    ∀ P, TabSpec.Grp s.t P ↔ TabSpec.Grp s'.t P := by
  have hflat := h.flat_eq hgood
  have hne : c'.ne = c.ne := by simp only [Circuit.flat, Prod.mk.injEq] at hflat; exact hflat.1
  have hnp : c'.np = c.np := by simp only [Circuit.flat, Prod.mk.injEq] at hflat; exact hflat.2.1
  have r1 := (Commute.stabRun_refines c hgood har seq d script s h1).2 (fun _ => [])
  have r2 := (Commute.stabRun_refines c' (h.good hgood) (h.arityOk hgood har) seq' d' script' s' h2).2
    (fun _ => [])
  rw [hne, hnp] at r2
  rw [hne, hnp] at hout
  have e := rewrite_chain_preserves_compiled_group c c' hgood h seq seq' hl hl'
    (Commute.feed c.ne c.np (c.sops seq) s.outs (fun _ => []))
  have e'' : some (TabSpec.gstate s.t, (fun _ => [] : Commute.Script)) = some (TabSpec.gstate s'.t, fun _ => []) := by
    rw [← r1, ← r2, ← hout]; exact e.symm
  simp only [Option.some.injEq, Prod.mk.injEq, and_true] at e''
  intro P
  show (TabSpec.gstate s.t).G P ↔ (TabSpec.gstate s'.t).G P
  rw [e'']

/-- **the tableau the stabilizer backend compiles a rewritten circuit to**: the original and the copied / unwrapped /
    grouped / identity-free / empty-noise-map circuit, each compiled along any topological order under any measurement
    setting, with every measuring operation recording the same outcome in both runs, end in tableaux with the same signed
    stabilizer group -/
theorem rewrite_preserves_compiled_tableau (c c' : Circuit) (hgood : c.Good) (har : Commute.ArityOk c) (h : Rewrites c c')
    (seq seq' : List Nat) (hl : c.isLinearExtension seq = true) (hl' : c'.isLinearExtension seq' = true)
    (d d' : Det) (script script' : List Bool) (s s' : RunState)
    (h1 : stabRun c.ne c.np d script ((c.sops seq).map Commute.toCOp) = some s)
    (h2 : stabRun c'.ne c'.np d' script' ((c'.sops seq').map Commute.toCOp) = some s')
    (hout : Commute.feed c.ne c.np (c.sops seq) s.outs (fun _ => []) =
      Commute.feed c'.ne c'.np (c'.sops seq') s'.outs (fun _ => [])) :
    ∀ P, TabSpec.Grp s.t P ↔ TabSpec.Grp s'.t P :=
  rewrite_chain_preserves_compiled_tableau c c' hgood har (Commute.RewritesStar.single h)
    seq seq' hl hl' d d' script script' s s' h1 h2 hout

/-- **for every run along one topological order there is a run along any other one that records the same outcome at every
    measuring operation, and it ends in the same stabilizer group** — so the hypothesis `hout` of
    `compiled_tableau_independent_of_topological_order` can always be met: given a run of the compile loop along `seq1`
    (any measurement setting), the loop along `seq2` in probabilistic mode, under a suitable script of drawn bits, records
    the same per-register outcome streams and ends in a tableau with the same signed stabilizer group -/
theorem compiled_run_exists_in_every_topological_order (c : Circuit) (hgood : c.Good) (har : Commute.ArityOk c)
    (seq1 seq2 : List Nat) (hl1 : c.isLinearExtension seq1 = true) (hl2 : c.isLinearExtension seq2 = true)
    (d1 : Det) (script1 : List Bool) (s1 : RunState)
    (h1 : stabRun c.ne c.np d1 script1 ((c.sops seq1).map Commute.toCOp) = some s1) :
    ∃ (script2 : List Bool) (s2 : RunState),
      stabRun c.ne c.np .prob script2 ((c.sops seq2).map Commute.toCOp) = some s2 ∧
      Commute.feed c.ne c.np (c.sops seq1) s1.outs (fun _ => []) =
        Commute.feed c.ne c.np (c.sops seq2) s2.outs (fun _ => []) ∧
      ∀ P, TabSpec.Grp s1.t P ↔ TabSpec.Grp s2.t P := by
  have r1 := (Commute.stabRun_refines c hgood har seq1 d1 script1 s1 h1).2 (fun _ => [])
  have e := compile_independent_of_topological_order_stab c.ne c.np c hgood seq1 seq2 hl1 hl2
    (Commute.GSt.init c.ne c.np (Commute.feed c.ne c.np (c.sops seq1) s1.outs (fun _ => [])))
  have e' := congrArg Subtype.val e
  rw [Commute.runSeq_appG_val, Commute.runSeq_appG_val] at e'
  have e2 : runSeq (Commute.appRaw c.ne c.np) (c.sops seq2) (some (TabSpec.gstate (Tab.ket0 (c.ne + c.np)),
      Commute.feed c.ne c.np (c.sops seq1) s1.outs (fun _ => []))) = some (TabSpec.gstate s1.t, fun _ => []) := by
    rw [← r1]; exact e'.symm
  obtain ⟨script2, s2, hs2, hg, hF⟩ := Commute.stabRun_complete c hgood har seq2 _ _ e2
  refine ⟨script2, s2, hs2, hF, fun P => ?_⟩
  show (TabSpec.gstate s1.t).G P ↔ (TabSpec.gstate s2.t).G P
  rw [hg]

/-- for any finite chain of the five rewrites (`Commute.RewritesStar`) —
    the same for the rewrites: for every run of the compile loop on the original circuit there is a run on the copied /
    unwrapped / grouped / identity-free / empty-noise-map circuit (any topological orders) that records the same outcome at
    every measuring operation and ends in the same signed stabilizer group -/
theorem compiled_run_exists_after_rewrite_chain (c c' : Circuit) (hgood : c.Good) (har : Commute.ArityOk c) (h : Commute.RewritesStar c c')
    (seq seq' : List Nat) (hl : c.isLinearExtension seq = true) (hl' : c'.isLinearExtension seq' = true)
    (d : Det) (script : List Bool) (s : RunState)
    (h1 : stabRun c.ne c.np d script ((c.sops seq).map Commute.toCOp) = some s) :
    ∃ (script' : List Bool) (s' : RunState),
      stabRun c'.ne c'.np .prob script' ((c'.sops seq').map Commute.toCOp) = some s' ∧
      Commute.feed c.ne c.np (c.sops seq) s.outs (fun _ => []) =
        Commute.feed c'.ne c'.np (c'.sops seq') s'.outs (fun _ => []) ∧
      ∀ P, TabSpec.Grp s.t P ↔ TabSpec.Grp s'.t P := by
  have hflat := h.flat_eq hgood
  have hne : c'.ne = c.ne := by simp only [Circuit.flat, Prod.mk.injEq] at hflat; exact hflat.1
  have hnp : c'.np = c.np := by simp only [Circuit.flat, Prod.mk.injEq] at hflat; exact hflat.2.1
  have r1 := (Commute.stabRun_refines c hgood har seq d script s h1).2 (fun _ => [])
  have e := rewrite_chain_preserves_compiled_group c c' hgood h seq seq' hl hl'
    (Commute.feed c.ne c.np (c.sops seq) s.outs (fun _ => []))
  rw [r1, ← hne, ← hnp] at e
  obtain ⟨script', s', hs', hg, hF⟩ := Commute.stabRun_complete c' (h.good hgood) (h.arityOk hgood har)
    seq' _ _ e
  refine ⟨script', s', hs', ?_, fun P => ?_⟩
  · rw [← hF, hne, hnp]
  · show (TabSpec.gstate s.t).G P ↔ (TabSpec.gstate s'.t).G P
    rw [hg]

/-- the same for the rewrites: for every run of the compile loop on the original circuit there is a run on the copied /
    unwrapped / grouped / identity-free / empty-noise-map circuit (any topological orders) that records the same outcome at
    every measuring operation and ends in the same signed stabilizer group -/
theorem compiled_run_exists_after_rewrite (c c' : Circuit) (hgood : c.Good) (har : Commute.ArityOk c) (h : Rewrites c c')
    (seq seq' : List Nat) (hl : c.isLinearExtension seq = true) (hl' : c'.isLinearExtension seq' = true)
    (d : Det) (script : List Bool) (s : RunState)
    (h1 : stabRun c.ne c.np d script ((c.sops seq).map Commute.toCOp) = some s) :
    ∃ (script' : List Bool) (s' : RunState),
      stabRun c'.ne c'.np .prob script' ((c'.sops seq').map Commute.toCOp) = some s' ∧
      Commute.feed c.ne c.np (c.sops seq) s.outs (fun _ => []) =
        Commute.feed c'.ne c'.np (c'.sops seq') s'.outs (fun _ => []) ∧
      ∀ P, TabSpec.Grp s.t P ↔ TabSpec.Grp s'.t P :=
  compiled_run_exists_after_rewrite_chain c c' hgood har (Commute.RewritesStar.single h) seq seq' hl hl' d script s h1

/-- the same from an arbitrary valid initial tableau (`compile(circuit, initial_state)`): two runs of the compile loop from
    `t0` along two linear extensions in which every measuring operation recorded the same outcome end in the same signed
    stabilizer group; and for every run along `seq1` such a run along `seq2` exists (probabilistic mode, some script) -/
theorem compiled_tableau_independent_of_topological_order_from (c : Circuit) (hgood : c.Good) (har : Commute.ArityOk c)
    (seq1 seq2 : List Nat) (hl1 : c.isLinearExtension seq1 = true) (hl2 : c.isLinearExtension seq2 = true)
    (t0 : Tab) (hv : t0.Valid) (hr : t0.StabReal) (hn : t0.n = c.ne + c.np)
    (d1 : Det) (script1 : List Bool) (s1 : RunState)
    (h1 : stabRunFrom t0 c.np d1 script1 ((c.sops seq1).map Commute.toCOp) = some s1) :
    (∀ (d2 : Det) (script2 : List Bool) (s2 : RunState),
      stabRunFrom t0 c.np d2 script2 ((c.sops seq2).map Commute.toCOp) = some s2 →
      Commute.feed c.ne c.np (c.sops seq1) s1.outs (fun _ => []) =
        Commute.feed c.ne c.np (c.sops seq2) s2.outs (fun _ => []) →
      ∀ P, TabSpec.Grp s1.t P ↔ TabSpec.Grp s2.t P) ∧
    ∃ (script2 : List Bool) (s2 : RunState),
      stabRunFrom t0 c.np .prob script2 ((c.sops seq2).map Commute.toCOp) = some s2 ∧
      Commute.feed c.ne c.np (c.sops seq1) s1.outs (fun _ => []) =
        Commute.feed c.ne c.np (c.sops seq2) s2.outs (fun _ => []) := by
  have h0 : Commute.TInv (c.ne + c.np) t0 := ⟨hv, hr, hn⟩
  have r1 := (Commute.stabRunFrom_refines c hgood har seq1 t0 h0 d1 script1 s1 h1).2 (fun _ => [])
  have e := compile_independent_of_topological_order_stab c.ne c.np c hgood seq1 seq2 hl1 hl2
    (Commute.GSt.ofTab c.ne c.np t0 h0 (Commute.feed c.ne c.np (c.sops seq1) s1.outs (fun _ => [])))
  have e' := congrArg Subtype.val e
  rw [Commute.runSeq_appG_val, Commute.runSeq_appG_val] at e'
  have e2 : runSeq (Commute.appRaw c.ne c.np) (c.sops seq2) (some (TabSpec.gstate t0,
      Commute.feed c.ne c.np (c.sops seq1) s1.outs (fun _ => []))) = some (TabSpec.gstate s1.t, fun _ => []) := by
    rw [← r1]; exact e'.symm
  refine ⟨fun d2 script2 s2 h2 hout P => ?_, ?_⟩
  · have r2 := (Commute.stabRunFrom_refines c hgood har seq2 t0 h0 d2 script2 s2 h2).2 (fun _ => [])
    rw [← hout, e2] at r2
    simp only [Option.some.injEq, Prod.mk.injEq, and_true] at r2
    show (TabSpec.gstate s1.t).G P ↔ (TabSpec.gstate s2.t).G P
    rw [r2]
  · obtain ⟨script2, s2, hs2, _, hF⟩ := Commute.stabRunFrom_complete c hgood har seq2 t0 h0 _ _ e2
    exact ⟨script2, s2, hs2, hF⟩

/-! ## 2d. gate-only circuits: literally the same tableau

  For circuits without measurements the statement holds for the *tables*, not only for the groups they generate: the row
  maps of gates on disjoint qubits commute pointwise and the compiler's tabulation identifies tables that agree on the
  qubits' sites. -/

/-- unitary-gate steps of the stabilizer compile loop on disjoint registers commute literally (same run state, same table,
    destabilizers included) -/
theorem gate_steps_on_disjoint_registers_commute (ne np : Nat) (a b : SOp) (h : ∀ r, r ∈ a.regs → r ∉ b.regs)
    (s : Commute.TSt ne np) :
    Commute.appTG ne np a (Commute.appTG ne np b s) = Commute.appTG ne np b (Commute.appTG ne np a s) :=
  Commute.appTG_comm ne np a b h s

/-- **a gate-only circuit compiles to literally the same run state (the same Clifford tableau, destabilizer and
    stabilizer rows and signs, entry by entry) along every topological order** -/
theorem gate_only_compile_independent_of_topological_order (c : Circuit) (hgood : c.Good) (har : Commute.ArityOk c)
    (hgates : Commute.GateOnly c) (seq1 seq2 : List Nat) (hl1 : c.isLinearExtension seq1 = true)
    (hl2 : c.isLinearExtension seq2 = true) (d : Det) (script : List Bool) :
    stabRun c.ne c.np d script ((c.sops seq1).map Commute.toCOp) =
      stabRun c.ne c.np d script ((c.sops seq2).map Commute.toCOp) := by
  rw [Commute.stabRun_eq_runSeq c hgood har hgates seq1 d script c.ne c.np rfl rfl,
    Commute.stabRun_eq_runSeq c hgood har hgates seq2 d script c.ne c.np rfl rfl]
  have e := compile_independent_of_topological_order (Commute.appTG c.ne c.np) (Commute.appTG_comm c.ne c.np) c hgood
    seq1 seq2 hl1 hl2 ⟨some { t := Tab.ket0 (c.ne + c.np), writes := [], script := script, rand := [], outs := [] },
      fun s' h => by cases h; rfl⟩
  have e' := congrArg Subtype.val e
  exact (Commute.runSeq_appTG_val _ _ _ _).symm.trans (e'.trans (Commute.runSeq_appTG_val _ _ _ _))

/-- for any finite chain of the five rewrites (`Commute.RewritesStar`) —
    **a gate-only circuit and its copy / unwrapped / grouped / identity-free / empty-noise-map version compile to literally
    the same run state**, whatever topological orders the two compilations use -/
theorem gate_only_rewrite_chain_preserves_compiled_tableau (c c' : Circuit) (hgood : c.Good) (har : Commute.ArityOk c)
    (hgates : Commute.GateOnly c) (h : Commute.RewritesStar c c') (seq seq' : List Nat) (hl : c.isLinearExtension seq = true)
    (hl' : c'.isLinearExtension seq' = true) (d : Det) (script : List Bool) :
    stabRun c'.ne c'.np d script ((c'.sops seq').map Commute.toCOp) =
      stabRun c.ne c.np d script ((c.sops seq).map Commute.toCOp) := by
  have hflat := h.flat_eq hgood
  have hne : c.ne = c'.ne := by simp only [Circuit.flat, Prod.mk.injEq] at hflat; exact hflat.1.symm
  have hnp : c.np = c'.np := by simp only [Circuit.flat, Prod.mk.injEq] at hflat; exact hflat.2.1.symm
  rw [← hne, ← hnp,
    Commute.stabRun_eq_runSeq c' (h.good hgood) (h.arityOk hgood har)
      (h.gateOnly hgood hgates) seq' d script c.ne c.np hne hnp,
    Commute.stabRun_eq_runSeq c hgood har hgates seq d script c.ne c.np rfl rfl]
  have e := rewrite_chain_preserves_compiled_state (Commute.appTG c.ne c.np) (Commute.appTG_comm c.ne c.np) c c' hgood h
    seq seq' hl hl' ⟨some { t := Tab.ket0 (c.ne + c.np), writes := [], script := script, rand := [], outs := [] },
      fun s' h => by cases h; rfl⟩
  have e' := congrArg Subtype.val e
  exact (Commute.runSeq_appTG_val _ _ _ _).symm.trans (e'.trans (Commute.runSeq_appTG_val _ _ _ _))

/-- **a gate-only circuit and its copy / unwrapped / grouped / identity-free / empty-noise-map version compile to literally
    the same run state**, whatever topological orders the two compilations use -/
theorem gate_only_rewrite_preserves_compiled_tableau (c c' : Circuit) (hgood : c.Good) (har : Commute.ArityOk c)
    (hgates : Commute.GateOnly c) (h : Rewrites c c') (seq seq' : List Nat) (hl : c.isLinearExtension seq = true)
    (hl' : c'.isLinearExtension seq' = true) (d : Det) (script : List Bool) :
    stabRun c'.ne c'.np d script ((c'.sops seq').map Commute.toCOp) =
      stabRun c.ne c.np d script ((c.sops seq).map Commute.toCOp) :=
  gate_only_rewrite_chain_preserves_compiled_tableau c c' hgood har hgates (Commute.RewritesStar.single h)
    seq seq' hl hl' d script

/-! ## 2e. the classical record

  The classical registers are part of the state in `Commute.appC`: a measuring operation writes its outcome into its
  classical register.  Two measuring operations on different qubits that write the *same* classical register do not
  commute (the later write wins) — they are ordered by the classical wire.  `add` threads every operation on the wires of
  its classical registers; `insert_at` need not, and then the final register values genuinely depend on the order
  `topological_sort` returns (the quantum state does not: §2b).  Hence the hypothesis `CThreaded`. -/

/-- operations on disjoint quantum registers that do not write the same classical register commute, record included -/
theorem stabilizer_ops_commute_with_record (ne np : Nat) (a b : SOp) (h : ∀ r, r ∈ Commute.regsC a → r ∉ Commute.regsC b)
    (s : Commute.CSt ne np) :
    Commute.appC ne np a (Commute.appC ne np b s) = Commute.appC ne np b (Commute.appC ne np a s) :=
  Commute.appC_comm ne np a b h s

/-- **stabilizer state and classical record do not depend on the topological order**, for every sane circuit whose
    measuring operations lie on the classical wire of the register they write -/
theorem compile_with_record_independent_of_topological_order_stab (ne np : Nat) (c : Circuit) (hgood : c.Good)
    (hthr : Commute.CThreaded c) (hca : Commute.CArity c) (seq1 seq2 : List Nat)
    (hl1 : c.isLinearExtension seq1 = true) (hl2 : c.isLinearExtension seq2 = true) (s : Commute.CSt ne np) :
    runSeq (Commute.appC ne np) (c.sops seq1) s = runSeq (Commute.appC ne np) (c.sops seq2) s :=
  same_wires_same_state Commute.regsC (Commute.appC ne np) (Commute.appC_comm ne np) (c.sops seq1) (c.sops seq2)
    (Commute.regsC_ne_nil c hgood seq1) (Commute.regsC_ne_nil c hgood seq2)
    (Commute.proj_regsC_eq c hgood hthr hca seq1 seq2 hl1 hl2) s

/-- **the classical registers the stabilizer backend ends with do not depend on the topological order**: two runs of the
    compile loop on the same sane, classically threaded circuit along two linear extensions in which every measuring
    operation recorded the same outcome end with the same signed stabilizer group *and* the same final register values -/
theorem compiled_record_independent_of_topological_order (c : Circuit) (hgood : c.Good) (har : Commute.ArityOk c)
    (hthr : Commute.CThreaded c) (hca : Commute.CArity c)
    (seq1 seq2 : List Nat) (hl1 : c.isLinearExtension seq1 = true) (hl2 : c.isLinearExtension seq2 = true)
    (d1 d2 : Det) (script1 script2 : List Bool) (s1 s2 : RunState)
    (h1 : stabRun c.ne c.np d1 script1 ((c.sops seq1).map Commute.toCOp) = some s1)
    (h2 : stabRun c.ne c.np d2 script2 ((c.sops seq2).map Commute.toCOp) = some s2)
    (hout : Commute.feed c.ne c.np (c.sops seq1) s1.outs (fun _ => []) =
      Commute.feed c.ne c.np (c.sops seq2) s2.outs (fun _ => [])) :
    (∀ P, TabSpec.Grp s1.t P ↔ TabSpec.Grp s2.t P) ∧ finalRecord c.nc s1.writes = finalRecord c.nc s2.writes := by
  have r1 := Commute.stabRun_refines_record c hgood har seq1 d1 script1 s1 h1 (fun _ => [])
  have r2 := Commute.stabRun_refines_record c hgood har seq2 d2 script2 s2 h2 (fun _ => [])
  have e := compile_with_record_independent_of_topological_order_stab c.ne c.np c hgood hthr hca seq1 seq2 hl1 hl2
    (Commute.CSt.init c.ne c.np (Commute.feed c.ne c.np (c.sops seq1) s1.outs (fun _ => [])))
  have e' := congrArg Subtype.val e
  have e'' := (Commute.runSeq_appC_val _ _ _ _).symm.trans (e'.trans (Commute.runSeq_appC_val _ _ _ _))
  have e3 : some (TabSpec.gstate s1.t, (fun _ => [] : Commute.Script), Commute.recOf s1.writes) =
      some (TabSpec.gstate s2.t, (fun _ => [] : Commute.Script), Commute.recOf s2.writes) := by
    rw [← r1, ← r2, ← hout]; exact e''
  simp only [Option.some.injEq, Prod.mk.injEq, true_and] at e3
  refine ⟨fun P => ?_, ?_⟩
  · show (TabSpec.gstate s1.t).G P ↔ (TabSpec.gstate s2.t).G P
    rw [e3.1]
  · rw [Commute.finalRecord_eq, Commute.finalRecord_eq, e3.2]

/-- for any finite chain of the five rewrites (`Commute.RewritesStar`) —
    **the rewrites preserve stabilizer state and classical record**: for a sane circuit whose measuring operations lie on the
    classical wire they write, every rewrite keeps the operations on every classical wire (`Commute.Rewrites.cflat`), so the
    rewritten circuit, along any of its topological orders, gives the same state of the semantics with record -/
theorem rewrite_chain_preserves_state_and_record_stab (ne np : Nat) (c c' : Circuit) (hgood : c.Good) (hthr : Commute.CThreaded c)
    (hca : Commute.CArity c) (h : Commute.RewritesStar c c') (seq seq' : List Nat) (hl : c.isLinearExtension seq = true)
    (hl' : c'.isLinearExtension seq' = true) (s : Commute.CSt ne np) :
    runSeq (Commute.appC ne np) (c'.sops seq') s = runSeq (Commute.appC ne np) (c.sops seq) s :=
  same_wires_same_state Commute.regsC (Commute.appC ne np) (Commute.appC_comm ne np) (c'.sops seq') (c.sops seq)
    (Commute.regsC_ne_nil c' (h.good hgood) seq') (Commute.regsC_ne_nil c hgood seq)
    (Commute.chain_proj_regsC_eq c c' hgood hthr hca h seq seq' hl hl') s

/-- **the rewrites preserve stabilizer state and classical record**: for a sane circuit whose measuring operations lie on the
    classical wire they write, every rewrite keeps the operations on every classical wire (`Commute.Rewrites.cflat`), so the
    rewritten circuit, along any of its topological orders, gives the same state of the semantics with record -/
theorem rewrite_preserves_state_and_record_stab (ne np : Nat) (c c' : Circuit) (hgood : c.Good) (hthr : Commute.CThreaded c)
    (hca : Commute.CArity c) (h : Rewrites c c') (seq seq' : List Nat) (hl : c.isLinearExtension seq = true)
    (hl' : c'.isLinearExtension seq' = true) (s : Commute.CSt ne np) :
    runSeq (Commute.appC ne np) (c'.sops seq') s = runSeq (Commute.appC ne np) (c.sops seq) s :=
  rewrite_chain_preserves_state_and_record_stab ne np c c' hgood hthr hca (Commute.RewritesStar.single h) seq seq' hl hl' s

/-- for any finite chain of the five rewrites (`Commute.RewritesStar`) —
    **the classical registers the stabilizer backend ends with are preserved by the rewrites**: original and rewritten
    circuit, any topological orders, any measurement settings, every measuring operation recording the same outcome in both
    runs ⇒ same signed stabilizer group and the same final register values -/
theorem rewrite_chain_preserves_compiled_record (c c' : Circuit) (hgood : c.Good) (har : Commute.ArityOk c)
    (hthr : Commute.CThreaded c) (hca : Commute.CArity c) (h : Commute.RewritesStar c c')
    (seq seq' : List Nat) (hl : c.isLinearExtension seq = true) (hl' : c'.isLinearExtension seq' = true)
    (d d' : Det) (script script' : List Bool) (s s' : RunState)
    (h1 : stabRun c.ne c.np d script ((c.sops seq).map Commute.toCOp) = some s)
    (h2 : stabRun c'.ne c'.np d' script' ((c'.sops seq').map Commute.toCOp) = some s')
    (hout : Commute.feed c.ne c.np (c.sops seq) s.outs (fun _ => []) =
      Commute.feed c'.ne c'.np (c'.sops seq') s'.outs (fun _ => [])) :
    (∀ P, TabSpec.Grp s.t P ↔ TabSpec.Grp s'.t P) ∧ finalRecord c.nc s.writes = finalRecord c'.nc s'.writes := by
  have hflat := h.flat_eq hgood
  have hne : c'.ne = c.ne := by simp only [Circuit.flat, Prod.mk.injEq] at hflat; exact hflat.1
  have hnp : c'.np = c.np := by simp only [Circuit.flat, Prod.mk.injEq] at hflat; exact hflat.2.1
  have hnc : c'.nc = c.nc := flat_nc hflat
  have r1 := Commute.stabRun_refines_record c hgood har seq d script s h1 (fun _ => [])
  have r2 := Commute.stabRun_refines_record c' (h.good hgood) (h.arityOk hgood har) seq' d' script' s' h2
    (fun _ => [])
  rw [hne, hnp] at r2
  rw [hne, hnp] at hout
  have e := rewrite_chain_preserves_state_and_record_stab c.ne c.np c c' hgood hthr hca h seq seq' hl hl'
    (Commute.CSt.init c.ne c.np (Commute.feed c.ne c.np (c.sops seq) s.outs (fun _ => [])))
  have e' := congrArg Subtype.val e
  have e'' := (Commute.runSeq_appC_val _ _ _ _).symm.trans (e'.trans (Commute.runSeq_appC_val _ _ _ _))
  have e3 : some (TabSpec.gstate s'.t, (fun _ => [] : Commute.Script), Commute.recOf s'.writes) =
      some (TabSpec.gstate s.t, (fun _ => [] : Commute.Script), Commute.recOf s.writes) := by
    rw [← r1, ← r2, ← hout]; exact e''
  simp only [Option.some.injEq, Prod.mk.injEq, true_and] at e3
  refine ⟨fun P => ?_, ?_⟩
  · show (TabSpec.gstate s.t).G P ↔ (TabSpec.gstate s'.t).G P
    rw [e3.1]
  · rw [Commute.finalRecord_eq, Commute.finalRecord_eq, e3.2, hnc]

/-- **the classical registers the stabilizer backend ends with are preserved by the rewrites**: original and rewritten
    circuit, any topological orders, any measurement settings, every measuring operation recording the same outcome in both
    runs ⇒ same signed stabilizer group and the same final register values -/
theorem rewrite_preserves_compiled_record (c c' : Circuit) (hgood : c.Good) (har : Commute.ArityOk c)
    (hthr : Commute.CThreaded c) (hca : Commute.CArity c) (h : Rewrites c c')
    (seq seq' : List Nat) (hl : c.isLinearExtension seq = true) (hl' : c'.isLinearExtension seq' = true)
    (d d' : Det) (script script' : List Bool) (s s' : RunState)
    (h1 : stabRun c.ne c.np d script ((c.sops seq).map Commute.toCOp) = some s)
    (h2 : stabRun c'.ne c'.np d' script' ((c'.sops seq').map Commute.toCOp) = some s')
    (hout : Commute.feed c.ne c.np (c.sops seq) s.outs (fun _ => []) =
      Commute.feed c'.ne c'.np (c'.sops seq') s'.outs (fun _ => [])) :
    (∀ P, TabSpec.Grp s.t P ↔ TabSpec.Grp s'.t P) ∧ finalRecord c.nc s.writes = finalRecord c'.nc s'.writes :=
  rewrite_chain_preserves_compiled_record c c' hgood har hthr hca (Commute.RewritesStar.single h)
    seq seq' hl hl' d d' script script' s s' h1 h2 hout

/-! ## 2e′. the probability of the outcome assignment

  A Z measurement of a stabilizer state is deterministic (the feasible outcome has probability 1) or random (each outcome has
  probability ½ — C07 `measurement_random_is_projection`); an outcome assignment therefore has probability `2^(-r)`, `r` the
  number of measurements that were random when executed (`RunState.rand`).  `r` does not depend on the order either. -/

/-- operations on disjoint quantum registers commute, the count of random measurements included -/
theorem stabilizer_ops_commute_with_random_count (ne np : Nat) (a b : SOp) (h : ∀ r, r ∈ a.regs → r ∉ b.regs)
    (s : Commute.RSt ne np) :
    Commute.appR ne np a (Commute.appR ne np b s) = Commute.appR ne np b (Commute.appR ne np a s) :=
  Commute.appR_comm ne np a b h s

/-- **the probability of the recorded outcomes does not depend on the topological order**: two runs of the compile loop on
    the same sane circuit along two linear extensions in which every measuring operation recorded the same outcome found
    the same number of measurements random (and ended in the same signed stabilizer group) -/
theorem compiled_outcome_probability_independent_of_topological_order (c : Circuit) (hgood : c.Good)
    (har : Commute.ArityOk c) (seq1 seq2 : List Nat) (hl1 : c.isLinearExtension seq1 = true)
    (hl2 : c.isLinearExtension seq2 = true) (d1 d2 : Det) (script1 script2 : List Bool) (s1 s2 : RunState)
    (h1 : stabRun c.ne c.np d1 script1 ((c.sops seq1).map Commute.toCOp) = some s1)
    (h2 : stabRun c.ne c.np d2 script2 ((c.sops seq2).map Commute.toCOp) = some s2)
    (hout : Commute.feed c.ne c.np (c.sops seq1) s1.outs (fun _ => []) =
      Commute.feed c.ne c.np (c.sops seq2) s2.outs (fun _ => [])) :
    s1.rand.count true = s2.rand.count true := by
  have r1 := Commute.stabRun_refines_rand c hgood har seq1 d1 script1 s1 h1 (fun _ => [])
  have r2 := Commute.stabRun_refines_rand c hgood har seq2 d2 script2 s2 h2 (fun _ => [])
  have e := compile_independent_of_topological_order (Commute.appR c.ne c.np) (Commute.appR_comm c.ne c.np) c hgood
    seq1 seq2 hl1 hl2 (Commute.RSt.init c.ne c.np (Commute.feed c.ne c.np (c.sops seq1) s1.outs (fun _ => [])))
  have e' := congrArg Subtype.val e
  have e'' := (Commute.runSeq_appR_val _ _ _ _).symm.trans (e'.trans (Commute.runSeq_appR_val _ _ _ _))
  have e3 : some (TabSpec.gstate s1.t, (fun _ => [] : Commute.Script), s1.rand.count true) =
      some (TabSpec.gstate s2.t, (fun _ => [] : Commute.Script), s2.rand.count true) := by
    rw [← r1, ← r2, ← hout]; exact e''
  simp only [Option.some.injEq, Prod.mk.injEq, true_and] at e3
  exact e3.2

/-- for any finite chain of the five rewrites (`Commute.RewritesStar`) —
    the same for the rewrites: original and rewritten circuit, same outcome at every measuring operation ⇒ the same number
    of random measurements, i.e. the same probability of that outcome assignment -/
theorem rewrite_chain_preserves_outcome_probability (c c' : Circuit) (hgood : c.Good) (har : Commute.ArityOk c)
    (h : Commute.RewritesStar c c') (seq seq' : List Nat) (hl : c.isLinearExtension seq = true)
    (hl' : c'.isLinearExtension seq' = true) (d d' : Det) (script script' : List Bool) (s s' : RunState)
    (h1 : stabRun c.ne c.np d script ((c.sops seq).map Commute.toCOp) = some s)
    (h2 : stabRun c'.ne c'.np d' script' ((c'.sops seq').map Commute.toCOp) = some s')
    (hout : Commute.feed c.ne c.np (c.sops seq) s.outs (fun _ => []) =
      Commute.feed c'.ne c'.np (c'.sops seq') s'.outs (fun _ => [])) :
    s.rand.count true = s'.rand.count true := by
  have hflat := h.flat_eq hgood
  have hne : c'.ne = c.ne := by simp only [Circuit.flat, Prod.mk.injEq] at hflat; exact hflat.1
  have hnp : c'.np = c.np := by simp only [Circuit.flat, Prod.mk.injEq] at hflat; exact hflat.2.1
  have r1 := Commute.stabRun_refines_rand c hgood har seq d script s h1 (fun _ => [])
  have r2 := Commute.stabRun_refines_rand c' (h.good hgood) (h.arityOk hgood har) seq' d' script' s' h2
    (fun _ => [])
  rw [hne, hnp] at r2
  rw [hne, hnp] at hout
  have e := rewrite_chain_preserves_compiled_state (Commute.appR c.ne c.np) (Commute.appR_comm c.ne c.np) c c' hgood h
    seq seq' hl hl' (Commute.RSt.init c.ne c.np (Commute.feed c.ne c.np (c.sops seq) s.outs (fun _ => [])))
  have e' := congrArg Subtype.val e
  have e'' := (Commute.runSeq_appR_val _ _ _ _).symm.trans (e'.trans (Commute.runSeq_appR_val _ _ _ _))
  have e3 : some (TabSpec.gstate s'.t, (fun _ => [] : Commute.Script), s'.rand.count true) =
      some (TabSpec.gstate s.t, (fun _ => [] : Commute.Script), s.rand.count true) := by
    rw [← r1, ← r2, ← hout]; exact e''
  simp only [Option.some.injEq, Prod.mk.injEq, true_and] at e3
  exact e3.2.symm

/-- the same for the rewrites: original and rewritten circuit, same outcome at every measuring operation ⇒ the same number
    of random measurements, i.e. the same probability of that outcome assignment -/
theorem rewrite_preserves_outcome_probability (c c' : Circuit) (hgood : c.Good) (har : Commute.ArityOk c)
    (h : Rewrites c c') (seq seq' : List Nat) (hl : c.isLinearExtension seq = true)
    (hl' : c'.isLinearExtension seq' = true) (d d' : Det) (script script' : List Bool) (s s' : RunState)
    (h1 : stabRun c.ne c.np d script ((c.sops seq).map Commute.toCOp) = some s)
    (h2 : stabRun c'.ne c'.np d' script' ((c'.sops seq').map Commute.toCOp) = some s')
    (hout : Commute.feed c.ne c.np (c.sops seq) s.outs (fun _ => []) =
      Commute.feed c'.ne c'.np (c'.sops seq') s'.outs (fun _ => [])) :
    s.rand.count true = s'.rand.count true :=
  rewrite_chain_preserves_outcome_probability c c' hgood har (Commute.RewritesStar.single h)
    seq seq' hl hl' d d' script script' s s' h1 h2 hout

/-! ## 2f. read as quantum states

  C07's Hilbert-space reading: `Hilbert.rho n (STab.ofTab t)` is the density matrix `∏ᵢ (1 + gᵢ)/2` (over ℂ, indexed by bit
  strings) of the stabilizer state of the tableau `t`; tableaux with the same signed stabilizer group have the same density
  matrix.  So the conclusions of §2c are equalities of quantum states. -/

/-- **the quantum state the stabilizer backend compiles to does not depend on the topological order**: under the
    hypotheses of `compiled_tableau_independent_of_topological_order` the two final tableaux denote the same density matrix -/
theorem compiled_density_matrix_independent_of_topological_order (c : Circuit) (hgood : c.Good) (har : Commute.ArityOk c)
    (seq1 seq2 : List Nat) (hl1 : c.isLinearExtension seq1 = true) (hl2 : c.isLinearExtension seq2 = true)
    (d1 d2 : Det) (script1 script2 : List Bool) (s1 s2 : RunState)
    (h1 : stabRun c.ne c.np d1 script1 ((c.sops seq1).map Commute.toCOp) = some s1)
    (h2 : stabRun c.ne c.np d2 script2 ((c.sops seq2).map Commute.toCOp) = some s2)
    (hout : Commute.feed c.ne c.np (c.sops seq1) s1.outs (fun _ => []) =
      Commute.feed c.ne c.np (c.sops seq2) s2.outs (fun _ => [])) :
    Hilbert.rho (c.ne + c.np) (STab.ofTab s1.t) = Hilbert.rho (c.ne + c.np) (STab.ofTab s2.t) :=
  Commute.rho_eq_of_grp_eq (Commute.stabRun_refines c hgood har seq1 d1 script1 s1 h1).1
    (Commute.stabRun_refines c hgood har seq2 d2 script2 s2 h2).1
    (compiled_tableau_independent_of_topological_order c hgood har seq1 seq2 hl1 hl2 d1 d2 script1 script2 s1 s2 h1 h2 hout)

/-- for any finite chain of the five rewrites (`Commute.RewritesStar`) —
    **the rewrites preserve the quantum state the stabilizer backend compiles to**: under the hypotheses of
    `rewrite_chain_preserves_compiled_tableau` the two final tableaux denote the same density matrix -/
theorem rewrite_chain_preserves_compiled_density_matrix (c c' : Circuit) (hgood : c.Good) (har : Commute.ArityOk c)
    (h : Commute.RewritesStar c c') (seq seq' : List Nat) (hl : c.isLinearExtension seq = true)
    (hl' : c'.isLinearExtension seq' = true) (d d' : Det) (script script' : List Bool) (s s' : RunState)
    (h1 : stabRun c.ne c.np d script ((c.sops seq).map Commute.toCOp) = some s)
    (h2 : stabRun c'.ne c'.np d' script' ((c'.sops seq').map Commute.toCOp) = some s')
    (hout : Commute.feed c.ne c.np (c.sops seq) s.outs (fun _ => []) =
      Commute.feed c'.ne c'.np (c'.sops seq') s'.outs (fun _ => [])) :
    Hilbert.rho (c.ne + c.np) (STab.ofTab s.t) = Hilbert.rho (c.ne + c.np) (STab.ofTab s'.t) := by
  have hflat := h.flat_eq hgood
  have hne : c'.ne = c.ne := by simp only [Circuit.flat, Prod.mk.injEq] at hflat; exact hflat.1
  have hnp : c'.np = c.np := by simp only [Circuit.flat, Prod.mk.injEq] at hflat; exact hflat.2.1
  have t2 := (Commute.stabRun_refines c' (h.good hgood) (h.arityOk hgood har) seq' d' script' s' h2).1
  rw [hne, hnp] at t2
  exact Commute.rho_eq_of_grp_eq (Commute.stabRun_refines c hgood har seq d script s h1).1 t2
    (rewrite_chain_preserves_compiled_tableau c c' hgood har h seq seq' hl hl' d d' script script' s s' h1 h2 hout)

/-- **the rewrites preserve the quantum state the stabilizer backend compiles to**: under the hypotheses of
    `rewrite_preserves_compiled_tableau` the two final tableaux denote the same density matrix -/
theorem rewrite_preserves_compiled_density_matrix (c c' : Circuit) (hgood : c.Good) (har : Commute.ArityOk c)
    (h : Rewrites c c') (seq seq' : List Nat) (hl : c.isLinearExtension seq = true)
    (hl' : c'.isLinearExtension seq' = true) (d d' : Det) (script script' : List Bool) (s s' : RunState)
    (h1 : stabRun c.ne c.np d script ((c.sops seq).map Commute.toCOp) = some s)
    (h2 : stabRun c'.ne c'.np d' script' ((c'.sops seq').map Commute.toCOp) = some s')
    (hout : Commute.feed c.ne c.np (c.sops seq) s.outs (fun _ => []) =
      Commute.feed c'.ne c'.np (c'.sops seq') s'.outs (fun _ => [])) :
    Hilbert.rho (c.ne + c.np) (STab.ofTab s.t) = Hilbert.rho (c.ne + c.np) (STab.ofTab s'.t) :=
  rewrite_chain_preserves_compiled_density_matrix c c' hgood har (Commute.RewritesStar.single h)
    seq seq' hl hl' d d' script script' s s' h1 h2 hout

/-! ## 3. library calls do not mutate their inputs -/

/-- the full statement, over a semantics of the Python heap that this development does not model: `exec h call` is
    the heap after a library call, `observe h x` everything that is behaviour of the live object `x` (its compiled
    state under every outcome script, its openQASM text, its noise descriptors, a target's canonical state) -/
def library_calls_do_not_mutate_inputs_statement (Heap Obj Obs Call : Type) (exec : Heap → Call → Heap)
    (observe : Heap → Obj → Obs) (live : Heap → Obj → Prop) : Prop :=
  ∀ h call x, live h x → observe (exec h call) x = observe h x

/-- what is proved: the statement instantiated with the *functional model* of the calls (`World.exec`: a call reads the
    circuits it is given and appends the circuits it derives).  MISSING: that the Python objects behave like the model —
    object aliasing (`op.noise` written on shared operation objects, in-place conversion of a target, temporary noise
    swaps inside `compile`) cannot be exhibited by a functional model; this half of the property is established by
    differential testing only (random interleavings with before/after fingerprints, harness/c13.py part B). -/
theorem library_calls_do_not_mutate_inputs_partial :
    library_calls_do_not_mutate_inputs_statement World Nat (Option Nat × Option (Nat × Nat × Nat × List (List Item))) Call
      World.exec (fun w i => ((w.circuits[i]?).map (·.nid), (w.circuits[i]?).map Circuit.flat))
      (fun w i => i < w.circuits.length) := by
  intro w call i hi
  obtain ⟨c, hc⟩ : ∃ c, w.circuits[i]? = some c := ⟨w.circuits[i], List.getElem?_eq_getElem hi⟩
  simp only [exec_keeps_object w call i c hc, hc]

/-- in the model, repeating a compile is evaluating a function twice -/
theorem repeated_compile_agrees {σ : Type} (app : SOp → σ → σ) (c : Circuit) (seq : List Nat) (s : σ) :
    runSeq app (c.sops seq) s = runSeq app (c.sops seq) s := rfl

/-! ## 4. non-vacuity -/

/-- `H e0 ; W[P,H] e0 ; I p0 ; CNOT e0→p0 ; Z p0 ; W[I,X] p0 ; MCR e0→p0` -/
def exC : Circuit :=
  let ops : List Op := [⟨.base .H, [⟨.e, 0⟩], [], false⟩, ⟨.wrapper [.P, .H], [⟨.e, 0⟩], [], false⟩,
    ⟨.base .I, [⟨.p, 0⟩], [], false⟩, ⟨.cnot, [⟨.e, 0⟩, ⟨.p, 0⟩], [], true⟩, ⟨.base .Z, [⟨.p, 0⟩], [], false⟩,
    ⟨.wrapper [.I, .X], [⟨.p, 0⟩], [], false⟩, ⟨.mcr, [⟨.e, 0⟩, ⟨.p, 0⟩], [0], false⟩]
  ops.foldl (fun c op => c.addCore op) (Circuit.empty 1 1 1)

example : exC.wire ⟨.e, 0⟩ = [1, 2, 4, 7] ∧ exC.wire ⟨.p, 0⟩ = [3, 4, 5, 6, 7] := by decide

/-- the rewrites act non-trivially on the example and keep `flat` -/
example : (exC.unwrapNodes [2, 6]).wire ⟨.e, 0⟩ = [1, 8, 9, 4, 7] ∧ (exC.unwrapNodes [2, 6]).flat = exC.flat := by decide
example : (exC.removeIdentity [3]).wire ⟨.p, 0⟩ = [4, 5, 6, 7] ∧ (exC.removeIdentity [3]).flat = exC.flat := by decide
def okOr (x : Except Err Circuit) : Bool × Circuit := match x with
  | .ok c => (true, c)
  | .error _ => (false, default)

/-- grouping merges `H ; W[P,H]` on `e0` into one wrapper and keeps `flat` -/
example : (exC.groupOneQubitGates [⟨.e, 0⟩, ⟨.p, 0⟩, ⟨.c, 0⟩]).wire ⟨.e, 0⟩ = [8, 4, 7] ∧
    (exC.groupOneQubitGates [⟨.e, 0⟩, ⟨.p, 0⟩, ⟨.c, 0⟩]).flat = exC.flat := by decide
example : (okOr (exC.assignNoise [1, 3, 2, 4, 5, 6, 7])).1 = true ∧
    (okOr (exC.assignNoise [1, 3, 2, 4, 5, 6, 7])).2.flat = exC.flat := by decide
example : exC.isLinearExtension [1, 3, 2, 4, 5, 6, 7] = true ∧ exC.isLinearExtension [3, 1, 2, 4, 6, 5, 7] = false := by decide

/-- a `MeasurementZ` is a boundary for grouping: it stays on its wires, the gates before it are still merged -/
example : ((exC.addCore ⟨.measZ, [⟨.e, 0⟩], [0], false⟩).groupOneQubitGates [⟨.e, 0⟩, ⟨.c, 0⟩]).wire ⟨.e, 0⟩ = [9, 4, 7, 8] ∧
    ((exC.addCore ⟨.measZ, [⟨.e, 0⟩], [0], false⟩).groupOneQubitGates [⟨.e, 0⟩, ⟨.c, 0⟩]).flat =
      (exC.addCore ⟨.measZ, [⟨.e, 0⟩], [0], false⟩).flat := by decide

/-- the example is well-formed and sane (hypotheses `WF`, `Arity1`, `OpsOk`, `Good` of the theorems above) -/
example : exC.Good := by
  unfold exC
  simp only [List.foldl_cons, List.foldl_nil]
  repeat' (apply Good_addCore)
  any_goals exact Good_empty 1 1 1
  all_goals first
    | (refine ⟨by decide, by decide, by decide, ?_⟩; intro _; exact ⟨⟨_, rfl⟩, rfl⟩)
    | (refine ⟨by decide, by decide, by decide, ?_⟩; intro h; cases h)
    | (intro r hr; simp only [List.mem_cons, List.not_mem_nil, or_false] at hr; rcases hr with rfl | rfl <;> decide)

example : exC.wfB = true ∧ exC.acyclicB = true := by decide

/-! ### non-vacuity of §2b / §2c: a measurement and a gate on another qubit, in two topological orders -/

/-- `H e0 ; CNOT e0→p0 ; MeasurementZ p0→c0 ; H e0`: the last two operations act on different qubits -/
def exD : Circuit :=
  let ops : List Op := [⟨.base .H, [⟨.e, 0⟩], [], false⟩, ⟨.cnot, [⟨.e, 0⟩, ⟨.p, 0⟩], [], false⟩,
    ⟨.measZ, [⟨.p, 0⟩], [0], false⟩, ⟨.base .H, [⟨.e, 0⟩], [], false⟩]
  ops.foldl (fun c op => c.addCore op) (Circuit.empty 1 1 1)

/-- two different compile sequences of the same circuit: the measurement of `p0` before / after the Hadamard on `e0` -/
example : exD.isLinearExtension [1, 2, 3, 4] = true ∧ exD.isLinearExtension [1, 2, 4, 3] = true ∧
    exD.sops [1, 2, 3, 4] ≠ exD.sops [1, 2, 4, 3] := by decide

theorem exD_good : exD.Good := by
  unfold exD
  simp only [List.foldl_cons, List.foldl_nil]
  repeat' (apply Good_addCore)
  any_goals exact Good_empty 1 1 1
  all_goals first
    | (refine ⟨by decide, by decide, by decide, ?_⟩; intro _; exact ⟨⟨_, rfl⟩, rfl⟩)
    | (refine ⟨by decide, by decide, by decide, ?_⟩; intro h; cases h)
    | (intro r hr; simp only [List.mem_cons, List.not_mem_nil, or_false] at hr; rcases hr with rfl | rfl <;> decide)

theorem exD_arity : Commute.ArityOk exD :=
  Commute.arityOk_addCore _ _ (Commute.arityOk_addCore _ _ (Commute.arityOk_addCore _ _
    (Commute.arityOk_addCore _ _ (Commute.arityOk_empty 1 1 1) trivial) ⟨_, _, rfl⟩) ⟨_, rfl⟩) trivial

/-- the hypotheses of `compiled_tableau_independent_of_topological_order` are met by the two orders of `exD` with the
    measurement forced to 1 (it is random in both orders, the recorded outcome is 1 in both), so the two final tableaux —
    which are different tables — have the same signed stabilizer group; the runs are not the impossible state -/
example : ∃ s1 s2 : RunState,
    stabRun 1 1 .one [] ((exD.sops [1, 2, 3, 4]).map Commute.toCOp) = some s1 ∧
    stabRun 1 1 .one [] ((exD.sops [1, 2, 4, 3]).map Commute.toCOp) = some s2 ∧
    s1.outs = [true] ∧ s2.outs = [true] ∧ ∀ P, TabSpec.Grp s1.t P ↔ TabSpec.Grp s2.t P := by
  have e1 : (stabRun 1 1 .one [] ((exD.sops [1, 2, 3, 4]).map Commute.toCOp)).map (·.outs) = some [true] := by
    decide +kernel
  have e2 : (stabRun 1 1 .one [] ((exD.sops [1, 2, 4, 3]).map Commute.toCOp)).map (·.outs) = some [true] := by
    decide +kernel
  obtain ⟨s1, h1, o1⟩ := Option.map_eq_some_iff.mp e1
  obtain ⟨s2, h2, o2⟩ := Option.map_eq_some_iff.mp e2
  refine ⟨s1, s2, h1, h2, o1, o2, ?_⟩
  refine compiled_tableau_independent_of_topological_order exD exD_good exD_arity [1, 2, 3, 4] [1, 2, 4, 3]
    (by decide) (by decide) .one .one [] [] s1 s2 h1 h2 ?_
  rw [o1, o2]
  rfl

/-- the feasibility half of the commutation, spelled out: an assignment of outcomes that cannot occur when `b` is
    compiled before `a` (the semantics returns `none`) cannot occur when `a` is compiled before `b` either -/
example (ne np : Nat) (a b : SOp) (h : ∀ r, r ∈ a.regs → r ∉ b.regs) (s : Commute.GSt ne np)
    (hb : (Commute.appG ne np a (Commute.appG ne np b s)).1 = none) :
    (Commute.appG ne np b (Commute.appG ne np a s)).1 = none := by
  rw [← Commute.appG_comm ne np a b h s]; exact hb

/-- `H e0 ; CNOT e0→p0 ; P p1 ; W[H,P] e0` — gate-only, with two operations on `p1` / `e0` that can be exchanged -/
def exG : Circuit :=
  let ops : List Op := [⟨.base .H, [⟨.e, 0⟩], [], false⟩, ⟨.cnot, [⟨.e, 0⟩, ⟨.p, 0⟩], [], false⟩,
    ⟨.base .P, [⟨.p, 1⟩], [], false⟩, ⟨.wrapper [.H, .P], [⟨.e, 0⟩], [], false⟩]
  ops.foldl (fun c op => c.addCore op) (Circuit.empty 1 2 0)

example : exG.isLinearExtension [1, 2, 3, 4] = true ∧ exG.isLinearExtension [3, 1, 2, 4] = true ∧
    exG.isLinearExtension [1, 2, 4, 3] = true ∧ exG.sops [1, 2, 3, 4] ≠ exG.sops [3, 1, 2, 4] := by decide

theorem exG_good : exG.Good := by
  unfold exG
  simp only [List.foldl_cons, List.foldl_nil]
  repeat' (apply Good_addCore)
  any_goals exact Good_empty 1 2 0
  all_goals first
    | (refine ⟨by decide, by decide, by decide, ?_⟩; intro _; exact ⟨⟨_, rfl⟩, rfl⟩)
    | (refine ⟨by decide, by decide, by decide, ?_⟩; intro h; cases h)
    | (intro r hr; simp only [List.mem_cons, List.not_mem_nil, or_false] at hr; rcases hr with rfl | rfl <;> decide)

theorem exG_arity : Commute.ArityOk exG :=
  Commute.arityOk_addCore _ _ (Commute.arityOk_addCore _ _ (Commute.arityOk_addCore _ _
    (Commute.arityOk_addCore _ _ (Commute.arityOk_empty 1 2 0) trivial) ⟨_, _, rfl⟩) trivial) trivial

theorem exG_gates : Commute.GateOnly exG := by
  unfold Commute.GateOnly exG
  simp only [List.foldl_cons, List.foldl_nil, addCore_eq]
  repeat' (apply NodesSat_insertAt)
  any_goals exact fun n op h => by simp [Circuit.empty] at h
  all_goals trivial

/-- the hypotheses of `gate_only_compile_independent_of_topological_order` are met by `exG`, and the run is a real one
    (`stabRun` returns a state) -/
example : stabRun 1 2 .zero [] ((exG.sops [1, 2, 3, 4]).map Commute.toCOp) =
      stabRun 1 2 .zero [] ((exG.sops [3, 1, 2, 4]).map Commute.toCOp) ∧
    (stabRun 1 2 .zero [] ((exG.sops [1, 2, 3, 4]).map Commute.toCOp)).isSome = true :=
  ⟨gate_only_compile_independent_of_topological_order exG exG_good exG_arity exG_gates [1, 2, 3, 4] [3, 1, 2, 4]
    (by decide) (by decide) .zero [], by decide +kernel⟩

/-- `exD` was built by `add`: its measurement lies on the classical wire it writes; the record theorem applies to its two
    orders (hypotheses `CThreaded`, `CArity`) -/
example : Commute.CThreaded exD ∧ Commute.CArity exD :=
  ⟨Commute.cThreaded_of_check exD exD_good.1 (by decide), Commute.cArity_of_check exD exD_good.1 (by decide)⟩

/-- without threading the record *does* depend on the order: `MeasurementZ p0 → c0` and `MeasurementZ p1 → c0` with the second
    one `insert_at`ed on its quantum wire only are unordered, and the two compile sequences leave different values in `c0`
    when the outcomes differ (forced outcome 0 for `|0⟩`, and `X p1` before the second measurement makes its outcome 1) -/
example :
    let ops1 : List COp := [.gate1 .X ⟨.p, 1⟩, .measz ⟨.p, 0⟩ 0, .measz ⟨.p, 1⟩ 0]
    let ops2 : List COp := [.gate1 .X ⟨.p, 1⟩, .measz ⟨.p, 1⟩ 0, .measz ⟨.p, 0⟩ 0]
    (stabRun 0 2 .zero [] ops1).map (fun s => finalRecord 1 s.writes) = some [true] ∧
    (stabRun 0 2 .zero [] ops2).map (fun s => finalRecord 1 s.writes) = some [false] := by decide +kernel

/-- `H e0 ; CNOT e0→p0 ; X p0 ; MeasurementZ e0→c0 ; MeasurementZ p0→c1`: the two measurements are anticorrelated -/
def exF : Circuit :=
  let ops : List Op := [⟨.base .H, [⟨.e, 0⟩], [], false⟩, ⟨.cnot, [⟨.e, 0⟩, ⟨.p, 0⟩], [], false⟩,
    ⟨.base .X, [⟨.p, 0⟩], [], false⟩, ⟨.measZ, [⟨.e, 0⟩], [0], false⟩, ⟨.measZ, [⟨.p, 0⟩], [1], false⟩]
  ops.foldl (fun c op => c.addCore op) (Circuit.empty 1 1 2)

/-- **why the outcomes must be attached to the operations** (hypothesis `hout`): with a *forced-outcome setting*
    (`measurement_determinism = 0`) the state the loop compiles to does depend on the topological order — the measurement met
    first is random and gets the forced 0, the other one is then determined to be 1.  Along `[…,4,5]` the emitter ends in
    `|0⟩` (`+Z_e` is a stabilizer), along `[…,5,4]` in `|1⟩`; the per-register outcome streams differ, so `hout` fails. -/
example : exF.isLinearExtension [1, 2, 3, 4, 5] = true ∧ exF.isLinearExtension [1, 2, 3, 5, 4] = true ∧
    ∃ s1 s2 : RunState,
      stabRun 1 1 .zero [] ((exF.sops [1, 2, 3, 4, 5]).map Commute.toCOp) = some s1 ∧
      stabRun 1 1 .zero [] ((exF.sops [1, 2, 3, 5, 4]).map Commute.toCOp) = some s2 ∧
      TabSpec.Grp s1.t (PRow.Zq 1 false) ∧ TabSpec.Grp s2.t (PRow.Zq 1 true) ∧
      Commute.feed 1 1 (exF.sops [1, 2, 3, 4, 5]) s1.outs (fun _ => []) ⟨.e, 0⟩ = [false] ∧
      Commute.feed 1 1 (exF.sops [1, 2, 3, 5, 4]) s2.outs (fun _ => []) ⟨.e, 0⟩ = [true] := by
  refine ⟨by decide, by decide, ?_⟩
  have e1 : (stabRun 1 1 .zero [] ((exF.sops [1, 2, 3, 4, 5]).map Commute.toCOp)).map
      (fun s => (s.outs, Commute.grpCheck s.t (PRow.Zq 1 false))) = some ([false, true], true) := by decide +kernel
  have e2 : (stabRun 1 1 .zero [] ((exF.sops [1, 2, 3, 5, 4]).map Commute.toCOp)).map
      (fun s => (s.outs, Commute.grpCheck s.t (PRow.Zq 1 true))) = some ([false, true], true) := by decide +kernel
  obtain ⟨s1, h1, o1⟩ := Option.map_eq_some_iff.mp e1
  obtain ⟨s2, h2, o2⟩ := Option.map_eq_some_iff.mp e2
  simp only [Prod.mk.injEq] at o1 o2
  refine ⟨s1, s2, h1, h2, Commute.grp_of_grpCheck _ _ o1.2, Commute.grp_of_grpCheck _ _ o2.2, ?_, ?_⟩
  · rw [o1.1]; rfl
  · rw [o2.1]; rfl

/-- the example after `unwrap_nodes`, `group_one_qubit_gates` and `remove_identity` -/
def exC3 : Circuit :=
  ((exC.unwrapNodes [2, 6]).groupOneQubitGates [⟨.e, 0⟩, ⟨.p, 0⟩, ⟨.c, 0⟩]).removeIdentity []

theorem exC_good : exC.Good := by
  unfold exC
  simp only [List.foldl_cons, List.foldl_nil]
  repeat' (apply Good_addCore)
  any_goals exact Good_empty 1 1 1
  all_goals first
    | (refine ⟨by decide, by decide, by decide, ?_⟩; intro _; exact ⟨⟨_, rfl⟩, rfl⟩)
    | (refine ⟨by decide, by decide, by decide, ?_⟩; intro h; cases h)
    | (intro r hr; simp only [List.mem_cons, List.not_mem_nil, or_false] at hr; rcases hr with rfl | rfl <;> decide)

/-- a chain of four rewrites on the example (unwrap, group, remove identities, empty noise map): hypotheses of the
    `rewrite_chain_…` theorems -/
example : ∃ c4, exC3.assignNoise [12, 14, 4, 13, 7] = .ok c4 ∧ Commute.RewritesStar exC c4 ∧ c4.flat = exC.flat := by
  have hok : (okOr (exC3.assignNoise [12, 14, 4, 13, 7])).1 = true := by decide
  cases hr : exC3.assignNoise [12, 14, 4, 13, 7] with
  | error e => rw [hr] at hok; cases hok
  | ok c4 =>
    have hchain : Commute.RewritesStar exC c4 :=
      .tail (.tail (.tail (.tail (.refl _) (.unwrap [2, 6])) (.group [⟨.e, 0⟩, ⟨.p, 0⟩, ⟨.c, 0⟩])) (.removeIdentity []))
        (.assignNoise _ c4 hr)
    exact ⟨c4, rfl, hchain, hchain.flat_eq exC_good⟩

end Graphiq.C13
