/-
  C15 — circuits reported equal are equivalent; de-duplication keeps every distinct one.

  Property theorems only (lemmas in Proofs/Compare.lean).  Objects: circuits as operation lists on typed registers
  (Model/Export.lean); `directL` = `compare(method="direct")` on operation lists — proved equal to the model's walk over
  the simulated DAG `direct` for well-formed circuits (§4, `direct_walk_is_its_operation_list_form`; the driver also checks
  it on every input, and compares `direct` with the implementation); `circuitIsIsomorphic`,
  `isoNormalised` = the isomorphism comparison as coded (simulated DAG with ordered parallel edges, `control_target`
  attributes, `node_match`, `edge_match` on the multiset of roles of the parallel edges); `removeRedundantWith`, `storageAddAll` = the filters.
  Reference notions: `wiresEq` (same registers, same executed operations on every quantum register) and `renEq`
  (the same up to a renaming of registers within each type).  That equal wire sequences compile to equal states is the
  commutation fact of C13/C01, evaluated here by the direct oracle of the harness (all measurement branches).

  §3 is about the isomorphism comparison *as it stands in /repo* (refuted, finding D22′); §4 is about the comparison after
  the repair handoff/repairs/d22/patch.diff (`circuitIsIsomorphic2`: every edge carries the roles of its register at both
  ends) — for it the full statement is proved (`iso_sound`).  The harness probes which of the two the implementation under
  test is and compares it with the corresponding model functions.
-/
import GraphiqModel.Proofs.Compare
import GraphiqModel.Proofs.CompareRepairNorm
import GraphiqModel.Proofs.CompareRepairStab
import GraphiqModel.Proofs.CompareRepairRenEq
import GraphiqModel.Proofs.CompareRepairDirect
import GraphiqModel.Proofs.CompareRepairEquiv
import GraphiqModel.Proofs.CompareRepairComplete
namespace Graphiq.C15
open Graphiq Graphiq.Export Graphiq.Compare

/-! ## 1. The register-by-register method -/

/-- `isinstance(op1, type(op2))` between the exportable operation classes is class equality (regenerated table) -/
theorem class_test_is_equality (a b : Cls) : isSubclass a b = true ↔ a = b := isSubclass_iff a b

/-- **soundness of `direct`** for all circuits: reported equal ⇒ same register counts and the same executed operation
    sequence on every quantum register -/
theorem direct_sound (c1 c2 : Circuit) (h : directL c1 c2 = true) : wiresEq c1 c2 = true := directL_sound c1 c2 h

/-- what "the same wire sequences" means for whole circuits: for lists of operations that each act on at least one
    quantum register, agreeing on every register is the same as being related by exchanges of neighbouring operations on
    disjoint registers (the trace-theory projection lemma) -/
theorem wire_sequences_determine_the_circuit (l1 l2 : List Op) (hne : ∀ o ∈ l1, o.qRegs ≠ [])
    (hw : ∀ q, l1.filter (onReg q) = l2.filter (onReg q)) (hlen : l1.length = l2.length) : SwapEquiv l1 l2 :=
  swapEquiv_of_wires l1 l2 hne hw hlen

/-- **`direct` reports equal ⇒ equivalent circuits**: the executed operation lists differ only by exchanges of
    neighbouring operations acting on disjoint registers (which commute), and by which classical register records an
    outcome (which the compiled quantum state does not depend on) -/
theorem direct_sound_up_to_commuting_exchanges (c1 c2 : Circuit) (h1 : ∀ op ∈ c1.ops, InRange c1 op)
    (h2 : ∀ op ∈ c2.ops, InRange c2 op) (h : directL c1 c2 = true) :
    SwapEquiv ((flat c1.ops).map dropC) ((flat c2.ops).map dropC) :=
  directL_swapEquiv c1 c2 h1 h2 h

/-- reflexive (so a circuit and its copy compare equal) -/
theorem direct_reflexive (c : Circuit) : directL c c = true := directL_refl c

/-- symmetric -/
theorem direct_symmetric (c1 c2 : Circuit) : directL c1 c2 = directL c2 c1 := directL_symm c1 c2

/-- insensitive to wrapping and to identity gates: replacing a wrapper by its unwrapped operations, or deleting an
    identity, anywhere in either circuit, does not change the verdict -/
theorem direct_insensitive_to_wrapping_and_identities (pre post : List Op) (gs : List G1) (q : QReg) (ne np nc : Nat)
    (c2 : Circuit) :
    directL ⟨ne, np, nc, pre ++ [.wrap gs q] ++ post⟩ c2 = directL ⟨ne, np, nc, pre ++ Op.unwrap (.wrap gs q) ++ post⟩ c2 ∧
    directL ⟨ne, np, nc, pre ++ [.one .I q] ++ post⟩ c2 = directL ⟨ne, np, nc, pre ++ post⟩ c2 :=
  ⟨directL_flat_congr _ _ c2 ⟨rfl, rfl, rfl⟩ (flat_unwrap_in_place pre post gs q),
   directL_flat_congr _ _ c2 ⟨rfl, rfl, rfl⟩ (flat_identity_in_place pre post q)⟩

/-! ## 2. The filters -/

/-- for any comparison: the filtered list is a sub-list of the input and every input circuit is kept or compares equal to
    a kept one; `CircuitStorage` stores exactly that list -/
theorem filters_keep_a_representative {α : Type} (eq : α → α → Bool) (l : List α) :
    (removeRedundantWith eq l).Sublist l ∧
    (∀ x ∈ l, x ∈ removeRedundantWith eq l ∨ ∃ k ∈ removeRedundantWith eq l, eq k x = true) ∧
    (storageAddAll eq false l).1 = removeRedundantWith eq l :=
  ⟨(removeRedundantWith_spec eq l).1, (removeRedundantWith_spec eq l).2, storage_eq_removeRedundant eq l⟩

/-- **`CircuitStorage` with its default check never refuses a distinct circuit**: a circuit that is not stored is, wire
    by wire, the same circuit as one that is stored -/
theorem storage_default_keeps_every_distinct (l : List Circuit) :
    ∀ x ∈ l, x ∈ (storageAddAll directL false l).1 ∨ ∃ k ∈ (storageAddAll directL false l).1, wiresEq k x = true := by
  intro x hx
  rw [storage_eq_removeRedundant]
  rcases (removeRedundantWith_spec directL l).2 x hx with h | ⟨k, hk, hkx⟩
  · exact Or.inl h
  · exact Or.inr ⟨k, hk, directL_sound k x hkx⟩

/-! ## 3. The isomorphism method: full statement, refutation, and the proved part -/

/-- full statement (as in properties.jsonl): reported isomorphic ⇒ the same circuit up to a renaming of registers of
    the same type -/
def iso_sound_statement : Prop :=
  ∀ c1 c2 : Circuit, circuitIsIsomorphic c1 c2 = .ok true → renEq c1 c2 = true

/-- … and its consequence for `remove_redundant_circuits`: a dropped circuit is `renEq` to a kept one -/
def dedup_iso_statement : Prop :=
  ∀ l : List Circuit, ∀ x ∈ l, x ∈ removeRedundant l ∨ ∃ k ∈ removeRedundant l, renEq k x = true

def e0 : QReg := ⟨.e, 0⟩
def e1 : QReg := ⟨.e, 1⟩

/-- smallest witness: the roles at a classically controlled operation are invisible to the matcher -/
def witA : Circuit := ⟨2, 0, 1, [.one .H e0, .cctrl .CCNOT e1 e0 0]⟩
def witB : Circuit := ⟨2, 0, 1, [.one .H e0, .cctrl .CCNOT e0 e1 0]⟩
/-- D22 as recorded in DESIGN §5: which wire continues through a two-register node is invisible -/
def d22A : Circuit := ⟨2, 0, 0, [.ctrl .CNOT e1 e0, .one .H e0, .ctrl .CNOT e1 e0, .ctrl .CNOT e1 e0]⟩
def d22B : Circuit := ⟨2, 0, 0, [.ctrl .CNOT e1 e0, .one .H e0, .ctrl .CNOT e1 e0, .ctrl .CNOT e0 e1]⟩
/-- no parallel edges are needed: what follows a two-register node can be swapped between its two wires -/
def tailA : Circuit := ⟨2, 0, 0, [.one .H e0, .ctrl .CNOT e0 e1, .one .S e0, .ctrl .CNOT e0 e1, .one .H e0, .one .S e1]⟩
def tailB : Circuit := ⟨2, 0, 0, [.one .H e0, .ctrl .CNOT e0 e1, .one .S e0, .ctrl .CNOT e0 e1, .one .S e0, .one .H e1]⟩

/-- kernel-checked: on each witness pair the coded comparison answers "isomorphic" (also after normalisation, as the
    filters call it) although no renaming relates the circuits.  The harness replays these pairs on the implementation
    on every run (compiled states differ under every renaming). -/
theorem iso_witnesses :
    circuitIsIsomorphic witA witB = .ok true ∧ isoNormalised witA witB = .ok true ∧ renEq witA witB = false ∧
    circuitIsIsomorphic d22A d22B = .ok true ∧ renEq d22A d22B = false ∧
    circuitIsIsomorphic tailA tailB = .ok true ∧ renEq tailA tailB = false := by
  decide +kernel

theorem iso_sound_refuted : ¬ iso_sound_statement := by
  intro h
  have h1 := h witA witB iso_witnesses.1
  rw [iso_witnesses.2.2.1] at h1
  cases h1

theorem dedup_iso_refuted : ¬ dedup_iso_statement := by
  intro h
  have hk : removeRedundant [witA, witB] = [witA] := by decide +kernel
  rcases h [witA, witB] witB (by simp) with h1 | ⟨k, hk1, hk2⟩
  · rw [hk] at h1
    have : witB ≠ witA := by decide
    simp [this] at h1
  · rw [hk] at hk1
    simp at hk1; subst hk1
    rw [iso_witnesses.2.2.1] at hk2
    cases hk2

/-- **proved part** (`_partial`).  What the coded matcher guarantees is: a node bijection preserving operation classes,
    register types and edge multiplicities.  What it does not check is that the bijection respects the edge *keys*
    (which wire an edge belongs to).  If the bijection a positive answer exhibits does respect them up to a renaming `π`
    of wires (`KeyRespecting`: the missing hypothesis, decidable, evaluated by the driver on every input through
    `renEq`), then it maps the node sequence of every wire of the first circuit onto the node sequence of the
    corresponding wire of the second, with matching operation classes and register types node by node. -/
theorem iso_sound_partial (g1 g2 : MG) (fl : List (Nd × Nd)) (π : Wire → Wire)
    (hc : isoCheck g1 g2 fl = true)
    (hk : KeyRespecting g1 g2 (fun n => (applyMap fl n).getD n) π) (hu : UniqueOut g2) (w : Wire) (fuel : Nat) (n : Nd) :
    followKey g2 (π w) fuel ((applyMap fl n).getD n) = (followKey g1 w fuel n).map (fun n => (applyMap fl n).getD n) ∧
    ∀ m ∈ followKey g1 w fuel n, m ∈ g1.nodes.map (·.1) →
      ∃ a b, g1.opOf m = some a ∧ g2.opOf ((applyMap fl m).getD m) = some b ∧ nodeMatch a b = true := by
  refine ⟨followKey_map g1 g2 _ π hk hu w fuel n, ?_⟩
  intro m _ hm
  obtain ⟨m', a, b, h1, h2, h3, h4⟩ := isoCheck_nodeMatch g1 g2 fl hc m hm
  exact ⟨a, b, h2, by simpa [h1] using h3, h4⟩

/-- the D22 pair and the tail-swap pair are unitary; compiled from |00⟩ with the verified tableau gates of C07
    (`Tab.runOps`), their stabilizer states differ, also after exchanging the two qubits — so the refutation holds at
    the level of compiled states, not only of wire sequences (kernel-checked) -/
theorem iso_witness_states_differ : statesDiffer2 d22A d22B = true ∧ statesDiffer2 tailA tailB = true := by
  decide +kernel

/-- **the coded check is reflexive**: the identity map passes it on any DAG with distinct node names, so a circuit and
    its copy are reported isomorphic -/
theorem iso_reflexive (g : MG) (hnd : nodupNd (g.nodes.map (·.1)) = true)
    (hop : ∀ n ∈ g.nodes.map (·.1), (g.opOf n).isSome = true) : isoCheck g g (idMapOf g) = true :=
  isoCheck_refl g hnd hop

/-- **the coded isomorphism relation is symmetric**: a map passing the check from `g1` to `g2` yields (its inverse) a
    map passing the check from `g2` to `g1` — so, `networkx.is_isomorphic` deciding existence, the comparison gives the
    same answer for (a, b) and (b, a) -/
theorem iso_symmetric (g1 g2 : MG) (f : List (Nd × Nd)) (h : isoCheck g1 g2 f = true) :
    ∃ f', isoCheck g2 g1 f' = true :=
  ⟨_, isoCheck_symm g1 g2 f h⟩

/-- a positive answer of the model always exhibits a map that passes the full check (the search is never trusted) -/
theorem iso_answer_is_checked (g1 g2 : MG) (h : isoGraphs g1 g2 = true) :
    ∃ f, isoCheck g1.addControlTarget g2.addControlTarget f = true := isoGraphs_witness g1 g2 h


/-! ## 4. The repaired isomorphism method (handoff/repairs/d22): soundness proved

  `circuitIsIsomorphic2` models `circuit_is_isomorphic` after the repair: `_create_edge_control_target_attr` also knows
  the roles at classically controlled operations and the role `'m'` of a written classical register, and
  `add_control_target_to_dag` gives every edge the pair (role at its tail, role at its head); `node_match`, `edge_match`
  and `networkx.is_isomorphic` (specified by `isoCheck2`, never trusted as a search) are unchanged.  Lemmas in
  Proofs/CompareRepair*.lean. -/

/-- the quantifier of §4: every operation acts on registers of the circuit and on pairwise different ones (the control
    of a two-qubit operation is not its target) -/
def WellFormed (c : Circuit) : Prop := ∀ o ∈ c.ops, InRange c o ∧ (opWires o).Nodup

instance (c : Circuit) : Decidable (WellFormed c) := by unfold WellFormed; infer_instance

theorem wellFormed_opOK (c : Circuit) (h : WellFormed c) : ∀ o ∈ c.ops, OpOK (wiresN c.ne c.np c.nc) o :=
  fun o ho => (opOK_iff c o).2 (h o ho)

/-- the DAG `CircuitDAG.add` builds is a family of register paths — for every register the edges with its key form one
    path from its input node through operation nodes to its output node — and the operations met along the path of
    register `w` are the operations of the circuit that touch `w`, in the order they were added -/
theorem dag_is_a_family_of_register_paths (c : Circuit) (h : WellFormed c) :
    ∃ g, MG.build c = .ok g ∧ BuildInv (wiresN c.ne c.np c.nc) g c.ops :=
  let ⟨g, hb, hi, _⟩ := build_rep c (wellFormed_opOK c h)
  ⟨g, hb, hi⟩

/-- on such a DAG the walk of the repaired `add_control_target_to_dag` (one pass per register, remembering the role at
    the operation just left) labels **every** edge with (role of its register at its tail, role at its head) -/
theorem repaired_walk_labels_every_edge (g : MG) (W : List Wire) (body : Wire → List Nd) (r : Rep0 g W body) :
    g.addControlTarget2 = g.labelled ∧ Rep g.addControlTarget2 W body :=
  ⟨addControlTarget2_eq g W body r, r.addControlTarget2⟩

/-- different registers of one operation never have the same role (what makes the pair of roles identify the register) -/
theorem roles_separate_registers (o : Op) (hn : (opWires o).Nodup) (w w' : Wire) (hw : w ∈ opWires o) (hw' : w' ∈ opWires o)
    (h : role (some (.gate o)) w = role (some (.gate o)) w') : w = w' := role_inj o hn w w' hw hw' h

/-- **graph level**: a node bijection that passes the repaired check between two labelled circuit DAGs maps the path of
    every register `w` of the first onto the path of one register of the second — of the same type, input node to input
    node, output node to output node, the operation nodes in order — and at every operation node the image register
    plays the role `w` plays.  (This is the statement `iso_sound_partial` needs `KeyRespecting` for; with both ends of
    every edge labelled it is a theorem.) -/
theorem repaired_check_follows_every_register (g1 g2 : MG) (W1 W2 : List Wire) (B1 B2 : Wire → List Nd)
    (r1 : Rep g1 W1 B1) (r2 : Rep g2 W2 B2) (f : List (Nd × Nd)) (h : isoCheck2 g1 g2 f = true) (w : Wire) (hw : w ∈ W1) :
    wireMap (mapFn f) w ∈ W2 ∧ (wireMap (mapFn f) w).t = w.t ∧
    mapFn f (.inp w) = .inp (wireMap (mapFn f) w) ∧ mapFn f (.out w) = .out (wireMap (mapFn f) w) ∧
    B2 (wireMap (mapFn f) w) = (B1 w).map (mapFn f) ∧
    ∀ n ∈ B1 w, role (g2.opOf (mapFn f n)) (wireMap (mapFn f) w) = role (g1.opOf n) w :=
  iso2_wires g1 g2 W1 W2 B1 B2 r1 r2 (mapFn f) (isoCheck2_facts g1 g2 f h).2 w hw

/-- **soundness of the repaired `circuit_is_isomorphic`** (the full statement of properties.jsonl for the repaired
    function): if it reports two well-formed circuits isomorphic, there is a renaming `π` of the registers — a bijection
    of the registers that preserves the register type (emitter / photon / classical), the register counts being equal —
    such that on every register `w` the operations of the second circuit on `π w` are exactly the renamed operations of
    the first circuit on `w`, in the same order, and both circuits have the same number of operations -/
theorem iso_sound (c1 c2 : Circuit) (h1 : WellFormed c1) (h2 : WellFormed c2) (h : circuitIsIsomorphic2 c1 c2 = .ok true) :
    ∃ π, RenamedBy π c1 c2 :=
  iso2_sound c1 c2 (wellFormed_opOK c1 h1) (wellFormed_opOK c2 h2) h

/-- … hence the renamed first circuit and the second differ only by exchanges of neighbouring operations acting on
    disjoint quantum registers -/
theorem iso_sound_up_to_commuting_exchanges (c1 c2 : Circuit) (h1 : WellFormed c1) (h2 : WellFormed c2)
    (h : circuitIsIsomorphic2 c1 c2 = .ok true) :
    ∃ π, RenamedBy π c1 c2 ∧ SwapEquiv (c1.ops.map (renOp π)) c2.ops := by
  obtain ⟨π, hπ⟩ := iso_sound c1 c2 h1 h2 h
  exact ⟨π, hπ, hπ.swapEquiv (wellFormed_opOK c1 h1) (wellFormed_opOK c2 h2)⟩

/-- … hence **the same compiled state up to the renaming**, in every semantics `app` of single operations in which
    operations on disjoint quantum registers commute (for the verified stabilizer semantics that commutation is
    `C13.stabilizer_ops_on_disjoint_registers_commute`): running the renamed first circuit and running the second circuit
    from any state give the same state -/
theorem iso_sound_same_compiled_state {σ : Type} (app : Op → σ → σ)
    (hcomm : ∀ a b, disjointOps a b = true → ∀ s, app b (app a s) = app a (app b s))
    (c1 c2 : Circuit) (h1 : WellFormed c1) (h2 : WellFormed c2) (h : circuitIsIsomorphic2 c1 c2 = .ok true) :
    ∃ π, RenamedBy π c1 c2 ∧
      ∀ s, (c1.ops.map (renOp π)).foldl (fun s o => app o s) s = c2.ops.foldl (fun s o => app o s) s := by
  obtain ⟨π, hπ, hs⟩ := iso_sound_up_to_commuting_exchanges c1 c2 h1 h2 h
  exact ⟨π, hπ, fun s => hs.same_state app hcomm s⟩

/-- kernel-checked: the repaired comparison tells every witness pair of §3 apart (also after normalisation, as the
    filters call it), and `remove_redundant_circuits` with it keeps both circuits of the smallest pair -/
theorem repaired_matcher_rejects_the_witnesses :
    circuitIsIsomorphic2 witA witB = .ok false ∧ isoNormalised2 witA witB = .ok false ∧
    circuitIsIsomorphic2 d22A d22B = .ok false ∧ circuitIsIsomorphic2 tailA tailB = .ok false ∧
    removeRedundant2 [witA, witB] = [witA, witB] := by
  decide +kernel

/-- **the repaired isomorphism relation is reflexive and symmetric**: the identity map passes the check on every DAG with
    distinct node names whose nodes all carry an operation, and the inverse of a map passing the check from `g1` to `g2`
    passes it from `g2` to `g1` — so, `networkx.is_isomorphic` deciding existence, the comparison gives the same answer
    for (a, b) and (b, a) -/
theorem iso2_reflexive_and_symmetric :
    (∀ g : MG, (g.nodes.map (·.1)).Nodup → (∀ n ∈ g.nodes.map (·.1), ∃ o, g.opOf n = some o) →
      isoCheck2 g g (idMapOf g) = true) ∧
    (∀ (g1 g2 : MG) (f : List (Nd × Nd)), isoCheck2 g1 g2 f = true → ∃ f', isoCheck2 g2 g1 f' = true) :=
  ⟨isoCheck2_refl, fun g1 g2 f h => ⟨_, isoCheck2_symm g1 g2 f h⟩⟩

/-- **a well-formed circuit is isomorphic to its copy**, as `compare` calls the repaired comparison and as the filters call
    it: on the DAG `CircuitDAG.add` builds, and on its normalisation, the identity map passes the check -/
theorem circuit_is_isomorphic_to_its_copy (c : Circuit) (h : WellFormed c) :
    ∃ g, MG.build c = .ok g ∧ isoCheck2 g.addControlTarget2 g.addControlTarget2 (idMapOf g.addControlTarget2) = true ∧
      isoCheck2 g.normalise.addControlTarget2 g.normalise.addControlTarget2 (idMapOf g.normalise.addControlTarget2) = true :=
  build_iso_refl c (wellFormed_opOK c h)

/-- **no false-distinct on renamed copies**: if the registers of a well-formed circuit are renamed by a type-preserving
    bijection `π` of its registers (every operation renamed in place, same order), the repaired comparison has an
    isomorphism to report — the node map "input/output nodes follow their register, operation nodes keep their id" passes
    the full check (`networkx.is_isomorphic`, deciding existence, answers `True`).  Together with `iso_sound` this pins the
    repaired function from both sides; the converse for arbitrary `RenamedBy` pairs (operations also reordered) is tested,
    not proved. -/
theorem renamed_copy_is_isomorphic (c : Circuit) (h : WellFormed c) (π : Wire → Wire)
    (hπ : IsRenaming (wiresN c.ne c.np c.nc) π) (hsurj : ∀ w2 ∈ wiresN c.ne c.np c.nc, ∃ w ∈ wiresN c.ne c.np c.nc, π w = w2) :
    ∃ g1 g2 f, MG.build c = .ok g1 ∧ MG.build ⟨c.ne, c.np, c.nc, c.ops.map (renOp π)⟩ = .ok g2 ∧
      isoCheck2 g1.addControlTarget2 g2.addControlTarget2 f = true :=
  renamed_copy_iso c (wellFormed_opOK c h) π hπ hsurj

/-- a positive answer of the repaired model always exhibits a map that passes the full check (the search is never trusted) -/
theorem iso2_answer_is_checked (g1 g2 : MG) (h : isoGraphs2 g1 g2 = true) :
    ∃ f, isoCheck2 g1.addControlTarget2 g2.addControlTarget2 f = true := isoGraphs2_witness g1 g2 h

/-- the DAG after `unwrap_nodes` and `remove_identity` (the copy `remove_redundant_circuits` compares) is again a family of
    register paths, and the operations along the path of register `w` are the *executed* operations (`flat`: wrappers
    expanded in application order, identities dropped) that touch `w` -/
theorem normalised_dag_carries_the_flattened_circuit (c : Circuit) (h : WellFormed c) :
    ∃ g, MG.build c = .ok g ∧ GraphInv (wiresN c.ne c.np c.nc) g.normalise (fun w => (flat c.ops).filter (touches w)) :=
  let ⟨g, hb, hi, _⟩ := build_rep c (wellFormed_opOK c h)
  ⟨g, hb, normalise_graphInv _ g c.ops hi⟩

/-- **soundness of the repaired comparison as the filters call it** (copy, `unwrap_nodes`, `remove_identity`,
    `circuit_is_isomorphic`): reported isomorphic ⇒ the executed operations of the two circuits are renamings of each
    other register by register, hence differ (after renaming) only by exchanges of neighbouring operations on disjoint
    registers -/
theorem iso_normalised_sound (c1 c2 : Circuit) (h1 : WellFormed c1) (h2 : WellFormed c2)
    (h : isoNormalised2 c1 c2 = .ok true) :
    ∃ π, RenamedBy π (flatC c1) (flatC c2) ∧ SwapEquiv ((flat c1.ops).map (renOp π)) (flat c2.ops) := by
  obtain ⟨π, hπ⟩ := isoNorm2_sound c1 c2 (wellFormed_opOK c1 h1) (wellFormed_opOK c2 h2) h
  exact ⟨π, hπ, hπ.swapEquiv (flat_opOK _ _ (wellFormed_opOK c1 h1)) (flat_opOK _ _ (wellFormed_opOK c2 h2))⟩

/-- **reported isomorphic ⇒ the same compiled stabilizer state up to the renaming** — in C13's verified stabilizer
    semantics (`Commute.appG`: stabilizer group of a valid tableau on `ne + np` qubits plus the unread measurement outcomes;
    gates by C07's `specGate`, measurements by `specMeasure`; that operations on disjoint registers commute there is
    `C13.stabilizer_ops_on_disjoint_registers_commute`): for either form of the repaired comparison (as `compare` calls it,
    or as the filters call it after normalisation), running the renamed executed operations of the first circuit and
    running the executed operations of the second from any state give the same state, for every assignment of outcomes
    to the measuring operations.  `toSOp` (Proofs/CompareRepairStab.lean) is the translation of an executed operation of
    this model into an operation of C13's compile sequence: same class, same registers. -/
theorem iso_sound_same_stabilizer_state (c1 c2 : Circuit) (h1 : WellFormed c1) (h2 : WellFormed c2)
    (h : circuitIsIsomorphic2 c1 c2 = .ok true ∨ isoNormalised2 c1 c2 = .ok true) :
    ∃ π, RenamedBy π (flatC c1) (flatC c2) ∧ ∀ (ne np : Nat) (s : Commute.GSt ne np),
      Wire.runSeq (Commute.appG ne np) (((flat c1.ops).map (renOp π)).map toSOp) s =
        Wire.runSeq (Commute.appG ne np) ((flat c2.ops).map toSOp) s := by
  have key : ∃ π, RenamedBy π (flatC c1) (flatC c2) := by
    rcases h with h | h
    · obtain ⟨π, hπ⟩ := iso_sound c1 c2 h1 h2 h
      exact ⟨π, hπ.flat⟩
    · obtain ⟨π, hπ, _⟩ := iso_normalised_sound c1 c2 h1 h2 h
      exact ⟨π, hπ⟩
  obtain ⟨π, hπ⟩ := key
  refine ⟨π, hπ, fun ne np s => ?_⟩
  exact (hπ.swapEquiv (flat_opOK _ _ (wellFormed_opOK c1 h1)) (flat_opOK _ _ (wellFormed_opOK c2 h2))).same_stab_state ne np s

/-- **`remove_redundant_circuits` with the repaired comparison keeps every distinct circuit** (the second half of the
    property, for the repaired function): the result is a sub-list of the input, and every circuit that is dropped is —
    in its executed operations — a renaming, register by register, of a circuit that is kept -/
theorem dedup_sound (l : List Circuit) (hl : ∀ c ∈ l, WellFormed c) :
    (removeRedundant2 l).Sublist l ∧
    ∀ x ∈ l, x ∈ removeRedundant2 l ∨ ∃ k ∈ removeRedundant2 l, ∃ π, RenamedBy π (flatC k) (flatC x) :=
  removeRedundant2_sound l (fun c hc => wellFormed_opOK c (hl c hc))

/-- **the model of `direct` is its operation-list form.**  `direct` is the walk over the two simulated DAGs (build,
    `unwrap_nodes`, `remove_identity`, then every register of both graphs in lock-step) — the function the driver compares
    with the implementation; §1 is about `directL`.  On well-formed circuits the walk never raises and returns exactly
    `directL` (register-path invariant of the normalised DAG, its node count, and an induction along the two paths), so
    the agreement the harness tests on every input is a theorem, and every statement of §1 is a statement about the walk -/
theorem direct_walk_is_its_operation_list_form (c1 c2 : Circuit) (h1 : WellFormed c1) (h2 : WellFormed c2) :
    direct c1 c2 = .ok (directL c1 c2) :=
  direct_eq_directL c1 c2 (wellFormed_opOK c1 h1) (wellFormed_opOK c2 h2)

/-- **soundness of `direct` for the model of the code itself**: reported equal ⇒ same register counts and the same
    executed operations on every quantum register -/
theorem direct_sound_on_the_dag (c1 c2 : Circuit) (h1 : WellFormed c1) (h2 : WellFormed c2) (h : direct c1 c2 = .ok true) :
    wiresEq c1 c2 = true :=
  direct_graph_sound c1 c2 (wellFormed_opOK c1 h1) (wellFormed_opOK c2 h2) h

/-- the walk is reflexive and symmetric, and does not raise -/
theorem direct_reflexive_symmetric_on_the_dag (c1 c2 : Circuit) (h1 : WellFormed c1) (h2 : WellFormed c2) :
    direct c1 c1 = .ok true ∧ direct c1 c2 = direct c2 c1 := by
  rw [direct_walk_is_its_operation_list_form c1 c1 h1 h1, direct_walk_is_its_operation_list_form c1 c2 h1 h2,
    direct_walk_is_its_operation_list_form c2 c1 h2 h1, directL_refl, directL_symm]
  exact ⟨rfl, rfl⟩

/-- … and insensitive to wrapping and to identity gates (the statement of §1 for the walk itself) -/
theorem direct_insensitive_on_the_dag (pre post : List Op) (gs : List G1) (q : QReg) (ne np nc : Nat) (c2 : Circuit)
    (h2 : WellFormed c2)
    (hw : WellFormed ⟨ne, np, nc, pre ++ [.wrap gs q] ++ post⟩) (hu : WellFormed ⟨ne, np, nc, pre ++ Op.unwrap (.wrap gs q) ++ post⟩)
    (hi : WellFormed ⟨ne, np, nc, pre ++ [.one .I q] ++ post⟩) (hn : WellFormed ⟨ne, np, nc, pre ++ post⟩) :
    direct ⟨ne, np, nc, pre ++ [.wrap gs q] ++ post⟩ c2 = direct ⟨ne, np, nc, pre ++ Op.unwrap (.wrap gs q) ++ post⟩ c2 ∧
    direct ⟨ne, np, nc, pre ++ [.one .I q] ++ post⟩ c2 = direct ⟨ne, np, nc, pre ++ post⟩ c2 := by
  rw [direct_walk_is_its_operation_list_form _ c2 hw h2, direct_walk_is_its_operation_list_form _ c2 hu h2,
    direct_walk_is_its_operation_list_form _ c2 hi h2, direct_walk_is_its_operation_list_form _ c2 hn h2]
  obtain ⟨a, b⟩ := direct_insensitive_to_wrapping_and_identities pre post gs q ne np nc c2
  rw [a, b]
  exact ⟨rfl, rfl⟩

/-- … and therefore **`CircuitStorage` with its default check** (`check_redundant_circuit` = `direct` on copies; an
    exception counts as "different", as in the driver) **never refuses a distinct circuit**, stated for the graph-walk
    model: a circuit that is not stored is, wire by wire, the same circuit as one that is stored -/
theorem storage_default_keeps_every_distinct_on_the_dag (l : List Circuit) (hl : ∀ c ∈ l, WellFormed c) :
    let eq := fun a b : Circuit => match checkRedundant a b with | .ok r => r | .error _ => false
    ∀ x ∈ l, x ∈ (storageAddAll eq false l).1 ∨ ∃ k ∈ (storageAddAll eq false l).1, wiresEq k x = true := by
  intro eq x hx
  rw [storage_eq_removeRedundant]
  have hsub : (removeRedundantWith eq l).Sublist l := (removeRedundantWith_spec eq l).1
  rcases (removeRedundantWith_spec eq l).2 x hx with h | ⟨k, hk, hkx⟩
  · exact Or.inl h
  · refine Or.inr ⟨k, hk, ?_⟩
    have hkl := hsub.subset hk
    have hd : direct k x = .ok true := by
      show checkRedundant k x = .ok true
      cases hr : checkRedundant k x with
      | ok r =>
        have : eq k x = r := by show (match checkRedundant k x with | .ok r => r | .error _ => false) = r; rw [hr]
        rw [this] at hkx; rw [hkx]
      | error e =>
        have : eq k x = false := by show (match checkRedundant k x with | .ok r => r | .error _ => false) = false; rw [hr]
        rw [this] at hkx; cases hkx
    exact direct_sound_on_the_dag k x (hl k hkl) (hl x hx) hd

/-- **the original full statements of §3, now theorems**: `iso_sound_statement` and `dedup_iso_statement` (refuted above
    for the matcher before the repair) hold literally — with the executable reference notion `renEq` the harness
    evaluates by brute force — for the repaired functions on well-formed circuits -/
theorem original_statements_hold_for_the_repaired_functions :
    (∀ c1 c2 : Circuit, WellFormed c1 → WellFormed c2 → circuitIsIsomorphic2 c1 c2 = .ok true → renEq c1 c2 = true) ∧
    (∀ l : List Circuit, (∀ c ∈ l, WellFormed c) →
      ∀ x ∈ l, x ∈ removeRedundant2 l ∨ ∃ k ∈ removeRedundant2 l, renEq k x = true) := by
  constructor
  · intro c1 c2 h1 h2 h
    obtain ⟨π, hπ⟩ := iso_sound c1 c2 h1 h2 h
    exact hπ.renEq (wellFormed_opOK c1 h1) (wellFormed_opOK c2 h2)
  · intro l hl x hx
    obtain ⟨hsub, hall⟩ := dedup_sound l hl
    rcases hall x hx with h | ⟨k, hk, π, hπ⟩
    · exact Or.inl h
    · refine Or.inr ⟨k, hk, ?_⟩
      have hkl := hsub.subset hk
      rw [← renEq_flatC]
      exact hπ.renEq (flat_opOK _ _ (wellFormed_opOK k (hl k hkl))) (flat_opOK _ _ (wellFormed_opOK x (hl x hx)))

/-! ## Non-vacuity -/

/-- H e0; CNOT e0→p0; W[H,P] p0; measure-and-reset e0→p0; identity -/
def demo : Circuit :=
  ⟨1, 1, 1, [.one .H ⟨.e, 0⟩, .ctrl .CNOT ⟨.e, 0⟩ ⟨.p, 0⟩, .wrap [.H, .S] ⟨.p, 0⟩, .cctrl .MCR ⟨.e, 0⟩ ⟨.p, 0⟩ 0, .one .I ⟨.e, 0⟩]⟩
/-- the same circuit re-bracketed: wrapper unwrapped, identity gone -/
def demo' : Circuit :=
  ⟨1, 1, 1, [.one .H ⟨.e, 0⟩, .ctrl .CNOT ⟨.e, 0⟩ ⟨.p, 0⟩, .one .S ⟨.p, 0⟩, .one .H ⟨.p, 0⟩, .cctrl .MCR ⟨.e, 0⟩ ⟨.p, 0⟩ 0]⟩

example : directL demo demo' = true := by decide +kernel
example : (∀ op ∈ demo.ops, InRange demo op) ∧ (∀ op ∈ demo'.ops, InRange demo' op) := by decide +kernel
example : wiresEq demo demo' = true := by decide +kernel
example : direct demo demo' = .ok true := by decide +kernel
example : removeRedundantWith directL [demo, demo', witA, witB] = [demo, witA, witB] := by decide +kernel

/-- the hypotheses of `iso_sound_partial` are met by a real pair: a circuit's DAG against itself under the identity map -/
def demoG : MG := match MG.build demo with | .ok g => g.addControlTarget | .error _ => {}
def idMap : List (Nd × Nd) := demoG.nodes.map fun p => (p.1, p.1)

example : isoCheck demoG demoG idMap = true := by decide +kernel
example : nodupNd (demoG.nodes.map (·.1)) = true ∧ ∀ n ∈ demoG.nodes.map (·.1), (demoG.opOf n).isSome = true := by decide +kernel
example : UniqueOut demoG := by unfold UniqueOut; decide +kernel
example : ∀ n ∈ demoG.nodes.map (·.1), (applyMap idMap n).getD n = n := by decide +kernel

/-- the hypotheses of §4 are met by real circuits: the witnesses and the demo circuits are well formed, and the repaired
    comparison accepts a renamed copy (registers e0 ↔ e1 exchanged) of the D22 circuit and the re-bracketed demo pair after
    normalisation -/
def d22A' : Circuit := ⟨2, 0, 0, [.ctrl .CNOT e0 e1, .one .H e1, .ctrl .CNOT e0 e1, .ctrl .CNOT e0 e1]⟩

example : WellFormed witA ∧ WellFormed witB ∧ WellFormed d22A ∧ WellFormed d22B ∧ WellFormed demo ∧ WellFormed demo' ∧ WellFormed d22A' := by
  decide +kernel
example : circuitIsIsomorphic2 d22A d22A' = .ok true ∧ circuitIsIsomorphic2 d22A d22A = .ok true ∧
    isoNormalised2 demo demo' = .ok true := by decide +kernel
example : removeRedundant2 [demo, demo', witA, witB, d22A, d22A'] = [demo, witA, witB, d22A] := by decide +kernel

/-- `Rep0` / `Rep` are met by a real DAG: the demo circuit's -/
example : ∃ g body, MG.build demo = .ok g ∧ Rep0 g (wiresN 1 1 1) body ∧ Rep g.addControlTarget2 (wiresN 1 1 1) body := by
  obtain ⟨g, hb, ⟨body, r, _⟩⟩ := dag_is_a_family_of_register_paths demo (by decide +kernel)
  exact ⟨g, body, hb, r, r.addControlTarget2⟩

/-- the hypotheses of `direct_insensitive_on_the_dag` are met by a real instance -/
example :
    WellFormed ⟨1, 1, 0, [.one .H ⟨.e, 0⟩] ++ [.wrap [.H, .S] ⟨.p, 0⟩] ++ [.ctrl .CNOT ⟨.e, 0⟩ ⟨.p, 0⟩]⟩ ∧
    WellFormed ⟨1, 1, 0, [.one .H ⟨.e, 0⟩] ++ Op.unwrap (.wrap [.H, .S] ⟨.p, 0⟩) ++ [.ctrl .CNOT ⟨.e, 0⟩ ⟨.p, 0⟩]⟩ ∧
    WellFormed ⟨1, 1, 0, [.one .H ⟨.e, 0⟩] ++ [.one .I ⟨.p, 0⟩] ++ [.ctrl .CNOT ⟨.e, 0⟩ ⟨.p, 0⟩]⟩ ∧
    WellFormed ⟨1, 1, 0, [.one .H ⟨.e, 0⟩] ++ [.ctrl .CNOT ⟨.e, 0⟩ ⟨.p, 0⟩]⟩ := by decide +kernel

/-- the hypotheses are met: exchanging the two emitters of the D22 circuit is a renaming (and the model's search finds the
    isomorphism: `circuitIsIsomorphic2 d22A d22A' = .ok true` above) -/
example : IsRenaming (wiresN 2 0 0) (fun w => if w = ⟨.e, 0⟩ then ⟨.e, 1⟩ else if w = ⟨.e, 1⟩ then ⟨.e, 0⟩ else w) ∧
    (⟨2, 0, 0, d22A.ops.map (renOp (fun w => if w = ⟨.e, 0⟩ then ⟨.e, 1⟩ else if w = ⟨.e, 1⟩ then ⟨.e, 0⟩ else w))⟩ : Circuit) = d22A' := by
  refine ⟨⟨?_, ?_, ?_⟩, by decide⟩ <;> decide

end Graphiq.C15
