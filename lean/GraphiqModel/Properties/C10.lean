/-
  C10 — every alternate-target result generates the relabelled target.

  As for C02, what is proved is the soundness of the validator applied to every entry the real solver returns: an accepted entry's
  circuit generates, under every combination of measurement outcomes, exactly the target graph state with its vertices renamed by the
  entry's map.  Orbit membership of the listed graph and distinctness of the listed graphs are decided per output by the harness.
-/
import GraphiqModel.Properties.C02
namespace Graphiq.C10
open Graphiq Graphiq.PRow Graphiq.Tab Graphiq.STab

/-- adjacency of the target with vertex `u` renamed to `perm[u]`: edge `(a, b)` iff some edge `(u, v)` has `perm u = a`, `perm v = b` -/
def relabelAdj (n : Nat) (adj : Nat → Nat → Bool) (perm : List Nat) : Nat → Nat → Bool :=
  fun a b => (List.range n).any fun u => (List.range n).any fun v =>
    perm.getD u n == a && perm.getD v n == b && adj u v

/-- the renamed graph has edge `(perm u, perm v)` whenever the target has `(u, v)` -/
theorem relabel_edge (n : Nat) (adj : Nat → Nat → Bool) (perm : List Nat) (u v : Nat) (hu : u < n) (hv : v < n)
    (h : adj u v = true) : relabelAdj n adj perm (perm.getD u n) (perm.getD v n) = true := by
  unfold relabelAdj
  simp only [List.any_eq_true, List.mem_range, Bool.and_eq_true, beq_iff_eq]
  exact ⟨u, hu, v, hv, ⟨rfl, rfl⟩, h⟩

/-- and, when `perm` is injective on the vertices, only then -/
theorem relabel_edge_iff (n : Nat) (adj : Nat → Nat → Bool) (perm : List Nat)
    (hinj : ∀ u v, u < n → v < n → perm.getD u n = perm.getD v n → u = v) (u v : Nat) (hu : u < n) (hv : v < n) :
    relabelAdj n adj perm (perm.getD u n) (perm.getD v n) = adj u v := by
  cases h : adj u v with
  | true => exact relabel_edge n adj perm u v hu hv h
  | false =>
    unfold relabelAdj
    apply Bool.eq_false_iff.mpr
    intro hc
    simp only [List.any_eq_true, List.mem_range, Bool.and_eq_true, beq_iff_eq] at hc
    obtain ⟨u', hu', v', hv', ⟨e1, e2⟩, ha⟩ := hc
    have := hinj u' u hu' hu e1
    have := hinj v' v hv' hv e2
    subst_vars
    rw [h] at ha; cases ha

/-- **Soundness of the entry validator**: if the validator accepts an entry's circuit against the renamed adjacency, then under every
    combination of measurement outcomes the circuit leaves the photons exactly in the renamed target's graph state and every emitter in |0⟩ -/
theorem entry_validator_sound (ne np : Nat) (ops : List COp) (adj : Nat → Nat → Bool) (perm : List Nat)
    (h : checkGenerates ne np ops (relabelAdj np adj perm) = true) :
    ∀ script : List Bool, script.length = countMeas ops →
      ∃ s, stabRun ne np .prob script ops = some s ∧
        ∀ p, (STab.ofTab s.t).Spn p ↔ (targetSTab np ne (relabelAdj np adj perm)).Spn p := by
  intro script hl
  obtain ⟨s, hs, _, hiff⟩ := C02.validator_sound ne np ops (relabelAdj np adj perm) h script hl
  exact ⟨s, hs, hiff⟩

/-! ### Non-vacuity: renaming the path 0–1–2 by the permutation [2, 0, 1] gives the path 2–0–1 -/
def path3 : Nat → Nat → Bool := fun i j => (i == 0 && j == 1) || (i == 1 && j == 0) || (i == 1 && j == 2) || (i == 2 && j == 1)
example : (List.range 3).map (fun a => (List.range 3).map fun b => relabelAdj 3 path3 [2, 0, 1] a b)
    = [[false, true, true], [true, false, false], [true, false, false]] := by decide

end Graphiq.C10
