/-
  C10 — every alternate-target result generates the relabelled target.

  As for C02, the soundness of the validator applied to every entry the real solver returns is proved: an accepted entry's
  circuit generates, under every combination of measurement outcomes, exactly the target graph state with its vertices renamed by the
  entry's map.  In addition the result assembly of `solve` is modelled (Model/AltTarget.lean) and proved:
    * the duplicate removal (`set_list`, `redundant_indices`, deletion from the back) keeps entries with pairwise different listed
      graphs and loses no listed graph — for every iteration order of the Python sets (`pick`);
    * relabelling by a permutation is an isomorphism, relabelling composes, and the renamed adjacency used here is the matrix
      `Pᵀ A P` of `relabel_module.relabel`;
    * the outer loops with the time-reversed solver, the LC conversion and `get_relabel_map` as parameters: if those parts are
      correct, every returned entry generates its relabelled target and the entries are pairwise different.
    * `alternate_target_result_sound`: with the time-reversed solver (C02 model, `model_solver_generates`) and the LC conversion
      (`lc_check(…, validate=True)` of C09 + `str_to_op`, `Alt.conv_generates`) MODELLED, every entry `solve` returns generates its
      relabelled target under every outcome script and the listed graphs are pairwise different — no hypothesis on the solver, the
      conversion, the LC decision or the explorers; side conditions: simple graphs on `np` vertices, and the relabel maps pass the
      isomorphism test recorded as the specification of networkx `GraphMatcher` (both decidable, evaluated on every observed run).
    * `alternate_target_result_sound_in_orbit` / `explorer_outputs_in_orbit`: the same with "the LC graphs are simple" replaced by "the LC
      graphs lie in the orbit", which C16 proves of the four modelled explorers.
    * when `solve` RETURNS: `alternate_target_returns_if_yes` (every target on ≥ 1 vertex without isolated vertex, explorers in the orbit:
      it returns as soon as `is_lc_equivalent` says yes on every pair it is asked about — the solver returns by C02 completeness, `lc_check` is
      total and validated by C09, `str_to_op` knows every emitted gate name), `alternate_target_returns_partial` (relative to the
      completeness of the LC decision, `lc_decision_complete_statement`) and `alternate_target_total_correct_partial`: relative to C09's single
      remaining hypothesis `shortcut_complete_on_connected_statement` (the pair-sum claim of the literature), `solve` returns AND every entry is right.
  Orbit membership of the listed graph is decided per output by the harness (independent BFS); the explorers are C16.
-/
import GraphiqModel.Properties.C02
import GraphiqModel.Proofs.AltTarget
import GraphiqModel.Proofs.AltTargetLoop
import GraphiqModel.Proofs.AltTargetFinal
import GraphiqModel.Proofs.AltTargetReturns
import GraphiqModel.Proofs.AltTargetReturnsConv
import GraphiqModel.Proofs.LCTotalR
import GraphiqModel.Properties.C09
namespace Graphiq.C10
open Graphiq Graphiq.PRow Graphiq.Tab Graphiq.STab

/-- adjacency of the target with vertex `u` renamed to `perm[u]`: edge `(a, b)` iff some edge `(u, v)` has `perm u = a`, `perm v = b` -/
def relabelAdj (n : Nat) (adj : Nat → Nat → Bool) (perm : List Nat) : Nat → Nat → Bool :=
  Alt.relabelAdj n adj perm

/-- the renamed graph has edge `(perm u, perm v)` whenever the target has `(u, v)` -/
theorem relabel_edge (n : Nat) (adj : Nat → Nat → Bool) (perm : List Nat) (u v : Nat) (hu : u < n) (hv : v < n)
    (h : adj u v = true) : relabelAdj n adj perm (perm.getD u n) (perm.getD v n) = true := by
  unfold relabelAdj Alt.relabelAdj
  simp only [List.any_eq_true, List.mem_range, Bool.and_eq_true, beq_iff_eq]
  exact ⟨u, hu, v, hv, ⟨rfl, rfl⟩, h⟩

/-- and, when `perm` is injective on the vertices, only then -/
theorem relabel_edge_iff (n : Nat) (adj : Nat → Nat → Bool) (perm : List Nat)
    (hinj : ∀ u v, u < n → v < n → perm.getD u n = perm.getD v n → u = v) (u v : Nat) (hu : u < n) (hv : v < n) :
    relabelAdj n adj perm (perm.getD u n) (perm.getD v n) = adj u v := by
  cases h : adj u v with
  | true => exact relabel_edge n adj perm u v hu hv h
  | false =>
    unfold relabelAdj Alt.relabelAdj
    apply Bool.eq_false_iff.mpr
    intro hc
    simp only [List.any_eq_true, List.mem_range, Bool.and_eq_true, beq_iff_eq] at hc
    obtain ⟨u', hu', v', hv', ⟨e1, e2⟩, ha⟩ := hc
    have := hinj u' u hu' hu e1
    have := hinj v' v hv' hv e2
    subst_vars
    rw [h] at ha; cases ha

/-- **Soundness of the entry validator**: if the validator accepts an entry's circuit against the renamed adjacency, then under every
    combination of measurement outcomes the circuit leaves the photons exactly in the renamed target's graph state and every emitter in |0⟩ -/
theorem entry_validator_sound (ne np : Nat) (ops : List COp) (adj : Nat → Nat → Bool) (perm : List Nat)
    (h : checkGenerates ne np ops (relabelAdj np adj perm) = true) :
    ∀ script : List Bool, script.length = countMeas ops →
      ∃ s, stabRun ne np .prob script ops = some s ∧
        ∀ p, (STab.ofTab s.t).Spn p ↔ (targetSTab np ne (relabelAdj np adj perm)).Spn p := by
  intro script hl
  obtain ⟨s, hs, _, hiff⟩ := C02.validator_sound ne np ops (relabelAdj np adj perm) h script hl
  exact ⟨s, hs, hiff⟩

/-! ### the duplicate removal of `solve` -/

/-- **duplicate removal** (every list of keys — the listed adjacency matrices —, every entry list of the same length, every
    `pick` that returns a member of its class, i.e. every iteration order of the Python sets): the result consists of entries of
    the input, in their original order, at positions whose keys are pairwise different, and every key of the input is still the key
    of a kept entry -/
theorem dedup_keeps_one_per_key {κ α : Type} [DecidableEq κ] (pick : List Nat → Nat) (keys : List κ) (entries : List α)
    (hlen : entries.length = keys.length) (hpick : ∀ s, s ∈ Alt.setList keys → pick s ∈ s) :
    ∃ T : List (α × Nat), Alt.dedup pick keys entries = T.map Prod.fst ∧ T.Sublist entries.zipIdx ∧
      (∀ x, x ∈ T → entries[x.2]? = some x.1) ∧
      T.Pairwise (fun x y => keys[x.2]? ≠ keys[y.2]?) ∧
      (∀ j, j < keys.length → ∃ x, x ∈ T ∧ keys[x.2]? = keys[j]?) :=
  Alt.dedup_spec pick keys entries hlen hpick

/-- the classes of `set_list` are never empty, so "the first element the set yields" (`list(s)[0]`) — or the smallest, or the
    largest member — is a member: the hypothesis on `pick` is satisfiable for every key list -/
theorem pick_head_is_member {κ : Type} [DecidableEq κ] (keys : List κ) :
    ∀ s, s ∈ Alt.setList keys → s.headD 0 ∈ s := by
  intro s hs
  obtain ⟨⟨hds, e, _, _, _⟩, _⟩ := Alt.setList_inv keys
  rw [e] at hs
  obtain ⟨i, _, rfl⟩ := List.mem_map.mp hs
  simp [Alt.classOf]

/-- non-vacuity, with a `pick` that is NOT the smallest index (as CPython's `list({1, 8})[0] == 8`): five entries with keys
    a b a c b; the classes are {0,2}, {1,4}, {3}; picking the last member keeps the entries 2, 3, 4 -/
example : Alt.setList ["a", "b", "a", "c", "b"] = [[0, 2], [1, 4], [3]] := by decide
example : Alt.dedup (fun s => s.getLastD 0) ["a", "b", "a", "c", "b"] [10, 11, 12, 13, 14] = [12, 13, 14] := by decide
example : ∀ s, s ∈ Alt.setList ["a", "b", "a", "c", "b"] → (fun s : List Nat => s.getLastD 0) s ∈ s := by decide

/-! ### relabelling -/

/-- **relabelling by a permutation yields an isomorphic graph**: the permutation is an isomorphism from the graph to its renaming
    (bijective on the vertices, `(u, v)` an edge iff `(p u, p v)` is; `isIsoMap` is the specification of C16) -/
theorem relabel_is_isomorphism (n : Nat) (adj : Nat → Nat → Bool) (perm : List Nat) (hp : perm.Perm (List.range n)) :
    isIsoMap n adj (relabelAdj n adj perm) perm = true :=
  Alt.relabelAdj_iso n adj perm hp

/-- **relabelling composes**: renaming by `p` and then by `q` is renaming by `u ↦ q[p[u]]` -/
theorem relabel_composes (n : Nat) (adj : Nat → Nat → Bool) (p q : List Nat) (hp : ∀ u, u < n → p.getD u n < n) (a b : Nat) :
    relabelAdj n (relabelAdj n adj p) q a b = relabelAdj n adj (Alt.compLabels n p q) a b :=
  Alt.relabelAdj_comp n adj p q hp a b

/-- for a permutation, the renamed adjacency used in this file is the matrix `relabel(adj, perm) = Pᵀ A P` of
    `graphiq/utils/relabel_module.py` (model: GraphOps, C16) -/
theorem relabel_is_relabel_module (n : Nat) (adj : Nat → Nat → Bool) (perm : List Nat) (hp : perm.Perm (List.range n))
    (a b : Nat) (ha : a < n) (hb : b < n) :
    decide (relabel n adj perm a b ≠ 0) = relabelAdj n adj perm a b :=
  Alt.relabelAdj_eq_relabel n adj perm hp a b ha hb

/-- non-vacuity: the cyclic shift and its square are permutations; composing the shift with itself -/
example : [1, 2, 0].Perm (List.range 3) ∧ Alt.compLabels 3 [1, 2, 0] [1, 2, 0] = [2, 0, 1] := by decide

/-! ### the outer loops of `solve`, the parts as parameters -/

/-- **every returned entry generates its relabelled target, and the entries are pairwise different** (every number of photons,
    target, list of relabelled targets, orbit explorer, `pick`), provided the parts the loops call are correct:
    `hsolver` — the time-reversed solver's circuit generates the LC graph it was given; `hconv` — appending the conversion gates
    of `lc_check` to a circuit that generates the LC graph gives a circuit that generates the relabelled target; `hmap` — the
    relabel map renames the target into the relabelled target.  Also: nothing but duplicates is removed. -/
theorem solve_result_correct (P : Alt.Parts) (pick : List Nat → Nat) (np : Nat) (target : Nat → Nat → Bool)
    (out : List Alt.Entry)
    (hsolver : ∀ iso lc ne ops, iso ∈ P.isoAdjs → lc ∈ P.lcGraphs iso → P.solver lc = some (ne, ops) →
      Alt.Generates ne np ops lc.f)
    (hconv : ∀ iso lc ne ops gates, iso ∈ P.isoAdjs → lc ∈ P.lcGraphs iso → P.conv lc iso = some gates →
      Alt.Generates ne np ops lc.f → Alt.Generates ne np (ops ++ gates) iso.f)
    (hshape : ∀ iso lc, iso ∈ P.isoAdjs → lc ∈ P.lcGraphs iso → lc.r = np ∧ lc.c = np)
    (hmap : ∀ iso, iso ∈ P.isoAdjs → ∀ a b, a < np → b < np → iso.f a b = relabelAdj np target (P.relabelMap iso) a b)
    (hpick : ∀ keys : List (List Bool), ∀ s, s ∈ Alt.setList keys → pick s ∈ s)
    (h : Alt.solve P pick = .ok out) :
    (∀ e, e ∈ out → ∀ script : List Bool, script.length = countMeas e.ops →
      ∃ s, stabRun e.ne np .prob script e.ops = some s ∧
        ∀ p, (STab.ofTab s.t).Spn p ↔ (targetSTab np e.ne (relabelAdj np target e.map)).Spn p) ∧
    out.Pairwise (fun e e' => e.g.flat ≠ e'.g.flat) ∧
    ∃ es, Alt.allEntries P = .ok es ∧ out.Sublist es ∧ ∀ e, e ∈ es → ∃ e', e' ∈ out ∧ e'.g.flat = e.g.flat := by
  obtain ⟨h1, h2, h3⟩ := Alt.solve_spec P pick np target out hsolver hconv hshape hmap hpick h
  refine ⟨fun e he script hl => ?_, h2, h3⟩
  obtain ⟨s, hs, se⟩ := h1 e he script hl
  exact ⟨s, hs, fun p => ⟨se.sub p, se.sup p⟩⟩

/-- the same with the solver hypothesis in the form of `C02.solver_correct_statement` (which is a statement, not a theorem, of
    C02: it needs a model of the time-reversed solver): if the time-reversed solver is correct for every simple graph, the LC
    graphs are simple, and conversion and maps are correct, then every entry generates its relabelled target and the entries
    are pairwise different -/
theorem solve_correct_if_solver_correct (tsolve : (np : Nat) → (Nat → Nat → Bool) → Option (Nat × List COp))
    (hsol : C02.solver_correct_statement tsolve) (P : Alt.Parts) (pick : List Nat → Nat) (np : Nat)
    (target : Nat → Nat → Bool) (out : List Alt.Entry)
    (huse : ∀ lc, P.solver lc = tsolve np lc.f)
    (hsimple : ∀ iso lc, iso ∈ P.isoAdjs → lc ∈ P.lcGraphs iso →
      (∀ i j, lc.f i j = lc.f j i) ∧ (∀ i, lc.f i i = false) ∧ lc.r = np ∧ lc.c = np)
    (hconv : ∀ iso lc ne ops gates, iso ∈ P.isoAdjs → lc ∈ P.lcGraphs iso → P.conv lc iso = some gates →
      Alt.Generates ne np ops lc.f → Alt.Generates ne np (ops ++ gates) iso.f)
    (hmap : ∀ iso, iso ∈ P.isoAdjs → ∀ a b, a < np → b < np → iso.f a b = relabelAdj np target (P.relabelMap iso) a b)
    (hpick : ∀ keys : List (List Bool), ∀ s, s ∈ Alt.setList keys → pick s ∈ s)
    (h : Alt.solve P pick = .ok out) :
    (∀ e, e ∈ out → ∀ script : List Bool, script.length = countMeas e.ops →
      ∃ s, stabRun e.ne np .prob script e.ops = some s ∧
        ∀ p, (STab.ofTab s.t).Spn p ↔ (targetSTab np e.ne (relabelAdj np target e.map)).Spn p) ∧
    out.Pairwise (fun e e' => e.g.flat ≠ e'.g.flat) := by
  have hsolver : ∀ iso lc ne ops, iso ∈ P.isoAdjs → lc ∈ P.lcGraphs iso → P.solver lc = some (ne, ops) →
      Alt.Generates ne np ops lc.f := by
    intro iso lc ne ops h1 h2 hs
    obtain ⟨s1, s2, _, _⟩ := hsimple iso lc h1 h2
    obtain ⟨ne', ops', e1, e2⟩ := hsol np lc.f s1 s2
    rw [huse lc, e1] at hs
    injection hs with hs
    injection hs with a b
    subst a b
    exact Alt.generates_of_check _ _ _ _ e2
  obtain ⟨r1, r2, _⟩ := solve_result_correct P pick np target out hsolver hconv
    (fun iso lc h1 h2 => (hsimple iso lc h1 h2).2.2) hmap hpick h
  exact ⟨r1, r2⟩

/-! ### The parts instantiated: soundness of the result of `AlternateTargetSolver.solve` without hypotheses on the solver or the LC conversion -/

/-- the parts `solve` calls, with the time-reversed solver and the LC conversion MODELLED (no longer parameters): `graph_to_circ` is the C02
    solver model on the LC graph's adjacency, the conversion is `lc_check(lc, iso, validate=True)` (C09, repaired `is_lc_equivalent`) followed
    by `str_to_op`.  What remains a parameter is what `solve` gets from its explorers and from networkx: the list of relabelled targets
    (`iso_finder`), the LC graphs per relabelled target (the orbit explorers) and the relabel maps (`get_relabel_map` = `GraphMatcher`). -/
def modelParts (np : Nat) (isoAdjs : List BMat) (lcGraphs : BMat → List BMat) (relabelMap : BMat → List Nat) : Alt.Parts :=
  { isoAdjs := isoAdjs, lcGraphs := lcGraphs, relabelMap := relabelMap,
    solver := fun lc => C02.modelSolver np (Alt.cutAdj np lc.f), conv := Alt.convModel }

/-- **Soundness of the result of `AlternateTargetSolver.solve`** (every number of photons, every target, every list of relabelled targets
    and LC graphs the explorers hand over, every iteration order of the Python sets): whatever `solve` returns, every entry is a circuit
    that — run from all-|0⟩ under EVERY outcome script — leaves the photons exactly in the graph state of the target renamed by the entry's
    map and every emitter in |0⟩, and the listed graphs are pairwise different.
    No hypothesis on the time-reversed solver (C02 `model_solver_generates`: whatever it returns is correct) nor on the LC conversion
    (`Alt.conv_generates`: the gates `lc_check(…, validate=True)` returns are validated by `lc_check` itself, C09 `lcCheckR_sound`; appending
    them to a circuit for `|lc⟩` gives a circuit for `|iso⟩`) — in particular NOT on the LC-equivalence decision nor on the explorers staying
    in the orbit: a wrong LC graph would make `lc_check` fail (`solve` raises), never produce a wrong entry.
    Side conditions, all decidable and evaluated by the harness on every observed run: the graphs are simple graphs on `np` vertices, and
    each relabel map passes the isomorphism test recorded as the specification of networkx `GraphMatcher` (`isIsoMap`). -/
theorem alternate_target_result_sound (pick : List Nat → Nat) (np : Nat) (target : Nat → Nat → Bool) (out : List Alt.Entry)
    (isoAdjs : List BMat) (lcGraphs : BMat → List BMat) (relabelMap : BMat → List Nat)
    (htarget : Simple np target)
    (hgraphs : ∀ iso lc, iso ∈ isoAdjs → lc ∈ lcGraphs iso → lc.r = np ∧ lc.c = np ∧ Simple np lc.f)
    (hmatch : ∀ iso, iso ∈ isoAdjs → isIsoMap np target iso.f (relabelMap iso) = true)
    (hpick : ∀ keys : List (List Bool), ∀ s, s ∈ Alt.setList keys → pick s ∈ s)
    (h : Alt.solve (modelParts np isoAdjs lcGraphs relabelMap) pick = .ok out) :
    (∀ e, e ∈ out → ∀ script : List Bool, script.length = countMeas e.ops →
      ∃ s, stabRun e.ne np .prob script e.ops = some s ∧
        ∀ p, (STab.ofTab s.t).Spn p ↔ (targetSTab np e.ne (relabelAdj np target e.map)).Spn p) ∧
    out.Pairwise (fun e e' => e.g.flat ≠ e'.g.flat) ∧
    ∃ es, Alt.allEntries (modelParts np isoAdjs lcGraphs relabelMap) = .ok es ∧ out.Sublist es ∧
      ∀ e, e ∈ es → ∃ e', e' ∈ out ∧ e'.g.flat = e.g.flat := by
  refine solve_result_correct (modelParts np isoAdjs lcGraphs relabelMap) pick np target out ?_ ?_ ?_ ?_ hpick h
  · -- the time-reversed solver
    intro iso lc ne ops h1 h2 hs
    obtain ⟨_, _, hsimple⟩ := hgraphs iso lc h1 h2
    have hg := C02.model_solver_generates np (Alt.cutAdj np lc.f) (Alt.cutAdj_symm np lc.f hsimple) ne ops hs
    intro script _
    obtain ⟨rs, hrs, se⟩ := hg script
    exact ⟨rs, hrs, se.trans (Alt.targetSTab_congr np ne _ _ (Alt.cutAdj_agree np lc.f))⟩
  · -- the LC conversion
    intro iso lc ne ops gates h1 h2 hc hgen
    obtain ⟨hr, _, hsimple⟩ := hgraphs iso lc h1 h2
    exact Alt.conv_generates np ne lc iso hr hsimple (Alt.simple_of_isIsoMap np target iso.f _ htarget (hmatch iso h1)) gates hc ops hgen
  · intro iso lc h1 h2
    exact ⟨(hgraphs iso lc h1 h2).1, (hgraphs iso lc h1 h2).2.1⟩
  · intro iso h1
    exact Alt.iso_of_isIsoMap np target iso.f (relabelMap iso) (hmatch iso h1)

/-- **the same with the LC graphs coming from the MODELLED orbit explorers** (C16): the side condition "the LC graphs are simple graphs on
    `np` vertices" of `alternate_target_result_sound` is replaced by "every LC graph handed over for `iso` lies in the LC orbit of `iso`" —
    which C16 proves for every graph `rgs_orbit_finder`, `linear_partial_orbit`, `depth_first_orbit` and `lc_orbit_finder` return
    (`explorer_outputs_in_orbit` below), hence for every prefix `[:n_lc]` `solve` takes.  What is left as side condition is only what comes
    from networkx: the relabel maps pass the `GraphMatcher` specification `isIsoMap`. -/
theorem alternate_target_result_sound_in_orbit (pick : List Nat → Nat) (np : Nat) (target : Nat → Nat → Bool) (out : List Alt.Entry)
    (isoAdjs : List BMat) (lcGraphs : BMat → List BMat) (relabelMap : BMat → List Nat)
    (htarget : Simple np target)
    (horbit : ∀ iso lc, iso ∈ isoAdjs → lc ∈ lcGraphs iso → InOrbit np iso.f lc)
    (hmatch : ∀ iso, iso ∈ isoAdjs → isIsoMap np target iso.f (relabelMap iso) = true)
    (hpick : ∀ keys : List (List Bool), ∀ s, s ∈ Alt.setList keys → pick s ∈ s)
    (h : Alt.solve (modelParts np isoAdjs lcGraphs relabelMap) pick = .ok out) :
    (∀ e, e ∈ out → ∀ script : List Bool, script.length = countMeas e.ops →
      ∃ s, stabRun e.ne np .prob script e.ops = some s ∧
        ∀ p, (STab.ofTab s.t).Spn p ↔ (targetSTab np e.ne (relabelAdj np target e.map)).Spn p) ∧
    out.Pairwise (fun e e' => e.g.flat ≠ e'.g.flat) ∧
    ∃ es, Alt.allEntries (modelParts np isoAdjs lcGraphs relabelMap) = .ok es ∧ out.Sublist es ∧
      ∀ e, e ∈ es → ∃ e', e' ∈ out ∧ e'.g.flat = e.g.flat := by
  refine alternate_target_result_sound pick np target out isoAdjs lcGraphs relabelMap htarget ?_ hmatch hpick h
  intro iso lc h1 h2
  have ho := horbit iso lc h1 h2
  exact ⟨ho.1, ho.2.1, ho.simple (Alt.simple_of_isIsoMap np target iso.f _ htarget (hmatch iso h1))⟩

/-- every graph in a prefix `[:n_lc]` of what one of the four modelled explorers returns on a simple `iso` with `np` vertices lies in the LC
    orbit of `iso` (C16): the hypothesis `horbit` of `alternate_target_result_sound_in_orbit` for each way `solve` fills `lc_graphs` -/
theorem explorer_outputs_in_orbit (np nlc : Nat) (iso : BMat) (hr : iso.r = np) (hc : iso.c = np) (hs : Simple np iso.f) :
    (∀ out, rgsOrbitFinder iso = .ok out → ∀ lc ∈ out.take nlc, InOrbit np iso.f lc) ∧
    (∀ out, linearPartialOrbit iso = .ok out → ∀ lc ∈ out.take nlc, InOrbit np iso.f lc) ∧
    (∀ isoTest fuel paths out, depthFirstOrbit isoTest fuel iso = .ok (paths, out) → ∀ lc ∈ out.take nlc, InOrbit np iso.f lc) ∧
    (∀ cfg isoTest fuel draws shuffles out, (∀ s ∈ shuffles, ValidNodes np s) →
      lcOrbitFinder cfg isoTest fuel iso draws shuffles = .ok out → ∀ lc ∈ out.take nlc, InOrbit np iso.f lc) := by
  subst hr
  refine ⟨fun out e lc hl => ?_, fun out e lc hl => ?_, fun isoTest fuel paths out e lc hl => ?_,
    fun cfg isoTest fuel draws shuffles out hv e lc hl => ?_⟩
  · exact rgsOrbitFinder_inOrbit iso out hc hs e lc (List.mem_of_mem_take hl)
  · exact linearPartialOrbit_inOrbit iso out hc hs e lc (List.mem_of_mem_take hl)
  · exact depthFirstOrbit_inOrbit isoTest fuel iso paths out hc hs e lc (List.mem_of_mem_take hl)
  · exact lcOrbitFinder_inOrbit cfg isoTest fuel iso draws shuffles out hc hs hv e lc (List.mem_of_mem_take hl)

/-! ### When does `solve` return? -/

/-- **`solve` returns whenever `is_lc_equivalent` says yes on every pair it is asked about** (every target on ≥ 1 vertex without isolated
    vertex, every list of relabelled targets whose maps pass the `GraphMatcher` specification, every family of LC graphs inside the orbits):
    the time-reversed solver returns on every LC graph (C02 `model_solver_returns`: "no isolated vertex" is inherited along isomorphisms and
    local complementations), `lc_check(…, validate=True)` is total and after a `yes` returns validated gates (C09 `lc_check_total_and_right`:
    neither the assertion of `converter_gate_list` nor the validation warning can fire), `str_to_op` knows every gate name `lc_check` emits
    (`Alt.lcCheckR_names`), and the loops only pass exceptions on.  `hyes` is decidable; the modelled conversion is run by the driver on every
    observed pair and compared with the implementation's.  NOT part of the model: the second, redundant validation inside the same `try`
    (`state_converter_circuit(lc, iso, validate=True)`: the gate list compiled by the stabilizer backend from `|lc⟩`, `Infidelity = 0` asserted) —
    by C09 the gates map `|lc⟩` exactly onto `|iso⟩`, so it can only fail through the compiler or the metric (C01, C18); on the observed runs
    every raise of `solve()` on a connected target is reported as a violation. -/
theorem alternate_target_returns_if_yes (pick : List Nat → Nat) (np : Nat) (target : Nat → Nat → Bool)
    (isoAdjs : List BMat) (lcGraphs : BMat → List BMat) (relabelMap : BMat → List Nat)
    (hnp : 0 < np) (htarget : Simple np target) (hniso : Alt.NoIsolated np target)
    (hshape : ∀ iso, iso ∈ isoAdjs → iso.r = np)
    (horbit : ∀ iso lc, iso ∈ isoAdjs → lc ∈ lcGraphs iso → InOrbit np iso.f lc)
    (hmatch : ∀ iso, iso ∈ isoAdjs → isIsoMap np target iso.f (relabelMap iso) = true)
    (hyes : ∀ iso lc, iso ∈ isoAdjs → lc ∈ lcGraphs iso →
      ∃ out, LC.isLcEquivalentR lc iso .det [] = .ok out ∧ out.sol.isSome = true) :
    ∃ out, Alt.solve (modelParts np isoAdjs lcGraphs relabelMap) pick = .ok out := by
  apply Alt.solve_ok
  intro iso h1 lc h2
  have hsi : Simple np iso.f := Alt.simple_of_isIsoMap np target iso.f _ htarget (hmatch iso h1)
  have hni : Alt.NoIsolated np iso.f := Alt.noIsolated_of_isIsoMap np target iso.f _ hniso (hmatch iso h1)
  have ho := horbit iso lc h1 h2
  have hsl : Simple np lc.f := ho.simple hsi
  have hnl : Alt.NoIsolated np lc.f := Alt.InOrbit.noIsolated hsi hni ho
  constructor
  · -- the time-reversed solver returns
    obtain ⟨ne, ops, e⟩ := C02.model_solver_returns np (Alt.cutAdj np lc.f) hnp (Alt.cutAdj_symm np lc.f hsl)
      (fun i => by
        by_cases hi : i < np
        · rw [Alt.cutAdj_agree np lc.f i i hi hi]; exact hsl.2 i hi
        · simp [Alt.cutAdj, hi])
      (fun i hi => by
        obtain ⟨j, hj, e⟩ := hnl i hi
        exact ⟨j, hj, by rw [Alt.cutAdj_agree np lc.f i j hi hj]; exact e⟩)
    exact ⟨(ne, ops), e⟩
  · -- the conversion returns
    have hr : lc.r = np := ho.1
    have hab : lc.r = iso.r := by rw [hr, hshape iso h1]
    obtain ⟨out, e, hs⟩ := hyes iso lc h1 h2
    cases hsol : out.sol with
    | none => rw [hsol] at hs; cases hs
    | some s =>
      obtain ⟨zs, _, hc⟩ := LC.lcCheckR_of_yes lc iso out s hab (by rw [hr]; exact hsl) (by rw [hshape iso h1]; exact hsi) e hsol
      exact Alt.convModel_isSome lc iso _ (hc true)

/-- "the repaired `is_lc_equivalent` never says no on two graphs of the same LC orbit": the completeness half of C09
    `decides_lc_equivalence_repaired_statement`, which C09 proves relative to the one claim of the literature it leaves unproved, the
    completeness of the pair-sum shortcut on connected graphs (`lc_decision_complete_of_shortcut` below) -/
def lc_decision_complete_statement : Prop :=
  ∀ (a b : BMat) (out : LC.EqOutR), 0 < a.r → a.r = b.r → Simple a.r a.f → Simple b.r b.f →
    LC.isLcEquivalentR a b .det [] = .ok out →
    (∃ vs : List Nat, (∀ v ∈ vs, v < a.r) ∧ EqAdj a.r (applySeq a.f vs) b.f) → out.sol.isSome = true

/-- C09: the completeness of the pair-sum shortcut on connected graphs gives the completeness of the repaired decision -/
theorem lc_decision_complete_of_shortcut (hshort : C09.shortcut_complete_on_connected_statement) : lc_decision_complete_statement := by
  intro a b out hn hab ha hb e horb
  exact (C09.decides_lc_equivalence_repaired_partial hshort a b [] out hn hab ha hb e).2 horb

/-- **relative to the completeness of the LC decision, `solve` returns** for every target on ≥ 1 vertex without isolated vertex when the
    explorers stay in the orbits (C16) and the maps pass the `GraphMatcher` specification: the repaired `is_lc_equivalent` is total (C09)
    and then says yes on every pair of the same orbit (the orbit relation is symmetric, `Alt.InOrbit.back`).  Together with
    `alternate_target_result_sound_in_orbit`: it returns, and every entry generates the relabelled target. -/
theorem alternate_target_returns_partial (hdec : lc_decision_complete_statement)
    (pick : List Nat → Nat) (np : Nat) (target : Nat → Nat → Bool)
    (isoAdjs : List BMat) (lcGraphs : BMat → List BMat) (relabelMap : BMat → List Nat)
    (hnp : 0 < np) (htarget : Simple np target) (hniso : Alt.NoIsolated np target)
    (hshape : ∀ iso, iso ∈ isoAdjs → iso.r = np)
    (horbit : ∀ iso lc, iso ∈ isoAdjs → lc ∈ lcGraphs iso → InOrbit np iso.f lc)
    (hmatch : ∀ iso, iso ∈ isoAdjs → isIsoMap np target iso.f (relabelMap iso) = true) :
    ∃ out, Alt.solve (modelParts np isoAdjs lcGraphs relabelMap) pick = .ok out := by
  refine alternate_target_returns_if_yes pick np target isoAdjs lcGraphs relabelMap hnp htarget hniso hshape horbit hmatch ?_
  intro iso lc h1 h2
  have hsi : Simple np iso.f := Alt.simple_of_isIsoMap np target iso.f _ htarget (hmatch iso h1)
  have ho := horbit iso lc h1 h2
  have hsl : Simple np lc.f := ho.simple hsi
  have hr : lc.r = np := ho.1
  have hab : lc.r = iso.r := by rw [hr, hshape iso h1]
  have ha : Simple lc.r lc.f := by rw [hr]; exact hsl
  obtain ⟨out, e⟩ := LC.isLcEquivalentR_total lc iso .det [] hab ha (by decide)
  refine ⟨out, e, hdec lc iso out (by rw [hr]; exact hnp) hab ha (by rw [hshape iso h1]; exact hsi) e ?_⟩
  obtain ⟨vs, hvs, hb⟩ := Alt.InOrbit.back hsi ho
  rw [hr]
  exact ⟨vs, hvs, hb⟩

/-- **relative to the completeness of the pair-sum shortcut on connected graphs (C09 `shortcut_complete_on_connected_statement`, Van den Nest et
    al., the single hypothesis C09 leaves), `solve` returns AND is right**: every target on ≥ 1 vertex without isolated vertex, explorers in
    the orbits (C16), maps passing the `GraphMatcher` specification — `solve` returns a list of entries each of which generates, under every
    outcome script, the target renamed by its map, with pairwise different listed graphs -/
theorem alternate_target_total_correct_partial (hshort : C09.shortcut_complete_on_connected_statement)
    (pick : List Nat → Nat) (np : Nat) (target : Nat → Nat → Bool)
    (isoAdjs : List BMat) (lcGraphs : BMat → List BMat) (relabelMap : BMat → List Nat)
    (hnp : 0 < np) (htarget : Simple np target) (hniso : Alt.NoIsolated np target)
    (hshape : ∀ iso, iso ∈ isoAdjs → iso.r = np)
    (horbit : ∀ iso lc, iso ∈ isoAdjs → lc ∈ lcGraphs iso → InOrbit np iso.f lc)
    (hmatch : ∀ iso, iso ∈ isoAdjs → isIsoMap np target iso.f (relabelMap iso) = true)
    (hpick : ∀ keys : List (List Bool), ∀ s, s ∈ Alt.setList keys → pick s ∈ s) :
    ∃ out, Alt.solve (modelParts np isoAdjs lcGraphs relabelMap) pick = .ok out ∧
      (∀ e, e ∈ out → ∀ script : List Bool, script.length = countMeas e.ops →
        ∃ s, stabRun e.ne np .prob script e.ops = some s ∧
          ∀ p, (STab.ofTab s.t).Spn p ↔ (targetSTab np e.ne (relabelAdj np target e.map)).Spn p) ∧
      out.Pairwise (fun e e' => e.g.flat ≠ e'.g.flat) := by
  obtain ⟨out, h⟩ := alternate_target_returns_partial (lc_decision_complete_of_shortcut hshort) pick np target isoAdjs lcGraphs relabelMap
    hnp htarget hniso hshape horbit hmatch
  obtain ⟨h1, h2, _⟩ := alternate_target_result_sound_in_orbit pick np target out isoAdjs lcGraphs relabelMap htarget horbit hmatch hpick h
  exact ⟨out, h, h1, h2⟩

/-! ### Non-vacuity of `solve_result_correct`: one relabelled target (the path 0–1–2 itself), one LC graph, the known circuit -/
def pathB : BMat := (BMat.ofAdj 3 C02.lin3adj)
def demoParts : Alt.Parts :=
  { isoAdjs := [pathB], lcGraphs := fun _ => [pathB, pathB], relabelMap := fun _ => [0, 1, 2],
    solver := fun _ => some (1, C02.lin3ops), conv := fun _ _ => some [] }
set_option maxRecDepth 100000 in
example : Alt.Generates 1 3 C02.lin3ops pathB.f :=
  Alt.generates_of_check 1 3 C02.lin3ops C02.lin3adj (by decide +kernel)
/-- the two identical entries are reduced to one -/
example : (match Alt.solve demoParts (fun s => s.headD 0) with | .ok out => out.length | .error _ => 0) = 1 := by
  decide +kernel
example : ∀ a b, a < 3 → b < 3 → pathB.f a b = relabelAdj 3 C02.lin3adj [0, 1, 2] a b := by
  intro a b ha hb
  have h1 : a = 0 ∨ a = 1 ∨ a = 2 := by omega
  have h2 : b = 0 ∨ b = 1 ∨ b = 2 := by omega
  rcases h1 with rfl | rfl | rfl <;> rcases h2 with rfl | rfl | rfl <;> decide

/-! ### Non-vacuity of `alternate_target_result_sound`: the path 0–1–2 as target and only relabelled target, the triangle (its local
     complement at vertex 1) as LC graph: the model solver is run on the triangle, `lc_check(triangle, path, validate=True)` succeeds, its
     gates are appended, and one entry is returned -/
def triB : BMat := BMat.ofAdj 3 (fun i j => decide (i ≠ j) && decide (i < 3) && decide (j < 3))
set_option maxRecDepth 100000 in
example : (match Alt.solve (modelParts 3 [pathB] (fun _ => [triB]) (fun _ => [0, 1, 2])) (fun s => s.headD 0) with
    | .ok out => out.map (fun (e : Alt.Entry) => (e.ne, e.ops.length, e.map)) | .error _ => []) = [(1, 15, [0, 1, 2])] := by
  decide +kernel
/-- the side conditions hold for this instance -/
example : Simple 3 C02.lin3adj ∧ isIsoMap 3 C02.lin3adj pathB.f [0, 1, 2] = true ∧ triB.r = 3 ∧ triB.c = 3 ∧ Simple 3 triB.f := by
  refine ⟨⟨?_, ?_⟩, by decide, rfl, rfl, ⟨?_, ?_⟩⟩
  · intro i j hi hj
    have h1 : i = 0 ∨ i = 1 ∨ i = 2 := by omega
    have h2 : j = 0 ∨ j = 1 ∨ j = 2 := by omega
    rcases h1 with rfl | rfl | rfl <;> rcases h2 with rfl | rfl | rfl <;> decide
  · intro i hi
    have h1 : i = 0 ∨ i = 1 ∨ i = 2 := by omega
    rcases h1 with rfl | rfl | rfl <;> decide
  · intro i j hi hj
    have h1 : i = 0 ∨ i = 1 ∨ i = 2 := by omega
    have h2 : j = 0 ∨ j = 1 ∨ j = 2 := by omega
    rcases h1 with rfl | rfl | rfl <;> rcases h2 with rfl | rfl | rfl <;> decide
  · intro i hi
    have h1 : i = 0 ∨ i = 1 ∨ i = 2 := by omega
    rcases h1 with rfl | rfl | rfl <;> decide

/-- the additional hypotheses of `alternate_target_returns_if_yes` hold for this instance as well: no isolated vertex, the triangle is in the
    LC orbit of the path (complement at vertex 1), and the repaired `is_lc_equivalent` says yes -/
example : Alt.NoIsolated 3 C02.lin3adj ∧ InOrbit 3 pathB.f triB := by
  refine ⟨?_, rfl, rfl, [1], by simp, ?_⟩
  · intro i hi
    have h1 : i = 0 ∨ i = 1 ∨ i = 2 := by omega
    rcases h1 with rfl | rfl | rfl
    · exact ⟨1, by omega, by decide⟩
    · exact ⟨0, by omega, by decide⟩
    · exact ⟨1, by omega, by decide⟩
  · intro i j hi hj
    have h1 : i = 0 ∨ i = 1 ∨ i = 2 := by omega
    have h2 : j = 0 ∨ j = 1 ∨ j = 2 := by omega
    rcases h1 with rfl | rfl | rfl <;> rcases h2 with rfl | rfl | rfl <;> decide
set_option maxRecDepth 100000 in
example : (match LC.isLcEquivalentR triB pathB .det [] with | .ok out => out.sol.isSome | .error _ => false) = true := by
  decide +kernel

/-! ### Non-vacuity: renaming the path 0–1–2 by the permutation [2, 0, 1] gives the path 2–0–1 -/
def path3 : Nat → Nat → Bool := fun i j => (i == 0 && j == 1) || (i == 1 && j == 0) || (i == 1 && j == 2) || (i == 2 && j == 1)
example : (List.range 3).map (fun a => (List.range 3).map fun b => relabelAdj 3 path3 [2, 0, 1] a b)
    = [[false, true, true], [true, false, false], [true, false, false]] := by decide

end Graphiq.C10
