/-
  C16 — relabelling, isomorph search and LC-orbit walks stay in the equivalence class.

  Property theorems only (helper lemmas live in Proofs/GraphOps.lean).  External libraries are parameters: the
  isomorphism test of networkx is an arbitrary function `iso`, the generator draws of numpy are arbitrary lists — every
  theorem holds for all their values, so no behaviour of those libraries is assumed except where a hypothesis says so
  ("the draws are permutations").

  Proved for every n, every graph, every configuration and every value of the random draws:
    1. `relabel(A, p)` (`Pᵀ A P` with `_perm2matrix`) has the entry `(p u, p v)` equal to `A u v`; a permutation is an
       isomorphism from `A` to `relabel A p`; the identity is an isomorphism from a graph to itself;
    2. `automorph_check` / `iso_finder` on every return path (early return, warning return, loop exit): the input first,
       pairwise distinct, every entry the input relabelled by the identity or by a recorded draw, never more than `n_iso`;
    3. every graph returned by `lc_orbit_finder` (all 2³ option sets, all depths / thresholds), `rgs_orbit_finder`,
       `linear_partial_orbit`, `depth_first_orbit` and the metric-guided walks of utils/preprocessing.py is obtained from
       the input by a sequence of local complementations;
    4. `lc_orbit_finder` with `rep_allowed=False` returns pairwise different graphs (unequal matrices for `with_iso=True`,
       pairwise non-isomorphic as judged by the oracle otherwise).
  Not proved (Tier C / observation): that the scripted repeater / linear sequences give *distinct* graphs, and pairwise
  non-isomorphism of `depth_first_orbit`'s output — both are evaluated by the direct oracle on every run.
-/
import GraphiqModel.Proofs.GraphOps
namespace Graphiq.C16
open Graphiq

/-! ## 1. Relabelling -/

/-- **`relabel`**: for a label list that is injective of length n (in particular a permutation of `0..n-1`),
    the relabelled graph has the edge `(p u, p v)` exactly when the original has `(u, v)` -/
theorem relabel_moves_edges (n : Nat) (A : Adj) (p : List Nat) (hp : InjLabels n p) (u v a b : Nat) (hu : u < n)
    (hv : v < n) (ha : p[u]? = some a) (hb : p[v]? = some b) : relabel n A p a b = Bool.toInt' (A u v) :=
  relabel_perm n A p hp u v a b hu hv ha hb

/-- a permutation given as a list is such a label list, and every vertex is the image of a vertex, so the previous
    theorem determines the whole relabelled matrix -/
theorem permutation_labels (n : Nat) (p : List Nat) (h : p.Perm (List.range n)) :
    InjLabels n p ∧ ∀ a, a < n → ∃ u, u < n ∧ p[u]? = some a :=
  ⟨injLabels_of_perm n p h, perm_surj n p h⟩

/-- the permutation is an isomorphism from the graph to its relabelling (in the sense recorded for networkx's matcher) -/
theorem relabelled_graph_is_isomorphic (n : Nat) (A : Adj) (p : List Nat) (hp : p.Perm (List.range n)) :
    isIsoMap n A (relabelAdj n A p) p = true :=
  relabel_iso n A p hp

/-- what "is an isomorphism" means for a reported relabel map: a bijection of the vertices preserving (non-)adjacency -/
theorem relabel_map_specification (n : Nat) (A B : Adj) (m : List Nat) (h : isIsoMap n A B m = true) :
    m.length = n ∧ (∀ u, u < n → m.getD u n < n) ∧ (∀ u v, u < n → v < n → m.getD u n = m.getD v n → u = v) ∧
    ∀ u v, u < n → v < n → A u v = B (m.getD u n) (m.getD v n) :=
  isIsoMap_spec n A B m h

/-- `get_relabel_map` on equal graphs reports the identity, which is an isomorphism -/
theorem relabel_map_of_equal_graphs (n : Nat) (A : Adj) : isIsoMap n A A (List.range n) = true :=
  identity_iso n A

/-- non-vacuity: the cyclic shift of three labels is a permutation -/
example : [1, 2, 0].Perm (List.range 3) := by decide

/-! ## 2. The isomorph finder -/

/-- `automorph_check`: the input first, pairwise distinct, every other entry a relabelling of the input -/
theorem automorph_check_dedupes (g : BMat) (labels : List (List Nat)) (out : List (List Int))
    (e : automorphCheck g labels = .ok out) :
    ∃ tail, out = flatInt g :: tail ∧ out.Nodup ∧ ∀ m ∈ tail, RelabelOf g labels m :=
  automorphCheck_spec g labels out e

/-- **`iso_finder`, every return path, every threshold and every value of the generator draws**: the de-duplicated list
    the result is cut from starts with the input, is pairwise distinct, every other entry is the input relabelled by the
    identity or a recorded draw; at most `n_iso` of them are returned -/
theorem iso_finder_every_return_path (cfg : IsoCfg) (g : BMat) (draws : List (List (List Nat))) (r : IsoRes)
    (e : isoFinder cfg g draws = .ok r) :
    AdjOK g draws r.full ∧ r.nOut ≤ cfg.nIso ∧ r.nOut ≤ r.full.length :=
  isoFinder_spec cfg g draws r e

/-- consequently the returned prefix is pairwise distinct, has the input first (when anything is returned) and every
    entry is a relabelling of the input — by a *permutation* whenever the draws are permutations (numpy's
    `Generator.permutation` / `choice` over `itertools.permutations`), hence isomorphic to the input -/
theorem iso_finder_result (cfg : IsoCfg) (g : BMat) (draws : List (List (List Nat))) (r : IsoRes)
    (hd : ∀ ds ∈ draws, ∀ p ∈ ds, p.Perm (List.range g.r)) (e : isoFinder cfg g draws = .ok r) :
    (r.full.take r.nOut).Nodup ∧ (r.full.take r.nOut).length ≤ cfg.nIso ∧
    (0 < r.nOut → (r.full.take r.nOut).head? = some (flatInt g)) ∧
    ∀ m ∈ r.full.take r.nOut, m = flatInt g ∨ ∃ p, p.Perm (List.range g.r) ∧ relabel? g p = .ok m := by
  obtain ⟨⟨tail, h1, h2, h3⟩, h4, h5⟩ := isoFinder_spec cfg g draws r e
  refine ⟨List.Nodup.sublist (List.take_sublist _ _) h2, ?_, ?_, ?_⟩
  · rw [List.length_take]; omega
  · intro hpos
    rw [h1]
    cases hn : r.nOut with
    | zero => omega
    | succ k => simp
  · intro m hm
    have hm' := List.mem_of_mem_take hm
    rw [h1] at hm'
    rcases List.mem_cons.mp hm' with h | h
    · left; exact h
    · right
      obtain ⟨p, hp, ep⟩ := h3 m h
      refine ⟨p, ?_, ep⟩
      rcases hp with hp | ⟨ds, hds, hpd⟩
      · rw [hp]
      · exact hd ds hds p hpd

/-! ## 3. LC-orbit explorers: membership by construction -/

/-- **`lc_orbit_finder`**: every returned graph is obtained from the input by local complementations — for every option
    set, depth, threshold, every value of `np.random.randint` / `shuffle` (shuffles only need to list vertices) and
    every isomorphism oracle -/
theorem lc_orbit_finder_stays_in_orbit (cfg : OrbCfg) (iso : BMat → BMat → Bool) (fuel : Nat) (g : BMat)
    (draws : List Nat) (shuffles : List (List Nat)) (out : List BMat) (hsq : g.c = g.r) (hA : Simple g.r g.f)
    (hs : ∀ s ∈ shuffles, ValidNodes g.r s) (e : lcOrbitFinder cfg iso fuel g draws shuffles = .ok out) :
    ∀ h ∈ out, InOrbit g.r g.f h :=
  lcOrbitFinder_inOrbit cfg iso fuel g draws shuffles out hsq hA hs e

/-- **`lc_orbit_finder` asked for distinct graphs** (`rep_allowed=False`): no returned graph is equal (`with_iso=True`)
    resp. isomorphic according to the oracle (`with_iso=False`) to an earlier one -/
theorem lc_orbit_finder_returns_distinct (cfg : OrbCfg) (iso : BMat → BMat → Bool) (fuel : Nat) (g : BMat)
    (draws : List Nat) (shuffles : List (List Nat)) (out : List BMat) (hrep : cfg.repAllowed = false)
    (hs : ∀ s ∈ shuffles, ValidNodes g.r s) (e : lcOrbitFinder cfg iso fuel g draws shuffles = .ok out) :
    out.Pairwise (fun earlier later => relOf cfg iso later earlier = false) :=
  lcOrbitFinder_pairwise cfg iso fuel g draws shuffles out hrep hs e

theorem rgs_orbit_finder_stays_in_orbit (g : BMat) (out : List BMat) (hsq : g.c = g.r) (hA : Simple g.r g.f)
    (e : rgsOrbitFinder g = .ok out) : ∀ h ∈ out, InOrbit g.r g.f h :=
  rgsOrbitFinder_inOrbit g out hsq hA e

theorem linear_partial_orbit_stays_in_orbit (g : BMat) (out : List BMat) (hsq : g.c = g.r) (hA : Simple g.r g.f)
    (e : linearPartialOrbit g = .ok out) : ∀ h ∈ out, InOrbit g.r g.f h :=
  linearPartialOrbit_inOrbit g out hsq hA e

theorem depth_first_orbit_stays_in_orbit (iso : BMat → BMat → Bool) (fuel : Nat) (g : BMat) (paths : List (List Nat))
    (out : List BMat) (hsq : g.c = g.r) (hA : Simple g.r g.f) (e : depthFirstOrbit iso fuel g = .ok (paths, out)) :
    ∀ h ∈ out, InOrbit g.r g.f h :=
  depthFirstOrbit_inOrbit iso fuel g paths out hsq hA e

/-- **`get_lc_graph_by_max_edge` / `get_lc_graph_by_max_neighbor_edge`** (utils/preprocessing.py): every candidate graph
    of the metric-guided walk lies in the LC orbit of the input — for every vertex score, metric, limit, number of trials -/
theorem metric_guided_walk_stays_in_orbit (nodeScore : BMat → Nat → Nat) (metric : BMat → Float) (g : BMat)
    (limit trials : Nat) (out : List (Float × BMat)) (hsq : g.c = g.r) (hA : Simple g.r g.f)
    (e : lcWalk nodeScore metric g limit trials = .ok out) : ∀ c ∈ out, InOrbit g.r g.f c.2 :=
  lcWalk_inOrbit nodeScore metric g limit trials out hsq hA e

/-- the path 0–1–2 (a linear cluster state on three vertices) -/
def P3 : BMat := BMat.ofAdj 3 (fun i j => (i + 1 = j ∨ j + 1 = i) ∧ i < 3 ∧ j < 3)

/-- non-vacuity: `P3` is a simple square graph, and `linear_partial_orbit` succeeds on it with two graphs -/
example : P3.c = P3.r ∧ Simple P3.r P3.f := by
  refine ⟨rfl, fun i j hi hj => ?_, fun i hi => ?_⟩
  · show decide _ = decide _; apply decide_eq_decide.mpr; omega
  · show decide _ = false; apply decide_eq_false; omega

set_option maxRecDepth 100000 in
example : (match linearPartialOrbit P3 with | .ok l => l.length | .error _ => 0) = 2 := by decide +kernel

/-! ## 4. What remains a statement -/

/-- the linear cluster state `0 – 1 – … – (n-1)` in its canonical labelling -/
def pathG (n : Nat) : BMat := BMat.ofAdj n (fun i j => (i + 1 = j ∨ j + 1 = i) ∧ i < n ∧ j < n)

/-- the repeater graph state with `m` core vertices `1, 3, …` (complete) and leaves `0, 2, …` (graphiq.benchmarks order) -/
def rgsG (m : Nat) : BMat :=
  BMat.ofAdj (2 * m) (fun i j => i < 2 * m ∧ j < 2 * m ∧ i ≠ j ∧ ((i % 2 = 1 ∧ j % 2 = 1) ∨ i + 1 = j ∧ i % 2 = 0 ∨ j + 1 = i ∧ j % 2 = 0))

/-- distinctness of the scripted explorers on the families their docstrings speak about (a combinatorial claim about the
    scripted sequences) — not proved; evaluated by the direct oracle on every run (n ≤ 12 resp. m ≤ 6).  On relabelled
    copies the scripted sequences do produce repetitions (observed, recorded in the evidence; not demanded). -/
def scripted_explorers_distinct_statement : Prop :=
  (∀ (m : Nat) (out : List BMat), 2 ≤ m → rgsOrbitFinder (rgsG m) = .ok out → out.Pairwise (fun a b => a.beq b = false)) ∧
  (∀ (n : Nat) (out : List BMat), 3 ≤ n → linearPartialOrbit (pathG n) = .ok out → out.Pairwise (fun a b => a.beq b = false))

/-- pairwise non-isomorphism of what `depth_first_orbit` returns — not proved; evaluated by the direct oracle -/
def depth_first_distinct_statement : Prop :=
  ∀ (iso : BMat → BMat → Bool) (fuel : Nat) (g : BMat) (paths : List (List Nat)) (out : List BMat),
    depthFirstOrbit iso fuel g = .ok (paths, out) → out.Pairwise (fun a b => iso a b = false)

end Graphiq.C16
