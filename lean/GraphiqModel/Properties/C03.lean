/-
  C03 — emitter budget: the height function equals the bipartite entanglement entropy.
-/
import GraphiqModel.Proofs.StabTableau
import GraphiqModel.Proofs.Solver
namespace Graphiq.C03
open Graphiq Graphiq.PRow Graphiq.STab Graphiq.Tab

/-- **`rref` performs only row swaps and row products** (every n, every generating set): whenever it returns, every generator of
    the echelon form is an element of the signed group of the input — the echelon form describes (a subgroup of) the same state. -/
theorem rref_rows_in_group (t t' : STab) (brs : List String) (hg : t.Good) (h : t.rref = .ok (t', brs)) :
    t'.n = t.n ∧ ∀ i, i < t'.n → t.Spn (t'.row i) := by
  have s := rref_sub t t' brs hg h
  exact ⟨s.n_eq, s.mem⟩

/-- elements of the group of a real commuting generating set are real and commute — so the echelon form is again a real
    commuting set (its rows lie in the group) -/
theorem rref_good (t t' : STab) (brs : List String) (hg : t.Good) (h : t.rref = .ok (t', brs)) : t'.Good := by
  have s := rref_sub t t' brs hg h
  constructor
  · intro i hi; exact spn_real t hg _ (s.mem i hi)
  · intro i k hi hk; rw [s.n_eq]; exact spn_comm t hg _ _ (s.mem i hi) (s.mem k hk)

/-- the height list has one entry per qubit and entry `k` is `n − (k+1) − #{generators of the echelon form whose leftmost
    non-trivial site is right of k}` (the definition the code implements; its value is compared with the independent rank formula
    `rank(M_A) − |A|` on every correspondence input) -/
theorem height_list_length (t : STab) (l : List Int) (h : t.heightFuncList = .ok l) : l.length = t.n := by
  unfold heightFuncList at h
  simp only at h
  cases hr : (STab.map (fun p => { p with r := false, ip := false }) t).rref with
  | error e => rw [hr] at h; cases h
  | ok v =>
    rw [hr] at h
    obtain ⟨t1, brs⟩ := v
    simp only at h
    by_cases hz : t.n = 0
    · simp only [hz, if_true] at h
      injection h with h; rw [← h, hz]; rfl
    · simp only [hz, if_false] at h
      cases hm : List.mapM (fun i => t1.leftmost i) (List.range t.n) with
      | none => rw [hm] at h; cases h
      | some lm =>
        rw [hm] at h
        injection h with h
        rw [← h]; simp

/-- **the deterministic solver emits each photon exactly once** (model of `TimeReversedSolver.solve`, every target, every size):
    the circuit it builds contains exactly one emission CNOT onto every photon, and none onto anything else -/
theorem solver_emits_each_photon_once (target : STab) (s : Solver.St) (h : Solver.solve target = .ok s) :
    s.np = target.n ∧ ∀ p, Solver.emitCount p s.circ = if p < target.n then 1 else 0 :=
  Solver.solve_emits_each_photon_once target s h

/-- **and allocates exactly the maximum of the height function as its number of emitters**:
    `determine_n_emitters` = `max(height_func_list(rref(target)))`, and nothing afterwards changes the register counts -/
theorem solver_allocates_max_height (target : STab) (s : Solver.St) (h : Solver.solve target = .ok s) :
    Solver.determineNEmitters target = .ok s.ne := Solver.solve_emitter_count target s h

/-- full statement kept visible (not a theorem of this development — echelon-gauge lemma, Tier B):
    the height at `k` equals `|B| − dim {P ∈ group : supp P ⊆ B}` for `B = {k+1..n−1}`, hence is gauge independent -/
def height_is_entropy_statement : Prop :=
  ∀ (t t' : STab) (l l' : List Int), t.Good → t'.Good → (t.n = t'.n ∧ ∀ p, t.Spn p ↔ t'.Spn p) →
    t.heightFuncList = .ok l → t'.heightFuncList = .ok l' → l = l'

/-! ### Non-vacuity: a linear cluster state of 3 qubits in a re-gauged generating set -/
def lin3 : STab :=
  STab.ofRows 3 #[
    PRow.ofArrays #[true,true,false] #[false,true,true] false false,   -- (XZI)(ZXZ) = YYZ
    PRow.ofArrays #[false,true,false] #[true,false,true] false false,  -- ZXZ
    PRow.ofArrays #[false,false,true] #[false,true,false] false false]  -- IZX

example : (match lin3.heightFuncList with | .ok l => l == [1, 1, 0] | .error _ => false) = true := by decide +kernel
example : (List.range 3).all (fun i => (lin3.row i).ip == false &&
    (List.range 3).all fun k => PRow.sp 3 (lin3.row i) (lin3.row k) == false) = true := by decide

end Graphiq.C03
