/-
  C03 — emitter budget: the height function equals the bipartite entanglement entropy.
-/
import GraphiqModel.Proofs.StabTableau
import GraphiqModel.Proofs.Solver
import GraphiqModel.Proofs.HeightEntropy
import GraphiqModel.Proofs.HeightGraph
import GraphiqModel.Proofs.EchelonCheck
import GraphiqModel.Proofs.HeightTotal
import GraphiqModel.Proofs.HilbertDimEntropy
namespace Graphiq.C03
open Graphiq Graphiq.PRow Graphiq.STab Graphiq.Tab

/-- **`rref` performs only row swaps and row products** (every n, every generating set): whenever it returns, every generator of
    the echelon form is an element of the signed group of the input — the echelon form describes (a subgroup of) the same state. -/
theorem rref_rows_in_group (t t' : STab) (brs : List String) (hg : t.Good) (h : t.rref = .ok (t', brs)) :
    t'.n = t.n ∧ ∀ i, i < t'.n → t.Spn (t'.row i) := by
  have s := rref_sub t t' brs hg h
  exact ⟨s.n_eq, s.mem⟩

/-- elements of the group of a real commuting generating set are real and commute — so the echelon form is again a real
    commuting set (its rows lie in the group) -/
theorem rref_good (t t' : STab) (brs : List String) (hg : t.Good) (h : t.rref = .ok (t', brs)) : t'.Good := by
  have s := rref_sub t t' brs hg h
  constructor
  · intro i hi; exact spn_real t hg _ (s.mem i hi)
  · intro i k hi hk; rw [s.n_eq]; exact spn_comm t hg _ _ (s.mem i hi) (s.mem k hk)

/-- the height list has one entry per qubit and entry `k` is `n − (k+1) − #{generators of the echelon form whose leftmost
    non-trivial site is right of k}` (the definition the code implements; its value is compared with the independent rank formula
    `rank(M_A) − |A|` on every correspondence input) -/
theorem height_list_length (t : STab) (l : List Int) (h : t.heightFuncList = .ok l) : l.length = t.n := by
  unfold heightFuncList at h
  simp only at h
  cases hr : (STab.map (fun p => { p with r := false, ip := false }) t).rref with
  | error e => rw [hr] at h; cases h
  | ok v =>
    rw [hr] at h
    obtain ⟨t1, brs⟩ := v
    simp only at h
    by_cases hz : t.n = 0
    · simp only [hz, if_true] at h
      injection h with h; rw [← h, hz]; rfl
    · simp only [hz, if_false] at h
      cases hm : List.mapM (fun i => t1.leftmost i) (List.range t.n) with
      | none => rw [hm] at h; cases h
      | some lm =>
        rw [hm] at h
        injection h with h
        rw [← h]; simp

/-- **the deterministic solver emits each photon exactly once** (model of `TimeReversedSolver.solve`, every target, every size):
    the circuit it builds contains exactly one emission CNOT onto every photon, and none onto anything else -/
theorem solver_emits_each_photon_once (target : STab) (s : Solver.St) (h : Solver.solve target = .ok s) :
    s.np = target.n ∧ ∀ p, Solver.emitCount p s.circ = if p < target.n then 1 else 0 :=
  Solver.solve_emits_each_photon_once target s h

/-- **and allocates exactly the maximum of the height function as its number of emitters**:
    `determine_n_emitters` = `max(height_func_list(rref(target)))`, and nothing afterwards changes the register counts -/
theorem solver_allocates_max_height (target : STab) (s : Solver.St) (h : Solver.solve target = .ok s) :
    Solver.determineNEmitters target = .ok s.ne := Solver.solve_emitter_count target s h

/-! ### the echelon form and the entropy characterisation -/

/-- **`rref` keeps the stabilizer group, signs included** (every n, every real commuting generating set): the row operations of
    all eight cases of `one_step_rref` are invertible, so the echelon form generates exactly the signed group of the input -/
theorem rref_keeps_group (t t' : STab) (brs : List String) (hg : t.Good) (h : t.rref = .ok (t', brs)) :
    SpanEq t t' ∧ t'.Good := rref_spanEq t t' brs hg h

/-- **`rref` returns an echelon form** (every n, every tableau): whenever it returns, every generator `i` has a leading
    (leftmost non-identity) site `piv i`, leading sites are non-decreasing down the rows, at most two generators share a leading
    site and then they are adjacent and carry two different Paulis there — unless the last row is the identity (the case
    `pivot[0] = n-1` admitted by the final assertion of `rref`; `height_func_list` then raises ValueError). -/
theorem rref_echelon (t t' : STab) (brs : List String) (h : t.rref = .ok (t', brs)) :
    (∃ piv, Echelon t' piv) ∨ (0 < t'.n ∧ ∀ j, j < t'.n → t'.ptype (t'.n - 1) j = 0) :=
  rref_echelon_or_trivial t t' brs h

/-- **every output of `rref` passes the executable echelon check** `STab.echelonB` (the predicate the driver evaluates on every
    tableau returned by the real `rref`, harness/c03.py), unless its last row is the identity; and the check is exact:
    `echelonB t = true ↔ ∃ piv, Echelon t piv` (`STab.echelonB_iff`) -/
theorem rref_passes_echelon_check (t t' : STab) (brs : List String) (h : t.rref = .ok (t', brs)) :
    t'.echelonB = true ∨ (0 < t'.n ∧ ∀ j, j < t'.n → t'.ptype (t'.n - 1) j = 0) := rref_echelonB t t' brs h

/-- **echelon lemma** (every n): a product of generators of an echelon tableau that is trivial on the sites `0..k` uses only
    generators whose leading site is right of `k`; in particular (`echelon_indep`) the generators are independent -/
theorem echelon_right_support (t : STab) (piv : Nat → Nat) (he : Echelon t piv) (S : Nat → Bool) (k : Nat)
    (hz : ∀ j, j ≤ k → j < t.n → t.comboX S j = false ∧ t.comboZ S j = false) :
    ∀ i, i < t.n → S i = true → k < piv i := echelon_support t piv he S k hz

/-- **the height function is the bipartite entanglement entropy** (every n, every generating set — no hypothesis on the
    generators): whenever `height_func_list` returns, its entry `k` is `|B| − dim G_B` with `B = {k+1..n−1}`, `|B| = n−(k+1)`,
    and `G_B` the subgroup of the stabilizer group (modulo phases, as a GF(2)-subspace of `(ZMod 2 × ZMod 2)^n`, dimension =
    Mathlib `Module.finrank`) of the elements supported on `B` — the entropy of the cut `{0..k} | {k+1..n−1}` of a pure stabilizer
    state (Fattal et al.; the identification of `|B| − dim G_B` with the von Neumann entropy is cited, not proved here). -/
theorem height_is_entropy_value (t : STab) (l : List Int) (h : t.heightFuncList = .ok l) :
    l = (List.range t.n).map fun (k : Nat) =>
      Int.ofNat t.n - (Int.ofNat k + 1) - Int.ofNat (Module.finrank (ZMod 2) ↥(t.gspace ⊓ rightOf t.n k)) :=
  heightFuncList_eq_finrank t l h

/-- the same, entry by entry -/
theorem height_entry_is_entropy (t : STab) (l : List Int) (h : t.heightFuncList = .ok l) (k : Nat) (hk : k < t.n) :
    l[k]? = some (Int.ofNat t.n - (Int.ofNat k + 1) - Int.ofNat (Module.finrank (ZMod 2) ↥(t.gspace ⊓ rightOf t.n k))) := by
  rw [heightFuncList_eq_finrank t l h, List.getElem?_map, List.getElem?_range hk]; rfl

/-- **the same number as `rank(M_A) − |A|`** (every n, every generating set): entry `k` is the GF(2) rank of the generators restricted
    to the sites `A = {0..k}` (the x- and z-columns of the qubits `0..k`) minus `|A| = k+1` — the textbook stabilizer entropy
    formula, and exactly the independent oracle `height_spec` of the correspondence harness (rank–nullity on the restriction map,
    using that the generators are independent whenever `height_func_list` returns) -/
theorem height_is_rank_minus_size (t : STab) (l : List Int) (h : t.heightFuncList = .ok l) :
    l = (List.range t.n).map fun (k : Nat) =>
      Int.ofNat (Module.finrank (ZMod 2) ↥(t.gspace.map (cutLin t.n k))) - (Int.ofNat k + 1) :=
  heightFuncList_eq_rank_cut t l h

/-- **for a graph state the height function is the GF(2) rank of the adjacency block joining the two sides** (every n, every
    adjacency relation, in the vertex order given): whenever `height_func_list` returns on the generators `X_i Z_{N(i)}`
    (`StabilizerTableau([eye(n), adjacency])`), entry `k` is `Matrix.rank` over `ZMod 2` of the block of the adjacency matrix with
    rows `{0..k}` and columns `{k+1..n−1}` -/
theorem graph_height_is_cut_rank (n : Nat) (adj : Nat → Nat → Bool) (l : List Int)
    (h : (graphSTab n adj).heightFuncList = .ok l) :
    l = (List.range n).map fun (k : Nat) => Int.ofNat (cutBlock n k adj).rank :=
  graph_heightFuncList_eq_rank n adj l h

/-- **totality of `rref`** (every n): the assertions inside `_process_two_pauli` / `one_step_rref` never fire, and on linearly
    independent generators (every valid stabilizer tableau) the final rank assertion holds too: `rref` returns, and its result is
    an echelon form with no trivial row -/
theorem rref_total (t : STab) (hli : LinearIndependent (ZMod 2) (fun i : Fin t.n => (t.row i).vec t.n)) :
    ∃ t' brs piv, t.rref = .ok (t', brs) ∧ Echelon t' piv := rref_ok_of_indep t hli

/-- **`height_func_list` returns exactly on the independent generating sets** (every n): so the theorems of this file that start
    "whenever `height_func_list` returns" apply to every valid stabilizer tableau, and to nothing else -/
theorem height_returns_iff_independent (t : STab) :
    (∃ l, t.heightFuncList = .ok l) ↔ LinearIndependent (ZMod 2) (fun i : Fin t.n => (t.row i).vec t.n) :=
  heightFuncList_ok_iff_indep t

/-- **unconditional form of the entropy theorem**: on independent generators `height_func_list` returns the list of
    `|B_k| − dim G_{B_k}`, `k = 0..n−1` -/
theorem height_of_independent (t : STab) (hli : LinearIndependent (ZMod 2) (fun i : Fin t.n => (t.row i).vec t.n)) :
    t.heightFuncList = .ok ((List.range t.n).map fun (k : Nat) =>
      Int.ofNat t.n - (Int.ofNat k + 1) - Int.ofNat (Module.finrank (ZMod 2) ↥(t.gspace ⊓ rightOf t.n k))) :=
  heightFuncList_of_indep t hli

/-- **unconditional form for graph states** (every n, every adjacency relation): the generators of a graph state are independent,
    so `height_func_list` returns, and it returns the list of the GF(2) ranks of the adjacency blocks of the cuts -/
theorem graph_height_list (n : Nat) (adj : Nat → Nat → Bool) :
    (graphSTab n adj).heightFuncList = .ok ((List.range n).map fun (k : Nat) => Int.ofNat (cutBlock n k adj).rank) :=
  graph_heightFuncList n adj

/-- **the solver's emitter count is the maximum of the target's own height list** (every target, every size): `determine_n_emitters`
    evaluates `height_func_list` on `rref(target)`; by gauge independence that is the height list of the target as given, i.e.
    (`height_is_entropy_value`) the list of the entanglement entropies of its cuts -/
theorem solver_allocates_max_entropy (target : STab) (s : Solver.St) (h : Solver.solve target = .ok s) :
    ∃ h0 hs, target.heightFuncList = .ok (h0 :: hs) ∧ s.ne = (hs.foldl max h0).toNat := by
  have hd := Solver.solve_emitter_count target s h
  unfold Solver.determineNEmitters at hd
  split at hd
  · cases hd
  · next t1 brs hr =>
    split at hd
    · cases hd
    · cases hd
    · next h0 hs hl =>
      injection hd with hd
      exact ⟨h0, hs, heightFuncList_rref target t1 brs hr _ hl, hd.symm⟩

/-- **gauge independence, strongest form**: two tableaux on the same number of qubits whose rows generate the same signed group
    get the same height list (nothing is assumed about the generators) -/
theorem height_gauge_independent (t t' : STab) (l l' : List Int) (hn : t.n = t'.n) (hs : ∀ p, t.Spn p ↔ t'.Spn p)
    (h : t.heightFuncList = .ok l) (h' : t'.heightFuncList = .ok l') : l = l' :=
  heightFuncList_gauge t t' l l' hn hs h h'

/-- the full statement of the round-1 plan (gauge independence of the height function for real commuting generating sets);
    proved below as `height_is_entropy` -/
def height_is_entropy_statement : Prop :=
  ∀ (t t' : STab) (l l' : List Int), t.Good → t'.Good → (t.n = t'.n ∧ ∀ p, t.Spn p ↔ t'.Spn p) →
    t.heightFuncList = .ok l → t'.heightFuncList = .ok l' → l = l'

/-- **the height function does not depend on the generating set** -/
theorem height_is_entropy : height_is_entropy_statement :=
  fun t t' l l' _ _ hs h h' => heightFuncList_gauge t t' l l' hs.1 hs.2 h h'

/-! ### Non-vacuity: a linear cluster state of 3 qubits in a re-gauged generating set -/
def lin3 : STab :=
  STab.ofRows 3 #[
    PRow.ofArrays #[true,true,false] #[false,true,true] false false,   -- XYZ
    PRow.ofArrays #[false,true,false] #[true,false,true] false false,  -- ZXZ
    PRow.ofArrays #[false,false,true] #[false,true,false] false false]  -- IZX

example : (match lin3.heightFuncList with | .ok l => l == [1, 1, 0] | .error _ => false) = true := by decide +kernel
example : (List.range 3).all (fun i => (lin3.row i).ip == false &&
    (List.range 3).all fun k => PRow.sp 3 (lin3.row i) (lin3.row k) == false) = true := by decide

/-- the same state in another gauge: first generator replaced by its product with the second, `(XYZ)(ZXZ) = −YZI` -/
def lin3c : STab :=
  STab.ofRows 3 #[
    PRow.ofArrays #[true,false,false] #[true,true,false] true false,    -- −YZI
    PRow.ofArrays #[false,true,false] #[true,false,true] false false,   -- ZXZ
    PRow.ofArrays #[false,false,true] #[false,true,false] false false]  -- IZX

theorem lin3_good : lin3.Good := good_of_goodB lin3 (by decide)
theorem lin3c_good : lin3c.Good := good_of_goodB lin3c (by decide)

/-- `lin3` and `lin3c` generate the same signed group: `XYZ = (−YZI)(ZXZ)` and `−YZI = (XYZ)(ZXZ)`, signs included -/
theorem lin3_same_group : lin3.n = lin3c.n ∧ ∀ p, lin3.Spn p ↔ lin3c.Spn p := by
  have key : SpanEq lin3c lin3 := by
    apply spanEq_of_gens lin3c lin3 rfl
    · intro i hi
      match i, hi with
      | 0, _ =>
        exact InSpan.eqv _ _ (InSpan.mul _ _ (spn_gen lin3c 0 (by decide)) (spn_gen lin3c 1 (by decide)))
          (eqOn_of_beqOn _ _ _ (by decide))
      | 1, _ => exact InSpan.eqv _ _ (spn_gen lin3c 1 (by decide)) (eqOn_of_beqOn _ _ _ (by decide))
      | 2, _ => exact InSpan.eqv _ _ (spn_gen lin3c 2 (by decide)) (eqOn_of_beqOn _ _ _ (by decide))
      | m + 3, h => exact absurd h (by show ¬ (m + 3 < 3); omega)
    · intro i hi
      match i, hi with
      | 0, _ =>
        exact InSpan.eqv _ _ (InSpan.mul _ _ (spn_gen lin3 0 (by decide)) (spn_gen lin3 1 (by decide)))
          (eqOn_of_beqOn _ _ _ (by decide))
      | 1, _ => exact InSpan.eqv _ _ (spn_gen lin3 1 (by decide)) (eqOn_of_beqOn _ _ _ (by decide))
      | 2, _ => exact InSpan.eqv _ _ (spn_gen lin3 2 (by decide)) (eqOn_of_beqOn _ _ _ (by decide))
      | m + 3, h => exact absurd h (by show ¬ (m + 3 < 3); omega)
  exact ⟨rfl, fun p => ⟨key.sup p, key.sub p⟩⟩

/-- the hypotheses of `height_is_entropy` / `height_gauge_independent` are satisfiable by two different generating sets, and
    both height lists exist (so the conclusion `[1, 1, 0] = [1, 1, 0]` is about real outputs) -/
example : lin3.Good ∧ lin3c.Good ∧ (lin3.n = lin3c.n ∧ ∀ p, lin3.Spn p ↔ lin3c.Spn p) ∧
    lin3.heightFuncList = .ok [1, 1, 0] ∧ lin3c.heightFuncList = .ok [1, 1, 0] := by
  have h1 : lin3.heightFuncList = .ok [1, 1, 0] := by decide +kernel
  have h2 : lin3c.heightFuncList = .ok [1, 1, 0] := by decide +kernel
  exact ⟨lin3_good, lin3c_good, lin3_same_group, h1, h2⟩

/-- hypothesis of `height_is_entropy_value`, `height_entry_is_entropy`, `height_is_rank_minus_size`: the list exists -/
example : lin3.heightFuncList = .ok [1, 1, 0] := by decide +kernel

/-- hypothesis of `rref_total` / `height_of_independent`: the generators of `lin3` are linearly independent -/
example : LinearIndependent (ZMod 2) (fun i : Fin lin3.n => (lin3.row i).vec lin3.n) :=
  (height_returns_iff_independent lin3).1 ⟨[1, 1, 0], by decide +kernel⟩

/-- hypothesis of `graph_height_is_cut_rank`: the path graph 0–1–2–3 (heights 1, 1, 1, 0: every cut crosses one edge) -/
def path4 (i j : Nat) : Bool := i + 1 == j || j + 1 == i
example : (graphSTab 4 path4).heightFuncList = .ok [1, 1, 1, 0] := by decide +kernel

/-- hypotheses of `rref_echelon` / `rref_keeps_group`: `rref` returns on `lin3` -/
example : (match lin3.rref with | .ok _ => true | .error _ => false) = true := by decide +kernel

/-- hypotheses of `echelon_right_support`: the standard gauge of the 2-qubit cluster state `XZ, ZX` is an echelon tableau
    (leading sites 0, 0 with different Paulis there), and the product of both generators `YY` … is not trivial on site 0 -/
def cl2 : STab :=
  STab.ofRows 2 #[PRow.ofArrays #[true,false] #[false,true] false false, PRow.ofArrays #[false,true] #[true,false] false false]

/-- hypothesis of `solver_allocates_max_entropy` (and of the two solver theorems above): the solver returns on the 2-qubit cluster
    state, with one emitter (= the entropy of its only non-trivial cut) -/
example : (match Solver.solve cl2 with | .ok s => s.ne == 1 | .error _ => false) = true := by decide +kernel

example : Echelon cl2 (fun _ => 0) := by
  constructor
  · intro i hi
    match i, hi with
    | 0, _ => exact ⟨by decide, fun j hj => by omega, by decide⟩
    | 1, _ => exact ⟨by decide, fun j hj => by omega, by decide⟩
    | m + 2, h => exact absurd h (by show ¬ (m + 2 < 2); omega)
  · intro i k hik hk
    match i, k, hik, hk with
    | 0, 1, _, _ => exact ⟨Nat.le_refl _, fun _ => ⟨rfl, by decide⟩⟩
    | 0, 0, h, _ => omega
    | 1, 1, h, _ => omega
    | 1, 0, h, _ => omega
    | i + 2, k, h1, h2 => exact absurd h2 (by show ¬ (k < 2); omega)
    | i, k + 2, h1, h2 => exact absurd h2 (by show ¬ (k + 2 < 2); omega)

end Graphiq.C03

/-! ## The height function is an entanglement entropy in Hilbert space (was cited: Fattal et al.)

  `Hilbert.rho n t = ∏_i (1 + P_i)/2` is the density matrix of the stabilizer tableau `t` (C07 §6), `Hilbert.ptraceList` the
  iterated partial trace over a list of sites and `Hilbert.leftSites k = [k, …, 0]` (C07 §7;
  `C07.partial_trace_defining_property` shows it is *the* partial trace).  The theorems below identify the number
  `|B| − dim G_B` that `height_func_list` computes (`height_is_entropy_value`) with the entanglement entropy of the cut
  `{0..k} | {k+1..n−1}`: the reduced state `σ_k` of the right part has a flat spectrum, `σ_k² = 2^{−h_k} σ_k` with `tr σ_k = 1`
  — it is `2^{−h_k}` times an orthogonal projector of rank `2^{h_k}`, so its von Neumann entropy and all its Rényi entropies equal
  `h_k` bits — and in particular its purity is `tr σ_k² = 2^{−h_k}`.  (No entropy functional is defined: the statement is the
  spectral one.)  Proofs: `Proofs/HilbertDim{GroupSum,Reduced,Entropy}.lean`. -/

namespace Graphiq.C03
open Graphiq Graphiq.PRow Graphiq.STab Graphiq.Tab Graphiq.Hilbert Matrix

/-- **`height_func_list` is the list of entanglement entropies of the cuts** (every n, every real commuting generating set
    in any gauge on which the function returns — i.e. every stabilizer state): with `h_k = l[k]` and `σ_k = Tr_{0..k} ρ` the
    reduced state of the qubits `k+1..n−1` (`m` of them): `σ_k² = 2^{−h_k} σ_k`, `tr σ_k = 1`, `tr σ_k² = 2^{−h_k}`. -/
theorem height_is_entanglement_entropy (m : Nat) (t : STab) (k : Nat) (hn : t.n = m + (leftSites k).length)
    (hg : t.Good) (l : List Int) (h : t.heightFuncList = .ok l) :
    ptraceList (leftSites k) (rho (m + (leftSites k).length) t) * ptraceList (leftSites k) (rho (m + (leftSites k).length) t)
      = ((2 : ℂ) ^ (-(l.getD k 0))) • ptraceList (leftSites k) (rho (m + (leftSites k).length) t) ∧
    Matrix.trace (ptraceList (leftSites k) (rho (m + (leftSites k).length) t)) = 1 ∧
    Matrix.trace (ptraceList (leftSites k) (rho (m + (leftSites k).length) t)
        * ptraceList (leftSites k) (rho (m + (leftSites k).length) t)) = (2 : ℂ) ^ (-(l.getD k 0)) ∧
    (leftSites k).length = k + 1 ∧ (∀ q, q ∈ leftSites k ↔ q ≤ k) :=
  have h3 := height_is_renyi_entropy_stab m t k hn hg l h
  ⟨h3.1, h3.2.1, h3.2.2, leftSites_length k, mem_leftSites k⟩

/-- the same for the stabilizer half of a valid Clifford tableau (what the stabilizer backend holds), with the dimension
    spelled out: the purity of the reduced state is `2^κ / 2^m`, `κ = dim_GF(2) (G ∩ supported right of k)` -/
theorem cut_purity_of_valid_tableau (m : Nat) (t : Tab) (k : Nat) (hn : t.n = m + (leftSites k).length) (hv : t.Valid)
    (hr : t.StabReal) :
    Matrix.trace (ptraceList (leftSites k) (rho (m + (leftSites k).length) (STab.ofTab t))
        * ptraceList (leftSites k) (rho (m + (leftSites k).length) (STab.ofTab t)))
      = (2 : ℂ) ^ (Module.finrank (ZMod 2) ↥((STab.ofTab t).gspace ⊓ rightOf t.n k)) / 2 ^ m :=
  (cut_entropy m t k hn hv hr).2

/-- **every reduced state of a stabilizer state has a flat spectrum** (any subset of traced-out sites, listed in descending
    order; valid Clifford tableau): `Tr_rem ρ = (2^κ/2^m)·Π` for an orthogonal projector `Π`, with
    `κ = dim_GF(2) (G ∩ {trivial on rem})`; so the entanglement entropy of any bipartition is `m − κ` bits -/
theorem reduced_state_has_flat_spectrum (m : Nat) (t : Tab) (rem : List Nat) (hn : t.n = m + rem.length) (hv : t.Valid)
    (hr : t.StabReal) (hpw : rem.Pairwise (· > ·)) (hlt : ∀ q, q ∈ rem → q < t.n) :
    ∃ Pr : Matrix (Bits m) (Bits m) ℂ, Pr * Pr = Pr ∧ Prᴴ = Pr ∧
      ptraceList rem (rho (m + rem.length) (STab.ofTab t))
        = ((2 : ℂ) ^ (Module.finrank (ZMod 2) ↥((STab.ofTab t).gspace ⊓ idOnSub t.n rem)) / 2 ^ m) • Pr ∧
      Matrix.trace (ptraceList rem (rho (m + rem.length) (STab.ofTab t))
          * ptraceList rem (rho (m + rem.length) (STab.ofTab t)))
        = (2 : ℂ) ^ (Module.finrank (ZMod 2) ↥((STab.ofTab t).gspace ⊓ idOnSub t.n rem)) / 2 ^ m :=
  reduced_state_flat m t rem hn hv hr hpw hlt

/-- **the entanglement entropy of a graph state across a cut is the GF(2) rank of the adjacency block joining the two sides**
    (Hein–Eisert–Briegel; every n, every symmetric adjacency relation, vertex order as given): the reduced state of the
    vertices `k+1..n−1` is `2^{−r}` times a projector of rank `2^r`, `r = rank_{GF(2)} A[{0..k}, {k+1..n−1}]` -/
theorem graph_state_cut_entropy_is_adjacency_rank (m n k : Nat) (adj : Nat → Nat → Bool)
    (hsym : ∀ i j, i < n → j < n → adj i j = adj j i) (hn : n = m + (leftSites k).length) :
    ptraceList (leftSites k) (rho (m + (leftSites k).length) (graphSTab n adj))
        * ptraceList (leftSites k) (rho (m + (leftSites k).length) (graphSTab n adj))
      = ((2 : ℂ) ^ (-((cutBlock n k adj).rank : ℤ))) • ptraceList (leftSites k) (rho (m + (leftSites k).length) (graphSTab n adj)) ∧
    Matrix.trace (ptraceList (leftSites k) (rho (m + (leftSites k).length) (graphSTab n adj))
        * ptraceList (leftSites k) (rho (m + (leftSites k).length) (graphSTab n adj)))
      = (2 : ℂ) ^ (-((cutBlock n k adj).rank : ℤ)) := by
  have hk : k < n := by rw [hn, leftSites_length]; omega
  have h := height_is_entanglement_entropy m (graphSTab n adj) k hn (graphSTab_good' n adj hsym) _ (graph_height_list n adj)
  have hget : ((List.range n).map fun (k : Nat) => Int.ofNat (cutBlock n k adj).rank).getD k 0
      = ((cutBlock n k adj).rank : ℤ) := by
    rw [List.getD_eq_getElem?_getD, List.getElem?_map, List.getElem?_range hk]
    rfl
  rw [hget] at h
  exact ⟨h.1, h.2.2.1⟩

/-- **the emitters suffice for every cut**: the number of emitters the solver allocates is at least the entanglement entropy
    of every cut of the target (and equals the largest one, `solver_allocates_max_entropy`); with
    `height_is_entanglement_entropy`, entry `k` is the entropy of the reduced state right of `k` -/
theorem solver_emitters_bound_cut_entropies (target : STab) (s : Solver.St) (h : Solver.solve target = .ok s) :
    ∃ l, target.heightFuncList = .ok l ∧ ∀ k, k < l.length → l.getD k 0 ≤ (s.ne : ℤ) := by
  obtain ⟨h0, hs, hl, hne⟩ := solver_allocates_max_entropy target s h
  refine ⟨h0 :: hs, hl, fun k hk => ?_⟩
  obtain ⟨i1, i2⟩ := le_foldl_max hs h0
  have hmem : (h0 :: hs).getD k 0 ∈ h0 :: hs := by
    rw [List.getD_eq_getElem?_getD, List.getElem?_eq_getElem hk]
    exact List.getElem_mem hk
  have hle : (h0 :: hs).getD k 0 ≤ hs.foldl max h0 := by
    rcases List.mem_cons.mp hmem with e | e
    · rw [e]; exact i1
    · exact i2 _ e
  rw [hne]
  exact le_trans hle (Int.self_le_toNat _)

/-- `lin3` (linear cluster state, re-gauged): `height_func_list = [1, 1, 0]`, so the reduced state of qubits 1,2 has purity
    `2^{-1}` and that of qubit 2 alone purity `2^{-1}` — the hypotheses of `height_is_entanglement_entropy` are met -/
example : Matrix.trace (ptraceList (leftSites 0) (rho (2 + (leftSites 0).length) lin3)
      * ptraceList (leftSites 0) (rho (2 + (leftSites 0).length) lin3)) = (2 : ℂ) ^ (-(1 : ℤ)) ∧
    Matrix.trace (ptraceList (leftSites 1) (rho (1 + (leftSites 1).length) lin3)
      * ptraceList (leftSites 1) (rho (1 + (leftSites 1).length) lin3)) = (2 : ℂ) ^ (-(1 : ℤ)) := by
  have h1 : lin3.heightFuncList = .ok [1, 1, 0] := by decide +kernel
  exact ⟨(height_is_entanglement_entropy 2 lin3 0 rfl lin3_good _ h1).2.2.1,
    (height_is_entanglement_entropy 1 lin3 1 rfl lin3_good _ h1).2.2.1⟩

end Graphiq.C03
