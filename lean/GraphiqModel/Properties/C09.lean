/-
  C09 — local-Clifford equivalence of graph states is decided correctly, constructively.

  Property theorems only (helper lemmas live in Proofs/GraphOps.lean, Proofs/LC.lean, Proofs/LCSeq{Step,Loop,Term}.lean and
  Proofs/LC{Comp,Block,Repair,Assemble}.lean, Proofs/LCTotal{Ech,Cols,Inv,Basis,R}.lean, Proofs/LCTotal.lean, Proofs/LCGates{,2}.lean, Proofs/LCTableaux{,2}.lean).

  What is proved here for every size n and every input (Tier A of DESIGN §4):
    1. local complementation toggles exactly the pairs of distinct neighbours and is an involution; both implementations
       (`local_comp_graph`'s matrix formula, `Graph.local_complementation`'s pair loop) compute it;
    2. `row_reduction` preserves the solution space; the coefficient matrix of `_coeff_maker` encodes exactly the
       equations of Van den Nest–Dehaene–De Moor;
    3. every `(True, Q)` of `is_lc_equivalent`, in both modes: `Q` solves every equation and every 2×2 block is
       invertible; on the full-rank shortcut and for a solution space of dimension ≤ 4 a `False` means that *no* valid
       `Q` exists (the echelon structure of `row_reduction`'s output is proved for that);
    4. the 2×2 → gate-name table of `local_clifford_ops` is complete and its gates act as the block;
    5. the checked path of `lc_check`: the returned gates, run by the verified tableau semantics on the graph state of A,
       give a valid tableau whose stabilizer group contains every generator of the graph state of B with sign +.
  Refuted, kernel-checked (known finding D14): completeness of the pair-sum shortcut for dimension ≥ 5.
    6. LC-equivalent graphs always admit a valid `Q` (one direction of Van den Nest's theorem, proved here), hence a `no`
       on the full-rank / exhaustive paths means the graphs are in different LC orbits — with no appeal to the literature.
    7. The other direction, also proved here for every n (Proofs/LCSeq{Step,Loop,Term}.lean): for every valid `Q` the
       R-matrix reduction of `lc_graph_operations` terminates (`fuel ≥ n + 1` rounds of each loop) and the vertex sequence
       it returns takes the first graph exactly to the second (`lc_sequence_correct`, `lc_sequence_terminates`); hence
       `yes_means_same_orbit`, `valid_clifford_iff_same_orbit` (Van den Nest–Dehaene–De Moor, Phys. Rev. A 69, 022316,
       Theorem 3 for graph states, both directions) and `decides_lc_equivalence_off_the_shortcut`: the answer is right
       on every run except a `no` on the pair-sum / random paths (D14; `decides_lc_equivalence_refuted`).
  No part of the "same LC orbit" claim is cited any more.
    8. The repair of D14 (section 5; handoff/repairs/d14; helper lemmas in Proofs/LC{Comp,Block,Repair}.lean): the repaired
       `is_lc_equivalent` (`isLcEquivalentR`) compares the connected components of the two graphs and runs the unchanged
       algorithm (`isLcEquivalent`, now `_is_lc_equivalent_component`) on every induced pair.  Proved for every n:
       `_connected_components` returns the reachability classes; components are an invariant of the LC orbit
       (`components_are_lc_invariant`); a vector is a valid `Q` of the whole pair iff every restriction is a valid `Q` of the
       induced pair (`block_diagonal_solution_iff`); every `yes` is right (`repaired_yes_means_same_orbit`); a `no` is right
       when the partitions differ or off the shortcut in the failing component
       (`decides_lc_equivalence_repaired_off_the_shortcut`, which now covers the witnesses of D14: `repaired_2K2_yes`); and
       the decision statement holds in deterministic mode relative to exactly one hypothesis, the completeness of the pair-sum
       shortcut on *connected* graphs (`decides_lc_equivalence_repaired_partial`,
       `shortcut_complete_on_connected_statement` — a claim of the paper, tested exhaustively for connected n ≤ 6, not proved).
    9. Totality (section 6; Proofs/LCTotal*.lean): the whole-graph algorithm and the repaired function *return* on every input
       of the quantifier (same size n ≥ 1, deterministic or random mode, every draw) — none of the three internal assertions
       can fire, the reshape and the exact inverses succeed (`is_lc_equivalent_component_total`, `is_lc_equivalent_total`);
       the decision theorems are restated without the hypothesis "the function returned"
       (`is_lc_equivalent_returns_and_is_right_off_the_shortcut`, `is_lc_equivalent_decides_partial`).
   10. The gates, unconditionally (section 7; Proofs/LCGates.lean, Proofs/LCGates2.lean): for every valid `Q` the gates named
       by `local_clifford_ops` run on `|A⟩`, `±K_k(B)` lies in the resulting stabilizer group (the symplectic product of
       `K_k(B)` with the image of `K_i(A)` is equation `(i, k)`; maximality of the group), `groupSign` finds every sign, the `Z`
       corrections fix them, and the validation of `lc_check` passes: `lc_check` is total, agrees with `is_lc_equivalent`, and
       its gates map `|A⟩` exactly onto `|B⟩` with or without `validate` (`lc_check_total_and_right`).
   11. Tableau inputs (section 8; Proofs/LCTableaux.lean): `lc_check` on two stabilizer states, modelled function by function
       (`lcCheckStates`), returns a total gate list `gates1 + gate_list + inversed_gates2` that maps the first state exactly onto
       the second (`lc_check_on_tableaux_sound`) — composition of C08's `state_to_graph` soundness with item 10 — and is total on
       stabilizer states, validation included (`lc_check_on_stabilizer_states_total_and_right`).
  `isLcEquivalent` is the model of `is_lc_equivalent` while the repository is unrepaired and of `_is_lc_equivalent_component`
  afterwards; sections 2–4 are about it in both readings.
-/
import GraphiqModel.Proofs.LC
import GraphiqModel.Proofs.LCSeqTerm
import GraphiqModel.Proofs.LCRepair
import GraphiqModel.Proofs.LCAssemble
import GraphiqModel.Proofs.LCTotalR
import GraphiqModel.Proofs.LCGates2
import GraphiqModel.Proofs.LCTableaux
import GraphiqModel.Proofs.LCTableaux2
namespace Graphiq.C09
open Graphiq Graphiq.LC Graphiq.PRow Graphiq.Tab

/-! ## 1. Local complementation -/

/-- local complementation at `v` toggles precisely the edges among the neighbours of `v` (all n, all graphs) -/
theorem local_complementation_toggles_neighbour_pairs (n : Nat) (A : Adj) (v i j : Nat) (hA : Simple n A) (hi : i < n) :
    localComp A v i j = xor (A i j) (decide (i ≠ j) && (A i v && A v j)) :=
  localComp_toggle A v i j (Or.inl (hA.2 i hi))

/-- local complementation is an involution -/
theorem local_complementation_involution (n : Nat) (A : Adj) (v : Nat) (hv : v < n) (hA : Simple n A) :
    EqAdj n (localComp (localComp A v) v) A :=
  localComp_involution_simple n A v hv hA

/-- it maps simple graphs to simple graphs -/
theorem local_complementation_simple (n : Nat) (A : Adj) (v : Nat) (hv : v < n) (hA : Simple n A) :
    Simple n (localComp A v) :=
  localComp_simple n A v hv hA

/-- `local_comp_graph` (the matrix formula `A(Γ_v A + A_vv Γ_v + I)` with the diagonal zeroed) is the neighbour toggle -/
theorem local_comp_graph_is_local_complementation (n : Nat) (A : Adj) (v : Nat) (hv : v < n) (hA : Simple n A) :
    EqAdj n (localCompGraph n A v) (localComp A v) :=
  localCompGraph_eq n A v hv (hA.2 v hv)

/-- the same for the executed (tabulated) object, with the Python's assertion -/
theorem local_comp_graph_executed (g h : BMat) (v : Nat) (hA : Simple g.r g.f)
    (e : localCompGraph? g v = .ok h) : v < g.r ∧ h.r = g.r ∧ h.c = g.r ∧ EqAdj g.r h.f (localComp g.f v) := by
  unfold localCompGraph? at e
  split at e
  · rename_i hv
    cases e
    refine ⟨hv, rfl, rfl, fun i j hi hj => ?_⟩
    have : (lcStep g v).f i j = localCompGraph g.r g.f v i j := BMat.norm_agree _ i j hi hj
    rw [this]
    exact localCompGraph_eq g.r g.f v hv (hA.2 v hv) i j hi hj
  · cases e

/-- `Graph.local_complementation` (toggle every pair of `itertools.combinations(neighbors, 2)`) is the neighbour toggle -/
theorem graph_local_complementation_is_local_complementation (n : Nat) (A : Adj) (v : Nat) (hv : v < n) (hA : Simple n A) :
    EqAdj n (localCompPairs n A v) (localComp A v) :=
  localCompPairs_eq n A v hv hA

/-- hence the two implementations agree -/
theorem the_two_implementations_agree (n : Nat) (A : Adj) (v : Nat) (hv : v < n) (hA : Simple n A) :
    EqAdj n (localCompGraph n A v) (localCompPairs n A v) :=
  (local_comp_graph_is_local_complementation n A v hv hA).trans
    (graph_local_complementation_is_local_complementation n A v hv hA).symm

/-- the 4-cycle 0–1–2–3 is a simple graph on 4 vertices (non-vacuity of the hypotheses above) -/
def C4 : Adj := fun i j => (i + 1 = j ∨ j + 1 = i ∨ (i = 0 ∧ j = 3) ∨ (i = 3 ∧ j = 0)) ∧ i < 4 ∧ j < 4
example : Simple 4 C4 := by
  refine ⟨fun i j hi hj => ?_, fun i hi => ?_⟩
  · simp only [C4]; apply decide_eq_decide.mpr; omega
  · simp only [C4]; apply decide_eq_false; omega
/-- and complementing it at 0 really adds the chord 1–3 -/
example : localComp C4 0 1 3 = true ∧ C4 1 3 = false := by decide

/-! ## 2. The linear system and its reduction -/

/-- the rows of `_coeff_maker(θ, θ')` are the equations
    `Σ_m θ_mj θ'_mk c_m + θ_jk a_k + θ'_jk d_j + δ_jk b_j = 0` -/
theorem coeff_maker_encodes_the_equations (n : Nat) (z1 z2 : Adj) (v : Nat → Bool) :
    SolF (coeffMaker n z1 z2) v ↔ ∀ j k, j < n → k < n → equation n z1 z2 v j k = false :=
  solF_coeff_iff n z1 z2 v

/-- `row_reduction` keeps the shape and the solution space of the x-matrix (every n, every matrix with a row) -/
theorem row_reduction_preserves_solutions (x z : BMat) (v : Nat → Bool) (hr : 0 < x.r) :
    (rowReduction x z).1.r = x.r ∧ (rowReduction x z).1.c = x.c ∧ (SolF (rowReduction x z).1 v ↔ SolF x v) :=
  rowReduction_spec x z v hr

/-! ## 3. Decision -/

/-- **soundness of `yes`, both modes, every search path** (all combinations for dimension ≤ 4, pair sums, and the random
    search for every value of the draws): the returned `Q` has 4n entries, satisfies every equation of the system, and
    every block is invertible -/
theorem yes_returns_a_valid_clifford (a b : BMat) (mode : Mode) (draws : List Bool) (out : EqOut) (q : List Bool)
    (hn : 0 < a.r) (e : isLcEquivalent a b mode draws = .ok out) (hq : out.sol = some q) :
    q.length = 4 * a.r ∧ (∀ j k, j < a.r → k < a.r → equation a.r a.f b.f (vget q) j k = false) ∧
    isValidClifford a.r q = true := by
  obtain ⟨h1, h2, h3⟩ := isLcEquivalent_sound_all a b mode draws out q hn e hq
  exact ⟨h1, (solF_coeff_iff a.r a.f b.f _).mp h2, h3⟩

/-- **for a solution space of dimension ≤ 4 the search is exhaustive**: a `no` on that path means that no assignment at
    all satisfies the equations with every block invertible (so the graphs are not LC-equivalent: `no_means_not_lc_equivalent`) -/
theorem no_is_exhaustive_for_small_dimension (a b : BMat) (mode : Mode) (draws : List Bool) (out : EqOut)
    (hn : 0 < a.r) (e : isLcEquivalent a b mode draws = .ok out) (hsol : out.sol = none)
    (hp : out.path = "all-combinations") (v : List Bool)
    (hv : ∀ j k, j < a.r → k < a.r → equation a.r a.f b.f (vget v) j k = false) : isValidClifford a.r v = false :=
  isLcEquivalent_no_small a b mode draws out hn e hsol hp v ((solF_coeff_iff a.r a.f b.f _).mpr hv)

/-- **the full-rank shortcut is right** ("those two graph states are not LC equivalent for sure"): when the reduced
    coefficient matrix has rank `4 n` the zero vector is the only solution, so no valid `Q` exists -/
theorem no_is_right_on_full_rank (a b : BMat) (mode : Mode) (draws : List Bool) (out : EqOut)
    (hn : 0 < a.r) (e : isLcEquivalent a b mode draws = .ok out) (hp : out.path = "full-rank") (v : List Bool)
    (hv : ∀ j k, j < a.r → k < a.r → equation a.r a.f b.f (vget v) j k = false) : isValidClifford a.r v = false :=
  isLcEquivalent_no_fullrank a b mode draws out hn e hp v ((solF_coeff_iff a.r a.f b.f _).mpr hv)

/-- **one step of Van den Nest's theorem**: a local complementation is realised by an explicit local Clifford — the
    vector with block `[[1,0],[1,1]]` at `v`, `[[1,1],[0,1]]` at the neighbours of `v` and the identity elsewhere solves every
    equation of the system for `(A, localComp A v)` and has invertible blocks (so the equations are satisfiable by a valid
    `Q` for every pair one complementation apart, for every n) -/
theorem one_local_complementation_has_a_valid_clifford (n : Nat) (A : Adj) (v : Nat) (hv : v < n) (hA : Simple n A) :
    (∀ j k, j < n → k < n → equation n A (localComp A v) (lcQ A v) j k = false) ∧
    isValidClifford n ((List.range (4 * n)).map (lcQ A v)) = true :=
  ⟨fun j k hj hk => lcQ_solves n A v hv hA j k hj hk, lcQ_valid n A v hv hA⟩

/-- two graphs are in the same LC orbit -/
def SameOrbit (n : Nat) (A B : Adj) : Prop := ∃ vs : List Nat, (∀ v ∈ vs, v < n) ∧ EqAdj n (applySeq A vs) B

/-- **every LC-equivalent pair admits a valid `Q`** — the elementary direction of Van den Nest's theorem, proved for every
    n: one complementation is realised by the explicit `lcQ`, solutions compose blockwise (`Q₂Q₁`), determinants multiply -/
theorem lc_equivalent_graphs_have_a_valid_clifford (n : Nat) (A B : Adj) (hA : Simple n A) (h : SameOrbit n A B) :
    ∃ v : List Bool, (∀ j k, j < n → k < n → equation n A B (vget v) j k = false) ∧ isValidClifford n v = true := by
  obtain ⟨vs, hvs, hB⟩ := h
  exact same_orbit_has_valid_Q_list n A B vs hA hvs hB

/-- **a `no` taken on the full-rank shortcut or after the exhaustive search is right, with no appeal to the literature**:
    the two graphs are not related by any sequence of local complementations -/
theorem no_means_not_lc_equivalent (a b : BMat) (mode : Mode) (draws : List Bool) (out : EqOut)
    (hn : 0 < a.r) (hA : Simple a.r a.f) (e : isLcEquivalent a b mode draws = .ok out) (hsol : out.sol = none)
    (hp : out.path = "all-combinations" ∨ out.path = "full-rank") : ¬ SameOrbit a.r a.f b.f := by
  intro h
  obtain ⟨v, hv, hval⟩ := lc_equivalent_graphs_have_a_valid_clifford a.r a.f b.f hA h
  have : isValidClifford a.r v = false := hp.elim
    (fun hp1 => no_is_exhaustive_for_small_dimension a b mode draws out hn e hsol hp1 v hv)
    (fun hp2 => no_is_right_on_full_rank a b mode draws out hn e hp2 v hv)
  rw [this] at hval
  exact absurd hval (by decide)

/-- the full decision property as worded, for the whole-graph algorithm (`is_lc_equivalent` before the repair of D14,
    `_is_lc_equivalent_component` after it): the test answers yes exactly when one graph is reachable from the other by local
    complementations (false for it on disconnected graphs, D14: `decides_lc_equivalence_refuted`; proved on every other run:
    `decides_lc_equivalence_off_the_shortcut`; for the repaired `is_lc_equivalent` see section 5) -/
def decides_lc_equivalence_statement : Prop :=
  ∀ (a b : BMat) (mode : Mode) (draws : List Bool) (out : EqOut), 0 < a.r → a.r = b.r → a.c = a.r → b.c = b.r →
    Simple a.r a.f → Simple b.r b.f → mode ≠ .other → isLcEquivalent a b mode draws = .ok out →
    (out.sol.isSome = true ↔ SameOrbit a.r a.f b.f)

/-- completeness alone: an LC-equivalent pair is never answered `no` -/
def never_a_false_no_statement : Prop :=
  ∀ (a b : BMat) (out : EqOut), 0 < a.r → a.r = b.r → Simple a.r a.f → Simple b.r b.f →
    isLcEquivalent a b .det [] = .ok out → SameOrbit a.r a.f b.f → out.sol.isSome = true

def twoK2 : BMat := BMat.ofAdj 4 (fun i j => (i = 0 ∧ j = 1) ∨ (i = 1 ∧ j = 0) ∨ (i = 2 ∧ j = 3) ∨ (i = 3 ∧ j = 2))
def K2K1 : BMat := BMat.ofAdj 3 (fun i j => (i = 0 ∧ j = 1) ∨ (i = 1 ∧ j = 0))

/-- what the model answers, as data -/
def answer (a b : BMat) : Option (Option (List Bool)) :=
  match isLcEquivalent a b .det [] with
  | .ok o => some o.sol
  | .error _ => none

set_option maxRecDepth 100000 in
/-- **known finding D14, kernel-checked**: two disjoint edges compared with themselves are answered `no` (the solution
    space has dimension 8 and no sum of two basis vectors is valid, although the identity is) -/
theorem shortcut_incomplete_2K2 : answer twoK2 twoK2 = some none := by decide +kernel

set_option maxRecDepth 100000 in
/-- the same for an edge plus an isolated vertex -/
theorem shortcut_incomplete_K2K1 : answer K2K1 K2K1 = some none := by decide +kernel

/-- hence "never a false no" is *false* for the whole-graph algorithm (replayed on the implementation on every run while it is
    unrepaired; the repaired `is_lc_equivalent` answers these inputs `yes`: `repaired_2K2_yes`) -/
theorem never_a_false_no_refuted : ¬ never_a_false_no_statement := by
  intro h
  have hs : Simple 4 twoK2.f := by
    refine ⟨fun i j hi hj => ?_, fun i hi => ?_⟩
    · simp only [twoK2, BMat.ofAdj]; apply decide_eq_decide.mpr; omega
    · simp only [twoK2, BMat.ofAdj]; apply decide_eq_false; omega
  have e := shortcut_incomplete_2K2
  unfold answer at e
  split at e
  · rename_i o ho
    have hso : o.sol = none := by simpa using e
    have := h twoK2 twoK2 o (by decide) rfl hs hs ho ⟨[], by simp, EqAdj.refl 4 _⟩
    rw [hso] at this
    simp at this
  · simp at e

/-- the part of the decision property about `Q`: every `yes` carries a valid `Q`; every `no` taken on the full-rank shortcut
    or after the exhaustive search (dimension ≤ 4) means that no valid `Q` exists.  With `valid Q ⇔ same orbit`
    (`valid_clifford_iff_same_orbit`, proved below) this gives `decides_lc_equivalence_off_the_shortcut`.  Missing, and false
    for the code: a `no` on the pair-sum / random paths (dimension ≥ 5) is incomplete — refuted above, D14 -/
theorem decides_lc_equivalence_partial (a b : BMat) (mode : Mode) (draws : List Bool) (out : EqOut)
    (hn : 0 < a.r) (e : isLcEquivalent a b mode draws = .ok out) :
    (∀ q, out.sol = some q →
      (∀ j k, j < a.r → k < a.r → equation a.r a.f b.f (vget q) j k = false) ∧ isValidClifford a.r q = true) ∧
    (out.sol = none → (out.path = "all-combinations" ∨ out.path = "full-rank") → ∀ v : List Bool,
      (∀ j k, j < a.r → k < a.r → equation a.r a.f b.f (vget v) j k = false) → isValidClifford a.r v = false) :=
  ⟨fun q hq => (yes_returns_a_valid_clifford a b mode draws out q hn e hq).2,
   fun hs hpa v hv => hpa.elim
     (fun h => no_is_exhaustive_for_small_dimension a b mode draws out hn e hs h v hv)
     (fun h => no_is_right_on_full_rank a b mode draws out hn e h v hv)⟩

def K3 : BMat := BMat.ofAdj 3 (fun i j => decide (i ≠ j))
def S3 : BMat := BMat.ofAdj 3 (fun i j => decide (i ≠ j) && (decide (i = 0) || decide (j = 0)))

set_option maxRecDepth 100000 in
/-- non-vacuity: the triangle and the 3-star are answered `yes` with this `Q` (blocks `H P†`, `P H`, `P`) -/
theorem triangle_star_yes :
    answer K3 S3 = some (some [false, true, true, true, true, true, true, false, true, true, false, true]) := by
  decide +kernel

/-! ## 4. Gates -/

/-- `local_clifford_ops`: exactly the invertible blocks have a name -/
theorem gate_table_complete (a b c d : Bool) : (blockOps a b c d).isSome = xor (a && d) (b && c) :=
  blockOps_complete a b c d

/-- the named gates, applied rightmost first as `converter_gate_list` does, act on the `(z, x)` bits of their qubit as the
    block acts on the column vector `(z; x)` and leave the other qubits alone — any row, any n -/
theorem gate_table_acts_as_the_block (a b c d : Bool) (names : List String) (h : blockOps a b c d = some names)
    (q : Nat) (p : PRow) :
    (applyNames names q p).z q = xor (a && p.z q) (b && p.x q) ∧
    (applyNames names q p).x q = xor (c && p.z q) (d && p.x q) ∧
    ∀ j, j ≠ q → (applyNames names q p).x j = p.x j ∧ (applyNames names q p).z j = p.z j :=
  blockOps_action a b c d names h q p

/-- the graph-state tableau is a valid Clifford tableau -/
theorem graph_state_tableau_valid (n : Nat) (A : Adj) (hA : Simple n A) : (graphTab n A).Valid :=
  graphTab_valid n A hA

/-- **the gates returned by `lc_check(A, B, validate=True)` transform the first graph state exactly into the second**:
    running them with the verified tableau semantics (C07) on the graph state of `A` succeeds, gives a valid tableau on
    the same qubits, and its stabilizer group contains `+K_q(B)` for every vertex `q` — n independent commuting generators
    of a valid tableau's group determine the state, signs included -/
theorem lc_check_gates_map_the_state (a b : BMat) (gates : List (String × Nat)) (hA : Simple a.r a.f)
    (e : lcCheck a b true = .ok (true, gates)) :
    ∃ t, runGates (graphTab a.r a.f) gates = .ok t ∧ t.n = a.r ∧ t.Valid ∧
      ∀ q, q < a.r → InSpan t.n t.n t.stab (graphGen b.f q) :=
  lcCheck_sound a b gates hA e

/-- what the model's `lc_check(validate=True)` answers, as data -/
def checkAnswer (a b : BMat) : Option (Bool × List (String × Nat)) :=
  match lcCheck a b true with
  | .ok r => some r
  | .error _ => none

set_option maxRecDepth 100000 in
/-- non-vacuity of the hypothesis of `lc_check_gates_map_the_state` (kernel-checked): for the triangle and the 3-star the
    checked path succeeds, with exactly the gate list the implementation returns -/
theorem lc_check_triangle_star :
    checkAnswer K3 S3 = some (true, [("P_dag", 0), ("H", 0), ("H", 1), ("P", 1), ("P", 2), ("Z", 2)]) := by
  decide +kernel

/-- the constructive part of the property as worded, for the vertex sequence (proved: `lc_sequence_correct`) -/
def lc_sequence_statement : Prop :=
  ∀ (fuel : Nat) (a b : BMat) (out : EqOut) (q : List Bool) (seq : List Nat), 0 < a.r → a.r = b.r → Simple a.r a.f →
    Simple b.r b.f → isLcEquivalent a b .det [] = .ok out → out.sol = some q →
    lcGraphOperations fuel a.r a.f q = .ok seq → EqAdj a.r (applySeq a.f seq) b.f

/-- **the R-matrix reduction of `lc_graph_operations` is correct** (the constructive direction of Van den Nest–Dehaene–De Moor,
    Section IV, proved for every n): for *any* local Clifford `Q` with invertible blocks that solves the system for
    `(a, b)`, every vertex sequence the reduction returns (singles, then doubles `i, j, i`) consists of vertices of the graph
    and, applied to `a` as local complementations, gives exactly `b`.  Invariant: the matrix the Python rewrites is
    `R = C θ + D` for the current graph θ and a residual valid `Q` from θ to `b`; one `_apply_f` at a vertex with `c_v = 1` is
    one complementation (`applyF_tracks`, `LCInv.step`), and `R = I` forces θ = b (`identity_R_means_done`). -/
theorem lc_graph_operations_reaches_the_target (fuel n : Nat) (a b : Adj) (q : List Bool) (seq : List Nat)
    (ha : Simple n a) (hb : Simple n b) (hq : ∀ j k, j < n → k < n → equation n a b (vget q) j k = false)
    (hv : isValidClifford n q = true) (e : lcGraphOperations fuel n a q = .ok seq) :
    EqAdj n (applySeq a seq) b ∧ ∀ v ∈ seq, v < n :=
  lcGraphOperations_correct fuel n a b q seq ha hb hq hv e

/-- `lc_sequence_statement` holds: the sequence returned for the `Q` of a `yes` transforms the first graph into the second -/
theorem lc_sequence_correct : lc_sequence_statement := by
  intro fuel a b out q seq hn hab ha hb e hq hseq
  obtain ⟨_, h2, h3⟩ := yes_returns_a_valid_clifford a b .det [] out q hn e hq
  have hb' : Simple a.r b.f := by rw [hab]; exact hb
  exact (lc_graph_operations_reaches_the_target fuel a.r a.f b.f q seq ha hb' h2 h3 hseq).1

/-- **the reduction terminates on every valid `Q`** (`fuel` is the model's bound on the two `while` loops; `runtime` = bound
    hit): `fuel ≥ n + 1` always suffices.  First loop: every pass of `_singles` with `_condition` true clears `c_v` of at least
    one block and never sets one, so at most (number of blocks with `c = 1`) ≤ n passes; second loop: once `_condition` is
    false, one pass of `_doubles` never meets an empty `k_list` (`R` is invertible), makes rows `j`, `k` of each recorded pair
    unit rows and keeps unit rows, so it ends with `R = I` — the body runs at most once. -/
theorem lc_graph_operations_terminates (fuel n : Nat) (a b : Adj) (q : List Bool) (hn : 0 < n) (ha : Simple n a)
    (hb : Simple n b) (hq : ∀ j k, j < n → k < n → equation n a b (vget q) j k = false)
    (hv : isValidClifford n q = true) (hf : n + 1 ≤ fuel) : ∃ seq, lcGraphOperations fuel n a q = .ok seq :=
  lcGraphOperations_terminates fuel n a b q hn ha hb hq hv hf

/-- **every `yes` comes with a sequence of local complementations**: for the `Q` of a `yes` (both modes, every search path,
    every value of the random draws) `lc_graph_operations` returns, within `n + 1` rounds of each loop, a list of vertices
    of the graph whose local complementations take the first graph exactly to the second -/
theorem lc_sequence_terminates (fuel : Nat) (a b : BMat) (mode : Mode) (draws : List Bool) (out : EqOut) (q : List Bool)
    (hn : 0 < a.r) (hab : a.r = b.r) (ha : Simple a.r a.f) (hb : Simple b.r b.f)
    (e : isLcEquivalent a b mode draws = .ok out) (hq : out.sol = some q) (hf : a.r + 1 ≤ fuel) :
    ∃ seq, lcGraphOperations fuel a.r a.f q = .ok seq ∧ (∀ v ∈ seq, v < a.r) ∧ EqAdj a.r (applySeq a.f seq) b.f := by
  obtain ⟨_, h2, h3⟩ := yes_returns_a_valid_clifford a b mode draws out q hn e hq
  have hb' : Simple a.r b.f := by rw [hab]; exact hb
  obtain ⟨seq, hs⟩ := lc_graph_operations_terminates fuel a.r a.f b.f q hn ha hb' h2 h3 hf
  have := lc_graph_operations_reaches_the_target fuel a.r a.f b.f q seq ha hb' h2 h3 hs
  exact ⟨seq, hs, this.2, this.1⟩

/-- **the hard direction, proved: a `yes` means that the graphs are in the same LC orbit** (no citation needed any more) -/
theorem yes_means_same_orbit (a b : BMat) (mode : Mode) (draws : List Bool) (out : EqOut) (q : List Bool)
    (hn : 0 < a.r) (hab : a.r = b.r) (ha : Simple a.r a.f) (hb : Simple b.r b.f)
    (e : isLcEquivalent a b mode draws = .ok out) (hq : out.sol = some q) : SameOrbit a.r a.f b.f := by
  obtain ⟨seq, _, h1, h2⟩ := lc_sequence_terminates (a.r + 1) a b mode draws out q hn hab ha hb e hq (Nat.le_refl _)
  exact ⟨seq, h1, h2⟩

/-- **`find_lc_operations`**: whatever it returns is a list of vertices whose local complementations take the first graph to
    the second; and it does return whenever `is_lc_equivalent` says yes -/
theorem find_lc_operations_correct (fuel : Nat) (a b : BMat) (mode : Mode) (draws : List Bool)
    (hn : 0 < a.r) (hab : a.r = b.r) (ha : Simple a.r a.f) (hb : Simple b.r b.f) :
    (∀ seq, findLcOperations fuel a b mode draws = .ok seq →
      (∀ v ∈ seq, v < a.r) ∧ EqAdj a.r (applySeq a.f seq) b.f) ∧
    (∀ out, isLcEquivalent a b mode draws = .ok out → out.sol.isSome = true → a.r + 1 ≤ fuel →
      ∃ seq, findLcOperations fuel a b mode draws = .ok seq) := by
  have hb' : Simple a.r b.f := by rw [hab]; exact hb
  constructor
  · intro seq e
    unfold findLcOperations at e
    cases h : isLcEquivalent a b mode draws with
    | error x => rw [h] at e; cases e
    | ok out =>
      rw [h] at e
      dsimp only at e
      cases hs : out.sol with
      | none => rw [hs] at e; cases e
      | some q =>
        rw [hs] at e
        obtain ⟨_, h2, h3⟩ := yes_returns_a_valid_clifford a b mode draws out q hn h hs
        have := lc_graph_operations_reaches_the_target fuel a.r a.f b.f q seq ha hb' h2 h3 e
        exact ⟨this.2, this.1⟩
  · intro out h hs hf
    cases hq : out.sol with
    | none => rw [hq] at hs; cases hs
    | some q =>
      obtain ⟨seq, e, _⟩ := lc_sequence_terminates fuel a b mode draws out q hn hab ha hb h hq hf
      refine ⟨seq, ?_⟩
      unfold findLcOperations
      rw [h]
      dsimp only
      rw [hq]
      exact e

/-- **Van den Nest–Dehaene–De Moor's theorem for graph states, both directions proved for every n**: the linear system has a
    solution with invertible blocks iff the graphs are related by a sequence of local complementations.  (⇐ is
    `lc_equivalent_graphs_have_a_valid_clifford`; ⇒ is constructive — the sequence is the one `lc_graph_operations` computes) -/
theorem valid_clifford_iff_same_orbit (n : Nat) (A B : Adj) (hn : 0 < n) (hA : Simple n A) (hB : Simple n B) :
    (∃ v : List Bool, (∀ j k, j < n → k < n → equation n A B (vget v) j k = false) ∧ isValidClifford n v = true) ↔
      SameOrbit n A B := by
  constructor
  · rintro ⟨v, h1, h2⟩
    obtain ⟨seq, hs⟩ := lc_graph_operations_terminates (n + 1) n A B v hn hA hB h1 h2 (Nat.le_refl _)
    have := lc_graph_operations_reaches_the_target (n + 1) n A B v seq hA hB h1 h2 hs
    exact ⟨seq, this.2, this.1⟩
  · exact lc_equivalent_graphs_have_a_valid_clifford n A B hA

/-- **the decision property, proved wherever the code is right**: on every run that says `yes`, and on every run that says
    `no` on the full-rank shortcut or after the exhaustive search (solution space of dimension ≤ 4), the answer is `yes`
    exactly when one graph is reachable from the other by local complementations.  What remains outside is only a `no` on the
    pair-sum / random paths (dimension ≥ 5), where the whole-graph algorithm is wrong on disconnected graphs (D14,
    `decides_lc_equivalence_refuted`). -/
theorem decides_lc_equivalence_off_the_shortcut (a b : BMat) (mode : Mode) (draws : List Bool) (out : EqOut)
    (hn : 0 < a.r) (hab : a.r = b.r) (ha : Simple a.r a.f) (hb : Simple b.r b.f)
    (e : isLcEquivalent a b mode draws = .ok out)
    (hp : out.sol.isSome = true ∨ out.path = "all-combinations" ∨ out.path = "full-rank") :
    out.sol.isSome = true ↔ SameOrbit a.r a.f b.f := by
  constructor
  · intro hs
    cases hq : out.sol with
    | none => rw [hq] at hs; cases hs
    | some q => exact yes_means_same_orbit a b mode draws out q hn hab ha hb e hq
  · intro horb
    cases hq : out.sol with
    | some q => rfl
    | none =>
      rcases hp with hp | hp
      · rw [hq] at hp; cases hp
      · exact absurd horb (no_means_not_lc_equivalent a b mode draws out hn ha e hq hp)

/-- and the property as worded is *false* for the whole-graph algorithm (D14): two disjoint edges compared with themselves are
    in the same orbit (empty sequence) and are answered `no` — which is why the repaired `is_lc_equivalent` calls it on connected
    components only -/
theorem decides_lc_equivalence_refuted : ¬ decides_lc_equivalence_statement := by
  intro h
  have hs : Simple 4 twoK2.f := by
    refine ⟨fun i j hi hj => ?_, fun i hi => ?_⟩
    · simp only [twoK2, BMat.ofAdj]; apply decide_eq_decide.mpr; omega
    · simp only [twoK2, BMat.ofAdj]; apply decide_eq_false; omega
  have e := shortcut_incomplete_2K2
  unfold answer at e
  split at e
  · rename_i o ho
    have hso : o.sol = none := by simpa using e
    have := (h twoK2 twoK2 .det [] o (by decide) rfl rfl rfl hs hs (by decide) ho).mpr ⟨[], by simp, EqAdj.refl 4 _⟩
    rw [hso] at this
    simp at this
  · simp at e

/-! non-vacuity with a *double*: the path 0–1–2–3 and the 4-cycle 0–2–1–3 (pivot on the edge 1–2) -/

def P4 : BMat := BMat.ofAdj 4 (fun i j => i + 1 = j ∨ j + 1 = i)
def Q4 : BMat := BMat.ofAdj 4 (fun i j => (i < 2 ∧ 2 ≤ j) ∨ (j < 2 ∧ 2 ≤ i))

example : Simple P4.r P4.f := by
  refine ⟨fun i j hi hj => ?_, fun i hi => ?_⟩
  · simp only [P4, BMat.ofAdj]; apply decide_eq_decide.mpr; omega
  · simp only [P4, BMat.ofAdj]; apply decide_eq_false; omega
example : Simple Q4.r Q4.f := by
  refine ⟨fun i j hi hj => ?_, fun i hi => ?_⟩
  · simp only [Q4, BMat.ofAdj]; apply decide_eq_decide.mpr; omega
  · simp only [Q4, BMat.ofAdj]; apply decide_eq_false; omega

/-- what the model's `find_lc_operations` answers with the sufficient fuel `n + 1`, as data -/
def seqAnswer (a b : BMat) : Option (List Nat) :=
  match findLcOperations (a.r + 1) a b .det [] with
  | .ok s => some s
  | .error _ => none

set_option maxRecDepth 100000 in
/-- kernel-checked: the hypotheses of the theorems above are met by a pair that needs `_doubles` (the `Q` found is a
    Hadamard on the vertices 1 and 2; the sequence is the pivot `1, 2, 1`, as the implementation returns) -/
theorem path_cycle_sequence : seqAnswer P4 Q4 = some [1, 2, 1] := by decide +kernel

set_option maxRecDepth 100000 in
/-- and by the triangle and the 3-star (singles only) -/
theorem triangle_star_sequence : seqAnswer K3 S3 = some [0, 1] := by decide +kernel

/-! ## 5. The repaired `is_lc_equivalent` (repair of D14): the linear system is solved component by component

  `isLcEquivalentR` is the model of the repaired `is_lc_equivalent`; `isLcEquivalent` (sections 3–4) is then the model of
  `_is_lc_equivalent_component`, the unchanged old body that the repaired function calls on the induced pair of every
  connected component.  Before the repair is applied to the repository `isLcEquivalent` is the model of `is_lc_equivalent`
  itself; the harness probes the implementation and compares it with the matching model function. -/

/-- **`_connected_components` returns the connected components**: every vertex lies in a listed set, different listed sets
    are disjoint, and each listed set is the set of vertices reachable from one of its vertices (`Reach`: paths of edges
    between vertices `< n`) -/
theorem connected_components_are_the_reachability_classes (n : Nat) (A : Adj) (hA : Simple n A) :
    (∀ v, v < n → ∃ c ∈ connectedComponents n A, v ∈ c) ∧
    (connectedComponents n A).Pairwise (fun c1 c2 => ∀ v, v ∈ c1 → v ∉ c2) ∧
    ∀ c ∈ connectedComponents n A, ∃ s, s < n ∧ ∀ x, x ∈ c ↔ x < n ∧ Reach n A s x := by
  obtain ⟨h1, h2⟩ := connectedComponents_spec n A hA.1
  refine ⟨h2, h1.disjoint, fun c hc => ?_⟩
  obtain ⟨s, hs, e⟩ := h1.isClass c hc
  exact ⟨s, hs, fun x => by rw [e]; exact mem_componentOf n A s hs x⟩

/-- **local complementation never joins or splits connected components**: graphs in the same LC orbit have the same
    components as vertex sets — literally the same list from `_connected_components` (every n) -/
theorem components_are_lc_invariant (n : Nat) (A B : Adj) (hA : Simple n A) (h : SameOrbit n A B) :
    connectedComponents n A = connectedComponents n B := by
  obtain ⟨vs, hvs, hB⟩ := h
  exact components_lc_invariant n A B hA vs hvs hB

/-- non-vacuity: two disjoint edges have the components `{0, 1}`, `{2, 3}`; the path `0–1–2–3` and the graph two
    complementations away (a concrete pair in one orbit, both connected) have the single component `{0, 1, 2, 3}` -/
example : connectedComponents 4 twoK2.f = [[0, 1], [2, 3]] := by decide
example : connectedComponents 4 (fun i j => decide (i + 1 = j ∨ j + 1 = i)) = [[0, 1, 2, 3]] ∧
    connectedComponents 4 (applySeq (fun i j => decide (i + 1 = j ∨ j + 1 = i)) [1, 2]) = [[0, 1, 2, 3]] := by decide

/-- **a local Clifford between two graphs with the same components is exactly one local Clifford per component**: `q`
    satisfies every equation of the system for `(A, B)` with every block invertible iff, for every component `c`, the
    restriction of `q` to `c` does so for the induced pair `(A[c], B[c])`.  ⇐ is the block-diagonal assembly the repaired
    function performs, ⇒ is restriction (used for the `no` answers) -/
theorem block_diagonal_solution_iff (n : Nat) (A B : Adj) (hA : Simple n A) (hB : Simple n B)
    (hc : connectedComponents n A = connectedComponents n B) (q : Nat → Bool) :
    ((∀ j k, j < n → k < n → equation n A B q j k = false) ∧ ∀ m, m < n → detQ q m = true) ↔
      ∀ c ∈ connectedComponents n A,
        (∀ i i', i < c.length → i' < c.length →
          equation c.length (subAdj A c) (subAdj B c) (restrictQ q c) i i' = false) ∧
        ∀ i, i < c.length → detQ (restrictQ q c) i = true := by
  obtain ⟨hPa, hCa, _⟩ := connectedComponents_partition n A hA.1
  obtain ⟨_, hCb, _⟩ := connectedComponents_partition n B hB.1
  exact block_solution_iff n A B _ q hPa hCa (by rw [hc]; exact hCb)

/-- **soundness of `yes` for the repaired function**, both modes, every search path in every component: the assembled `Q`
    has `4 n` entries, satisfies every equation of the system for the whole pair, and every block is invertible -/
theorem repaired_yes_returns_a_valid_clifford (a b : BMat) (mode : Mode) (draws : List (List Bool)) (out : EqOutR)
    (q : List Bool) (hab : a.r = b.r) (ha : Simple a.r a.f) (hb : Simple b.r b.f)
    (e : isLcEquivalentR a b mode draws = .ok out) (hq : out.sol = some q) :
    q.length = 4 * a.r ∧ (∀ j k, j < a.r → k < a.r → equation a.r a.f b.f (vget q) j k = false) ∧
    isValidClifford a.r q = true :=
  isLcEquivalentR_yes a b mode draws out q ha (by rw [hab]; exact hb) e hq

/-- hence **a `yes` of the repaired function means that the graphs are in the same LC orbit** (via the constructive
    direction `valid_clifford_iff_same_orbit`: the sequence of `lc_graph_operations` for the assembled `Q`) -/
theorem repaired_yes_means_same_orbit (a b : BMat) (mode : Mode) (draws : List (List Bool)) (out : EqOutR) (q : List Bool)
    (hn : 0 < a.r) (hab : a.r = b.r) (ha : Simple a.r a.f) (hb : Simple b.r b.f)
    (e : isLcEquivalentR a b mode draws = .ok out) (hq : out.sol = some q) : SameOrbit a.r a.f b.f := by
  obtain ⟨_, h2, h3⟩ := repaired_yes_returns_a_valid_clifford a b mode draws out q hab ha hb e hq
  exact (valid_clifford_iff_same_orbit a.r a.f b.f hn ha (by rw [hab]; exact hb)).mp ⟨q, h2, h3⟩

/-- **LC-equivalent graphs are LC-equivalent component by component**: the induced subgraphs on every common component are
    in the same LC orbit (restriction of the local Clifford, then the constructive direction on the component) -/
theorem same_orbit_restricts_to_components (n : Nat) (A B : Adj) (hA : Simple n A) (hB : Simple n B)
    (h : SameOrbit n A B) (c : List Nat) (hc : c ∈ connectedComponents n A) :
    SameOrbit c.length (subAdj A c) (subAdj B c) := by
  have hcomps := components_are_lc_invariant n A B hA h
  obtain ⟨v, hv, hval⟩ := lc_equivalent_graphs_have_a_valid_clifford n A B hA h
  obtain ⟨w, hw, hwv⟩ := restrict_valid n A B hA hB hcomps v hv hval c hc
  obtain ⟨hpos, hlt, hsa, _⟩ := component_facts n A hA c hc
  exact (valid_clifford_iff_same_orbit c.length _ _ hpos hsa (sub_simple n B hB c hlt)).mp ⟨w, hw, hwv⟩

/-- **LC equivalence is decided component by component** (the mathematical content of the repair, both directions, every n):
    two graphs are in the same LC orbit iff they have the same connected components as vertex sets and the induced subgraphs
    on every component are in the same LC orbit.  (⇒ `components_are_lc_invariant`, `same_orbit_restricts_to_components`;
    ⇐ block-diagonal assembly of one valid local Clifford per component, then the constructive direction on the whole pair.)
    So the repaired function is complete exactly as far as `_is_lc_equivalent_component` is complete on connected graphs. -/
theorem same_orbit_iff_componentwise (n : Nat) (A B : Adj) (hn : 0 < n) (hA : Simple n A) (hB : Simple n B) :
    SameOrbit n A B ↔
      connectedComponents n A = connectedComponents n B ∧
        ∀ c ∈ connectedComponents n A, SameOrbit c.length (subAdj A c) (subAdj B c) := by
  constructor
  · intro h
    exact ⟨components_are_lc_invariant n A B hA h, fun c hc => same_orbit_restricts_to_components n A B hA hB h c hc⟩
  · rintro ⟨hcomps, hsub⟩
    apply (valid_clifford_iff_same_orbit n A B hn hA hB).mp
    apply assemble_valid n A B hA hB hcomps
    intro c hc
    obtain ⟨_, _, hsa, _⟩ := component_facts n A hA c hc
    exact lc_equivalent_graphs_have_a_valid_clifford c.length _ _ hsa (hsub c hc)

/-- **a `no` of the repaired function is right whenever it is taken because the component partitions differ, or on the
    full-rank shortcut / after the exhaustive search (dimension ≤ 4) in the failing component** -/
theorem repaired_no_means_not_lc_equivalent (a b : BMat) (mode : Mode) (draws : List (List Bool)) (out : EqOutR)
    (hab : a.r = b.r) (ha : Simple a.r a.f) (hb : Simple b.r b.f)
    (e : isLcEquivalentR a b mode draws = .ok out) (hsol : out.sol = none)
    (hp : ∀ o ∈ out.parts, o.sol = none → o.path = "all-combinations" ∨ o.path = "full-rank") :
    ¬ SameOrbit a.r a.f b.f := by
  intro horb
  have hb' : Simple a.r b.f := by rw [hab]; exact hb
  rcases isLcEquivalentR_no a b mode draws out e hsol with hne | ⟨_, c, hc, o, d, hmem, ho, hnone⟩
  · exact hne (components_are_lc_invariant a.r a.f b.f ha horb)
  · obtain ⟨hpos, _, _, _⟩ := component_facts a.r a.f ha c hc
    have hsub := same_orbit_restricts_to_components a.r a.f b.f ha hb' horb c hc
    obtain ⟨w, hw, hwv⟩ := lc_equivalent_graphs_have_a_valid_clifford c.length _ _ (component_facts a.r a.f ha c hc).2.2.1 hsub
    have : isValidClifford c.length w = false := (hp o hmem hnone).elim
      (fun h1 => no_is_exhaustive_for_small_dimension (subMat a c) (subMat b c) mode d o hpos ho hnone h1 w hw)
      (fun h2 => no_is_right_on_full_rank (subMat a c) (subMat b c) mode d o hpos ho h2 w hw)
    rw [this] at hwv
    exact absurd hwv (by decide)

/-- **the decision property for the repaired function, proved wherever no appeal to the pair-sum shortcut is made**: on every
    run that says `yes`, and on every run that says `no` because the partitions differ or with the failing component on the
    full-rank / exhaustive path, the answer is `yes` exactly when one graph is reachable from the other by local
    complementations.  This now covers `2K₂`, `K₂ + K₁`, and every graph all of whose components have a solution space of
    dimension ≤ 4 (each isolated vertex: 3, each isolated edge: 4) — the inputs of the known finding D14 -/
theorem decides_lc_equivalence_repaired_off_the_shortcut (a b : BMat) (mode : Mode) (draws : List (List Bool))
    (out : EqOutR) (hn : 0 < a.r) (hab : a.r = b.r) (ha : Simple a.r a.f) (hb : Simple b.r b.f)
    (e : isLcEquivalentR a b mode draws = .ok out)
    (hp : ∀ o ∈ out.parts, o.sol = none → o.path = "all-combinations" ∨ o.path = "full-rank") :
    out.sol.isSome = true ↔ SameOrbit a.r a.f b.f := by
  constructor
  · intro hs
    cases hq : out.sol with
    | none => rw [hq] at hs; cases hs
    | some q => exact repaired_yes_means_same_orbit a b mode draws out q hn hab ha hb e hq
  · intro horb
    cases hq : out.sol with
    | some q => rfl
    | none => exact absurd horb (repaired_no_means_not_lc_equivalent a b mode draws out hab ha hb e hq hp)

/-- a connected graph: every vertex is reachable from every vertex -/
example : Connected 3 K3.f := by
  intro i j hi hj
  by_cases e : i = j
  · rw [e]; exact Reach.refl _
  · exact Reach.single hi hj (by simp only [K3, BMat.ofAdj]; exact decide_eq_true e)

/-- **the remaining hypothesis, stated precisely** (Van den Nest–Dehaene–De Moor, Phys. Rev. A 70, 034302, Section IV: "if the
    solution space has dimension > 4 it suffices to test the sums of two basis vectors"): for *connected* graphs, a `no` of the
    pair-sum search of the unchanged algorithm is right.  Not proved here.  It is false without `Connected`
    (`shortcut_incomplete_2K2`).  Evidence by testing only: no counterexample among all 4 304 188 ordered pairs of
    connected labelled graphs on 6 vertices inside an LC orbit (and all on ≤ 5), nor among 120 000 random pairs on ≤ 12
    vertices biased to large solution spaces (handoff/repairs/d14) -/
def shortcut_complete_on_connected_statement : Prop :=
  ∀ (a b : BMat) (draws : List Bool) (out : EqOut), 0 < a.r → a.r = b.r → Simple a.r a.f → Simple b.r b.f →
    Connected a.r a.f → isLcEquivalent a b .det draws = .ok out → out.path = "pair-sums" → out.sol = none →
    ¬ SameOrbit a.r a.f b.f

/-- the decision property as worded, for the repaired function in deterministic mode -/
def decides_lc_equivalence_repaired_statement : Prop :=
  ∀ (a b : BMat) (draws : List (List Bool)) (out : EqOutR), 0 < a.r → a.r = b.r → Simple a.r a.f → Simple b.r b.f →
    isLcEquivalentR a b .det draws = .ok out → (out.sol.isSome = true ↔ SameOrbit a.r a.f b.f)

/-- **the repaired `is_lc_equivalent` decides LC equivalence, relative to the completeness of the pair-sum shortcut on
    connected graphs**.  Proved: `yes` ⇒ same orbit; `no` ⇒ different orbits when the partitions differ (components are an
    orbit invariant), when the failing component is on the full-rank / exhaustive path (restriction of a valid `Q` +
    exhaustiveness), and — the only use of the hypothesis — when the failing component is on the pair-sum path: the induced
    graph of a component is simple and *connected* (`sub_connected`), and an LC-equivalent pair restricts to LC-equivalent
    induced pairs (`same_orbit_restricts_to_components`).  Missing for the unconditional statement: exactly
    `shortcut_complete_on_connected_statement`.  (`mode = "random"` cannot be complete: 1000 random trials may all miss.) -/
theorem decides_lc_equivalence_repaired_partial (hshort : shortcut_complete_on_connected_statement) :
    decides_lc_equivalence_repaired_statement := by
  intro a b draws out hn hab ha hb e
  have hb' : Simple a.r b.f := by rw [hab]; exact hb
  constructor
  · intro hs
    cases hq : out.sol with
    | none => rw [hq] at hs; cases hs
    | some q => exact repaired_yes_means_same_orbit a b .det draws out q hn hab ha hb e hq
  · intro horb
    cases hq : out.sol with
    | some q => rfl
    | none =>
      exfalso
      rcases isLcEquivalentR_no a b .det draws out e hq with hne | ⟨_, c, hc, o, d, _, ho, hnone⟩
      · exact hne (components_are_lc_invariant a.r a.f b.f ha horb)
      · obtain ⟨hpos, hlt, hsa, hconn⟩ := component_facts a.r a.f ha c hc
        have hsb : Simple c.length (subAdj b.f c) := sub_simple a.r b.f hb' c hlt
        have hsub := same_orbit_restricts_to_components a.r a.f b.f ha hb' horb c hc
        obtain ⟨w, hw, hwv⟩ := lc_equivalent_graphs_have_a_valid_clifford c.length _ _ hsa hsub
        rcases isLcEquivalent_paths (subMat a c) (subMat b c) .det d o ho with h1 | h1 | h1 | h1
        · have : isValidClifford c.length w = false :=
            no_is_right_on_full_rank (subMat a c) (subMat b c) .det d o hpos ho h1 w hw
          rw [this] at hwv; exact absurd hwv (by decide)
        · have : isValidClifford c.length w = false :=
            no_is_exhaustive_for_small_dimension (subMat a c) (subMat b c) .det d o hpos ho hnone h1 w hw
          rw [this] at hwv; exact absurd hwv (by decide)
        · exact absurd h1.2 (by decide)
        · exact hshort (subMat a c) (subMat b c) d o hpos rfl hsa hsb hconn ho h1.1 hnone hsub

/-- what the model of the repaired function answers in deterministic mode, as data -/
def answerR (a b : BMat) : Option (Option (List Bool)) :=
  match isLcEquivalentR a b .det [] with
  | .ok o => some o.sol
  | .error _ => none

set_option maxRecDepth 100000 in
/-- **the witnesses of D14 are answered `yes` by the repaired function** (kernel-checked; a Hadamard on every vertex, as the
    patched implementation returns): two disjoint edges compared with themselves … -/
theorem repaired_2K2_yes :
    answerR twoK2 twoK2 = some (some [false, true, true, false, false, true, true, false, false, true, true, false,
      false, true, true, false]) := by decide +kernel

set_option maxRecDepth 100000 in
/-- … and an edge plus an isolated vertex (the isolated vertex gets the first valid block of its 3-dimensional space, `P H P`) -/
theorem repaired_K2K1_yes : answerR K2K1 K2K1 = some (some [false, true, true, false, false, true, true, false, true, false, false, true]) := by
  decide +kernel

/-- `K₄` plus an isolated vertex: the component `K₄` has a solution space of dimension 5, so this run goes through the
    pair-sum shortcut on a connected component -/
def K4K1 : BMat := BMat.ofAdj 5 (fun i j => decide (i ≠ j) && decide (i < 4) && decide (j < 4))

/-- the search paths of the components examined by the model of the repaired function, and its answer -/
def pathsR (a b : BMat) : Option (List String × Option (List Bool)) :=
  match isLcEquivalentR a b .det [] with
  | .ok o => some (o.parts.map (fun p => p.path), o.sol)
  | .error _ => none

set_option maxRecDepth 100000 in
/-- non-vacuity of the pair-sum case of `decides_lc_equivalence_repaired_partial` (kernel-checked): a `yes` found by the
    shortcut on the connected component `K₄` -/
theorem repaired_K4K1_paths : pathsR K4K1 K4K1 = some (["pair-sums", "all-combinations"],
    some [false, true, true, false, true, false, false, true, false, true, true, false, true, false, false, true, true, false, false, true]) := by
  decide +kernel

/-- **`find_lc_operations` over the repaired function**: whatever it returns is a list of vertices whose local
    complementations take the first graph to the second; and it does return whenever the repaired `is_lc_equivalent`
    says yes -/
theorem find_lc_operations_correct_repaired (fuel : Nat) (a b : BMat) (mode : Mode) (draws : List (List Bool))
    (hn : 0 < a.r) (hab : a.r = b.r) (ha : Simple a.r a.f) (hb : Simple b.r b.f) :
    (∀ seq, findLcOperationsR fuel a b mode draws = .ok seq →
      (∀ v ∈ seq, v < a.r) ∧ EqAdj a.r (applySeq a.f seq) b.f) ∧
    (∀ out, isLcEquivalentR a b mode draws = .ok out → out.sol.isSome = true → a.r + 1 ≤ fuel →
      ∃ seq, findLcOperationsR fuel a b mode draws = .ok seq) := by
  have hb' : Simple a.r b.f := by rw [hab]; exact hb
  constructor
  · intro seq e
    unfold findLcOperationsR at e
    cases h : isLcEquivalentR a b mode draws with
    | error x => rw [h] at e; cases e
    | ok out =>
      rw [h] at e
      dsimp only at e
      cases hs : out.sol with
      | none => rw [hs] at e; cases e
      | some q =>
        rw [hs] at e
        obtain ⟨_, h2, h3⟩ := repaired_yes_returns_a_valid_clifford a b mode draws out q hab ha hb h hs
        have := lc_graph_operations_reaches_the_target fuel a.r a.f b.f q seq ha hb' h2 h3 e
        exact ⟨this.2, this.1⟩
  · intro out h hs hf
    cases hq : out.sol with
    | none => rw [hq] at hs; cases hs
    | some q =>
      obtain ⟨_, h2, h3⟩ := repaired_yes_returns_a_valid_clifford a b mode draws out q hab ha hb h hq
      obtain ⟨seq, e⟩ := lc_graph_operations_terminates fuel a.r a.f b.f q hn ha hb' h2 h3 hf
      refine ⟨seq, ?_⟩
      unfold findLcOperationsR
      rw [h]
      dsimp only
      rw [hq]
      exact e

/-- **the gates returned by `lc_check(A, B, validate=True)` over the repaired function transform the first graph state
    exactly into the second** (same statement and proof as `lc_check_gates_map_the_state`) -/
theorem lc_check_gates_map_the_state_repaired (a b : BMat) (gates : List (String × Nat)) (hA : Simple a.r a.f)
    (e : lcCheckR a b true = .ok (true, gates)) :
    ∃ t, runGates (graphTab a.r a.f) gates = .ok t ∧ t.n = a.r ∧ t.Valid ∧
      ∀ q, q < a.r → InSpan t.n t.n t.stab (graphGen b.f q) :=
  lcCheckR_sound a b gates hA e

/-- what the model's `lc_check(validate=True)` over the repaired function answers, as data -/
def checkAnswerR (a b : BMat) : Option (Bool × List (String × Nat)) :=
  match lcCheckR a b true with
  | .ok r => some r
  | .error _ => none

set_option maxRecDepth 100000 in
/-- non-vacuity (kernel-checked): for two disjoint edges compared with themselves the checked path succeeds with a Hadamard
    on every qubit … which maps `|2K₂⟩` to itself (`H ⊗ H` fixes the two-qubit graph state) -/
theorem lc_check_2K2_repaired : checkAnswerR twoK2 twoK2 = some (true, [("H", 0), ("H", 1), ("H", 2), ("H", 3)]) := by
  decide +kernel

/-! ## 6. Totality: `is_lc_equivalent` returns (no internal assertion can fire)

  Every decision theorem above has a hypothesis `… = .ok out` ("the function returned").  It is discharged here for every
  input of the property's quantifier (helper lemmas: Proofs/LCTotal{Ech,Cols,Inv,Basis,R}.lean, Proofs/LCTotal.lean, Proofs/LCGates{,2}.lean, Proofs/LCTableaux{,2}.lean). -/

/-- **the whole-graph algorithm (`is_lc_equivalent` before the repair of D14, `_is_lc_equivalent_component` after it) is
    total**: for two adjacency matrices of the same size `n ≥ 1`, in deterministic or random mode and for every value of the
    random draws, it returns.  None of its three assertions can fire: the non-zero rows of `row_reduction`'s output are exactly
    the `rank` pivot rows (echelon form, proved by loop invariants); `_col_finder` returns exactly the `4n − rank` non-pivot
    columns; the pivot-column matrix is upper unitriangular, so the exact GF(2) inverse exists and is two-sided; and every
    vector spliced together by `_solution_basis_finder` has `4n` entries and solves the reduced system (`A(A⁻¹b) + b = 0`).
    The rank is at least 1 because equation `(0, 0)` has the coefficient 1 at `b_0`. -/
theorem is_lc_equivalent_component_total (a b : BMat) (mode : Mode) (draws : List Bool) (hn : 0 < a.r) (hab : a.r = b.r)
    (hmode : mode ≠ .other) : ∃ out, isLcEquivalent a b mode draws = .ok out :=
  isLcEquivalent_total a b mode draws hn hab hmode

/-- **the repaired `is_lc_equivalent` is total** on simple graphs of equal size (every component is non-empty, so the theorem
    above applies to every induced pair) -/
theorem is_lc_equivalent_total (a b : BMat) (mode : Mode) (draws : List (List Bool)) (hab : a.r = b.r)
    (ha : Simple a.r a.f) (hmode : mode ≠ .other) : ∃ out, isLcEquivalentR a b mode draws = .ok out :=
  isLcEquivalentR_total a b mode draws hab ha hmode

/-- hence **the repaired function returns an answer and the answer is right, off the shortcut**: for simple graphs of equal size
    `n ≥ 1`, both modes: it returns some `out`; a `yes` always means "same LC orbit"; and whenever no component was answered `no`
    on the pair-sum / random path, `yes` ⇔ same orbit -/
theorem is_lc_equivalent_returns_and_is_right_off_the_shortcut (a b : BMat) (mode : Mode) (draws : List (List Bool))
    (hn : 0 < a.r) (hab : a.r = b.r) (ha : Simple a.r a.f) (hb : Simple b.r b.f) (hmode : mode ≠ .other) :
    ∃ out, isLcEquivalentR a b mode draws = .ok out ∧ (out.sol.isSome = true → SameOrbit a.r a.f b.f) ∧
      ((∀ o ∈ out.parts, o.sol = none → o.path = "all-combinations" ∨ o.path = "full-rank") →
        (out.sol.isSome = true ↔ SameOrbit a.r a.f b.f)) := by
  obtain ⟨out, e⟩ := is_lc_equivalent_total a b mode draws hab ha hmode
  refine ⟨out, e, fun hs => ?_, fun hp => decides_lc_equivalence_repaired_off_the_shortcut a b mode draws out hn hab ha hb e hp⟩
  cases hq : out.sol with
  | none => rw [hq] at hs; cases hs
  | some q => exact repaired_yes_means_same_orbit a b mode draws out q hn hab ha hb e hq

/-- and, in deterministic mode, **relative to the completeness of the pair-sum shortcut on connected graphs, the repaired
    function returns and decides LC equivalence** — the property as worded, with the single remaining hypothesis -/
theorem is_lc_equivalent_decides_partial (hshort : shortcut_complete_on_connected_statement) (a b : BMat)
    (draws : List (List Bool)) (hn : 0 < a.r) (hab : a.r = b.r) (ha : Simple a.r a.f) (hb : Simple b.r b.f) :
    ∃ out, isLcEquivalentR a b .det draws = .ok out ∧ (out.sol.isSome = true ↔ SameOrbit a.r a.f b.f) := by
  obtain ⟨out, e⟩ := is_lc_equivalent_total a b .det draws hab ha (by decide)
  exact ⟨out, e, decides_lc_equivalence_repaired_partial hshort a b draws out hn hab ha hb e⟩

/-- `find_lc_operations` over the repaired function returns a correct sequence exactly when the graphs are LC-equivalent … on
    every run off the shortcut (with fuel `n + 1` for the two loops of `lc_graph_operations`) -/
theorem find_lc_operations_returns_iff_yes (a b : BMat) (mode : Mode) (draws : List (List Bool))
    (hn : 0 < a.r) (hab : a.r = b.r) (ha : Simple a.r a.f) (hb : Simple b.r b.f) (hmode : mode ≠ .other) :
    ∃ out, isLcEquivalentR a b mode draws = .ok out ∧
      (out.sol.isSome = true ↔ ∃ seq, findLcOperationsR (a.r + 1) a b mode draws = .ok seq) := by
  obtain ⟨out, e⟩ := is_lc_equivalent_total a b mode draws hab ha hmode
  refine ⟨out, e, fun hs => ?_, fun ⟨seq, hseq⟩ => ?_⟩
  · exact (find_lc_operations_correct_repaired (a.r + 1) a b mode draws hn hab ha hb).2 out e hs (Nat.le_refl _)
  · unfold findLcOperationsR at hseq
    rw [e] at hseq
    dsimp only at hseq
    cases hq : out.sol with
    | none => rw [hq] at hseq; cases hseq
    | some q => rfl

/-! ## 7. The gates, unconditionally: no appeal to the validation inside `lc_check`

  Section 4 covers the *checked* path (`lc_check_gates_map_the_state`: if the validation passes, the gates are right).  Here
  the validation is proved to pass, and `_phase_correction` (modelled at specification level: the `Z` gates on the qubits whose
  generator carries the sign `−`) is proved to fix every sign: for **every** valid `Q` the gate list maps `|A⟩` exactly onto
  `|B⟩`.  Helper lemmas: Proofs/LCGates.lean, Proofs/LCGates2.lean (on top of the group-level semantics of C07). -/

/-- **the gates of any valid local Clifford map the first graph state onto the second up to signs**: running the gates that
    `local_clifford_ops(Q)` names (each block's word, rightmost factor first) on the graph-state tableau of `A` never fails,
    gives a valid tableau with Hermitian stabilizers, and `K_k(B)` or `−K_k(B)` lies in its stabilizer group for every `k` —
    because the symplectic product of `K_k(B)` with the image of `K_i(A)` *is* equation `(i, k)` of the linear system -/
theorem gates_of_a_valid_clifford_map_the_state_up_to_signs (n : Nat) (A B : Adj) (hA : Simple n A) (hB : Simple n B)
    (q : List Bool) (hq : ∀ j k, j < n → k < n → equation n A B (vget q) j k = false) (hv : isValidClifford n q = true) :
    ∃ t, runGates (graphTab n A) (qGates n q) = .ok t ∧ t.n = n ∧ t.Valid ∧ t.StabReal ∧
      ∀ k, k < n → TabSpec.Grp t (graphGen B k) ∨ TabSpec.Grp t (TabSpec.negate (graphGen B k)) :=
  gates_map_state_up_to_signs n A B hA hB q hq hv

/-- **… and with the phase correction exactly**: the signs are all found, the `Z` corrections are the phase correction, the
    total gate list runs, and the resulting tableau is the graph state of `B` with every sign `+` (`isGraphState`, i.e. every
    `+K_k(B)` is in the stabilizer group: `lc_check_gates_map_the_state`) -/
theorem gates_with_phase_correction_map_the_state (n : Nat) (A B : Adj) (hA : Simple n A) (hB : Simple n B)
    (q : List Bool) (hq : ∀ j k, j < n → k < n → equation n A B (vget q) j k = false) (hv : isValidClifford n q = true) :
    ∃ t1 zs t2, runGates (graphTab n A) (qGates n q) = .ok t1 ∧ phaseCorrection t1 B = some zs ∧
      runGates (graphTab n A) (qGates n q ++ zs) = .ok t2 ∧ isGraphState t2 B = true :=
  converter_core n A B hA hB q hq hv

/-- **`lc_check` is total and agrees with `is_lc_equivalent`, with or without validation** (repaired function): on simple
    graphs of equal size it returns `(True, gates)` exactly when `is_lc_equivalent` says yes — the assertion of
    `converter_gate_list`, the warning of the validation and every exception are excluded — and `(False, [])` otherwise; after a
    `yes` the gates are those of the returned `Q` followed by `Z` corrections, and they transform the graph state of `A`
    exactly into the graph state of `B` -/
theorem lc_check_total_and_right (a b : BMat) (validate : Bool) (hab : a.r = b.r) (ha : Simple a.r a.f)
    (hb : Simple b.r b.f) :
    ∃ out, isLcEquivalentR a b .det [] = .ok out ∧
      ((out.sol = none ∧ lcCheckR a b validate = .ok (false, [])) ∨
       (∃ s zs, out.sol = some s ∧ lcCheckR a b validate = .ok (true, qGates a.r s ++ zs) ∧
          ∃ t, runGates (graphTab a.r a.f) (qGates a.r s ++ zs) = .ok t ∧ t.n = a.r ∧ t.Valid ∧
            ∀ k, k < a.r → InSpan t.n t.n t.stab (graphGen b.f k))) := by
  obtain ⟨out, e⟩ := is_lc_equivalent_total a b .det [] hab ha (by decide)
  refine ⟨out, e, ?_⟩
  cases hs : out.sol with
  | none => exact Or.inl ⟨rfl, lcCheckR_of_no a b out e hs validate⟩
  | some s =>
    obtain ⟨zs, _, hc⟩ := lcCheckR_of_yes a b out s hab ha hb e hs
    refine Or.inr ⟨s, zs, rfl, hc validate, ?_⟩
    exact lc_check_gates_map_the_state_repaired a b _ ha (hc true)

/-- the same for the whole-graph algorithm (`lc_check` before the repair of D14) -/
theorem lc_check_total_and_right_unrepaired (a b : BMat) (validate : Bool) (hn : 0 < a.r) (hab : a.r = b.r)
    (ha : Simple a.r a.f) (hb : Simple b.r b.f) (out : EqOut) (s : List Bool)
    (e : isLcEquivalent a b .det [] = .ok out) (hs : out.sol = some s) :
    ∃ zs, lcCheck a b validate = .ok (true, qGates a.r s ++ zs) ∧
      ∃ t, runGates (graphTab a.r a.f) (qGates a.r s ++ zs) = .ok t ∧ t.n = a.r ∧ t.Valid ∧
        ∀ k, k < a.r → InSpan t.n t.n t.stab (graphGen b.f k) := by
  obtain ⟨zs, _, hc⟩ := lcCheck_of_yes a b out s hn hab ha hb e hs
  exact ⟨zs, hc validate, lc_check_gates_map_the_state a b _ ha (hc true)⟩

/-! ## 8. Tableau inputs: `lc_check` on two stabilizer states

  `lc_check(state1, state2)` converts both states with `state_to_graph` (property C08), runs `converter_gate_list` on the two
  graphs, and returns `gates1 + gate_list + inversed_gates2` (`gates2` reversed, `P ↔ P_dag`).  C08 proves that `gates_i` maps
  `state_i` onto `|graph_i⟩`; section 7 proves that `gate_list` maps `|graph1⟩` onto `|graph2⟩`; the composition
  (Proofs/LCTableaux.lean, images of signed groups under gate lists) gives the statement for tableaux.  The assembly of the three
  lists itself (three list operations of the Python) is compared per input by the harness oracle. -/

/-- **the total gate list of `lc_check` maps the first stabilizer state exactly onto the second** (every n, every pair of
    stabilizer tableaux on which `state_to_graph` returns — by C08 `state_to_graph_returns_iff_state`: every stabilizer state):
    with `(g1, G1) = state_to_graph(state1)`, `(g2, G2) = state_to_graph(state2)` and `lc_check(g1, g2) = (True, L)`, running
    `G1 ++ L ++ reversed(G2 with P ↔ P_dag)` on `state1` gives a tableau that generates exactly the signed stabilizer group of
    `state2` -/
theorem lc_check_on_stabilizer_states_maps_the_state (t1 t2 : STab) (hreal1 : ∀ i, i < t1.n → (t1.row i).ip = false)
    (hreal2 : ∀ i, i < t2.n → (t2.row i).ip = false) (hn : t1.n = t2.n) (g1 g2 : BMat) (G1 G2 : List Gate)
    (e1 : S2G.stateToGraph t1 = .ok (g1, G1)) (e2 : S2G.stateToGraph t2 = .ok (g2, G2))
    (validate : Bool) (L : List (String × Nat)) (hL : lcCheckR g1 g2 validate = .ok (true, L)) :
    STab.SpanEq (t1.runCircuit (G1 ++ L.map toGate ++ revCirc G2)) t2 :=
  lc_check_tableaux t1 t2 hreal1 hreal2 hn g1 g2 G1 G2 e1 e2 validate L hL

/-- and the decision on stabilizer states is the decision on their graphs: `lc_check` on the two graphs returns, and says `True`
    exactly when `is_lc_equivalent` does on the graphs `state_to_graph` chose -/
theorem lc_check_on_stabilizer_states_decides (t1 t2 : STab) (hreal1 : ∀ i, i < t1.n → (t1.row i).ip = false)
    (hreal2 : ∀ i, i < t2.n → (t2.row i).ip = false) (hn : t1.n = t2.n) (g1 g2 : BMat) (G1 G2 : List Gate)
    (e1 : S2G.stateToGraph t1 = .ok (g1, G1)) (e2 : S2G.stateToGraph t2 = .ok (g2, G2)) (validate : Bool) :
    ∃ out, isLcEquivalentR g1 g2 .det [] = .ok out ∧
      ((out.sol = none ∧ lcCheckR g1 g2 validate = .ok (false, [])) ∨
       (∃ L, out.sol.isSome = true ∧ lcCheckR g1 g2 validate = .ok (true, L) ∧
          STab.SpanEq (t1.runCircuit (G1 ++ L.map toGate ++ revCirc G2)) t2)) := by
  have hr1 := stateToGraphWith_r _ t1 g1 G1 e1
  have hr2 := stateToGraphWith_r _ t2 g2 G2 e2
  obtain ⟨_, _, sym1, irr1⟩ := stateToGraphWith_sound S2G.gf2InvF t1 hreal1 g1 G1 e1
  obtain ⟨_, _, sym2, irr2⟩ := stateToGraphWith_sound S2G.gf2InvF t2 hreal2 g2 G2 e2
  obtain ⟨out, e, h⟩ := lc_check_total_and_right g1 g2 validate (by rw [hr1, hr2, hn])
    (by rw [hr1]; exact ⟨sym1, irr1⟩) (by rw [hr2]; exact ⟨sym2, irr2⟩)
  refine ⟨out, e, ?_⟩
  rcases h with h | ⟨s, zs, hs, hc, _⟩
  · exact Or.inl h
  · exact Or.inr ⟨_, by rw [hs]; rfl, hc,
      lc_check_tableaux t1 t2 hreal1 hreal2 hn g1 g2 G1 G2 e1 e2 validate _ hc⟩

/-- **`lc_check` on two stabilizer tableaux, as modelled function by function** (`lcCheckStates`: `state_to_graph` twice,
    `converter_gate_list` inside the bare `try`, `gates1 + gate_list + inversed_gates2`, validation by canonical forms; compared
    exactly with the implementation on every tableau pair of the run): whenever it returns `(True, total)`, with or without
    validation, `total` maps the first state exactly onto the second -/
theorem lc_check_on_tableaux_sound (t1 t2 : STab) (hreal1 : ∀ i, i < t1.n → (t1.row i).ip = false)
    (hreal2 : ∀ i, i < t2.n → (t2.row i).ip = false) (hn : t1.n = t2.n) (validate : Bool) (total : List Gate)
    (h : lcCheckStates t1 t2 validate = .ok (true, total)) : STab.SpanEq (t1.runCircuit total) t2 :=
  lcCheckStates_sound t1 t2 hreal1 hreal2 hn validate total h

/-- **`lc_check` on two stabilizer states is total and right** (every n ≥ 1, validation on or off): for two stabilizer states —
    commuting, real, independent generators, i.e. exactly the inputs on which `state_to_graph` returns
    (C08 `state_to_graph_returns_iff_state`) — the modelled `lc_check` returns `(False, [])` or `(True, total)`: none of the
    assertions of `state_to_graph`, `converter_gate_list`, `canonical_form` fires and the validation `Warning` cannot be raised
    (a gate list maps independent generators to independent generators, `indep_runCircuit`; equal signed groups have equal
    canonical forms); and after `(True, total)` the gate list maps the first state exactly onto the second -/
theorem lc_check_on_stabilizer_states_total_and_right (t1 t2 : STab) (hn1 : 0 < t1.n) (hn : t1.n = t2.n)
    (g1 : t1.Good) (i1 : t1.Indep) (g2 : t2.Good) (i2 : t2.Indep) (validate : Bool) :
    lcCheckStates t1 t2 validate = .ok (false, []) ∨
      ∃ total, lcCheckStates t1 t2 validate = .ok (true, total) ∧ STab.SpanEq (t1.runCircuit total) t2 :=
  lcCheckStates_total t1 t2 hn1 hn g1 i1 g2 i2 validate

/-- the same for mixed inputs, a stabilizer state and a graph (`lc_check(tableau, graph)`, modelled by `lcCheckStateGraph` and
    compared exactly with the implementation): total, and after `(True, total)` the gate list maps the state exactly onto the graph
    state -/
theorem lc_check_on_state_and_graph_total_and_right (t1 : STab) (g2 : BMat) (hn1 : 0 < t1.n) (hr : g2.r = t1.n)
    (hs2 : Simple g2.r g2.f) (g1 : t1.Good) (i1 : t1.Indep) (validate : Bool) :
    lcCheckStateGraph t1 g2 validate = .ok (false, []) ∨
      ∃ total, lcCheckStateGraph t1 g2 validate = .ok (true, total) ∧
        STab.SpanEq (t1.runCircuit total) (graphSTab g2.r g2.f) :=
  lcCheckStateGraph_total t1 g2 hn1 hr hs2 g1 i1 validate

set_option maxRecDepth 100000 in
/-- non-vacuity (kernel-checked): on the pair below the modelled `lc_check` returns `(True, [H 0, H 1, H 1])` — the gate list
    the implementation returns -/
theorem lc_check_on_tableaux_example :
    (match lcCheckStates (graphSTab 2 fun i j => decide (i ≠ j))
        { n := 2, row := fun i => if i = 0 then ⟨fun _ => false, fun _ => true, false, false⟩
                                   else ⟨fun _ => true, fun _ => false, false, false⟩ } true with
      | .ok (yes, total) => yes && total == [Gate.H 0, Gate.H 1, Gate.H 1]
      | .error _ => false) = true := by
  decide +kernel

/-- the two-qubit graph state `|K₂⟩` and the state with generators `ZZ`, `XX` (a Hadamard on qubit 0 away) -/
def bellS : STab := graphSTab 2 (fun i j => decide (i ≠ j))
def ghzS : STab :=
  { n := 2, row := fun i => if i = 0 then ⟨fun _ => false, fun _ => true, false, false⟩ else ⟨fun _ => true, fun _ => false, false, false⟩ }

/-- do the models of `state_to_graph` and of `lc_check` on the two graphs answer as stated? -/
def tableauAnswerIs (t1 t2 : STab) (b1 : String) (E1 : List Gate) (b2 : String) (E2 : List Gate)
    (L0 : List (String × Nat)) : Bool :=
  match S2G.stateToGraph t1, S2G.stateToGraph t2 with
  | .ok (g1, G1), .ok (g2, G2) =>
    match lcCheckR g1 g2 true with
    | .ok (yes, L) => g1.bits == b1 && G1 == E1 && g2.bits == b2 && G2 == E2 && yes && L == L0
    | .error _ => false
  | _, _ => false

set_option maxRecDepth 100000 in
/-- non-vacuity of the hypotheses of the two theorems above (kernel-checked): `state_to_graph` returns on both states (the
    second needs a Hadamard), both graphs are `K₂`, and `lc_check` on the graphs answers `(True, [H 0, H 1])` -/
theorem tableau_example :
    tableauAnswerIs bellS ghzS "0110" [] "0110" [Gate.H 1] [("H", 0), ("H", 1)] = true := by
  decide +kernel

end Graphiq.C09
