/-
  C09 — local-Clifford equivalence of graph states is decided correctly, constructively.

  Property theorems only (helper lemmas live in Proofs/GraphOps.lean, Proofs/LC.lean, Proofs/LCSeq{Step,Loop,Term}.lean and
  Proofs/LC{Comp,Block,Repair}.lean).

  What is proved here for every size n and every input (Tier A of DESIGN §4):
    1. local complementation toggles exactly the pairs of distinct neighbours and is an involution; both implementations
       (`local_comp_graph`'s matrix formula, `Graph.local_complementation`'s pair loop) compute it;
    2. `row_reduction` preserves the solution space; the coefficient matrix of `_coeff_maker` encodes exactly the
       equations of Van den Nest–Dehaene–De Moor;
    3. every `(True, Q)` of `is_lc_equivalent`, in both modes: `Q` solves every equation and every 2×2 block is
       invertible; on the full-rank shortcut and for a solution space of dimension ≤ 4 a `False` means that *no* valid
       `Q` exists (the echelon structure of `row_reduction`'s output is proved for that);
    4. the 2×2 → gate-name table of `local_clifford_ops` is complete and its gates act as the block;
    5. the checked path of `lc_check`: the returned gates, run by the verified tableau semantics on the graph state of A,
       give a valid tableau whose stabilizer group contains every generator of the graph state of B with sign +.
  Refuted, kernel-checked (known finding D14): completeness of the pair-sum shortcut for dimension ≥ 5.
    6. LC-equivalent graphs always admit a valid `Q` (one direction of Van den Nest's theorem, proved here), hence a `no`
       on the full-rank / exhaustive paths means the graphs are in different LC orbits — with no appeal to the literature.
    7. The other direction, also proved here for every n (Proofs/LCSeq{Step,Loop,Term}.lean): for every valid `Q` the
       R-matrix reduction of `lc_graph_operations` terminates (`fuel ≥ n + 1` rounds of each loop) and the vertex sequence
       it returns takes the first graph exactly to the second (`lc_sequence_correct`, `lc_sequence_terminates`); hence
       `yes_means_same_orbit`, `valid_clifford_iff_same_orbit` (Van den Nest–Dehaene–De Moor, Phys. Rev. A 69, 022316,
       Theorem 3 for graph states, both directions) and `decides_lc_equivalence_off_the_shortcut`: the answer is right
       on every run except a `no` on the pair-sum / random paths (D14; `decides_lc_equivalence_refuted`).
  No part of the "same LC orbit" claim is cited any more.
    8. The repair of D14 (section 5; handoff/repairs/d14; helper lemmas in Proofs/LC{Comp,Block,Repair}.lean): the repaired
       `is_lc_equivalent` (`isLcEquivalentR`) compares the connected components of the two graphs and runs the unchanged
       algorithm (`isLcEquivalent`, now `_is_lc_equivalent_component`) on every induced pair.  Proved for every n:
       `_connected_components` returns the reachability classes; components are an invariant of the LC orbit
       (`components_are_lc_invariant`); a vector is a valid `Q` of the whole pair iff every restriction is a valid `Q` of the
       induced pair (`block_diagonal_solution_iff`); every `yes` is right (`repaired_yes_means_same_orbit`); a `no` is right
       when the partitions differ or off the shortcut in the failing component
       (`decides_lc_equivalence_repaired_off_the_shortcut`, which now covers the witnesses of D14: `repaired_2K2_yes`); and
       the decision statement holds in deterministic mode relative to exactly one hypothesis, the completeness of the pair-sum
       shortcut on *connected* graphs (`decides_lc_equivalence_repaired_partial`,
       `shortcut_complete_on_connected_statement` — a claim of the paper, tested exhaustively for connected n ≤ 6, not proved).
  `isLcEquivalent` is the model of `is_lc_equivalent` while the repository is unrepaired and of `_is_lc_equivalent_component`
  afterwards; sections 2–4 are about it in both readings.
-/
import GraphiqModel.Proofs.LC
import GraphiqModel.Proofs.LCSeqTerm
import GraphiqModel.Proofs.LCRepair
namespace Graphiq.C09
open Graphiq Graphiq.LC Graphiq.PRow Graphiq.Tab

/-! ## 1. Local complementation -/

/-- local complementation at `v` toggles precisely the edges among the neighbours of `v` (all n, all graphs) -/
theorem local_complementation_toggles_neighbour_pairs (n : Nat) (A : Adj) (v i j : Nat) (hA : Simple n A) (hi : i < n) :
    localComp A v i j = xor (A i j) (decide (i ≠ j) && (A i v && A v j)) :=
  localComp_toggle A v i j (Or.inl (hA.2 i hi))

/-- local complementation is an involution -/
theorem local_complementation_involution (n : Nat) (A : Adj) (v : Nat) (hv : v < n) (hA : Simple n A) :
    EqAdj n (localComp (localComp A v) v) A :=
  localComp_involution_simple n A v hv hA

/-- it maps simple graphs to simple graphs -/
theorem local_complementation_simple (n : Nat) (A : Adj) (v : Nat) (hv : v < n) (hA : Simple n A) :
    Simple n (localComp A v) :=
  localComp_simple n A v hv hA

/-- `local_comp_graph` (the matrix formula `A(Γ_v A + A_vv Γ_v + I)` with the diagonal zeroed) is the neighbour toggle -/
theorem local_comp_graph_is_local_complementation (n : Nat) (A : Adj) (v : Nat) (hv : v < n) (hA : Simple n A) :
    EqAdj n (localCompGraph n A v) (localComp A v) :=
  localCompGraph_eq n A v hv (hA.2 v hv)

/-- the same for the executed (tabulated) object, with the Python's assertion -/
theorem local_comp_graph_executed (g h : BMat) (v : Nat) (hA : Simple g.r g.f)
    (e : localCompGraph? g v = .ok h) : v < g.r ∧ h.r = g.r ∧ h.c = g.r ∧ EqAdj g.r h.f (localComp g.f v) := by
  unfold localCompGraph? at e
  split at e
  · rename_i hv
    cases e
    refine ⟨hv, rfl, rfl, fun i j hi hj => ?_⟩
    have : (lcStep g v).f i j = localCompGraph g.r g.f v i j := BMat.norm_agree _ i j hi hj
    rw [this]
    exact localCompGraph_eq g.r g.f v hv (hA.2 v hv) i j hi hj
  · cases e

/-- `Graph.local_complementation` (toggle every pair of `itertools.combinations(neighbors, 2)`) is the neighbour toggle -/
theorem graph_local_complementation_is_local_complementation (n : Nat) (A : Adj) (v : Nat) (hv : v < n) (hA : Simple n A) :
    EqAdj n (localCompPairs n A v) (localComp A v) :=
  localCompPairs_eq n A v hv hA

/-- hence the two implementations agree -/
theorem the_two_implementations_agree (n : Nat) (A : Adj) (v : Nat) (hv : v < n) (hA : Simple n A) :
    EqAdj n (localCompGraph n A v) (localCompPairs n A v) :=
  (local_comp_graph_is_local_complementation n A v hv hA).trans
    (graph_local_complementation_is_local_complementation n A v hv hA).symm

/-- the 4-cycle 0–1–2–3 is a simple graph on 4 vertices (non-vacuity of the hypotheses above) -/
def C4 : Adj := fun i j => (i + 1 = j ∨ j + 1 = i ∨ (i = 0 ∧ j = 3) ∨ (i = 3 ∧ j = 0)) ∧ i < 4 ∧ j < 4
example : Simple 4 C4 := by
  refine ⟨fun i j hi hj => ?_, fun i hi => ?_⟩
  · simp only [C4]; apply decide_eq_decide.mpr; omega
  · simp only [C4]; apply decide_eq_false; omega
/-- and complementing it at 0 really adds the chord 1–3 -/
example : localComp C4 0 1 3 = true ∧ C4 1 3 = false := by decide

/-! ## 2. The linear system and its reduction -/

/-- the rows of `_coeff_maker(θ, θ')` are the equations
    `Σ_m θ_mj θ'_mk c_m + θ_jk a_k + θ'_jk d_j + δ_jk b_j = 0` -/
theorem coeff_maker_encodes_the_equations (n : Nat) (z1 z2 : Adj) (v : Nat → Bool) :
    SolF (coeffMaker n z1 z2) v ↔ ∀ j k, j < n → k < n → equation n z1 z2 v j k = false :=
  solF_coeff_iff n z1 z2 v

/-- `row_reduction` keeps the shape and the solution space of the x-matrix (every n, every matrix with a row) -/
theorem row_reduction_preserves_solutions (x z : BMat) (v : Nat → Bool) (hr : 0 < x.r) :
    (rowReduction x z).1.r = x.r ∧ (rowReduction x z).1.c = x.c ∧ (SolF (rowReduction x z).1 v ↔ SolF x v) :=
  rowReduction_spec x z v hr

/-! ## 3. Decision -/

/-- **soundness of `yes`, both modes, every search path** (all combinations for dimension ≤ 4, pair sums, and the random
    search for every value of the draws): the returned `Q` has 4n entries, satisfies every equation of the system, and
    every block is invertible -/
theorem yes_returns_a_valid_clifford (a b : BMat) (mode : Mode) (draws : List Bool) (out : EqOut) (q : List Bool)
    (hn : 0 < a.r) (e : isLcEquivalent a b mode draws = .ok out) (hq : out.sol = some q) :
    q.length = 4 * a.r ∧ (∀ j k, j < a.r → k < a.r → equation a.r a.f b.f (vget q) j k = false) ∧
    isValidClifford a.r q = true := by
  obtain ⟨h1, h2, h3⟩ := isLcEquivalent_sound_all a b mode draws out q hn e hq
  exact ⟨h1, (solF_coeff_iff a.r a.f b.f _).mp h2, h3⟩

/-- **for a solution space of dimension ≤ 4 the search is exhaustive**: a `no` on that path means that no assignment at
    all satisfies the equations with every block invertible (so the graphs are not LC-equivalent: `no_means_not_lc_equivalent`) -/
theorem no_is_exhaustive_for_small_dimension (a b : BMat) (mode : Mode) (draws : List Bool) (out : EqOut)
    (hn : 0 < a.r) (e : isLcEquivalent a b mode draws = .ok out) (hsol : out.sol = none)
    (hp : out.path = "all-combinations") (v : List Bool)
    (hv : ∀ j k, j < a.r → k < a.r → equation a.r a.f b.f (vget v) j k = false) : isValidClifford a.r v = false :=
  isLcEquivalent_no_small a b mode draws out hn e hsol hp v ((solF_coeff_iff a.r a.f b.f _).mpr hv)

/-- **the full-rank shortcut is right** ("those two graph states are not LC equivalent for sure"): when the reduced
    coefficient matrix has rank `4 n` the zero vector is the only solution, so no valid `Q` exists -/
theorem no_is_right_on_full_rank (a b : BMat) (mode : Mode) (draws : List Bool) (out : EqOut)
    (hn : 0 < a.r) (e : isLcEquivalent a b mode draws = .ok out) (hp : out.path = "full-rank") (v : List Bool)
    (hv : ∀ j k, j < a.r → k < a.r → equation a.r a.f b.f (vget v) j k = false) : isValidClifford a.r v = false :=
  isLcEquivalent_no_fullrank a b mode draws out hn e hp v ((solF_coeff_iff a.r a.f b.f _).mpr hv)

/-- **one step of Van den Nest's theorem**: a local complementation is realised by an explicit local Clifford — the
    vector with block `[[1,0],[1,1]]` at `v`, `[[1,1],[0,1]]` at the neighbours of `v` and the identity elsewhere solves every
    equation of the system for `(A, localComp A v)` and has invertible blocks (so the equations are satisfiable by a valid
    `Q` for every pair one complementation apart, for every n) -/
theorem one_local_complementation_has_a_valid_clifford (n : Nat) (A : Adj) (v : Nat) (hv : v < n) (hA : Simple n A) :
    (∀ j k, j < n → k < n → equation n A (localComp A v) (lcQ A v) j k = false) ∧
    isValidClifford n ((List.range (4 * n)).map (lcQ A v)) = true :=
  ⟨fun j k hj hk => lcQ_solves n A v hv hA j k hj hk, lcQ_valid n A v hv hA⟩

/-- two graphs are in the same LC orbit -/
def SameOrbit (n : Nat) (A B : Adj) : Prop := ∃ vs : List Nat, (∀ v ∈ vs, v < n) ∧ EqAdj n (applySeq A vs) B

/-- **every LC-equivalent pair admits a valid `Q`** — the elementary direction of Van den Nest's theorem, proved for every
    n: one complementation is realised by the explicit `lcQ`, solutions compose blockwise (`Q₂Q₁`), determinants multiply -/
theorem lc_equivalent_graphs_have_a_valid_clifford (n : Nat) (A B : Adj) (hA : Simple n A) (h : SameOrbit n A B) :
    ∃ v : List Bool, (∀ j k, j < n → k < n → equation n A B (vget v) j k = false) ∧ isValidClifford n v = true := by
  obtain ⟨vs, hvs, hB⟩ := h
  exact same_orbit_has_valid_Q_list n A B vs hA hvs hB

/-- **a `no` taken on the full-rank shortcut or after the exhaustive search is right, with no appeal to the literature**:
    the two graphs are not related by any sequence of local complementations -/
theorem no_means_not_lc_equivalent (a b : BMat) (mode : Mode) (draws : List Bool) (out : EqOut)
    (hn : 0 < a.r) (hA : Simple a.r a.f) (e : isLcEquivalent a b mode draws = .ok out) (hsol : out.sol = none)
    (hp : out.path = "all-combinations" ∨ out.path = "full-rank") : ¬ SameOrbit a.r a.f b.f := by
  intro h
  obtain ⟨v, hv, hval⟩ := lc_equivalent_graphs_have_a_valid_clifford a.r a.f b.f hA h
  have : isValidClifford a.r v = false := hp.elim
    (fun hp1 => no_is_exhaustive_for_small_dimension a b mode draws out hn e hsol hp1 v hv)
    (fun hp2 => no_is_right_on_full_rank a b mode draws out hn e hp2 v hv)
  rw [this] at hval
  exact absurd hval (by decide)

/-- the full decision property as worded: the test answers yes exactly when one graph is reachable from the other by
    local complementations (false for the code, D14: `decides_lc_equivalence_refuted`; proved on every other run:
    `decides_lc_equivalence_off_the_shortcut`) -/
def decides_lc_equivalence_statement : Prop :=
  ∀ (a b : BMat) (mode : Mode) (draws : List Bool) (out : EqOut), 0 < a.r → a.r = b.r → a.c = a.r → b.c = b.r →
    Simple a.r a.f → Simple b.r b.f → mode ≠ .other → isLcEquivalent a b mode draws = .ok out →
    (out.sol.isSome = true ↔ SameOrbit a.r a.f b.f)

/-- completeness alone: an LC-equivalent pair is never answered `no` -/
def never_a_false_no_statement : Prop :=
  ∀ (a b : BMat) (out : EqOut), 0 < a.r → a.r = b.r → Simple a.r a.f → Simple b.r b.f →
    isLcEquivalent a b .det [] = .ok out → SameOrbit a.r a.f b.f → out.sol.isSome = true

def twoK2 : BMat := BMat.ofAdj 4 (fun i j => (i = 0 ∧ j = 1) ∨ (i = 1 ∧ j = 0) ∨ (i = 2 ∧ j = 3) ∨ (i = 3 ∧ j = 2))
def K2K1 : BMat := BMat.ofAdj 3 (fun i j => (i = 0 ∧ j = 1) ∨ (i = 1 ∧ j = 0))

/-- what the model answers, as data -/
def answer (a b : BMat) : Option (Option (List Bool)) :=
  match isLcEquivalent a b .det [] with
  | .ok o => some o.sol
  | .error _ => none

set_option maxRecDepth 100000 in
/-- **known finding D14, kernel-checked**: two disjoint edges compared with themselves are answered `no` (the solution
    space has dimension 8 and no sum of two basis vectors is valid, although the identity is) -/
theorem shortcut_incomplete_2K2 : answer twoK2 twoK2 = some none := by decide +kernel

set_option maxRecDepth 100000 in
/-- the same for an edge plus an isolated vertex -/
theorem shortcut_incomplete_K2K1 : answer K2K1 K2K1 = some none := by decide +kernel

/-- hence "never a false no" is *false* for the code as it stands (replayed on the implementation on every run) -/
theorem never_a_false_no_refuted : ¬ never_a_false_no_statement := by
  intro h
  have hs : Simple 4 twoK2.f := by
    refine ⟨fun i j hi hj => ?_, fun i hi => ?_⟩
    · simp only [twoK2, BMat.ofAdj]; apply decide_eq_decide.mpr; omega
    · simp only [twoK2, BMat.ofAdj]; apply decide_eq_false; omega
  have e := shortcut_incomplete_2K2
  unfold answer at e
  split at e
  · rename_i o ho
    have hso : o.sol = none := by simpa using e
    have := h twoK2 twoK2 o (by decide) rfl hs hs ho ⟨[], by simp, EqAdj.refl 4 _⟩
    rw [hso] at this
    simp at this
  · simp at e

/-- the part of the decision property about `Q`: every `yes` carries a valid `Q`; every `no` taken on the full-rank shortcut
    or after the exhaustive search (dimension ≤ 4) means that no valid `Q` exists.  With `valid Q ⇔ same orbit`
    (`valid_clifford_iff_same_orbit`, proved below) this gives `decides_lc_equivalence_off_the_shortcut`.  Missing, and false
    for the code: a `no` on the pair-sum / random paths (dimension ≥ 5) is incomplete — refuted above, D14 -/
theorem decides_lc_equivalence_partial (a b : BMat) (mode : Mode) (draws : List Bool) (out : EqOut)
    (hn : 0 < a.r) (e : isLcEquivalent a b mode draws = .ok out) :
    (∀ q, out.sol = some q →
      (∀ j k, j < a.r → k < a.r → equation a.r a.f b.f (vget q) j k = false) ∧ isValidClifford a.r q = true) ∧
    (out.sol = none → (out.path = "all-combinations" ∨ out.path = "full-rank") → ∀ v : List Bool,
      (∀ j k, j < a.r → k < a.r → equation a.r a.f b.f (vget v) j k = false) → isValidClifford a.r v = false) :=
  ⟨fun q hq => (yes_returns_a_valid_clifford a b mode draws out q hn e hq).2,
   fun hs hpa v hv => hpa.elim
     (fun h => no_is_exhaustive_for_small_dimension a b mode draws out hn e hs h v hv)
     (fun h => no_is_right_on_full_rank a b mode draws out hn e h v hv)⟩

def K3 : BMat := BMat.ofAdj 3 (fun i j => decide (i ≠ j))
def S3 : BMat := BMat.ofAdj 3 (fun i j => decide (i ≠ j) && (decide (i = 0) || decide (j = 0)))

set_option maxRecDepth 100000 in
/-- non-vacuity: the triangle and the 3-star are answered `yes` with this `Q` (blocks `H P†`, `P H`, `P`) -/
theorem triangle_star_yes :
    answer K3 S3 = some (some [false, true, true, true, true, true, true, false, true, true, false, true]) := by
  decide +kernel

/-! ## 4. Gates -/

/-- `local_clifford_ops`: exactly the invertible blocks have a name -/
theorem gate_table_complete (a b c d : Bool) : (blockOps a b c d).isSome = xor (a && d) (b && c) :=
  blockOps_complete a b c d

/-- the named gates, applied rightmost first as `converter_gate_list` does, act on the `(z, x)` bits of their qubit as the
    block acts on the column vector `(z; x)` and leave the other qubits alone — any row, any n -/
theorem gate_table_acts_as_the_block (a b c d : Bool) (names : List String) (h : blockOps a b c d = some names)
    (q : Nat) (p : PRow) :
    (applyNames names q p).z q = xor (a && p.z q) (b && p.x q) ∧
    (applyNames names q p).x q = xor (c && p.z q) (d && p.x q) ∧
    ∀ j, j ≠ q → (applyNames names q p).x j = p.x j ∧ (applyNames names q p).z j = p.z j :=
  blockOps_action a b c d names h q p

/-- the graph-state tableau is a valid Clifford tableau -/
theorem graph_state_tableau_valid (n : Nat) (A : Adj) (hA : Simple n A) : (graphTab n A).Valid :=
  graphTab_valid n A hA

/-- **the gates returned by `lc_check(A, B, validate=True)` transform the first graph state exactly into the second**:
    running them with the verified tableau semantics (C07) on the graph state of `A` succeeds, gives a valid tableau on
    the same qubits, and its stabilizer group contains `+K_q(B)` for every vertex `q` — n independent commuting generators
    of a valid tableau's group determine the state, signs included -/
theorem lc_check_gates_map_the_state (a b : BMat) (gates : List (String × Nat)) (hA : Simple a.r a.f)
    (e : lcCheck a b true = .ok (true, gates)) :
    ∃ t, runGates (graphTab a.r a.f) gates = .ok t ∧ t.n = a.r ∧ t.Valid ∧
      ∀ q, q < a.r → InSpan t.n t.n t.stab (graphGen b.f q) :=
  lcCheck_sound a b gates hA e

/-- what the model's `lc_check(validate=True)` answers, as data -/
def checkAnswer (a b : BMat) : Option (Bool × List (String × Nat)) :=
  match lcCheck a b true with
  | .ok r => some r
  | .error _ => none

set_option maxRecDepth 100000 in
/-- non-vacuity of the hypothesis of `lc_check_gates_map_the_state` (kernel-checked): for the triangle and the 3-star the
    checked path succeeds, with exactly the gate list the implementation returns -/
theorem lc_check_triangle_star :
    checkAnswer K3 S3 = some (true, [("P_dag", 0), ("H", 0), ("H", 1), ("P", 1), ("P", 2), ("Z", 2)]) := by
  decide +kernel

/-- the constructive part of the property as worded, for the vertex sequence (proved: `lc_sequence_correct`) -/
def lc_sequence_statement : Prop :=
  ∀ (fuel : Nat) (a b : BMat) (out : EqOut) (q : List Bool) (seq : List Nat), 0 < a.r → a.r = b.r → Simple a.r a.f →
    Simple b.r b.f → isLcEquivalent a b .det [] = .ok out → out.sol = some q →
    lcGraphOperations fuel a.r a.f q = .ok seq → EqAdj a.r (applySeq a.f seq) b.f

/-- **the R-matrix reduction of `lc_graph_operations` is correct** (the constructive direction of Van den Nest–Dehaene–De Moor,
    Section IV, proved for every n): for *any* local Clifford `Q` with invertible blocks that solves the system for
    `(a, b)`, every vertex sequence the reduction returns (singles, then doubles `i, j, i`) consists of vertices of the graph
    and, applied to `a` as local complementations, gives exactly `b`.  Invariant: the matrix the Python rewrites is
    `R = C θ + D` for the current graph θ and a residual valid `Q` from θ to `b`; one `_apply_f` at a vertex with `c_v = 1` is
    one complementation (`applyF_tracks`, `LCInv.step`), and `R = I` forces θ = b (`identity_R_means_done`). -/
theorem lc_graph_operations_reaches_the_target (fuel n : Nat) (a b : Adj) (q : List Bool) (seq : List Nat)
    (ha : Simple n a) (hb : Simple n b) (hq : ∀ j k, j < n → k < n → equation n a b (vget q) j k = false)
    (hv : isValidClifford n q = true) (e : lcGraphOperations fuel n a q = .ok seq) :
    EqAdj n (applySeq a seq) b ∧ ∀ v ∈ seq, v < n :=
  lcGraphOperations_correct fuel n a b q seq ha hb hq hv e

/-- `lc_sequence_statement` holds: the sequence returned for the `Q` of a `yes` transforms the first graph into the second -/
theorem lc_sequence_correct : lc_sequence_statement := by
  intro fuel a b out q seq hn hab ha hb e hq hseq
  obtain ⟨_, h2, h3⟩ := yes_returns_a_valid_clifford a b .det [] out q hn e hq
  have hb' : Simple a.r b.f := by rw [hab]; exact hb
  exact (lc_graph_operations_reaches_the_target fuel a.r a.f b.f q seq ha hb' h2 h3 hseq).1

/-- **the reduction terminates on every valid `Q`** (`fuel` is the model's bound on the two `while` loops; `runtime` = bound
    hit): `fuel ≥ n + 1` always suffices.  First loop: every pass of `_singles` with `_condition` true clears `c_v` of at least
    one block and never sets one, so at most (number of blocks with `c = 1`) ≤ n passes; second loop: once `_condition` is
    false, one pass of `_doubles` never meets an empty `k_list` (`R` is invertible), makes rows `j`, `k` of each recorded pair
    unit rows and keeps unit rows, so it ends with `R = I` — the body runs at most once. -/
theorem lc_graph_operations_terminates (fuel n : Nat) (a b : Adj) (q : List Bool) (hn : 0 < n) (ha : Simple n a)
    (hb : Simple n b) (hq : ∀ j k, j < n → k < n → equation n a b (vget q) j k = false)
    (hv : isValidClifford n q = true) (hf : n + 1 ≤ fuel) : ∃ seq, lcGraphOperations fuel n a q = .ok seq :=
  lcGraphOperations_terminates fuel n a b q hn ha hb hq hv hf

/-- **every `yes` comes with a sequence of local complementations**: for the `Q` of a `yes` (both modes, every search path,
    every value of the random draws) `lc_graph_operations` returns, within `n + 1` rounds of each loop, a list of vertices
    of the graph whose local complementations take the first graph exactly to the second -/
theorem lc_sequence_terminates (fuel : Nat) (a b : BMat) (mode : Mode) (draws : List Bool) (out : EqOut) (q : List Bool)
    (hn : 0 < a.r) (hab : a.r = b.r) (ha : Simple a.r a.f) (hb : Simple b.r b.f)
    (e : isLcEquivalent a b mode draws = .ok out) (hq : out.sol = some q) (hf : a.r + 1 ≤ fuel) :
    ∃ seq, lcGraphOperations fuel a.r a.f q = .ok seq ∧ (∀ v ∈ seq, v < a.r) ∧ EqAdj a.r (applySeq a.f seq) b.f := by
  obtain ⟨_, h2, h3⟩ := yes_returns_a_valid_clifford a b mode draws out q hn e hq
  have hb' : Simple a.r b.f := by rw [hab]; exact hb
  obtain ⟨seq, hs⟩ := lc_graph_operations_terminates fuel a.r a.f b.f q hn ha hb' h2 h3 hf
  have := lc_graph_operations_reaches_the_target fuel a.r a.f b.f q seq ha hb' h2 h3 hs
  exact ⟨seq, hs, this.2, this.1⟩

/-- **the hard direction, proved: a `yes` means that the graphs are in the same LC orbit** (no citation needed any more) -/
theorem yes_means_same_orbit (a b : BMat) (mode : Mode) (draws : List Bool) (out : EqOut) (q : List Bool)
    (hn : 0 < a.r) (hab : a.r = b.r) (ha : Simple a.r a.f) (hb : Simple b.r b.f)
    (e : isLcEquivalent a b mode draws = .ok out) (hq : out.sol = some q) : SameOrbit a.r a.f b.f := by
  obtain ⟨seq, _, h1, h2⟩ := lc_sequence_terminates (a.r + 1) a b mode draws out q hn hab ha hb e hq (Nat.le_refl _)
  exact ⟨seq, h1, h2⟩

/-- **`find_lc_operations`**: whatever it returns is a list of vertices whose local complementations take the first graph to
    the second; and it does return whenever `is_lc_equivalent` says yes -/
theorem find_lc_operations_correct (fuel : Nat) (a b : BMat) (mode : Mode) (draws : List Bool)
    (hn : 0 < a.r) (hab : a.r = b.r) (ha : Simple a.r a.f) (hb : Simple b.r b.f) :
    (∀ seq, findLcOperations fuel a b mode draws = .ok seq →
      (∀ v ∈ seq, v < a.r) ∧ EqAdj a.r (applySeq a.f seq) b.f) ∧
    (∀ out, isLcEquivalent a b mode draws = .ok out → out.sol.isSome = true → a.r + 1 ≤ fuel →
      ∃ seq, findLcOperations fuel a b mode draws = .ok seq) := by
  have hb' : Simple a.r b.f := by rw [hab]; exact hb
  constructor
  · intro seq e
    unfold findLcOperations at e
    cases h : isLcEquivalent a b mode draws with
    | error x => rw [h] at e; cases e
    | ok out =>
      rw [h] at e
      dsimp only at e
      cases hs : out.sol with
      | none => rw [hs] at e; cases e
      | some q =>
        rw [hs] at e
        obtain ⟨_, h2, h3⟩ := yes_returns_a_valid_clifford a b mode draws out q hn h hs
        have := lc_graph_operations_reaches_the_target fuel a.r a.f b.f q seq ha hb' h2 h3 e
        exact ⟨this.2, this.1⟩
  · intro out h hs hf
    cases hq : out.sol with
    | none => rw [hq] at hs; cases hs
    | some q =>
      obtain ⟨seq, e, _⟩ := lc_sequence_terminates fuel a b mode draws out q hn hab ha hb h hq hf
      refine ⟨seq, ?_⟩
      unfold findLcOperations
      rw [h]
      dsimp only
      rw [hq]
      exact e

/-- **Van den Nest–Dehaene–De Moor's theorem for graph states, both directions proved for every n**: the linear system has a
    solution with invertible blocks iff the graphs are related by a sequence of local complementations.  (⇐ is
    `lc_equivalent_graphs_have_a_valid_clifford`; ⇒ is constructive — the sequence is the one `lc_graph_operations` computes) -/
theorem valid_clifford_iff_same_orbit (n : Nat) (A B : Adj) (hn : 0 < n) (hA : Simple n A) (hB : Simple n B) :
    (∃ v : List Bool, (∀ j k, j < n → k < n → equation n A B (vget v) j k = false) ∧ isValidClifford n v = true) ↔
      SameOrbit n A B := by
  constructor
  · rintro ⟨v, h1, h2⟩
    obtain ⟨seq, hs⟩ := lc_graph_operations_terminates (n + 1) n A B v hn hA hB h1 h2 (Nat.le_refl _)
    have := lc_graph_operations_reaches_the_target (n + 1) n A B v seq hA hB h1 h2 hs
    exact ⟨seq, this.2, this.1⟩
  · exact lc_equivalent_graphs_have_a_valid_clifford n A B hA

/-- **the decision property, proved wherever the code is right**: on every run that says `yes`, and on every run that says
    `no` on the full-rank shortcut or after the exhaustive search (solution space of dimension ≤ 4), the answer is `yes`
    exactly when one graph is reachable from the other by local complementations.  What remains outside is only a `no` on the
    pair-sum / random paths (dimension ≥ 5), where the code is wrong (D14, `decides_lc_equivalence_refuted`). -/
theorem decides_lc_equivalence_off_the_shortcut (a b : BMat) (mode : Mode) (draws : List Bool) (out : EqOut)
    (hn : 0 < a.r) (hab : a.r = b.r) (ha : Simple a.r a.f) (hb : Simple b.r b.f)
    (e : isLcEquivalent a b mode draws = .ok out)
    (hp : out.sol.isSome = true ∨ out.path = "all-combinations" ∨ out.path = "full-rank") :
    out.sol.isSome = true ↔ SameOrbit a.r a.f b.f := by
  constructor
  · intro hs
    cases hq : out.sol with
    | none => rw [hq] at hs; cases hs
    | some q => exact yes_means_same_orbit a b mode draws out q hn hab ha hb e hq
  · intro horb
    cases hq : out.sol with
    | some q => rfl
    | none =>
      rcases hp with hp | hp
      · rw [hq] at hp; cases hp
      · exact absurd horb (no_means_not_lc_equivalent a b mode draws out hn ha e hq hp)

/-- and the property as worded is *false* for the code as it stands (D14): two disjoint edges compared with themselves are
    in the same orbit (empty sequence) and are answered `no` -/
theorem decides_lc_equivalence_refuted : ¬ decides_lc_equivalence_statement := by
  intro h
  have hs : Simple 4 twoK2.f := by
    refine ⟨fun i j hi hj => ?_, fun i hi => ?_⟩
    · simp only [twoK2, BMat.ofAdj]; apply decide_eq_decide.mpr; omega
    · simp only [twoK2, BMat.ofAdj]; apply decide_eq_false; omega
  have e := shortcut_incomplete_2K2
  unfold answer at e
  split at e
  · rename_i o ho
    have hso : o.sol = none := by simpa using e
    have := (h twoK2 twoK2 .det [] o (by decide) rfl rfl rfl hs hs (by decide) ho).mpr ⟨[], by simp, EqAdj.refl 4 _⟩
    rw [hso] at this
    simp at this
  · simp at e

/-! non-vacuity with a *double*: the path 0–1–2–3 and the 4-cycle 0–2–1–3 (pivot on the edge 1–2) -/

def P4 : BMat := BMat.ofAdj 4 (fun i j => i + 1 = j ∨ j + 1 = i)
def Q4 : BMat := BMat.ofAdj 4 (fun i j => (i < 2 ∧ 2 ≤ j) ∨ (j < 2 ∧ 2 ≤ i))

example : Simple P4.r P4.f := by
  refine ⟨fun i j hi hj => ?_, fun i hi => ?_⟩
  · simp only [P4, BMat.ofAdj]; apply decide_eq_decide.mpr; omega
  · simp only [P4, BMat.ofAdj]; apply decide_eq_false; omega
example : Simple Q4.r Q4.f := by
  refine ⟨fun i j hi hj => ?_, fun i hi => ?_⟩
  · simp only [Q4, BMat.ofAdj]; apply decide_eq_decide.mpr; omega
  · simp only [Q4, BMat.ofAdj]; apply decide_eq_false; omega

/-- what the model's `find_lc_operations` answers with the sufficient fuel `n + 1`, as data -/
def seqAnswer (a b : BMat) : Option (List Nat) :=
  match findLcOperations (a.r + 1) a b .det [] with
  | .ok s => some s
  | .error _ => none

set_option maxRecDepth 100000 in
/-- kernel-checked: the hypotheses of the theorems above are met by a pair that needs `_doubles` (the `Q` found is a
    Hadamard on the vertices 1 and 2; the sequence is the pivot `1, 2, 1`, as the implementation returns) -/
theorem path_cycle_sequence : seqAnswer P4 Q4 = some [1, 2, 1] := by decide +kernel

set_option maxRecDepth 100000 in
/-- and by the triangle and the 3-star (singles only) -/
theorem triangle_star_sequence : seqAnswer K3 S3 = some [0, 1] := by decide +kernel

/-! ## 5. The repaired `is_lc_equivalent` (repair of D14): the linear system is solved component by component

  `isLcEquivalentR` is the model of the repaired `is_lc_equivalent`; `isLcEquivalent` (sections 3–4) is then the model of
  `_is_lc_equivalent_component`, the unchanged old body that the repaired function calls on the induced pair of every
  connected component.  Before the repair is applied to the repository `isLcEquivalent` is the model of `is_lc_equivalent`
  itself; the harness probes the implementation and compares it with the matching model function. -/

/-- **`_connected_components` returns the connected components**: every vertex lies in a listed set, different listed sets
    are disjoint, and each listed set is the set of vertices reachable from one of its vertices (`Reach`: paths of edges
    between vertices `< n`) -/
theorem connected_components_are_the_reachability_classes (n : Nat) (A : Adj) (hA : Simple n A) :
    (∀ v, v < n → ∃ c ∈ connectedComponents n A, v ∈ c) ∧
    (connectedComponents n A).Pairwise (fun c1 c2 => ∀ v, v ∈ c1 → v ∉ c2) ∧
    ∀ c ∈ connectedComponents n A, ∃ s, s < n ∧ ∀ x, x ∈ c ↔ x < n ∧ Reach n A s x := by
  obtain ⟨h1, h2⟩ := connectedComponents_spec n A hA.1
  refine ⟨h2, h1.disjoint, fun c hc => ?_⟩
  obtain ⟨s, hs, e⟩ := h1.isClass c hc
  exact ⟨s, hs, fun x => by rw [e]; exact mem_componentOf n A s hs x⟩

/-- **local complementation never joins or splits connected components**: graphs in the same LC orbit have the same
    components as vertex sets — literally the same list from `_connected_components` (every n) -/
theorem components_are_lc_invariant (n : Nat) (A B : Adj) (hA : Simple n A) (h : SameOrbit n A B) :
    connectedComponents n A = connectedComponents n B := by
  obtain ⟨vs, hvs, hB⟩ := h
  exact components_lc_invariant n A B hA vs hvs hB

/-- non-vacuity: two disjoint edges have the components `{0, 1}`, `{2, 3}`; the path `0–1–2–3` and the graph two
    complementations away (a concrete pair in one orbit, both connected) have the single component `{0, 1, 2, 3}` -/
example : connectedComponents 4 twoK2.f = [[0, 1], [2, 3]] := by decide
example : connectedComponents 4 (fun i j => decide (i + 1 = j ∨ j + 1 = i)) = [[0, 1, 2, 3]] ∧
    connectedComponents 4 (applySeq (fun i j => decide (i + 1 = j ∨ j + 1 = i)) [1, 2]) = [[0, 1, 2, 3]] := by decide

/-- **a local Clifford between two graphs with the same components is exactly one local Clifford per component**: `q`
    satisfies every equation of the system for `(A, B)` with every block invertible iff, for every component `c`, the
    restriction of `q` to `c` does so for the induced pair `(A[c], B[c])`.  ⇐ is the block-diagonal assembly the repaired
    function performs, ⇒ is restriction (used for the `no` answers) -/
theorem block_diagonal_solution_iff (n : Nat) (A B : Adj) (hA : Simple n A) (hB : Simple n B)
    (hc : connectedComponents n A = connectedComponents n B) (q : Nat → Bool) :
    ((∀ j k, j < n → k < n → equation n A B q j k = false) ∧ ∀ m, m < n → detQ q m = true) ↔
      ∀ c ∈ connectedComponents n A,
        (∀ i i', i < c.length → i' < c.length →
          equation c.length (subAdj A c) (subAdj B c) (restrictQ q c) i i' = false) ∧
        ∀ i, i < c.length → detQ (restrictQ q c) i = true := by
  obtain ⟨hPa, hCa, _⟩ := connectedComponents_partition n A hA.1
  obtain ⟨_, hCb, _⟩ := connectedComponents_partition n B hB.1
  exact block_solution_iff n A B _ q hPa hCa (by rw [hc]; exact hCb)

/-- **soundness of `yes` for the repaired function**, both modes, every search path in every component: the assembled `Q`
    has `4 n` entries, satisfies every equation of the system for the whole pair, and every block is invertible -/
theorem repaired_yes_returns_a_valid_clifford (a b : BMat) (mode : Mode) (draws : List (List Bool)) (out : EqOutR)
    (q : List Bool) (hab : a.r = b.r) (ha : Simple a.r a.f) (hb : Simple b.r b.f)
    (e : isLcEquivalentR a b mode draws = .ok out) (hq : out.sol = some q) :
    q.length = 4 * a.r ∧ (∀ j k, j < a.r → k < a.r → equation a.r a.f b.f (vget q) j k = false) ∧
    isValidClifford a.r q = true :=
  isLcEquivalentR_yes a b mode draws out q ha (by rw [hab]; exact hb) e hq

/-- hence **a `yes` of the repaired function means that the graphs are in the same LC orbit** (via the constructive
    direction `valid_clifford_iff_same_orbit`: the sequence of `lc_graph_operations` for the assembled `Q`) -/
theorem repaired_yes_means_same_orbit (a b : BMat) (mode : Mode) (draws : List (List Bool)) (out : EqOutR) (q : List Bool)
    (hn : 0 < a.r) (hab : a.r = b.r) (ha : Simple a.r a.f) (hb : Simple b.r b.f)
    (e : isLcEquivalentR a b mode draws = .ok out) (hq : out.sol = some q) : SameOrbit a.r a.f b.f := by
  obtain ⟨_, h2, h3⟩ := repaired_yes_returns_a_valid_clifford a b mode draws out q hab ha hb e hq
  exact (valid_clifford_iff_same_orbit a.r a.f b.f hn ha (by rw [hab]; exact hb)).mp ⟨q, h2, h3⟩

/-- **LC-equivalent graphs are LC-equivalent component by component**: the induced subgraphs on every common component are
    in the same LC orbit (restriction of the local Clifford, then the constructive direction on the component) -/
theorem same_orbit_restricts_to_components (n : Nat) (A B : Adj) (hA : Simple n A) (hB : Simple n B)
    (h : SameOrbit n A B) (c : List Nat) (hc : c ∈ connectedComponents n A) :
    SameOrbit c.length (subAdj A c) (subAdj B c) := by
  have hcomps := components_are_lc_invariant n A B hA h
  obtain ⟨v, hv, hval⟩ := lc_equivalent_graphs_have_a_valid_clifford n A B hA h
  obtain ⟨w, hw, hwv⟩ := restrict_valid n A B hA hB hcomps v hv hval c hc
  obtain ⟨hpos, hlt, hsa, _⟩ := component_facts n A hA c hc
  exact (valid_clifford_iff_same_orbit c.length _ _ hpos hsa (sub_simple n B hB c hlt)).mp ⟨w, hw, hwv⟩

/-- **a `no` of the repaired function is right whenever it is taken because the component partitions differ, or on the
    full-rank shortcut / after the exhaustive search (dimension ≤ 4) in the failing component** -/
theorem repaired_no_means_not_lc_equivalent (a b : BMat) (mode : Mode) (draws : List (List Bool)) (out : EqOutR)
    (hab : a.r = b.r) (ha : Simple a.r a.f) (hb : Simple b.r b.f)
    (e : isLcEquivalentR a b mode draws = .ok out) (hsol : out.sol = none)
    (hp : ∀ o ∈ out.parts, o.sol = none → o.path = "all-combinations" ∨ o.path = "full-rank") :
    ¬ SameOrbit a.r a.f b.f := by
  intro horb
  have hb' : Simple a.r b.f := by rw [hab]; exact hb
  rcases isLcEquivalentR_no a b mode draws out e hsol with hne | ⟨_, c, hc, o, d, hmem, ho, hnone⟩
  · exact hne (components_are_lc_invariant a.r a.f b.f ha horb)
  · obtain ⟨hpos, _, _, _⟩ := component_facts a.r a.f ha c hc
    have hsub := same_orbit_restricts_to_components a.r a.f b.f ha hb' horb c hc
    obtain ⟨w, hw, hwv⟩ := lc_equivalent_graphs_have_a_valid_clifford c.length _ _ (component_facts a.r a.f ha c hc).2.2.1 hsub
    have : isValidClifford c.length w = false := (hp o hmem hnone).elim
      (fun h1 => no_is_exhaustive_for_small_dimension (subMat a c) (subMat b c) mode d o hpos ho hnone h1 w hw)
      (fun h2 => no_is_right_on_full_rank (subMat a c) (subMat b c) mode d o hpos ho h2 w hw)
    rw [this] at hwv
    exact absurd hwv (by decide)

/-- **the decision property for the repaired function, proved wherever no appeal to the pair-sum shortcut is made**: on every
    run that says `yes`, and on every run that says `no` because the partitions differ or with the failing component on the
    full-rank / exhaustive path, the answer is `yes` exactly when one graph is reachable from the other by local
    complementations.  This now covers `2K₂`, `K₂ + K₁`, and every graph all of whose components have a solution space of
    dimension ≤ 4 (each isolated vertex: 3, each isolated edge: 4) — the inputs of the known finding D14 -/
theorem decides_lc_equivalence_repaired_off_the_shortcut (a b : BMat) (mode : Mode) (draws : List (List Bool))
    (out : EqOutR) (hn : 0 < a.r) (hab : a.r = b.r) (ha : Simple a.r a.f) (hb : Simple b.r b.f)
    (e : isLcEquivalentR a b mode draws = .ok out)
    (hp : ∀ o ∈ out.parts, o.sol = none → o.path = "all-combinations" ∨ o.path = "full-rank") :
    out.sol.isSome = true ↔ SameOrbit a.r a.f b.f := by
  constructor
  · intro hs
    cases hq : out.sol with
    | none => rw [hq] at hs; cases hs
    | some q => exact repaired_yes_means_same_orbit a b mode draws out q hn hab ha hb e hq
  · intro horb
    cases hq : out.sol with
    | some q => rfl
    | none => exact absurd horb (repaired_no_means_not_lc_equivalent a b mode draws out hab ha hb e hq hp)

/-- a connected graph: every vertex is reachable from every vertex -/
example : Connected 3 K3.f := by
  intro i j hi hj
  by_cases e : i = j
  · rw [e]; exact Reach.refl _
  · exact Reach.single hi hj (by simp only [K3, BMat.ofAdj]; exact decide_eq_true e)

/-- **the remaining hypothesis, stated precisely** (Van den Nest–Dehaene–De Moor, Phys. Rev. A 70, 034302, Section IV: "if the
    solution space has dimension > 4 it suffices to test the sums of two basis vectors"): for *connected* graphs, a `no` of the
    pair-sum search of the unchanged algorithm is right.  Not proved here.  It is false without `Connected`
    (`shortcut_incomplete_2K2`).  Evidence by testing only: no counterexample among all 4 304 188 ordered pairs of
    connected labelled graphs on 6 vertices inside an LC orbit (and all on ≤ 5), nor among 120 000 random pairs on ≤ 12
    vertices biased to large solution spaces (handoff/repairs/d14) -/
def shortcut_complete_on_connected_statement : Prop :=
  ∀ (a b : BMat) (draws : List Bool) (out : EqOut), 0 < a.r → a.r = b.r → Simple a.r a.f → Simple b.r b.f →
    Connected a.r a.f → isLcEquivalent a b .det draws = .ok out → out.path = "pair-sums" → out.sol = none →
    ¬ SameOrbit a.r a.f b.f

/-- the decision property as worded, for the repaired function in deterministic mode -/
def decides_lc_equivalence_repaired_statement : Prop :=
  ∀ (a b : BMat) (draws : List (List Bool)) (out : EqOutR), 0 < a.r → a.r = b.r → Simple a.r a.f → Simple b.r b.f →
    isLcEquivalentR a b .det draws = .ok out → (out.sol.isSome = true ↔ SameOrbit a.r a.f b.f)

/-- **the repaired `is_lc_equivalent` decides LC equivalence, relative to the completeness of the pair-sum shortcut on
    connected graphs**.  Proved: `yes` ⇒ same orbit; `no` ⇒ different orbits when the partitions differ (components are an
    orbit invariant), when the failing component is on the full-rank / exhaustive path (restriction of a valid `Q` +
    exhaustiveness), and — the only use of the hypothesis — when the failing component is on the pair-sum path: the induced
    graph of a component is simple and *connected* (`sub_connected`), and an LC-equivalent pair restricts to LC-equivalent
    induced pairs (`same_orbit_restricts_to_components`).  Missing for the unconditional statement: exactly
    `shortcut_complete_on_connected_statement`.  (`mode = "random"` cannot be complete: 1000 random trials may all miss.) -/
theorem decides_lc_equivalence_repaired_partial (hshort : shortcut_complete_on_connected_statement) :
    decides_lc_equivalence_repaired_statement := by
  intro a b draws out hn hab ha hb e
  have hb' : Simple a.r b.f := by rw [hab]; exact hb
  constructor
  · intro hs
    cases hq : out.sol with
    | none => rw [hq] at hs; cases hs
    | some q => exact repaired_yes_means_same_orbit a b .det draws out q hn hab ha hb e hq
  · intro horb
    cases hq : out.sol with
    | some q => rfl
    | none =>
      exfalso
      rcases isLcEquivalentR_no a b .det draws out e hq with hne | ⟨_, c, hc, o, d, _, ho, hnone⟩
      · exact hne (components_are_lc_invariant a.r a.f b.f ha horb)
      · obtain ⟨hpos, hlt, hsa, hconn⟩ := component_facts a.r a.f ha c hc
        have hsb : Simple c.length (subAdj b.f c) := sub_simple a.r b.f hb' c hlt
        have hsub := same_orbit_restricts_to_components a.r a.f b.f ha hb' horb c hc
        obtain ⟨w, hw, hwv⟩ := lc_equivalent_graphs_have_a_valid_clifford c.length _ _ hsa hsub
        rcases isLcEquivalent_paths (subMat a c) (subMat b c) .det d o ho with h1 | h1 | h1 | h1
        · have : isValidClifford c.length w = false :=
            no_is_right_on_full_rank (subMat a c) (subMat b c) .det d o hpos ho h1 w hw
          rw [this] at hwv; exact absurd hwv (by decide)
        · have : isValidClifford c.length w = false :=
            no_is_exhaustive_for_small_dimension (subMat a c) (subMat b c) .det d o hpos ho hnone h1 w hw
          rw [this] at hwv; exact absurd hwv (by decide)
        · exact absurd h1.2 (by decide)
        · exact hshort (subMat a c) (subMat b c) d o hpos rfl hsa hsb hconn ho h1.1 hnone hsub

/-- what the model of the repaired function answers in deterministic mode, as data -/
def answerR (a b : BMat) : Option (Option (List Bool)) :=
  match isLcEquivalentR a b .det [] with
  | .ok o => some o.sol
  | .error _ => none

set_option maxRecDepth 100000 in
/-- **the witnesses of D14 are answered `yes` by the repaired function** (kernel-checked; a Hadamard on every vertex, as the
    patched implementation returns): two disjoint edges compared with themselves … -/
theorem repaired_2K2_yes :
    answerR twoK2 twoK2 = some (some [false, true, true, false, false, true, true, false, false, true, true, false,
      false, true, true, false]) := by decide +kernel

set_option maxRecDepth 100000 in
/-- … and an edge plus an isolated vertex (the isolated vertex gets the first valid block of its 3-dimensional space, `P H P`) -/
theorem repaired_K2K1_yes : answerR K2K1 K2K1 = some (some [false, true, true, false, false, true, true, false, true, false, false, true]) := by
  decide +kernel

/-- `K₄` plus an isolated vertex: the component `K₄` has a solution space of dimension 5, so this run goes through the
    pair-sum shortcut on a connected component -/
def K4K1 : BMat := BMat.ofAdj 5 (fun i j => decide (i ≠ j) && decide (i < 4) && decide (j < 4))

/-- the search paths of the components examined by the model of the repaired function, and its answer -/
def pathsR (a b : BMat) : Option (List String × Option (List Bool)) :=
  match isLcEquivalentR a b .det [] with
  | .ok o => some (o.parts.map (fun p => p.path), o.sol)
  | .error _ => none

set_option maxRecDepth 100000 in
/-- non-vacuity of the pair-sum case of `decides_lc_equivalence_repaired_partial` (kernel-checked): a `yes` found by the
    shortcut on the connected component `K₄` -/
theorem repaired_K4K1_paths : pathsR K4K1 K4K1 = some (["pair-sums", "all-combinations"],
    some [false, true, true, false, true, false, false, true, false, true, true, false, true, false, false, true, true, false, false, true]) := by
  decide +kernel

/-- **`find_lc_operations` over the repaired function**: whatever it returns is a list of vertices whose local
    complementations take the first graph to the second; and it does return whenever the repaired `is_lc_equivalent`
    says yes -/
theorem find_lc_operations_correct_repaired (fuel : Nat) (a b : BMat) (mode : Mode) (draws : List (List Bool))
    (hn : 0 < a.r) (hab : a.r = b.r) (ha : Simple a.r a.f) (hb : Simple b.r b.f) :
    (∀ seq, findLcOperationsR fuel a b mode draws = .ok seq →
      (∀ v ∈ seq, v < a.r) ∧ EqAdj a.r (applySeq a.f seq) b.f) ∧
    (∀ out, isLcEquivalentR a b mode draws = .ok out → out.sol.isSome = true → a.r + 1 ≤ fuel →
      ∃ seq, findLcOperationsR fuel a b mode draws = .ok seq) := by
  have hb' : Simple a.r b.f := by rw [hab]; exact hb
  constructor
  · intro seq e
    unfold findLcOperationsR at e
    cases h : isLcEquivalentR a b mode draws with
    | error x => rw [h] at e; cases e
    | ok out =>
      rw [h] at e
      dsimp only at e
      cases hs : out.sol with
      | none => rw [hs] at e; cases e
      | some q =>
        rw [hs] at e
        obtain ⟨_, h2, h3⟩ := repaired_yes_returns_a_valid_clifford a b mode draws out q hab ha hb h hs
        have := lc_graph_operations_reaches_the_target fuel a.r a.f b.f q seq ha hb' h2 h3 e
        exact ⟨this.2, this.1⟩
  · intro out h hs hf
    cases hq : out.sol with
    | none => rw [hq] at hs; cases hs
    | some q =>
      obtain ⟨_, h2, h3⟩ := repaired_yes_returns_a_valid_clifford a b mode draws out q hab ha hb h hq
      obtain ⟨seq, e⟩ := lc_graph_operations_terminates fuel a.r a.f b.f q hn ha hb' h2 h3 hf
      refine ⟨seq, ?_⟩
      unfold findLcOperationsR
      rw [h]
      dsimp only
      rw [hq]
      exact e

/-- **the gates returned by `lc_check(A, B, validate=True)` over the repaired function transform the first graph state
    exactly into the second** (same statement and proof as `lc_check_gates_map_the_state`) -/
theorem lc_check_gates_map_the_state_repaired (a b : BMat) (gates : List (String × Nat)) (hA : Simple a.r a.f)
    (e : lcCheckR a b true = .ok (true, gates)) :
    ∃ t, runGates (graphTab a.r a.f) gates = .ok t ∧ t.n = a.r ∧ t.Valid ∧
      ∀ q, q < a.r → InSpan t.n t.n t.stab (graphGen b.f q) :=
  lcCheckR_sound a b gates hA e

/-- what the model's `lc_check(validate=True)` over the repaired function answers, as data -/
def checkAnswerR (a b : BMat) : Option (Bool × List (String × Nat)) :=
  match lcCheckR a b true with
  | .ok r => some r
  | .error _ => none

set_option maxRecDepth 100000 in
/-- non-vacuity (kernel-checked): for two disjoint edges compared with themselves the checked path succeeds with a Hadamard
    on every qubit … which maps `|2K₂⟩` to itself (`H ⊗ H` fixes the two-qubit graph state) -/
theorem lc_check_2K2_repaired : checkAnswerR twoK2 twoK2 = some (true, [("H", 0), ("H", 1), ("H", 2), ("H", 3)]) := by
  decide +kernel

end Graphiq.C09
