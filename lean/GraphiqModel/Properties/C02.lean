/-
  C02 — the time-reversed solver returns a circuit that generates the target exactly.

  Five parts.
  (1) Soundness of the *validator* that is applied to every circuit the real solver returns (translation validation by a verified
      checker): if `checkGenerates ne np ops adj` evaluates to `true`, then under EVERY combination of measurement outcomes the
      circuit, run by the tableau semantics proved in C07/C01, leaves the photons exactly in the graph state |G⟩ (signs included)
      and every emitter in |0⟩ (`validator_sound`).
  (2) Soundness of the *solver model itself* (`Model/Solver.lean`, compared exactly with the implementation on every run), for every
      target and every size: if `solve` returns and its final working tableau generates the group of |0…0⟩ (hypothesis `hfinal`, printed by the driver for
      every input and checked by the harness), then the recorded circuit, run from all-|0⟩ under EVERY outcome script, ends in exactly
      the signed group of `|G⟩ ⊗ |0…0⟩` — the conclusion of `validator_sound` without running the validator (`solve_sound`).
      The heart is the time-reversed-measurement lemma (`time_reversed_measurement_lemma`).
  (3) Completeness of the solver model (the theorem of Li, Economou and Barnes, for the code as written): for every simple graph on
      at least one vertex without isolated vertex — more generally every stabilizer target none of whose qubits is a product qubit —
      `solve` RETURNS (no assertion, no IndexError in any helper, in any round) and its final working tableau generates exactly the
      group of |0…0⟩ (`solver_complete`), hence `solve_correct`: the returned circuit prepares |G⟩ ⊗ |0…0⟩ under every outcome script,
      and the verified validator accepts it (`validator_accepts_solver`).  Hypothesis: `InverseCircuitComplete` (C11).
  (4) Soundness without `hfinal` (`final_tableau_is_zero`, `solve_sound_unconditional`, `solve_returns_correct`): for every real
      commuting target, WHENEVER the model returns its final tableau generates |0…0⟩, so whatever it returns is correct.
      Hypothesis: `InverseCircuitEndsInZero` (C11).
  (5) The excluded targets, exactly: every graph with an isolated vertex raises IndexError (`isolated_vertex_raises`: finding D3 as a
      theorem about the model), the empty graph raises ValueError; `solve_returns_iff`.
  Both hypotheses are theorems of C11 on branch deep-c11 (`STab.inverseCircuit_complete`, `STab.inverseCircuit_isZero`), discharged at merge.
-/
import GraphiqModel.Proofs.Check
import GraphiqModel.Proofs.Circuit
import GraphiqModel.Proofs.SolverSoundMain
import GraphiqModel.Proofs.SolverCompleteMain
import GraphiqModel.Proofs.SolverCompleteFlag
import GraphiqModel.Proofs.SolverCompleteFinal
import GraphiqModel.Proofs.SolverCompleteValidator
import GraphiqModel.Proofs.SolverCompleteResources
import GraphiqModel.Proofs.SolverCompleteWires
namespace Graphiq.C02
open Graphiq Graphiq.PRow Graphiq.Tab Graphiq.STab

/-- **Soundness of the validator** (every circuit, every graph, every size): acceptance implies that for every outcome script the
    run succeeds and the final stabilizer group is exactly that of `|G⟩ ⊗ |0…0⟩` -/
theorem validator_sound (ne np : Nat) (ops : List COp) (adj : Nat → Nat → Bool)
    (h : checkGenerates ne np ops adj = true) :
    ∀ script : List Bool, script.length = countMeas ops →
      ∃ s, stabRun ne np .prob script ops = some s ∧
        (STab.ofTab s.t).n = np + ne ∧ ∀ p, (STab.ofTab s.t).Spn p ↔ (targetSTab np ne adj).Spn p := by
  intro script hl
  obtain ⟨s, hs, se⟩ := checkGenerates_sound ne np ops adj h script hl
  exact ⟨s, hs, se.n_eq, fun p => ⟨se.sub p, se.sup p⟩⟩

/-- in the accepted final state every emitter is disentangled in |0⟩: `+Z_e` is in the group for every emitter index -/
theorem emitters_in_ket0 (ne np : Nat) (ops : List COp) (adj : Nat → Nat → Bool)
    (h : checkGenerates ne np ops adj = true) (script : List Bool) (hl : script.length = countMeas ops)
    (e : Nat) (he : e < ne) :
    ∃ s, stabRun ne np .prob script ops = some s ∧ (STab.ofTab s.t).Spn (PRow.Zq (np + e)) := by
  obtain ⟨s, hs, _, hiff⟩ := validator_sound ne np ops adj h script hl
  refine ⟨s, hs, (hiff _).mpr ?_⟩
  have hr : (targetSTab np ne adj).row (np + e) = PRow.Zq (np + e) := by
    simp only [targetSTab]
    have : ¬ (np + e < np) := by omega
    simp [this]
  rw [← hr]
  exact spn_gen (targetSTab np ne adj) (np + e) (by show np + e < np + ne; omega)

/-- and every graph-state generator `X_v ∏_{w ~ v} Z_w` of the target is in the group -/
theorem photons_in_graph_state (ne np : Nat) (ops : List COp) (adj : Nat → Nat → Bool)
    (h : checkGenerates ne np ops adj = true) (script : List Bool) (hl : script.length = countMeas ops)
    (v : Nat) (hv : v < np) :
    ∃ s, stabRun ne np .prob script ops = some s ∧
      (STab.ofTab s.t).Spn ⟨fun j => decide (j = v), fun j => decide (j < np) && adj v j, false, false⟩ := by
  obtain ⟨s, hs, _, hiff⟩ := validator_sound ne np ops adj h script hl
  refine ⟨s, hs, (hiff _).mpr ?_⟩
  have hr : (targetSTab np ne adj).row v = ⟨fun j => decide (j = v), fun j => decide (j < np) && adj v j, false, false⟩ := by
    simp [targetSTab, hv]
  rw [← hr]
  exact spn_gen (targetSTab np ne adj) v (by show v < np + ne; omega)

/-- statement kept visible (used by C10): for every simple graph the solver returns a circuit accepted by the validator.  As it stands it
    is FALSE for the code and the model (graphs with an isolated vertex raise, D3 / `isolated_vertex_raises`; the empty graph raises);
    with the hypotheses "at least one vertex, no isolated vertex" it is proved for the solver model: `validator_accepts_solver` -/
def solver_correct_statement (solve : (np : Nat) → (Nat → Nat → Bool) → Option (Nat × List COp)) : Prop :=
  ∀ (np : Nat) (adj : Nat → Nat → Bool), (∀ i j, adj i j = adj j i) → (∀ i, adj i i = false) →
    ∃ ne ops, solve np adj = some (ne, ops) ∧ checkGenerates ne np ops adj = true

/-! ## Soundness of the solver model -/

/-- **Time-reversed measurement (all sizes, both outcomes).**  `t`: a real commuting generating set on `np + ne` qubits whose group
    contains `+Z` on emitter `e` (the emitter is disentangled in |0⟩).  From ANY valid Clifford tableau whose stabilizer group is that
    of `CNOT(e→p)·H_e·t` (what the solver turns its working tableau into when it records the operation), with ANY remaining outcome
    script, the compiled `MeasurementCNOTandReset(e→p)` — Z-measurement of the emitter, X on the photon iff the outcome is 1, reset
    of the emitter to |0⟩ — succeeds, keeps the tableau valid, and ends in exactly the signed group of `t`. -/
theorem time_reversed_measurement_lemma (np ne e p : Nat) (he : e < ne) (hp : p < np) (t : STab) (hn : t.n = np + ne)
    (hgood : t.Good) (hZ : t.Spn (PRow.Zq (np + e))) (rs : RunState)
    (hvalid : rs.t.Valid) (hreal : rs.t.StabReal) (hrn : rs.t.n = np + ne)
    (hrs : ∀ b, (STab.ofTab rs.t).Spn b ↔ ∃ a, t.Spn a ∧ PRow.EqOn (np + ne) (PRow.cnot (np + e) p (PRow.h (np + e) a)) b) :
    ∃ rs', stepOp np (np + ne) .prob rs (.mcr ⟨.e, e⟩ ⟨.p, p⟩ 0) = some rs' ∧ rs'.t.Valid ∧ rs'.t.n = np + ne ∧
      ∀ b, (STab.ofTab rs'.t).Spn b ↔ t.Spn b := by
  obtain ⟨rs', h1, h2, h3⟩ := Solver.mcr_tab_key np ne e p he hp t hn hgood hZ rs ⟨hvalid, hreal, hrn⟩
    (Solver.pset_ext hrs)
  exact ⟨rs', h1, h2.valid, h2.n_eq, fun b => by
    show Solver.gspan rs'.t b ↔ _
    rw [h3]⟩

/-- **Soundness of the solver model, any stabilizer target** (`Good`: real, mutually commuting generators).  If `solve target`
    returns `s` and the final working tableau of the solver generates the group of |0…0⟩ (`hfinal`: equal canonical forms), then the circuit it recorded (`s.cops`: the operation list
    the driver prints and the harness compares with the implementation's), run by the tableau semantics from all-|0⟩ under EVERY
    outcome script (of any length), succeeds, stays valid and ends in exactly the signed group of `target ⊗ |0…0⟩`. -/
theorem solve_sound_stabilizer (target : STab) (hg : target.Good) (s : Solver.St) (h : Solver.solve target = .ok s)
    (hfinal : s.t.sameGroup (STab.zero (target.n + s.ne)) = true) (script : List Bool) :
    ∃ rs, stabRun s.ne target.n .prob script s.cops = some rs ∧ rs.t.Valid ∧
      (STab.ofTab rs.t).n = target.n + s.ne ∧
      ∀ p, (STab.ofTab rs.t).Spn p ↔ (Solver.withEmitters target s.ne).Spn p := by
  obtain ⟨rs, h1, h2, h3⟩ := Solver.solve_run_zero target hg s h hfinal script
  exact ⟨rs, h1, h2, h3.n_eq.trans (Solver.withEmitters_n target s.ne), fun p => ⟨h3.sub p, h3.sup p⟩⟩

/-- **Soundness of the solver model on graph targets** — the conclusion of `validator_sound` without running the validator: for
    every symmetric adjacency (any size), if `solve` returns `s` with a final working tableau generating the group of |0…0⟩, then under EVERY outcome script the
    recorded circuit ends with the photons exactly in |G⟩ (signs included) and every emitter in |0⟩. -/
theorem solve_sound (np : Nat) (adj : Nat → Nat → Bool) (hsym : ∀ i j, adj i j = adj j i) (s : Solver.St)
    (h : Solver.solve (graphSTab np adj) = .ok s) (hfinal : s.t.sameGroup (STab.zero (np + s.ne)) = true) :
    ∀ script : List Bool, ∃ rs, stabRun s.ne np .prob script s.cops = some rs ∧ rs.t.Valid ∧
      (STab.ofTab rs.t).n = np + s.ne ∧ ∀ p, (STab.ofTab rs.t).Spn p ↔ (targetSTab np s.ne adj).Spn p := by
  intro script
  obtain ⟨rs, h1, h2, h3⟩ := Solver.solve_run_zero (graphSTab np adj) (Solver.graphSTab_good np adj hsym) s h hfinal script
  have h4 := h3.trans (Solver.withEmitters_graph np s.ne adj)
  exact ⟨rs, h1, h2, h4.n_eq, fun p => ⟨h4.sub p, h4.sup p⟩⟩

/-- in the solver's circuit every emitter ends disentangled in |0⟩, under every outcome script -/
theorem solve_emitters_in_ket0 (np : Nat) (adj : Nat → Nat → Bool) (hsym : ∀ i j, adj i j = adj j i) (s : Solver.St)
    (h : Solver.solve (graphSTab np adj) = .ok s) (hfinal : s.t.sameGroup (STab.zero (np + s.ne)) = true) (script : List Bool) (e : Nat) (he : e < s.ne) :
    ∃ rs, stabRun s.ne np .prob script s.cops = some rs ∧ (STab.ofTab rs.t).Spn (PRow.Zq (np + e)) := by
  obtain ⟨rs, hs, _, _, hiff⟩ := solve_sound np adj hsym s h hfinal script
  refine ⟨rs, hs, (hiff _).mpr ?_⟩
  have hr : (targetSTab np s.ne adj).row (np + e) = PRow.Zq (np + e) := by
    simp only [targetSTab]
    have : ¬ (np + e < np) := by omega
    simp [this]
  rw [← hr]
  exact spn_gen (targetSTab np s.ne adj) (np + e) (by show np + e < np + s.ne; omega)

/-- and every graph-state generator `X_v ∏_{w ~ v} Z_w` is in the final group, under every outcome script -/
theorem solve_photons_in_graph_state (np : Nat) (adj : Nat → Nat → Bool) (hsym : ∀ i j, adj i j = adj j i) (s : Solver.St)
    (h : Solver.solve (graphSTab np adj) = .ok s) (hfinal : s.t.sameGroup (STab.zero (np + s.ne)) = true) (script : List Bool) (v : Nat) (hv : v < np) :
    ∃ rs, stabRun s.ne np .prob script s.cops = some rs ∧
      (STab.ofTab rs.t).Spn ⟨fun j => decide (j = v), fun j => decide (j < np) && adj v j, false, false⟩ := by
  obtain ⟨rs, hs, _, _, hiff⟩ := solve_sound np adj hsym s h hfinal script
  refine ⟨rs, hs, (hiff _).mpr ?_⟩
  have hr : (targetSTab np s.ne adj).row v = ⟨fun j => decide (j = v), fun j => decide (j < np) && adj v j, false, false⟩ := by
    simp [targetSTab, hv]
  rw [← hr]
  exact spn_gen (targetSTab np s.ne adj) v (by show v < np + s.ne; omega)

/-- the recorded circuit emits every photon exactly once and uses `max height` emitters (bookkeeping, `Proofs/Solver.lean`) -/
theorem solve_structure (target : STab) (s : Solver.St) (h : Solver.solve target = .ok s) :
    s.np = target.n ∧ (∀ p, Solver.emitCount p s.circ = if p < target.n then 1 else 0) ∧
    Solver.determineNEmitters target = .ok s.ne :=
  ⟨(Solver.solve_emits_each_photon_once target s h).1, (Solver.solve_emits_each_photon_once target s h).2,
   Solver.solve_emitter_count target s h⟩

/-- preservation: `solve` keeps its working tableau a real, mutually commuting generating set on `np + ne` qubits (every helper does:
    gates, row sums, `rref`, the time-reversed measurement), and never changes the register counts -/
theorem solve_keeps_tableau_good (target : STab) (hg : target.Good) (s : Solver.St) (h : Solver.solve target = .ok s) :
    s.t.Good ∧ s.t.n = target.n + s.ne ∧ s.np = target.n :=
  ⟨(Solver.solve_inv target hg s h).good, (Solver.solve_inv target hg s h).n_eq, (Solver.solve_inv target hg s h).np_eq⟩

/-- `rref` (echelon gauge), as the solver uses it between steps, keeps the signed stabilizer group and the `Good`-ness (all sizes) -/
theorem rref_keeps_group (t t' : STab) (brs : List String) (hg : t.Good) (hr : t.rref = .ok (t', brs)) :
    t'.n = t.n ∧ t'.Good ∧ ∀ p, t'.Spn p ↔ t.Spn p :=
  ⟨(STab.rref_spanEq_ss t t' brs hg hr).1.n_eq.symm, (STab.rref_spanEq_ss t t' brs hg hr).2,
   fun p => ⟨(STab.rref_spanEq_ss t t' brs hg hr).1.sup p, (STab.rref_spanEq_ss t t' brs hg hr).1.sub p⟩⟩

/-! ## Completeness of the solver model (Li–Economou–Barnes) -/

/-- completeness of `inverse_circuit` (property C11, proved on branch deep-c11 as `STab.inverseCircuit_complete`): on every valid
    stabilizer tableau — real, commuting generators that are independent over GF(2) (no non-empty selection multiplies to the identity
    string; on dependent generators `canonical_form` hits its final assertion, so `Good` alone would make the hypothesis false) — it
    returns and reaches |0…0⟩.  The independence clause is, verbatim, C11's `STab.Indep`, so at merge the hypothesis is discharged by
    `fun t hg hi => STab.inverseCircuit_complete t hg hi`.  It is the only hypothesis of the completeness theorems below. -/
abbrev InverseCircuitComplete : Prop :=
  ∀ t : STab, t.Good →
    (∀ S : Nat → Bool, (∀ j, j < t.n → parityTo t.n (fun i => S i && (t.row i).x j) = false ∧
        parityTo t.n (fun i => S i && (t.row i).z j) = false) → ∀ i, i < t.n → S i = false) →
    ∃ t' c, t.inverseCircuit = .ok (t', c) ∧ t'.isZero = true

/-- **completeness, full statement**: for every simple graph on at least one vertex without isolated vertex the solver model returns,
    its final working tableau generates exactly the signed group of |0…0⟩ (`SpanEq`, what soundness consumes), and the executable test of
    this (`sameGroup`, the hypothesis `hfinal` of `solve_sound`, printed by the driver as `zero=1` and required by the harness on every
    input) succeeds.  `0 < np`: on the empty graph `determine_n_emitters` raises (`max` of an empty list); isolated vertices: D3. -/
def solver_complete_statement : Prop :=
  ∀ (np : Nat) (adj : Nat → Nat → Bool), 0 < np → (∀ i j, adj i j = adj j i) → (∀ i, adj i i = false) →
    (∀ i, i < np → ∃ j, j < np ∧ adj i j = true) →
    ∃ s, Solver.solve (graphSTab np adj) = .ok s ∧ SpanEq s.t (STab.zero (np + s.ne)) ∧
      s.t.sameGroup (STab.zero (np + s.ne)) = true

/-- **Completeness of the time-reversed solver** (every graph without isolated vertex, every size), under completeness of
    `inverse_circuit`: no helper raises in any round, both assertions after the loop hold, the replay of the inverse circuit is
    accepted, and the final tableau generates the group of |0…0⟩ — semantically and as the executable flag -/
theorem solver_complete (hinv : InverseCircuitComplete) : solver_complete_statement := by
  intro np adj hnp hsym hirr hiso
  obtain ⟨s, hs, hse⟩ := Solver.solve_complete_graph hinv np adj hnp hsym hirr hiso
  have inv := Solver.solve_inv (graphSTab np adj) (Solver.graphSTab_good np adj hsym) s hs
  exact ⟨s, hs, hse, Solver.sameGroup_zero _ s.t inv.n_eq inv.good hse⟩

/-- **the flag `zero=1` is exact**: a real commuting tableau passes the driver's test `sameGroup · (zero n)` iff it generates the signed
    group of |0…0⟩ (`sameGroup_sound` and its converse on this group, proved through the Z loop of `canonical_form`) -/
theorem final_flag_exact (n : Nat) (t : STab) (hn : t.n = n) (hg : t.Good) :
    t.sameGroup (STab.zero n) = true ↔ SpanEq t (STab.zero n) :=
  ⟨sameGroup_sound t _, Solver.sameGroup_zero n t hn hg⟩

/-- the same for **any stabilizer target**: real, commuting, independent generators on at least one qubit, no qubit of which is a
    product qubit (`NotProd`: no group element is supported on that qubit alone) -/
theorem solver_complete_stabilizer (hinv : InverseCircuitComplete) (target : STab) (hg : target.Good) (hi : target.LinIndep)
    (hn : 0 < target.n) (hnp : ∀ p, p < target.n → target.NotProd p) :
    ∃ s, Solver.solve target = .ok s ∧ SpanEq s.t (STab.zero (target.n + s.ne)) ∧
      s.t.sameGroup (STab.zero (target.n + s.ne)) = true := by
  obtain ⟨s, hs, hse⟩ := Solver.solve_complete_stabilizer hinv target hg hi hn hnp
  have inv := Solver.solve_inv target hg s hs
  exact ⟨s, hs, hse, Solver.sameGroup_zero _ s.t inv.n_eq inv.good hse⟩

/-- **The solver is correct** (property C02 for the model, every graph without isolated vertex, every size, every outcome script):
    `solve` returns a state whose recorded circuit, run from all-|0⟩ by the tableau semantics under EVERY outcome script, ends with the
    photons exactly in |G⟩ (signs included) and every emitter in |0⟩ — `solve_sound` with its hypothesis discharged by `solver_complete` -/
theorem solve_correct (hinv : InverseCircuitComplete) (np : Nat) (adj : Nat → Nat → Bool) (hnp : 0 < np)
    (hsym : ∀ i j, adj i j = adj j i) (hirr : ∀ i, adj i i = false) (hiso : ∀ i, i < np → ∃ j, j < np ∧ adj i j = true) :
    ∃ s, Solver.solve (graphSTab np adj) = .ok s ∧
      ∀ script : List Bool, ∃ rs, stabRun s.ne np .prob script s.cops = some rs ∧ rs.t.Valid ∧
        (STab.ofTab rs.t).n = np + s.ne ∧ ∀ p, (STab.ofTab rs.t).Spn p ↔ (targetSTab np s.ne adj).Spn p := by
  obtain ⟨s, hs, hfinal, _⟩ := solver_complete hinv np adj hnp hsym hirr hiso
  refine ⟨s, hs, fun script => ?_⟩
  obtain ⟨rs, h1, h2, h3⟩ := Solver.solve_run (graphSTab np adj) (Solver.graphSTab_good np adj hsym) s hs hfinal script
  have h4 := h3.trans (Solver.withEmitters_graph np s.ne adj)
  exact ⟨rs, h1, h2, h4.n_eq, fun p => ⟨h4.sub p, h4.sup p⟩⟩

/-- **correctness for any stabilizer target** without product qubit: the returned circuit prepares exactly `target ⊗ |0…0⟩` (signed group)
    under every outcome script -/
theorem solve_correct_stabilizer (hinv : InverseCircuitComplete) (target : STab) (hg : target.Good) (hi : target.LinIndep)
    (hn : 0 < target.n) (hnp : ∀ p, p < target.n → target.NotProd p) :
    ∃ s, Solver.solve target = .ok s ∧
      ∀ script : List Bool, ∃ rs, stabRun s.ne target.n .prob script s.cops = some rs ∧ rs.t.Valid ∧
        (STab.ofTab rs.t).n = target.n + s.ne ∧ ∀ p, (STab.ofTab rs.t).Spn p ↔ (Solver.withEmitters target s.ne).Spn p := by
  obtain ⟨s, hs, hfinal, _⟩ := solver_complete_stabilizer hinv target hg hi hn hnp
  refine ⟨s, hs, fun script => ?_⟩
  obtain ⟨rs, h1, h2, h3⟩ := Solver.solve_run target hg s hs hfinal script
  exact ⟨rs, h1, h2, h3.n_eq.trans (Solver.withEmitters_n target s.ne), fun p => ⟨h3.sub p, h3.sup p⟩⟩

/-! ### The steps of the completeness argument (sub-goals 1–4), each a theorem of its own -/

/-- the loop invariant before the round that absorbs photon `m - 1` (`Solver.RInv`): real commuting independent generators on
    `np + ne` qubits; photons `m..np-1` absorbed (column literal: one generator is `+Z_q`, no other acts on `q`); no remaining photon is a
    product qubit; every cut left of the photon to be absorbed has height at most `ne` -/
abbrev LoopInvariant (np ne m : Nat) (s : Solver.St) : Prop := Solver.RInv (fun _ => False) np ne m s

/-- the invariant holds when the loop starts (`ne = determine_n_emitters(target)`) -/
theorem loop_invariant_initially (target : STab) (hg : target.Good) (hi : target.LinIndep) (ne : Nat)
    (hdet : Solver.determineNEmitters target = .ok ne) (hnp : ∀ p, p < target.n → target.NotProd p) :
    LoopInvariant target.n ne target.n { np := target.n, ne := ne, t := Solver.withEmitters target ne, circ := [] } :=
  Solver.rinv_init (fun _ => False) target hg hi ne hdet (fun p hp _ => hnp p hp) (fun _ _ h => h.elim)

/-- **sub-goal 1a — the row helpers never raise**: `_add_one_qubit_gate` (because `simplify_local_clifford` is total, C20), the loop
    over the emitters with `_change_pauli_type`, the sign repair -/
theorem helpers_return (s : Solver.St) (gs : List Cliff.Gen) (q g e : Nat) (skip : Bool) (hn : s.t.n = s.np + s.ne) (he : e < s.ne) :
    (∃ s', Solver.addOneQubit s gs q = .ok s') ∧ (∃ s', Solver.allEmittersToZ s g skip = .ok s') ∧
    (∃ s', Solver.fixSign s g e = .ok s') :=
  ⟨Solver.addOneQubit_ok s gs q, (Solver.allEmittersToZ_ok s g skip hn).imp fun _ h => h.1,
   (Solver.fixSign_ok s g e hn he).imp fun _ h => h.1⟩

/-- **sub-goal 1b — `assert not np.any(x_matrix[generator])` of `_transform_generator_emitters` holds** as soon as the generator has no
    X/Y on any qubit -/
theorem transform_generator_emitters_returns (s : Solver.St) (g e : Nat) (hn : s.t.n = s.np + s.ne) (he : e < s.ne)
    (hx : ∀ j, j < s.t.n → (s.t.row g).x j = false) : ∃ s', Solver.transformGeneratorEmitters s g e = .ok s' :=
  (Solver.transformGeneratorEmitters_ok s g e hn he hx).imp fun _ h => h.1

/-- **sub-goal 2a — a free emitter exists when the height drops** (`assert len(possible_generators) > 0` never fires): in the echelon
    gauge, with the photons right of `p` absorbed and `h(p) < ne`, some generator acts on no photon -/
theorem free_emitter_exists (np ne p : Nat) (t : STab) (piv : Nat → Nat) (he : STab.Echelon t piv) (hn : t.n = np + ne) (hp : p < np)
    (hlit : ∀ q, p + 1 ≤ q → q < np → t.Lit q) (hl : List Int) (hh : t.heightFuncList = .ok hl)
    (hcond : hl.getD p 0 < (ne : Int)) : ∃ i, i < t.n ∧ ∀ j, j < np → t.ptype i j = 0 :=
  Solver.free_emitter_exists np ne p t piv he hn hp hlit hl hh hcond

/-- **sub-goal 2b — the time-reversed measurement returns** when some generator acts on no photon and no generator is the identity;
    it applies gates on the emitters reaching a tableau with `+Z` on the chosen emitter, then `H`, `CNOT(emitter → photon)` -/
theorem time_reversed_measurement_returns (s : Solver.St) (photon : Nat) (hn : s.t.n = s.np + s.ne) (hg : s.t.Good)
    (hex : ∃ i, i < s.t.n ∧ ∀ j, j < s.np → s.t.ptype i j = 0)
    (hnz : ∀ i, i < s.t.n → ∃ j, j < s.t.n ∧ s.t.ptype i j ≠ 0) :
    ∃ s', Solver.timeReversedMeasurement s photon = .ok s' := by
  obtain ⟨s', _, _, h, _⟩ := Solver.timeReversedMeasurement_ok s photon hn hg hex hnz
  exact ⟨s', h⟩

/-- **sub-goal 2c — the generator starting at photon `p` acts on an emitter** when `p` is not a product qubit and the photons right of
    `p` are absorbed (so `emitter_indices[0]` exists), and it is trivial on the absorbed photons -/
theorem generator_at_photon_acts_on_emitter (np p : Nat) (t : STab) (hlit : ∀ q, p + 1 ≤ q → q < np → t.Lit q)
    (hnp : t.NotProd p) (i : Nat) (hi : i < t.n) (hlm : t.leftmost i = some p) :
    (∃ c, np ≤ c ∧ c < t.n ∧ t.ptype i c ≠ 0) ∧ ∀ j, p < j → j < np → t.ptype i j = 0 :=
  ⟨(Solver.absorb_hyps np p t hlit hnp).1 i hi hlm, (Solver.absorb_hyps np p t hlit hnp).2 i hi hlm⟩

/-- **sub-goal 3 — every round returns and re-establishes the invariant**; after it photon `p` is disentangled in |0⟩ (column literal) -/
theorem round_returns (np ne p : Nat) (hp : p < np) (s : Solver.St) (h : LoopInvariant np ne (p + 1) s) :
    ∃ s', Solver.photonRound s (p + 1) = .ok s' ∧ LoopInvariant np ne p s' ∧ s'.t.Lit p := by
  obtain ⟨s', h1, h2, _⟩ := Solver.round_ok (fun _ => False) np ne p hp (fun f => f) s h
  exact ⟨s', h1, h2, h2.lit p (Nat.le_refl _) hp⟩

/-- **the main loop returns** with every photon absorbed -/
theorem photon_loop_returns (np ne m : Nat) (s : Solver.St) (h : LoopInvariant np ne m s) :
    ∃ s', Solver.photonLoop s ((List.range m).reverse.map (· + 1)) = .ok s' ∧ LoopInvariant np ne 0 s' :=
  Solver.photonLoop_ok (fun _ => False) np ne m (fun _ _ f => f) s h

/-- **sub-goal 4a — after the last `rref` generator `q` is exactly `+Z_q` for every photon** (the two assertions of `solve`) -/
theorem photons_on_the_diagonal (t : STab) (piv : Nat → Nat) (he : STab.Echelon t piv) (np : Nat) (hnp : np ≤ t.n)
    (hlit : ∀ q, q < np → t.Lit q) : ∀ q, q < np → PRow.EqOn t.n (t.row q) (PRow.Zq q) :=
  Solver.echelon_lit_rows t piv he np hnp hlit

/-- **sub-goal 4b — `inverse_circuit` emits only gates the replay accepts** (H, P, X anywhere; CNOT, CZ between emitters) when every
    photon column is literal -/
theorem inverse_circuit_touches_emitters_only (t t' : STab) (circ : List Gate) (np : Nat) (hnp : np ≤ t.n) (hg : t.Good)
    (hlit : ∀ q, q < np → t.Lit q) (h : t.inverseCircuit = .ok (t', circ)) : ∀ g, g ∈ circ → STab.Gate.okFor np g :=
  STab.inverseCircuit_gates_ok t t' circ np hnp hg STab.canonicalForm_lit hlit h

/-- **`rref` returns on every independent generating set, in echelon form** (its fuel `n + 1` suffices, its assertions never fire),
    and keeps literal columns literal -/
theorem rref_returns (t : STab) (hi : t.LinIndep) :
    ∃ t' brs piv, t.rref = .ok (t', brs) ∧ STab.Echelon t' piv ∧ ∀ q, q < t.n → t.Lit q → t'.Lit q := by
  obtain ⟨t', brs, piv, h1, h2⟩ := STab.rref_ok_of_indep t hi
  exact ⟨t', brs, piv, h1, h2, fun q hq hl => STab.rref_lit t t' brs q hq hl h1⟩

/-! ### Non-vacuity: the 3-photon linear cluster generated by one emitter (H e; CNOT e→p2; H e; CNOT e→p1; H e; CNOT e→p0; H p0; H e; measure-and-reset is not needed) -/
def lin3ops : List COp :=
  [.gate1 .H ⟨.e, 0⟩, .cnot ⟨.e, 0⟩ ⟨.p, 2⟩, .gate1 .H ⟨.e, 0⟩, .cnot ⟨.e, 0⟩ ⟨.p, 1⟩, .gate1 .H ⟨.e, 0⟩,
   .cnot ⟨.e, 0⟩ ⟨.p, 0⟩, .gate1 .H ⟨.p, 0⟩, .gate1 .H ⟨.e, 0⟩, .mcr ⟨.e, 0⟩ ⟨.p, 0⟩ 0, .gate1 .H ⟨.p, 0⟩,
   .gate1 .H ⟨.p, 1⟩, .gate1 .H ⟨.p, 1⟩]

def lin3adj : Nat → Nat → Bool := fun i j => (i == 0 && j == 1) || (i == 1 && j == 0) || (i == 1 && j == 2) || (i == 2 && j == 1)

example : countMeas lin3ops = 2 := by decide

/-- the hypotheses of `solve_sound` are met by the 3-photon linear cluster: the model solver returns (one emitter, one
    measure-and-reset in the circuit) and its final working tableau generates the group of |0…0⟩ -/
def solveOk (np : Nat) (adj : Nat → Nat → Bool) (ne nmcr : Nat) : Bool :=
  match Solver.solve (graphSTab np adj) with
  | .ok s => s.t.sameGroup (STab.zero (np + s.ne)) && decide (s.ne = ne) && decide ((s.circ.filter fun o => match o with | .mcr _ _ => true | _ => false).length = nmcr)
  | .error _ => false

example : ∀ i j, lin3adj i j = lin3adj j i := by
  intro i j; simp only [lin3adj]; cases h1 : (i == 0) <;> cases h2 : (j == 1) <;> cases h3 : (i == 1) <;> cases h4 : (j == 0) <;>
    cases h5 : (j == 2) <;> cases h6 : (i == 2) <;> rfl
example : solveOk 3 lin3adj 1 1 = true := by decide +kernel
example : (graphSTab 3 lin3adj).isGood = true := by decide
example : (match (graphSTab 3 lin3adj).rref with | .ok (t', _) => t'.isGood | .error _ => false) = true := by decide +kernel

/-- the 4-cycle needs two emitters and two time-reversed measurements -/
def sq4adj : Nat → Nat → Bool := fun i j => (i < 4 && j < 4) && ((i + 1) % 4 == j || (j + 1) % 4 == i)
example : solveOk 4 sq4adj 2 2 = true := by decide +kernel

/-- a state meeting the hypotheses of `time_reversed_measurement_lemma` (`np = ne = 1`): `t = ⟨Z_p, Z_e⟩`, and the run state
    obtained by applying `H_e`, `CNOT(e→p)` to |00⟩ has the group `⟨Z_e Z_p, X_e X_p⟩ = CNOT·H·t` -/
example : (STab.zero 2).Spn (PRow.Zq (1 + 0)) := spn_gen (STab.zero 2) 1 (by decide)
example : (match stabRun 1 1 .prob [true] [.gate1 .H ⟨.e, 0⟩, .cnot ⟨.e, 0⟩ ⟨.p, 0⟩, .mcr ⟨.e, 0⟩ ⟨.p, 0⟩ 0] with
    | some rs => (STab.ofTab rs.t).sameGroup (STab.zero 2) | none => false) = true := by decide +kernel

/-! ### Resources of the returned circuit (Li–Economou–Barnes) -/

/-- **resource theorem**: on every stabilizer target without product qubit the solver model returns a circuit with exactly one emitter
    measurement (`MeasurementCNOTandReset`) per descent `h(p) < h(p-1)` of the target's height function (`Solver.descents`), exactly one
    emission per photon, and `max h` emitters.  (The test `height_list[j] < height_list[j-1]` of round `j` is evaluated on the working
    tableau, but the cuts left of the current photon are never touched, so it sees the target's heights.) -/
theorem measurement_count_stabilizer (hinv : InverseCircuitComplete) (target : STab) (hg : target.Good) (hi : target.LinIndep)
    (hn : 0 < target.n) (hnp : ∀ p, p < target.n → target.NotProd p) :
    ∃ s hl, Solver.solve target = .ok s ∧ target.heightFuncList = .ok hl ∧
      Solver.mcrCount s.circ = Solver.descents hl target.n ∧
      (∀ p, Solver.emitCount p s.circ = if p < target.n then 1 else 0) ∧ Solver.determineNEmitters target = .ok s.ne := by
  obtain ⟨s, hl, hs, hh, hc⟩ := Solver.solve_mcr_count hinv target hg hi hn hnp
  exact ⟨s, hl, hs, hh, hc, (solve_structure target s hs).2.1, (solve_structure target s hs).2.2⟩

/-- the same on graphs (at least one vertex, no isolated vertex) -/
theorem measurement_count (hinv : InverseCircuitComplete) (np : Nat) (adj : Nat → Nat → Bool) (hnp : 0 < np)
    (hsym : ∀ i j, adj i j = adj j i) (hirr : ∀ i, adj i i = false) (hiso : ∀ i, i < np → ∃ j, j < np ∧ adj i j = true) :
    ∃ s hl, Solver.solve (graphSTab np adj) = .ok s ∧ (graphSTab np adj).heightFuncList = .ok hl ∧
      Solver.mcrCount s.circ = Solver.descents hl np ∧
      (∀ p, Solver.emitCount p s.circ = if p < np then 1 else 0) ∧ Solver.determineNEmitters (graphSTab np adj) = .ok s.ne :=
  measurement_count_stabilizer hinv (graphSTab np adj) (Solver.graphSTab_good np adj hsym) (graph_indep np adj) hnp
    (fun p hp => Solver.graph_notProd np adj hirr p hp (hiso p hp))

/-- the linear cluster 0–1–2 has heights `1, 1, 0`: one descent, and the model's circuit has one measure-and-reset (`solveOk 3 lin3adj 1 1`
    above); the 4-cycle has heights `1, 2, 1, 0`: two descents, two measurements (`solveOk 4 sq4adj 2 2`) -/
example : (graphSTab 3 lin3adj).heightFuncList = .ok [1, 1, 0] ∧ Solver.descents [1, 1, 0] 3 = 1 := by
  constructor
  · decide +kernel
  · decide
example : (graphSTab 4 sq4adj).heightFuncList = .ok [1, 2, 1, 0] ∧ Solver.descents [1, 2, 1, 0] 4 = 2 := by
  constructor
  · decide +kernel
  · decide

/-- **emission structure** (the constraint of C04 for this solver): in the returned circuit the first operation in time order on every
    photon wire is the emission CNOT from one of the circuit's emitters — no gate, no measure-and-reset touches a photon before it is
    emitted (`Solver.firstOn np p c` = first operation of the time-ordered list `c` that touches global qubit `p`) -/
theorem emission_first_stabilizer (hinv : InverseCircuitComplete) (target : STab) (hg : target.Good) (hi : target.LinIndep)
    (hn : 0 < target.n) (hnp : ∀ p, p < target.n → target.NotProd p) :
    ∃ s, Solver.solve target = .ok s ∧
      ∀ p, p < target.n → ∃ e, e < s.ne ∧ Solver.firstOn target.n p s.circ = some (.emit e p) :=
  Solver.solve_emission_first hinv target hg hi hn hnp

theorem emission_first (hinv : InverseCircuitComplete) (np : Nat) (adj : Nat → Nat → Bool) (hnp : 0 < np)
    (hsym : ∀ i j, adj i j = adj j i) (hirr : ∀ i, adj i i = false) (hiso : ∀ i, i < np → ∃ j, j < np ∧ adj i j = true) :
    ∃ s, Solver.solve (graphSTab np adj) = .ok s ∧
      ∀ p, p < np → ∃ e, e < s.ne ∧ Solver.firstOn np p s.circ = some (.emit e p) :=
  emission_first_stabilizer hinv (graphSTab np adj) (Solver.graphSTab_good np adj hsym) (graph_indep np adj) hnp
    (fun p hp => Solver.graph_notProd np adj hirr p hp (hiso p hp))

/-- **every operation of the recorded circuit acts on registers of the circuit** (any real commuting target, whenever the model returns):
    wrappers on a qubit `< np + ne`, emissions and measure-and-resets from an emitter `< ne` onto a photon `< np`, emitter–emitter CNOTs
    between two different emitters `< ne` -/
theorem ops_well_formed (target : STab) (hg : target.Good) (s : Solver.St) (h : Solver.solve target = .ok s) :
    ∀ o, o ∈ s.circ → o.WF target.n s.ne :=
  Solver.solve_ops_wf target hg s h

/-- on the linear cluster the model's circuit indeed starts every photon wire with its emission (kernel evaluation) -/
example : (match Solver.solve (graphSTab 3 lin3adj) with
    | .ok s => (List.range 3).all fun p => match Solver.firstOn 3 p s.circ with | some (.emit _ q) => q == p | _ => false
    | .error _ => false) = true := by decide +kernel

/-! ### The excluded targets: the hypotheses of `solver_complete` are sharp (finding D3 as a theorem about the model) -/

/-- **every graph with an isolated vertex makes the solver model raise IndexError** (all sizes; finding D3: the generator `X_p` of the
    isolated photon acts on no emitter, `emitter_indices[0]` fails in `_add_photon_absorption` — every earlier round returns) -/
theorem isolated_vertex_raises (np : Nat) (adj : Nat → Nat → Bool) (hsym : ∀ i j, adj i j = adj j i) (hirr : ∀ i, adj i i = false)
    (hex : ∃ p, p < np ∧ ∀ j, j < np → adj p j = false) : Solver.solve (graphSTab np adj) = .error .index :=
  Solver.solve_isolated_raises_graph np adj hsym hirr hex

/-- the empty graph raises ValueError (`max` of an empty height list) -/
theorem empty_graph_raises (adj : Nat → Nat → Bool) : Solver.solve (graphSTab 0 adj) = .error .value :=
  Solver.solve_empty_raises adj

/-- **exact characterisation**: on simple graphs the solver model returns iff the graph is non-empty and has no isolated vertex -/
theorem solve_returns_iff (hinv : InverseCircuitComplete) (np : Nat) (adj : Nat → Nat → Bool) (hsym : ∀ i j, adj i j = adj j i)
    (hirr : ∀ i, adj i i = false) :
    (∃ s, Solver.solve (graphSTab np adj) = .ok s) ↔ (0 < np ∧ ∀ i, i < np → ∃ j, j < np ∧ adj i j = true) := by
  constructor
  · rintro ⟨s, hs⟩
    refine ⟨?_, ?_⟩
    · apply Nat.pos_of_ne_zero
      intro e
      subst e
      rw [empty_graph_raises adj] at hs; cases hs
    · intro i hi
      apply Classical.byContradiction
      intro hno
      have hiso : ∀ j, j < np → adj i j = false := by
        intro j hj
        cases h : adj i j
        · rfl
        · exact absurd ⟨j, hj, h⟩ hno
      rw [isolated_vertex_raises np adj hsym hirr ⟨i, hi, hiso⟩] at hs; cases hs
  · rintro ⟨hnp, hiso⟩
    obtain ⟨s, hs, _⟩ := solver_complete hinv np adj hnp hsym hirr hiso
    exact ⟨s, hs⟩

/-! ### Soundness without `hfinal`: whatever the solver model returns is correct -/

/-- what `inverse_circuit` returns is the all-|0⟩ tableau (property C11, proved on branch deep-c11 as `STab.inverseCircuit_isZero`; after
    the repair of D42 the synthesis cannot stop anywhere else).  Hypothesis of the three theorems below; discharged at merge by
    `fun t t' c hg h => STab.inverseCircuit_isZero t t' c hg h`. -/
abbrev InverseCircuitEndsInZero : Prop :=
  ∀ (t t' : STab) (c : List Gate), t.Good → t.inverseCircuit = .ok (t', c) → t'.isZero = true

/-- **`hfinal` holds whenever the solver model returns** (every real commuting target, no assumption on its shape): the final working
    tableau generates exactly the signed group of |0…0⟩, and the driver's flag `zero=1` is set -/
theorem final_tableau_is_zero (hzero : InverseCircuitEndsInZero) (target : STab) (hg : target.Good) (s : Solver.St)
    (h : Solver.solve target = .ok s) :
    SpanEq s.t (STab.zero (target.n + s.ne)) ∧ s.t.sameGroup (STab.zero (target.n + s.ne)) = true := by
  have hse := Solver.solve_final_zero hzero target hg s h
  have inv := Solver.solve_inv target hg s h
  exact ⟨hse, Solver.sameGroup_zero _ s.t inv.n_eq inv.good hse⟩

/-- **Soundness of the solver model without `hfinal`, any stabilizer target**: whenever `solve target` returns, the recorded circuit,
    run from all-|0⟩ under EVERY outcome script, succeeds, stays valid and ends in exactly the signed group of `target ⊗ |0…0⟩` -/
theorem solve_sound_unconditional (hzero : InverseCircuitEndsInZero) (target : STab) (hg : target.Good) (s : Solver.St)
    (h : Solver.solve target = .ok s) (script : List Bool) :
    ∃ rs, stabRun s.ne target.n .prob script s.cops = some rs ∧ rs.t.Valid ∧
      (STab.ofTab rs.t).n = target.n + s.ne ∧
      ∀ p, (STab.ofTab rs.t).Spn p ↔ (Solver.withEmitters target s.ne).Spn p :=
  solve_sound_stabilizer target hg s h (final_tableau_is_zero hzero target hg s h).2 script

/-- **whatever the solver model returns on a graph is correct** (every symmetric adjacency, every size, every outcome script): if
    `solve` returns, the recorded circuit prepares |G⟩ ⊗ |0…0⟩ exactly.  This is `solve_sound` with its hypothesis `hfinal` removed; it is
    the form in which the alternate-target solver (C10 `solve_result_correct`, hypothesis `hsolver`) consumes the time-reversed solver. -/
theorem solve_returns_correct (hzero : InverseCircuitEndsInZero) (np : Nat) (adj : Nat → Nat → Bool)
    (hsym : ∀ i j, adj i j = adj j i) (s : Solver.St) (h : Solver.solve (graphSTab np adj) = .ok s) :
    ∀ script : List Bool, ∃ rs, stabRun s.ne np .prob script s.cops = some rs ∧ rs.t.Valid ∧
      (STab.ofTab rs.t).n = np + s.ne ∧ ∀ p, (STab.ofTab rs.t).Spn p ↔ (targetSTab np s.ne adj).Spn p :=
  solve_sound np adj hsym s h
    (final_tableau_is_zero hzero (graphSTab np adj) (Solver.graphSTab_good np adj hsym) s h).2

/-- the time-reversed solver model as a function from graphs to circuits (number of emitters, operation list in time order) — the shape
    in which C10 (`Alt.Parts.solver`) and `solver_correct_statement` use a solver -/
def modelSolver (np : Nat) (adj : Nat → Nat → Bool) : Option (Nat × List COp) :=
  match Solver.solve (graphSTab np adj) with
  | .ok s => some (s.ne, s.cops)
  | .error _ => none

/-- **every circuit the model solver returns generates its target** under every outcome script (the statement `Alt.Generates` of C10,
    for scripts of any length) -/
theorem model_solver_generates (hzero : InverseCircuitEndsInZero) (np : Nat) (adj : Nat → Nat → Bool)
    (hsym : ∀ i j, adj i j = adj j i) (ne : Nat) (ops : List COp) (h : modelSolver np adj = some (ne, ops)) :
    ∀ script : List Bool, ∃ rs, stabRun ne np .prob script ops = some rs ∧ SpanEq (STab.ofTab rs.t) (targetSTab np ne adj) := by
  intro script
  unfold modelSolver at h
  cases hs : Solver.solve (graphSTab np adj) with
  | error e => rw [hs] at h; cases h
  | ok s =>
    rw [hs] at h
    simp only [Option.some.injEq, Prod.mk.injEq] at h
    obtain ⟨rfl, rfl⟩ := h
    obtain ⟨rs, h1, _, h3, h4⟩ := solve_returns_correct hzero np adj hsym s hs script
    exact ⟨rs, h1, h3, fun p hp => (h4 p).1 hp, fun p hp => (h4 p).2 hp⟩

/-- **the verified validator accepts the circuit of the model solver** on every graph on ≥ 1 vertex without isolated vertex (the corrected
    form of `solver_correct_statement`): the solver returns and `checkGenerates` — every outcome script run, final group compared with the
    target through canonical forms — evaluates to `true` (completeness of `sameGroup` on valid tableaux, via C05's `canon_unique`) -/
theorem validator_accepts_solver (hinv : InverseCircuitComplete) (np : Nat) (adj : Nat → Nat → Bool) (hnp : 0 < np)
    (hsym : ∀ i j, adj i j = adj j i) (hirr : ∀ i, adj i i = false) (hiso : ∀ i, i < np → ∃ j, j < np ∧ adj i j = true) :
    ∃ ne ops, modelSolver np adj = some (ne, ops) ∧ checkGenerates ne np ops adj = true := by
  obtain ⟨s, hs, hc⟩ := Solver.checkGenerates_solver hinv np adj hnp hsym hirr hiso
  exact ⟨s.ne, s.cops, by unfold modelSolver; rw [hs], hc⟩

/-- and the model solver returns on every graph on ≥ 1 vertex without isolated vertex -/
theorem model_solver_returns (hinv : InverseCircuitComplete) (np : Nat) (adj : Nat → Nat → Bool) (hnp : 0 < np)
    (hsym : ∀ i j, adj i j = adj j i) (hirr : ∀ i, adj i i = false) (hiso : ∀ i, i < np → ∃ j, j < np ∧ adj i j = true) :
    ∃ ne ops, modelSolver np adj = some (ne, ops) := by
  obtain ⟨s, hs, _⟩ := solver_complete hinv np adj hnp hsym hirr hiso
  exact ⟨s.ne, s.cops, by unfold modelSolver; rw [hs]⟩

/-- the smallest instances of D3 evaluate as the theorem says: K1, 2·K1, K2 + K1 -/
example : (match Solver.solve (graphSTab 1 fun _ _ => false) with | .error .index => true | _ => false) = true := by
  decide +kernel
example : (match Solver.solve (graphSTab 3 fun i j => (i == 0 && j == 1) || (i == 1 && j == 0)) with
    | .error .index => true | _ => false) = true := by decide +kernel

/-! ### Non-vacuity of the completeness theorems -/

/-- the linear cluster and the 4-cycle meet the hypotheses of `solver_complete` / `solve_correct` -/
example : (∀ i, i < 3 → ∃ j, j < 3 ∧ lin3adj i j = true) ∧ ∀ i, lin3adj i i = false := by
  refine ⟨fun i hi => ?_, fun i => ?_⟩
  · have : i = 0 ∨ i = 1 ∨ i = 2 := by omega
    rcases this with e | e | e <;> subst e
    · exact ⟨1, by decide, by decide⟩
    · exact ⟨0, by decide, by decide⟩
    · exact ⟨1, by decide, by decide⟩
  · simp only [lin3adj]
    cases h1 : (i == 0) <;> cases h2 : (i == 1) <;> cases h3 : (i == 2) <;> simp_all

/-- the instance of `InverseCircuitComplete` that the linear cluster uses holds: `inverse_circuit` reaches |0…0⟩ on the final
    echelon tableau of the run (kernel evaluation) -/
example : (match Solver.photonLoop { np := 3, ne := 1, t := Solver.withEmitters (graphSTab 3 lin3adj) 1, circ := [] } [3, 2, 1] with
    | .ok s1 => (match s1.t.rref with
      | .ok (t2, _) => (match t2.inverseCircuit with | .ok (t', _) => t'.isZero | .error _ => false)
      | .error _ => false)
    | .error _ => false) = true := by decide +kernel

/-- a stabilizer target that is not a graph state meets the hypotheses of `solver_complete_stabilizer`: the GHZ state `⟨XXX, ZZI, IZZ⟩`
    (real, commuting; independence and "no product qubit" are what the theorem asks) — the model solver returns on it -/
def ghz3 : STab :=
  { n := 3, row := fun i =>
      if i = 0 then ⟨fun j => decide (j < 3), fun _ => false, false, false⟩
      else if i = 1 then ⟨fun _ => false, fun j => decide (j = 0 ∨ j = 1), false, false⟩
      else ⟨fun _ => false, fun j => decide (j = 1 ∨ j = 2), false, false⟩ }
example : ghz3.isGood = true := by decide
example : (match Solver.solve ghz3 with | .ok s => s.t.sameGroup (STab.zero (3 + s.ne)) | .error _ => false) = true := by
  decide +kernel

theorem ghz3_indep : ghz3.LinIndep :=
  STab.heightFuncList_ok_indep ghz3 [1, 1, 0] (by decide +kernel)

theorem ghz3_notProd (p : Nat) (hp : p < ghz3.n) : ghz3.NotProd p := by
  intro a ha hs
  obtain ⟨S, hS⟩ := Solver.spn_combo ghz3 a ha
  have hn : ghz3.n = 3 := rfl
  rw [hn] at hS hs hp
  have h0 := hS 0 (by omega)
  have h1 := hS 1 (by omega)
  have h2 := hS 2 (by omega)
  simp only [STab.comboX, STab.comboZ, parityTo, ghz3] at h0 h1 h2
  have : p = 0 ∨ p = 1 ∨ p = 2 := by omega
  rcases this with e | e | e <;> subst e
  · have a1 := hs 1 (by omega) (by omega)
    have a2 := hs 2 (by omega) (by omega)
    revert h0 h1 h2
    rw [a1.1, a1.2, a2.1, a2.2]
    cases S 0 <;> cases S 1 <;> cases S 2 <;> simp
  · have a1 := hs 0 (by omega) (by omega)
    have a2 := hs 2 (by omega) (by omega)
    revert h0 h1 h2
    rw [a1.1, a1.2, a2.1, a2.2]
    cases S 0 <;> cases S 1 <;> cases S 2 <;> simp
  · have a1 := hs 0 (by omega) (by omega)
    have a2 := hs 1 (by omega) (by omega)
    revert h0 h1 h2
    rw [a1.1, a1.2, a2.1, a2.2]
    cases S 0 <;> cases S 1 <;> cases S 2 <;> simp

/-- all hypotheses of `solver_complete_stabilizer` (other than `hinv`) are met by the GHZ state, which is not a graph-state tableau -/
example (hinv : InverseCircuitComplete) : ∃ s, Solver.solve ghz3 = .ok s ∧ SpanEq s.t (STab.zero (ghz3.n + s.ne)) ∧
    s.t.sameGroup (STab.zero (ghz3.n + s.ne)) = true :=
  solver_complete_stabilizer hinv ghz3 (isGood_good ghz3 (by decide)) ghz3_indep (by decide) ghz3_notProd

/-- the loop invariant is met at the start of the loop for the 3-photon linear cluster with its one emitter (hypothesis of
    `round_returns` / `photon_loop_returns`) -/
example : LoopInvariant 3 1 3 { np := 3, ne := 1, t := Solver.withEmitters (graphSTab 3 lin3adj) 1, circ := [] } :=
  loop_invariant_initially (graphSTab 3 lin3adj) (Solver.graphSTab_good 3 lin3adj (by
      intro i j; simp only [lin3adj]; cases h1 : (i == 0) <;> cases h2 : (j == 1) <;> cases h3 : (i == 1) <;> cases h4 : (j == 0) <;>
        cases h5 : (j == 2) <;> cases h6 : (i == 2) <;> rfl))
    (graph_indep 3 lin3adj) 1 (by decide +kernel)
    (fun p hp => Solver.graph_notProd 3 lin3adj (by
        intro i; simp only [lin3adj]
        cases h1 : (i == 0) <;> cases h2 : (i == 1) <;> cases h3 : (i == 2) <;> simp_all) p hp (by
        have hp' : p < 3 := hp
        have : p = 0 ∨ p = 1 ∨ p = 2 := by omega
        rcases this with e | e | e <;> subst e
        · exact ⟨1, by decide, by decide⟩
        · exact ⟨0, by decide, by decide⟩
        · exact ⟨1, by decide, by decide⟩))

end Graphiq.C02
