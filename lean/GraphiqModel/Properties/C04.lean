/-
  C04 — generated and mutated circuits respect the photonic emission constraints.

  Property theorems only (helper lemmas live in Proofs/Wire.lean and Proofs/EvoMoves.lean).

  Objects.  `Wire.Circuit` is the wire-level view of a `CircuitDAG` (per-register sequences of node ids, a node table,
  the `_node_id` counter).  `c.step m` is the transition system of the mutation moves of `EvolutionarySolver` /
  `HybridEvolutionarySolver`: it computes the candidate set of the move exactly as the Python filters do and performs
  the edit for the candidate carried by `m` (`none` if `m` is not a candidate).  `initialization ea ma` is
  `EvolutionarySolver.initialization`; `getEmissionAssignment np ne draws` is `get_emission_assignment` driven by the
  results of `np.random.randint`.

  `EmitInv c` := `c.WF` (node ids bounded by `_node_id`, every node exactly on the wires of its quantum registers,
  wires duplicate-free) ∧ `c.Acyclic` (the DAG edge relation induced by the wires, `_in`/`_out` nodes included, has no
  cycle — this is what `validate()` asserts) ∧ `c.EmitC` (no two-qubit operation between two photons; the first node on
  every photon wire is a `Fixed` CNOT from an emitter onto that photon; every later node on that wire is a one-qubit
  gate on it or a classically controlled operation with an emitter control and this photon as target).

  All theorems are for every number of registers, every circuit and every finite history.  What is *not* a theorem:
  that the model is the code (correspondence run, see harness/c04.py).  For the deterministic (time-reversed) and the
  alternate-target solver the theorem is about their *construction order* (`solverCircuit`: every operation is spliced
  in directly after the input nodes, nothing touches a photon once its emission has been placed, except one-qubit gates
  appended at the end); which gates the tableau arithmetic selects is not modelled — the run checks that every
  observed construction history is accepted by `solverCircuit` and yields exactly the returned circuit.
-/
import GraphiqModel.Proofs.EvoMoves
namespace Graphiq.C04
open Graphiq Graphiq.Wire

/-! ## 1. initial population -/

/-- `get_emission_assignment` assigns every photon an existing emitter (`assignment[i] < n_emitter`) and returns one
    entry per photon, whatever the random draws were -/
theorem emission_assignment_in_range (np ne : Nat) (draws ea : List Nat) (hne : 1 ≤ ne) (hnp : 1 ≤ np)
    (h : getEmissionAssignment np ne draws = some ea) : (∀ x, x ∈ ea → x < ne) ∧ ea.length = np :=
  getEmissionAssignment_bound np ne draws ea hne hnp h

/-- `initialization` never raises on in-range assignments and its circuit satisfies the invariant -/
theorem initial_circuit_satisfies_invariant (ea ma : List Nat) (hea : ∀ x, x ∈ ea → x < ma.length)
    (hma : ∀ x, x ∈ ma → x < ea.length) :
    ∃ c, initialization ea ma = Except.ok c ∧ c.EmitInv ∧ c.ne = ma.length ∧ c.np = ea.length :=
  initialization_emitInv ea ma hea hma

/-- the initial circuit of `population_initialization` for any draws of the two assignment functions
    (`get_measurement_assignment` is `randint(n_photon, size=n_emitter)`, i.e. any list of `ne` entries below `np`) -/
theorem initial_population_member_satisfies_invariant (np ne : Nat) (draws ea ma : List Nat) (hne : 1 ≤ ne) (hnp : 1 ≤ np)
    (hea : getEmissionAssignment np ne draws = some ea) (hlen : ma.length = ne) (hma : ∀ x, x ∈ ma → x < np) :
    ∃ c, initialization ea ma = Except.ok c ∧ c.EmitInv := by
  obtain ⟨hlt, hl⟩ := getEmissionAssignment_bound np ne draws ea hne hnp hea
  obtain ⟨c, hc, hinv, _⟩ := initialization_emitInv ea ma (by rw [hlen]; exact hlt) (by rw [hl]; exact hma)
  exact ⟨c, hc, hinv⟩

/-- every circuit the deterministic solver (and the alternate-target solver on top of it) can build in its construction
    order — any choice of gates, any number of emitters — satisfies the invariant -/
theorem deterministic_solver_circuit_satisfies_invariant (ne np : Nat) (ops : List BuildOp) (c : Circuit)
    (h : solverCircuit ne np ops = some c) : c.EmitInv :=
  solverCircuit_emitInv ne np ops c h

/-! ## 2. moves and histories -/

/-- every allowed move (add emitter gate, add photon gate, replace photon / emitter gate, add emitter CNOT, remove op,
    add measure-and-reset — with the fall-through behaviour of the Python) preserves the invariant -/
theorem move_preserves_invariant (c : Circuit) (m : Move) (c' : Circuit) (hinv : c.EmitInv) (h : c.step m = some c') :
    c'.EmitInv :=
  step_preserves c m c' hinv h

/-- … hence every finite history of moves does -/
theorem history_preserves_invariant (c : Circuit) (ms : List Move) (c' : Circuit) (hinv : c.EmitInv)
    (h : c.run ms = some c') : c'.EmitInv :=
  run_preserves c ms c' hinv h

/-- from any initial population member, after any finite sequence of moves -/
theorem evolved_circuit_satisfies_invariant (ea ma : List Nat) (hea : ∀ x, x ∈ ea → x < ma.length)
    (hma : ∀ x, x ∈ ma → x < ea.length) (c0 c' : Circuit) (ms : List Move)
    (h0 : initialization ea ma = Except.ok c0) (h : c0.run ms = some c') : c'.EmitInv := by
  obtain ⟨c, hc, hinv, _⟩ := initialization_emitInv ea ma hea hma
  rw [h0] at hc
  cases hc
  exact run_preserves c0 ms c' hinv h

/-- the hybrid solver: a deterministic solver circuit, then any finite sequence of moves -/
theorem hybrid_evolved_circuit_satisfies_invariant (ne np : Nat) (ops : List BuildOp) (c0 c' : Circuit) (ms : List Move)
    (h0 : solverCircuit ne np ops = some c0) (h : c0.run ms = some c') : c'.EmitInv :=
  run_preserves c0 ms c' (solverCircuit_emitInv ne np ops c0 h0) h

/-- a `Fixed` two-qubit operation (emission CNOT, measure-and-reset placed at initialisation) is never removed,
    changed or taken off one of its wires by a move … -/
theorem fixed_operation_survives_move (c : Circuit) (m : Move) (c' : Circuit) (hinv : c.EmitInv) (h : c.step m = some c')
    (n : Nat) (op : Op) (hn : c.node n = some op) (hfix : op.fixed = true) (hk : op.kind.isTwoQubit = true) :
    c'.node n = some op ∧ ∀ r, n ∈ c.wire r → n ∈ c'.wire r :=
  step_keeps_fixed c m c' hinv.1 h n op hn hfix hk

/-- … nor by a history of moves -/
theorem fixed_operation_survives_history (c : Circuit) (ms : List Move) (c' : Circuit) (hinv : c.EmitInv)
    (h : c.run ms = some c') (n : Nat) (op : Op) (hn : c.node n = some op) (hfix : op.fixed = true)
    (hk : op.kind.isTwoQubit = true) : c'.node n = some op ∧ ∀ r, n ∈ c.wire r → n ∈ c'.wire r :=
  run_keeps_fixed c ms c' hinv h n op hn hfix hk

/-! ## 3. which edge pairs admit a two-qubit insertion -/

/-- the ancestor / descendant sets computed for `find_incompatible_edges` are always complete on a well-formed circuit
    (the executable closedness test that `step` performs never fails) -/
theorem incompatible_edge_search_is_complete (c : Circuit) (hwf : c.WF) (e : Edge) : (c.incompatInfo e).closed = true :=
  incompatInfo_closed c hwf e

/-- soundness of `find_incompatible_edges`: an edge `e2` outside the incompatible set of `e1` is a different edge, lies
    on a different wire, and neither head reaches the other's tail … -/
theorem compatible_edges_are_safe (c : Circuit) (hwf : c.WF) (e1 e2 : Edge) (hv1 : c.validReg e1.r = true)
    (hv2 : c.validReg e2.r = true) (hp1 : e1.pos ≤ (c.wire e1.r).length) (hp2 : e2.pos ≤ (c.wire e2.r).length)
    (hinc : c.isIncompatible e1 (c.incompatInfo e1) e2 = false) :
    e1.r ≠ e2.r ∧ ¬ Relation.ReflTransGen c.E (c.dst e1) (c.src e2) ∧ ¬ Relation.ReflTransGen c.E (c.dst e2) (c.src e1) := by
  obtain ⟨hne, h12, h21⟩ := compatible_of_not_incompatible c e1 e2 hv2 (incompatInfo_closed c hwf e1) hinc
  exact ⟨distinct_wires_of_compatible c e1 e2 hv1 hp1 hp2 hne h12 h21, h12, h21⟩

/-- … and inserting a node on edges none of whose heads reaches any of their tails keeps the DAG acyclic -/
theorem insertion_on_safe_edges_is_acyclic (c : Circuit) (op : Op) (es : List Edge) (hwf : c.WF) (hac : c.Acyclic)
    (hnd : (es.map (·.r)).Nodup)
    (hsafe : ∀ e1, e1 ∈ es → ∀ e2, e2 ∈ es → ¬ Relation.ReflTransGen c.E (c.dst e2) (c.src e1)) :
    (c.insertAt op es).Acyclic :=
  acyclic_insertAt c op es hwf hac hnd hsafe

/-- removing a node never creates a cycle -/
theorem removal_is_acyclic (c : Circuit) (n : Nat) (hac : c.Acyclic) : (c.removeOp n).Acyclic :=
  acyclic_removeOp c n hac

/-! ## 4. the executable check run on every implementation circuit -/

/-- the Boolean check `emitCB` (evaluated by the driver on every circuit the solvers return) implies the emission
    constraints -/
theorem checker_is_sound (c : Circuit) (hwf : c.WF) (h : c.emitCB = true) : c.EmitC :=
  emitCB_sound c hwf h

/-! ## 5. non-vacuity: concrete objects satisfying the hypotheses -/

/-- three photons, two emitters: `initialization([0, 0, 1], [1, 0])` -/
def exC : Circuit := match initialization [0, 0, 1] [1, 0] with
  | .ok c => c
  | .error _ => default

example : initialization [0, 0, 1] [1, 0] = Except.ok exC := by
  obtain ⟨c, hc, _⟩ := initialization_emitInv [0, 0, 1] [1, 0] (by decide) (by decide)
  simp only [exC, hc]

/-- the example circuit satisfies the invariant (hypothesis of the move theorems) -/
example : exC.EmitInv := by
  obtain ⟨c, hc, hinv, _⟩ := initialization_emitInv [0, 0, 1] [1, 0] (by decide) (by decide)
  simp only [exC, hc]
  exact hinv

example : getEmissionAssignment 3 2 [0] = some [0, 0, 1] := by decide
example : exC.wire ⟨.p, 0⟩ = [1, 2, 8] ∧ exC.wire ⟨.e, 0⟩ = [1, 3, 7] ∧ exC.wire ⟨.e, 1⟩ = [5, 8] := by decide

def exMove1 : Move := ⟨.addEmitterCnot, .pair ⟨⟨.e, 0⟩, 1⟩ ⟨⟨.e, 1⟩, 0⟩, 0⟩
def exMove2 : Move := ⟨.addMeasurementCnotAndReset, .pair ⟨⟨.e, 0⟩, 1⟩ ⟨⟨.p, 2⟩, 1⟩, 0⟩
def exMove3 : Move := ⟨.addPhotonOneQubitOp, .node 2, 5⟩
def exMove4 : Move := ⟨.removeOp, .node 9, 0⟩
def exMove5 : Move := ⟨.addMeasurementCnotAndReset, .pair ⟨⟨.e, 0⟩, 2⟩ ⟨⟨.p, 2⟩, 1⟩, 0⟩
def exMove6 : Move := ⟨.addPhotonOneQubitOp, .edge ⟨⟨.p, 2⟩, 1⟩, 5⟩

/-- allowed moves exist (hypothesis `c.step m = some c'`), also in sequence -/
example : (exC.step exMove1).isSome = true ∧ (exC.step exMove2).isSome = true ∧ (exC.step exMove3).isSome = true := by decide
example : (exC.run [exMove1, exMove5, exMove6, exMove3, exMove4]).isSome = true := by decide

/-- a refused choice: after a CNOT from `e0` to `e1`, a CNOT placed before it on `e0` and after it on `e1` would
    close a cycle; `find_incompatible_edges` excludes the pair and `step` returns `none` -/
example : ((exC.step exMove1).bind fun c => c.step ⟨.addEmitterCnot, .pair ⟨⟨.e, 0⟩, 0⟩ ⟨⟨.e, 1⟩, 1⟩, 0⟩).isSome = false := by
  decide

/-- removing a `Fixed` node is not a move -/
example : (exC.step ⟨.removeOp, .node 1, 0⟩).isSome = false := by decide

/-- a `Fixed` two-qubit node exists in the example (hypotheses of `fixed_operation_survives_move`) -/
example : (exC.node 1).map (fun op => (op.fixed, op.kind.isTwoQubit)) = some (true, true) := by decide

example : exC.emitCB = true ∧ exC.wfB = true ∧ exC.acyclicB = true := by decide

/-- a construction history of the time-reversed solver (3-qubit path graph: one emitter) is accepted, one that touches
    a photon after its emission is refused -/
def exBuild : List BuildOp :=
  [.frontGate ⟨.p, 2⟩ [.H, .I], .frontGate ⟨.e, 0⟩ [.H, .I], .emission 0 2, .frontGate ⟨.e, 0⟩ [.H, .I],
   .replaceFront ⟨.e, 0⟩ [.H, .X], .emission 0 1, .frontGate ⟨.e, 0⟩ [.H, .I], .removeFront ⟨.e, 0⟩, .mcr 0 0,
   .emission 0 0, .appendGate 1 .Z]

example : (solverCircuit 1 3 exBuild).isSome = true := by decide
example : (solverCircuit 1 3 (exBuild ++ [.frontGate ⟨.p, 2⟩ [.H]])).isSome = false := by decide
example : (solverCircuit 1 3 (exBuild.take 6)).isSome = false := by decide

end Graphiq.C04
