/-
  C01 — both simulation backends compute the state the circuit defines.

  The model `stabRun` is `CompilerBase.compile` + `StabilizerCompiler.compile_one_gate` on the Clifford-tableau model whose
  operations are proved in C07 to implement Pauli-group (textbook) semantics.

  The density-matrix backend: `DMH.dmRunH` (Proofs/DMCompileH.lean) is the compile loop of `DensityMatrixCompiler` read
  over complex matrices indexed by bit strings (`apply_unitary` with hermitianize, `apply_measurement` with the clipped
  probabilities / the three settings / the `np.isclose` threshold / division by the conditional probability,
  `apply_measurement_controlled_gate`, the reset Kraus pair).  `backends_agree` proves, for every circuit, register mix,
  setting and script, that it returns `ρ(T) = ∏ (1 + g_i)/2` for the tableau `T` the stabilizer loop returns, with the same
  classical record.  What remains testing on this side: that the floating-point numpy code computes what `dmRunH` denotes
  (compared per circuit at 1e-8, and the builders exhaustively for n ≤ 4), see the note before `backends_agree`.
-/
import GraphiqModel.Proofs.Circuit
import GraphiqModel.Proofs.Clifford1
import GraphiqModel.Proofs.DMCompileH
import GraphiqModel.Proofs.DMCompileExec
import GraphiqModel.Proofs.DMCompileRef
import GraphiqModel.Proofs.HilbertBridgeVec
import GraphiqModel.Proofs.HilbertBridgeKronExec
import GraphiqModel.Proofs.HilbertBridgeCommute
namespace Graphiq.C01
open Graphiq Graphiq.PRow Graphiq.Tab

/-- **Every compiled circuit yields a valid tableau on `ne + np` qubits** — any circuit over the whole op alphabet, any length,
    any mix of registers, each measurement setting and any drawn bits (induction over the op list). -/
theorem compile_valid (ne np : Nat) (d : Det) (script : List Bool) (ops : List COp) (hwf : ∀ op, op ∈ ops → op.WF np)
    (s : RunState) (h : stabRun ne np d script ops = some s) : s.t.Valid ∧ s.t.n = ne + np := by
  unfold stabRun stabRunFrom at h
  exact foldlM_ok np (ne + np) d ops hwf _ s ⟨Tab.ket0_valid (ne + np), rfl⟩ h

/-- the same from any valid initial state (`compile(circuit, initial_state=…)`) -/
theorem compile_valid_from (t0 : Tab) (hv : t0.Valid) (np : Nat) (d : Det) (script : List Bool) (ops : List COp)
    (hwf : ∀ op, op ∈ ops → op.WF np) (s : RunState) (h : stabRunFrom t0 np d script ops = some s) :
    s.t.Valid ∧ s.t.n = t0.n := by
  unfold stabRunFrom at h
  exact foldlM_ok np t0.n d ops hwf _ s ⟨hv, rfl⟩ h

/-- registers start in |0⟩ and **photons are indexed before emitters**: photon `j` is qubit `j`, emitter `j` is qubit `np + j` -/
theorem register_indexing (np j : Nat) : qIndex np ⟨.p, j⟩ = j ∧ qIndex np ⟨.e, j⟩ = j + np := ⟨rfl, rfl⟩

theorem starts_in_ket0 (ne np : Nat) (d : Det) (script : List Bool) :
    (stabRun ne np d script []).map (·.t.n) = some (ne + np) ∧
    ∀ i, i < ne + np → (Tab.ket0 (ne + np)).row (i + (ne + np)) = PRow.Zq i := by
  refine ⟨rfl, fun i hi => ?_⟩
  simp only [Tab.ket0]
  have h1 : ¬ (i + (ne + np) < ne + np) := by omega
  simp [h1]

/-- **A measurement's outcome under each setting**: it is random exactly when some stabilizer has an X on the qubit; a random
    outcome is the forced value (settings 0/1) or the next drawn bit (probabilistic), and a drawn bit is consumed only then;
    a deterministic outcome ignores the setting. The classical record receives exactly this outcome. -/
theorem measurement_setting_semantics (s : RunState) (d : Det) (q : Nat) :
    let random := (s.t.pivot q).isSome
    (s.measure d q).2 = (if random then (s.offer d random).1 else (s.t.measScratch q).r) ∧
    (random = true → d = .zero → (s.measure d q).2 = false) ∧
    (random = true → d = .one → (s.measure d q).2 = true) ∧
    (random = true → d = .prob → (s.measure d q).2 = s.script.headD false ∧ (s.measure d q).1.script = s.script.tail) ∧
    (random = false → (s.measure d q).1.script = s.script) := by
  simp only [RunState.measure, RunState.offer, Tab.zMeasure]
  cases hp : s.t.pivot q with
  | none =>
    simp
    cases d <;> simp
  | some p =>
    simp
    cases d <;> simp

theorem record_receives_outcome (np n : Nat) (d : Det) (s s' : RunState) (q : QReg) (creg : Nat)
    (h : stepOp np n d s (.measz q creg) = some s') :
    s'.writes = s.writes ++ [(creg, (s.measure d (qIndex np q)).2)] := by
  simp only [stepOp] at h
  split at h
  · injection h with h; rw [← h]; rfl
  · cases h

/-- **The classical record equals the outcomes, whole run**: the values written to the classical registers are, in
    order, exactly the outcomes of the measurements executed (every measuring operation — Z-measurement, classical
    CNOT/CZ, measure-and-reset — writes its own outcome), one randomness flag per outcome. -/
theorem record_equals_outcomes (ne np : Nat) (d : Det) (script : List Bool) (ops : List COp) (s : RunState)
    (h : stabRun ne np d script ops = some s) : s.writes.map (·.2) = s.outs ∧ s.rand.length = s.outs.length :=
  DMH.stabRun_book ne np d script ops s h

/-- **Each measurement setting, whole run** ("forced 0, forced 1, probabilistic conditioned on the outcomes actually
    drawn"): with `randOuts s` = the outcomes of the random measurements in order and `nRand s` their number —
    forced 0: all of them are 0 and the script is untouched; forced 1: all are 1; probabilistic: they are the first
    `nRand s` drawn bits in order and exactly these were consumed. -/
theorem settings_whole_run (ne np : Nat) (d : Det) (script : List Bool) (ops : List COp)
    (hwf : ∀ op, op ∈ ops → op.WF np) (s : RunState) (h : stabRun ne np d script ops = some s) :
    (d = .zero → s.script = script ∧ ∀ o, o ∈ DMH.randOuts s → o = false) ∧
    (d = .one → s.script = script ∧ ∀ o, o ∈ DMH.randOuts s → o = true) ∧
    (d = .prob → s.script = script.drop (DMH.nRand s) ∧
        DMH.randOuts s = (List.range (DMH.nRand s)).map fun i => script.getD i false) := by
  have h2 := (DMH.stabRun_drawn ne np d script ops hwf s h).2
  refine ⟨fun e => ?_, fun e => ?_, fun e => ?_⟩ <;> subst e <;> exact h2

/-- **Wrapper expansion order**: a wrapped list is executed last-listed-first — the same order in which the matrix product of
    the list (C20 `wrapper_denotes_product`) acts on a state -/
theorem wrapper_applies_last_listed_first (np n : Nat) (d : Det) (s : RunState) (gs : List Cliff.Gen) (g : Cliff.Gen) (q : QReg)
    (hq : qIndex np q < n) :
    (stepOp np n d s (.wrap (gs ++ [g]) q)).map (·.t) =
      some ((gs.reverse.foldl (fun t g' => gen1 t g' (qIndex np q)) (gen1 s.t g (qIndex np q))).norm) := by
  simp [stepOp, hq, List.reverse_append]

/-! ### The density-matrix backend agrees with the stabilizer backend (every circuit, every n)

   `DMH.dmRunH` is a *mathematical* reading of the Python (complex matrices indexed by `Fin n → Bool`; `oneQ`, `ctrlG`,
   `projZ`, `resetKraus` are shown in Proofs/HilbertKron.lean / HilbertBridgeOps.lean to be the Kronecker chains of
   `get_one_qubit_gate`, `get_two_qubit_controlled_gate`, `projectors_zbasis`, `get_reset_qubit_kraus`).  It is exact:
   what it cannot exhibit is floating-point rounding in the numpy code (the residue of D39: a probability that should be
   0 coming out as 1e-17 stays below the `isclose` threshold 1e-8, which is part of the model; a rounding error above
   the threshold is not).  The per-circuit numerical comparison of the real `DensityMatrixCompiler` with `ρ(model tableau)`
   stays in the harness as the tie of this reading to the code. -/

open Graphiq.DMH Graphiq.Hilbert in
/-- **Both backends compute the same state and record** — full statement.  For every circuit over the whole operation
    alphabet (gates, wrappers, Z-measurement, classically controlled gates, measure-and-reset), any length, any mix of
    registers, each measurement setting and every script of drawn bits: the density-matrix compile loop fails exactly
    when the stabilizer compile loop fails (a qubit index out of range), and otherwise returns the density matrix
    `ρ(T) = ∏_i (1 + g_i)/2` of the tableau `T` the stabilizer loop returns, the same register writes, the same
    outcomes, the same remaining drawn bits, and "both outcomes had positive probability" = "the tableau measurement was
    random" for every measurement executed. -/
theorem backends_agree (ne np : Nat) (d : Det) (script : List Bool) (ops : List COp)
    (hwf : ∀ op, op ∈ ops → op.WF np) :
    dmRunH ne np d script ops = (stabRun ne np d script ops).map (hstate (ne + np)) :=
  dmRunH_eq_map ne np d script ops hwf

open Graphiq.DMH Graphiq.Hilbert in
/-- the same, spelled out for a run that returns: state, record, outcomes, final register values -/
theorem backends_agree_on_return (ne np nc : Nat) (d : Det) (script : List Bool) (ops : List COp)
    (hwf : ∀ op, op ∈ ops → op.WF np) (s : RunState) (h : stabRun ne np d script ops = some s) :
    ∃ r : HState (ne + np), dmRunH ne np d script ops = some r ∧
      r.ρ = rho (ne + np) (STab.ofTab s.t) ∧ r.writes = s.writes ∧ r.outs = s.outs ∧ r.script = s.script ∧
      r.rand = s.rand ∧ finalRecord nc r.writes = finalRecord nc s.writes :=
  ⟨hstate (ne + np) s, dmRunH_eq_stab ne np d script ops hwf s h, rfl, rfl, rfl, rfl, rfl, rfl⟩

open Graphiq.DMH Graphiq.Hilbert in
/-- **with `initial_state=`**: from the density matrix of any valid tableau with real stabilizer rows (every tableau the
    API produces, C07 `history_stab_real`) the two compile loops agree in the same way -/
theorem backends_agree_from (t0 : Tab) (hv : t0.Valid) (hr : t0.StabReal) (np : Nat) (d : Det) (script : List Bool)
    (ops : List COp) (hwf : ∀ op, op ∈ ops → op.WF np) (s : RunState) (h : stabRunFrom t0 np d script ops = some s) :
    dmRunFromH (rho t0.n (STab.ofTab t0)) np d script ops = some (hstate t0.n s) :=
  dmRunFromH_eq_stab t0 hv hr np d script ops hwf s h

open Graphiq.DMH in
/-- both compile loops return on every circuit whose register indices are in range -/
theorem compile_returns (ne np : Nat) (d : Det) (script : List Bool) (ops : List COp)
    (hr : ∀ op, op ∈ ops → COp.InRange np (ne + np) op) : ∃ s, stabRun ne np d script ops = some s :=
  stabFold_total np (ne + np) d ops hr _

open Graphiq.DMH Graphiq.Hilbert in
/-- **The probabilities the density-matrix backend computes are exact**: on the state of any valid tableau, `tr(ρ Π_o)`
    is ½ for both outcomes when a stabilizer has an X on the qubit (the tableau's random branch) and 1 / 0 for the
    reported / the other outcome otherwise — so the thresholds `np.isclose(p, 0)` and `p / Σp` of `apply_measurement`
    select the branch the tableau takes. -/
theorem dm_probabilities_exact (t : Tab) (hv : t.Valid) (hr : t.StabReal) (q : Nat) (hq : q < t.n) :
    (∀ p, t.pivot q = some p → ∀ o, Matrix.trace (rho t.n (STab.ofTab t) * projZ t.n q o) = 1 / 2) ∧
    (t.pivot q = none →
      Matrix.trace (rho t.n (STab.ofTab t) * projZ t.n q (t.measScratch q).r) = 1 ∧
      Matrix.trace (rho t.n (STab.ofTab t) * projZ t.n q (!(t.measScratch q).r)) = 0) := by
  refine ⟨fun p hp o => ?_, fun hp => ?_⟩
  · rw [projZ_eq _ _ hq]; exact prob_random t hv hr q p o hq hp
  · rw [projZ_eq _ _ hq, projZ_eq _ _ hq]; exact prob_det t hv hr q hq hp

open Graphiq.DMH Graphiq.Hilbert in
/-- **Forced outcomes tolerate rounding** (what the repair of D39 provides): under forced 0 / forced 1, if the two
    probabilities the density-matrix backend *computes* are within `1e-8` of the exact `tr(ρ Π_o)` clipped at 0, its
    `np.isclose` rule still reports the outcome of the stabilizer backend's measurement. -/
theorem forced_outcome_tolerates_rounding (s : RunState) (hv : s.t.Valid) (hr : s.t.StabReal) (d : Det) (hd : d ≠ .prob)
    (q : Nat) (hq : q < s.t.n) (q0 q1 : ℝ)
    (h0 : |q0 - probOf (rho s.t.n (STab.ofTab s.t)) (projZ s.t.n q false)| ≤ 1 / 100000000)
    (h1 : |q1 - probOf (rho s.t.n (STab.ofTab s.t)) (projZ s.t.n q true)| ≤ 1 / 100000000) :
    (outcomeOf d q0 q1 s.script).1 = (s.measure d q).2 := by
  rw [outcomeOf_forced_robust d hd _ _ q0 q1 s.script (probOf_tab_cases s.t hv hr q hq) h0 h1]
  have h := measureH_tab s hv hr d q hq
  rw [← measureH_out]
  exact congrArg (fun x => x.2.1) h

open Graphiq.DMH Graphiq.Hilbert in
/-- the matrix the density-matrix backend returns is a pure state: Hermitian, idempotent, **trace 1** -/
theorem dm_result_is_pure_state (ne np : Nat) (d : Det) (script : List Bool) (ops : List COp)
    (hwf : ∀ op, op ∈ ops → op.WF np) (r : HState (ne + np)) (h : dmRunH ne np d script ops = some r) :
    Matrix.conjTranspose r.ρ = r.ρ ∧ r.ρ * r.ρ = r.ρ ∧ Matrix.trace r.ρ = 1 := by
  rw [backends_agree ne np d script ops hwf] at h
  cases hs : stabRun ne np d script ops with
  | none => rw [hs] at h; cases h
  | some s =>
    rw [hs] at h
    injection h with h
    rw [← h]
    exact hstate_pure (ne + np) s (stabRun_inv ne np d script ops hwf s hs)

open Graphiq.DMX Graphiq.Hilbert in
/-- **The executable exact model of the density-matrix backend agrees with the stabilizer model** — the model that the
    correspondence runs drive against the real `DensityMatrixCompiler` (`Noise.compileDM`, noise simulation off: `Mat`
    over ℚ[i] with numpy indices, Kronecker-built gate matrices, projective measurement, classically controlled gates,
    measure-and-reset).  For every circuit (translated to its unwrapped operation sequence `trOps`), every register mix
    and both forced settings: whenever the stabilizer compile loop returns `s`, `compileDM` returns a matrix `m` of size
    `2^(ne+np)` with `m[idx a, idx b] = ρ(s.t) a b` for all basis strings (`idx` = big-endian numpy index, photons
    first), and its classical registers are the final record of `s`. -/
theorem executable_dm_model_agrees (ne np nc : Nat) (det : Bool) (script : List Bool) (ops : List COp)
    (hwf : ∀ op, op ∈ ops → op.WF np) (s : RunState) (h : stabRun ne np (detOf det) script ops = some s) :
    ∃ m : Mat, Noise.compileDM false ne np nc det (trOps ops)
        = .ok { ρ := some m, creg := (finalRecord nc s.writes).map fun b => if b then 1 else 0 } ∧
      m.n = 2 ^ (ne + np) ∧
      ∀ a b : Bits (ne + np), gqC (m.e (idx (ne + np) a) (idx (ne + np) b)) = rho (ne + np) (STab.ofTab s.t) a b := by
  obtain ⟨m, e, hrep⟩ := compileDM_eq_stab ne np nc det script ops hwf s h
  rw [regsOf_eq_finalRecord] at e
  exact ⟨m, e, hrep.1, hrep.2⟩

open Graphiq.DMX in
/-- the same inside the executable world: `compileDM`'s matrix is, entry by entry, the executable
    `stabilizerDensity` (`∏ (1 + (−1)^{r_k} g_k)/2` over ℚ[i]) of the stabilizer run's tableau -/
theorem executable_dm_model_equals_stabilizer_density (ne np nc : Nat) (det : Bool) (script : List Bool) (ops : List COp)
    (hwf : ∀ op, op ∈ ops → op.WF np) (s : RunState) (h : stabRun ne np (detOf det) script ops = some s) :
    ∃ m : Mat, Noise.compileDM false ne np nc det (trOps ops)
        = .ok { ρ := some m, creg := (finalRecord nc s.writes).map fun b => if b then 1 else 0 } ∧
      Mat.EqOn m (DM.stabilizerDensity s.t) :=
  compileDM_eq_stabilizerDensity ne np nc det script ops hwf s h

open Graphiq.Hilbert in
/-- **The executable model's matrix builders are the literal numpy constructions** (`Mat.kron` = `np.kron`, `Mat.eye` =
    `np.eye`, `reduceKron` = `functools.reduce(np.kron, ·)`), every `n`, every position, as equalities of executable
    matrices: `get_one_qubit_gate` = `kron(kron(I, g), I)`; `get_two_qubit_controlled_gate` = `eye + K/2` with the
    five-factor chain `K` of the branch `c < t` resp. `c > t`; `projectors_zbasis` = `reduce(kron, [P_s at q, I₂ else])`;
    the initial state = `reduce(kron, n·[|0⟩⟨0|])`.  (The model writes them in closed form with index arithmetic.) -/
theorem executable_builders_are_the_literal_kronecker_constructions :
    (∀ n q (g : Mat), g.n = 2 → n ≠ 1 →
      Mat.EqOn (DM.getOneQubitGate n q g) (Mat.kron (Mat.kron (Mat.eye (DM.pow2 q)) g) (Mat.eye (DM.pow2 (n - q - 1))))) ∧
    (∀ n c t (g : Mat), c < n → t < n → c ≠ t → g.n = 2 →
      ∃ m, DM.getTwoQubitControlledGate n c t g = .ok m ∧ Mat.EqOn m (literalCtrl n c t g)) ∧
    (∀ n q, q < n → ∃ p0 p1, DM.projectorsZ n q = .ok (p0, p1) ∧
      Mat.EqOn p0 (reduceKron ((List.range n).map fun i => if i = q then Mat.proj0 else Mat.id2)) ∧
      Mat.EqOn p1 (reduceKron ((List.range n).map fun i => if i = q then Mat.proj1 else Mat.id2))) ∧
    (∀ m, Mat.EqOn (⟨DM.pow2 (m + 1), fun i j => if i = 0 ∧ j = 0 then 1 else 0⟩ : Mat)
      (reduceKron (List.replicate (m + 1) Mat.proj0))) :=
  ⟨fun n q g hg hn => getOneQubitGate_eq_kron n q g hg hn,
   fun n c t g hc ht hct hg => getTwoQubitControlledGate_eq_literal n c t hc ht hct g hg,
   fun n q hq => projectorsZ_eq_literal n q hq,
   fun m => rho0_eq_literal m⟩

/-- **A reset leaves the measured qubit in |0⟩, density-matrix side**: on a qubit with a definite Z value (which the
    control of a measure-and-reset has after its measurement) the Kraus pair `|0⟩⟨0|, |0⟩⟨1|` of
    `get_reset_qubit_kraus` is exactly `reset_z` of the stabilizer backend. -/
theorem reset_channel_is_reset_z (t : Tab) (hv : t.Valid) (hr : t.StabReal) (q : Nat) (hq : q < t.n)
    (hp : t.pivot q = none) (o : Bool) :
    Hilbert.applyChannel (Hilbert.rho t.n (STab.ofTab t)) (Hilbert.resetKraus t.n q)
      = Hilbert.rho t.n (STab.ofTab (t.resetZ q false o)) :=
  Hilbert.resetChannel_det t hv hr q hq hp o

/-! ### Non-vacuity: a 1-emitter 2-photon circuit with a measure-and-reset, both forced outcomes -/
def demo : List COp :=
  [.gate1 .H ⟨.e, 0⟩, .cnot ⟨.e, 0⟩ ⟨.p, 0⟩, .cnot ⟨.e, 0⟩ ⟨.p, 1⟩, .gate1 .H ⟨.e, 0⟩, .mcr ⟨.e, 0⟩ ⟨.p, 1⟩ 0,
   .wrap [.H, .P] ⟨.p, 0⟩]

example : (match stabRun 1 2 .one [] demo with
    | some s => s.t.isSymplectic && s.outs == [true] && s.rand == [true] | none => false) = true := by decide +kernel
example : (match stabRun 1 2 .zero [] demo with
    | some s => s.t.isSymplectic && s.outs == [false] | none => false) = true := by decide +kernel
example : ∀ op, op ∈ demo → op.WF 2 := by
  intro op h
  simp only [demo, List.mem_cons, List.mem_nil_iff, or_false] at h
  rcases h with h | h | h | h | h | h <;> subst h <;> simp [COp.WF, qIndex]

/-! ### Both backends compute the state *textbook circuit semantics* defines

   `DMRef.refRunH` (Proofs/DMCompileRef.lean) is a specification written independently of either backend's code: all
   registers start in |0⟩, photons before emitters, `ρ ↦ UρU†` with the textbook unitaries (a wrapper = the matrix
   product of its list), Born-rule Z-measurement (a certain outcome whatever the setting, otherwise the forced value or
   the next drawn bit; `ρ ↦ Π_o ρ Π_o / tr(Π_o ρ)`; the register receives the outcome), classically controlled gates, and
   measure-and-reset with the reset channel `|0⟩⟨0| ⊗ tr_c ρ`. -/

open Graphiq.DMRef in
/-- **The stabilizer backend yields exactly the textbook state and record** — every circuit, register mix, setting,
    script (and it fails only where textbook semantics is undefined: a register index out of range). -/
theorem stabilizer_backend_computes_textbook_state (ne np : Nat) (d : Det) (script : List Bool) (ops : List COp)
    (hwf : ∀ op, op ∈ ops → op.WF np) :
    refRunH ne np d script ops = (stabRun ne np d script ops).map (rstate (ne + np)) :=
  refRun_eq_stab ne np d script ops hwf

open Graphiq.DMRef Graphiq.DMH in
/-- **The density-matrix backend yields exactly the textbook state and record** (same quantifier) -/
theorem density_matrix_backend_computes_textbook_state (ne np : Nat) (d : Det) (script : List Bool) (ops : List COp)
    (hwf : ∀ op, op ∈ ops → op.WF np) :
    (dmRunH ne np d script ops).map ofH = refRunH ne np d script ops :=
  refRun_eq_dm ne np d script ops hwf

open Graphiq.DMRef Graphiq.Hilbert in
/-- **A reset leaves the measured qubit in |0⟩**: whatever the state, after the reset of qubit `q` the projector
    `|0⟩⟨0|_q` fixes it -/
theorem reset_leaves_ket0 {n : Nat} (ρ : DMat n) (q : Nat) (hq : q < n) :
    proj n (PRow.Zq q false) * refReset ρ q = refReset ρ q :=
  refReset_in_ket0 ρ q hq

open Graphiq.DMH Graphiq.Hilbert in
/-- **State-vector view, global phase.**  The matrix both backends stand for after any circuit is `|ψ⟩⟨ψ|` for a unit
    vector `ψ`, and `ψ` is determined up to a global phase: any two unit vectors with that projector satisfy `φ = c·ψ`,
    `|c| = 1`.  (So comparing the backends "up to global phase" on state vectors is comparing these matrices exactly.) -/
theorem compiled_state_is_a_state_vector_up_to_phase (ne np : Nat) (d : Det) (script : List Bool) (ops : List COp)
    (hwf : ∀ op, op ∈ ops → op.WF np) (r : HState (ne + np)) (h : dmRunH ne np d script ops = some r) :
    (∃ ψ : Bits (ne + np) → ℂ, r.ρ = outer ψ ∧ inner ψ ψ = 1) ∧
    (∀ ψ φ : Bits (ne + np) → ℂ, r.ρ = outer ψ → r.ρ = outer φ → inner ψ ψ = 1 → inner φ φ = 1 →
      ∃ c : ℂ, star c * c = 1 ∧ ∀ a, φ a = c * ψ a) := by
  obtain ⟨h1, h2, h3⟩ := dm_result_is_pure_state ne np d script ops hwf r h
  exact ⟨rank_one_of_projector_trace_one r.ρ h1 h2 h3,
    fun ψ φ e1 e2 n1 n2 => outer_eq_phase ψ φ (e1.symm.trans e2) n1 n2⟩

open Graphiq.DMH Graphiq.Hilbert in
/-- **A reset leaves the measured qubit in |0⟩, in the compiled state**: after every measure-and-reset step of the
    stabilizer compile loop (any input state of the run, any setting, any outcome, control = target allowed) the
    projector `|0⟩⟨0|` of the control fixes the state of the new tableau — `+Z_c` is a stabilizer. -/
theorem measure_and_reset_leaves_control_in_ket0 (np n : Nat) (d : Det) (s s' : RunState) (c t : QReg) (creg : Nat)
    (hv : s.t.Valid) (hn : s.t.n = n) (hr : s.t.StabReal) (hs : stepOp np n d s (.mcr c t creg) = some s') :
    proj n (PRow.Zq (qIndex np c) false) * rho n (STab.ofTab s'.t) = rho n (STab.ofTab s'.t) :=
  DMRef.mcr_control_in_ket0 np n d s s' c t creg ⟨hv, hn, hr⟩ hs

open Graphiq.Hilbert in
/-- **"Operations are applied in an order consistent with the circuit" is enough**: operations of the compile loop on
    disjoint qubits commute as state transformations, for every `n` and every state — two gates; a gate and a measurement
    branch `ρ ↦ Π_o ρ Π_o` of a qubit the gate does not touch; two measurement branches (the general fact is
    `Hilbert.local_conj_comm`: matrices in the algebras of disjoint sets of sites; it is the hypothesis `hcomm` of C13's
    `compile_independent_of_topological_order`, for outcomes attached to the measurements). -/
theorem operations_on_disjoint_qubits_commute (n : Nat) (ρ : DMat n) :
    (∀ g h : Gate, g.WF n → h.WF n → (∀ q, gateSites g q → ¬ gateSites h q) →
      gateMat n g * (gateMat n h * ρ * Matrix.conjTranspose (gateMat n h)) * Matrix.conjTranspose (gateMat n g)
        = gateMat n h * (gateMat n g * ρ * Matrix.conjTranspose (gateMat n g)) * Matrix.conjTranspose (gateMat n h)) ∧
    (∀ (g : Gate) (q : Nat) (o : Bool), g.WF n → q < n → ¬ gateSites g q →
      gateMat n g * (projZ n q o * ρ * Matrix.conjTranspose (projZ n q o)) * Matrix.conjTranspose (gateMat n g)
        = projZ n q o * (gateMat n g * ρ * Matrix.conjTranspose (gateMat n g)) * Matrix.conjTranspose (projZ n q o)) ∧
    (∀ (q q' : Nat) (o o' : Bool), q < n → q' < n → q ≠ q' →
      projZ n q o * (projZ n q' o' * ρ * Matrix.conjTranspose (projZ n q' o')) * Matrix.conjTranspose (projZ n q o)
        = projZ n q' o' * (projZ n q o * ρ * Matrix.conjTranspose (projZ n q o)) * Matrix.conjTranspose (projZ n q' o')) :=
  ⟨fun g h hg hh hd => gates_on_disjoint_qubits_commute n g h hg hh hd ρ,
   fun g q o hg hq hd => gate_commutes_with_measurement_branch n g hg q hq o hd ρ,
   fun q q' o o' hq hq' hne => measurement_branches_commute n q q' hq hq' hne o o' ρ⟩

/-- non-vacuity: `H` on qubit 0 and `CNOT 1→2` on three qubits touch disjoint qubits -/
example : (Gate.H 0).WF 3 ∧ (Gate.CNOT 1 2).WF 3 ∧ ∀ q, Hilbert.gateSites (Gate.H 0) q → ¬ Hilbert.gateSites (Gate.CNOT 1 2) q := by
  refine ⟨by show 0 < 3; omega, ⟨by omega, by omega, by omega⟩, fun q h => ?_⟩
  simp only [Hilbert.gateSites] at h ⊢
  omega

/-! ### Non-vacuity of `backends_agree`: a Bell pair, a Z-measurement and a classically controlled gate -/
def bell : List COp :=
  [.gate1 .H ⟨.e, 0⟩, .cnot ⟨.e, 0⟩ ⟨.p, 0⟩, .measz ⟨.p, 0⟩ 0, .ccx ⟨.e, 0⟩ ⟨.p, 0⟩ 1, .mcr ⟨.e, 0⟩ ⟨.p, 0⟩ 0]

/-- the stabilizer loop returns on it: first measurement random (forced 1), the second and third deterministic -/
example : (match stabRun 1 1 .one [] bell with
    | some s => s.t.isSymplectic && s.outs == [true, true, true] && s.rand == [true, false, false]
        && s.writes == [(0, true), (1, true), (0, true)]
    | none => false) = true := by decide +kernel
example : (match stabRun 1 1 .prob [false] bell with
    | some s => s.outs == [false, false, false] && s.script == [] | none => false) = true := by decide +kernel

theorem bell_wf : ∀ op, op ∈ bell → op.WF 1 := by
  intro op h
  simp only [bell, List.mem_cons, List.mem_nil_iff, or_false] at h
  rcases h with h | h | h | h | h <;> subst h <;> simp [COp.WF, qIndex]

theorem bell_inRange : ∀ op, op ∈ bell → DMH.COp.InRange 1 (1 + 1) op := by
  intro op h
  simp only [bell, List.mem_cons, List.mem_nil_iff, or_false] at h
  rcases h with h | h | h | h | h <;> subst h <;> simp [DMH.COp.InRange, qIndex]

/-- … and so does the density-matrix loop, with `ρ` of the same tableau and the same record (all three settings) -/
example (d : Det) (script : List Bool) :
    ∃ s, stabRun 1 1 d script bell = some s ∧ DMH.dmRunH 1 1 d script bell = some (DMH.hstate 2 s) := by
  obtain ⟨s, hs⟩ := compile_returns 1 1 d script bell bell_inRange
  exact ⟨s, hs, DMH.dmRunH_eq_stab 1 1 d script bell bell_wf s hs⟩

/-! ### Non-vacuity of the tableau-level hypotheses (`Valid`, `StabReal`, `pivot = none / some`) -/

/-- a deterministic measurement: |00⟩, qubit 0 (hypotheses of `dm_probabilities_exact` second part, `reset_channel_is_reset_z`) -/
example : (Tab.ket0 2).Valid ∧ (Tab.ket0 2).StabReal ∧ 0 < (Tab.ket0 2).n ∧ (Tab.ket0 2).pivot 0 = none :=
  ⟨Tab.ket0_valid 2, Hilbert.ket0_stabReal 2, by decide, by decide +kernel⟩

/-- a random measurement: |+⟩|0⟩, qubit 0 (first part of `dm_probabilities_exact`, `forced_outcome_tolerates_rounding`) -/
example : ((Tab.ket0 2).hGate 0).Valid ∧ ((Tab.ket0 2).hGate 0).StabReal ∧ ((Tab.ket0 2).hGate 0).pivot 0 = some 2 :=
  ⟨Tab.hGate_valid _ 0 (by decide) (Tab.ket0_valid 2), Hilbert.gate_stabReal _ (Gate.H 0) (Hilbert.ket0_stabReal 2),
   by decide +kernel⟩

/-- `backends_agree_from` applies to it as an initial state: the Bell circuit from |+⟩|0⟩ -/
example (d : Det) (script : List Bool) :
    ∃ s, stabRunFrom ((Tab.ket0 2).hGate 0) 1 d script bell = some s ∧
      DMH.dmRunFromH (Hilbert.rho 2 (STab.ofTab ((Tab.ket0 2).hGate 0))) 1 d script bell = some (DMH.hstate 2 s) := by
  obtain ⟨s, hs⟩ := DMH.stabFold_total 1 2 d bell bell_inRange
    { t := (Tab.ket0 2).hGate 0, writes := [], script := script, rand := [], outs := [] }
  exact ⟨s, hs, backends_agree_from _ (Tab.hGate_valid _ 0 (by decide) (Tab.ket0_valid 2))
    (Hilbert.gate_stabReal _ (Gate.H 0) (Hilbert.ket0_stabReal 2)) 1 d script bell bell_wf s hs⟩

/-- the executable density-matrix model returns on it too, with the registers of the stabilizer run (forced 1) -/
example : ∃ (s : RunState) (m : Mat), stabRun 1 1 .one [] bell = some s ∧
    Noise.compileDM false 1 1 2 true (DMX.trOps bell)
      = .ok { ρ := some m, creg := (finalRecord 2 s.writes).map fun b => if b then 1 else 0 } := by
  obtain ⟨s, hs⟩ := compile_returns 1 1 .one [] bell bell_inRange
  obtain ⟨m, e, _⟩ := executable_dm_model_agrees 1 1 2 true [] bell bell_wf s hs
  exact ⟨s, m, hs, e⟩

/-- … and the instance evaluated by the kernel: on the Bell circuit (forced 1) the executable `compileDM` returns exactly the
    executable `stabilizerDensity` of the stabilizer run's tableau, and the registers `[1, 1]` -/
example : (match Noise.compileDM false 1 1 2 true (DMX.trOps bell), stabRun 1 1 .one [] bell with
    | .ok { ρ := some m, creg := creg }, some s => m.beq (DM.stabilizerDensity s.t).norm && creg == [1, 1]
    | _, _ => false) = true := by decide +kernel

end Graphiq.C01
