/-
  C01 — both simulation backends compute the state the circuit defines.

  The model `stabRun` is `CompilerBase.compile` + `StabilizerCompiler.compile_one_gate` on the Clifford-tableau model whose
  operations are proved in C07 to implement Pauli-group (textbook) semantics.  The density-matrix backend is tied to the same
  model numerically by the correspondence run (rho(model state) vs its matrix, 1e-9) — that half is testing, not proof.
-/
import GraphiqModel.Proofs.Circuit
import GraphiqModel.Proofs.Clifford1
namespace Graphiq.C01
open Graphiq Graphiq.PRow Graphiq.Tab

/-- **Every compiled circuit yields a valid tableau on `ne + np` qubits** — any circuit over the whole op alphabet, any length,
    any mix of registers, each measurement setting and any drawn bits (induction over the op list). -/
theorem compile_valid (ne np : Nat) (d : Det) (script : List Bool) (ops : List COp) (hwf : ∀ op, op ∈ ops → op.WF np)
    (s : RunState) (h : stabRun ne np d script ops = some s) : s.t.Valid ∧ s.t.n = ne + np := by
  unfold stabRun stabRunFrom at h
  exact foldlM_ok np (ne + np) d ops hwf _ s ⟨Tab.ket0_valid (ne + np), rfl⟩ h

/-- the same from any valid initial state (`compile(circuit, initial_state=…)`) -/
theorem compile_valid_from (t0 : Tab) (hv : t0.Valid) (np : Nat) (d : Det) (script : List Bool) (ops : List COp)
    (hwf : ∀ op, op ∈ ops → op.WF np) (s : RunState) (h : stabRunFrom t0 np d script ops = some s) :
    s.t.Valid ∧ s.t.n = t0.n := by
  unfold stabRunFrom at h
  exact foldlM_ok np t0.n d ops hwf _ s ⟨hv, rfl⟩ h

/-- registers start in |0⟩ and **photons are indexed before emitters**: photon `j` is qubit `j`, emitter `j` is qubit `np + j` -/
theorem register_indexing (np j : Nat) : qIndex np ⟨.p, j⟩ = j ∧ qIndex np ⟨.e, j⟩ = j + np := ⟨rfl, rfl⟩

theorem starts_in_ket0 (ne np : Nat) (d : Det) (script : List Bool) :
    (stabRun ne np d script []).map (·.t.n) = some (ne + np) ∧
    ∀ i, i < ne + np → (Tab.ket0 (ne + np)).row (i + (ne + np)) = PRow.Zq i := by
  refine ⟨rfl, fun i hi => ?_⟩
  simp only [Tab.ket0]
  have h1 : ¬ (i + (ne + np) < ne + np) := by omega
  simp [h1]

/-- **A measurement's outcome under each setting**: it is random exactly when some stabilizer has an X on the qubit; a random
    outcome is the forced value (settings 0/1) or the next drawn bit (probabilistic), and a drawn bit is consumed only then;
    a deterministic outcome ignores the setting. The classical record receives exactly this outcome. -/
theorem measurement_setting_semantics (s : RunState) (d : Det) (q : Nat) :
    let random := (s.t.pivot q).isSome
    (s.measure d q).2 = (if random then (s.offer d random).1 else (s.t.measScratch q).r) ∧
    (random = true → d = .zero → (s.measure d q).2 = false) ∧
    (random = true → d = .one → (s.measure d q).2 = true) ∧
    (random = true → d = .prob → (s.measure d q).2 = s.script.headD false ∧ (s.measure d q).1.script = s.script.tail) ∧
    (random = false → (s.measure d q).1.script = s.script) := by
  simp only [RunState.measure, RunState.offer, Tab.zMeasure]
  cases hp : s.t.pivot q with
  | none =>
    simp
    cases d <;> simp
  | some p =>
    simp
    cases d <;> simp

theorem record_receives_outcome (np n : Nat) (d : Det) (s s' : RunState) (q : QReg) (creg : Nat)
    (h : stepOp np n d s (.measz q creg) = some s') :
    s'.writes = s.writes ++ [(creg, (s.measure d (qIndex np q)).2)] := by
  simp only [stepOp] at h
  split at h
  · injection h with h; rw [← h]; rfl
  · cases h

/-- **Wrapper expansion order**: a wrapped list is executed last-listed-first — the same order in which the matrix product of
    the list (C20 `wrapper_denotes_product`) acts on a state -/
theorem wrapper_applies_last_listed_first (np n : Nat) (d : Det) (s : RunState) (gs : List Cliff.Gen) (g : Cliff.Gen) (q : QReg)
    (hq : qIndex np q < n) :
    (stepOp np n d s (.wrap (gs ++ [g]) q)).map (·.t) =
      some ((gs.reverse.foldl (fun t g' => gen1 t g' (qIndex np q)) (gen1 s.t g (qIndex np q))).norm) := by
  simp [stepOp, hq, List.reverse_append]

/- Not a theorem of this development (kept visible here as a comment because it needs an exact density-matrix semantics):
   for every circuit the matrix produced by the density-matrix backend equals ∏(1+g_i)/2 over the model's stabilizers g_i.
   It is compared numerically (1e-9) on every correspondence circuit with n_quantum ≤ 6; the identification of Pauli-group
   semantics with Hilbert-space semantics (tensor lifting of the kernel-checked one-qubit bridge of C20) is cited. -/

/-! ### Non-vacuity: a 1-emitter 2-photon circuit with a measure-and-reset, both forced outcomes -/
def demo : List COp :=
  [.gate1 .H ⟨.e, 0⟩, .cnot ⟨.e, 0⟩ ⟨.p, 0⟩, .cnot ⟨.e, 0⟩ ⟨.p, 1⟩, .gate1 .H ⟨.e, 0⟩, .mcr ⟨.e, 0⟩ ⟨.p, 1⟩ 0,
   .wrap [.H, .P] ⟨.p, 0⟩]

example : (match stabRun 1 2 .one [] demo with
    | some s => s.t.isSymplectic && s.outs == [true] && s.rand == [true] | none => false) = true := by decide +kernel
example : (match stabRun 1 2 .zero [] demo with
    | some s => s.t.isSymplectic && s.outs == [false] | none => false) = true := by decide +kernel
example : ∀ op, op ∈ demo → op.WF 2 := by
  intro op h
  simp only [demo, List.mem_cons, List.mem_nil_iff, or_false] at h
  rcases h with h | h | h | h | h | h <;> subst h <;> simp [COp.WF, qIndex]

end Graphiq.C01
