/-
  C18 — circuit cost metrics equal the quantities they are defined as.

  Property theorems only (lemmas: Proofs/Metrics.lean; models: Model/Metrics.lean = metrics.py as coded, label-index
  based; `Metrics.Spec.*` = the definitional specification of each metric on the operation list).

  Proved here, for circuits of every size:
    * `get_node_by_labels` (the query every counting metric is built on) returns exactly the nodes whose operation
      carries all the labels — under DagInv (C12), i.e. on every circuit reachable by edits;
    * the emitter count is the number of emitter input nodes;
    * for every circuit built by `add` from an operation list, the emitter–emitter CNOT count and the measurement
      count computed through the label index equal the counts defined on the operation list;
    * `reg_gate_history` returns the register's wire (on every circuit satisfying DagInv);
    * `register_depth` — the un-memoised `_max_depth` recursion, with the fuel the model gives it — equals the ASAP
      layer of the last operation on each register, for every circuit built by `add`.
    * `CircuitDepth` (networkx longest path − 1, under the recorded specification of `dag_longest_path_length`) equals
      the largest ASAP layer, for every non-empty circuit built by `add`.
    * `unwrap_nodes(); remove_identity()` on the copy succeed and leave exactly the multiset of the unwrapped,
      identity-free operation list; hence `CircuitUnitaryCount` and `CircuitMaxEmitDepth` equal their definitions.
    * the prepared copy has a *schedule*: a duplicate-free list of all its operation nodes, holding exactly the
      unwrapped, identity-free operation list in order, such that every wire is `in, (the scheduled nodes acting on the
      register, in schedule order), out` (`prepared_copy_has_schedule`);
    * static depth theorem: on ANY circuit satisfying DagInv that has a schedule, `_max_depth` of the k-th scheduled node is
      the ASAP layer of the k-th scheduled operation minus one and `_max_depth(out r)` is the ASAP depth of register `r`
      (`max_depth_on_scheduled_circuit`), the literal recursion terminating with the model's fuel;
    * hence `CircuitMaxEmitResetDepth` and `CircuitMaxEmitEffDepth` equal their op-list definitions
      (`emitter_reset_and_effective_depth_eq_spec`; no `_statement` is left unproved in this file).
  §6–§7, for EVERY circuit satisfying DagInv, hence for every circuit reachable by any edit history (not only `add`):
    * every topological order of the circuit is a schedule (operations as wired: `insert_at` does not thread classical registers)
      and one exists (`every_topological_order_is_a_schedule`, `every_circuit_has_a_schedule`);
    * all metrics equal their specification on the operation list of ANY schedule (`metrics_eq_spec_on_any_schedule`,
      `metrics_eq_spec_in_any_topological_order`), the specification not depending on the schedule;
    * `metrics_after_history`: after any history over the whole edit API from `CircuitDAG(ne,np,nc)` (graphiq-constructed
      operation arguments) — the `add`-built theorems are the special case `built_circuit_meets_spec`.
-/
import GraphiqModel.Proofs.MetricsHistCheck
import GraphiqModel.Proofs.MetricsHistLongest
import GraphiqModel.Proofs.MetricsHistChain
import GraphiqModel.Proofs.MetricsHistIso
import GraphiqModel.Proofs.MetricsHistEdits
import GraphiqModel.Proofs.MetricsHistInsert
import GraphiqModel.Proofs.MetricsHistFuse
import GraphiqModel.Proofs.MetricsHistEmit
import GraphiqModel.Properties.C12
namespace Graphiq.C18
open Graphiq Graphiq.Dag Graphiq.Metrics

/-! ## 1. label queries -/

/-- **`get_node_by_labels(labels)` = filter by predicate.**  On every circuit satisfying DagInv the returned list has
    no duplicates and contains exactly the nodes of the graph whose keys (operation labels, class name, register-type
    description; "Input"/"Output" for I/O nodes) include every requested label. -/
theorem get_node_by_labels_is_filter {c : Dag} (h : DagInv c) (labels : List String) :
    (c.getNodeByLabels labels).Nodup ∧
    ∀ n, n ∈ c.getNodeByLabels labels ↔ n ∈ c.nodeIds ∧ ∀ l ∈ labels, l ∈ c.keysAt n :=
  ⟨(getNodeByLabels_spec h labels (.op 0)).2, fun n => (getNodeByLabels_spec h labels n).1⟩

/-- the number of nodes returned = number of operations (integer nodes) carrying all labels, whenever the I/O keys do
    not satisfy the query -/
theorem get_node_by_labels_count {c : Dag} (h : DagInv c) (labels : List String)
    (hin : labels.all (fun l => ["Input"].contains l) = false) (hout : labels.all (fun l => ["Output"].contains l) = false) :
    (c.getNodeByLabels labels).length = (opsOf c).countP (fun op => labels.all (fun l => op.indexKeys.contains l)) :=
  length_getNodeByLabels_ops h labels hin hout

/-- **`get_node_exclude_labels(labels)` = filter by predicate**: on every circuit satisfying DagInv the returned list has no
    duplicates and contains exactly the nodes none of whose keys is one of the labels -/
theorem get_node_exclude_labels_is_filter {c : Dag} (h : DagInv c) (labels : List String) :
    (c.getNodeExcludeLabels labels).Nodup ∧
    ∀ n, n ∈ c.getNodeExcludeLabels labels ↔ n ∈ c.nodeIds ∧ ∀ l ∈ labels, l ∉ c.keysAt n :=
  ⟨(getNodeExcludeLabels_spec h labels (.op 0)).2, fun n => (getNodeExcludeLabels_spec h labels n).1⟩

/-! ## 2. counting metrics -/

/-- `CircuitEmitterCount` = the number of emitter input nodes of the graph -/
theorem emitter_count_eq_inputs {c : Dag} (h : DagInv c) :
    Metrics.emitterCount c = (c.nodeIds.filter (fun n => match n with | .inp r => r.ty = .e | _ => false)).length := by
  obtain ⟨P, g⟩ := h
  exact (g.inv.input_count .e).symm

/-- **`CircuitEmitterCount` = the op-list specification** for every circuit built by `add`: the number of emitter registers of
    `CircuitDAG(ne, np, nc)` after adding the list, an emitter register being created exactly when an operation names the next free
    index (continuous numbering, registers of an operation visited in the sorted order of the code) -/
theorem emitter_count_eq_spec (ne np nc : Nat) (seq : List Op) (hwf : ∀ op ∈ seq, OpWF op) (hok : (build ne np nc seq).2 = none) :
    Metrics.emitterCount (build ne np nc seq).1 = Spec.emitterCount ne seq :=
  emitterCount_build ne np nc seq hwf hok

/-- `CircuitDAG(ne, np, nc)` has exactly `ne`, `np`, `nc` registers of the three types -/
theorem fresh_circuit_register_counts (ne np nc : Nat) :
    (Dag.init ne np nc).regs .e = ne ∧ (Dag.init ne np nc).regs .p = np ∧ (Dag.init ne np nc).regs .c = nc :=
  init_regs ne np nc

/-- hypotheses on an operation list: well-formed operations as graphiq constructs them (labels — including user labels such as
    the solver's "Fixed" — outside the reserved names, i.e. class names and register-type descriptions; at most two quantum
    registers; wrappers wrap base gate classes) -/
def PlainSeq (seq : List Op) : Prop := ∀ op ∈ seq, OpWF op ∧ PlainOp' op

/-- **`CircuitCnotCount` = number of CNOTs between two emitters in the operation list**, for every circuit built by
    `add` from any operation list (with the metric's default penalty) -/
theorem cnot_count_eq_spec (ne np nc : Nat) (seq : List Op) (hseq : PlainSeq seq) (hok : (build ne np nc seq).2 = none) :
    Metrics.cnotCount (build ne np nc seq).1 = Spec.cnotCount seq := by
  obtain ⟨hops, hinv⟩ := build_spec ne np nc seq (fun op h => (hseq op h).1) hok
  rw [cnotCount_eq_length, length_getNodeByLabels_ops hinv _ (by decide) (by decide), hops]
  unfold Spec.cnotCount
  apply countP_congr_mem
  intro op hop
  have := cnot_keys_iff (hseq op hop).1 (hseq op hop).2.toPlainOp
  by_cases hc : op.kind = .cnot ∧ op.qregs.map (·.ty) = [.e, .e]
  · have := this.mpr hc
    simp [hc.1, hc.2, this.1, this.2]
  · have hn : ¬ ("Emitter-Emitter" ∈ op.indexKeys ∧ "CNOT" ∈ op.indexKeys) := fun h => hc (this.mp h)
    have h1 : (decide (op.kind = .cnot) && decide (op.qregs.map (·.ty) = [.e, .e])) = false := by
      by_cases hk : op.kind = .cnot
      · have : ¬ op.qregs.map (·.ty) = [.e, .e] := fun h => hc ⟨hk, h⟩
        simp [hk, this]
      · simp [hk]
    rw [h1]
    simp only [List.all_cons, List.all_nil, Bool.and_true]
    by_cases h2 : "Emitter-Emitter" ∈ op.indexKeys
    · have : "CNOT" ∉ op.indexKeys := fun h => hn ⟨h2, h⟩
      simp [h2, this]
    · simp [h2]

/-- **`CircuitMeasureCount` = number of measure-and-reset operations in the operation list** -/
theorem measure_count_eq_spec (ne np nc : Nat) (seq : List Op) (hseq : PlainSeq seq) (hok : (build ne np nc seq).2 = none) :
    Metrics.measureCount (build ne np nc seq).1 = Spec.measureCount seq := by
  obtain ⟨hops, hinv⟩ := build_spec ne np nc seq (fun op h => (hseq op h).1) hok
  unfold Metrics.measureCount
  rw [length_getNodeByLabels_ops hinv _ (by decide) (by decide), hops]
  unfold Spec.measureCount
  apply countP_congr_mem
  intro op hop
  have := mcr_keys_iff (hseq op hop).1 (hseq op hop).2.toPlainOp
  by_cases hc : op.kind = .mcr
  · simp [hc, this.mpr hc]
  · have : "MeasurementCNOTandReset" ∉ op.indexKeys := fun h => hc (this.mp h)
    simp [hc, this]

/-- the operation nodes of a circuit built by `add` hold exactly the operation list, in order, and the circuit
    satisfies DagInv — the bridge between the graph and "the circuit's operation list" -/
theorem built_circuit_holds_op_list (ne np nc : Nat) (seq : List Op) (hwf : ∀ op ∈ seq, OpWF op)
    (hok : (build ne np nc seq).2 = none) : opsOf (build ne np nc seq).1 = seq ∧ DagInv (build ne np nc seq).1 :=
  build_spec ne np nc seq hwf hok

/-! ## 3. wires and register depth -/

/-- **`reg_gate_history(reg, reg_type)` = the wire.**  On every circuit satisfying DagInv the node list returned for an
    existing register is `in, n₁, …, n_m, out` where `n₁ … n_m` is the duplicate-free list of operation nodes whose
    consecutive pairs are exactly the edges keyed by the register (for a quantum register: exactly the operations
    acting on it, in wire order) — so `len(history) - 2`, the quantity `CircuitMaxEmitDepth` maximises, is the number
    of operations on the emitter. -/
theorem reg_gate_history_is_wire {c : Dag} (h : DagInv c) :
    ∃ P : Reg → List NodeId, (∀ e, e ∈ c.edges ↔ Consec (P e.key) e.src e.dst) ∧
      (∀ i op, (NodeId.op i, op) ∈ c.nodes → ∀ k, k.ty ≠ .c → (NodeId.op i ∈ P k ↔ k ∈ op.qregs)) ∧
      ∀ r, r.idx < c.regs r.ty → c.regGateHistory r = .ok (P r) := by
  obtain ⟨P, g⟩ := h
  exact ⟨P, g.inv.edges_iff, g.mem.mem_q, fun r hl => regGateHistory_eq_wire g.inv hl⟩

/-- **`reg_gate_history` against the operation list.**  For every circuit built by `add`, the operations held by the
    nodes that `reg_gate_history(r)` returns (between the Input and the Output node) are exactly the operations of the
    list that act on register `r` (quantum or classical), in list order. -/
theorem reg_gate_history_eq_op_list (ne np nc : Nat) (seq : List Op) (hseq : PlainSeq seq)
    (hok : (build ne np nc seq).2 = none) (r : Reg) (hl : r.idx < (build ne np nc seq).1.regs r.ty) :
    ∃ h, (build ne np nc seq).1.regGateHistory r = .ok h ∧
      wireOps (build ne np nc seq).1 h = seq.filter (fun o => decide (r ∈ opRegs o)) := by
  obtain ⟨_, ⟨P, g⟩⟩ := build_spec ne np nc seq (fun op h => (hseq op h).1) hok
  have hW := build_wireSeq ne np nc seq (fun op h => (hseq op h).1) hok
  exact ⟨P r, regGateHistory_eq_wire g.inv hl, hW.1 P g.inv r hl⟩

/-- **`register_depth` = ASAP layering.**  For every circuit built by `add` from any plain operation list, and every
    register type, `calculate_reg_depth` — i.e. the un-memoised recursion `_max_depth(out)` run with the fuel the model
    gives it — returns for each register the ASAP layer of the last operation acting on it (0 if none), computed on
    the operation list alone. -/
theorem register_depth_eq_asap (ne np nc : Nat) (seq : List Op) (hseq : PlainSeq seq) (hok : (build ne np nc seq).2 = none)
    (t : RegType) :
    (build ne np nc seq).1.calculateRegDepth t =
      .ok ((List.range ((build ne np nc seq).1.regs t)).map (fun i => (Spec.regDepth seq ⟨t, i⟩ : Int))) :=
  calculateRegDepth_eq_spec ne np nc seq (PlainSeq'.plain hseq) hok t

/-- the same for `_max_depth` of any node: it is the relation `HasDepth` (inputs −1, otherwise one more than the
    deepest source of an in-edge), and the recursion terminates with fuel `depth + 2` -/
theorem max_depth_recursion_spec {c : Dag} {n : NodeId} {d : Int} (h : HasDepth c n d) (f : Nat) (hf : d + 2 ≤ (f : Int)) :
    c.maxDepth f n = .ok d := maxDepth_of_hasDepth h f hf

/-- **`CircuitDepth` = the largest ASAP layer of the operation list** (the length of the longest dependency chain of
    operations), for every non-empty circuit built by `add` from any plain operation list and every value `L` that meets
    the recorded specification of `nx.dag_longest_path_length` (`L` edges on some directed walk, no walk has more);
    the metric returns `L − 1` (`Metrics.circuitDepthWith`, the model of `CircuitDAG.depth`). -/
theorem circuit_depth_eq_spec (ne np nc : Nat) (seq : List Op) (hseq : PlainSeq seq) (hok : (build ne np nc seq).2 = none)
    (hne : (build ne np nc seq).1.nodeIds ≠ []) {L : Nat} (hL : LongestPathSpec (build ne np nc seq).1 L) :
    Metrics.circuitDepthWith L = (Spec.depth seq : Int) :=
  circuitDepth_eq_spec ne np nc seq (PlainSeq'.plain hseq) hok hne hL

/-! ## 4. metrics evaluated on the unwrapped, identity-free copy -/

/-- the copy `c = circuit.copy(); c.unwrap_nodes(); c.remove_identity()`: both calls succeed, the copy satisfies DagInv,
    has the same registers, and holds exactly the multiset of operations of the unwrapped, identity-free list -/
theorem prepared_copy_spec (ne np nc : Nat) (seq : List Op) (hseq : PlainSeq seq) (hok : (build ne np nc seq).2 = none) :
    ∃ c', prep (build ne np nc seq).1 = .ok c' ∧ DagInv c' ∧ c'.regs = (build ne np nc seq).1.regs ∧
      ∀ p : Op → Bool, (opsOf c').countP p = (Spec.unwrapSeq seq).countP p :=
  prep_spec ne np nc seq hseq hok

/-- **`CircuitUnitaryCount` = number of SigmaX, SigmaY, SigmaZ, Phase, PhaseDagger, Hadamard and CNOT gates after
    unwrapping the wrappers and dropping identities**, for every circuit built by `add` -/
theorem unitary_count_eq_spec (ne np nc : Nat) (seq : List Op) (hseq : PlainSeq seq) (hok : (build ne np nc seq).2 = none) :
    Metrics.unitaryCount (build ne np nc seq).1 = .ok (Spec.unitaryCount seq) :=
  unitaryCount_eq_spec ne np nc seq hseq hok

/-- **`CircuitMaxEmitDepth` = the largest number of unwrapped, non-identity operations acting on one emitter**
    (`ValueError` on both sides when there is no emitter) -/
theorem max_emitter_depth_eq_spec (ne np nc : Nat) (seq : List Op) (hseq : PlainSeq seq)
    (hok : (build ne np nc seq).2 = none) :
    Metrics.maxEmitDepth (build ne np nc seq).1 = Spec.maxEmitDepth (build ne np nc seq).1.nE seq :=
  maxEmitDepth_eq_spec ne np nc seq hseq hok

/-! ## 5. reset interval and effective depth: wire order of the prepared copy + static depth theorem -/

/-- **the prepared copy has a schedule.**  For every circuit built by `add`, the copy `unwrap_nodes(); remove_identity()`
    satisfies DagInv with wires `P'` and there is a list `L'` of (node, operation) pairs — all operation nodes of the
    copy, each once — whose operations are exactly `Spec.unwrapSeq seq`, in order, such that the wire of every existing
    register `r` (what `reg_gate_history` returns) is `in r`, then the nodes of `L'` whose operation acts on `r` (quantum
    or classical) in the order of `L'`, then `out r`.  (Node identity, not only the operations: the k-th node of the wire
    of `r` *is* the node of the k-th operation of the list acting on `r`.) -/
theorem prepared_copy_has_schedule (ne np nc : Nat) (seq : List Op) (hseq : PlainSeq seq) (hok : (build ne np nc seq).2 = none) :
    ∃ (c' : Dag) (P' : Reg → List NodeId) (L' : List (NodeId × Op)),
      prep (build ne np nc seq).1 = .ok c' ∧ Good c' P' ∧ L'.map (·.2) = Spec.unwrapSeq seq ∧
      (∀ r, r.idx < c'.regs r.ty → c'.regGateHistory r = .ok (P' r) ∧
        P' r = .inp r :: ((L'.filter (fun p => decide (r ∈ opRegs p.2))).map (·.1) ++ [.out r])) ∧
      (∀ p, p ∈ L' ↔ (∃ i, p.1 = NodeId.op i) ∧ ∃ o, (p.1, o) ∈ c'.nodes ∧ p.2 = wiredOp P' p.1 o) ∧ (L'.map (·.1)).Nodup := by
  obtain ⟨c', P', L', hprep, g', hS', hL', _⟩ := prep_sched ne np nc seq hseq hok
  exact ⟨c', P', L', hprep, g', hL', fun r hl => ⟨regGateHistory_eq_wire g'.inv hl, hS'.wire r hl⟩, hS'.nodes, hS'.nodup⟩

/-- **static depth theorem** (no reference to how the circuit was made): let `c` satisfy DagInv with wires `P` and have a
    schedule `L` (`Sched c P L`: all operation nodes, each once, every wire = the scheduled nodes acting on the register
    in schedule order) of operations not labelled "Input".  Then `_max_depth` — the literal un-memoised recursion with
    the model's fuel `len(nodes) + 1` — returns, for the node at every position of `L`, the ASAP layer (on the operation
    list `L.map snd`) of its operation minus one, and for the output node of every existing register the ASAP depth of
    the register. -/
theorem max_depth_on_scheduled_circuit {c : Dag} {P : Reg → List NodeId} {L : List (NodeId × Op)} (g : Good c P)
    (hS : Sched c P L) (hkey : ∀ p ∈ L, "Input" ∉ p.2.indexKeys) :
    (∀ pre p suf, L = pre ++ p :: suf →
      c.maxDepth (c.nodes.length + 1) p.1 = .ok ((Spec.layerOf (Spec.fronts (pre.map (·.2))) p.2 : Int) - 1)) ∧
    (∀ r, r.idx < c.regs r.ty → c.maxDepth (c.nodes.length + 1) (.out r) = .ok (Spec.regDepth (L.map (·.2)) r : Int)) := by
  obtain ⟨h1, h2⟩ := sched_depth g hS hkey
  constructor
  · intro pre p suf hL
    have hr : ∃ r, r ∈ opRegs p.2 := by
      obtain ⟨i, o, _, hm, hpo⟩ := hS.op_node (show p ∈ L by rw [hL]; simp)
      have := (hpo ▸ wiredOp_wf (g.inv.op_wf i o hm) : OpWF p.2).qregs_ne
      cases hq : p.2.qregs with
      | nil => exact absurd hq this
      | cons a t => exact ⟨a, by simp [opRegs, hq]⟩
    obtain ⟨r, hr⟩ := hr
    have hl := hS.live p (by rw [hL]; simp) r hr
    apply maxDepth_of_hasDepth (h1 pre p suf hL)
    have hb := layerOf_fronts_le (pre.map (·.2)) p.2
    have hlt := hS.length_lt g hl
    have hlen : L.length = pre.length + (suf.length + 1) := by rw [hL]; simp
    rw [List.length_map] at hb
    push_cast; omega
  · intro r hl
    apply maxDepth_of_hasDepth (h2 r hl)
    have hb := regDepth_le_length (L.map (·.2)) r
    have hlt := hS.length_lt g hl
    rw [List.length_map] at hb
    push_cast; omega

/-- **`CircuitMaxEmitResetDepth` = the largest gap between consecutive reset marks** — input (position 0), every
    measure-and-reset (position k of the k-th operation on the emitter), output (number of operations + 1) — on an
    emitter's wire of the unwrapped, identity-free operation list (`ValueError` on both sides without emitters) -/
theorem max_emitter_reset_depth_eq_spec (ne np nc : Nat) (seq : List Op) (hseq : PlainSeq seq)
    (hok : (build ne np nc seq).2 = none) :
    Metrics.maxEmitResetDepth (build ne np nc seq).1 = Spec.maxEmitResetDepth (build ne np nc seq).1.nE seq :=
  maxEmitResetDepth_eq_spec ne np nc seq hseq hok

/-- **`CircuitMaxEmitEffDepth` = the largest difference between the ASAP depths of consecutive reset marks** — input: −1,
    measure-and-reset: its ASAP layer in the unwrapped, identity-free operation list minus one, output: the ASAP depth
    of the emitter register — the depths being computed by the literal `_max_depth` recursion on the prepared copy -/
theorem max_emitter_effective_depth_eq_spec (ne np nc : Nat) (seq : List Op) (hseq : PlainSeq seq)
    (hok : (build ne np nc seq).2 = none) :
    Metrics.maxEmitEffDepth (build ne np nc seq).1 = Spec.maxEmitEffDepth (build ne np nc seq).1.nE seq :=
  maxEmitEffDepth_eq_spec ne np nc seq hseq hok

/-- the full statement for both metrics (kept under its original name) … -/
def emitter_reset_and_effective_depth_eq_spec_statement : Prop :=
  ∀ ne np nc seq, PlainSeq seq → (build ne np nc seq).2 = none →
    Metrics.maxEmitResetDepth (build ne np nc seq).1 = Spec.maxEmitResetDepth (build ne np nc seq).1.nE seq ∧
    Metrics.maxEmitEffDepth (build ne np nc seq).1 = Spec.maxEmitEffDepth (build ne np nc seq).1.nE seq

/-- … is a theorem -/
theorem emitter_reset_and_effective_depth_eq_spec : emitter_reset_and_effective_depth_eq_spec_statement :=
  fun ne np nc seq hseq hok =>
    ⟨max_emitter_reset_depth_eq_spec ne np nc seq hseq hok, max_emitter_effective_depth_eq_spec ne np nc seq hseq hok⟩


/-! ## 6. every circuit satisfying DagInv — hence every circuit reachable by an edit history

  The theorems of §2–§5 are stated for `build ne np nc seq`.  Here the same equalities are proved for ANY circuit `c` that
  satisfies DagInv with wires `P` (`Good c P`) and holds plain operations, with "the circuit's operation list" being the
  operation list of any *schedule* `L` of the circuit (`Sched c P L`, Proofs/PrepDepthStatic.lean): all operation nodes, each
  once, each with its operation *as wired* (`wiredOp`: only the classical registers on whose wire the node is threaded — `add`
  threads all `c_registers`, `insert_at` by design none), in an order such that every wire is `in, (the scheduled nodes on the
  register, in schedule order), out`.  Every topological order of the graph — what `sequence()` returns — is a schedule, and
  one exists; so the specification on a general circuit is "`Spec.*` of the operations in any topological order". -/

/-- **the wired operation of a node acts on exactly the registers whose wire contains the node** — so the dependencies the
    specification sees are exactly the dependencies the graph holds -/
theorem wired_operation_registers {c : Dag} {P : Reg → List NodeId} (g : Good c P) {i : Nat} {o : Op}
    (hm : (NodeId.op i, o) ∈ c.nodes) (r : Reg) : r ∈ opRegs (wiredOp P (.op i) o) ↔ NodeId.op i ∈ P r :=
  mem_opRegs_wiredOp g hm r

/-- an operation threaded on all its classical registers (every operation put in by `add`) is its own wired form -/
theorem wired_operation_of_add {P : Reg → List NodeId} {n : NodeId} {o : Op} (h : ∀ j ∈ o.cregs, n ∈ P ⟨.c, j⟩) :
    wiredOp P n o = o := wiredOp_eq_self h

/-- **every topological order is a schedule.**  For a circuit satisfying DagInv and any position function that increases
    along every edge and is injective on the nodes (the recorded contract of `nx.topological_sort`), the operation nodes
    sorted by position, with their wired operations, form a schedule. -/
theorem every_topological_order_is_a_schedule {c : Dag} {P : Reg → List NodeId} (g : Good c P) {pos : NodeId → Nat}
    (hlin : LinearExt c pos) (hinj : ∀ a ∈ c.nodeIds, ∀ b ∈ c.nodeIds, pos a = pos b → a = b) :
    Sched c P (schedOf c P pos) := schedOf_sched g hlin hinj

/-- **every circuit satisfying DagInv has a schedule** (no hypothesis: a topological order exists by acyclicity) — so
    `max_depth_on_scheduled_circuit` applies to every such circuit -/
theorem every_circuit_has_a_schedule {c : Dag} {P : Reg → List NodeId} (g : Good c P) : ∃ L, Sched c P L := sched_exists g

/-- all metrics of `c` equal their op-list specifications on the operation list `ops` -/
structure MetricsMeetSpec (c : Dag) (ops : List Op) : Prop where
  emitters : Metrics.emitterCount c = (c.nodeIds.filter (fun n => match n with | .inp r => r.ty = .e | _ => false)).length
  cnot : Metrics.cnotCount c = Spec.cnotCount ops
  measure : Metrics.measureCount c = Spec.measureCount ops
  unitary : Metrics.unitaryCount c = .ok (Spec.unitaryCount ops)
  register_depth : ∀ t, c.calculateRegDepth t = .ok ((List.range (c.regs t)).map (fun i => (Spec.regDepth ops ⟨t, i⟩ : Int)))
  depth : c.nodeIds ≠ [] → ∀ Lp, LongestPathSpec c Lp → Metrics.circuitDepthWith Lp = (Spec.depth ops : Int)
  depth_model : c.nodeIds ≠ [] → Metrics.circuitDepth c = (Spec.depth ops : Int)
  max_emitter_depth : Metrics.maxEmitDepth c = Spec.maxEmitDepth c.nE ops
  reset_depth : Metrics.maxEmitResetDepth c = Spec.maxEmitResetDepth c.nE ops
  effective_depth : Metrics.maxEmitEffDepth c = Spec.maxEmitEffDepth c.nE ops

/-- **Metric theorem for every circuit satisfying DagInv.**  Let `c` satisfy DagInv with wires `P`, hold plain operations,
    and let `L` be any schedule of it.  Then every metric as coded — the label-index counts, `CircuitUnitaryCount` and the three
    emitter metrics on the copy `unwrap_nodes(); remove_identity()` (both calls succeed), `register_depth` and the effective
    depth through the literal un-memoised `_max_depth` recursion with the model's fuel, `CircuitDepth` under the recorded
    specification of `nx.dag_longest_path_length` — equals its definitional specification on the operation list
    `L.map snd`.  No reference to how the circuit was made. -/
theorem metrics_eq_spec_on_any_schedule {c : Dag} {P : Reg → List NodeId} {L : List (NodeId × Op)} (g : Good c P)
    (hpl : AllPlain c) (hS : Sched c P L) : MetricsMeetSpec c (L.map (·.2)) :=
  { emitters := emitter_count_eq_inputs ⟨_, g⟩
    cnot := cnotCount_eq_spec_sched g hpl hS
    measure := measureCount_eq_spec_sched g hpl hS
    unitary := unitaryCount_eq_spec_sched g hpl hS
    register_depth := calculateRegDepth_eq_spec_sched g hpl hS
    depth := fun hne _ hLp => circuitDepth_eq_spec_sched g hpl hS hne hLp
    depth_model := fun hne => circuitDepth_model_eq_spec g hpl hS hne
    max_emitter_depth := maxEmitDepth_eq_spec_sched g hpl hS
    reset_depth := maxEmitResetDepth_eq_spec_sched g hpl hS
    effective_depth := maxEmitEffDepth_eq_spec_sched g hpl hS }

/-- **the model's own longest-path computation meets the recorded networkx specification** (`Dag.longestPathLen`, the memoised
    depth-first evaluation the driver uses for `depth`): some directed walk has that many edges and none has more — on every
    circuit satisfying DagInv with plain operations.  So `Metrics.circuitDepth` — the value compared with the implementation's
    `CircuitDepth` on every input — equals `Spec.depth` of any schedule (`MetricsMeetSpec.depth_model`): for the model's instance
    no hypothesis about networkx is left. -/
theorem model_longest_path_meets_nx_spec {c : Dag} {P : Reg → List NodeId} (g : Good c P) (hpl : AllPlain c) :
    LongestPathSpec c c.longestPathLen := longestPathLen_spec g hpl

/-- every node of such a circuit has a `_max_depth` value, and the literal un-memoised recursion returns it with the model's fuel
    (`len(nodes) + 1`) — termination of `_max_depth` on every reachable circuit -/
theorem max_depth_terminates_on_every_node {c : Dag} {P : Reg → List NodeId} (g : Good c P) (hpl : AllPlain c) :
    ∀ n ∈ c.nodeIds, ∃ d : Int, c.maxDepth (c.nodes.length + 1) n = .ok d := by
  intro n hn
  obtain ⟨d, hd, hb⟩ := all_hasDepth g hpl n hn
  exact ⟨d, maxDepth_of_hasDepth hd _ (by push_cast; omega)⟩

/-- **the depth metrics need no assumption on labels beyond "no operation is filed under `Input`"** (`NoInputKey`): on every circuit
    satisfying DagInv — by C12 `history_from_init` every circuit reachable by well-formed edits, whatever user labels its operations
    carry, e.g. the solver's "Fixed" — with that property, `register_depth` (literal `_max_depth`), `CircuitDepth` under the recorded
    networkx specification and with the model's own longest-path computation equal the specifications on any schedule, and the
    model's longest-path computation meets the networkx specification -/
theorem depth_metrics_with_user_labels {c : Dag} {P : Reg → List NodeId} {L : List (NodeId × Op)} (g : Good c P)
    (hk : NoInputKey c) (hS : Sched c P L) :
    (∀ t, c.calculateRegDepth t = .ok ((List.range (c.regs t)).map (fun i => (Spec.regDepth (L.map (·.2)) ⟨t, i⟩ : Int)))) ∧
    (c.nodeIds ≠ [] → ∀ Lp, LongestPathSpec c Lp → Metrics.circuitDepthWith Lp = (Spec.depth (L.map (·.2)) : Int)) ∧
    (c.nodeIds ≠ [] → Metrics.circuitDepth c = (Spec.depth (L.map (·.2)) : Int)) ∧
    LongestPathSpec c c.longestPathLen :=
  ⟨calculateRegDepth_eq_spec_sched_of g hk hS, fun hne _ hLp => circuitDepth_eq_spec_sched_of g hk hS hne hLp,
    fun hne => circuitDepth_model_eq_spec_of g hk hS hne, longestPathLen_spec_of g hk⟩

/-- **the two label-index counts need only that no operation carries one of the queried names as a label** (`CountOK`): on every
    circuit satisfying DagInv with that property — arbitrary other user labels — `CircuitCnotCount` and `CircuitMeasureCount` equal
    the counts on the operation list of any schedule -/
theorem counts_with_user_labels {c : Dag} {P : Reg → List NodeId} {L : List (NodeId × Op)} (g : Good c P) (hc : CountOK c)
    (hS : Sched c P L) :
    Metrics.cnotCount c = Spec.cnotCount (L.map (·.2)) ∧ Metrics.measureCount c = Spec.measureCount (L.map (·.2)) :=
  ⟨cnotCount_eq_spec_sched_of g hc hS, measureCount_eq_spec_sched_of g hc hS⟩

/-- a decidable sufficient condition for `NoInputKey` -/
theorem noInputKey_of_check {c : Dag}
    (h : c.nodes.all (fun p => match p.1 with | .op _ => !p.2.indexKeys.contains "Input" | _ => true) = true) : NoInputKey c := by
  intro i o hm hin
  have := List.all_eq_true.mp h (.op i, o) hm
  simp [hin] at this

/-- … in particular with the operations in ANY topological order (what `sequence()` hands to the compilers) -/
theorem metrics_eq_spec_in_any_topological_order {c : Dag} {P : Reg → List NodeId} (g : Good c P) (hpl : AllPlain c)
    {pos : NodeId → Nat} (hlin : LinearExt c pos) (hinj : ∀ a ∈ c.nodeIds, ∀ b ∈ c.nodeIds, pos a = pos b → a = b) :
    MetricsMeetSpec c ((schedOf c P pos).map (·.2)) :=
  metrics_eq_spec_on_any_schedule g hpl (schedOf_sched g hlin hinj)

/-- the specification does not depend on the schedule chosen: any two schedules of the same circuit give the same value
    of every specification (shown for the counts and the register depths; each equals the metric) -/
theorem spec_independent_of_schedule {c : Dag} {P : Reg → List NodeId} {L L' : List (NodeId × Op)} (g : Good c P)
    (hpl : AllPlain c) (hS : Sched c P L) (hS' : Sched c P L') :
    Spec.cnotCount (L.map (·.2)) = Spec.cnotCount (L'.map (·.2)) ∧
    Spec.unitaryCount (L.map (·.2)) = Spec.unitaryCount (L'.map (·.2)) ∧
    (∀ r, c.live r → Spec.regDepth (L.map (·.2)) r = Spec.regDepth (L'.map (·.2)) r) ∧
    Spec.maxEmitEffDepth c.nE (L.map (·.2)) = Spec.maxEmitEffDepth c.nE (L'.map (·.2)) := by
  have m := metrics_eq_spec_on_any_schedule g hpl hS
  have m' := metrics_eq_spec_on_any_schedule g hpl hS'
  refine ⟨m.cnot.symm.trans m'.cnot, ?_, ?_, m.effective_depth.symm.trans m'.effective_depth⟩
  · have := m.unitary.symm.trans m'.unitary
    injection this
  · intro r hl
    have h1 := (sched_depth g hS (hS.input_not_key g hpl)).2 r hl
    have h2 := (sched_depth g hS' (hS'.input_not_key g hpl)).2 r hl
    exact_mod_cast h1.unique h2

/-- **the specification as a function of the circuit's wires.**  `wireOpList c` is computed from what `reg_gate_history` returns
    for every register and from the node operations alone: the operation nodes in the canonical topological order (number of proper
    ancestors by the model's breadth-first `ancestors`, then index), each with its operation as wired.  On every circuit satisfying
    DagInv with plain operations all metrics equal their specifications on this list. -/
theorem metrics_eq_spec_of_wires {c : Dag} {P : Reg → List NodeId} (g : Good c P) (hpl : AllPlain c) :
    MetricsMeetSpec c (wireOpList c) :=
  metrics_eq_spec_on_any_schedule g hpl (compSched_sched g)

/-- the canonical schedule is a schedule (so the list above is a topological order of the circuit's operations) -/
theorem canonical_schedule_is_schedule {c : Dag} {P : Reg → List NodeId} (g : Good c P) : Sched c P (compSched c) :=
  compSched_sched g

/-! ### the edits act on the specification's operation list as list edits

  append (`add`), erase (`remove_op`), replace in place (`replace_op`), flatMap-unwrap (`unwrap_nodes`), filter (`remove_identity`):
  for each, all metrics of the circuit after the edit equal the specifications on the edited operation list of ANY schedule of the
  circuit before.  (`insert_at` inserts the operation at a position compatible with the chosen edges, and `group_one_qubit_gates`
  fuses runs per wire — C12 §7; for those two the operation list after the edit is that of any schedule of the result.) -/

/-- plainness of the circuit from plainness of the scheduled operations -/
theorem allPlain_of_schedule {c : Dag} {P : Reg → List NodeId} {L : List (NodeId × Op)} (hS : Sched c P L)
    (h : ∀ o ∈ L.map (·.2), PlainOp' o) : AllPlain c := by
  intro i o hm
  exact plainOp'_of_wiredOp (h _ (List.mem_map.mpr ⟨_, hS.mem_of_node hm, rfl⟩))

/-- **`add(op)` = append**: when the call succeeds, all metrics afterwards equal the specifications on `ops ++ [op]` -/
theorem metrics_after_add {c : Dag} {P : Reg → List NodeId} {L : List (NodeId × Op)} (g : Good c P) (hpl : AllPlain c)
    (hS : Sched c P L) {op : Op} (hop : OpWF op) (hp : PlainOp' op) (hok : (c.add op).2 = none) :
    MetricsMeetSpec (c.add op).1 (L.map (·.2) ++ [op]) := by
  obtain ⟨P', g', hS'⟩ := add_sched_gen g hS hop hok
  have hpl' : AllPlain (c.add op).1 := by
    apply allPlain_of_schedule hS'
    intro o ho
    rw [List.map_append] at ho
    rcases List.mem_append.mp ho with ho | ho
    · exact (hS.wf_plain g hpl o ho).2
    · simp at ho; rw [ho]; exact hp
  have := metrics_eq_spec_on_any_schedule g' hpl' hS'
  simpa using this

/-- **`remove_op(node)` = erase**: the node's entry is removed from the operation list -/
theorem metrics_after_remove_op {c : Dag} {P : Reg → List NodeId} {L : List (NodeId × Op)} (g : Good c P) (hpl : AllPlain c)
    (hS : Sched c P L) {i : Nat} {w : Op} (hw : (NodeId.op i, w) ∈ c.nodes) :
    ∃ L1 L2, L = L1 ++ (NodeId.op i, wiredOp P (.op i) w) :: L2 ∧
      MetricsMeetSpec (c.removeOp (.op i)).1 (L1.map (·.2) ++ L2.map (·.2)) := by
  obtain ⟨L1, L2, hL, g', hS'⟩ := removeOp_sched_gen g hS hw
  refine ⟨L1, L2, hL, ?_⟩
  have hpl' : AllPlain (c.removeOp (.op i)).1 := by
    apply allPlain_of_schedule hS'
    intro o ho
    apply (hS.wf_plain g hpl o _).2
    rw [hL]
    rw [List.map_append] at ho ⊢
    rcases List.mem_append.mp ho with ho | ho
    · exact List.mem_append.mpr (Or.inl ho)
    · exact List.mem_append.mpr (Or.inr (List.mem_cons_of_mem _ ho))
  have := metrics_eq_spec_on_any_schedule g' hpl' hS'
  simpa using this

/-- **`replace_op(node, new)` = replace in place** (successful call: same quantum and classical registers): the entry of the node
    now holds `new` as wired, everything else is unchanged -/
theorem metrics_after_replace_op {c : Dag} {P : Reg → List NodeId} {L : List (NodeId × Op)} (g : Good c P) (hpl : AllPlain c)
    (hS : Sched c P L) {i : Nat} {old new : Op} (hold : (NodeId.op i, old) ∈ c.nodes) (hnew : OpWF new) (hp : PlainOp' new)
    (hq : old.qregs = new.qregs) (hc : old.cregs = new.cregs) :
    (c.replaceOp (.op i) new).2 = none ∧
    MetricsMeetSpec (c.replaceOp (.op i) new).1
      (L.map (fun p => if p.1 = NodeId.op i then wiredOp P (.op i) new else p.2)) := by
  have heq := replaceOp_eq ((opOf_eq_some g.inv.ids_nodup).mpr hold) hq hc
  rw [heq]
  refine ⟨rfl, ?_⟩
  obtain ⟨g', hS'⟩ := replaceOp_sched_gen g hS hold hnew hq hc
  have hmap : (L.map (fun p => if p.1 = NodeId.op i then (NodeId.op i, wiredOp P (.op i) new) else p)).map (·.2) =
      L.map (fun p => if p.1 = NodeId.op i then wiredOp P (.op i) new else p.2) := by
    rw [List.map_map]
    apply List.map_congr_left
    intro p _
    simp only [Function.comp]
    by_cases h : p.1 = NodeId.op i <;> simp [h]
  have hpl' : AllPlain (c.replaced (.op i) old new) := by
    apply allPlain_of_schedule hS'
    intro o ho
    rw [hmap] at ho
    obtain ⟨p, hpL, rfl⟩ := List.mem_map.mp ho
    by_cases h : p.1 = NodeId.op i
    · rw [if_pos h]; exact plainOp'_wiredOp hp
    · rw [if_neg h]; exact (hS.wf_plain g hpl p.2 (List.mem_map.mpr ⟨p, hpL, rfl⟩)).2
  have := metrics_eq_spec_on_any_schedule g' hpl' hS'
  rwa [hmap] at this

/-- **`insert_at(op, edges)` = insert into the operation list**: when the call succeeds (well-formed edges), there are operation
    lists `A`, `B` such that `A ++ B` is the operation list of a schedule of the circuit before, and all metrics afterwards equal the
    specifications on `A ++ [op on its quantum registers] ++ B` — `insert_at` threads the new node on the quantum wires of the given
    edges only, so its `c_registers` create no dependency (`quantumPart`) -/
theorem metrics_after_insert_at {c : Dag} {P : Reg → List NodeId} (g : Good c P) (hpl : AllPlain c) {op : Op} (hop : OpWF op)
    (hp : PlainOp' op) {es : List Edge} (hok : InsertOK c op es) (hsucc : (c.insertAt op es).2 = none) :
    ∃ (A B : List Op) (L : List (NodeId × Op)), Sched c P L ∧ L.map (·.2) = A ++ B ∧
      MetricsMeetSpec (c.insertAt op es).1 (A ++ quantumPart op :: B) := by
  obtain ⟨P', A, B, L, n, g', hS', hS, hmap⟩ := insertAt_sched_gen g hop hok hsucc
  refine ⟨A.map (·.2), B.map (·.2), L, hS, hmap, ?_⟩
  have hLpl := hS.wf_plain g hpl
  have hpl' : AllPlain (c.insertAt op es).1 := by
    apply allPlain_of_schedule hS'
    intro o ho
    rw [List.map_append, List.map_cons] at ho
    rcases List.mem_append.mp ho with ho | ho
    · exact (hLpl o (by rw [hmap]; exact List.mem_append.mpr (Or.inl ho))).2
    · rcases List.mem_cons.mp ho with rfl | ho
      · exact { labels := hp.labels, arity := hp.arity, inner_base := hp.inner_base }
      · exact (hLpl o (by rw [hmap]; exact List.mem_append.mpr (Or.inr ho))).2
  have := metrics_eq_spec_on_any_schedule g' hpl' hS'
  simpa using this

/-! ### the rewrites act on the specification's operation list -/

/-- **`unwrap_nodes` = flatMap-unwrap on the operation list**: on any circuit satisfying DagInv with plain operations and any
    schedule `L`, the call succeeds and all metrics of the result equal their specifications on the unwrapped operation list of `L` -/
theorem metrics_after_unwrap_nodes {c : Dag} {P : Reg → List NodeId} {L : List (NodeId × Op)} (g : Good c P) (hpl : AllPlain c)
    (hS : Sched c P L) : c.unwrapNodes.2 = none ∧ MetricsMeetSpec c.unwrapNodes.1 ((L.map (·.2)).flatMap Op.unwrap) := by
  obtain ⟨he, P', L', g', hS', hpl', hL'⟩ := unwrapNodes_sched_gen g hpl hS
  exact ⟨he, hL' ▸ metrics_eq_spec_on_any_schedule g' hpl' hS'⟩

/-- **`remove_identity` = filter on the operation list** -/
theorem metrics_after_remove_identity {c : Dag} {P : Reg → List NodeId} {L : List (NodeId × Op)} (g : Good c P) (hpl : AllPlain c)
    (hS : Sched c P L) :
    c.removeIdentity.2 = none ∧
      MetricsMeetSpec c.removeIdentity.1 ((L.map (·.2)).filter (fun o => !decide (o.kind = .identity))) := by
  obtain ⟨he, P', L', g', hS', hpl', hL'⟩ := removeIdentity_sched_gen g hpl hS
  exact ⟨he, hL' ▸ metrics_eq_spec_on_any_schedule g' hpl' hS'⟩

/-! ### the metrics are functions of the per-register operation sequences -/

/-- a circuit satisfying DagInv has a node iff it has a register -/
theorem nodes_nonempty_iff_register {c : Dag} {P : Reg → List NodeId} (g : Good c P) : c.nodeIds ≠ [] ↔ ∃ r, c.live r := by
  constructor
  · intro hne
    obtain ⟨n, hn⟩ := List.exists_mem_of_ne_nil _ hne
    cases n with
    | inp r => exact ⟨r, (g.inv.inp_iff r).mp hn⟩
    | out r => exact ⟨r, (g.inv.out_iff r).mp hn⟩
    | op i =>
      obtain ⟨o, ho⟩ := mem_nodeIds.mp hn
      have hwf := g.inv.op_wf i o ho
      cases hq : o.qregs with
      | nil => exact absurd hq hwf.qregs_ne
      | cons r t =>
        have hr : r ∈ o.qregs := by rw [hq]; simp
        have hm := (g.mem.mem_q i o ho r (hwf.qregs_quantum r hr)).mpr hr
        refine ⟨r, ?_⟩
        by_cases hl : c.live r
        · exact hl
        · rw [g.inv.dead r hl] at hm; simp at hm
  · rintro ⟨r, hl⟩ h
    have := (g.inv.inp_iff r).mpr hl
    rw [h] at this; simp at this

/-- **Wire determinacy.**  `wiredWire c P r` is the sequence of operations on the wire of register `r` (as wired, in wire order) —
    what `reg_gate_history` shows, without node identities.  Two circuits that satisfy DagInv, hold plain operations, have the same
    register counts and the same operation sequence on every wire admit schedules with the SAME operation list; so every
    specification, hence every metric, takes the same value on both: the metrics are functions of the per-register operation
    sequences and the register counts alone. -/
theorem metrics_determined_by_wire_sequences {c c' : Dag} {P P' : Reg → List NodeId} (g : Good c P) (g' : Good c' P')
    (hpl : AllPlain c) (hpl' : AllPlain c') (hregs : c'.regs = c.regs)
    (hw : ∀ r, c.live r → wiredWire c' P' r = wiredWire c P r) :
    ∃ ops, MetricsMeetSpec c ops ∧ MetricsMeetSpec c' ops := by
  have hw' : ∀ r, wiredWire c' P' r = wiredWire c P r := by
    intro r
    by_cases hl : c.live r
    · exact hw r hl
    · have hl' : ¬ c'.live r := fun h => hl ((live_eq_of_regs hregs r).mp h)
      unfold wiredWire
      rw [g.inv.dead r hl, g'.inv.dead r hl']
      rfl
  obtain ⟨L, L', hS, hS', hmap⟩ := same_wiredWires_same_ops g g' hw'
  refine ⟨L.map (·.2), metrics_eq_spec_on_any_schedule g hpl hS, ?_⟩
  rw [← hmap]
  exact metrics_eq_spec_on_any_schedule g' hpl' hS'

/-- … spelled out: equal register counts and equal wire sequences give equal metric values -/
theorem equal_wires_equal_metrics {c c' : Dag} {P P' : Reg → List NodeId} (g : Good c P) (g' : Good c' P')
    (hpl : AllPlain c) (hpl' : AllPlain c') (hregs : c'.regs = c.regs)
    (hw : ∀ r, c.live r → wiredWire c' P' r = wiredWire c P r) :
    Metrics.cnotCount c' = Metrics.cnotCount c ∧ Metrics.measureCount c' = Metrics.measureCount c ∧
    Metrics.unitaryCount c' = Metrics.unitaryCount c ∧ Metrics.circuitDepth c' = Metrics.circuitDepth c ∧
    (∀ t, c'.calculateRegDepth t = c.calculateRegDepth t) ∧ Metrics.maxEmitDepth c' = Metrics.maxEmitDepth c ∧
    Metrics.maxEmitResetDepth c' = Metrics.maxEmitResetDepth c ∧ Metrics.maxEmitEffDepth c' = Metrics.maxEmitEffDepth c := by
  obtain ⟨ops, m, m'⟩ := metrics_determined_by_wire_sequences g g' hpl hpl' hregs hw
  have hnE : c'.nE = c.nE := congrFun hregs .e
  refine ⟨m'.cnot.trans m.cnot.symm, m'.measure.trans m.measure.symm, m'.unitary.trans m.unitary.symm, ?_, ?_,
    ?_, ?_, ?_⟩
  · by_cases hne : c.nodeIds ≠ []
    · have hne' : c'.nodeIds ≠ [] := by
        obtain ⟨r, hl⟩ := (nodes_nonempty_iff_register g).mp hne
        exact (nodes_nonempty_iff_register g').mpr ⟨r, (live_eq_of_regs hregs r).mpr hl⟩
      exact (m'.depth_model hne').trans (m.depth_model hne).symm
    · have h0 : c.nodeIds = [] := by simpa using hne
      have h0' : c'.nodeIds = [] := by
        by_cases h : c'.nodeIds = []
        · exact h
        · obtain ⟨r, hl⟩ := (nodes_nonempty_iff_register g').mp h
          exact absurd ((nodes_nonempty_iff_register g).mpr ⟨r, (live_eq_of_regs hregs r).mp hl⟩) hne
      unfold Metrics.circuitDepth Dag.depth Dag.longestPathLen Dag.distTable
      rw [h0, h0']
      rfl
  · intro t
    rw [m'.register_depth t, m.register_depth t, hregs]
  · rw [m'.max_emitter_depth, m.max_emitter_depth, hnE]
  · rw [m'.reset_depth, m.reset_depth, hnE]
  · rw [m'.effective_depth, m.effective_depth, hnE]

/-- **metrics after `group_one_qubit_gates`**: the call does not raise, and its result has the metric values of ANY circuit
    (satisfying DagInv, plain operations, same register counts) whose wires carry the fused sequences `fuseWire r (wire of r before)` —
    so with `metrics_after_add … metrics_after_remove_identity` the effect of each of the eight edit kinds on every metric is a list
    edit of the operation list / of the wire sequences -/
theorem metrics_after_group {c c'' : Dag} {P P'' : Reg → List NodeId} (g : Good c P) (hh : GroupHyp c) (g'' : Good c'' P'')
    (hpl'' : AllPlain c'') (hregs : c''.regs = c.regs) (hw : ∀ r, wiredWire c'' P'' r = fuseWire r (wiredWire c P r)) :
    c.groupOneQubitGates.2 = none ∧
    Metrics.cnotCount c'' = Metrics.cnotCount c.groupOneQubitGates.1 ∧
    Metrics.measureCount c'' = Metrics.measureCount c.groupOneQubitGates.1 ∧
    Metrics.unitaryCount c'' = Metrics.unitaryCount c.groupOneQubitGates.1 ∧
    Metrics.circuitDepth c'' = Metrics.circuitDepth c.groupOneQubitGates.1 ∧
    (∀ t, c''.calculateRegDepth t = c.groupOneQubitGates.1.calculateRegDepth t) ∧
    Metrics.maxEmitDepth c'' = Metrics.maxEmitDepth c.groupOneQubitGates.1 ∧
    Metrics.maxEmitResetDepth c'' = Metrics.maxEmitResetDepth c.groupOneQubitGates.1 ∧
    Metrics.maxEmitEffDepth c'' = Metrics.maxEmitEffDepth c.groupOneQubitGates.1 := by
  obtain ⟨e, P', g', hh', hr', hw'⟩ := groupOneQubitGates_wiredWire g hh
  exact ⟨e, equal_wires_equal_metrics g' g'' hh'.plain hpl'' (hregs.trans hr'.symm) (fun r _ => (hw r).trans (hw' r).symm)⟩

/-- **the wires of the prepared copy** `unwrap_nodes(); remove_identity()` (on which five of the metrics work): on any circuit
    satisfying DagInv with graphiq-constructed operations both calls succeed and every wire of the copy carries the unwrapped,
    identity-free sequence of the original wire — operations as wired (instance `[unwrap_nodes, remove_identity]` of
    `C12.rewrite_history_on_wired_wires`) -/
theorem prepared_copy_wires {c : Dag} {P : Reg → List NodeId} (g : Good c P) (hh : GroupHyp c) :
    ∃ c' P', prep c = .ok c' ∧ Good c' P' ∧ c'.regs = c.regs ∧
      ∀ r, wiredWire c' P' r = ((wiredWire c P r).flatMap Op.unwrap).filter (fun o => !decide (o.kind = .identity)) := by
  obtain ⟨P', g', _, hr, hw⟩ := C12.rewrite_history_on_wired_wires [.unwrapNodes, .removeIdentity] g hh
  obtain ⟨L, hS⟩ := sched_exists g
  obtain ⟨c1, P1, L1, hprep, _, _, _, _, _⟩ := prep_sched_gen g hh.plain hS
  have hc1 := prep_eq_ok hprep
  refine ⟨c1, P', hprep, by rw [hc1]; exact g', by rw [hc1]; exact hr, fun r => by rw [hc1]; exact hw r⟩

/-! ### the theorems for `add`-built circuits are the special case "schedule = creation order" -/

/-- a circuit built by `add` has the schedule "nodes in creation order" whose operation list is `seq` itself — so §2–§5 are
    instances of `metrics_eq_spec_on_any_schedule` -/
theorem built_circuit_meets_spec (ne np nc : Nat) (seq : List Op) (hseq : PlainSeq seq)
    (hok : (build ne np nc seq).2 = none) : MetricsMeetSpec (build ne np nc seq).1 seq := by
  obtain ⟨P, L, g, hS, hL⟩ := build_sched ne np nc seq (fun op h => (hseq op h).1) hok
  obtain ⟨hops, _⟩ := build_spec ne np nc seq (fun op h => (hseq op h).1) hok
  have hpl : AllPlain (build ne np nc seq).1 := by
    intro i o hm
    have : o ∈ opsOf (build ne np nc seq).1 := mem_opsOf.mpr ⟨i, hm⟩
    rw [hops] at this
    exact (hseq o this).2
  have := metrics_eq_spec_on_any_schedule g hpl hS
  rwa [hL] at this

/-! ## 7. every circuit reachable by an edit history -/

open Graphiq.C12 in
/-- **Metrics after any edit history.**  For every history `es` over the whole edit API — add, insert_at, remove_op,
    replace_op, unwrap_nodes, remove_identity, group_one_qubit_gates, add_*_register, in any order, successful or raising —
    applied to a fresh `CircuitDAG(ne, np, nc)`, with graphiq-constructed operation arguments (`HistOKg`): the circuit
    reached satisfies DagInv, has a schedule, and on EVERY schedule `L` of it (in particular the operations in any
    topological order) all metrics equal their specifications on `L.map snd`. -/
theorem metrics_after_history (ne np nc : Nat) (es : List C12.Edit) (hok : C12.HistOKg (Dag.init ne np nc) es) :
    ∃ P, Good (C12.run (Dag.init ne np nc) es) P ∧ (∃ L, Sched (C12.run (Dag.init ne np nc) es) P L) ∧
      ∀ L, Sched (C12.run (Dag.init ne np nc) es) P L → MetricsMeetSpec (C12.run (Dag.init ne np nc) es) (L.map (·.2)) := by
  obtain ⟨⟨P, g⟩, hh⟩ := C12.groupHyp_on_every_reachable_circuit ne np nc es hok
  exact ⟨P, g, sched_exists g, fun L hS => metrics_eq_spec_on_any_schedule g hh.plain hS⟩

/-- the same from ANY starting circuit that satisfies DagInv and holds graphiq-constructed operations (e.g. a circuit some other
    history produced, or one imported from openQASM/JSON by a sequence of `add`s) -/
theorem metrics_after_history_from {c : Dag} (h : DagInv c) (hh : GroupHyp c) (es : List C12.Edit) (hok : C12.HistOKg c es) :
    MetricsMeetSpec (C12.run c es) (wireOpList (C12.run c es)) := by
  obtain ⟨⟨P, g⟩, hh'⟩ := C12.history_groupHyp es h hh hok
  exact metrics_eq_spec_of_wires g hh'.plain

/-- **depth metrics after any history, whatever the user labels**: for every history of well-formed edits (`C12.HistOK`: no
    assumption on labels or on how operations were constructed) from a fresh circuit, if no operation of the reached circuit is filed
    under `Input`, then `register_depth` and `CircuitDepth` equal their specifications on every schedule of it -/
theorem depth_after_history_with_user_labels (ne np nc : Nat) (es : List C12.Edit) (hok : C12.HistOK (Dag.init ne np nc) es)
    (hk : NoInputKey (C12.run (Dag.init ne np nc) es)) :
    ∃ P, Good (C12.run (Dag.init ne np nc) es) P ∧ (∃ L, Sched (C12.run (Dag.init ne np nc) es) P L) ∧
      ∀ L, Sched (C12.run (Dag.init ne np nc) es) P L →
        (∀ t, (C12.run (Dag.init ne np nc) es).calculateRegDepth t =
          .ok ((List.range ((C12.run (Dag.init ne np nc) es).regs t)).map (fun i => (Spec.regDepth (L.map (·.2)) ⟨t, i⟩ : Int)))) ∧
        ((C12.run (Dag.init ne np nc) es).nodeIds ≠ [] →
          Metrics.circuitDepth (C12.run (Dag.init ne np nc) es) = (Spec.depth (L.map (·.2)) : Int)) := by
  obtain ⟨P, g⟩ := C12.history_from_init ne np nc es hok
  refine ⟨P, g, sched_exists g, fun L hS => ?_⟩
  obtain ⟨h1, _, h3, _⟩ := depth_metrics_with_user_labels g hk hS
  exact ⟨h1, h3⟩

/-- **metrics after a history of node-addressed edits, wires computed by the list edits**: for a history of `add` / `insert_at` /
    `remove_op` / `replace_op` on existing registers (`C12.NodeHistOK`), the wires of the reached circuit are `C12.wiresRun` — a
    function of the wires before, `_node_id` and the edits (splice / erase / keep) — and every metric equals its specification on
    every schedule of those wires -/
theorem metrics_after_node_history {c : Dag} {P : Reg → List NodeId} (g : Good c P) (es : List C12.Edit)
    (hok : C12.NodeHistOK c es) (hpl : AllPlain (C12.run c es)) :
    Good (C12.run c es) (C12.wiresRun P c.nodeId es).1 ∧
    ∀ L, Sched (C12.run c es) (C12.wiresRun P c.nodeId es).1 L → MetricsMeetSpec (C12.run c es) (L.map (·.2)) := by
  obtain ⟨g', _⟩ := C12.node_history_wires es g hok
  exact ⟨g', fun L hS => metrics_eq_spec_on_any_schedule g' hpl hS⟩

/-- … in closed form: the metrics of the reached circuit are the specifications evaluated on `wireOpList` of it, a computable
    function of the wires `reg_gate_history` returns and of the node operations -/
theorem metrics_after_history_of_wires (ne np nc : Nat) (es : List C12.Edit) (hok : C12.HistOKg (Dag.init ne np nc) es) :
    MetricsMeetSpec (C12.run (Dag.init ne np nc) es) (wireOpList (C12.run (Dag.init ne np nc) es)) := by
  obtain ⟨⟨P, g⟩, hh⟩ := C12.groupHyp_on_every_reachable_circuit ne np nc es hok
  exact metrics_eq_spec_of_wires g hh.plain

/-- … and the wires `P` of the reached circuit are what `reg_gate_history` returns, register by register — the wires are
    determined by the circuit (`C12.wires_are_determined`) and are obtained from those of the previous circuit by the list
    edit of the edit applied (C12 §7: append / insert between / erase / keep / splice-in / filter / fuse) -/
theorem metrics_after_history_wires (ne np nc : Nat) (es : List C12.Edit) (hok : C12.HistOKg (Dag.init ne np nc) es) :
    ∃ P, Good (C12.run (Dag.init ne np nc) es) P ∧
      ∀ r, r.idx < (C12.run (Dag.init ne np nc) es).regs r.ty → (C12.run (Dag.init ne np nc) es).regGateHistory r = .ok (P r) := by
  obtain ⟨⟨P, g⟩, _⟩ := C12.groupHyp_on_every_reachable_circuit ne np nc es hok
  exact ⟨P, g, fun r hl => regGateHistory_eq_wire g.inv hl⟩

/-! ## 8. what the ASAP specification means: lengths of longest dependency chains

  `Spec.depth` / `Spec.regDepth` / `Spec.layerOf` are computed by layering the operation list over shared registers.  They are the
  definitional quantities of the property — "depth = length of the longest dependency chain" — by the theorems below, which speak of
  the operation list only: a dependency chain (`Chain seq pre o k`) is a subsequence of `k` operations ending at the operation `o`
  standing after the prefix `pre`, consecutive ones sharing a register. -/

/-- the ASAP layer of an operation = the length of the longest dependency chain ending at it (attained, and an upper bound) -/
theorem asap_layer_is_longest_chain {seq pre : List Op} {o : Op} {suf : List Op} (hseq : seq = pre ++ o :: suf) :
    Chain seq pre o (Spec.layerOf (Spec.fronts pre) o) ∧ ∀ k, Chain seq pre o k → k ≤ Spec.layerOf (Spec.fronts pre) o :=
  layer_is_longest_chain hseq

/-- **`Spec.depth` = the length of the longest dependency chain of the operation list** -/
theorem spec_depth_is_longest_chain (seq : List Op) :
    (∀ pre o k, Chain seq pre o k → k ≤ Spec.depth seq) ∧ (seq ≠ [] → ∃ pre o, Chain seq pre o (Spec.depth seq)) :=
  depth_is_longest_chain seq

/-- **`Spec.regDepth seq r` = the length of the longest dependency chain ending at an operation on register `r`** (0 if none) -/
theorem spec_reg_depth_is_longest_chain (seq : List Op) (r : Reg) :
    (∀ pre o k, Chain seq pre o k → r ∈ opRegs o → k ≤ Spec.regDepth seq r) ∧
    (Spec.regDepth seq r = 0 ∨ ∃ pre o, r ∈ opRegs o ∧ Chain seq pre o (Spec.regDepth seq r)) :=
  regDepth_is_longest_chain seq r

/-! ## 9. non-vacuity -/

def cnotEE : Op := ⟨.cnot, [⟨.e, 0⟩, ⟨.e, 1⟩], [], ["two-qubit"], []⟩
def hP0 : Op := Op.oneQubit .hadamard ⟨.p, 0⟩
def mcr : Op := ⟨.mcr, [⟨.e, 1⟩, ⟨.p, 0⟩], [0], ["two-qubit"], []⟩

theorem cnotEE_wf : OpWF cnotEE :=
  { not_input := by decide, not_output := by decide, qregs_ne := by decide, qregs_nodup := by decide,
    cregs_nodup := by decide, qregs_quantum := by decide,
    wrapper_shape := by intro h; exact absurd h (by decide),
    wrapper_key := by intro h; exact absurd h (by decide) }

theorem mcr_wf : OpWF mcr :=
  { not_input := by decide, not_output := by decide, qregs_ne := by decide, qregs_nodup := by decide,
    cregs_nodup := by decide, qregs_quantum := by decide,
    wrapper_shape := by intro h; exact absurd h (by decide),
    wrapper_key := by intro h; exact absurd h (by decide) }

/-- a three-operation list on `CircuitDAG(2, 1, 1)` satisfies the hypotheses of the counting theorems -/
example : PlainSeq [cnotEE, hP0, mcr] := by
  intro op hop
  simp at hop
  rcases hop with rfl | rfl | rfl
  · exact ⟨cnotEE_wf, ⟨⟨by decide, by decide⟩, by decide⟩⟩
  · exact ⟨oneQubit_wf rfl (by decide), plain_oneQubit _ _⟩
  · exact ⟨mcr_wf, ⟨⟨by decide, by decide⟩, by decide⟩⟩

example : (build 2 1 1 [cnotEE, hP0, mcr]).2 = none := by decide

def wrapE1 : Op := ⟨.wrapper, [⟨.e, 1⟩], [], ["one-qubit"], [.hadamard, .identity, .phase]⟩
def idP0 : Op := Op.oneQubit .identity ⟨.p, 0⟩

theorem wrapE1_wf : OpWF wrapE1 :=
  { not_input := by decide, not_output := by decide, qregs_ne := by decide, qregs_nodup := by decide,
    cregs_nodup := by decide, qregs_quantum := by decide,
    wrapper_shape := fun _ => ⟨⟨_, rfl⟩, rfl, by decide⟩,
    wrapper_key := fun _ => rfl }

/-- a list with a wrapper (holding an identity), a measure-and-reset, an identity and two emitter–emitter CNOTs -/
def seq2 : List Op := [cnotEE, wrapE1, mcr, idP0, hP0, cnotEE]

/-- it satisfies the hypotheses of the emitter-depth theorems … -/
example : PlainSeq seq2 := by
  intro op hop
  simp [seq2] at hop
  rcases hop with rfl | rfl | rfl | rfl | rfl | rfl
  · exact ⟨cnotEE_wf, ⟨⟨by decide, by decide⟩, by decide⟩⟩
  · exact ⟨wrapE1_wf, ⟨⟨by decide, by decide⟩, by decide⟩⟩
  · exact ⟨mcr_wf, ⟨⟨by decide, by decide⟩, by decide⟩⟩
  · exact ⟨oneQubit_wf rfl (by decide), plain_oneQubit _ _⟩
  · exact ⟨oneQubit_wf rfl (by decide), plain_oneQubit _ _⟩
  · exact ⟨cnotEE_wf, ⟨⟨by decide, by decide⟩, by decide⟩⟩

example : (build 2 1 1 seq2).2 = none := by decide

/-- … and the two sides of `emitter_reset_and_effective_depth_eq_spec` are proper values on it (kernel-evaluated):
    emitter 1 carries CNOT, Phase, Hadamard, measure-and-reset, CNOT — reset marks 0, 4, 6; ASAP depths −1, 3, 5 —
    emitter 0 carries the two CNOTs — marks 0, 3; depths −1, 5 -/
example : (Metrics.maxEmitResetDepth (build 2 1 1 seq2).1).toOption = some 4 ∧
    (Spec.maxEmitResetDepth 2 seq2).toOption = some 4 := by decide
example : (Metrics.maxEmitEffDepth (build 2 1 1 seq2).1).toOption = some 6 ∧
    (Spec.maxEmitEffDepth 2 seq2).toOption = some 6 := by decide

/-- the hypotheses of `max_depth_on_scheduled_circuit` are met by a circuit with six scheduled operations -/
example : ∃ (c : Dag) (P : Reg → List NodeId) (L : List (NodeId × Op)), Good c P ∧ Sched c P L ∧ L.length = 6 := by
  obtain ⟨P, L, g, hS, hL⟩ := build_sched 2 1 1 seq2 (fun op hop => by
    simp [seq2] at hop
    rcases hop with rfl | rfl | rfl | rfl | rfl | rfl
    · exact cnotEE_wf
    · exact wrapE1_wf
    · exact mcr_wf
    · exact oneQubit_wf rfl (by decide)
    · exact oneQubit_wf rfl (by decide)
    · exact cnotEE_wf) (by decide)
  exact ⟨_, P, L, g, hS, by rw [← List.length_map (f := (·.2)), hL]; rfl⟩

/-! ### a circuit reached by an edit history: add, insert_at (two edges, classical register left unthreaded), insert_at in
    the middle of a wire, remove_op, unwrap_nodes -/

def phE0 : Op := Op.oneQubit .phase ⟨.e, 0⟩

/-- `CNOT e0→e1; H p0;` insert `MCR e1→p0 (c0)` before both outputs; `W[H,I,P] e1;` insert `P e0` before the CNOT; remove `H p0`;
    unwrap -/
def hist : List C12.Edit :=
  [.add cnotEE, .add hP0,
   .insertAt mcr [⟨.op 1, .out ⟨.e, 1⟩, ⟨.e, 1⟩⟩, ⟨.op 2, .out ⟨.p, 0⟩, ⟨.p, 0⟩⟩],
   .add wrapE1,
   .insertAt phE0 [⟨.inp ⟨.e, 0⟩, .op 1, ⟨.e, 0⟩⟩],
   .removeOp 2,
   .unwrapNodes]

theorem gCnot : GraphiqOp cnotEE := ⟨cnotEE_wf, ⟨⟨by decide, by decide⟩, by decide⟩, fun h => absurd h (by decide)⟩
theorem gMcr : GraphiqOp mcr := ⟨mcr_wf, ⟨⟨by decide, by decide⟩, by decide⟩, fun h => absurd h (by decide)⟩
theorem gWrap : GraphiqOp wrapE1 := ⟨wrapE1_wf, ⟨⟨by decide, by decide⟩, by decide⟩, fun _ => ⟨⟨_, rfl⟩, rfl⟩⟩

/-- the history satisfies the hypothesis of `metrics_after_history` (the two-edge insertion is on the two edges into output
    nodes, which are sinks: no path from one edge's target to the other's source) -/
theorem hist_ok : C12.HistOKg (Dag.init 2 1 1) hist := by
  have gH : GraphiqOp hP0 := graphiqOp_oneQubit rfl (by decide)
  have gP : GraphiqOp phE0 := graphiqOp_oneQubit rfl (by decide)
  have h2 : DagInv (C12.run (Dag.init 2 1 1) [.add cnotEE, .add hP0]) :=
    C12.history_from_init 2 1 1 _ ⟨cnotEE_wf, gH.wf, trivial⟩
  obtain ⟨P2, g2⟩ := h2
  refine ⟨gCnot, gH, ⟨gMcr, ⟨by decide, rfl, ?_⟩⟩, gWrap, ⟨gP, ⟨by decide, rfl, ?_⟩⟩, trivial, trivial, trivial⟩
  · intro e1 he1 e2 he2 hne hr
    simp only [List.mem_cons, List.not_mem_nil, or_false] at he1 he2
    rcases he1 with rfl | rfl <;> rcases he2 with rfl | rfl
    · exact hne rfl
    · have := reflTransGen_of_sink (fun x => g2.inv.out_sink ⟨.e, 1⟩ x) hr
      exact absurd this (by decide)
    · have := reflTransGen_of_sink (fun x => g2.inv.out_sink ⟨.p, 0⟩ x) hr
      exact absurd this (by decide)
    · exact hne rfl
  · intro e1 he1 e2 he2 hne
    simp at he1 he2; subst he1 he2; exact absurd rfl hne

/-- the hypotheses admit user labels: the time-reversed solver's measurement, labelled "Fixed" (`gate.add_labels("Fixed")`), is a
    graphiq-constructed operation in the sense of the theorems -/
def mcrFixed : Op := ⟨.mcr, [⟨.e, 1⟩, ⟨.p, 0⟩], [0], ["two-qubit", "Fixed"], []⟩

example : GraphiqOp mcrFixed :=
  ⟨{ not_input := by decide, not_output := by decide, qregs_ne := by decide, qregs_nodup := by decide,
     cregs_nodup := by decide, qregs_quantum := by decide,
     wrapper_shape := by intro h; exact absurd h (by decide),
     wrapper_key := by intro h; exact absurd h (by decide) },
   ⟨⟨by decide, by decide⟩, by decide⟩, fun h => absurd h (by decide)⟩

/-- the circuit reached -/
def histCircuit : Dag := C12.run (Dag.init 2 1 1) hist

/-- the measure-and-reset as wired: `insert_at` did not thread it on `c0` -/
def mcrWired : Op := ⟨.mcr, [⟨.e, 1⟩, ⟨.p, 0⟩], [], ["two-qubit"], []⟩

/-- a topological order of the reached circuit, with the wired operations: node 5 (`P e0`, inserted before the CNOT), 1, 3, and
    the nodes 6, 7, 8 created by unwrapping node 4 -/
def histSchedule : List (NodeId × Op) :=
  [(.op 5, phE0), (.op 1, cnotEE), (.op 3, mcrWired), (.op 6, Op.oneQubit .phase ⟨.e, 1⟩),
   (.op 7, Op.oneQubit .identity ⟨.e, 1⟩), (.op 8, Op.oneQubit .hadamard ⟨.e, 1⟩)]

/-- it is a schedule of the reached circuit (kernel-evaluated checker, sound by `schedB_sound`) … -/
theorem histSchedule_is_schedule : ∃ P, Good histCircuit P ∧ Sched histCircuit P histSchedule :=
  schedB_sound' (C12.groupHyp_on_every_reachable_circuit 2 1 1 hist hist_ok).1 (by decide)

/-- it is the canonical schedule computed from the wires (kernel-evaluated) -/
example : compSched histCircuit = histSchedule := by decide +kernel

/-- … so by `metrics_after_history` all metrics of the reached circuit equal the specifications on its operation list -/
example : MetricsMeetSpec histCircuit (histSchedule.map (·.2)) := by
  obtain ⟨P, g, hS⟩ := histSchedule_is_schedule
  obtain ⟨P', g', _, hall⟩ := metrics_after_history 2 1 1 hist hist_ok
  have : P' = P := by funext r; exact g'.inv.paths_unique g.inv r
  subst this
  exact hall _ hS

/-- both sides are proper values (kernel-evaluated): one emitter–emitter CNOT, one measurement, four counted unitaries (the
    identity dropped), emitter depths 2 and 4 (e1: CNOT, MCR, P, H), reset interval 3, effective depth 3, register depths
    e: 2, 6  p: 3  c: 0 (the measurement does not touch the wire of `c0`) -/
example : Metrics.cnotCount histCircuit = 1 ∧ Spec.cnotCount (histSchedule.map (·.2)) = 1 ∧
    Metrics.measureCount histCircuit = 1 ∧ Spec.measureCount (histSchedule.map (·.2)) = 1 ∧
    (Metrics.unitaryCount histCircuit).toOption = some 4 ∧ Spec.unitaryCount (histSchedule.map (·.2)) = 4 := by decide
example : (Metrics.maxEmitDepth histCircuit).toOption = some 4 ∧ (Spec.maxEmitDepth 2 (histSchedule.map (·.2))).toOption = some 4 ∧
    (Metrics.maxEmitResetDepth histCircuit).toOption = some 3 ∧
    (Spec.maxEmitResetDepth 2 (histSchedule.map (·.2))).toOption = some 3 := by decide
example : (Metrics.maxEmitEffDepth histCircuit).toOption = some 3 ∧
    (Spec.maxEmitEffDepth 2 (histSchedule.map (·.2))).toOption = some 3 := by decide
example : Metrics.circuitDepth histCircuit = 6 := by decide
example : histCircuit.registerDepth.toOption = some ([2, 6], [3], [0]) ∧
    (List.range 2).map (fun i => Spec.regDepth (histSchedule.map (·.2)) ⟨.e, i⟩) = [2, 6] ∧
    Spec.regDepth (histSchedule.map (·.2)) ⟨.c, 0⟩ = 0 ∧ Spec.depth (histSchedule.map (·.2)) = 6 := by decide

/-- the hypothesis "at least one register" of the depth clauses is sharp: on `CircuitDAG(0, 0, 0)` networkx' longest path has 0
    edges and the code returns `depth = −1`, whereas the longest dependency chain of the (empty) operation list has length 0
    (the real `CircuitDepth().evaluate` returns −1 there as well; the correspondence harness accepts −1 on the empty graph) -/
example : Metrics.circuitDepth (Dag.init 0 0 0) = -1 ∧ Spec.depth [] = 0 ∧ (Dag.init 0 0 0).nodeIds = [] := by decide

/-- the depth theorems on a circuit with a user label: the time-reversed solver's first move on `CircuitDAG(1, 1, 1)` —
    `insert_at(MeasurementCNOTandReset labelled "Fixed", [first edge of e0, first edge of p0])` — is a well-formed history, the circuit
    reached satisfies `NoInputKey`, and both sides of the depth clause are 1 (kernel-evaluated) -/
def mcrFixedE0 : Op := ⟨.mcr, [⟨.e, 0⟩, ⟨.p, 0⟩], [0], ["two-qubit", "Fixed"], []⟩

def solverStep : List C12.Edit :=
  [.insertAt mcrFixedE0 [⟨.inp ⟨.e, 0⟩, .out ⟨.e, 0⟩, ⟨.e, 0⟩⟩, ⟨.inp ⟨.p, 0⟩, .out ⟨.p, 0⟩, ⟨.p, 0⟩⟩]]

example : C12.HistOK (Dag.init 1 1 1) solverStep ∧ NoInputKey (C12.run (Dag.init 1 1 1) solverStep) ∧
    Metrics.circuitDepth (C12.run (Dag.init 1 1 1) solverStep) = 1 ∧ Spec.depth [quantumPart mcrFixedE0] = 1 ∧
    (C12.run (Dag.init 1 1 1) solverStep).registerDepth.toOption = some ([1], [1], [0]) := by
  refine ⟨⟨⟨?_, ?_⟩, trivial⟩, noInputKey_of_check (by decide), by decide, by decide, by decide⟩
  · exact { not_input := by decide, not_output := by decide, qregs_ne := by decide, qregs_nodup := by decide,
            cregs_nodup := by decide, qregs_quantum := by decide,
            wrapper_shape := by intro h; exact absurd h (by decide),
            wrapper_key := by intro h; exact absurd h (by decide) }
  · exact C12.insert_at_input_edges_is_well_formed (C12.init_dagInv 1 1 1) (by decide) rfl
      (by intro e he; simp at he; rcases he with rfl | rfl <;> exact ⟨_, rfl⟩)

/-- wire determinacy, non-vacuity: `add(CNOT e0→e1); add(H p0)` and `add(H p0); add(CNOT e0→e1)` are different circuits (the node
    identities are swapped) with the same register counts and the same operation sequence on every wire (kernel-evaluated on the
    wires `reg_gate_history` returns) — the hypotheses of `equal_wires_equal_metrics` -/
example : (build 2 1 0 [hP0, cnotEE]).1.nodes ≠ (build 2 1 0 [cnotEE, hP0]).1.nodes ∧
    (build 2 1 0 [hP0, cnotEE]).1.regs = (build 2 1 0 [cnotEE, hP0]).1.regs ∧
    ∀ r ∈ liveRegs (build 2 1 0 [cnotEE, hP0]).1,
      wiredWire (build 2 1 0 [hP0, cnotEE]).1 (wireOf (build 2 1 0 [hP0, cnotEE]).1) r =
        wiredWire (build 2 1 0 [cnotEE, hP0]).1 (wireOf (build 2 1 0 [cnotEE, hP0]).1) r := by
  refine ⟨by decide, by funext t; cases t <;> rfl, by decide⟩

/-- a chain of three operations in `seq2`: `CNOT e0→e1`, the wrapper on `e1`, the measurement on `e1, p0` -/
example : Chain seq2 [cnotEE, wrapE1] mcr 3 :=
  Chain.snoc (pre1 := [cnotEE]) (mid := []) (suf2 := [idP0, hP0, cnotEE])
    (Chain.snoc (pre1 := []) (mid := []) (suf2 := [mcr, idP0, hP0, cnotEE]) (Chain.single (suf := [wrapE1, mcr, idP0, hP0, cnotEE]) rfl) rfl
      ⟨⟨.e, 1⟩, by decide, by decide⟩)
    rfl ⟨⟨.e, 1⟩, by decide, by decide⟩

end Graphiq.C18
