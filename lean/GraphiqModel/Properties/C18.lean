/-
  C18 — circuit cost metrics equal the quantities they are defined as.

  Property theorems only (lemmas: Proofs/Metrics.lean; models: Model/Metrics.lean = metrics.py as coded, label-index
  based; `Metrics.Spec.*` = the definitional specification of each metric on the operation list).

  Proved here, for circuits of every size:
    * `get_node_by_labels` (the query every counting metric is built on) returns exactly the nodes whose operation
      carries all the labels — under DagInv (C12), i.e. on every circuit reachable by edits;
    * the emitter count is the number of emitter input nodes;
    * for every circuit built by `add` from an operation list, the emitter–emitter CNOT count and the measurement
      count computed through the label index equal the counts defined on the operation list;
    * `reg_gate_history` returns the register's wire (on every circuit satisfying DagInv);
    * `register_depth` — the un-memoised `_max_depth` recursion, with the fuel the model gives it — equals the ASAP
      layer of the last operation on each register, for every circuit built by `add`.
    * `CircuitDepth` (networkx longest path − 1, under the recorded specification of `dag_longest_path_length`) equals
      the largest ASAP layer, for every non-empty circuit built by `add`.
    * `unwrap_nodes(); remove_identity()` on the copy succeed and leave exactly the multiset of the unwrapped,
      identity-free operation list; hence `CircuitUnitaryCount` and `CircuitMaxEmitDepth` equal their definitions.
  Stated and kept as `def …_statement` (evaluated on every input of the correspondence run against the independent
  op-list computation, not proved): reset depth and effective depth (they need the order of the operations on the
  wires of the prepared copy, not only their multiset).
-/
import GraphiqModel.Proofs.WireOps
namespace Graphiq.C18
open Graphiq Graphiq.Dag Graphiq.Metrics

/-! ## 1. label queries -/

/-- **`get_node_by_labels(labels)` = filter by predicate.**  On every circuit satisfying DagInv the returned list has
    no duplicates and contains exactly the nodes of the graph whose keys (operation labels, class name, register-type
    description; "Input"/"Output" for I/O nodes) include every requested label. -/
theorem get_node_by_labels_is_filter {c : Dag} (h : DagInv c) (labels : List String) :
    (c.getNodeByLabels labels).Nodup ∧
    ∀ n, n ∈ c.getNodeByLabels labels ↔ n ∈ c.nodeIds ∧ ∀ l ∈ labels, l ∈ c.keysAt n :=
  ⟨(getNodeByLabels_spec h labels (.op 0)).2, fun n => (getNodeByLabels_spec h labels n).1⟩

/-- the number of nodes returned = number of operations (integer nodes) carrying all labels, whenever the I/O keys do
    not satisfy the query -/
theorem get_node_by_labels_count {c : Dag} (h : DagInv c) (labels : List String)
    (hin : labels.all (fun l => ["Input"].contains l) = false) (hout : labels.all (fun l => ["Output"].contains l) = false) :
    (c.getNodeByLabels labels).length = (opsOf c).countP (fun op => labels.all (fun l => op.indexKeys.contains l)) :=
  length_getNodeByLabels_ops h labels hin hout

/-! ## 2. counting metrics -/

/-- `CircuitEmitterCount` = the number of emitter input nodes of the graph -/
theorem emitter_count_eq_inputs {c : Dag} (h : DagInv c) :
    Metrics.emitterCount c = (c.nodeIds.filter (fun n => match n with | .inp r => r.ty = .e | _ => false)).length := by
  obtain ⟨P, g⟩ := h
  exact (g.inv.input_count .e).symm

/-- hypotheses on an operation list: well-formed operations as graphiq constructs them (no user labels, at most two
    quantum registers, wrappers wrap base gate classes) -/
def PlainSeq (seq : List Op) : Prop := ∀ op ∈ seq, OpWF op ∧ PlainOp' op

theorem PlainSeq.plain {seq : List Op} (h : PlainSeq seq) : ∀ op ∈ seq, OpWF op ∧ PlainOp op :=
  fun op hop => ⟨(h op hop).1, (h op hop).2.toPlainOp⟩

/-- **`CircuitCnotCount` = number of CNOTs between two emitters in the operation list**, for every circuit built by
    `add` from any operation list (with the metric's default penalty) -/
theorem cnot_count_eq_spec (ne np nc : Nat) (seq : List Op) (hseq : PlainSeq seq) (hok : (build ne np nc seq).2 = none) :
    Metrics.cnotCount (build ne np nc seq).1 = Spec.cnotCount seq := by
  obtain ⟨hops, hinv⟩ := build_spec ne np nc seq (fun op h => (hseq op h).1) hok
  rw [cnotCount_eq_length, length_getNodeByLabels_ops hinv _ (by decide) (by decide), hops]
  unfold Spec.cnotCount
  apply countP_congr_mem
  intro op hop
  have := cnot_keys_iff (hseq op hop).1 (hseq op hop).2.toPlainOp
  by_cases hc : op.kind = .cnot ∧ op.qregs.map (·.ty) = [.e, .e]
  · have := this.mpr hc
    simp [hc.1, hc.2, this.1, this.2]
  · have hn : ¬ ("Emitter-Emitter" ∈ op.indexKeys ∧ "CNOT" ∈ op.indexKeys) := fun h => hc (this.mp h)
    have h1 : (decide (op.kind = .cnot) && decide (op.qregs.map (·.ty) = [.e, .e])) = false := by
      by_cases hk : op.kind = .cnot
      · have : ¬ op.qregs.map (·.ty) = [.e, .e] := fun h => hc ⟨hk, h⟩
        simp [hk, this]
      · simp [hk]
    rw [h1]
    simp only [List.all_cons, List.all_nil, Bool.and_true]
    by_cases h2 : "Emitter-Emitter" ∈ op.indexKeys
    · have : "CNOT" ∉ op.indexKeys := fun h => hn ⟨h2, h⟩
      simp [h2, this]
    · simp [h2]

/-- **`CircuitMeasureCount` = number of measure-and-reset operations in the operation list** -/
theorem measure_count_eq_spec (ne np nc : Nat) (seq : List Op) (hseq : PlainSeq seq) (hok : (build ne np nc seq).2 = none) :
    Metrics.measureCount (build ne np nc seq).1 = Spec.measureCount seq := by
  obtain ⟨hops, hinv⟩ := build_spec ne np nc seq (fun op h => (hseq op h).1) hok
  unfold Metrics.measureCount
  rw [length_getNodeByLabels_ops hinv _ (by decide) (by decide), hops]
  unfold Spec.measureCount
  apply countP_congr_mem
  intro op hop
  have := mcr_keys_iff (hseq op hop).1 (hseq op hop).2.toPlainOp
  by_cases hc : op.kind = .mcr
  · simp [hc, this.mpr hc]
  · have : "MeasurementCNOTandReset" ∉ op.indexKeys := fun h => hc (this.mp h)
    simp [hc, this]

/-- the operation nodes of a circuit built by `add` hold exactly the operation list, in order, and the circuit
    satisfies DagInv — the bridge between the graph and "the circuit's operation list" -/
theorem built_circuit_holds_op_list (ne np nc : Nat) (seq : List Op) (hwf : ∀ op ∈ seq, OpWF op)
    (hok : (build ne np nc seq).2 = none) : opsOf (build ne np nc seq).1 = seq ∧ DagInv (build ne np nc seq).1 :=
  build_spec ne np nc seq hwf hok

/-- `CircuitDepth` is the networkx longest-path length minus one (recorded specification of
    `dag_longest_path_length`: number of edges of a longest directed path) -/
theorem circuit_depth_is_longest_path_minus_one (L : Nat) : Metrics.circuitDepthWith L = (L : Int) - 1 := rfl

/-! ## 3. wires and register depth -/

/-- **`reg_gate_history(reg, reg_type)` = the wire.**  On every circuit satisfying DagInv the node list returned for an
    existing register is `in, n₁, …, n_m, out` where `n₁ … n_m` is the duplicate-free list of operation nodes whose
    consecutive pairs are exactly the edges keyed by the register (for a quantum register: exactly the operations
    acting on it, in wire order) — so `len(history) - 2`, the quantity `CircuitMaxEmitDepth` maximises, is the number
    of operations on the emitter. -/
theorem reg_gate_history_is_wire {c : Dag} (h : DagInv c) :
    ∃ P : Reg → List NodeId, (∀ e, e ∈ c.edges ↔ Consec (P e.key) e.src e.dst) ∧
      (∀ i op, (NodeId.op i, op) ∈ c.nodes → ∀ k, k.ty ≠ .c → (NodeId.op i ∈ P k ↔ k ∈ op.qregs)) ∧
      ∀ r, r.idx < c.regs r.ty → c.regGateHistory r = .ok (P r) := by
  obtain ⟨P, g⟩ := h
  exact ⟨P, g.inv.edges_iff, g.mem.mem_q, fun r hl => regGateHistory_eq_wire g.inv hl⟩

/-- **`reg_gate_history` against the operation list.**  For every circuit built by `add`, the operations held by the
    nodes that `reg_gate_history(r)` returns (between the Input and the Output node) are exactly the operations of the
    list that act on register `r` (quantum or classical), in list order. -/
theorem reg_gate_history_eq_op_list (ne np nc : Nat) (seq : List Op) (hseq : PlainSeq seq)
    (hok : (build ne np nc seq).2 = none) (r : Reg) (hl : r.idx < (build ne np nc seq).1.regs r.ty) :
    ∃ h, (build ne np nc seq).1.regGateHistory r = .ok h ∧
      wireOps (build ne np nc seq).1 h = seq.filter (fun o => decide (r ∈ opRegs o)) := by
  obtain ⟨_, ⟨P, g⟩⟩ := build_spec ne np nc seq (fun op h => (hseq op h).1) hok
  have hW := build_wireSeq ne np nc seq (fun op h => (hseq op h).1) hok
  exact ⟨P r, regGateHistory_eq_wire g.inv hl, hW.1 P g.inv r hl⟩

/-- **`register_depth` = ASAP layering.**  For every circuit built by `add` from any plain operation list, and every
    register type, `calculate_reg_depth` — i.e. the un-memoised recursion `_max_depth(out)` run with the fuel the model
    gives it — returns for each register the ASAP layer of the last operation acting on it (0 if none), computed on
    the operation list alone. -/
theorem register_depth_eq_asap (ne np nc : Nat) (seq : List Op) (hseq : PlainSeq seq) (hok : (build ne np nc seq).2 = none)
    (t : RegType) :
    (build ne np nc seq).1.calculateRegDepth t =
      .ok ((List.range ((build ne np nc seq).1.regs t)).map (fun i => (Spec.regDepth seq ⟨t, i⟩ : Int))) :=
  calculateRegDepth_eq_spec ne np nc seq hseq.plain hok t

/-- the same for `_max_depth` of any node: it is the relation `HasDepth` (inputs −1, otherwise one more than the
    deepest source of an in-edge), and the recursion terminates with fuel `depth + 2` -/
theorem max_depth_recursion_spec {c : Dag} {n : NodeId} {d : Int} (h : HasDepth c n d) (f : Nat) (hf : d + 2 ≤ (f : Int)) :
    c.maxDepth f n = .ok d := maxDepth_of_hasDepth h f hf

/-- **`CircuitDepth` = the largest ASAP layer of the operation list** (the length of the longest dependency chain of
    operations), for every non-empty circuit built by `add` from any plain operation list and every value `L` that meets
    the recorded specification of `nx.dag_longest_path_length` (`L` edges on some directed walk, no walk has more);
    `depth = L − 1`. -/
theorem circuit_depth_eq_spec (ne np nc : Nat) (seq : List Op) (hseq : PlainSeq seq) (hok : (build ne np nc seq).2 = none)
    (hne : (build ne np nc seq).1.nodeIds ≠ []) {L : Nat} (hL : LongestPathSpec (build ne np nc seq).1 L) :
    Metrics.circuitDepthWith L = (Spec.depth seq : Int) :=
  circuitDepth_eq_spec ne np nc seq hseq.plain hok hne hL

/-! ## 4. metrics evaluated on the unwrapped, identity-free copy -/

/-- the copy `c = circuit.copy(); c.unwrap_nodes(); c.remove_identity()`: both calls succeed, the copy satisfies DagInv,
    has the same registers, and holds exactly the multiset of operations of the unwrapped, identity-free list -/
theorem prepared_copy_spec (ne np nc : Nat) (seq : List Op) (hseq : PlainSeq seq) (hok : (build ne np nc seq).2 = none) :
    ∃ c', prep (build ne np nc seq).1 = .ok c' ∧ DagInv c' ∧ c'.regs = (build ne np nc seq).1.regs ∧
      ∀ p : Op → Bool, (opsOf c').countP p = (Spec.unwrapSeq seq).countP p :=
  prep_spec ne np nc seq hseq hok

/-- **`CircuitUnitaryCount` = number of SigmaX, SigmaY, SigmaZ, Phase, PhaseDagger, Hadamard and CNOT gates after
    unwrapping the wrappers and dropping identities**, for every circuit built by `add` -/
theorem unitary_count_eq_spec (ne np nc : Nat) (seq : List Op) (hseq : PlainSeq seq) (hok : (build ne np nc seq).2 = none) :
    Metrics.unitaryCount (build ne np nc seq).1 = .ok (Spec.unitaryCount seq) :=
  unitaryCount_eq_spec ne np nc seq hseq hok

/-- **`CircuitMaxEmitDepth` = the largest number of unwrapped, non-identity operations acting on one emitter**
    (`ValueError` on both sides when there is no emitter) -/
theorem max_emitter_depth_eq_spec (ne np nc : Nat) (seq : List Op) (hseq : PlainSeq seq)
    (hok : (build ne np nc seq).2 = none) :
    Metrics.maxEmitDepth (build ne np nc seq).1 = Spec.maxEmitDepth (build ne np nc seq).1.nE seq :=
  maxEmitDepth_eq_spec ne np nc seq hseq hok

/-! ## 5. the remaining metrics: full statements (not proved; compared on every correspondence input) -/

/-- reset depth and effective depth need the *order* of the operations on the emitter's wire of the prepared copy (and
    the depth recursion on it); only the multiset of its operations is established above -/
def emitter_reset_and_effective_depth_eq_spec_statement : Prop :=
  ∀ ne np nc seq, PlainSeq seq → (build ne np nc seq).2 = none →
    Metrics.maxEmitResetDepth (build ne np nc seq).1 = Spec.maxEmitResetDepth (build ne np nc seq).1.nE seq ∧
    Metrics.maxEmitEffDepth (build ne np nc seq).1 = Spec.maxEmitEffDepth (build ne np nc seq).1.nE seq

/-! ## 6. non-vacuity -/

def cnotEE : Op := ⟨.cnot, [⟨.e, 0⟩, ⟨.e, 1⟩], [], ["two-qubit"], []⟩
def hP0 : Op := Op.oneQubit .hadamard ⟨.p, 0⟩
def mcr : Op := ⟨.mcr, [⟨.e, 1⟩, ⟨.p, 0⟩], [0], ["two-qubit"], []⟩

theorem cnotEE_wf : OpWF cnotEE :=
  { not_input := by decide, not_output := by decide, qregs_ne := by decide, qregs_nodup := by decide,
    cregs_nodup := by decide, qregs_quantum := by decide,
    wrapper_shape := by intro h; exact absurd h (by decide),
    wrapper_key := by intro h; exact absurd h (by decide) }

theorem mcr_wf : OpWF mcr :=
  { not_input := by decide, not_output := by decide, qregs_ne := by decide, qregs_nodup := by decide,
    cregs_nodup := by decide, qregs_quantum := by decide,
    wrapper_shape := by intro h; exact absurd h (by decide),
    wrapper_key := by intro h; exact absurd h (by decide) }

/-- a three-operation list on `CircuitDAG(2, 1, 1)` satisfies the hypotheses of the counting theorems -/
example : PlainSeq [cnotEE, hP0, mcr] := by
  intro op hop
  simp at hop
  rcases hop with rfl | rfl | rfl
  · exact ⟨cnotEE_wf, ⟨⟨by decide, by decide⟩, by decide⟩⟩
  · exact ⟨oneQubit_wf rfl (by decide), plain_oneQubit _ _⟩
  · exact ⟨mcr_wf, ⟨⟨by decide, by decide⟩, by decide⟩⟩

example : (build 2 1 1 [cnotEE, hP0, mcr]).2 = none := by decide

end Graphiq.C18
