/-
  C07 — a Clifford tableau stays valid and tracks the right state under any history.

  Property theorems only (helper lemmas live in Proofs/).  `Tab.Valid` is "binary and symplectic, every destabilizer
  paired to its stabilizer" (binary-ness is by type).  "Tracks the right state" is stated at the level of the Pauli
  group: a gate acts row-wise by a map that is an automorphism of the signed n-qubit Pauli group (it respects the signed
  product and the commutation form) and sends the one-site generators to their textbook images — an automorphism of
  the Pauli group is determined by the images of X_j, Z_j, so this pins the gate's action on every row, signs
  included, for every n.  (The identification of that group semantics with Hilbert-space semantics is the cited
  tensor-lifting fact of DESIGN §7; the correspondence run additionally checks it against a dense simulator, n ≤ 5.)

  §4b (state half): for every operation — measurement, reset, insertion, removal, partial trace, swap, tensor — the
  stabilizer GROUP of the result is given in terms of the group of the input, and `history_tracks_state` chains these
  along every history as a refinement of the abstract group-transformer semantics `specOps` (Proofs/TabSpec*.lean).
-/
import GraphiqModel.Proofs.Tableau
import GraphiqModel.Proofs.TabSpecFactor
import GraphiqModel.Proofs.HilbertTab
import GraphiqModel.Proofs.HilbertKron
import GraphiqModel.Proofs.HilbertDimHistory
import GraphiqModel.Proofs.HilbertDimKet
import GraphiqModel.Proofs.HilbertDimReset
import GraphiqModel.Proofs.HilbertDimMix
import GraphiqModel.Proofs.HilbertDimProg
import GraphiqModel.Proofs.HilbertDimAdjoint
import GraphiqModel.Proofs.HilbertDimCPTP
import GraphiqModel.Proofs.HilbertDimExpect
import GraphiqModel.Proofs.HilbertDimOverlap
import GraphiqModel.Proofs.HilbertDimReduced
import GraphiqModel.Proofs.HilbertDimBorn
import GraphiqModel.Proofs.HilbertDimMeasXY
import GraphiqModel.Proofs.HilbertDimCY
namespace Graphiq.C07
open Graphiq Graphiq.PRow Graphiq.Tab

/-! ## 1. Gates: automorphisms with the textbook generator images, for every n -/

/-- every elementary and derived gate of transformation.py acts row-wise as a Pauli-group automorphism
    (preserves commutation, respects the signed product, respects row equality) -/
theorem gate_is_pauli_automorphism (n q c t : Nat) (hq : q < n) (hc : c < n) (ht : t < n) (hct : c ≠ t) :
    IsAut n (PRow.h q) ∧ IsAut n (PRow.s q) ∧ IsAut n (PRow.sdg q) ∧ IsAut n (PRow.xg q) ∧
    IsAut n (PRow.yg q) ∧ IsAut n (PRow.zg q) ∧ IsAut n (PRow.cnot c t) ∧ IsAut n (PRow.cz c t) :=
  ⟨isAut_h n q hq, isAut_s n q hq, isAut_sdg n q hq, isAut_xg n q hq, isAut_yg n q hq, isAut_zg n q hq,
   isAut_cnot n c t hc ht hct, isAut_cz n c t hc ht hct⟩

/-- the Hermitian `Y_q` row (x = z = 1 at `q`) -/
def Yq (q : Nat) (sign : Bool := false) : PRow := ⟨fun j => decide (j = q), fun j => decide (j = q), sign, false⟩

/-- images of the one-site generators under the one-qubit gates, signs included (all n):
    H: X→Z, Z→X;  P: X→Y, Z→Z;  P†: X→−Y, Z→Z;  X: X→X, Z→−Z;  Y: X→−X, Z→−Z;  Z: X→−X, Z→Z;
    and a gate on `q` fixes the generators of every other site -/
theorem one_qubit_gate_generator_images (n q : Nat) :
    EqOn n (PRow.h q (Xq q)) (Zq q) ∧ EqOn n (PRow.h q (Zq q)) (Xq q) ∧
    EqOn n (PRow.s q (Xq q)) (Yq q) ∧ EqOn n (PRow.s q (Zq q)) (Zq q) ∧
    EqOn n (PRow.sdg q (Xq q)) (Yq q true) ∧ EqOn n (PRow.sdg q (Zq q)) (Zq q) ∧
    EqOn n (PRow.xg q (Xq q)) (Xq q) ∧ EqOn n (PRow.xg q (Zq q)) (Zq q true) ∧
    EqOn n (PRow.yg q (Xq q)) (Xq q true) ∧ EqOn n (PRow.yg q (Zq q)) (Zq q true) ∧
    EqOn n (PRow.zg q (Xq q)) (Xq q true) ∧ EqOn n (PRow.zg q (Zq q)) (Zq q) := by
  refine ⟨?_, ?_, ?_, ?_, ?_, ?_, ?_, ?_, ?_, ?_, ?_, ?_⟩ <;>
    (refine ⟨fun j _ => ?_, ?_, ?_⟩ <;>
      simp [PRow.h, PRow.s, PRow.sdg, PRow.xg, PRow.yg, PRow.zg, Xq, Zq, Yq] <;>
      (try (by_cases e : j = q <;> simp [e])))

theorem one_qubit_gate_fixes_other_sites (n q k : Nat) (hk : k ≠ q) (sg : Bool) :
    EqOn n (PRow.h q (Xq k sg)) (Xq k sg) ∧ EqOn n (PRow.h q (Zq k sg)) (Zq k sg) ∧
    EqOn n (PRow.s q (Xq k sg)) (Xq k sg) ∧ EqOn n (PRow.s q (Zq k sg)) (Zq k sg) := by
  have hqk : q ≠ k := Ne.symm hk
  refine ⟨?_, ?_, ?_, ?_⟩ <;>
    (refine ⟨fun j _ => ?_, ?_, ?_⟩ <;> simp [PRow.h, PRow.s, Xq, Zq, hqk] <;>
      (try (by_cases e : j = q <;> simp [e, hqk])))

/-- images of the generators under CNOT(c→t): X_c→X_cX_t, X_t→X_t, Z_c→Z_c, Z_t→Z_cZ_t (all signs +) -/
theorem cnot_generator_images (n c t : Nat) (hct : c ≠ t) :
    EqOn n (PRow.cnot c t (Xq c)) (PRow.mul n (Xq c) (Xq t)) ∧ EqOn n (PRow.cnot c t (Xq t)) (Xq t) ∧
    EqOn n (PRow.cnot c t (Zq c)) (Zq c) ∧ SameBits n (PRow.cnot c t (Zq t)) (PRow.mul n (Zq c) (Zq t)) ∧
    (PRow.cnot c t (Zq t)).r = false := by
  have htc : t ≠ c := Ne.symm hct
  refine ⟨?_, ?_, ?_, ?_, ?_⟩
  · apply eqOn_of
    · intro j _
      by_cases e1 : j = t
      · subst e1; simp [PRow.cnot, Xq, htc]
      · simp [PRow.cnot, Xq, e1]
    · rw [cnot_ph, mul_ph]
      have g0 : gSum n (Xq c) (Xq t) = 0 := by
        unfold gSum
        rw [sumTo_congr n _ (fun _ => 0)]
        · exact sumTo_zero n
        · intro j _
          by_cases e : j = c <;> simp [Xq, gFun, e, Bool.toInt', htc, hct]
      rw [g0]; simp [Xq, PRow.ph, Bool.toInt', htc]
  · refine ⟨fun j _ => ?_, ?_, ?_⟩
    · by_cases e1 : j = t
      · subst e1; simp [PRow.cnot, Xq, hct]
      · simp [PRow.cnot, Xq, e1]
    · simp [PRow.cnot, Xq, htc]
    · simp [PRow.cnot, Xq]
  · refine ⟨fun j _ => ?_, ?_, ?_⟩
    · by_cases e1 : j = c
      · subst e1; simp [PRow.cnot, Zq, htc]
      · simp [PRow.cnot, Zq, e1]
    · simp [PRow.cnot, Zq]
    · simp [PRow.cnot, Zq]
  · intro j _
    simp [PRow.cnot, Zq]
    by_cases e1 : j = c
    · subst e1; simp [hct]
    · simp [e1]
  · simp [PRow.cnot, Zq]

/-! ## 2. Validity is preserved by every operation of the API, hence by every history -/

/-- argument condition of the quantifier: control and target of a two-qubit gate are distinct -/
def WF : Tab.Op → Prop
  | .cnot c t => c ≠ t
  | .cz c t => c ≠ t
  | _ => True

theorem op_preserves_valid (t t' : Tab) (op : Tab.Op) (out : Option (Bool × Bool)) (hop : WF op)
    (hv : t.Valid) (h : t.applyOp op = .ok (t', out)) : t'.Valid := by
  cases op with
  | h q => simp only [applyOp] at h; split at h <;> simp at h; rw [← h.1]; exact hGate_valid t q (by assumption) hv
  | s q => simp only [applyOp] at h; split at h <;> simp at h; rw [← h.1]; exact sGate_valid t q (by assumption) hv
  | sdg q => simp only [applyOp] at h; split at h <;> simp at h; rw [← h.1]; exact sdgGate_valid t q (by assumption) hv
  | x q => simp only [applyOp] at h; split at h <;> simp at h; rw [← h.1]; exact xGate_valid t q (by assumption) hv
  | y q => simp only [applyOp] at h; split at h <;> simp at h; rw [← h.1]; exact yGate_valid t q (by assumption) hv
  | z q => simp only [applyOp] at h; split at h <;> simp at h; rw [← h.1]; exact zGate_valid t q (by assumption) hv
  | cnot c tg =>
    simp only [applyOp] at h; split at h <;> simp at h
    rename_i hb; rw [← h.1]; exact cnotGate_valid t c tg hb.1 hb.2 hop hv
  | cz c tg =>
    simp only [applyOp] at h; split at h <;> simp at h
    rename_i hb; rw [← h.1]; exact czGate_valid t c tg hb.1 hb.2 hop hv
  | swap a b =>
    simp only [applyOp] at h; split at h <;> simp at h
    rename_i hb; rw [← h.1]; exact swapGate_valid t a b hb.1 hb.2 hv
  | meas q o =>
    simp only [applyOp] at h; split at h <;> simp at h
    rename_i hq; rw [← h.1]; exact zMeasure_valid t q o hq hv
  | resetZ q i o => simp only [applyOp] at h; split at h <;> simp at h; rw [← h.1]; exact resetZ_valid t q i o (by assumption) hv
  | resetX q i o => simp only [applyOp] at h; split at h <;> simp at h; rw [← h.1]; exact resetX_valid t q i o (by assumption) hv
  | resetY q i o => simp only [applyOp] at h; split at h <;> simp at h; rw [← h.1]; exact resetY_valid t q i o (by assumption) hv
  | insert p => simp only [applyOp] at h; split at h <;> simp at h; rw [← h.1]; exact insertQubit_valid t p (by assumption) hv
  | add => simp only [applyOp] at h; simp at h; rw [← h.1]; exact addQubit_valid t hv
  | remove q o =>
    simp only [applyOp] at h
    cases hr : t.removeQubit? q o with
    | error e => rw [hr] at h; simp at h
    | ok t1 => rw [hr] at h; simp at h; rw [← h.1]; exact removeQubit?_valid t t1 q o hv hr
  | ptrace k os =>
    simp only [applyOp] at h
    cases hr : t.partialTrace k os with
    | error e => rw [hr] at h; simp at h
    | ok t1 => rw [hr] at h; simp at h; rw [← h.1]; exact partialTrace_valid t t1 k os hv hr

/-- **History theorem.**  From a valid tableau of any size, any finite history of gates, swaps, measurements (any outcomes),
    resets, qubit insertions, qubit removals and partial traces that the API accepts ends in a valid tableau
    ("binary and symplectic with every destabilizer paired to its stabilizer"; binary-ness is by type). -/
theorem history_valid (ops : List Tab.Op) (hops : ∀ op ∈ ops, WF op) :
    ∀ (t t' : Tab), t.Valid → t.runOps ops = .ok t' → t'.Valid := by
  induction ops with
  | nil => intro t t' hv h; simp [runOps] at h; rw [← h]; exact hv
  | cons op rest ih =>
    intro t t' hv h
    simp only [runOps] at h
    split at h
    · next t1 out h1 =>
      exact ih (fun o ho => hops o (List.mem_cons_of_mem _ ho)) t1 t'
        (op_preserves_valid t t1 op out (hops op List.mem_cons_self) hv h1) h
    · simp at h

/-- the tensor product of valid tableaux is valid (`tensor` is a binary operation outside `Op`) -/
theorem tensor_valid (a b : Tab) (ha : a.Valid) (hb : b.Valid) : (Tab.tensor2 a b).Valid := tensor2_valid a b ha hb

/-- `is_symplectic(table)` of utils.py decides exactly the invariant -/
theorem isSymplectic_iff_valid (t : Tab) : t.isSymplectic = true ↔ t.Valid := Tab.isSymplectic_iff t

/-- the all-|0⟩ tableau of any size is valid -/
theorem ket0_is_valid (n : Nat) : (Tab.ket0 n).Valid := Tab.ket0_valid n

/-! ## 3. Measurement tracks the post-measurement state (textbook rule), every n -/

/-- Random outcome (some stabilizer anticommutes with `Z_q`): the recorded outcome is the forced/drawn one; the pivot
    generator becomes `(-1)^outcome Z_q`; every other new stabilizer generator lies in the old stabilizer group and
    commutes with `Z_q`.  (This is the textbook update: the new group is ⟨±Z_q⟩ · {old elements commuting with Z_q}.) -/
theorem measure_random_spec (t : Tab) (q p : Nat) (o : Bool) (hv : t.Valid) (hq : q < t.n) (hp : t.pivot q = some p) :
    (t.zMeasure q o).2.1 = o ∧ (t.zMeasure q o).2.2 = p ∧
    SameBits t.n ((t.zMeasure q o).1.row p) (Zq q) ∧ ((t.zMeasure q o).1.row p).r = o ∧
    (∀ i, i < t.n → i + t.n ≠ p → InSpan t.n t.n t.stab ((t.zMeasure q o).1.stab i)) ∧
    (∀ i, i < t.n → ((t.zMeasure q o).1.stab i).x q = false) := by
  obtain ⟨h1, h2, h3⟩ := pivot_spec t q p hp
  have e : t.zMeasure q o = (t.measRandom q p o, o, p) := by simp [zMeasure, hp]
  rw [e]
  exact ⟨rfl, rfl, (measRandom_pivot_row t q p o).1, (measRandom_pivot_row t q p o).2,
    fun i hi hip => measRandom_stab_inSpan t q p o h1 h2 i hi hip,
    fun i hi => measRandom_commutes_Zq t q p o hv hq h1 h2 h3 i hi⟩

/-- Deterministic outcome (no stabilizer anticommutes with `Z_q`): the tableau is unchanged, a forced outcome is
    ignored, and the reported outcome is the sign of a product of stabilizer generators (an element of the group). -/
theorem measure_deterministic_spec (t : Tab) (q : Nat) (o : Bool) (hp : t.pivot q = none) :
    (t.zMeasure q o).1 = t ∧ (t.zMeasure q o).2.2 = 0 ∧
    (t.zMeasure q o).2.1 = (t.measScratch q).r ∧ InSpan t.n t.n t.stab (t.measScratch q) := by
  have e : t.zMeasure q o = (t, (t.measScratch q).r, 0) := by simp [zMeasure, hp]
  rw [e]
  exact ⟨rfl, rfl, rfl, measScratch_inSpan t q⟩

/-- the measurement is random exactly when some stabilizer generator has an X on the measured qubit -/
theorem measure_random_iff (t : Tab) (q : Nat) (o : Bool) :
    (t.zMeasure q o).2.2 ≠ 0 ↔ ∃ i, t.n ≤ i ∧ i < 2 * t.n ∧ (t.row i).x q = true := by
  unfold zMeasure
  cases hp : t.pivot q with
  | some p =>
    obtain ⟨h1, h2, h3⟩ := pivot_spec t q p hp
    simp only
    constructor
    · intro _; exact ⟨p, h1, h2, h3⟩
    · intro _; omega
  | none =>
    simp only
    constructor
    · intro h; exact absurd rfl h
    · intro ⟨i, h1, h2, h3⟩
      exfalso
      unfold pivot findFrom at hp
      have : i ∈ (List.range (2 * t.n)).filter (fun i => decide (t.n ≤ i) && (t.row i).x q) := by
        simp only [List.mem_filter, List.mem_range, Bool.and_eq_true, decide_eq_true_eq]
        exact ⟨h2, h1, h3⟩
      cases hl : (List.range (2 * t.n)).filter (fun i => decide (t.n ≤ i) && (t.row i).x q) with
      | nil => rw [hl] at this; cases this
      | cons a l => rw [hl] at hp; simp at hp

/-! ## 4. Insertion adds an unentangled |0⟩ at the requested position -/

/-- `insert_qubit(t, p)`: the new destabilizer/stabilizer pair is `X_p` / `+Z_p`; every other row is an old row with an
    identity inserted at site `p` — its other sites and both phase bits are unchanged -/
theorem insert_spec (t : Tab) (p : Nat) (hp : p ≤ t.n) :
    (t.insertQubit p).n = t.n + 1 ∧ (t.insertQubit p).row p = Xq p ∧ (t.insertQubit p).row (t.n + 1 + p) = Zq p ∧
    ∀ i, i ≠ p → i ≠ t.n + 1 + p →
      (t.insertQubit p).row i = (t.row (insSrc t.n p i)).insertCol p ∧
      ((t.insertQubit p).row i).x p = false ∧ ((t.insertQubit p).row i).z p = false ∧
      ((t.insertQubit p).row i).r = (t.row (insSrc t.n p i)).r := by
  refine ⟨rfl, insertQubit_row_p t p hp, insertQubit_row_np t p, ?_⟩
  intro i h1 h2
  rw [insertQubit_row_old t p i h1 h2]
  simp [PRow.insertCol]

/-! ## 4b. The state half: what every operation does to the stabilizer GROUP, for every n

  `Grp t` is the signed span of the stabilizer rows of `t` (the vocabulary of `measure_random_spec`: `InSpan`).  Each
  theorem says which rows are in the group after an operation in terms of the group before it; `history_tracks_state`
  chains them along any history (refinement of the abstract semantics `specOp`). Hypotheses: the tableau is valid and
  its stabilizer rows carry no imaginary phase (`StabReal` — preserved by every operation, `history_stab_real`).
  The identification of the group semantics with Hilbert-space semantics stays the cited tensor-lifting fact. -/
section StateHalf
open Graphiq.TabSpec

/-- Bell pair `(|00⟩+|11⟩)/√2`: destabilizers `ZI`, `IX`; stabilizers `XX`, `ZZ` -/
def bell : Tab :=
  Tab.ofRows 2 #[
    PRow.ofArrays #[false,false] #[true,false] false false,
    PRow.ofArrays #[false,true] #[false,false] false false,
    PRow.ofArrays #[true,true] #[false,false] false false,
    PRow.ofArrays #[false,false] #[true,true] false false]

theorem bell_valid : bell.Valid := (isSymplectic_iff_valid bell).mp (by decide)
theorem bell_real : bell.StabReal := stabRealB_spec bell (by decide)

/-! ### 4b.1 the stabilizer group of a valid tableau -/

/-- the `2n` rows of a valid tableau are a basis of the Pauli strings: a row commuting with all of them is the identity string -/
theorem valid_rows_nondegenerate (t : Tab) (hv : t.Valid) (P : PRow)
    (h : ∀ i, i < 2 * t.n → sp t.n P (t.row i) = false) : ∀ j, j < t.n → P.x j = false ∧ P.z j = false :=
  valid_nondeg t hv P h

/-- the stabilizer group of a valid tableau is a stabilizer group: closed under the signed product, Hermitian, abelian,
    and it does not contain `-1` (so it stabilizes a non-empty subspace) -/
theorem stabilizer_group_consistent (t : Tab) (hv : t.Valid) (hr : t.StabReal) : IsStabGrp t.n (Grp t) :=
  grp_isStabGrp t hv hr

/-- … and it is maximal (`n` independent generators on `n` qubits: a pure state): a Hermitian row commuting with every
    generator is in the group up to sign -/
theorem stabilizer_group_maximal (t : Tab) (hv : t.Valid) (hr : t.StabReal) (P : PRow) (hP : P.ip = false)
    (hc : ∀ i, i < t.n → sp t.n P (t.stab i) = false) : Grp t P ∨ Grp t (negate P) :=
  grp_maximal t hv hr P hP hc

/-- hence it is the only stabilizer group containing the generators -/
theorem stabilizer_group_unique (t : Tab) (hv : t.Valid) (H : PRow → Prop) (hH : IsStabGrp t.n H)
    (hgen : ∀ i, i < t.n → H (t.stab i)) : ∀ P, Grp t P ↔ H P :=
  grp_unique t hv H hH hgen

example : IsStabGrp bell.n (Grp bell) := stabilizer_group_consistent bell bell_valid bell_real
example : ∀ i, i < 2 * bell.n → sp bell.n PRow.one (bell.row i) = false := fun _ _ => STab.sp_one_left _ _
example : (bell.stab 0).ip = false ∧ ∀ i, i < bell.n → sp bell.n (bell.stab 0) (bell.stab i) = false :=
  ⟨rfl, fun i hi => grp_comm bell bell_valid bell_real _ _ (grp_gen bell 0 (by decide)) (grp_gen bell i hi)⟩
example : ∀ i, i < bell.n → Grp bell (bell.stab i) := fun i hi => grp_gen bell i hi

/-! ### 4b.2 gates and swap -/

/-- a gate of the API maps the group to its image under the row automorphism (`h_gate t q = t.map (PRow.h q)` etc.) -/
theorem gate_group_spec (t : Tab) (f : PRow → PRow) (hf : IsAut1 t.n f) :
    ∀ P, Grp (t.map f) P ↔ ∃ Q, Grp t Q ∧ EqOn t.n P (f Q) :=
  map_grp t f hf

/-- every gate of the API is such an automorphism (it also fixes the identity row and leaves the i-phase bit alone) -/
theorem api_gates_are_automorphisms (n q c t : Nat) (hq : q < n) (hc : c < n) (ht : t < n) (hct : c ≠ t) :
    IsAut1 n (PRow.h q) ∧ IsAut1 n (PRow.s q) ∧ IsAut1 n (PRow.sdg q) ∧ IsAut1 n (PRow.xg q) ∧
    IsAut1 n (PRow.yg q) ∧ IsAut1 n (PRow.zg q) ∧ IsAut1 n (PRow.cnot c t) ∧ IsAut1 n (PRow.cz c t) :=
  ⟨isAut1_h n q hq, isAut1_s n q hq, isAut1_sdg n q hq, isAut1_xg n q hq, isAut1_yg n q hq, isAut1_zg n q hq,
   isAut1_cnot n c t hc ht hct, isAut1_cz n c t hc ht hct⟩

example : ∀ P, Grp (bell.hGate 0) P ↔ ∃ Q, Grp bell Q ∧ EqOn bell.n P (PRow.h 0 Q) :=
  gate_group_spec bell _ (isAut1_h 2 0 (by decide))

/-- **`swap_gate`** (the statement the historical defect D29 violated): the new group is the old one with the sites `a`, `b`
    exchanged and the signs untouched; every row — destabilizers included — is permuted the same way, its two phase bits kept -/
theorem swap_spec (t : Tab) (a b : Nat) (ha : a < t.n) (hb : b < t.n) :
    (∀ P, Grp (t.swapGate a b) P ↔ Grp t (PRow.swap a b P)) ∧
    (∀ i, (t.swapGate a b).row i = PRow.swap a b (t.row i)) ∧
    (∀ i, ((t.swapGate a b).row i).r = (t.row i).r ∧ ((t.swapGate a b).row i).ip = (t.row i).ip ∧
      ((t.swapGate a b).row i).x a = (t.row i).x b ∧ ((t.swapGate a b).row i).z a = (t.row i).z b ∧
      ((t.swapGate a b).row i).x b = (t.row i).x a ∧ ((t.swapGate a b).row i).z b = (t.row i).z a) := by
  refine ⟨swap_grp t a b ha hb, fun _ => rfl, fun i => ⟨rfl, rfl, ?_, ?_, ?_, ?_⟩⟩
  · simp [swapGate, Tab.map, PRow.swap]
  · simp [swapGate, Tab.map, PRow.swap]
  · by_cases h : b = a <;> simp [swapGate, Tab.map, PRow.swap, h]
  · by_cases h : b = a <;> simp [swapGate, Tab.map, PRow.swap, h]

example : 0 < (Tab.ket1 2).n ∧ 1 < (Tab.ket1 2).n := by decide

/-! ### 4b.3 tensor product -/

/-- **`tensor`**: the group of `a ⊗ b` is generated by `P ⊗ I` (`P` in the group of `a`) and `I ⊗ Q` (`Q` in the group of `b`):
    its elements are exactly the rows `P ⊗ Q` -/
theorem tensor_spec (a b : Tab) :
    ∀ R, Grp (Tab.tensor2 a b) R ↔ ∃ P Q, Grp a P ∧ Grp b Q ∧ EqOn (a.n + b.n) R (tensorRow a.n b.n P Q) :=
  tensor_grp a b

/-- for Hermitian `P`, `Q`: `P ⊗ Q` is in the group of `a ⊗ b` iff `P`, `Q` are in the groups of `a`, `b` — or `-P`, `-Q`
    are (`(-P) ⊗ (-Q)` is the same row) -/
theorem tensor_product_row_spec (a b : Tab) (ha : a.Valid) (hb : b.Valid) (ra : a.StabReal) (rb : b.StabReal)
    (P Q : PRow) (hP : P.ip = false) (hQ : Q.ip = false) :
    Grp (Tab.tensor2 a b) (tensorRow a.n b.n P Q) ↔ (Grp a P ∧ Grp b Q) ∨ (Grp a (negate P) ∧ Grp b (negate Q)) :=
  tensor_row_iff a b ha hb ra rb P Q hP hQ

/-- the stabilizer rows of a tensor product carry no imaginary phase -/
theorem tensor_stab_real (a b : Tab) (ra : a.StabReal) (rb : b.StabReal) : (Tab.tensor2 a b).StabReal :=
  tensor_stabReal a b ra rb

example : Grp (Tab.tensor2 bell bell) (tensorRow 2 2 (bell.stab 0) (bell.stab 1)) :=
  (tensor_product_row_spec bell bell bell_valid bell_valid bell_real bell_real _ _ rfl rfl).mpr
    (Or.inl ⟨grp_gen bell 0 (by decide), grp_gen bell 1 (by decide)⟩)

/-! ### 4b.4 insertion -/

/-- **`insert_qubit`**, group level: the new group is `{I, Z}_p ⊗ (old group)` with sign `+` (the state is `|0⟩_p ⊗ old state`):
    `P` is in it iff it acts as `I` or `Z` on site `p` and deleting site `p` leaves an element of the old group -/
theorem insert_group_spec (t : Tab) (p : Nat) (hp : p ≤ t.n) (hv : t.Valid) (hr : t.StabReal) :
    ∀ P, Grp (t.insertQubit p) P ↔ (P.x p = false ∧ Grp t (P.deleteCol p)) :=
  insert_grp t p hp hv hr

example : ∀ P, Grp (bell.insertQubit 1) P ↔ (P.x 1 = false ∧ Grp bell (P.deleteCol 1)) :=
  insert_group_spec bell 1 (by decide) bell_valid bell_real

/-! ### 4b.5 measurement -/

/-- **random outcome, group level** (textbook update as an equality of groups): the new group is
    `⟨(-1)^o Z_q⟩ · {old elements commuting with Z_q}` -/
theorem measure_random_group_spec (t : Tab) (q p : Nat) (o : Bool) (hv : t.Valid) (hr : t.StabReal) (hq : q < t.n)
    (hp : t.pivot q = some p) :
    ∀ P, Grp (t.zMeasure q o).1 P ↔ (P.x q = false ∧ (Grp t P ∨ Grp t (PRow.mul t.n P (Zq q o)))) := by
  have e : (t.zMeasure q o).1 = t.measRandom q p o := by simp [zMeasure, hp]
  rw [e]; exact measRandom_grp t q p o hv hr hq hp

/-- **deterministic outcome is the right one**: the scratch row is exactly `(-1)^outcome Z_q`, an element of the group
    (completeness of the deterministic rule — formerly cited) -/
theorem measure_deterministic_outcome_spec (t : Tab) (q : Nat) (o : Bool) (hv : t.Valid) (hr : t.StabReal) (hq : q < t.n)
    (hp : t.pivot q = none) :
    EqOn t.n (t.measScratch q) (Zq q (t.zMeasure q o).2.1) ∧ Grp t (Zq q (t.zMeasure q o).2.1) := by
  have e : t.zMeasure q o = (t, (t.measScratch q).r, 0) := by simp [zMeasure, hp]
  rw [e]
  exact ⟨measScratch_eqOn t hv hr q hq hp, measDet_grp_Zq t hv hr q hq hp⟩

/-- the measurement is deterministic exactly when `±Z_q` is in the group, and the outcome is that sign -/
theorem measure_deterministic_iff (t : Tab) (q : Nat) (hv : t.Valid) (hr : t.StabReal) (hq : q < t.n) :
    t.pivot q = none ↔ ∃ s, Grp t (Zq q s) :=
  ⟨fun hp => ⟨_, measDet_grp_Zq t hv hr q hq hp⟩, fun ⟨s, hs⟩ => pivot_none_of_Zq t hv hr q hq s hs⟩

/-- after a Z measurement of `q` (either branch) the state is the `(-1)^outcome` eigenstate of `Z_q` -/
theorem measure_leaves_eigenstate (t : Tab) (q : Nat) (o : Bool) (hq : q < t.n) (hv : t.Valid) (hr : t.StabReal) :
    Grp (t.zMeasure q o).1 (Zq q (t.zMeasure q o).2.1) :=
  measure_leaves_Zq t q o hq hv hr

example : bell.pivot 1 = some 2 := by decide
example : (Tab.ket1 2).pivot 0 = none ∧ (Tab.ket1 2).isSymplectic = true ∧ stabRealB (Tab.ket1 2) = true := by decide

/-! ### 4b.6 reset -/

/-- **`reset_z(q, intended)`** is "Z-measure `q` (outcome `o` when random), then apply `X_q` iff the outcome is not `intended`":
    (a) afterwards `(-1)^intended Z_q` is in the group;
    (b) random case (qubit entangled / not in a Z eigenstate): the result is the measurement branch of the drawn / forced
        outcome `o` — unchanged when `o = intended`, conjugated by `X_q` otherwise (the qubits entangled with `q` collapse to
        the branch of `o`, not of `intended`);
    (c) deterministic case: unchanged if `(-1)^intended Z_q` was in the group, otherwise the image under `X_q`;
    (d) in every case, on the rows with no `Z` on `q` the result agrees with the Z measurement with outcome `o`
        (the conditional `X` is invisible on those rows);
    (e) as tables: the result IS the measured tableau, resp. its image under `x_gate` -/
theorem reset_spec (t : Tab) (q : Nat) (i o : Bool) (hq : q < t.n) (hv : t.Valid) (hr : t.StabReal) :
    Grp (t.resetZ q i o) (Zq q i) ∧
    (∀ p, t.pivot q = some p →
      (o = i → ∀ P, Grp (t.resetZ q i o) P ↔ (P.x q = false ∧ (Grp t P ∨ Grp t (PRow.mul t.n P (Zq q o))))) ∧
      (o ≠ i → ∀ P, Grp (t.resetZ q i o) P ↔
        ∃ Q, (Q.x q = false ∧ (Grp t Q ∨ Grp t (PRow.mul t.n Q (Zq q o)))) ∧ EqOn t.n P (PRow.xg q Q))) ∧
    (t.pivot q = none →
      (Grp t (Zq q i) → t.resetZ q i o = t) ∧
      (Grp t (Zq q (!i)) → ∀ P, Grp (t.resetZ q i o) P ↔ ∃ Q, Grp t Q ∧ EqOn t.n P (PRow.xg q Q))) ∧
    (∀ P, P.z q = false → (Grp (t.resetZ q i o) P ↔ Grp (t.zMeasure q o).1 P)) ∧
    t.resetZ q i o = (if (t.zMeasure q o).2.1 = i then (t.zMeasure q o).1 else (t.zMeasure q o).1.xGate q) := by
  refine ⟨resetZ_has_Zq t q i o hq hv hr, ?_, ?_, fun P hz => resetZ_other_qubits t q i o hq hr P hz,
    resetZ_eq t q i o hr⟩
  · intro p hp
    constructor
    · intro e P
      rw [resetZ_random_eq t q p i o hr hp, if_pos e, measRandom_grp t q p o hv hr hq hp]
    · intro e P
      rw [resetZ_random_eq t q p i o hr hp, if_neg e]
      show Grp ((t.measRandom q p o).map (PRow.xg q)) P ↔ _
      rw [map_grp (t.measRandom q p o) _ (isAut1_xg t.n q hq)]
      constructor
      · rintro ⟨Q, hQ, h⟩; exact ⟨Q, (measRandom_grp t q p o hv hr hq hp Q).mp hQ, h⟩
      · rintro ⟨Q, hQ, h⟩; exact ⟨Q, (measRandom_grp t q p o hv hr hq hp Q).mpr hQ, h⟩
  · intro hp
    constructor
    · intro hz
      rw [resetZ_det_eq t q i o hp, if_pos (measScratch_r_of_Zq t hv hr q hq i hz)]
    · intro hz P
      have hs := measScratch_r_of_Zq t hv hr q hq (!i) hz
      have hne : ¬ ((t.measScratch q).r = i) := by rw [hs]; cases i <;> simp
      rw [resetZ_det_eq t q i o hp, if_neg hne]
      exact map_grp t _ (isAut1_xg t.n q hq) P

/-- the entangled-qubit case of `reset_spec` on the Bell pair: the partner qubit 0 ends in the branch `|o⟩` of the drawn / forced
    outcome, whatever the intended state of the reset qubit -/
example (i o : Bool) : Grp (bell.resetZ 1 i o) (Zq 0 o) ∧ Grp (bell.resetZ 1 i o) (Zq 1 i) := by
  refine ⟨?_, (reset_spec bell 1 i o (by decide) bell_valid bell_real).1⟩
  rw [(reset_spec bell 1 i o (by decide) bell_valid bell_real).2.2.2.1 (Zq 0 o) rfl,
    measure_random_group_spec bell 1 2 o bell_valid bell_real (by decide) (by decide)]
  refine ⟨rfl, Or.inr ?_⟩
  cases o
  · exact InSpan.eqv _ _ (grp_gen bell 1 (by decide)) (eqOn_check 2 _ _ (by decide))
  · exact InSpan.eqv _ _ (grp_gen bell 1 (by decide)) (eqOn_check 2 _ _ (by decide))

/-- witness for (b) (the input of the repaired defect D50): Bell pair, `reset_z(qubit 1, intended 0)` with forced outcome 1.
    The result is `measure(outcome 1)` then `X_1`: generators `+Z_1` and `−Z_0Z_1`, i.e. the state `|1⟩_0 |0⟩_1` — the partner
    qubit is in the branch of the forced outcome; `+Z_0Z_1` (the `|00⟩` that the code produced before the repair, when it
    overwrote the sign of the new `Z` generator with `intended`) is NOT in the group. -/
theorem reset_forced_outcome_witness :
    Grp (bell.resetZ 1 false true) (Zq 1 false) ∧
    Grp (bell.resetZ 1 false true) (negate (bell.stab 1)) ∧
    Grp (bell.resetZ 1 false true) (Zq 0 true) ∧
    ¬ Grp (bell.resetZ 1 false true) (bell.stab 1) ∧
    bell.resetZ 1 false true = (bell.zMeasure 1 true).1.xGate 1 := by
  have g0 : Grp (bell.resetZ 1 false true) (Zq 1 false) :=
    InSpan.eqv _ _ (grp_gen (bell.resetZ 1 false true) 0 (by decide)) (eqOn_check 2 _ _ (by decide))
  have g1 : Grp (bell.resetZ 1 false true) (negate (bell.stab 1)) :=
    InSpan.eqv _ _ (grp_gen (bell.resetZ 1 false true) 1 (by decide)) (eqOn_check 2 _ _ (by decide))
  refine ⟨g0, g1, ?_, ?_, ?_⟩
  · exact InSpan.eqv _ _ (InSpan.mul _ _ g0 g1) (eqOn_check 2 _ _ (by decide))
  · have hv := resetZ_valid bell 1 false true (by decide) bell_valid
    have hr := (resetZ_tracks bell 1 false true (by decide) bell_valid bell_real).1
    exact fun h => (stabilizer_group_consistent _ hv hr).cons _ h g1
  · exact (reset_spec bell 1 false true (by decide) bell_valid bell_real).2.2.2.2

/-! ### 4b.7 removing a qubit -/

/-- **`remove_qubit` never hits its `assert len(non_zero) > 0`** on a valid tableau -/
theorem remove_qubit_total (t : Tab) (q : Nat) (o : Bool) (hq : q < t.n) (hv : t.Valid) :
    ∃ t', t.removeQubit q o = .ok t' :=
  removeQubit_total t q o hq hv

/-- **`remove_qubit` is "Z-measure, then drop" in one call** (all three internal cases): `P'` is in the new group iff `P'`
    with an identity inserted at site `q` is in the group of the measured tableau; in the random case this is the collapse by
    the outcome `o` -/
theorem remove_qubit_general_spec (t t' : Tab) (q : Nat) (o : Bool) (hq : q < t.n) (hv : t.Valid) (hr : t.StabReal)
    (h : t.removeQubit q o = .ok t') :
    t'.n = t.n - 1 ∧ t'.StabReal ∧ ∀ P', Grp t' P' ↔ Grp (t.zMeasure q o).1 (P'.insertCol q) := by
  obtain ⟨n', _, r', g⟩ := removeQubit_grp t t' q o hq hv hr h
  exact ⟨n', r', g⟩

/-- the entangled case made explicit: the result depends on the outcome -/
theorem remove_entangled_qubit_spec (t t' : Tab) (q p : Nat) (o : Bool) (hq : q < t.n) (hv : t.Valid) (hr : t.StabReal)
    (hp : t.pivot q = some p) (h : t.removeQubit q o = .ok t') :
    ∀ P', Grp t' P' ↔ (Grp t (P'.insertCol q) ∨ Grp t (PRow.mul t.n (P'.insertCol q) (Zq q o))) := by
  intro P'
  rw [(remove_qubit_general_spec t t' q o hq hv hr h).2.2 P', measure_random_group_spec t q p o hv hr hq hp]
  constructor
  · exact fun h => h.2
  · exact fun h => ⟨insertCol_x q P', h⟩

/-- **`remove_qubit_spec`**: when qubit `q` is disentangled in a computational-basis state (`(-1)^s Z_q` in the group) the
    removal leaves the state of the others unchanged: `P'` is in the new group iff inserting `I` at `q` gives an element of
    the old group; equivalently every old element (it acts as `I` or `Z` on `q`), with its `Z_q` factor replaced by the sign
    `(-1)^s` and site `q` deleted, is in the new group.  No outcome is drawn (`o` is irrelevant). -/
theorem remove_qubit_spec (t t' : Tab) (q : Nat) (s o : Bool) (hq : q < t.n) (hv : t.Valid) (hr : t.StabReal)
    (hz : Grp t (Zq q s)) (h : t.removeQubit q o = .ok t') :
    t'.n = t.n - 1 ∧ (∀ P', Grp t' P' ↔ Grp t (P'.insertCol q)) ∧
    (∀ P, Grp t P → P.x q = false ∧ Grp t' ((if P.z q then PRow.mul t.n P (Zq q s) else P).deleteCol q)) :=
  ⟨(removeQubit_grp t t' q o hq hv hr h).1,
   removeQubit_unentangled_grp t t' q o hq hv hr (unentangled_of_Zq t q s hz) h,
   fun P hP => removeQubit_Zq_image t t' q o s hq hv hr hz h P hP⟩

/-- more generally, removing a qubit that is a pure product factor (some single-site Pauli on `q` is a stabilizer: `|0⟩,|1⟩,|±⟩,|±i⟩`)
    leaves the state of the others unchanged whatever the drawn outcome -/
theorem remove_unentangled_qubit_spec (t t' : Tab) (q : Nat) (o : Bool) (hq : q < t.n) (hv : t.Valid) (hr : t.StabReal)
    (hu : Unentangled t q) (h : t.removeQubit q o = .ok t') :
    ∀ P', Grp t' P' ↔ Grp t (P'.insertCol q) :=
  removeQubit_unentangled_grp t t' q o hq hv hr hu h

/-- Bell pair: measure qubit 1 (outcome 1), remove it — the hypotheses of `remove_qubit_spec` hold, the kept qubit is `|1⟩` -/
example : ∃ t', (bell.zMeasure 1 true).1.removeQubit 1 false = .ok t' ∧ t'.n = 1 ∧ Grp t' (Zq 0 true) := by
  have hv := zMeasure_valid bell 1 true (by decide) bell_valid
  have hr := zMeasure_stabReal bell 1 true (by decide) bell_valid bell_real
  have hz : Grp (bell.zMeasure 1 true).1 (Zq 1 true) := measure_leaves_eigenstate bell 1 true (by decide) bell_valid bell_real
  obtain ⟨t', h⟩ := remove_qubit_total (bell.zMeasure 1 true).1 1 false (by decide) hv
  obtain ⟨n', g, _⟩ := remove_qubit_spec _ t' 1 true false (by decide) hv hr hz h
  refine ⟨t', h, n', (g _).mpr ?_⟩
  -- `-Z_0 = (-Z_1)(Z_0 Z_1)` in the measured group
  exact InSpan.eqv _ _ (InSpan.mul _ _ (grp_gen _ 0 (by decide)) (grp_gen _ 1 (by decide))) (eqOn_check 2 _ _ (by decide))

/-- Bell pair, qubit 1 removed without measuring first: the kept qubit collapses to `|o⟩` (not the maximally mixed reduced state) -/
example (o : Bool) : ∃ t', bell.removeQubit 1 o = .ok t' ∧ Grp t' (Zq 0 o) := by
  obtain ⟨t', h⟩ := remove_qubit_total bell 1 o (by decide) bell_valid
  refine ⟨t', h, (remove_entangled_qubit_spec bell t' 1 2 o (by decide) bell_valid bell_real (by decide) h _).mpr (Or.inr ?_)⟩
  cases o
  · exact InSpan.eqv _ _ (grp_gen bell 1 (by decide)) (eqOn_check 2 _ _ (by decide))
  · exact InSpan.eqv _ _ (grp_gen bell 1 (by decide)) (eqOn_check 2 _ _ (by decide))

/-! ### 4b.8 partial trace -/

/-- **`partial_trace(t, keep)`** removes the qubits not kept, highest index first, each by `remove_qubit` (Z-measure, then
    drop); a drawn outcome is consumed only when a measurement is random.  General statement: the result refines the
    abstract semantics `specPtrace` (iterated `specRemove`), i.e. it is the state *collapsed by the outcome script* -/
theorem partial_trace_spec (t t' : Tab) (keep : List Nat) (os : List Bool) (hv : t.Valid) (hr : t.StabReal)
    (h : t.partialTrace keep os = .ok t') :
    t'.StabReal ∧ gstate t' = specPtrace keep os (gstate t) :=
  (ptrace_tracks t t' keep os hv hr h).2

example : (match bell.partialTrace [0] [true] with | .ok t' => t'.n == 1 | .error _ => false) = true := by decide

/-- **reduced state of a pure product factor**: if every traced-out qubit is unentangled (carries a single-site stabilizer;
    in particular: is in a computational-basis state), the result is the state of the kept qubits — `P'` is in the new group
    iff `P'` with identities inserted at the traced-out positions is in the old group — whatever the outcomes.
    (If a traced-out qubit is entangled with a kept one, the code collapses the kept qubits by the measurement outcome —
    `remove_entangled_qubit_spec` — where the true partial trace would be mixed.) -/
theorem partial_trace_product_spec (t t' : Tab) (keep : List Nat) (os : List Bool) (hv : t.Valid) (hr : t.StabReal)
    (hu : ∀ q, q < t.n → q ∉ keep → Unentangled t q) (h : t.partialTrace keep os = .ok t') :
    t'.n + (removalList t.n keep).length = t.n ∧
    ∀ P', Grp t' P' ↔ Grp t (embedCols (removalList t.n keep) P') :=
  partialTrace_product_grp t t' keep os hv hr hu h

/-- `|1⟩ ⊗ Bell`-like product: in `ket1 3` every qubit is unentangled, tracing out qubits 0 and 2 is accepted -/
example : (∀ q, q < (Tab.ket1 3).n → q ∉ [1] → Unentangled (Tab.ket1 3) q) ∧
    (match (Tab.ket1 3).partialTrace [1] [] with | .ok t' => t'.n == 1 | .error _ => false) = true := by
  refine ⟨fun q hq _ => ?_, by decide⟩
  have hq' : q < 3 := hq
  exact unentangled_of_Zq _ q true (by
    have : Zq q true = (Tab.ket1 3).stab q := by simp [Tab.ket1, Tab.stab]
    rw [this]; exact grp_gen _ q hq)

/-- the same for a traced-out factor that may be entangled *internally*: if the group is a product across the cut
    (`Factor`: every element restricted to the kept sites is in the group up to sign), the result is the reduced state of the
    kept factor, whatever outcomes are drawn while the traced-out qubits are measured away -/
theorem partial_trace_factor_spec (t t' : Tab) (keep : List Nat) (os : List Bool) (hv : t.Valid) (hr : t.StabReal)
    (hf : Factor t (removalList t.n keep)) (h : t.partialTrace keep os = .ok t') :
    t'.n + (removalList t.n keep).length = t.n ∧
    ∀ P', Grp t' P' ↔ Grp t (embedCols (removalList t.n keep) P') :=
  partialTrace_factor_grp t t' keep os hv hr hf h

/-- **`partial_trace(tensor([a, b]), keep = the qubits of a)` is `a`**: same number of qubits and same stabilizer group,
    for all valid `a`, `b` and all outcome scripts (`tensor_spec` and `partial_trace_factor_spec` combined) -/
theorem partial_trace_of_tensor_spec (a b t' : Tab) (os : List Bool) (ha : a.Valid) (hb : b.Valid) (ra : a.StabReal)
    (rb : b.StabReal) (h : (Tab.tensor2 a b).partialTrace (List.range a.n) os = .ok t') :
    t'.n = a.n ∧ ∀ P', Grp t' P' ↔ Grp a P' :=
  partialTrace_tensor_left a b t' os ha hb ra rb h

/-- … and `partial_trace(tensor([a, b]), keep = the qubits of b)` is `b` -/
theorem partial_trace_of_tensor_right_spec (a b t' : Tab) (os : List Bool) (ha : a.Valid) (hb : b.Valid) (ra : a.StabReal)
    (rb : b.StabReal) (h : (Tab.tensor2 a b).partialTrace (rightSites a.n b.n) os = .ok t') :
    t'.n = b.n ∧ ∀ Q', Grp t' Q' ↔ Grp b Q' :=
  partialTrace_tensor_right a b t' os ha hb ra rb h

example : (match (Tab.tensor2 bell (Tab.ket1 1)).partialTrace (rightSites 2 1) [false] with
    | .ok t' => t'.n == 1 && t'.isSymplectic | .error _ => false) = true := by decide +kernel

/-- `|1⟩ ⊗ Bell`: the Bell pair (entangled internally, random outcomes) is traced out, `|1⟩` is left -/
example : (match (Tab.tensor2 (Tab.ket1 1) bell).partialTrace (List.range 1) [true] with
    | .ok t' => t'.n == 1 && t'.isSymplectic | .error _ => false) = true := by decide +kernel
example : Factor (Tab.tensor2 (Tab.ket1 1) bell) (removalList 3 (List.range 1)) :=
  tensor_factor (Tab.ket1 1) bell ((isSymplectic_iff_valid _).mp (by decide)) bell_valid
    (stabRealB_spec _ (by decide)) bell_real _ (fun j hj => by
      have := mem_removalList_range 1 2 j
      simp only [Tab.ket1, show bell.n = 2 from rfl] at hj ⊢
      rw [this]; omega)

/-! ### 4b.9 every history tracks the state -/

theorem wf_iff (op : Tab.Op) : WF op ↔ OpWF op := by cases op <;> exact Iff.rfl

/-- **one API call refines the abstract semantics**: the stabilizer group after the call is `specOp op` of the group before -/
theorem op_tracks_state (t t' : Tab) (op : Tab.Op) (out : Option (Bool × Bool)) (hop : WF op) (hv : t.Valid)
    (hr : t.StabReal) (h : t.applyOp op = .ok (t', out)) :
    t'.StabReal ∧ gstate t' = specOp op (gstate t) :=
  op_tracks t t' op out ((wf_iff op).mp hop) hv hr h

/-- **History theorem, state half (refinement).**  From a valid tableau whose stabilizer rows are real, along any finite
    history of API calls that the API accepts (gates, swap, measurements and resets with any outcome script, insertions,
    removals, partial traces), the tableau stays valid, its stabilizer rows stay real, and its stabilizer group is the
    abstract group-transformer semantics `specOps` applied to the initial group. -/
theorem history_tracks_state (ops : List Tab.Op) (hops : ∀ op ∈ ops, WF op) :
    ∀ (t t' : Tab), t.Valid → t.StabReal → t.runOps ops = .ok t' →
      t'.Valid ∧ t'.StabReal ∧ gstate t' = specOps ops (gstate t) := by
  induction ops with
  | nil => intro t t' hv hr h; simp [runOps] at h; rw [← h]; exact ⟨hv, hr, rfl⟩
  | cons op rest ih =>
    intro t t' hv hr h
    simp only [runOps] at h
    split at h
    · next t1 out h1 =>
      have hop := hops op List.mem_cons_self
      have v1 := op_preserves_valid t t1 op out hop hv h1
      obtain ⟨r1, g1⟩ := op_tracks_state t t1 op out hop hv hr h1
      obtain ⟨v', r', g'⟩ := ih (fun o ho => hops o (List.mem_cons_of_mem _ ho)) t1 t' v1 r1 h
      exact ⟨v', r', by rw [g', g1]; rfl⟩
    · simp at h

/-- the same, read element-wise: number of qubits and membership in the stabilizer group -/
theorem history_tracks_group (ops : List Tab.Op) (hops : ∀ op ∈ ops, WF op) (t t' : Tab) (hv : t.Valid)
    (hr : t.StabReal) (h : t.runOps ops = .ok t') :
    t'.n = (specOps ops (gstate t)).n ∧ ∀ P, Grp t' P ↔ (specOps ops (gstate t)).G P := by
  have g := (history_tracks_state ops hops t t' hv hr h).2.2
  exact ⟨congrArg GState.n g, fun P => by rw [← g]; rfl⟩

/-- along every accepted history no stabilizer generator acquires an imaginary phase -/
theorem history_stab_real (ops : List Tab.Op) (hops : ∀ op ∈ ops, WF op) (t t' : Tab) (hv : t.Valid)
    (hr : t.StabReal) (h : t.runOps ops = .ok t') : t'.StabReal :=
  (history_tracks_state ops hops t t' hv hr h).2.1

example : (match bell.runOps [.h 0, .cnot 0 1, .meas 1 true, .insert 2, .resetY 0 true false, .swap 1 2, .remove 0 true,
      .ptrace [0] [false]] with
    | .ok t' => t'.n == 1 && t'.isSymplectic | .error _ => false) = true := by decide +kernel

end StateHalf

/-! ## 5. Non-vacuity: concrete non-trivial objects satisfy the hypotheses -/

/-- three-qubit GHZ tableau with a non-zero sign vector: stabilizers −XXX, ZZI, −IZZ; destabilizers ZII, IXX, IIX -/
def ghz3 : Tab :=
  Tab.ofRows 3 #[
    PRow.ofArrays #[false,false,false] #[true,false,false] true false,
    PRow.ofArrays #[false,true,true] #[false,false,false] false false,
    PRow.ofArrays #[false,false,true] #[false,false,false] true false,
    PRow.ofArrays #[true,true,true] #[false,false,false] true false,
    PRow.ofArrays #[false,false,false] #[true,true,false] false false,
    PRow.ofArrays #[false,false,false] #[false,true,true] true false]

example : ghz3.Valid := (isSymplectic_iff_valid ghz3).mp (by decide)
example : ghz3.pivot 0 = some 3 := by decide          -- a Z measurement of qubit 0 is random
example : (ghz3.hGate 0).pivot 1 = some 3 := by decide
example : (match ghz3.runOps [.h 0, .cnot 0 2, .meas 1 true, .insert 2, .resetY 0 true false, .swap 1 3, .remove 0 true] with
    | .ok t' => t'.n == 3 && t'.isSymplectic | .error _ => false) = true := by decide +kernel

end Graphiq.C07

/-! ## 6. Hilbert-space reading: the Pauli-group semantics above IS the matrix semantics, for every n

  `Hilbert.pauliMat n p` is the `2^n × 2^n` complex matrix of the signed row `p = i^ip (-1)^r ⊗_j σ(x_j,z_j)`
  (σ(1,1) = Y = [[0,-i],[i,0]]) in the computational basis, indexed by bit strings (bit `j` = qubit `j`, i.e. qubit 0 is
  the left-most factor of graphiq's `np.kron` chains).  `Hilbert.gateMat n g` is the unitary of a gate, built from the 2×2
  matrices of `graphiq/backends/density_matrix/functions.py` exactly as `get_one_qubit_gate` /
  `get_two_qubit_controlled_gate` build them (H carries `1/√2`).  `Hilbert.rho n T = ∏_i (1 + P_i)/2` is the density
  matrix of a stabilizer tableau.  The theorems of this section turn the "cited tensor-lifting fact" of §1 into
  theorems: `row_sum`/`g_function` is matrix multiplication, the symplectic form is the commutation bit, every tableau
  update rule is conjugation by the gate's unitary (signs included), and the stabilizer state transforms covariantly,
  is a projector fixed by its whole group, and does not depend on the choice of generators. -/

namespace Graphiq.C07
open Graphiq Graphiq.PRow Graphiq.Tab Graphiq.Hilbert Matrix

/-- **`row_sum` is matrix multiplication.**  The matrix of the model's signed row product (`PRow.mul n a b` =
    `row_sum(row_to_add = a, target_row = b)` with the `g_function` exponent, reduced mod 4 and decoded into the two
    phase bits) is the product of the matrices, in this order, for every number of qubits. -/
theorem pauli_product_is_matrix_product (n : Nat) (a b : PRow) :
    pauliMat n (PRow.mul n a b) = pauliMat n a * pauliMat n b := pauliMat_mul n a b

/-- the matrices are the textbook ones: identity; `Z_q` diagonal with `(-1)^(b_q)`; `X_q` the bit flip at `q`;
    `Y_q = [[0,-i],[i,0]]` at `q`; a sign bit is the scalar `-1` -/
theorem pauli_matrix_is_textbook (n q : Nat) (hq : q < n) (s : Bool) (a b : Bits n) :
    pauliMat n PRow.one = 1 ∧
    pauliMat n (Zq q s) a b = (if a = b then (if xor s (bx b q) then (-1 : ℂ) else 1) else 0) ∧
    pauliMat n (Xq q s) a b = (if a = Hilbert.flip (unitMask q) b then (if s then (-1 : ℂ) else 1) else 0) ∧
    pauliMat n (Yq q s) a b
      = (if a = Hilbert.flip (unitMask q) b then (if xor s (bx b q) then -Complex.I else Complex.I) else 0) :=
  ⟨pauliMat_one n, pauliMat_Zq_apply n q s hq a b, pauliMat_Xq_apply n q s a b, pauliMat_Yq_apply n q s hq a b⟩

/-- the two phase bits are the scalar `i^(2r + ip)`; the adjoint is the matrix of the adjoint row; rows without
    imaginary phase are Hermitian involutions, rows with imaginary phase square to `-1`; every row is unitary -/
theorem pauli_matrix_phase_adjoint_square (n : Nat) (p : PRow) :
    pauliMat n p = iPow p.ph • pauliMat n (bare p) ∧
    (pauliMat n p)ᴴ = pauliMat n (adj p) ∧
    pauliMat n p * (pauliMat n p)ᴴ = 1 ∧
    (p.ip = false → (pauliMat n p)ᴴ = pauliMat n p ∧ pauliMat n p * pauliMat n p = 1) ∧
    (p.ip = true → pauliMat n p * pauliMat n p = -1) :=
  ⟨pauliMat_phase n p, pauliMat_conjTranspose n p, pauliMat_mul_conjTranspose n p,
   fun h => ⟨pauliMat_hermitian n p h, pauliMat_sq n p h⟩, pauliMat_sq_imag n p⟩

/-- **the symplectic form is the commutation bit**: two rows anticommute in the model iff their matrices
    anticommute, and commute iff the matrices commute -/
theorem commutation_bit_is_matrix_commutation (n : Nat) (a b : PRow) :
    (sp n a b = true ↔ pauliMat n a * pauliMat n b = -(pauliMat n b * pauliMat n a)) ∧
    (sp n a b = false ↔ pauliMat n a * pauliMat n b = pauliMat n b * pauliMat n a) :=
  ⟨pauliMat_anticomm_iff n a b, pauliMat_comm_iff n a b⟩

/-- the gate matrices are assembled as in graphiq's density-matrix backend: a 2×2 matrix at one site
    (`get_one_qubit_gate`), `hadamard() = [[1,1],[1,-1]]/√2`, `phase() = diag(1,i)`, `phase_dag() = diag(1,-i)`, the
    Pauli matrices, and controlled-X / controlled-Z (`get_two_qubit_controlled_gate`) -/
theorem gate_matrices_are_graphiq_matrices (n q c t : Nat) :
    gateMat n (.H q) = invSqrt2 • oneQ n q hadM ∧ gateMat n (.P q) = oneQ n q phaseM ∧
    gateMat n (.Pdag q) = oneQ n q phaseDagM ∧ gateMat n (.X q) = oneQ n q sigmaX ∧
    gateMat n (.Y q) = oneQ n q sigmaY ∧ gateMat n (.Z q) = oneQ n q sigmaZ ∧ gateMat n (.I q) = 1 ∧
    gateMat n (.CNOT c t) = ctrlQ n c t sigmaX ∧ gateMat n (.CZ c t) = ctrlQ n c t sigmaZ ∧
    invSqrt2 * invSqrt2 = 1 / 2 ∧
    (hadM false false = 1 ∧ hadM false true = 1 ∧ hadM true false = 1 ∧ hadM true true = -1) ∧
    (phaseM false false = 1 ∧ phaseM false true = 0 ∧ phaseM true false = 0 ∧ phaseM true true = Complex.I) ∧
    (phaseDagM false false = 1 ∧ phaseDagM false true = 0 ∧ phaseDagM true false = 0 ∧ phaseDagM true true = -Complex.I) ∧
    (sigmaX false false = 0 ∧ sigmaX false true = 1 ∧ sigmaX true false = 1 ∧ sigmaX true true = 0) ∧
    (sigmaY false false = 0 ∧ sigmaY false true = -Complex.I ∧ sigmaY true false = Complex.I ∧ sigmaY true true = 0) ∧
    (sigmaZ false false = 1 ∧ sigmaZ false true = 0 ∧ sigmaZ true false = 0 ∧ sigmaZ true true = -1) := by
  refine ⟨rfl, rfl, rfl, rfl, rfl, rfl, rfl, rfl, rfl, invSqrt2_mul_self, ?_, ?_, ?_, ?_, ?_, ?_⟩ <;>
    simp [hadM, phaseM, phaseDagM, sigmaX, sigmaY, sigmaZ]

/-- **Every tableau update rule is conjugation by the gate's unitary.**  For every gate of `run_circuit`
    (H, P, P†, X, Y, Z, I, CNOT, CZ) at every in-range position (control ≠ target), the gate matrix is unitary and
    `U · P · U† = (row rule of transformation.py)(P)` for every signed Pauli row `P`, signs included, for every `n`. -/
theorem gate_is_conjugation_by_its_unitary (n : Nat) (g : Gate) (hg : g.WF n) (p : PRow) :
    gateMat n g * (gateMat n g)ᴴ = 1 ∧ (gateMat n g)ᴴ * gateMat n g = 1 ∧
    gateMat n g * pauliMat n p * (gateMat n g)ᴴ = pauliMat n (g.act p) :=
  ⟨(gate_unitary n g hg).1, (gate_unitary n g hg).2, gate_conj n g hg p⟩

/-- the same for gate lists: the row-wise action of a circuit is conjugation by the product of the gate unitaries -/
theorem circuit_is_conjugation_by_its_unitary (n : Nat) (c : List Gate) (hc : ∀ g ∈ c, g.WF n) (p : PRow) :
    circMat n c * (circMat n c)ᴴ = 1 ∧
    circMat n c * pauliMat n p * (circMat n c)ᴴ = pauliMat n (actCirc c p) :=
  ⟨(circ_unitary n c hc).1, circ_conj n c hc p⟩

/-- **Gate covariance of the stabilizer state**: updating the generator rows by the tableau rule is the Hilbert-space
    evolution `ρ ↦ U ρ U†` (what the density-matrix backend computes), for single gates and for `run_circuit` -/
theorem stabilizer_state_gate_covariance (T : STab) (g : Gate) (hg : g.WF T.n) :
    gateMat T.n g * rho T.n T * (gateMat T.n g)ᴴ = rho T.n (T.applyGate g) := rho_applyGate T g hg

theorem stabilizer_state_circuit_covariance (T : STab) (c : List Gate) (hc : ∀ g ∈ c, g.WF T.n) :
    circMat T.n c * rho T.n T * (circMat T.n c)ᴴ = rho T.n (T.runCircuit c) := rho_runCircuit T c hc

/-- for real, mutually commuting generators `ρ = ∏ (1 + P_i)/2` is an orthogonal projector -/
theorem stabilizer_state_is_projector (T : STab) (hg : T.Good) :
    rho T.n T * rho T.n T = rho T.n T ∧ (rho T.n T)ᴴ = rho T.n T := ⟨rho_idem T hg, rho_hermitian T hg⟩

/-- … fixed by every element of the signed group generated by the rows: `S ρ = ρ` -/
theorem stabilizer_state_fixed_by_group (T : STab) (hg : T.Good) (a : PRow) (ha : T.Spn a) :
    pauliMat T.n a * rho T.n T = rho T.n T := span_mul_rho T hg a ha

/-- **Gauge independence**: tableaux generating the same signed group have the same density matrix (so row swaps,
    row sums, `canonical_form`, … do not change the state; `B.n = A.n` is part of `SpanEq`) -/
theorem stabilizer_state_gauge_independent (A B : STab) (h : STab.SpanEq A B) (gA : A.Good) (gB : B.Good) :
    rho A.n A = rho A.n B := rho_spanEq A B h gA gB

/-! ### non-vacuity: the Bell pair -/

/-- Bell pair `(|00⟩+|11⟩)/√2` with generators XX, ZZ -/
def bellXX : STab :=
  STab.ofRows 2 #[PRow.ofArrays #[true,true] #[false,false] false false,
                  PRow.ofArrays #[false,false] #[true,true] false false]
/-- the same state with generators −YY, ZZ -/
def bellYY : STab :=
  STab.ofRows 2 #[PRow.ofArrays #[true,true] #[true,true] true false,
                  PRow.ofArrays #[false,false] #[true,true] false false]

theorem good_of_check2 (t : STab) (hn : t.n = 2)
    (h : (List.range 2).all (fun i => (t.row i).ip == false &&
      (List.range 2).all fun k => PRow.sp 2 (t.row i) (t.row k) == false) = true) : t.Good := by
  simp only [List.all_eq_true, List.mem_range, Bool.and_eq_true, beq_iff_eq] at h
  constructor
  · intro i hi; exact (h i (hn ▸ hi)).1
  · intro i k hi hk; rw [hn]; exact (h i (hn ▸ hi)).2 k (hn ▸ hk)

theorem bellXX_good : bellXX.Good := good_of_check2 _ rfl (by decide)
theorem bellYY_good : bellYY.Good := good_of_check2 _ rfl (by decide)

/-- XX, ZZ and −YY, ZZ generate the same group (−YY = XX·ZZ) -/
theorem bell_generators_spanEq : STab.SpanEq bellXX bellYY := by
  apply STab.spanEq_of_gens bellXX bellYY rfl
  · intro i hi
    have : i = 0 ∨ i = 1 := by have : i < 2 := hi; omega
    rcases this with rfl | rfl
    · exact InSpan.eqv _ _ (InSpan.mul _ _ (STab.spn_gen bellXX 0 (by decide)) (STab.spn_gen bellXX 1 (by decide)))
        (beqOn_eqOn _ _ _ (by decide))
    · exact InSpan.eqv _ _ (STab.spn_gen bellXX 1 (by decide)) (beqOn_eqOn _ _ _ (by decide))
  · intro i hi
    have : i = 0 ∨ i = 1 := by have : i < 2 := hi; omega
    rcases this with rfl | rfl
    · exact InSpan.eqv _ _ (InSpan.mul _ _ (STab.spn_gen bellYY 0 (by decide)) (STab.spn_gen bellYY 1 (by decide)))
        (beqOn_eqOn _ _ _ (by decide))
    · exact InSpan.eqv _ _ (STab.spn_gen bellYY 1 (by decide)) (beqOn_eqOn _ _ _ (by decide))

example : (Gate.CNOT 0 1).WF bellXX.n ∧ (Gate.H 1).WF bellXX.n :=
  ⟨⟨by decide, by decide, by decide⟩, (by decide : 1 < 2)⟩
/-- hypotheses of `stabilizer_state_gauge_independent` hold for two different generating sets of the Bell pair -/
example : rho 2 bellXX = rho 2 bellYY :=
  stabilizer_state_gauge_independent bellXX bellYY bell_generators_spanEq bellXX_good bellYY_good
/-- the Bell pair is `CNOT₀₁ H₀ |00⟩`: the tableau circuit run and the matrix conjugation agree -/
example : circMat 2 [.H 0, .CNOT 0 1] * rho 2 (STab.zero 2) * (circMat 2 [.H 0, .CNOT 0 1])ᴴ = rho 2 bellXX := by
  have h := stabilizer_state_circuit_covariance (STab.zero 2) [.H 0, .CNOT 0 1]
    (by intro g hg
        simp only [List.mem_cons, List.mem_nil_iff, or_false] at hg
        rcases hg with rfl | rfl
        · show 0 < 2; decide
        · exact ⟨by decide, by decide, by decide⟩)
  have e : rho 2 ((STab.zero 2).runCircuit [.H 0, .CNOT 0 1]) = rho 2 bellXX := by
    apply rhoTo_congr 2 _ _ 2
    intro i hi
    have : i = 0 ∨ i = 1 := by omega
    rcases this with rfl | rfl <;> exact beqOn_eqOn _ _ _ (by decide)
  exact h.trans e
/-- an anticommuting pair: X₀ and the Y₀Y₁ row -/
example : sp 2 (Xq 0) (bellYY.row 0) = true := by decide

/-! ### Kronecker structure: the bit-string matrices are graphiq's `np.kron` chains -/

/-- `pauliMat (n+1) p = pauliMat n p ⊗ σ(x_n, z_n)` entrywise, where `σ` is the table of 2×2 Pauli matrices
    (`1`, `sigmax()`, `sigmay()`, `sigmaz()`); by induction `pauliMat n p = i^ip (-1)^r σ₀ ⊗ … ⊗ σ_{n-1}` with qubit 0 the
    left-most (most significant) Kronecker factor, the convention of `get_one_qubit_gate` -/
theorem pauli_matrix_is_kronecker_product (n : Nat) (p : PRow) (a b : Bits (n + 1)) :
    pauliMat (n + 1) p a b = pauliMat n p (initB a) (initB b) * sigma (p.x n) (p.z n) (lastB a) (lastB b) ∧
    sigma false false = 1 ∧ sigma true false = sigmaX ∧ sigma true true = sigmaY ∧ sigma false true = sigmaZ :=
  ⟨pauliMat_succ n p a b, sigma_ff, sigma_tf, sigma_tt, sigma_ft⟩

/-- `oneQ` is `get_one_qubit_gate`: the 2×2 matrix at its site, identity factors elsewhere (`1 ⊗ u` for the last
    qubit, `(gate on the first n qubits) ⊗ 1` otherwise); `ctrlQ` is `get_two_qubit_controlled_gate`'s
    `1 + (1 - Z_c)(u_t - 1)/2` -/
theorem gate_matrices_are_kronecker_products (n q c t : Nat) (hq : q < n) (hc : c < n) (hct : c ≠ t)
    (u : Matrix Bool Bool ℂ) (a b : Bits (n + 1)) :
    oneQ (n + 1) n u a b = (1 : Matrix (Bits n) (Bits n) ℂ) (initB a) (initB b) * u (lastB a) (lastB b) ∧
    oneQ (n + 1) q u a b = oneQ n q u (initB a) (initB b) * (1 : Matrix Bool Bool ℂ) (lastB a) (lastB b) ∧
    ctrlQ n c t u = 1 + (1 / 2 : ℂ) • ((1 - pauliMat n (Zq c)) * oneQ n t (u - 1)) :=
  ⟨oneQ_succ_last n u a b, oneQ_succ_lower n q hq u a b, ctrlQ_eq_graphiq n c t hc hct u⟩

/-! ### the state of a valid Clifford tableau is a pure state; measurement is projection -/

/-- the all-`+Z` tableau (`StabilizerTableau(n)`, the stabilizer half of `CliffordTableau(n)`) is `|0…0⟩⟨0…0|` -/
theorem ket0_state_is_zero_ket (n : Nat) (a b : Bits n) :
    rho n (STab.ofTab (Tab.ket0 n)) a b = if a = (fun _ => false) ∧ b = (fun _ => false) then 1 else 0 := by
  rw [rho_ket0]; exact rho_zero n a b

open scoped ComplexOrder in
/-- **Pure state.**  For a valid Clifford tableau the stabilizer half defines a density matrix (`ρ ≥ 0`, `tr ρ = 1`)
    that is a rank-one projector in the sense `ρ² = ρ = ρ†`, `tr ρ = 1` (graphiq's `is_pure`): the destabilizer rows
    witness the independence of the generators. -/
theorem stabilizer_state_is_pure (t : Tab) (hv : t.Valid) :
    Matrix.trace (rho t.n (STab.ofTab t)) = 1 ∧
    rho t.n (STab.ofTab t) * rho t.n (STab.ofTab t) = rho t.n (STab.ofTab t) ∧
    (rho t.n (STab.ofTab t))ᴴ = rho t.n (STab.ofTab t) ∧
    (rho t.n (STab.ofTab t)).PosSemidef :=
  have hg := ofTab_good t hv
  ⟨rho_ofTab_trace t hv, rho_idem _ hg, rho_hermitian _ hg,
   posSemidef_of_projector _ (rho_idem _ hg) (rho_hermitian _ hg)⟩

/-- the rows of a valid tableau are a symplectic basis: a Pauli commuting with all 2n rows is trivial -/
theorem valid_rows_are_symplectic_basis (t : Tab) (hv : t.Valid) (m : PRow)
    (h : ∀ i, i < 2 * t.n → sp t.n (t.row i) m = false) : ∀ j, j < t.n → m.x j = false ∧ m.z j = false :=
  valid_nondegenerate t hv m h

/-- **Completeness of the deterministic rule** (was cited mathematics): if no stabilizer row has an X on `q`, the
    scratch row of `z_measurement_gate` is exactly `±Z_q` -/
theorem deterministic_scratch_row_is_Zq (t : Tab) (hv : t.Valid) (q : Nat) (hq : q < t.n) (hp : t.pivot q = none) :
    SameBits t.n (t.measScratch q) (Zq q) := measScratch_bits t hv q hq hp

/-- **Random branch = projective measurement.**  Valid tableau with real stabilizer rows, some stabilizer row has an X
    on `q`.  With `Π_o = (1 + (-1)^o Z_q)/2`: `Π_o ρ Π_o = ½ · ρ(new tableau)` for the tableau returned by
    `z_measurement_gate` with outcome `o` — the update rule computes the post-measurement state, each outcome has
    probability `tr(Π_o ρ Π_o) = ½`; the new tableau again has real stabilizer rows (and is valid, §2). -/
theorem measurement_random_is_projection (t : Tab) (hv : t.Valid) (hr : t.StabReal) (q p : Nat) (o : Bool)
    (hq : q < t.n) (hp : t.pivot q = some p) :
    proj t.n (Zq q o) * rho t.n (STab.ofTab t) * proj t.n (Zq q o)
      = (1 / 2 : ℂ) • rho t.n (STab.ofTab (t.zMeasure q o).1) ∧
    Matrix.trace (proj t.n (Zq q o) * rho t.n (STab.ofTab t) * proj t.n (Zq q o)) = 1 / 2 ∧
    (t.zMeasure q o).1.StabReal := by
  obtain ⟨h1, h2, h3⟩ := pivot_spec t q p hp
  have e : t.zMeasure q o = (t.measRandom q p o, o, p) := by simp [zMeasure, hp]
  rw [e]
  exact ⟨measRandom_state t hv hr q p o hq h1 h2 h3, measRandom_prob t hv hr q p o hq h1 h2 h3,
    measRandom_stabReal t hv hr q p o h1 h2⟩

/-- **Deterministic branch = projective measurement.**  Valid tableau with real stabilizer rows, no stabilizer row has an
    X on `q`.  With `s` the outcome reported by `z_measurement_gate`: `Z_q ρ = (-1)^s ρ`, so `Π_s ρ Π_s = ρ`
    (probability 1, state and tableau unchanged) and `Π_{¬s} ρ = 0`. -/
theorem measurement_deterministic_is_projection (t : Tab) (hv : t.Valid) (hr : t.StabReal) (q : Nat) (o : Bool)
    (hq : q < t.n) (hp : t.pivot q = none) :
    (t.zMeasure q o).1 = t ∧
    pauliMat t.n (Zq q (t.zMeasure q o).2.1) * rho t.n (STab.ofTab t) = rho t.n (STab.ofTab t) ∧
    proj t.n (Zq q (t.zMeasure q o).2.1) * rho t.n (STab.ofTab t) * proj t.n (Zq q (t.zMeasure q o).2.1)
      = rho t.n (STab.ofTab t) ∧
    proj t.n (Zq q (!(t.zMeasure q o).2.1)) * rho t.n (STab.ofTab t) = 0 := by
  have e : t.zMeasure q o = (t, (t.measScratch q).r, 0) := by simp [zMeasure, hp]
  rw [e]
  exact ⟨rfl, measDet_state t hv hr q hq hp⟩

/-- reality of the stabilizer rows holds for `CliffordTableau(n)` and is kept by every gate -/
theorem stabilizer_rows_stay_real (n : Nat) (t : Tab) (g : Gate) (hr : t.StabReal) :
    (Tab.ket0 n).StabReal ∧ (t.map g.act).StabReal := ⟨ket0_stabReal n, gate_stabReal t g hr⟩

/-- **The gate operations of the Clifford-tableau API are unitary evolution of the state.**  For every gate `g` of
    `run_circuit` (`t.map g.act` is `hGate`, `sGate`, `sdgGate`, `xGate`, `yGate`, `zGate`, `cnotGate`, `czGate` by
    definition): `U_g ρ(t) U_g† = ρ(t after the gate)`; and `swap_gate` is conjugation by the permutation matrix that
    exchanges the two bits. -/
theorem tableau_gate_is_unitary_evolution (t : Tab) (g : Gate) (hg : g.WF t.n) (a b : Nat) (ha : a < t.n) (hb : b < t.n) :
    gateMat t.n g * rho t.n (STab.ofTab t) * (gateMat t.n g)ᴴ = rho t.n (STab.ofTab (t.map g.act)) ∧
    swapMat t.n a b * rho t.n (STab.ofTab t) * (swapMat t.n a b)ᴴ = rho t.n (STab.ofTab (t.swapGate a b)) ∧
    swapMat t.n a b * (swapMat t.n a b)ᴴ = 1 ∧
    (∀ p, swapMat t.n a b * pauliMat t.n p * (swapMat t.n a b)ᴴ = pauliMat t.n (PRow.swap a b p)) :=
  ⟨rho_tab_gate t g hg, rho_tab_swap t a b ha hb, (swap_unitary t.n a b ha hb).1, swap_conj t.n a b ha hb⟩

example (t : Tab) (q c tg : Nat) : t.map (Gate.H q).act = t.hGate q ∧ t.map (Gate.P q).act = t.sGate q ∧
    t.map (Gate.CNOT c tg).act = t.cnotGate c tg ∧ t.map (Gate.CZ c tg).act = t.czGate c tg := ⟨rfl, rfl, rfl, rfl⟩

/-! non-vacuity: the GHZ tableau `ghz3` of §5 (valid, signs −XXX, ZZI, −IZZ) -/

theorem ghz3_stabReal : ghz3.StabReal := by
  intro i h1 h2
  have h1' : 3 ≤ i := h1
  have h2' : i < 6 := h2
  have : i = 3 ∨ i = 4 ∨ i = 5 := by omega
  rcases this with rfl | rfl | rfl <;> rfl

theorem ghz3_valid : ghz3.Valid := (isSymplectic_iff_valid ghz3).mp (by decide)

/-- measuring qubit 0 of GHZ₃ is random (pivot = row 3): both outcomes have probability ½ -/
example (o : Bool) : Matrix.trace (proj 3 (Zq 0 o) * rho 3 (STab.ofTab ghz3) * proj 3 (Zq 0 o)) = 1 / 2 :=
  (measurement_random_is_projection ghz3 ghz3_valid ghz3_stabReal 0 3 o (by decide) (by decide)).2.1
/-- after that measurement (outcome 1), measuring qubit 1 is deterministic -/
example : ((ghz3.zMeasure 0 true).1.norm).pivot 1 = none ∧ ghz3.pivot 0 = some 3 := by decide
example : Matrix.trace (rho 3 (STab.ofTab ghz3)) = 1 := (stabilizer_state_is_pure ghz3 ghz3_valid).1

end Graphiq.C07

/-! ## 7. Hilbert-space reading of the dimension-changing operations, for every n

  §4b gives `insert_qubit`, `remove_qubit`, `partial_trace` and `tensor` at the level of the stabilizer group.  This section
  says what they are on density matrices (`Proofs/HilbertDim{Site,State,Ops,Tensor,Ptrace,History}.lean`):

  * `insSite q A u` is the operator `A` on the other qubits times the 2×2 matrix `u` on qubit `q` — Mathlib's Kronecker
    product re-indexed along `Bits (m+1) ≃ Bits m × Bool` (delete / insert bit `q`); `kronB A B` the Kronecker product along
    `Bits (m+n) ≃ Bits m × Bits n`; `ptraceSite q` the partial trace over qubit `q`, `ptraceList` its iteration over a removal
    list; `ketbra s = |s⟩⟨s|`;
  * insertion = `⊗_p |0⟩⟨0|`; tensor = `⊗`; removal = partial trace over `q` of the post-measurement state (for an
    unentangled qubit: of the state itself, which is then a product); partial trace of a product factor = partial trace of
    the density matrix;
  * `history_tracks_density`: every accepted history refines the density-matrix semantics `dOps` of the API. -/

namespace Graphiq.C07
open Graphiq Graphiq.PRow Graphiq.Tab Graphiq.Hilbert Graphiq.TabSpec Matrix
open scoped Kronecker

/-! ### 7.1 tensor factors and partial traces over bit-string indices -/

/-- `insSite` and `kronB` are Mathlib's Kronecker product along the explicit index equivalences; they are multiplicative,
    and the partial trace over the site removes the factor: `Tr_q (A ⊗_q u) = tr(u) · A`, `tr(Tr_q M) = tr M` -/
theorem site_tensor_is_kronecker_product (m n q : Nat) (hq : q ≤ m) (A A' : Matrix (Bits m) (Bits m) ℂ)
    (u u' : Matrix Bool Bool ℂ) (B B' : Matrix (Bits n) (Bits n) ℂ) (M : Matrix (Bits (m + 1)) (Bits (m + 1)) ℂ) :
    insSite q A u = (A ⊗ₖ u).submatrix (siteEquiv q hq) (siteEquiv q hq) ∧
    kronB A B = (A ⊗ₖ B).submatrix (blockEquiv m n) (blockEquiv m n) ∧
    insSite q A u * insSite q A' u' = insSite q (A * A') (u * u') ∧
    kronB A B * kronB A' B' = kronB (A * A') (B * B') ∧
    ptraceSite q (insSite q A u) = Matrix.trace u • A ∧
    Matrix.trace (ptraceSite q M) = Matrix.trace M ∧
    (∀ a b, ptraceSite q M a b = M (insB q a false) (insB q b false) + M (insB q a true) (insB q b true)) :=
  ⟨rfl, rfl, insSite_mul q hq A A' u u', kronB_mul A A' B B', ptraceSite_insSite q hq A u, trace_ptraceSite q hq M,
   ptraceSite_apply q M⟩

/-- **the matrix of a Pauli row factorises at every site and across every cut** (generalising
    `pauli_matrix_is_kronecker_product` from the last site): `pauliMat (m+1) P = pauliMat m (P without site q) ⊗_q σ(x_q,z_q)`;
    a row with an identity inserted at `q` is `P ⊗_q 1`; `pauliMat (m+n) P = pauliMat m P ⊗ pauliMat n (P on the last n
    sites)`; the rows `tensor` builds are `P ⊗ 1` and `1 ⊗ Q` -/
theorem pauli_matrix_factorises_at_any_site (m n q : Nat) (hq : q ≤ m) (P : PRow) :
    pauliMat (m + 1) P = insSite q (pauliMat m (P.deleteCol q)) (sigma (P.x q) (P.z q)) ∧
    pauliMat (m + 1) (P.insertCol q) = insSite q (pauliMat m P) 1 ∧
    pauliMat (m + n) P = kronB (pauliMat m P) (pauliMat n (tailRow m P)) ∧
    pauliMat (m + n) (P.truncCols m) = kronB (pauliMat m P) 1 ∧
    pauliMat (m + n) (P.shiftCols m) = kronB 1 (pauliMat n P) :=
  ⟨pauliMat_site m q hq P, pauliMat_insertCol m q hq P, pauliMat_block m n P, pauliMat_truncCols m n P,
   pauliMat_shiftCols m n P⟩

/-- `ketbra s` is `|s⟩⟨s|`; it is the state `(1 + (-1)^s Z)/2` of the single-site stabilizer `±Z_q` -/
theorem ketbra_is_basis_projector (q : Nat) (s a b : Bool) :
    ketbra s a b = (if a = s ∧ b = s then 1 else 0) ∧ site1 (Zq q s) q = ketbra s := ⟨rfl, site1_Zq q s⟩

/-! ### 7.2 insertion and tensor product -/

/-- **`insert_qubit` adds a tensor factor `|0⟩⟨0|` at the requested position**: `ρ(insert_qubit(t, p)) = ρ(t) ⊗_p |0⟩⟨0|`
    for every valid tableau (real stabilizer rows), every `n`, every `p ≤ n`; `add_qubit` is the case `p = n` -/
theorem insert_qubit_is_tensor_with_ket0 (t : Tab) (p : Nat) (hp : p ≤ t.n) (hv : t.Valid) (hr : t.StabReal) :
    rho (t.n + 1) (STab.ofTab (t.insertQubit p)) = insSite p (rho t.n (STab.ofTab t)) (ketbra false) ∧
    (∀ a b : Bits (t.n + 1), rho (t.n + 1) (STab.ofTab (t.insertQubit p)) a b
      = rho t.n (STab.ofTab t) (delB p a) (delB p b) * (if bx a p = false ∧ bx b p = false then 1 else 0)) := by
  have h := rho_insertQubit t p hp hv hr
  exact ⟨h, fun a b => by rw [h]; rfl⟩

theorem add_qubit_is_tensor_with_ket0 (t : Tab) (hv : t.Valid) (hr : t.StabReal) :
    rho (t.n + 1) (STab.ofTab t.addQubit) = insSite t.n (rho t.n (STab.ofTab t)) (ketbra false) :=
  rho_insertQubit t t.n (Nat.le_refl _) hv hr

/-- **`tensor([a, b])` is the tensor product of the states**: `ρ(tensor([a,b])) = ρ(a) ⊗ ρ(b)` with the qubits of `a`
    first, for all tableaux of all sizes (no hypothesis) -/
theorem tensor_is_kronecker_product (a b : Tab) :
    rho (a.n + b.n) (STab.ofTab (Tab.tensor2 a b)) = kronB (rho a.n (STab.ofTab a)) (rho b.n (STab.ofTab b)) ∧
    (∀ x y : Bits (a.n + b.n), rho (a.n + b.n) (STab.ofTab (Tab.tensor2 a b)) x y
      = rho a.n (STab.ofTab a) (leftB x) (leftB y) * rho b.n (STab.ofTab b) (rightB x) (rightB y)) := by
  have h := rho_tensor a b
  exact ⟨h, fun x y => by rw [h]; rfl⟩

/-- `tensor(list_of_tables)` for a whole list (the Python folds the two-factor step from the left): the state is the
    iterated Kronecker product, in list order -/
theorem tensor_list_is_iterated_kronecker_product (t : Tab) (ts : List Tab) :
    dstate (tensorL t ts) = (ts.map dstate).foldl dTensor (dstate t) ∧
    (∀ s1 s2 : DState, dTensor s1 s2 = ⟨s1.n + s2.n, kronB s1.ρ s2.ρ⟩) := ⟨dstate_tensorL t ts, fun _ _ => rfl⟩

/-- at the last site, `insSite` is the entrywise product of `pauli_matrix_is_kronecker_product` (§6): the two Kronecker
    conventions agree -/
theorem site_tensor_at_last_site {m : Nat} (A : Matrix (Bits m) (Bits m) ℂ) (u : Matrix Bool Bool ℂ) (a b : Bits (m + 1)) :
    insSite m A u a b = A (initB a) (initB b) * u (lastB a) (lastB b) := insSite_last A u a b

example : rho 3 (STab.ofTab (bell.insertQubit 1)) = insSite 1 (rho 2 (STab.ofTab bell)) (ketbra false) :=
  (insert_qubit_is_tensor_with_ket0 bell 1 (by decide) bell_valid bell_real).1
example : rho 3 (STab.ofTab (Tab.tensor2 (Tab.ket1 1) bell))
    = kronB (rho 1 (STab.ofTab (Tab.ket1 1))) (rho 2 (STab.ofTab bell)) := (tensor_is_kronecker_product (Tab.ket1 1) bell).1

/-! ### 7.3 removing a qubit -/

/-- **`remove_qubit` = partial trace of the post-measurement state.**  Valid tableau on `m+1` qubits, `q < m+1`, any
    forced / drawn outcome `o`.  Inside `remove_qubit` the code Z-measures qubit `q`; the measured tableau is the product
    `ρ(result) ⊗_q |s⟩⟨s|` (`s` the measurement outcome) and the returned tableau is its partial trace over `q`. -/
theorem remove_qubit_is_partial_trace_of_measured_state (m : Nat) (t t' : Tab) (q : Nat) (o : Bool) (hm : t.n = m + 1)
    (hq : q < t.n) (hv : t.Valid) (hr : t.StabReal) (h : t.removeQubit q o = .ok t') :
    t'.n = m ∧
    rho (m + 1) (STab.ofTab (t.zMeasure q o).1) = insSite q (rho m (STab.ofTab t')) (ketbra (t.zMeasure q o).2.1) ∧
    rho m (STab.ofTab t') = ptraceSite q (rho (m + 1) (STab.ofTab (t.zMeasure q o).1)) :=
  ⟨(rho_removeQubit_measured m t t' q o hm hq hv hr h).1, (rho_removeQubit_measured m t t' q o hm hq hv hr h).2,
   rho_removeQubit m t t' q o hm hq hv hr h⟩

/-- random branch (qubit `q` entangled with the rest or in an X/Y eigenstate): the result is the reduced state of the
    post-measurement state of `ρ(t)` itself, `ρ(result) = Tr_q(Π_o ρ Π_o) / ½` with `Π_o = (1 + (-1)^o Z_q)/2` -/
theorem remove_qubit_random_is_reduced_post_measurement_state (m : Nat) (t t' : Tab) (q p : Nat) (o : Bool)
    (hm : t.n = m + 1) (hq : q < t.n) (hv : t.Valid) (hr : t.StabReal) (hp : t.pivot q = some p)
    (h : t.removeQubit q o = .ok t') :
    rho m (STab.ofTab t')
      = (2 : ℂ) • ptraceSite q (proj (m + 1) (Zq q o) * rho (m + 1) (STab.ofTab t) * proj (m + 1) (Zq q o)) :=
  rho_removeQubit_random m t t' q p o hm hq hv hr hp h

/-- deterministic branch (`±Z_q` stabilizes the state): the state is the product `ρ(result) ⊗_q |s⟩⟨s|` and the result is
    the reduced state `Tr_q ρ(t)` -/
theorem remove_qubit_deterministic_is_partial_trace (m : Nat) (t t' : Tab) (q : Nat) (o : Bool) (hm : t.n = m + 1)
    (hq : q < t.n) (hv : t.Valid) (hr : t.StabReal) (hp : t.pivot q = none) (h : t.removeQubit q o = .ok t') :
    rho (m + 1) (STab.ofTab t) = insSite q (rho m (STab.ofTab t')) (ketbra (t.measScratch q).r) ∧
    rho m (STab.ofTab t') = ptraceSite q (rho (m + 1) (STab.ofTab t)) :=
  rho_removeQubit_det m t t' q o hm hq hv hr hp h

/-- **removing an unentangled qubit leaves the state of the others unchanged**: if a single-site Pauli `σ` on qubit `q`
    is in the stabilizer group, then `ρ(t) = ρ(result) ⊗_q (1 + σ_q)/2` and `ρ(result) = Tr_q ρ(t)`, whatever outcome is
    drawn (also when the measurement inside `remove_qubit` is random, e.g. for `|+⟩`) -/
theorem remove_unentangled_qubit_is_partial_trace (m : Nat) (t t' : Tab) (q : Nat) (o : Bool) (hm : t.n = m + 1)
    (hq : q < t.n) (hv : t.Valid) (hr : t.StabReal) (σ : PRow) (hσg : Grp t σ) (hσ : SingleSite t.n q σ)
    (h : t.removeQubit q o = .ok t') :
    rho (m + 1) (STab.ofTab t) = insSite q (rho m (STab.ofTab t')) (site1 σ q) ∧
    rho m (STab.ofTab t') = ptraceSite q (rho (m + 1) (STab.ofTab t)) :=
  rho_removeQubit_unentangled m t t' q o hm hq hv hr σ hσg hσ h

/-- tracing out a qubit forgets its Z-measurement: `Tr_q ρ(t)` is the equal mixture of the two possible results of
    `remove_qubit` (the same tableau twice when the measurement is deterministic) -/
theorem partial_trace_is_mixture_of_removals (m : Nat) (t t0 t1 : Tab) (q : Nat) (hm : t.n = m + 1) (hq : q < t.n)
    (hv : t.Valid) (hr : t.StabReal) (h0 : t.removeQubit q false = .ok t0) (h1 : t.removeQubit q true = .ok t1) :
    ptraceSite q (rho (m + 1) (STab.ofTab t)) = (1 / 2 : ℂ) • rho m (STab.ofTab t0) + (1 / 2 : ℂ) • rho m (STab.ofTab t1) :=
  ptrace_remove_mix m t t0 t1 q hm hq hv hr h0 h1

/-- Bell pair, remove qubit 1 (random measurement, pivot row 2): the hypotheses are met for both outcomes -/
example (o : Bool) : ∃ t', bell.removeQubit 1 o = .ok t' ∧
    rho 1 (STab.ofTab t') = (2 : ℂ) • ptraceSite 1 (proj 2 (Zq 1 o) * rho 2 (STab.ofTab bell) * proj 2 (Zq 1 o)) := by
  obtain ⟨t', h⟩ := remove_qubit_total bell 1 o (by decide) bell_valid
  exact ⟨t', h, remove_qubit_random_is_reduced_post_measurement_state 1 bell t' 1 2 o rfl (by decide) bell_valid bell_real
    (by decide) h⟩
/-- `|11⟩`, remove qubit 0 (deterministic, `−Z₀` in the group) -/
example (o : Bool) : ∃ t', (Tab.ket1 2).removeQubit 0 o = .ok t' ∧
    rho 1 (STab.ofTab t') = ptraceSite 0 (rho 2 (STab.ofTab (Tab.ket1 2))) := by
  have hv : (Tab.ket1 2).Valid := (isSymplectic_iff_valid _).mp (by decide)
  obtain ⟨t', h⟩ := remove_qubit_total (Tab.ket1 2) 0 o (by decide) hv
  exact ⟨t', h, (remove_qubit_deterministic_is_partial_trace 1 (Tab.ket1 2) t' 0 o rfl (by decide) hv
    (stabRealB_spec _ (by decide)) (by decide) h).2⟩

/-! ### 7.4 partial trace -/

/-- **`partial_trace` of unentangled qubits is the partial trace of the density matrix** (iterated over the removal list,
    highest index first), for every outcome script -/
theorem partial_trace_product_is_partial_trace (m : Nat) (t t' : Tab) (keep : List Nat) (os : List Bool)
    (hm : t.n = m + (removalList t.n keep).length) (hv : t.Valid) (hr : t.StabReal)
    (hu : ∀ q, q < t.n → q ∉ keep → Unentangled t q) (h : t.partialTrace keep os = .ok t') :
    rho m (STab.ofTab t') = ptraceList (removalList t.n keep) (rho (m + (removalList t.n keep).length) (STab.ofTab t)) :=
  rho_partialTrace_product m t t' keep os hm hv hr hu h

/-- **`partial_trace` of a product factor is the partial trace of the density matrix**: if the state factorises across
    the cut kept | traced-out (`Factor`; the traced-out qubits may be entangled among themselves and their measurements
    random), then `ρ(partial_trace(t, keep)) = Tr_{removed} ρ(t)` for every outcome script -/
theorem partial_trace_factor_is_partial_trace (m : Nat) (t t' : Tab) (keep : List Nat) (os : List Bool)
    (hm : t.n = m + (removalList t.n keep).length) (hv : t.Valid) (hr : t.StabReal)
    (hf : Factor t (removalList t.n keep)) (h : t.partialTrace keep os = .ok t') :
    rho m (STab.ofTab t') = ptraceList (removalList t.n keep) (rho (m + (removalList t.n keep).length) (STab.ofTab t)) :=
  rho_partialTrace_factor m t t' keep os hm hv hr hf h

/-- **`partial_trace(tensor([a, b]))` onto the qubits of `a` (resp. `b`) is the state of `a` (resp. `b`)**, as density
    matrices, and it is the partial trace of `ρ(tensor([a,b])) = ρ(a) ⊗ ρ(b)` over the other factor -/
theorem partial_trace_of_tensor_is_factor (a b t' : Tab) (os : List Bool) (ha : a.Valid) (hb : b.Valid)
    (ra : a.StabReal) (rb : b.StabReal) :
    ((Tab.tensor2 a b).partialTrace (List.range a.n) os = .ok t' →
      rho a.n (STab.ofTab t') = rho a.n (STab.ofTab a) ∧
      rho a.n (STab.ofTab t') = ptraceList (removalList (a.n + b.n) (List.range a.n))
        (rho (a.n + (removalList (a.n + b.n) (List.range a.n)).length) (STab.ofTab (Tab.tensor2 a b)))) ∧
    ((Tab.tensor2 a b).partialTrace (rightSites a.n b.n) os = .ok t' →
      rho b.n (STab.ofTab t') = rho b.n (STab.ofTab b) ∧
      rho b.n (STab.ofTab t') = ptraceList (removalList (a.n + b.n) (rightSites a.n b.n))
        (rho (b.n + (removalList (a.n + b.n) (rightSites a.n b.n)).length) (STab.ofTab (Tab.tensor2 a b)))) :=
  ⟨rho_partialTrace_tensor_left a b t' os ha hb ra rb, rho_partialTrace_tensor_right a b t' os ha hb ra rb⟩

/-- **`ptraceSite` / `ptraceList` are the partial trace**: they satisfy its defining property — adjoint, for the trace
    pairing, of the embedding `A ↦ A ⊗ 1` of the operators on the kept qubits — and are determined by it; the embedding of
    the matrix of a Pauli row is the matrix of the row with identity columns inserted (`embedCols`, the map in
    `partial_trace_factor_spec`) -/
theorem partial_trace_defining_property {m : Nat} (rem : List Nat) (hlt : ∀ q, q ∈ rem → q < m + rem.length)
    (hpw : rem.Pairwise (· > ·)) (M : Matrix (Bits (m + rem.length)) (Bits (m + rem.length)) ℂ) :
    (∀ A : Matrix (Bits m) (Bits m) ℂ, Matrix.trace (ptraceList rem M * A) = Matrix.trace (M * embedOp rem A)) ∧
    (∀ N : Matrix (Bits m) (Bits m) ℂ, (∀ A, Matrix.trace (N * A) = Matrix.trace (M * embedOp rem A)) →
      N = ptraceList rem M) ∧
    (∀ P : PRow, pauliMat (m + rem.length) (embedCols rem P) = embedOp rem (pauliMat m P)) :=
  ⟨ptraceList_adjoint rem hlt hpw M, ptraceList_unique rem hlt hpw M, pauliMat_embedCols rem hlt hpw⟩

/-- the same for one site: `tr(Tr_q(M) · A) = tr(M · (A ⊗_q 1))`, which determines `Tr_q M` -/
theorem partial_trace_site_defining_property {m : Nat} (q : Nat) (hq : q ≤ m)
    (M : Matrix (Bits (m + 1)) (Bits (m + 1)) ℂ) :
    (∀ A : Matrix (Bits m) (Bits m) ℂ, Matrix.trace (ptraceSite q M * A) = Matrix.trace (M * insSite q A 1)) ∧
    (∀ N : Matrix (Bits m) (Bits m) ℂ, (∀ A, Matrix.trace (N * A) = Matrix.trace (M * insSite q A 1)) →
      N = ptraceSite q M) :=
  ⟨ptraceSite_adjoint q hq M, ptraceSite_unique q hq M⟩

/-- **the site-wise partial trace and the Kronecker product fit together**: `Tr_B (A ⊗ B) = tr(B) · A` for the iterated
    partial trace over the last block (any `A`, `B`), in particular `Tr_B (ρ(a) ⊗ ρ(b)) = ρ(a)` with the removal list that
    `partial_trace(tensor([a, b]), keep = qubits of a)` uses -/
theorem partial_trace_of_kronecker_product {m : Nat} (rem : List Nat) (h : lastBlock m rem)
    (A : Matrix (Bits m) (Bits m) ℂ) (B : Matrix (Bits rem.length) (Bits rem.length) ℂ) (a b : Tab) (hb : b.Valid) :
    ptraceList rem (kronB A B) = Matrix.trace B • A ∧
    lastBlock a.n (removalList (a.n + b.n) (List.range a.n)) ∧
    ptraceList (removalList (a.n + b.n) (List.range a.n))
      (rho (a.n + (removalList (a.n + b.n) (List.range a.n)).length) (STab.ofTab (Tab.tensor2 a b)))
      = rho a.n (STab.ofTab a) :=
  ⟨ptraceList_kronB rem h A B, lastBlock_removalList a.n b.n, ptrace_tensor_state a b hb⟩

/-- **what `partial_trace` returns when the traced-out qubits are entangled with the kept ones**: always a pure
    stabilizer state (the reduced state of the post-measurement state); the true, mixed reduced state `Tr_rem ρ(t)` is the
    uniform mixture of these answers over the outcome choices (`mixGo`), for every valid tableau and every removal list -/
theorem reduced_state_is_mixture_of_partial_trace_results (rem : List Nat) (m : Nat) (t : Tab)
    (hn : t.n = m + rem.length) (hv : t.Valid) (hr : t.StabReal) (hpw : rem.Pairwise (· > ·))
    (hlt : ∀ q, q ∈ rem → q < t.n) :
    ptraceList rem (rho (m + rem.length) (STab.ofTab t)) = mixGo m rem t :=
  ptraceList_eq_mixture rem m t hn hv hr hpw hlt

example : ptraceList [1] (rho (1 + [1].length) (STab.ofTab bell)) = mixGo 1 [1] bell :=
  reduced_state_is_mixture_of_partial_trace_results [1] 1 bell rfl bell_valid bell_real
    (List.pairwise_singleton _ _) (by intro q hq; simp only [List.mem_singleton] at hq; subst hq; decide)

/-- **the Bell pair, concretely**: `remove_qubit(bell, 1)` returns the pure state `|o⟩⟨o|` (`o` the drawn outcome), whereas
    the reduced state of qubit 0 is the maximally mixed state `½·1` — their equal mixture -/
theorem bell_reduced_state_is_maximally_mixed :
    ptraceSite 1 (rho 2 (STab.ofTab bell)) = (1 / 2 : ℂ) • (1 : Matrix (Bits 1) (Bits 1) ℂ) ∧
    ∀ o : Bool, ∃ t', bell.removeQubit 1 o = .ok t' ∧ rho 1 (STab.ofTab t') = proj 1 (Zq 0 o) := by
  have key : ∀ o : Bool, ∃ t', bell.removeQubit 1 o = .ok t' ∧ rho 1 (STab.ofTab t') = proj 1 (Zq 0 o) := by
    intro o
    obtain ⟨t', h⟩ := remove_qubit_total bell 1 o (by decide) bell_valid
    obtain ⟨n', v', r', _⟩ := removeQubit_grp bell t' 1 o (by decide) bell_valid bell_real h
    have hz : Grp t' (Zq 0 o) := by
      refine (remove_entangled_qubit_spec bell t' 1 2 o (by decide) bell_valid bell_real (by decide) h _).mpr (Or.inr ?_)
      cases o
      · exact InSpan.eqv _ _ (grp_gen bell 1 (by decide)) (eqOn_check 2 _ _ (by decide))
      · exact InSpan.eqv _ _ (grp_gen bell 1 (by decide)) (eqOn_check 2 _ _ (by decide))
    exact ⟨t', h, rho_one_qubit_Z t' n' v' r' o hz⟩
  refine ⟨?_, key⟩
  obtain ⟨t0, h0, e0⟩ := key false
  obtain ⟨t1, h1, e1⟩ := key true
  have mix := ptrace_remove_mix 1 bell t0 t1 1 rfl (by decide) bell_valid bell_real h0 h1
  rw [mix, e0, e1, ← smul_add, proj_Zq_add]

/-- `partial_trace` never hits an assertion on a valid tableau -/
theorem partial_trace_total (t : Tab) (keep : List Nat) (os : List Bool) (hv : t.Valid) (hr : t.StabReal) :
    ∃ t', t.partialTrace keep os = .ok t' :=
  partialTrace_go_total (removalList t.n keep) t os hv hr (removalList_desc t.n keep)
    (fun q hq => ((mem_removalList t.n keep q).mp hq).1)

/-- `|1⟩ ⊗ Bell`, trace the (internally entangled, randomly measured) Bell pair out: the result is `|1⟩⟨1|` -/
example (os : List Bool) : ∃ t', (Tab.tensor2 (Tab.ket1 1) bell).partialTrace (List.range 1) os = .ok t' ∧
    rho 1 (STab.ofTab t') = rho 1 (STab.ofTab (Tab.ket1 1)) := by
  have hv1 : (Tab.ket1 1).Valid := (isSymplectic_iff_valid _).mp (by decide)
  have hr1 : (Tab.ket1 1).StabReal := stabRealB_spec _ (by decide)
  obtain ⟨t', h⟩ := partial_trace_total (Tab.tensor2 (Tab.ket1 1) bell) (List.range 1) os
    (tensor_valid _ _ hv1 bell_valid) (tensor_stab_real _ _ hr1 bell_real)
  exact ⟨t', h, ((partial_trace_of_tensor_is_factor (Tab.ket1 1) bell t' os hv1 bell_valid hr1 bell_real).1 h).1⟩

/-! ### 7.5 every history tracks the density matrix -/

/-- **Z-measurement as a quantum operation**: the reported outcome is the one that occurs (the forced / drawn `o` unless
    it has probability `tr(Π_o ρ) = 0`), the new tableau is the normalised post-measurement state `Π ρ Π / tr(Π ρ)`, and the
    measurement is random (pivot found) exactly when both outcomes have non-zero probability -/
theorem measurement_is_quantum_measurement (t : Tab) (q : Nat) (o : Bool) (hq : q < t.n) (hv : t.Valid) (hr : t.StabReal) :
    measOutcome t.n q o (rho t.n (STab.ofTab t)) = (t.zMeasure q o).2.1 ∧
    postMeas t.n q o (rho t.n (STab.ofTab t)) = rho t.n (STab.ofTab (t.zMeasure q o).1) ∧
    (dRandom q (dstate t) ↔ (t.pivot q).isSome = true) := meas_density t q o hq hv hr

/-- **one API call refines the density-matrix semantics** `dOp` (gates, swap: `U ρ U†`; measurement and resets: projective
    measurement with the scripted outcome, then `X_q` iff the outcome is not the intended state, then `H` / `P·H` for
    `reset_x` / `reset_y`; insertion: `⊗_p |0⟩⟨0|`; removal: measurement then partial trace; partial trace: removals, highest
    index first) -/
theorem op_tracks_density_matrix (t t' : Tab) (op : Tab.Op) (out : Option (Bool × Bool)) (hop : WF op) (hv : t.Valid)
    (hr : t.StabReal) (h : t.applyOp op = .ok (t', out)) : dstate t' = dOp op (dstate t) :=
  op_tracks_density t t' op out ((wf_iff op).mp hop) hv hr h

/-- **History theorem, Hilbert-space form.**  From a valid tableau with real stabilizer rows, along any finite history of
    API calls that the API accepts (gates, swap, measurements and resets with any outcome script, insertions, removals,
    partial traces), the density matrix of the final tableau — number of qubits included — is the density-matrix
    semantics `dOps` of the history applied to the initial density matrix. -/
theorem history_tracks_density (ops : List Tab.Op) (hops : ∀ op ∈ ops, WF op) :
    ∀ (t t' : Tab), t.Valid → t.StabReal → t.runOps ops = .ok t' → dstate t' = dOps ops (dstate t) := by
  induction ops with
  | nil => intro t t' _ _ h; simp [runOps] at h; rw [← h]; rfl
  | cons op rest ih =>
    intro t t' hv hr h
    simp only [runOps] at h
    split at h
    · next t1 out h1 =>
      have hop := hops op List.mem_cons_self
      have v1 := op_preserves_valid t t1 op out hop hv h1
      have r1 := (op_tracks_state t t1 op out hop hv hr h1).1
      have d1 := op_tracks_density_matrix t t1 op out hop hv hr h1
      rw [ih (fun o ho => hops o (List.mem_cons_of_mem _ ho)) t1 t' v1 r1 h, d1]
      rfl
    · simp at h

/-- the history of §4b.9 on the Bell pair is accepted, so the theorem applies to it (8 operations of every kind) -/
example : ∃ t', bell.runOps [.h 0, .cnot 0 1, .meas 1 true, .insert 2, .resetY 0 true false, .swap 1 2, .remove 0 true,
      .ptrace [0] [false]] = .ok t' ∧
    dstate t' = dOps [.h 0, .cnot 0 1, .meas 1 true, .insert 2, .resetY 0 true false, .swap 1 2, .remove 0 true,
      .ptrace [0] [false]] (dstate bell) := by
  have hwf : ∀ op ∈ ([.h 0, .cnot 0 1, .meas 1 true, .insert 2, .resetY 0 true false, .swap 1 2, .remove 0 true,
      .ptrace [0] [false]] : List Tab.Op), WF op := by
    intro op hop
    simp only [List.mem_cons, List.mem_nil_iff, or_false] at hop
    rcases hop with rfl | rfl | rfl | rfl | rfl | rfl | rfl | rfl <;> first | trivial | (show (0 : Nat) ≠ 1; decide)
  cases hrun : bell.runOps [.h 0, .cnot 0 1, .meas 1 true, .insert 2, .resetY 0 true false, .swap 1 2, .remove 0 true,
      .ptrace [0] [false]] with
  | error e =>
    exfalso
    have : (match bell.runOps [.h 0, .cnot 0 1, .meas 1 true, .insert 2, .resetY 0 true false, .swap 1 2, .remove 0 true,
      .ptrace [0] [false]] with | .ok _ => true | .error _ => false) = true := by decide +kernel
    rw [hrun] at this; cases this
  | ok t' => exact ⟨t', rfl, history_tracks_density _ hwf bell t' bell_valid bell_real hrun⟩

/-! ### 7.6 resets replace the qubit; the stabilizer state as a vector -/

/-- **`reset_z` / `reset_x` / `reset_y` on density matrices** (the Hilbert-space form of `reset_spec`): the code
    Z-measures qubit `q` (forced / drawn outcome `o`) and leaves the other qubits in the reduced state of the
    post-measurement state, `A = Tr_q(Π ρ Π / tr(Π ρ))`; qubit `q` becomes the tensor factor `|i⟩⟨i|` (`reset_z`),
    `(1 + (-1)^i X)/2` (`reset_x`), `(1 + (-1)^i Y)/2` (`reset_y`), `i` the intended state -/
theorem reset_is_measure_and_replace (m : Nat) (t : Tab) (q : Nat) (i o : Bool) (hm : t.n = m + 1) (hq : q < t.n)
    (hv : t.Valid) (hr : t.StabReal) :
    rho (m + 1) (STab.ofTab (t.resetZ q i o))
      = insSite q (ptraceSite q (postMeas (m + 1) q o (rho (m + 1) (STab.ofTab t)))) (ketbra i) ∧
    rho (m + 1) (STab.ofTab (t.resetX q i o))
      = insSite q (ptraceSite q (postMeas (m + 1) q o (rho (m + 1) (STab.ofTab t)))) (bloch true false i) ∧
    rho (m + 1) (STab.ofTab (t.resetY q i o))
      = insSite q (ptraceSite q (postMeas (m + 1) q o (rho (m + 1) (STab.ofTab t)))) (bloch true true i) ∧
    bloch true false i = (1 / 2 : ℂ) • (1 + (if i then (-1 : ℂ) else 1) • sigmaX) ∧
    bloch true true i = (1 / 2 : ℂ) • (1 + (if i then (-1 : ℂ) else 1) • sigmaY) :=
  ⟨rho_resetZ m t q i o hm hq hv hr, rho_resetX m t q i o hm hq hv hr, rho_resetY m t q i o hm hq hv hr,
   by unfold bloch; rw [sigma_tf], by unfold bloch; rw [sigma_tt]⟩

/-- one-qubit gate matrices are `1 ⊗_q u` (`get_one_qubit_gate`), for any site -/
theorem one_qubit_gate_is_site_tensor (m q : Nat) (hq : q ≤ m) (u : Matrix Bool Bool ℂ) :
    oneQ (m + 1) q u = insSite q 1 u := oneQ_eq_insSite m q hq u

example (i o : Bool) : rho 2 (STab.ofTab (bell.resetZ 1 i o))
    = insSite 1 (ptraceSite 1 (postMeas 2 1 o (rho 2 (STab.ofTab bell)))) (ketbra i) :=
  (reset_is_measure_and_replace 1 bell 1 i o rfl (by decide) bell_valid bell_real).1

/-- **a pure state is a ket** (linear algebra): a Hermitian idempotent of trace one is `|ψ⟩⟨ψ|` for a unit vector `ψ` -/
theorem pure_state_is_ket {ι : Type} [Fintype ι] [DecidableEq ι] (P : Matrix ι ι ℂ) (hP : P * P = P) (hH : Pᴴ = P)
    (htr : Matrix.trace P = 1) : ∃ ψ : ι → ℂ, P = Matrix.vecMulVec ψ (star ψ) ∧ star ψ ⬝ᵥ ψ = 1 :=
  rank_one_of_pure P hP hH htr

/-- **The literal rank-one form of a stabilizer state.**  (Compare `C11.stabilizer_state_is_rank_one`: there `ψ = V|0…0⟩` is
    constructed from the synthesised inverse circuit, for any independent real commuting generating set; here `ψ` comes from
    purity alone (`pure_state_is_ket`) and the theorem adds that `ψ` is the joint `+1` eigenvector of the whole group and is
    unique up to a scalar.)  For every valid Clifford tableau (real stabilizer rows), every
    `n`: there is a unit vector `ψ ∈ ℂ^(2^n)` with `ρ = |ψ⟩⟨ψ|` (entrywise `ρ a b = ψ a · conj(ψ b)`); `ψ` is a `+1`
    eigenvector of every element of the stabilizer group; and every vector fixed by the `n` generators is a scalar multiple
    of `ψ` — the tableau determines the state vector up to a phase. -/
theorem stabilizer_state_is_ket (t : Tab) (hv : t.Valid) (hr : t.StabReal) :
    ∃ ψ : Bits t.n → ℂ,
      rho t.n (STab.ofTab t) = Matrix.vecMulVec ψ (star ψ) ∧ star ψ ⬝ᵥ ψ = 1 ∧
      (∀ g, Grp t g → pauliMat t.n g *ᵥ ψ = ψ) ∧
      (∀ φ : Bits t.n → ℂ, (∀ i, i < t.n → pauliMat t.n (t.stab i) *ᵥ φ = φ) → φ = (star ψ ⬝ᵥ φ) • ψ) :=
  stabilizer_ket_exists t hv hr

example : ∃ ψ : Bits 3 → ℂ, rho 3 (STab.ofTab ghz3) = Matrix.vecMulVec ψ (star ψ) ∧ star ψ ⬝ᵥ ψ = 1 := by
  obtain ⟨ψ, h1, h2, _⟩ := stabilizer_state_is_ket ghz3 ghz3_valid ghz3_stabReal
  exact ⟨ψ, h1, h2⟩

/-! ### 7.7 programs: histories combined with `tensor`, from `CliffordTableau(n)` -/

/-- **Program theorem (no hypothesis on the state left).**  A program starts from `CliffordTableau(n)` (or from given
    valid tableaux), runs histories of API calls and combines results with `tensor`.  Whenever the model runs it to a
    tableau `t`: `t` is valid, its stabilizer rows are real, and its density matrix — number of qubits included — is the
    denotation `Prog.den`, which is defined in Hilbert space only: `|0…0⟩⟨0…0|` for `CliffordTableau(n)`, the quantum
    operations `dOps` for a history, the Kronecker product for `tensor`. -/
theorem program_tracks_density (p : Prog) : ∀ t, p.WF → p.run = .ok t → t.Valid ∧ t.StabReal ∧ dstate t = p.den := by
  induction p with
  | leaf t0 =>
    intro t hw h
    simp only [Prog.run, Except.ok.injEq] at h
    subst h
    exact ⟨hw.1, hw.2, rfl⟩
  | init n =>
    intro t _ h
    simp only [Prog.run, Except.ok.injEq] at h
    subst h
    exact ⟨ket0_is_valid n, ket0_stabReal n, dstate_ket0 n⟩
  | seq p ops ih =>
    intro t hw h
    simp only [Prog.run] at h
    cases hp : p.run with
    | error e => rw [hp] at h; cases h
    | ok t0 =>
      rw [hp] at h
      obtain ⟨v0, r0, d0⟩ := ih t0 hw.1 hp
      have hops : ∀ op ∈ ops, WF op := fun op hop => (wf_iff op).mpr (hw.2 op hop)
      obtain ⟨v, r, _⟩ := history_tracks_state ops hops t0 t v0 r0 h
      refine ⟨v, r, ?_⟩
      rw [history_tracks_density ops hops t0 t v0 r0 h, d0]
      rfl
  | tensor p q ihp ihq =>
    intro t hw h
    simp only [Prog.run] at h
    cases hp : p.run with
    | error e => rw [hp] at h; cases h
    | ok a =>
      rw [hp] at h
      cases hq : q.run with
      | error e => rw [hq] at h; cases h
      | ok b =>
        rw [hq] at h
        simp only [Except.ok.injEq] at h
        subst h
        obtain ⟨va, ra, da⟩ := ihp a hw.1 hp
        obtain ⟨vb, rb, db⟩ := ihq b hw.2 hq
        refine ⟨tensor_valid a b va vb, tensor_stab_real a b ra rb, ?_⟩
        rw [dstate_tensor, da, db]
        rfl

/-- `(Bell pair from |00⟩ by H, CNOT) ⊗ (|0⟩ measured)`, then a swap and a partial trace: accepted, so the theorem applies -/
example : ∃ t, (Prog.seq (Prog.tensor (Prog.seq (Prog.init 2) [.h 0, .cnot 0 1]) (Prog.seq (Prog.init 1) [.meas 0 true]))
      [.swap 0 2, .ptrace [0, 1] [true]]).run = .ok t ∧
    dstate t = (Prog.seq (Prog.tensor (Prog.seq (Prog.init 2) [.h 0, .cnot 0 1]) (Prog.seq (Prog.init 1) [.meas 0 true]))
      [.swap 0 2, .ptrace [0, 1] [true]]).den := by
  have hw : (Prog.seq (Prog.tensor (Prog.seq (Prog.init 2) [.h 0, .cnot 0 1]) (Prog.seq (Prog.init 1) [.meas 0 true]))
      [.swap 0 2, .ptrace [0, 1] [true]]).WF := by
    refine ⟨⟨⟨trivial, ?_⟩, ⟨trivial, ?_⟩⟩, ?_⟩
    · intro op hop
      simp only [List.mem_cons, List.mem_nil_iff, or_false] at hop
      rcases hop with rfl | rfl
      · trivial
      · show (0 : Nat) ≠ 1; decide
    · intro op hop
      simp only [List.mem_cons, List.mem_nil_iff, or_false] at hop
      subst hop; trivial
    · intro op hop
      simp only [List.mem_cons, List.mem_nil_iff, or_false] at hop
      rcases hop with rfl | rfl <;> trivial
  cases hrun : (Prog.seq (Prog.tensor (Prog.seq (Prog.init 2) [.h 0, .cnot 0 1]) (Prog.seq (Prog.init 1) [.meas 0 true]))
      [.swap 0 2, .ptrace [0, 1] [true]]).run with
  | error e =>
    exfalso
    have : (match (Prog.seq (Prog.tensor (Prog.seq (Prog.init 2) [.h 0, .cnot 0 1]) (Prog.seq (Prog.init 1) [.meas 0 true]))
      [.swap 0 2, .ptrace [0, 1] [true]]).run with | .ok _ => true | .error _ => false) = true := by decide +kernel
    rw [hrun] at this; cases this
  | ok t => exact ⟨t, rfl, (program_tracks_density _ t hw hrun).2.2⟩

/-! ### 7.8 the density-matrix semantics is a semantics of quantum operations -/

open scoped ComplexOrder in
/-- **`dOp` maps density matrices to density matrices** — on *every* positive semidefinite matrix of trace one, not only on
    stabilizer states, every in-range API call (`OpInB`: the Python's `assert`s, control ≠ target) returns a positive
    semidefinite matrix of trace one; so do histories and `tensor`.  (A check of the projectors and normalisations in the
    definitions of `dOp`, independent of the tableau model.) -/
theorem api_semantics_is_quantum_operation (op : Tab.Op) (ops : List Tab.Op) (s s' : DState) (hs : IsDensity s)
    (hs' : IsDensity s') :
    (OpInB s.n op → IsDensity (dOp op s)) ∧ (OpsInB ops s → IsDensity (dOps ops s)) ∧ IsDensity (dTensor s s') ∧
    (IsDensity s ↔ s.ρ.PosSemidef ∧ Matrix.trace s.ρ = 1) :=
  ⟨dOp_isDensity op s hs, dOps_isDensity ops s hs, dTensor_isDensity s s' hs hs', Iff.rfl⟩

/-- the state of every valid tableau is a density matrix, so the theorem applies along every history -/
example : IsDensity (dstate ghz3) :=
  ⟨(stabilizer_state_is_pure ghz3 ghz3_valid).2.2.2, (stabilizer_state_is_pure ghz3 ghz3_valid).1⟩

/-! ### 7.9 the tableau describes the state faithfully -/

/-- **Pauli expectation values**: in the state of a valid Clifford tableau a real Pauli `g` has expectation value
    `tr(g ρ) = +1` if `g` is in the stabilizer group, `−1` if `−g` is, and `0` otherwise -/
theorem pauli_expectation_values (t : Tab) (hv : t.Valid) (hr : t.StabReal) (g : PRow) (hg : g.ip = false) :
    (Grp t g → Matrix.trace (pauliMat t.n g * rho t.n (STab.ofTab t)) = 1) ∧
    (Grp t (negate g) → Matrix.trace (pauliMat t.n g * rho t.n (STab.ofTab t)) = -1) ∧
    (¬ Grp t g → ¬ Grp t (negate g) → Matrix.trace (pauliMat t.n g * rho t.n (STab.ofTab t)) = 0) :=
  pauli_expectation t hv hr g hg

/-- **The density matrix and the signed stabilizer group determine each other**: two valid tableaux on the same number of
    qubits have the same density matrix iff they have the same stabilizer group.  (`⇐` is gauge independence; `⇒` says
    that the group-level refinement `history_tracks_state` loses nothing: tableaux with different groups are different
    states.)  And if some `P` lies in one group while `−P` lies in the other, the states are orthogonal. -/
theorem stabilizer_state_determines_group (n : Nat) (a b : Tab) (ha : a.n = n) (hb : b.n = n) (va : a.Valid)
    (ra : a.StabReal) (vb : b.Valid) (rb : b.StabReal) :
    (rho n (STab.ofTab a) = rho n (STab.ofTab b) ↔ ∀ P, Grp a P ↔ Grp b P) ∧
    (∀ P, Grp a P → Grp b (negate P) → rho n (STab.ofTab a) * rho n (STab.ofTab b) = 0) :=
  ⟨rho_eq_iff_grp_eq n a b ha hb va ra vb rb, fun P => rho_mul_eq_zero_of_orth n a b ha hb va ra vb rb P⟩

/-- `|00⟩` and `|11⟩`: `Z₀` is in one group, `−Z₀` in the other — orthogonal states -/
example : rho 2 (STab.ofTab (Tab.ket0 2)) * rho 2 (STab.ofTab (Tab.ket1 2)) = 0 :=
  (stabilizer_state_determines_group 2 (Tab.ket0 2) (Tab.ket1 2) rfl rfl (ket0_is_valid 2) (ket0_stabReal 2)
    ((isSymplectic_iff_valid _).mp (by decide)) (stabRealB_spec _ (by decide))).2 (Zq 0)
    (grp_gen (Tab.ket0 2) 0 (by decide)) (grp_gen (Tab.ket1 2) 0 (by decide))

/-- **The overlap of two stabilizer states.**  (Compare `C05.fidelity_is_state_overlap` / `fidelity_is_squared_inner_product`,
    proved independently through the synthesised inverse circuit: they evaluate `tr(ρ_a ρ_b)` as the value *returned by the
    model of `inner_product`*; the theorem here evaluates it in terms of the two *groups* — `Orth`, `commonCount`,
    `OverlapDim`, the gauge-independent specification — by averaging over the group, with no reference to the algorithm.)  `A`, `B` the stabilizer halves of two valid tableaux on `n` qubits:
    * `Orth A B` (some `P ∈ A` with `−P ∈ B`) ⇒ `tr(ρ_a ρ_b) = 0`;
    * otherwise `tr(ρ_a ρ_b) = commonCount A B / 2^n` — the brute-force executable specification of
      `Model/OverlapSpec.lean` (the quantity the C05 harness compares with graphiq's `fidelity`) is the Hilbert-space overlap;
    * otherwise, with `d` the rank of the common subgroup (`OverlapDim`, the `n − e` of `inner_product_exponent_partial`):
      `d ≤ n` and `tr(ρ_a ρ_b) = 2^{-(n-d)}`;
    * for kets `ρ_a = |ψ⟩⟨ψ|`, `ρ_b = |φ⟩⟨φ|` (which exist, `stabilizer_state_is_ket`): `tr(ρ_a ρ_b) = |⟨ψ|φ⟩|²`. -/
theorem stabilizer_state_overlap (a b : Tab) (hn : a.n = b.n) (va : a.Valid) (ra : a.StabReal) (vb : b.Valid)
    (rb : b.StabReal) :
    (STab.Orth (STab.ofTab a) (STab.ofTab b) → Matrix.trace (rho b.n (STab.ofTab a) * rho b.n (STab.ofTab b)) = 0) ∧
    (¬ STab.Orth (STab.ofTab a) (STab.ofTab b) →
      Matrix.trace (rho b.n (STab.ofTab a) * rho b.n (STab.ofTab b))
        = ((STab.ofTab a).commonCount (STab.ofTab b) : ℂ) / 2 ^ b.n) ∧
    (∀ d, ¬ STab.Orth (STab.ofTab a) (STab.ofTab b) → STab.OverlapDim (STab.ofTab a) (STab.ofTab b) d →
      d ≤ b.n ∧ Matrix.trace (rho b.n (STab.ofTab a) * rho b.n (STab.ofTab b)) = (1 / 2 : ℂ) ^ (b.n - d)) ∧
    (∀ ψ φ : Bits b.n → ℂ, rho b.n (STab.ofTab a) = Matrix.vecMulVec ψ (star ψ) →
      rho b.n (STab.ofTab b) = Matrix.vecMulVec φ (star φ) →
      Matrix.trace (rho b.n (STab.ofTab a) * rho b.n (STab.ofTab b)) = ((Complex.normSq (star ψ ⬝ᵥ φ) : ℝ) : ℂ)) :=
  ⟨(stabilizer_overlap a b hn va ra vb rb).1, (stabilizer_overlap a b hn va ra vb rb).2,
   fun d hno hd => stabilizer_overlap_dim a b hn va ra vb rb d hno hd,
   fun ψ φ h1 h2 => by rw [h1, h2]; exact trace_ket_overlap ψ φ⟩

/-- the product-of-projectors form of the state is the normalised sum over the stabilizer group:
    `∏_{i<k} (1 + P_i)/2 = 2^{-k} Σ_{S ⊆ {0..k-1}} ∏_{i∈S} P_i` for commuting real generators -/
theorem stabilizer_state_is_group_average (t : Tab) (hv : t.Valid) :
    rho t.n (STab.ofTab t)
      = (1 / 2 : ℂ) ^ t.n • ∑ m ∈ Finset.range (2 ^ t.n), pauliMat t.n (STab.mprod t.n (STab.ofTab t).row m t.n) :=
  rhoTo_mask_sum t.n _ t.n (ofTab_good t hv).goodTo

/-- Bell pair vs `|00⟩`: not orthogonal, common subgroup `{1, ZZ}` of rank 1, overlap `2^{-(2-1)} = ½` -/
example : Matrix.trace (rho 2 (STab.ofTab bell) * rho 2 (STab.ofTab (Tab.ket0 2)))
    = ((STab.ofTab bell).commonCount (STab.ofTab (Tab.ket0 2)) : ℂ) / 2 ^ 2 ∧
    (STab.ofTab bell).commonCount (STab.ofTab (Tab.ket0 2)) = 2 := by
  have hno : ¬ STab.Orth (STab.ofTab bell) (STab.ofTab (Tab.ket0 2)) := by
    rw [← STab.orthB_iff _ _ (ofTab_good bell bell_valid) (ofTab_good _ (ket0_is_valid 2)) rfl]
    decide
  exact ⟨(stabilizer_state_overlap bell (Tab.ket0 2) rfl bell_valid bell_real (ket0_is_valid 2) (ket0_stabReal 2)).2.1 hno,
    by decide⟩

/-! ### 7.10 the reduced state of an arbitrary stabilizer state -/

/-- **The reduced state of a stabilizer state, without any product assumption** (Fattal–Cubitt–Yamamoto–Bravyi–Chuang).
    Valid tableau on `n = m + |rem|` qubits, `rem` the (descending) list of traced-out sites, `c_0 … c_{k-1}` an independent
    generating set of the stabilizers that act as the identity on `rem` (`IsLocalBasis`).  Then
    `Tr_rem ρ = (2^k / 2^m) · Π` with `Π = ∏_{i<k} (1 + c_i|_kept)/2` an orthogonal projector: the reduced state is maximally
    mixed on the subspace stabilized by the restricted subgroup, `σ² = (2^k/2^m) σ`, purity `tr σ² = 2^{-(m-k)}` — the
    entanglement entropy of the cut is `m − k` bits (the quantity behind the height function of C03; `k = m` is the
    product-factor case of `partial_trace_factor_is_partial_trace`).  A local basis always exists, with
    `k = dim_GF(2) (G ∩ {trivial on rem})`: the unconditional form is `C03.reduced_state_has_flat_spectrum`, and
    `C03.height_is_entanglement_entropy` identifies graphiq's height function with this entropy. -/
theorem reduced_state_of_stabilizer_state (m : Nat) (t : Tab) (rem : List Nat) (hn : t.n = m + rem.length)
    (hv : t.Valid) (hr : t.StabReal) (hpw : rem.Pairwise (· > ·)) (hlt : ∀ q, q ∈ rem → q < t.n) (k : Nat)
    (c : Nat → PRow) (hb : IsLocalBasis t rem k c) :
    ptraceList rem (rho (m + rem.length) (STab.ofTab t))
      = ((2 : ℂ) ^ k / 2 ^ m) • rhoTo m (fun i => delCols rem (c i)) k ∧
    rhoTo m (fun i => delCols rem (c i)) k * rhoTo m (fun i => delCols rem (c i)) k
      = rhoTo m (fun i => delCols rem (c i)) k ∧
    (rhoTo m (fun i => delCols rem (c i)) k)ᴴ = rhoTo m (fun i => delCols rem (c i)) k ∧
    ptraceList rem (rho (m + rem.length) (STab.ofTab t)) * ptraceList rem (rho (m + rem.length) (STab.ofTab t))
      = ((2 : ℂ) ^ k / 2 ^ m) • ptraceList rem (rho (m + rem.length) (STab.ofTab t)) ∧
    Matrix.trace (ptraceList rem (rho (m + rem.length) (STab.ofTab t))
        * ptraceList rem (rho (m + rem.length) (STab.ofTab t))) = (2 : ℂ) ^ k / 2 ^ m :=
  reduced_state_eq_proj m t rem hn hv hr hpw hlt k c hb

open Classical in
/-- the partial trace of a Pauli matrix: `2^{|rem|}` times the restricted Pauli if it acts as the identity on `rem`, else 0 -/
theorem partial_trace_of_pauli {m : Nat} (rem : List Nat) (hpw : rem.Pairwise (· > ·))
    (hlt : ∀ q, q ∈ rem → q < m + rem.length) (P : PRow) :
    ptraceList rem (pauliMat (m + rem.length) P)
      = (if IdOn rem P then (2 : ℂ) ^ rem.length else 0) • pauliMat m (delCols rem P) :=
  ptraceList_pauli rem hpw hlt P

/-- Bell pair, qubit 1 traced out: no non-trivial stabilizer is supported on qubit 0 (`k = 0`), so the reduced state is
    `(2^0/2^1)·1` — one bit of entanglement entropy -/
example : IsLocalBasis bell [1] 0 (fun _ => PRow.one) := by
  refine ⟨fun i hi => absurd hi (Nat.not_lt_zero _), fun i hi => absurd hi (Nat.not_lt_zero _),
    fun _ _ i hi => absurd hi (Nat.not_lt_zero _), ?_⟩
  intro g hg hid
  refine ⟨fun _ => false, ?_⟩
  show EqOn 2 g PRow.one
  obtain ⟨s, hs, e⟩ := (STab.spn_iff_mask (STab.ofTab bell) (ofTab_good bell bell_valid) g).1
    ((spn_of_grp bell bell_real g).mp hg)
  have hs' : s < 4 := hs
  have h1 := hid 1 List.mem_cons_self
  have ex := (e.1 1 (by decide)).1
  have ez := (e.1 1 (by decide)).2
  rw [h1.1] at ex
  rw [h1.2] at ez
  interval_cases s
  · exact e.trans (eqOn_check 2 _ _ (by decide))
  · first | exact absurd ex (by decide) | exact absurd ez (by decide)
  · first | exact absurd ex (by decide) | exact absurd ez (by decide)
  · first | exact absurd ex (by decide) | exact absurd ez (by decide)

/-! ### 7.11 the Born rule along every history -/

/-- **Born rule for one measurement**: on a valid tableau the outcome that `z_measurement_gate` reports (the forced / drawn
    `o` when the measurement is random, the determined one otherwise) has Born probability `tr(Π ρ) = ½` resp. `1`; the other
    outcome has probability `½` resp. `0` -/
theorem born_rule_measurement (t : Tab) (q : Nat) (o : Bool) (hq : q < t.n) (hv : t.Valid) (hr : t.StabReal) :
    measProb t.n q o (rho t.n (STab.ofTab t)) = (1 / 2 : ℂ) ^ randBit t q ∧
    measProb t.n q o (rho t.n (STab.ofTab t))
      = Matrix.trace (proj t.n (Zq q (t.zMeasure q o).2.1) * rho t.n (STab.ofTab t)) ∧
    (randBit t q = if (t.pivot q).isSome then 1 else 0) := by
  refine ⟨measProb_tab t q o hq hv hr, ?_, rfl⟩
  unfold measProb
  rw [(meas_density t q o hq hv hr).1]

/-- **Born rule for every outcome script.**  The stabilizer simulator draws the outcome of a random measurement uniformly, so
    it produces a given outcome script with probability `2^{-#random measurements}` (`randOps`, counted along the run: explicit
    measurements, resets, removals, and the removals inside partial traces).  `dProbOps` is the Born probability of that
    script: the product over the same measurements of `tr(Π ρ)` for the outcome that occurs, on the density matrix reached so
    far (`dOps`).  They are equal along every accepted history from every valid tableau. -/
theorem born_rule_history (ops : List Tab.Op) (hops : ∀ op ∈ ops, WF op) :
    ∀ (t t' : Tab), t.Valid → t.StabReal → t.runOps ops = .ok t' →
      dProbOps ops (dstate t) = (1 / 2 : ℂ) ^ randOps t ops := by
  induction ops with
  | nil => intro t t' _ _ _; simp [dProbOps, randOps]
  | cons op rest ih =>
    intro t t' hv hr h
    simp only [runOps] at h
    split at h
    · next t1 out h1 =>
      have hop := hops op List.mem_cons_self
      have v1 := op_preserves_valid t t1 op out hop hv h1
      have r1 := (op_tracks_state t t1 op out hop hv hr h1).1
      have d1 := op_tracks_density_matrix t t1 op out hop hv hr h1
      have b1 := op_born t t1 op out hv hr h1
      have ihh := ih (fun o ho => hops o (List.mem_cons_of_mem _ ho)) t1 t' v1 r1 h
      show dProbOp op (dstate t) * dProbOps rest (dOp op (dstate t)) = (1 / 2 : ℂ) ^ (randOp t op +
        match t.applyOp op with
        | .ok (t', _) => randOps t' rest
        | .error _ => 0)
      rw [h1, b1, ← d1, ihh, pow_add]
    · simp at h

/-- GHZ₃: measure qubit 0 (random), then qubit 1 (now deterministic): the script has Born probability `½ · 1` -/
example : dProbOps [.meas 0 true, .meas 1 true] (dstate ghz3) = (1 / 2 : ℂ) ^ randOps ghz3 [.meas 0 true, .meas 1 true] ∧
    randOps ghz3 [.meas 0 true, .meas 1 true] = 1 := by
  refine ⟨?_, by decide⟩
  have hwf : ∀ op ∈ ([.meas 0 true, .meas 1 true] : List Tab.Op), WF op := by
    intro op hop
    simp only [List.mem_cons, List.mem_nil_iff, or_false] at hop
    rcases hop with rfl | rfl <;> trivial
  cases hrun : ghz3.runOps [.meas 0 true, .meas 1 true] with
  | error e =>
    exfalso
    have : (match ghz3.runOps [.meas 0 true, .meas 1 true] with | .ok _ => true | .error _ => false) = true := by
      decide +kernel
    rw [hrun] at this; cases this
  | ok t' => exact born_rule_history _ hwf ghz3 t' ghz3_valid ghz3_stabReal hrun

/-! ### 7.12 X / Y measurements: `measure_x`, `measure_y`, `x_measurement_gate`, `Stabilizer.apply_x_measurement`

  Defects D52 / D53 (found while extending the Hilbert-space reading, repaired in `/repo`): before the repair `measure_x` /
  `measure_y` applied their change of basis to the caller's tableau in place and never undid it, and
  `Stabilizer.apply_x_measurement` called a function `x_measurement_gate` that did not exist.  The first two theorems below are
  about a transcription of the OLD code (`measXCoded`, `Proofs/HilbertDimMeasXY.lean`) and document the defect; reverting the
  repair makes the harness report `state:measure_x:wrong-state`.  The model of the repaired code is `Tab.measX` / `Tab.measY` /
  `Tab.applyOpX` (`Model/Tableau.lean`), compared with the implementation on every run (driver tokens `measx`, `measy`,
  `xmeas`), and the remaining theorems are about it. -/

/-- **what `measure_x` did before the repair D52**: the reported outcome `s` is the X-measurement outcome, but the tableau left behind is
    `H · (Π_X ρ Π_X / tr(Π_X ρ)) · H†` — the post-measurement state conjugated by a Hadamard that is never undone (the qubit
    is left in `|0⟩/|1⟩` instead of `|+⟩/|−⟩`) -/
theorem measure_x_as_coded_leaves_a_hadamard (t : Tab) (q : Nat) (o : Bool) (hq : q < t.n) (hv : t.Valid)
    (hr : t.StabReal) :
    rho t.n (STab.ofTab (measXCoded t q o).1)
      = gateMat t.n (.H q) * postMeasX t.n q (measXCoded t q o).2 (rho t.n (STab.ofTab t)) * (gateMat t.n (.H q))ᴴ ∧
    (measXCoded t q o).2
      = measOutcome t.n q o (gateMat t.n (.H q) * rho t.n (STab.ofTab t) * (gateMat t.n (.H q))ᴴ) ∧
    (measXCoded t q o).1 = ((t.hGate q).zMeasure q o).1 :=
  ⟨(measXCoded_density t q o hq hv hr).1, (measXCoded_density t q o hq hv hr).2, rfl⟩

/-- **refutation witness for the old code** (kernel-checked): on `|++⟩` the X-measurement of qubit 0 is deterministic
    (outcome 0), so the state must not change; after the old `measure_x` the tableau has the generator `Z₀` instead of `X₀` and its density
    matrix differs from the input's -/
theorem measure_x_refuted (o : Bool) :
    ((Tab.plus 2).hGate 0).pivot 0 = none ∧ (measXCoded (Tab.plus 2) 0 o).2 = false ∧
    Grp (measXCoded (Tab.plus 2) 0 o).1 (Zq 0) ∧ Grp (Tab.plus 2) (Xq 0) ∧
    rho 2 (STab.ofTab (measXCoded (Tab.plus 2) 0 o).1) ≠ rho 2 (STab.ofTab (Tab.plus 2)) :=
  measX_plus_witness o

/-- side condition for the extended API -/
def WFX : Tab.OpX → Prop
  | .base op => WF op
  | .cy c t => c ≠ t
  | _ => True

theorem wfx_desugar (n : Nat) (x : Tab.OpX) (hw : WFX x) : ∀ op ∈ x.desugar n, WF op := by
  intro op hox
  cases x with
  | base b =>
    simp only [Tab.OpX.desugar, List.mem_cons, List.mem_nil_iff, or_false] at hox
    rw [hox]; exact hw
  | measX q o =>
    simp only [Tab.OpX.desugar, List.mem_cons, List.mem_nil_iff, or_false] at hox
    rcases hox with rfl | rfl | rfl <;> trivial
  | xMeasGate q o =>
    simp only [Tab.OpX.desugar, List.mem_cons, List.mem_nil_iff, or_false] at hox
    rcases hox with rfl | rfl | rfl <;> trivial
  | measY q o =>
    simp only [Tab.OpX.desugar, List.mem_cons, List.mem_nil_iff, or_false] at hox
    rcases hox with rfl | rfl | rfl | rfl | rfl <;> trivial
  | cy c t =>
    simp only [Tab.OpX.desugar, List.mem_cons, List.mem_nil_iff, or_false] at hox
    rcases hox with rfl | rfl | rfl | rfl
    · trivial
    · trivial
    · exact hw
    · trivial
  | traceOut pos os =>
    simp only [Tab.OpX.desugar, List.mem_cons, List.mem_nil_iff, or_false] at hox
    rw [hox]; trivial

/-- **`measure_x` / `x_measurement_gate` / `Stabilizer.apply_x_measurement` (repaired), group level and Hilbert level.**
    The call is `hadamard_gate; z_measurement_gate; hadamard_gate`; the result is valid with real stabilizer rows on the same
    qubits; its stabilizer group is the abstract semantics of these three operations applied to the old group; its density
    matrix is the normalised projection `Π^X_s ρ Π^X_s / tr(Π^X_s ρ)` on the eigenvalue `(-1)^s` of `X_q`, `s` the reported
    outcome — the forced / drawn `o` unless `tr(Π^X_o ρ) = 0`. -/
theorem measure_x_spec (t : Tab) (q : Nat) (o : Bool) (hq : q < t.n) (hv : t.Valid) (hr : t.StabReal) :
    (t.measX q o).1.Valid ∧ (t.measX q o).1.StabReal ∧ (t.measX q o).1.n = t.n ∧
    gstate (t.measX q o).1 = specOps [.h q, .meas q o, .h q] (gstate t) ∧
    rho t.n (STab.ofTab (t.measX q o).1)
      = (Matrix.trace (proj t.n (Xq q (t.measX q o).2.1) * rho t.n (STab.ofTab t)))⁻¹ •
          (proj t.n (Xq q (t.measX q o).2.1) * rho t.n (STab.ofTab t) * proj t.n (Xq q (t.measX q o).2.1)) ∧
    ((t.measX q o).2.1 = if Matrix.trace (proj t.n (Xq q o) * rho t.n (STab.ofTab t)) = 0 then !o else o) ∧
    t.applyOpX (.measX q o) = t.applyOpX (.xMeasGate q o) := by
  obtain ⟨h1, h2, h3, h4, h5⟩ := rho_measX t q o hq hv hr
  have hrun : t.runOps [.h q, .meas q o, .h q] = .ok (t.measX q o).1 := by
    have := applyOpX_runOps t (.measX q o)
    simp only [Tab.applyOpX, hq, if_true, Tab.OpX.desugar] at this
    exact this.symm
  have hst := history_tracks_state [.h q, .meas q o, .h q] (by
    intro op hop
    simp only [List.mem_cons, List.mem_nil_iff, or_false] at hop
    rcases hop with rfl | rfl | rfl <;> trivial) t _ hv hr hrun
  exact ⟨h3, h4, h5, hst.2.2, h1, h2, rfl⟩

/-- **`measure_y` (repaired)**: `phase_dagger_gate; hadamard_gate; z_measurement_gate; hadamard_gate; phase_gate` is the
    projective measurement of `Y_q` -/
theorem measure_y_spec (t : Tab) (q : Nat) (o : Bool) (hq : q < t.n) (hv : t.Valid) (hr : t.StabReal) :
    (t.measY q o).1.Valid ∧ (t.measY q o).1.StabReal ∧ (t.measY q o).1.n = t.n ∧
    gstate (t.measY q o).1 = specOps [.sdg q, .h q, .meas q o, .h q, .s q] (gstate t) ∧
    rho t.n (STab.ofTab (t.measY q o).1)
      = (Matrix.trace (proj t.n (Yrow q (t.measY q o).2.1) * rho t.n (STab.ofTab t)))⁻¹ •
          (proj t.n (Yrow q (t.measY q o).2.1) * rho t.n (STab.ofTab t) * proj t.n (Yrow q (t.measY q o).2.1)) ∧
    ((t.measY q o).2.1 = if Matrix.trace (proj t.n (Yrow q o) * rho t.n (STab.ofTab t)) = 0 then !o else o) := by
  obtain ⟨h1, h2, h3, h4, h5⟩ := rho_measY t q o hq hv hr
  have hrun : t.runOps [.sdg q, .h q, .meas q o, .h q, .s q] = .ok (t.measY q o).1 := by
    have := applyOpX_runOps t (.measY q o)
    simp only [Tab.applyOpX, hq, if_true, Tab.OpX.desugar] at this
    exact this.symm
  have hst := history_tracks_state [.sdg q, .h q, .meas q o, .h q, .s q] (by
    intro op hop
    simp only [List.mem_cons, List.mem_nil_iff, or_false] at hop
    rcases hop with rfl | rfl | rfl | rfl | rfl <;> trivial) t _ hv hr hrun
  exact ⟨h3, h4, h5, hst.2.2, h1, h2⟩

/-- **History theorems for the extended API** (`Tab.OpX`: the base operations, `measure_x` / `x_measurement_gate`,
    `measure_y`, `control_y_gate`, the wrappers' `trace_out_qubits`; `Tab.runOpsX`).  Every extended call is the history of its
    base operations (`OpX.desugar`, on the current number of qubits), so along every accepted extended history: the tableau
    stays valid with real stabilizer rows; its group is `specOpsX` (the abstract group semantics of the desugared calls, step
    by step) of the initial group; its density matrix is `dOpsX` of the initial density matrix; and the Born probability of the
    outcome script is `2^{-#random measurements}`. -/
theorem history_extended_api (xs : List Tab.OpX) (hxs : ∀ x ∈ xs, WFX x) :
    ∀ (t t' : Tab), t.Valid → t.StabReal → t.runOpsX xs = .ok t' →
      t'.Valid ∧ t'.StabReal ∧ gstate t' = specOpsX xs (gstate t) ∧ dstate t' = dOpsX xs (dstate t) ∧
      dProbOpsX xs (dstate t) = (1 / 2 : ℂ) ^ randOpsX t xs := by
  induction xs with
  | nil =>
    intro t t' hv hr h
    simp only [Tab.runOpsX, Except.ok.injEq] at h
    subst h
    exact ⟨hv, hr, rfl, rfl, by simp [dProbOpsX, randOpsX]⟩
  | cons x rest ih =>
    intro t t' hv hr h
    simp only [Tab.runOpsX] at h
    cases hx : t.applyOpX x with
    | error e => rw [hx] at h; cases h
    | ok r =>
      rw [hx] at h
      have hrun : t.runOps (x.desugar t.n) = .ok r.1 := by
        have := applyOpX_runOps t x
        rw [hx] at this
        exact this.symm
      have hw := wfx_desugar t.n x (hxs x List.mem_cons_self)
      obtain ⟨v1, r1, g1⟩ := history_tracks_state _ hw t r.1 hv hr hrun
      have d1 := history_tracks_density _ hw t r.1 hv hr hrun
      have b1 := born_rule_history _ hw t r.1 hv hr hrun
      obtain ⟨v', r', g', d', b'⟩ := ih (fun y hy => hxs y (List.mem_cons_of_mem _ hy)) r.1 t' v1 r1 h
      refine ⟨v', r', ?_, ?_, ?_⟩
      · rw [g', g1]; rfl
      · rw [d', d1]; rfl
      · show dProbOps (x.desugar t.n) (dstate t) * dProbOpsX rest (dOps (x.desugar t.n) (dstate t))
          = (1 / 2 : ℂ) ^ (randOps t (x.desugar t.n) + match t.applyOpX x with
            | .ok (t', _) => randOpsX t' rest
            | .error _ => 0)
        rw [hx, b1, ← d1, b', pow_add]

/-- GHZ₃: `measure_x` (random), `measure_y`, `x_measurement_gate`, `control_y_gate`, `trace_out_qubits([1])` — accepted -/
example : (match ghz3.runOpsX [.measX 0 true, .measY 1 false, .xMeasGate 2 true, .cy 0 2, .traceOut [1] [true]] with
    | .ok t' => t'.n == 2 && t'.isSymplectic | .error _ => false) = true := by decide +kernel

/-! ### 7.13 `trace_out_qubits` (state.py wrappers, defect D54 repaired) and `tensor` of a whole list -/

/-- **`Stabilizer.trace_out_qubits` / `MixedStabilizer.trace_out_qubits` (repaired D54: `keep` = the qubits NOT listed).**
    The call is `partial_trace` onto the complement: the qubits removed are exactly the listed ones (highest first); the
    result is valid; its group / density matrix are the partial-trace semantics of §4b.8 / §7.5 for `keep` = complement; and
    if every listed qubit is unentangled the result is the reduced state of the others, `Tr_{listed} ρ`, whatever the
    outcome script.  (Before the repair the wrappers passed the listed qubits as `keep`: harness key
    `state:trace_out_qubits:wrong-state`.) -/
theorem trace_out_qubits_spec (t t' : Tab) (pos : List Nat) (os : List Bool) (hv : t.Valid) (hr : t.StabReal)
    (h : t.traceOutQubits pos os = .ok t') :
    t.traceOutQubits pos os = t.partialTrace ((List.range t.n).filter fun q => !pos.contains q) os ∧
    t'.Valid ∧ t'.StabReal ∧
    (∀ q, q ∈ removalList t.n ((List.range t.n).filter fun q => !pos.contains q) ↔ q < t.n ∧ q ∈ pos) ∧
    gstate t' = specPtrace ((List.range t.n).filter fun q => !pos.contains q) os (gstate t) ∧
    dstate t' = dPtrace ((List.range t.n).filter fun q => !pos.contains q) os (dstate t) ∧
    ((∀ q, q < t.n → q ∈ pos → Unentangled t q) →
      ∀ m, t.n = m + (removalList t.n ((List.range t.n).filter fun q => !pos.contains q)).length →
        rho m (STab.ofTab t')
          = ptraceList (removalList t.n ((List.range t.n).filter fun q => !pos.contains q))
              (rho (m + (removalList t.n ((List.range t.n).filter fun q => !pos.contains q)).length) (STab.ofTab t))) := by
  have hpt : t.partialTrace ((List.range t.n).filter fun q => !pos.contains q) os = .ok t' := h
  have happ : t.applyOp (.ptrace ((List.range t.n).filter fun q => !pos.contains q) os) = .ok (t', none) := by
    simp only [Tab.applyOp, hpt]
  have hmem : ∀ q, q ∈ removalList t.n ((List.range t.n).filter fun q => !pos.contains q) ↔ q < t.n ∧ q ∈ pos := by
    intro q
    rw [mem_removalList]
    simp only [List.mem_filter, List.mem_range, Bool.not_eq_true', List.contains_eq_mem, decide_eq_false_iff_not,
      not_and, not_not]
    constructor
    · rintro ⟨h1, h2⟩; exact ⟨h1, h2 h1⟩
    · rintro ⟨h1, h2⟩; exact ⟨h1, fun _ => h2⟩
  have hwf : WF (.ptrace ((List.range t.n).filter fun q => !pos.contains q) os) := trivial
  obtain ⟨r', g⟩ := op_tracks_state t t' _ none hwf hv hr happ
  refine ⟨rfl, op_preserves_valid t t' _ none hwf hv happ, r', hmem, g,
    op_tracks_density_matrix t t' _ none hwf hv hr happ, ?_⟩
  intro hu m hm
  exact partial_trace_product_is_partial_trace m t t' _ os hm hv hr
    (fun q hq hnk => hu q hq (by
      by_contra hnp
      exact hnk (by
        simp only [List.mem_filter, List.mem_range, Bool.not_eq_true', List.contains_eq_mem, decide_eq_false_iff_not]
        exact ⟨hq, hnp⟩))) hpt

/-- `|100⟩`, trace out qubit 0 (the repro of D54): accepted, one qubit is removed -/
example : (match (Tab.ket1 3).traceOutQubits [0] [false] with | .ok t' => t'.n == 2 && t'.isSymplectic | .error _ => false)
    = true := by decide +kernel

/-- **`tensor(list_of_tables)` for a whole list**: the list is folded into its first element by the two-factor step
    (`tensor_spec`, `tensor_valid`), so with every factor valid the result is valid, has the sum of the qubit numbers, and its
    density matrix is the iterated Kronecker product in list order -/
theorem tensor_list_spec (t : Tab) (ts : List Tab) :
    Tab.tensorList t [] = t ∧
    (∀ b, Tab.tensorList t (ts ++ [b]) = Tab.tensor2 (Tab.tensorList t ts) b) ∧
    (t.Valid → (∀ b ∈ ts, b.Valid) → (Tab.tensorList t ts).Valid) ∧
    (Tab.tensorList t ts).n = t.n + (ts.map Tab.n).sum ∧
    dstate (Tab.tensorList t ts) = (ts.map dstate).foldl dTensor (dstate t) := by
  refine ⟨rfl, fun b => by simp [Tab.tensorList, List.foldl_append], ?_, ?_, dstate_tensorL t ts⟩
  · intro hv hall
    induction ts generalizing t with
    | nil => exact hv
    | cons a rest ih =>
      exact ih (Tab.tensor2 t a) (tensor_valid t a hv (hall a List.mem_cons_self))
        (fun b hb => hall b (List.mem_cons_of_mem _ hb))
  · induction ts generalizing t with
    | nil => simp [Tab.tensorList]
    | cons a rest ih =>
      show (Tab.tensorList (Tab.tensor2 t a) rest).n = _
      rw [ih]
      show t.n + a.n + _ = _
      simp only [List.map_cons, List.sum_cons]
      omega

/-- **`control_y_gate`** (transformation.py; `phase_gate; z_gate; cnot_gate; phase_gate` on the target): it is the history of
    these four base operations, keeps the tableau valid, and on density matrices it is conjugation by the controlled-Y unitary
    `get_two_qubit_controlled_gate(n, c, t, sigmay())`, which is the product of the four gate unitaries -/
theorem control_y_gate_spec (t : Tab) (c tg : Nat) (hc : c < t.n) (ht : tg < t.n) (hct : c ≠ tg) (hv : t.Valid)
    (hr : t.StabReal) :
    t.runOps [.s tg, .z tg, .cnot c tg, .s tg] = .ok (t.cyGate c tg) ∧
    (t.cyGate c tg).Valid ∧ (t.cyGate c tg).StabReal ∧
    gateMat t.n (.P tg) * gateMat t.n (.CNOT c tg) * gateMat t.n (.Z tg) * gateMat t.n (.P tg) = ctrlQ t.n c tg sigmaY ∧
    rho t.n (STab.ofTab (t.cyGate c tg))
      = ctrlQ t.n c tg sigmaY * rho t.n (STab.ofTab t) * (ctrlQ t.n c tg sigmaY)ᴴ := by
  have hrun : t.runOps [.s tg, .z tg, .cnot c tg, .s tg] = .ok (t.cyGate c tg) := by
    have h1 : tg < (t.sGate tg).n := ht
    have h2 : c < ((t.sGate tg).zGate tg).n ∧ tg < ((t.sGate tg).zGate tg).n := ⟨hc, ht⟩
    have h3 : tg < (((t.sGate tg).zGate tg).cnotGate c tg).n := ht
    simp only [Tab.runOps, Tab.applyOp, ht, h1, h2, h3, if_true, and_self, Tab.cyGate]
  have hst := history_tracks_state [.s tg, .z tg, .cnot c tg, .s tg] (by
    intro op hop
    simp only [List.mem_cons, List.mem_nil_iff, or_false] at hop
    rcases hop with rfl | rfl | rfl | rfl
    · trivial
    · trivial
    · exact hct
    · trivial) t _ hv hr hrun
  exact ⟨hrun, hst.1, hst.2.1, control_y_unitary t.n c tg hc ht hct, rho_cyGate t c tg hc ht hct⟩

end Graphiq.C07
