/-
  C07 — a Clifford tableau stays valid and tracks the right state under any history.

  Property theorems only (helper lemmas live in Proofs/).  `Tab.Valid` is "binary and symplectic, every destabilizer
  paired to its stabilizer" (binary-ness is by type).  "Tracks the right state" is stated at the level of the Pauli
  group: a gate acts row-wise by a map that is an automorphism of the signed n-qubit Pauli group (it respects the signed
  product and the commutation form) and sends the one-site generators to their textbook images — an automorphism of
  the Pauli group is determined by the images of X_j, Z_j, so this pins the gate's action on every row, signs
  included, for every n.  (The identification of that group semantics with Hilbert-space semantics is the cited
  tensor-lifting fact of DESIGN §7; the correspondence run additionally checks it against a dense simulator, n ≤ 5.)
-/
import GraphiqModel.Proofs.Tableau
import GraphiqModel.Proofs.HilbertTab
import GraphiqModel.Proofs.HilbertKron
namespace Graphiq.C07
open Graphiq Graphiq.PRow Graphiq.Tab

/-! ## 1. Gates: automorphisms with the textbook generator images, for every n -/

/-- every elementary and derived gate of transformation.py acts row-wise as a Pauli-group automorphism
    (preserves commutation, respects the signed product, respects row equality) -/
theorem gate_is_pauli_automorphism (n q c t : Nat) (hq : q < n) (hc : c < n) (ht : t < n) (hct : c ≠ t) :
    IsAut n (PRow.h q) ∧ IsAut n (PRow.s q) ∧ IsAut n (PRow.sdg q) ∧ IsAut n (PRow.xg q) ∧
    IsAut n (PRow.yg q) ∧ IsAut n (PRow.zg q) ∧ IsAut n (PRow.cnot c t) ∧ IsAut n (PRow.cz c t) :=
  ⟨isAut_h n q hq, isAut_s n q hq, isAut_sdg n q hq, isAut_xg n q hq, isAut_yg n q hq, isAut_zg n q hq,
   isAut_cnot n c t hc ht hct, isAut_cz n c t hc ht hct⟩

/-- the Hermitian `Y_q` row (x = z = 1 at `q`) -/
def Yq (q : Nat) (sign : Bool := false) : PRow := ⟨fun j => decide (j = q), fun j => decide (j = q), sign, false⟩

/-- images of the one-site generators under the one-qubit gates, signs included (all n):
    H: X→Z, Z→X;  P: X→Y, Z→Z;  P†: X→−Y, Z→Z;  X: X→X, Z→−Z;  Y: X→−X, Z→−Z;  Z: X→−X, Z→Z;
    and a gate on `q` fixes the generators of every other site -/
theorem one_qubit_gate_generator_images (n q : Nat) :
    EqOn n (PRow.h q (Xq q)) (Zq q) ∧ EqOn n (PRow.h q (Zq q)) (Xq q) ∧
    EqOn n (PRow.s q (Xq q)) (Yq q) ∧ EqOn n (PRow.s q (Zq q)) (Zq q) ∧
    EqOn n (PRow.sdg q (Xq q)) (Yq q true) ∧ EqOn n (PRow.sdg q (Zq q)) (Zq q) ∧
    EqOn n (PRow.xg q (Xq q)) (Xq q) ∧ EqOn n (PRow.xg q (Zq q)) (Zq q true) ∧
    EqOn n (PRow.yg q (Xq q)) (Xq q true) ∧ EqOn n (PRow.yg q (Zq q)) (Zq q true) ∧
    EqOn n (PRow.zg q (Xq q)) (Xq q true) ∧ EqOn n (PRow.zg q (Zq q)) (Zq q) := by
  refine ⟨?_, ?_, ?_, ?_, ?_, ?_, ?_, ?_, ?_, ?_, ?_, ?_⟩ <;>
    (refine ⟨fun j _ => ?_, ?_, ?_⟩ <;>
      simp [PRow.h, PRow.s, PRow.sdg, PRow.xg, PRow.yg, PRow.zg, Xq, Zq, Yq] <;>
      (try (by_cases e : j = q <;> simp [e])))

theorem one_qubit_gate_fixes_other_sites (n q k : Nat) (hk : k ≠ q) (sg : Bool) :
    EqOn n (PRow.h q (Xq k sg)) (Xq k sg) ∧ EqOn n (PRow.h q (Zq k sg)) (Zq k sg) ∧
    EqOn n (PRow.s q (Xq k sg)) (Xq k sg) ∧ EqOn n (PRow.s q (Zq k sg)) (Zq k sg) := by
  have hqk : q ≠ k := Ne.symm hk
  refine ⟨?_, ?_, ?_, ?_⟩ <;>
    (refine ⟨fun j _ => ?_, ?_, ?_⟩ <;> simp [PRow.h, PRow.s, Xq, Zq, hqk] <;>
      (try (by_cases e : j = q <;> simp [e, hqk])))

/-- images of the generators under CNOT(c→t): X_c→X_cX_t, X_t→X_t, Z_c→Z_c, Z_t→Z_cZ_t (all signs +) -/
theorem cnot_generator_images (n c t : Nat) (hct : c ≠ t) :
    EqOn n (PRow.cnot c t (Xq c)) (PRow.mul n (Xq c) (Xq t)) ∧ EqOn n (PRow.cnot c t (Xq t)) (Xq t) ∧
    EqOn n (PRow.cnot c t (Zq c)) (Zq c) ∧ SameBits n (PRow.cnot c t (Zq t)) (PRow.mul n (Zq c) (Zq t)) ∧
    (PRow.cnot c t (Zq t)).r = false := by
  have htc : t ≠ c := Ne.symm hct
  refine ⟨?_, ?_, ?_, ?_, ?_⟩
  · apply eqOn_of
    · intro j _
      by_cases e1 : j = t
      · subst e1; simp [PRow.cnot, Xq, htc]
      · simp [PRow.cnot, Xq, e1]
    · rw [cnot_ph, mul_ph]
      have g0 : gSum n (Xq c) (Xq t) = 0 := by
        unfold gSum
        rw [sumTo_congr n _ (fun _ => 0)]
        · exact sumTo_zero n
        · intro j _
          by_cases e : j = c <;> simp [Xq, gFun, e, Bool.toInt', htc, hct]
      rw [g0]; simp [Xq, PRow.ph, Bool.toInt', htc]
  · refine ⟨fun j _ => ?_, ?_, ?_⟩
    · by_cases e1 : j = t
      · subst e1; simp [PRow.cnot, Xq, hct]
      · simp [PRow.cnot, Xq, e1]
    · simp [PRow.cnot, Xq, htc]
    · simp [PRow.cnot, Xq]
  · refine ⟨fun j _ => ?_, ?_, ?_⟩
    · by_cases e1 : j = c
      · subst e1; simp [PRow.cnot, Zq, htc]
      · simp [PRow.cnot, Zq, e1]
    · simp [PRow.cnot, Zq]
    · simp [PRow.cnot, Zq]
  · intro j _
    simp [PRow.cnot, Zq]
    by_cases e1 : j = c
    · subst e1; simp [hct]
    · simp [e1]
  · simp [PRow.cnot, Zq]

/-! ## 2. Validity is preserved by every operation of the API, hence by every history -/

/-- argument condition of the quantifier: control and target of a two-qubit gate are distinct -/
def WF : Tab.Op → Prop
  | .cnot c t => c ≠ t
  | .cz c t => c ≠ t
  | _ => True

theorem op_preserves_valid (t t' : Tab) (op : Tab.Op) (out : Option (Bool × Bool)) (hop : WF op)
    (hv : t.Valid) (h : t.applyOp op = .ok (t', out)) : t'.Valid := by
  cases op with
  | h q => simp only [applyOp] at h; split at h <;> simp at h; rw [← h.1]; exact hGate_valid t q (by assumption) hv
  | s q => simp only [applyOp] at h; split at h <;> simp at h; rw [← h.1]; exact sGate_valid t q (by assumption) hv
  | sdg q => simp only [applyOp] at h; split at h <;> simp at h; rw [← h.1]; exact sdgGate_valid t q (by assumption) hv
  | x q => simp only [applyOp] at h; split at h <;> simp at h; rw [← h.1]; exact xGate_valid t q (by assumption) hv
  | y q => simp only [applyOp] at h; split at h <;> simp at h; rw [← h.1]; exact yGate_valid t q (by assumption) hv
  | z q => simp only [applyOp] at h; split at h <;> simp at h; rw [← h.1]; exact zGate_valid t q (by assumption) hv
  | cnot c tg =>
    simp only [applyOp] at h; split at h <;> simp at h
    rename_i hb; rw [← h.1]; exact cnotGate_valid t c tg hb.1 hb.2 hop hv
  | cz c tg =>
    simp only [applyOp] at h; split at h <;> simp at h
    rename_i hb; rw [← h.1]; exact czGate_valid t c tg hb.1 hb.2 hop hv
  | swap a b =>
    simp only [applyOp] at h; split at h <;> simp at h
    rename_i hb; rw [← h.1]; exact swapGate_valid t a b hb.1 hb.2 hv
  | meas q o =>
    simp only [applyOp] at h; split at h <;> simp at h
    rename_i hq; rw [← h.1]; exact zMeasure_valid t q o hq hv
  | resetZ q i o => simp only [applyOp] at h; split at h <;> simp at h; rw [← h.1]; exact resetZ_valid t q i o (by assumption) hv
  | resetX q i o => simp only [applyOp] at h; split at h <;> simp at h; rw [← h.1]; exact resetX_valid t q i o (by assumption) hv
  | resetY q i o => simp only [applyOp] at h; split at h <;> simp at h; rw [← h.1]; exact resetY_valid t q i o (by assumption) hv
  | insert p => simp only [applyOp] at h; split at h <;> simp at h; rw [← h.1]; exact insertQubit_valid t p (by assumption) hv
  | add => simp only [applyOp] at h; simp at h; rw [← h.1]; exact addQubit_valid t hv
  | remove q o =>
    simp only [applyOp] at h
    cases hr : t.removeQubit? q o with
    | error e => rw [hr] at h; simp at h
    | ok t1 => rw [hr] at h; simp at h; rw [← h.1]; exact removeQubit?_valid t t1 q o hv hr
  | ptrace k os =>
    simp only [applyOp] at h
    cases hr : t.partialTrace k os with
    | error e => rw [hr] at h; simp at h
    | ok t1 => rw [hr] at h; simp at h; rw [← h.1]; exact partialTrace_valid t t1 k os hv hr

/-- **History theorem.**  From a valid tableau of any size, any finite history of gates, swaps, measurements (any outcomes),
    resets, qubit insertions, qubit removals and partial traces that the API accepts ends in a valid tableau
    ("binary and symplectic with every destabilizer paired to its stabilizer"; binary-ness is by type). -/
theorem history_valid (ops : List Tab.Op) (hops : ∀ op ∈ ops, WF op) :
    ∀ (t t' : Tab), t.Valid → t.runOps ops = .ok t' → t'.Valid := by
  induction ops with
  | nil => intro t t' hv h; simp [runOps] at h; rw [← h]; exact hv
  | cons op rest ih =>
    intro t t' hv h
    simp only [runOps] at h
    split at h
    · next t1 out h1 =>
      exact ih (fun o ho => hops o (List.mem_cons_of_mem _ ho)) t1 t'
        (op_preserves_valid t t1 op out (hops op List.mem_cons_self) hv h1) h
    · simp at h

/-- the tensor product of valid tableaux is valid (`tensor` is a binary operation outside `Op`) -/
theorem tensor_valid (a b : Tab) (ha : a.Valid) (hb : b.Valid) : (Tab.tensor2 a b).Valid := tensor2_valid a b ha hb

/-- `is_symplectic(table)` of utils.py decides exactly the invariant -/
theorem isSymplectic_iff_valid (t : Tab) : t.isSymplectic = true ↔ t.Valid := Tab.isSymplectic_iff t

/-- the all-|0⟩ tableau of any size is valid -/
theorem ket0_is_valid (n : Nat) : (Tab.ket0 n).Valid := Tab.ket0_valid n

/-! ## 3. Measurement tracks the post-measurement state (textbook rule), every n -/

/-- Random outcome (some stabilizer anticommutes with `Z_q`): the recorded outcome is the forced/drawn one; the pivot
    generator becomes `(-1)^outcome Z_q`; every other new stabilizer generator lies in the old stabilizer group and
    commutes with `Z_q`.  (This is the textbook update: the new group is ⟨±Z_q⟩ · {old elements commuting with Z_q}.) -/
theorem measure_random_spec (t : Tab) (q p : Nat) (o : Bool) (hv : t.Valid) (hq : q < t.n) (hp : t.pivot q = some p) :
    (t.zMeasure q o).2.1 = o ∧ (t.zMeasure q o).2.2 = p ∧
    SameBits t.n ((t.zMeasure q o).1.row p) (Zq q) ∧ ((t.zMeasure q o).1.row p).r = o ∧
    (∀ i, i < t.n → i + t.n ≠ p → InSpan t.n t.n t.stab ((t.zMeasure q o).1.stab i)) ∧
    (∀ i, i < t.n → ((t.zMeasure q o).1.stab i).x q = false) := by
  obtain ⟨h1, h2, h3⟩ := pivot_spec t q p hp
  have e : t.zMeasure q o = (t.measRandom q p o, o, p) := by simp [zMeasure, hp]
  rw [e]
  exact ⟨rfl, rfl, (measRandom_pivot_row t q p o).1, (measRandom_pivot_row t q p o).2,
    fun i hi hip => measRandom_stab_inSpan t q p o h1 h2 i hi hip,
    fun i hi => measRandom_commutes_Zq t q p o hv hq h1 h2 h3 i hi⟩

/-- Deterministic outcome (no stabilizer anticommutes with `Z_q`): the tableau is unchanged, a forced outcome is
    ignored, and the reported outcome is the sign of a product of stabilizer generators (an element of the group). -/
theorem measure_deterministic_spec (t : Tab) (q : Nat) (o : Bool) (hp : t.pivot q = none) :
    (t.zMeasure q o).1 = t ∧ (t.zMeasure q o).2.2 = 0 ∧
    (t.zMeasure q o).2.1 = (t.measScratch q).r ∧ InSpan t.n t.n t.stab (t.measScratch q) := by
  have e : t.zMeasure q o = (t, (t.measScratch q).r, 0) := by simp [zMeasure, hp]
  rw [e]
  exact ⟨rfl, rfl, rfl, measScratch_inSpan t q⟩

/-- the measurement is random exactly when some stabilizer generator has an X on the measured qubit -/
theorem measure_random_iff (t : Tab) (q : Nat) (o : Bool) :
    (t.zMeasure q o).2.2 ≠ 0 ↔ ∃ i, t.n ≤ i ∧ i < 2 * t.n ∧ (t.row i).x q = true := by
  unfold zMeasure
  cases hp : t.pivot q with
  | some p =>
    obtain ⟨h1, h2, h3⟩ := pivot_spec t q p hp
    simp only
    constructor
    · intro _; exact ⟨p, h1, h2, h3⟩
    · intro _; omega
  | none =>
    simp only
    constructor
    · intro h; exact absurd rfl h
    · intro ⟨i, h1, h2, h3⟩
      exfalso
      unfold pivot findFrom at hp
      have : i ∈ (List.range (2 * t.n)).filter (fun i => decide (t.n ≤ i) && (t.row i).x q) := by
        simp only [List.mem_filter, List.mem_range, Bool.and_eq_true, decide_eq_true_eq]
        exact ⟨h2, h1, h3⟩
      cases hl : (List.range (2 * t.n)).filter (fun i => decide (t.n ≤ i) && (t.row i).x q) with
      | nil => rw [hl] at this; cases this
      | cons a l => rw [hl] at hp; simp at hp

/-! ## 4. Insertion adds an unentangled |0⟩ at the requested position -/

/-- `insert_qubit(t, p)`: the new destabilizer/stabilizer pair is `X_p` / `+Z_p`; every other row is an old row with an
    identity inserted at site `p` — its other sites and both phase bits are unchanged -/
theorem insert_spec (t : Tab) (p : Nat) (hp : p ≤ t.n) :
    (t.insertQubit p).n = t.n + 1 ∧ (t.insertQubit p).row p = Xq p ∧ (t.insertQubit p).row (t.n + 1 + p) = Zq p ∧
    ∀ i, i ≠ p → i ≠ t.n + 1 + p →
      (t.insertQubit p).row i = (t.row (insSrc t.n p i)).insertCol p ∧
      ((t.insertQubit p).row i).x p = false ∧ ((t.insertQubit p).row i).z p = false ∧
      ((t.insertQubit p).row i).r = (t.row (insSrc t.n p i)).r := by
  refine ⟨rfl, insertQubit_row_p t p hp, insertQubit_row_np t p, ?_⟩
  intro i h1 h2
  rw [insertQubit_row_old t p i h1 h2]
  simp [PRow.insertCol]

/-! ## 5. Non-vacuity: concrete non-trivial objects satisfy the hypotheses -/

/-- three-qubit GHZ tableau with a non-zero sign vector: stabilizers −XXX, ZZI, −IZZ; destabilizers ZII, IXX, IIX -/
def ghz3 : Tab :=
  Tab.ofRows 3 #[
    PRow.ofArrays #[false,false,false] #[true,false,false] true false,
    PRow.ofArrays #[false,true,true] #[false,false,false] false false,
    PRow.ofArrays #[false,false,true] #[false,false,false] true false,
    PRow.ofArrays #[true,true,true] #[false,false,false] true false,
    PRow.ofArrays #[false,false,false] #[true,true,false] false false,
    PRow.ofArrays #[false,false,false] #[false,true,true] true false]

example : ghz3.Valid := (isSymplectic_iff_valid ghz3).mp (by decide)
example : ghz3.pivot 0 = some 3 := by decide          -- a Z measurement of qubit 0 is random
example : (ghz3.hGate 0).pivot 1 = some 3 := by decide
example : (match ghz3.runOps [.h 0, .cnot 0 2, .meas 1 true, .insert 2, .resetY 0 true false, .swap 1 3, .remove 0 true] with
    | .ok t' => t'.n == 3 && t'.isSymplectic | .error _ => false) = true := by decide +kernel

end Graphiq.C07

/-! ## 6. Hilbert-space reading: the Pauli-group semantics above IS the matrix semantics, for every n

  `Hilbert.pauliMat n p` is the `2^n × 2^n` complex matrix of the signed row `p = i^ip (-1)^r ⊗_j σ(x_j,z_j)`
  (σ(1,1) = Y = [[0,-i],[i,0]]) in the computational basis, indexed by bit strings (bit `j` = qubit `j`, i.e. qubit 0 is
  the left-most factor of graphiq's `np.kron` chains).  `Hilbert.gateMat n g` is the unitary of a gate, built from the 2×2
  matrices of `graphiq/backends/density_matrix/functions.py` exactly as `get_one_qubit_gate` /
  `get_two_qubit_controlled_gate` build them (H carries `1/√2`).  `Hilbert.rho n T = ∏_i (1 + P_i)/2` is the density
  matrix of a stabilizer tableau.  The theorems of this section turn the "cited tensor-lifting fact" of §1 into
  theorems: `row_sum`/`g_function` is matrix multiplication, the symplectic form is the commutation bit, every tableau
  update rule is conjugation by the gate's unitary (signs included), and the stabilizer state transforms covariantly,
  is a projector fixed by its whole group, and does not depend on the choice of generators. -/

namespace Graphiq.C07
open Graphiq Graphiq.PRow Graphiq.Tab Graphiq.Hilbert Matrix

/-- **`row_sum` is matrix multiplication.**  The matrix of the model's signed row product (`PRow.mul n a b` =
    `row_sum(row_to_add = a, target_row = b)` with the `g_function` exponent, reduced mod 4 and decoded into the two
    phase bits) is the product of the matrices, in this order, for every number of qubits. -/
theorem pauli_product_is_matrix_product (n : Nat) (a b : PRow) :
    pauliMat n (PRow.mul n a b) = pauliMat n a * pauliMat n b := pauliMat_mul n a b

/-- the matrices are the textbook ones: identity; `Z_q` diagonal with `(-1)^(b_q)`; `X_q` the bit flip at `q`;
    `Y_q = [[0,-i],[i,0]]` at `q`; a sign bit is the scalar `-1` -/
theorem pauli_matrix_is_textbook (n q : Nat) (hq : q < n) (s : Bool) (a b : Bits n) :
    pauliMat n PRow.one = 1 ∧
    pauliMat n (Zq q s) a b = (if a = b then (if xor s (bx b q) then (-1 : ℂ) else 1) else 0) ∧
    pauliMat n (Xq q s) a b = (if a = Hilbert.flip (unitMask q) b then (if s then (-1 : ℂ) else 1) else 0) ∧
    pauliMat n (Yq q s) a b
      = (if a = Hilbert.flip (unitMask q) b then (if xor s (bx b q) then -Complex.I else Complex.I) else 0) :=
  ⟨pauliMat_one n, pauliMat_Zq_apply n q s hq a b, pauliMat_Xq_apply n q s a b, pauliMat_Yq_apply n q s hq a b⟩

/-- the two phase bits are the scalar `i^(2r + ip)`; the adjoint is the matrix of the adjoint row; rows without
    imaginary phase are Hermitian involutions, rows with imaginary phase square to `-1`; every row is unitary -/
theorem pauli_matrix_phase_adjoint_square (n : Nat) (p : PRow) :
    pauliMat n p = iPow p.ph • pauliMat n (bare p) ∧
    (pauliMat n p)ᴴ = pauliMat n (adj p) ∧
    pauliMat n p * (pauliMat n p)ᴴ = 1 ∧
    (p.ip = false → (pauliMat n p)ᴴ = pauliMat n p ∧ pauliMat n p * pauliMat n p = 1) ∧
    (p.ip = true → pauliMat n p * pauliMat n p = -1) :=
  ⟨pauliMat_phase n p, pauliMat_conjTranspose n p, pauliMat_mul_conjTranspose n p,
   fun h => ⟨pauliMat_hermitian n p h, pauliMat_sq n p h⟩, pauliMat_sq_imag n p⟩

/-- **the symplectic form is the commutation bit**: two rows anticommute in the model iff their matrices
    anticommute, and commute iff the matrices commute -/
theorem commutation_bit_is_matrix_commutation (n : Nat) (a b : PRow) :
    (sp n a b = true ↔ pauliMat n a * pauliMat n b = -(pauliMat n b * pauliMat n a)) ∧
    (sp n a b = false ↔ pauliMat n a * pauliMat n b = pauliMat n b * pauliMat n a) :=
  ⟨pauliMat_anticomm_iff n a b, pauliMat_comm_iff n a b⟩

/-- the gate matrices are assembled as in graphiq's density-matrix backend: a 2×2 matrix at one site
    (`get_one_qubit_gate`), `hadamard() = [[1,1],[1,-1]]/√2`, `phase() = diag(1,i)`, `phase_dag() = diag(1,-i)`, the
    Pauli matrices, and controlled-X / controlled-Z (`get_two_qubit_controlled_gate`) -/
theorem gate_matrices_are_graphiq_matrices (n q c t : Nat) :
    gateMat n (.H q) = invSqrt2 • oneQ n q hadM ∧ gateMat n (.P q) = oneQ n q phaseM ∧
    gateMat n (.Pdag q) = oneQ n q phaseDagM ∧ gateMat n (.X q) = oneQ n q sigmaX ∧
    gateMat n (.Y q) = oneQ n q sigmaY ∧ gateMat n (.Z q) = oneQ n q sigmaZ ∧ gateMat n (.I q) = 1 ∧
    gateMat n (.CNOT c t) = ctrlQ n c t sigmaX ∧ gateMat n (.CZ c t) = ctrlQ n c t sigmaZ ∧
    invSqrt2 * invSqrt2 = 1 / 2 ∧
    (hadM false false = 1 ∧ hadM false true = 1 ∧ hadM true false = 1 ∧ hadM true true = -1) ∧
    (phaseM false false = 1 ∧ phaseM false true = 0 ∧ phaseM true false = 0 ∧ phaseM true true = Complex.I) ∧
    (phaseDagM false false = 1 ∧ phaseDagM false true = 0 ∧ phaseDagM true false = 0 ∧ phaseDagM true true = -Complex.I) ∧
    (sigmaX false false = 0 ∧ sigmaX false true = 1 ∧ sigmaX true false = 1 ∧ sigmaX true true = 0) ∧
    (sigmaY false false = 0 ∧ sigmaY false true = -Complex.I ∧ sigmaY true false = Complex.I ∧ sigmaY true true = 0) ∧
    (sigmaZ false false = 1 ∧ sigmaZ false true = 0 ∧ sigmaZ true false = 0 ∧ sigmaZ true true = -1) := by
  refine ⟨rfl, rfl, rfl, rfl, rfl, rfl, rfl, rfl, rfl, invSqrt2_mul_self, ?_, ?_, ?_, ?_, ?_, ?_⟩ <;>
    simp [hadM, phaseM, phaseDagM, sigmaX, sigmaY, sigmaZ]

/-- **Every tableau update rule is conjugation by the gate's unitary.**  For every gate of `run_circuit`
    (H, P, P†, X, Y, Z, I, CNOT, CZ) at every in-range position (control ≠ target), the gate matrix is unitary and
    `U · P · U† = (row rule of transformation.py)(P)` for every signed Pauli row `P`, signs included, for every `n`. -/
theorem gate_is_conjugation_by_its_unitary (n : Nat) (g : Gate) (hg : g.WF n) (p : PRow) :
    gateMat n g * (gateMat n g)ᴴ = 1 ∧ (gateMat n g)ᴴ * gateMat n g = 1 ∧
    gateMat n g * pauliMat n p * (gateMat n g)ᴴ = pauliMat n (g.act p) :=
  ⟨(gate_unitary n g hg).1, (gate_unitary n g hg).2, gate_conj n g hg p⟩

/-- the same for gate lists: the row-wise action of a circuit is conjugation by the product of the gate unitaries -/
theorem circuit_is_conjugation_by_its_unitary (n : Nat) (c : List Gate) (hc : ∀ g ∈ c, g.WF n) (p : PRow) :
    circMat n c * (circMat n c)ᴴ = 1 ∧
    circMat n c * pauliMat n p * (circMat n c)ᴴ = pauliMat n (actCirc c p) :=
  ⟨(circ_unitary n c hc).1, circ_conj n c hc p⟩

/-- **Gate covariance of the stabilizer state**: updating the generator rows by the tableau rule is the Hilbert-space
    evolution `ρ ↦ U ρ U†` (what the density-matrix backend computes), for single gates and for `run_circuit` -/
theorem stabilizer_state_gate_covariance (T : STab) (g : Gate) (hg : g.WF T.n) :
    gateMat T.n g * rho T.n T * (gateMat T.n g)ᴴ = rho T.n (T.applyGate g) := rho_applyGate T g hg

theorem stabilizer_state_circuit_covariance (T : STab) (c : List Gate) (hc : ∀ g ∈ c, g.WF T.n) :
    circMat T.n c * rho T.n T * (circMat T.n c)ᴴ = rho T.n (T.runCircuit c) := rho_runCircuit T c hc

/-- for real, mutually commuting generators `ρ = ∏ (1 + P_i)/2` is an orthogonal projector -/
theorem stabilizer_state_is_projector (T : STab) (hg : T.Good) :
    rho T.n T * rho T.n T = rho T.n T ∧ (rho T.n T)ᴴ = rho T.n T := ⟨rho_idem T hg, rho_hermitian T hg⟩

/-- … fixed by every element of the signed group generated by the rows: `S ρ = ρ` -/
theorem stabilizer_state_fixed_by_group (T : STab) (hg : T.Good) (a : PRow) (ha : T.Spn a) :
    pauliMat T.n a * rho T.n T = rho T.n T := span_mul_rho T hg a ha

/-- **Gauge independence**: tableaux generating the same signed group have the same density matrix (so row swaps,
    row sums, `canonical_form`, … do not change the state; `B.n = A.n` is part of `SpanEq`) -/
theorem stabilizer_state_gauge_independent (A B : STab) (h : STab.SpanEq A B) (gA : A.Good) (gB : B.Good) :
    rho A.n A = rho A.n B := rho_spanEq A B h gA gB

/-! ### non-vacuity: the Bell pair -/

/-- Bell pair `(|00⟩+|11⟩)/√2` with generators XX, ZZ -/
def bellXX : STab :=
  STab.ofRows 2 #[PRow.ofArrays #[true,true] #[false,false] false false,
                  PRow.ofArrays #[false,false] #[true,true] false false]
/-- the same state with generators −YY, ZZ -/
def bellYY : STab :=
  STab.ofRows 2 #[PRow.ofArrays #[true,true] #[true,true] true false,
                  PRow.ofArrays #[false,false] #[true,true] false false]

theorem good_of_check2 (t : STab) (hn : t.n = 2)
    (h : (List.range 2).all (fun i => (t.row i).ip == false &&
      (List.range 2).all fun k => PRow.sp 2 (t.row i) (t.row k) == false) = true) : t.Good := by
  simp only [List.all_eq_true, List.mem_range, Bool.and_eq_true, beq_iff_eq] at h
  constructor
  · intro i hi; exact (h i (hn ▸ hi)).1
  · intro i k hi hk; rw [hn]; exact (h i (hn ▸ hi)).2 k (hn ▸ hk)

theorem bellXX_good : bellXX.Good := good_of_check2 _ rfl (by decide)
theorem bellYY_good : bellYY.Good := good_of_check2 _ rfl (by decide)

/-- XX, ZZ and −YY, ZZ generate the same group (−YY = XX·ZZ) -/
theorem bell_generators_spanEq : STab.SpanEq bellXX bellYY := by
  apply STab.spanEq_of_gens bellXX bellYY rfl
  · intro i hi
    have : i = 0 ∨ i = 1 := by have : i < 2 := hi; omega
    rcases this with rfl | rfl
    · exact InSpan.eqv _ _ (InSpan.mul _ _ (STab.spn_gen bellXX 0 (by decide)) (STab.spn_gen bellXX 1 (by decide)))
        (beqOn_eqOn _ _ _ (by decide))
    · exact InSpan.eqv _ _ (STab.spn_gen bellXX 1 (by decide)) (beqOn_eqOn _ _ _ (by decide))
  · intro i hi
    have : i = 0 ∨ i = 1 := by have : i < 2 := hi; omega
    rcases this with rfl | rfl
    · exact InSpan.eqv _ _ (InSpan.mul _ _ (STab.spn_gen bellYY 0 (by decide)) (STab.spn_gen bellYY 1 (by decide)))
        (beqOn_eqOn _ _ _ (by decide))
    · exact InSpan.eqv _ _ (STab.spn_gen bellYY 1 (by decide)) (beqOn_eqOn _ _ _ (by decide))

example : (Gate.CNOT 0 1).WF bellXX.n ∧ (Gate.H 1).WF bellXX.n :=
  ⟨⟨by decide, by decide, by decide⟩, (by decide : 1 < 2)⟩
/-- hypotheses of `stabilizer_state_gauge_independent` hold for two different generating sets of the Bell pair -/
example : rho 2 bellXX = rho 2 bellYY :=
  stabilizer_state_gauge_independent bellXX bellYY bell_generators_spanEq bellXX_good bellYY_good
/-- the Bell pair is `CNOT₀₁ H₀ |00⟩`: the tableau circuit run and the matrix conjugation agree -/
example : circMat 2 [.H 0, .CNOT 0 1] * rho 2 (STab.zero 2) * (circMat 2 [.H 0, .CNOT 0 1])ᴴ = rho 2 bellXX := by
  have h := stabilizer_state_circuit_covariance (STab.zero 2) [.H 0, .CNOT 0 1]
    (by intro g hg
        simp only [List.mem_cons, List.mem_nil_iff, or_false] at hg
        rcases hg with rfl | rfl
        · show 0 < 2; decide
        · exact ⟨by decide, by decide, by decide⟩)
  have e : rho 2 ((STab.zero 2).runCircuit [.H 0, .CNOT 0 1]) = rho 2 bellXX := by
    apply rhoTo_congr 2 _ _ 2
    intro i hi
    have : i = 0 ∨ i = 1 := by omega
    rcases this with rfl | rfl <;> exact beqOn_eqOn _ _ _ (by decide)
  exact h.trans e
/-- an anticommuting pair: X₀ and the Y₀Y₁ row -/
example : sp 2 (Xq 0) (bellYY.row 0) = true := by decide

/-! ### Kronecker structure: the bit-string matrices are graphiq's `np.kron` chains -/

/-- `pauliMat (n+1) p = pauliMat n p ⊗ σ(x_n, z_n)` entrywise, where `σ` is the table of 2×2 Pauli matrices
    (`1`, `sigmax()`, `sigmay()`, `sigmaz()`); by induction `pauliMat n p = i^ip (-1)^r σ₀ ⊗ … ⊗ σ_{n-1}` with qubit 0 the
    left-most (most significant) Kronecker factor, the convention of `get_one_qubit_gate` -/
theorem pauli_matrix_is_kronecker_product (n : Nat) (p : PRow) (a b : Bits (n + 1)) :
    pauliMat (n + 1) p a b = pauliMat n p (initB a) (initB b) * sigma (p.x n) (p.z n) (lastB a) (lastB b) ∧
    sigma false false = 1 ∧ sigma true false = sigmaX ∧ sigma true true = sigmaY ∧ sigma false true = sigmaZ :=
  ⟨pauliMat_succ n p a b, sigma_ff, sigma_tf, sigma_tt, sigma_ft⟩

/-- `oneQ` is `get_one_qubit_gate`: the 2×2 matrix at its site, identity factors elsewhere (`1 ⊗ u` for the last
    qubit, `(gate on the first n qubits) ⊗ 1` otherwise); `ctrlQ` is `get_two_qubit_controlled_gate`'s
    `1 + (1 - Z_c)(u_t - 1)/2` -/
theorem gate_matrices_are_kronecker_products (n q c t : Nat) (hq : q < n) (hc : c < n) (hct : c ≠ t)
    (u : Matrix Bool Bool ℂ) (a b : Bits (n + 1)) :
    oneQ (n + 1) n u a b = (1 : Matrix (Bits n) (Bits n) ℂ) (initB a) (initB b) * u (lastB a) (lastB b) ∧
    oneQ (n + 1) q u a b = oneQ n q u (initB a) (initB b) * (1 : Matrix Bool Bool ℂ) (lastB a) (lastB b) ∧
    ctrlQ n c t u = 1 + (1 / 2 : ℂ) • ((1 - pauliMat n (Zq c)) * oneQ n t (u - 1)) :=
  ⟨oneQ_succ_last n u a b, oneQ_succ_lower n q hq u a b, ctrlQ_eq_graphiq n c t hc hct u⟩

/-! ### the state of a valid Clifford tableau is a pure state; measurement is projection -/

/-- the all-`+Z` tableau (`StabilizerTableau(n)`, the stabilizer half of `CliffordTableau(n)`) is `|0…0⟩⟨0…0|` -/
theorem ket0_state_is_zero_ket (n : Nat) (a b : Bits n) :
    rho n (STab.ofTab (Tab.ket0 n)) a b = if a = (fun _ => false) ∧ b = (fun _ => false) then 1 else 0 := by
  rw [rho_ket0]; exact rho_zero n a b

open scoped ComplexOrder in
/-- **Pure state.**  For a valid Clifford tableau the stabilizer half defines a density matrix (`ρ ≥ 0`, `tr ρ = 1`)
    that is a rank-one projector in the sense `ρ² = ρ = ρ†`, `tr ρ = 1` (graphiq's `is_pure`): the destabilizer rows
    witness the independence of the generators. -/
theorem stabilizer_state_is_pure (t : Tab) (hv : t.Valid) :
    Matrix.trace (rho t.n (STab.ofTab t)) = 1 ∧
    rho t.n (STab.ofTab t) * rho t.n (STab.ofTab t) = rho t.n (STab.ofTab t) ∧
    (rho t.n (STab.ofTab t))ᴴ = rho t.n (STab.ofTab t) ∧
    (rho t.n (STab.ofTab t)).PosSemidef :=
  have hg := ofTab_good t hv
  ⟨rho_ofTab_trace t hv, rho_idem _ hg, rho_hermitian _ hg,
   posSemidef_of_projector _ (rho_idem _ hg) (rho_hermitian _ hg)⟩

/-- the rows of a valid tableau are a symplectic basis: a Pauli commuting with all 2n rows is trivial -/
theorem valid_rows_are_symplectic_basis (t : Tab) (hv : t.Valid) (m : PRow)
    (h : ∀ i, i < 2 * t.n → sp t.n (t.row i) m = false) : ∀ j, j < t.n → m.x j = false ∧ m.z j = false :=
  valid_nondegenerate t hv m h

/-- **Completeness of the deterministic rule** (was cited mathematics): if no stabilizer row has an X on `q`, the
    scratch row of `z_measurement_gate` is exactly `±Z_q` -/
theorem deterministic_scratch_row_is_Zq (t : Tab) (hv : t.Valid) (q : Nat) (hq : q < t.n) (hp : t.pivot q = none) :
    SameBits t.n (t.measScratch q) (Zq q) := measScratch_bits t hv q hq hp

/-- **Random branch = projective measurement.**  Valid tableau with real stabilizer rows, some stabilizer row has an X
    on `q`.  With `Π_o = (1 + (-1)^o Z_q)/2`: `Π_o ρ Π_o = ½ · ρ(new tableau)` for the tableau returned by
    `z_measurement_gate` with outcome `o` — the update rule computes the post-measurement state, each outcome has
    probability `tr(Π_o ρ Π_o) = ½`; the new tableau again has real stabilizer rows (and is valid, §2). -/
theorem measurement_random_is_projection (t : Tab) (hv : t.Valid) (hr : t.StabReal) (q p : Nat) (o : Bool)
    (hq : q < t.n) (hp : t.pivot q = some p) :
    proj t.n (Zq q o) * rho t.n (STab.ofTab t) * proj t.n (Zq q o)
      = (1 / 2 : ℂ) • rho t.n (STab.ofTab (t.zMeasure q o).1) ∧
    Matrix.trace (proj t.n (Zq q o) * rho t.n (STab.ofTab t) * proj t.n (Zq q o)) = 1 / 2 ∧
    (t.zMeasure q o).1.StabReal := by
  obtain ⟨h1, h2, h3⟩ := pivot_spec t q p hp
  have e : t.zMeasure q o = (t.measRandom q p o, o, p) := by simp [zMeasure, hp]
  rw [e]
  exact ⟨measRandom_state t hv hr q p o hq h1 h2 h3, measRandom_prob t hv hr q p o hq h1 h2 h3,
    measRandom_stabReal t hv hr q p o h1 h2⟩

/-- **Deterministic branch = projective measurement.**  Valid tableau with real stabilizer rows, no stabilizer row has an
    X on `q`.  With `s` the outcome reported by `z_measurement_gate`: `Z_q ρ = (-1)^s ρ`, so `Π_s ρ Π_s = ρ`
    (probability 1, state and tableau unchanged) and `Π_{¬s} ρ = 0`. -/
theorem measurement_deterministic_is_projection (t : Tab) (hv : t.Valid) (hr : t.StabReal) (q : Nat) (o : Bool)
    (hq : q < t.n) (hp : t.pivot q = none) :
    (t.zMeasure q o).1 = t ∧
    pauliMat t.n (Zq q (t.zMeasure q o).2.1) * rho t.n (STab.ofTab t) = rho t.n (STab.ofTab t) ∧
    proj t.n (Zq q (t.zMeasure q o).2.1) * rho t.n (STab.ofTab t) * proj t.n (Zq q (t.zMeasure q o).2.1)
      = rho t.n (STab.ofTab t) ∧
    proj t.n (Zq q (!(t.zMeasure q o).2.1)) * rho t.n (STab.ofTab t) = 0 := by
  have e : t.zMeasure q o = (t, (t.measScratch q).r, 0) := by simp [zMeasure, hp]
  rw [e]
  exact ⟨rfl, measDet_state t hv hr q hq hp⟩

/-- reality of the stabilizer rows holds for `CliffordTableau(n)` and is kept by every gate -/
theorem stabilizer_rows_stay_real (n : Nat) (t : Tab) (g : Gate) (hr : t.StabReal) :
    (Tab.ket0 n).StabReal ∧ (t.map g.act).StabReal := ⟨ket0_stabReal n, gate_stabReal t g hr⟩

/-- **The gate operations of the Clifford-tableau API are unitary evolution of the state.**  For every gate `g` of
    `run_circuit` (`t.map g.act` is `hGate`, `sGate`, `sdgGate`, `xGate`, `yGate`, `zGate`, `cnotGate`, `czGate` by
    definition): `U_g ρ(t) U_g† = ρ(t after the gate)`; and `swap_gate` is conjugation by the permutation matrix that
    exchanges the two bits. -/
theorem tableau_gate_is_unitary_evolution (t : Tab) (g : Gate) (hg : g.WF t.n) (a b : Nat) (ha : a < t.n) (hb : b < t.n) :
    gateMat t.n g * rho t.n (STab.ofTab t) * (gateMat t.n g)ᴴ = rho t.n (STab.ofTab (t.map g.act)) ∧
    swapMat t.n a b * rho t.n (STab.ofTab t) * (swapMat t.n a b)ᴴ = rho t.n (STab.ofTab (t.swapGate a b)) ∧
    swapMat t.n a b * (swapMat t.n a b)ᴴ = 1 ∧
    (∀ p, swapMat t.n a b * pauliMat t.n p * (swapMat t.n a b)ᴴ = pauliMat t.n (PRow.swap a b p)) :=
  ⟨rho_tab_gate t g hg, rho_tab_swap t a b ha hb, (swap_unitary t.n a b ha hb).1, swap_conj t.n a b ha hb⟩

example (t : Tab) (q c tg : Nat) : t.map (Gate.H q).act = t.hGate q ∧ t.map (Gate.P q).act = t.sGate q ∧
    t.map (Gate.CNOT c tg).act = t.cnotGate c tg ∧ t.map (Gate.CZ c tg).act = t.czGate c tg := ⟨rfl, rfl, rfl, rfl⟩

/-! non-vacuity: the GHZ tableau `ghz3` of §5 (valid, signs −XXX, ZZI, −IZZ) -/

theorem ghz3_stabReal : ghz3.StabReal := by
  intro i h1 h2
  have h1' : 3 ≤ i := h1
  have h2' : i < 6 := h2
  have : i = 3 ∨ i = 4 ∨ i = 5 := by omega
  rcases this with rfl | rfl | rfl <;> rfl

theorem ghz3_valid : ghz3.Valid := (isSymplectic_iff_valid ghz3).mp (by decide)

/-- measuring qubit 0 of GHZ₃ is random (pivot = row 3): both outcomes have probability ½ -/
example (o : Bool) : Matrix.trace (proj 3 (Zq 0 o) * rho 3 (STab.ofTab ghz3) * proj 3 (Zq 0 o)) = 1 / 2 :=
  (measurement_random_is_projection ghz3 ghz3_valid ghz3_stabReal 0 3 o (by decide) (by decide)).2.1
/-- after that measurement (outcome 1), measuring qubit 1 is deterministic -/
example : ((ghz3.zMeasure 0 true).1.norm).pivot 1 = none ∧ ghz3.pivot 0 = some 3 := by decide
example : Matrix.trace (rho 3 (STab.ofTab ghz3)) = 1 := (stabilizer_state_is_pure ghz3 ghz3_valid).1

end Graphiq.C07
