/-
  C07 — a Clifford tableau stays valid and tracks the right state under any history.

  Property theorems only (helper lemmas live in Proofs/).  `Tab.Valid` is "binary and symplectic, every destabilizer
  paired to its stabilizer" (binary-ness is by type).  "Tracks the right state" is stated at the level of the Pauli
  group: a gate acts row-wise by a map that is an automorphism of the signed n-qubit Pauli group (it respects the signed
  product and the commutation form) and sends the one-site generators to their textbook images — an automorphism of
  the Pauli group is determined by the images of X_j, Z_j, so this pins the gate's action on every row, signs
  included, for every n.  (The identification of that group semantics with Hilbert-space semantics is the cited
  tensor-lifting fact of DESIGN §7; the correspondence run additionally checks it against a dense simulator, n ≤ 5.)
-/
import GraphiqModel.Proofs.Tableau
namespace Graphiq.C07
open Graphiq Graphiq.PRow Graphiq.Tab

/-! ## 1. Gates: automorphisms with the textbook generator images, for every n -/

/-- every elementary and derived gate of transformation.py acts row-wise as a Pauli-group automorphism
    (preserves commutation, respects the signed product, respects row equality) -/
theorem gate_is_pauli_automorphism (n q c t : Nat) (hq : q < n) (hc : c < n) (ht : t < n) (hct : c ≠ t) :
    IsAut n (PRow.h q) ∧ IsAut n (PRow.s q) ∧ IsAut n (PRow.sdg q) ∧ IsAut n (PRow.xg q) ∧
    IsAut n (PRow.yg q) ∧ IsAut n (PRow.zg q) ∧ IsAut n (PRow.cnot c t) ∧ IsAut n (PRow.cz c t) :=
  ⟨isAut_h n q hq, isAut_s n q hq, isAut_sdg n q hq, isAut_xg n q hq, isAut_yg n q hq, isAut_zg n q hq,
   isAut_cnot n c t hc ht hct, isAut_cz n c t hc ht hct⟩

/-- the Hermitian `Y_q` row (x = z = 1 at `q`) -/
def Yq (q : Nat) (sign : Bool := false) : PRow := ⟨fun j => decide (j = q), fun j => decide (j = q), sign, false⟩

/-- images of the one-site generators under the one-qubit gates, signs included (all n):
    H: X→Z, Z→X;  P: X→Y, Z→Z;  P†: X→−Y, Z→Z;  X: X→X, Z→−Z;  Y: X→−X, Z→−Z;  Z: X→−X, Z→Z;
    and a gate on `q` fixes the generators of every other site -/
theorem one_qubit_gate_generator_images (n q : Nat) :
    EqOn n (PRow.h q (Xq q)) (Zq q) ∧ EqOn n (PRow.h q (Zq q)) (Xq q) ∧
    EqOn n (PRow.s q (Xq q)) (Yq q) ∧ EqOn n (PRow.s q (Zq q)) (Zq q) ∧
    EqOn n (PRow.sdg q (Xq q)) (Yq q true) ∧ EqOn n (PRow.sdg q (Zq q)) (Zq q) ∧
    EqOn n (PRow.xg q (Xq q)) (Xq q) ∧ EqOn n (PRow.xg q (Zq q)) (Zq q true) ∧
    EqOn n (PRow.yg q (Xq q)) (Xq q true) ∧ EqOn n (PRow.yg q (Zq q)) (Zq q true) ∧
    EqOn n (PRow.zg q (Xq q)) (Xq q true) ∧ EqOn n (PRow.zg q (Zq q)) (Zq q) := by
  refine ⟨?_, ?_, ?_, ?_, ?_, ?_, ?_, ?_, ?_, ?_, ?_, ?_⟩ <;>
    (refine ⟨fun j _ => ?_, ?_, ?_⟩ <;>
      simp [PRow.h, PRow.s, PRow.sdg, PRow.xg, PRow.yg, PRow.zg, Xq, Zq, Yq] <;>
      (try (by_cases e : j = q <;> simp [e])))

theorem one_qubit_gate_fixes_other_sites (n q k : Nat) (hk : k ≠ q) (sg : Bool) :
    EqOn n (PRow.h q (Xq k sg)) (Xq k sg) ∧ EqOn n (PRow.h q (Zq k sg)) (Zq k sg) ∧
    EqOn n (PRow.s q (Xq k sg)) (Xq k sg) ∧ EqOn n (PRow.s q (Zq k sg)) (Zq k sg) := by
  have hqk : q ≠ k := Ne.symm hk
  refine ⟨?_, ?_, ?_, ?_⟩ <;>
    (refine ⟨fun j _ => ?_, ?_, ?_⟩ <;> simp [PRow.h, PRow.s, Xq, Zq, hqk] <;>
      (try (by_cases e : j = q <;> simp [e, hqk])))

/-- images of the generators under CNOT(c→t): X_c→X_cX_t, X_t→X_t, Z_c→Z_c, Z_t→Z_cZ_t (all signs +) -/
theorem cnot_generator_images (n c t : Nat) (hct : c ≠ t) :
    EqOn n (PRow.cnot c t (Xq c)) (PRow.mul n (Xq c) (Xq t)) ∧ EqOn n (PRow.cnot c t (Xq t)) (Xq t) ∧
    EqOn n (PRow.cnot c t (Zq c)) (Zq c) ∧ SameBits n (PRow.cnot c t (Zq t)) (PRow.mul n (Zq c) (Zq t)) ∧
    (PRow.cnot c t (Zq t)).r = false := by
  have htc : t ≠ c := Ne.symm hct
  refine ⟨?_, ?_, ?_, ?_, ?_⟩
  · apply eqOn_of
    · intro j _
      by_cases e1 : j = t
      · subst e1; simp [PRow.cnot, Xq, htc]
      · simp [PRow.cnot, Xq, e1]
    · rw [cnot_ph, mul_ph]
      have g0 : gSum n (Xq c) (Xq t) = 0 := by
        unfold gSum
        rw [sumTo_congr n _ (fun _ => 0)]
        · exact sumTo_zero n
        · intro j _
          by_cases e : j = c <;> simp [Xq, gFun, e, Bool.toInt', htc, hct]
      rw [g0]; simp [Xq, PRow.ph, Bool.toInt', htc]
  · refine ⟨fun j _ => ?_, ?_, ?_⟩
    · by_cases e1 : j = t
      · subst e1; simp [PRow.cnot, Xq, hct]
      · simp [PRow.cnot, Xq, e1]
    · simp [PRow.cnot, Xq, htc]
    · simp [PRow.cnot, Xq]
  · refine ⟨fun j _ => ?_, ?_, ?_⟩
    · by_cases e1 : j = c
      · subst e1; simp [PRow.cnot, Zq, htc]
      · simp [PRow.cnot, Zq, e1]
    · simp [PRow.cnot, Zq]
    · simp [PRow.cnot, Zq]
  · intro j _
    simp [PRow.cnot, Zq]
    by_cases e1 : j = c
    · subst e1; simp [hct]
    · simp [e1]
  · simp [PRow.cnot, Zq]

/-! ## 2. Validity is preserved by every operation of the API, hence by every history -/

/-- argument condition of the quantifier: control and target of a two-qubit gate are distinct -/
def WF : Tab.Op → Prop
  | .cnot c t => c ≠ t
  | .cz c t => c ≠ t
  | _ => True

theorem op_preserves_valid (t t' : Tab) (op : Tab.Op) (out : Option (Bool × Bool)) (hop : WF op)
    (hv : t.Valid) (h : t.applyOp op = .ok (t', out)) : t'.Valid := by
  cases op with
  | h q => simp only [applyOp] at h; split at h <;> simp at h; rw [← h.1]; exact hGate_valid t q (by assumption) hv
  | s q => simp only [applyOp] at h; split at h <;> simp at h; rw [← h.1]; exact sGate_valid t q (by assumption) hv
  | sdg q => simp only [applyOp] at h; split at h <;> simp at h; rw [← h.1]; exact sdgGate_valid t q (by assumption) hv
  | x q => simp only [applyOp] at h; split at h <;> simp at h; rw [← h.1]; exact xGate_valid t q (by assumption) hv
  | y q => simp only [applyOp] at h; split at h <;> simp at h; rw [← h.1]; exact yGate_valid t q (by assumption) hv
  | z q => simp only [applyOp] at h; split at h <;> simp at h; rw [← h.1]; exact zGate_valid t q (by assumption) hv
  | cnot c tg =>
    simp only [applyOp] at h; split at h <;> simp at h
    rename_i hb; rw [← h.1]; exact cnotGate_valid t c tg hb.1 hb.2 hop hv
  | cz c tg =>
    simp only [applyOp] at h; split at h <;> simp at h
    rename_i hb; rw [← h.1]; exact czGate_valid t c tg hb.1 hb.2 hop hv
  | swap a b =>
    simp only [applyOp] at h; split at h <;> simp at h
    rename_i hb; rw [← h.1]; exact swapGate_valid t a b hb.1 hb.2 hv
  | meas q o =>
    simp only [applyOp] at h; split at h <;> simp at h
    rename_i hq; rw [← h.1]; exact zMeasure_valid t q o hq hv
  | resetZ q i o => simp only [applyOp] at h; split at h <;> simp at h; rw [← h.1]; exact resetZ_valid t q i o (by assumption) hv
  | resetX q i o => simp only [applyOp] at h; split at h <;> simp at h; rw [← h.1]; exact resetX_valid t q i o (by assumption) hv
  | resetY q i o => simp only [applyOp] at h; split at h <;> simp at h; rw [← h.1]; exact resetY_valid t q i o (by assumption) hv
  | insert p => simp only [applyOp] at h; split at h <;> simp at h; rw [← h.1]; exact insertQubit_valid t p (by assumption) hv
  | add => simp only [applyOp] at h; simp at h; rw [← h.1]; exact addQubit_valid t hv
  | remove q o =>
    simp only [applyOp] at h
    cases hr : t.removeQubit? q o with
    | error e => rw [hr] at h; simp at h
    | ok t1 => rw [hr] at h; simp at h; rw [← h.1]; exact removeQubit?_valid t t1 q o hv hr
  | ptrace k os =>
    simp only [applyOp] at h
    cases hr : t.partialTrace k os with
    | error e => rw [hr] at h; simp at h
    | ok t1 => rw [hr] at h; simp at h; rw [← h.1]; exact partialTrace_valid t t1 k os hv hr

/-- **History theorem.**  From a valid tableau of any size, any finite history of gates, swaps, measurements (any outcomes),
    resets, qubit insertions, qubit removals and partial traces that the API accepts ends in a valid tableau
    ("binary and symplectic with every destabilizer paired to its stabilizer"; binary-ness is by type). -/
theorem history_valid (ops : List Tab.Op) (hops : ∀ op ∈ ops, WF op) :
    ∀ (t t' : Tab), t.Valid → t.runOps ops = .ok t' → t'.Valid := by
  induction ops with
  | nil => intro t t' hv h; simp [runOps] at h; rw [← h]; exact hv
  | cons op rest ih =>
    intro t t' hv h
    simp only [runOps] at h
    split at h
    · next t1 out h1 =>
      exact ih (fun o ho => hops o (List.mem_cons_of_mem _ ho)) t1 t'
        (op_preserves_valid t t1 op out (hops op List.mem_cons_self) hv h1) h
    · simp at h

/-- the tensor product of valid tableaux is valid (`tensor` is a binary operation outside `Op`) -/
theorem tensor_valid (a b : Tab) (ha : a.Valid) (hb : b.Valid) : (Tab.tensor2 a b).Valid := tensor2_valid a b ha hb

/-- `is_symplectic(table)` of utils.py decides exactly the invariant -/
theorem isSymplectic_iff_valid (t : Tab) : t.isSymplectic = true ↔ t.Valid := Tab.isSymplectic_iff t

/-- the all-|0⟩ tableau of any size is valid -/
theorem ket0_is_valid (n : Nat) : (Tab.ket0 n).Valid := Tab.ket0_valid n

/-! ## 3. Measurement tracks the post-measurement state (textbook rule), every n -/

/-- Random outcome (some stabilizer anticommutes with `Z_q`): the recorded outcome is the forced/drawn one; the pivot
    generator becomes `(-1)^outcome Z_q`; every other new stabilizer generator lies in the old stabilizer group and
    commutes with `Z_q`.  (This is the textbook update: the new group is ⟨±Z_q⟩ · {old elements commuting with Z_q}.) -/
theorem measure_random_spec (t : Tab) (q p : Nat) (o : Bool) (hv : t.Valid) (hq : q < t.n) (hp : t.pivot q = some p) :
    (t.zMeasure q o).2.1 = o ∧ (t.zMeasure q o).2.2 = p ∧
    SameBits t.n ((t.zMeasure q o).1.row p) (Zq q) ∧ ((t.zMeasure q o).1.row p).r = o ∧
    (∀ i, i < t.n → i + t.n ≠ p → InSpan t.n t.n t.stab ((t.zMeasure q o).1.stab i)) ∧
    (∀ i, i < t.n → ((t.zMeasure q o).1.stab i).x q = false) := by
  obtain ⟨h1, h2, h3⟩ := pivot_spec t q p hp
  have e : t.zMeasure q o = (t.measRandom q p o, o, p) := by simp [zMeasure, hp]
  rw [e]
  exact ⟨rfl, rfl, (measRandom_pivot_row t q p o).1, (measRandom_pivot_row t q p o).2,
    fun i hi hip => measRandom_stab_inSpan t q p o h1 h2 i hi hip,
    fun i hi => measRandom_commutes_Zq t q p o hv hq h1 h2 h3 i hi⟩

/-- Deterministic outcome (no stabilizer anticommutes with `Z_q`): the tableau is unchanged, a forced outcome is
    ignored, and the reported outcome is the sign of a product of stabilizer generators (an element of the group). -/
theorem measure_deterministic_spec (t : Tab) (q : Nat) (o : Bool) (hp : t.pivot q = none) :
    (t.zMeasure q o).1 = t ∧ (t.zMeasure q o).2.2 = 0 ∧
    (t.zMeasure q o).2.1 = (t.measScratch q).r ∧ InSpan t.n t.n t.stab (t.measScratch q) := by
  have e : t.zMeasure q o = (t, (t.measScratch q).r, 0) := by simp [zMeasure, hp]
  rw [e]
  exact ⟨rfl, rfl, rfl, measScratch_inSpan t q⟩

/-- the measurement is random exactly when some stabilizer generator has an X on the measured qubit -/
theorem measure_random_iff (t : Tab) (q : Nat) (o : Bool) :
    (t.zMeasure q o).2.2 ≠ 0 ↔ ∃ i, t.n ≤ i ∧ i < 2 * t.n ∧ (t.row i).x q = true := by
  unfold zMeasure
  cases hp : t.pivot q with
  | some p =>
    obtain ⟨h1, h2, h3⟩ := pivot_spec t q p hp
    simp only
    constructor
    · intro _; exact ⟨p, h1, h2, h3⟩
    · intro _; omega
  | none =>
    simp only
    constructor
    · intro h; exact absurd rfl h
    · intro ⟨i, h1, h2, h3⟩
      exfalso
      unfold pivot findFrom at hp
      have : i ∈ (List.range (2 * t.n)).filter (fun i => decide (t.n ≤ i) && (t.row i).x q) := by
        simp only [List.mem_filter, List.mem_range, Bool.and_eq_true, decide_eq_true_eq]
        exact ⟨h2, h1, h3⟩
      cases hl : (List.range (2 * t.n)).filter (fun i => decide (t.n ≤ i) && (t.row i).x q) with
      | nil => rw [hl] at this; cases this
      | cons a l => rw [hl] at hp; simp at hp

/-! ## 4. Insertion adds an unentangled |0⟩ at the requested position -/

/-- `insert_qubit(t, p)`: the new destabilizer/stabilizer pair is `X_p` / `+Z_p`; every other row is an old row with an
    identity inserted at site `p` — its other sites and both phase bits are unchanged -/
theorem insert_spec (t : Tab) (p : Nat) (hp : p ≤ t.n) :
    (t.insertQubit p).n = t.n + 1 ∧ (t.insertQubit p).row p = Xq p ∧ (t.insertQubit p).row (t.n + 1 + p) = Zq p ∧
    ∀ i, i ≠ p → i ≠ t.n + 1 + p →
      (t.insertQubit p).row i = (t.row (insSrc t.n p i)).insertCol p ∧
      ((t.insertQubit p).row i).x p = false ∧ ((t.insertQubit p).row i).z p = false ∧
      ((t.insertQubit p).row i).r = (t.row (insSrc t.n p i)).r := by
  refine ⟨rfl, insertQubit_row_p t p hp, insertQubit_row_np t p, ?_⟩
  intro i h1 h2
  rw [insertQubit_row_old t p i h1 h2]
  simp [PRow.insertCol]

/-! ## 5. Non-vacuity: concrete non-trivial objects satisfy the hypotheses -/

/-- three-qubit GHZ tableau with a non-zero sign vector: stabilizers −XXX, ZZI, −IZZ; destabilizers ZII, IXX, IIX -/
def ghz3 : Tab :=
  Tab.ofRows 3 #[
    PRow.ofArrays #[false,false,false] #[true,false,false] true false,
    PRow.ofArrays #[false,true,true] #[false,false,false] false false,
    PRow.ofArrays #[false,false,true] #[false,false,false] true false,
    PRow.ofArrays #[true,true,true] #[false,false,false] true false,
    PRow.ofArrays #[false,false,false] #[true,true,false] false false,
    PRow.ofArrays #[false,false,false] #[false,true,true] true false]

example : ghz3.Valid := (isSymplectic_iff_valid ghz3).mp (by decide)
example : ghz3.pivot 0 = some 3 := by decide          -- a Z measurement of qubit 0 is random
example : (ghz3.hGate 0).pivot 1 = some 3 := by decide
example : (match ghz3.runOps [.h 0, .cnot 0 2, .meas 1 true, .insert 2, .resetY 0 true false, .swap 1 3, .remove 0 true] with
    | .ok t' => t'.n == 3 && t'.isSymplectic | .error _ => false) = true := by decide +kernel

end Graphiq.C07
