/-
  C14 — exporting a circuit and importing it back yields the same circuit.

  Property theorems only (lemmas live in Proofs/Export.lean).  The objects are those of Model/Export.lean: a circuit is
  a register count triple and an operation list; `seq` is the operation list in the order `sequence()` returns it;
  `toOpenqasm`/`fromOpenqasm` are the exporters/importers at the level of *structured statements* with real gate-name
  strings, `toJson`/`fromJson` the JSON pair.  All finite name tables are the literals regenerated from the repository
  on every run, and every table fact below is a kernel `decide` over the whole table — a changed entry makes exactly
  that fact fail.  Character-level rendering/parsing of the text is tied to the implementation by the exact-text
  correspondence run (and by `readNat_showNat`-style lemmas for the register tokens), not by these theorems.
-/
import GraphiqModel.Proofs.Export
namespace Graphiq.C14
open Graphiq Graphiq.Export

/-! ## 1. The regenerated name tables round-trip (kernel-checked over the whole table) -/

/-- JSON: `name_to_class_map(class_to_name_mapping(k)) = k` for every exportable class, no JSON name is empty, the name
    is not the wrapper tag, and `from_json` selects the constructor signature that the class has -/
theorem json_name_table_roundtrip (k : Cls) :
    (classToName k).bind nameToClass = some k ∧ classToName k ≠ some [] ∧
    classToName k ≠ some "one qubit gate wrapper".toList ∧ jsonShape k = k.shape :=
  ⟨tbl_json_roundtrip k (Cls.mem_all k), tbl_json_nonempty k (Cls.mem_all k), tbl_json_not_wrapper k (Cls.mem_all k),
   tbl_json_shape k (Cls.mem_all k)⟩

/-- openQASM: the gate name each one- and two-qubit class is exported under is read back as that class; exactly the
    identity has the empty name; the idiom names of the classically controlled operations resolve to their classes -/
theorem openqasm_name_table_roundtrip :
    (∀ g : G1, g ≠ .I → (gateName (.g1 g)).bind nameToClass = some (.g1 g)) ∧
    (∀ g : G2, (gateName (.g2 g)).bind nameToClass = some (.g2 g)) ∧
    (∀ g : G1, gateName (.g1 g) = some [] ↔ g = .I) ∧
    nameToClass "classical x".toList = some (.gc .CCNOT) ∧ nameToClass "classical z".toList = some (.gc .CCZ) ∧
    nameToClass "classical reset x".toList = some (.gc .MCR) := by
  refine ⟨fun g hg => ?_, fun g => ?_, fun g => ?_, tbl_classical_x, tbl_classical_z, tbl_classical_reset_x⟩
  · rw [gateName_g1]; exact tbl_g1_roundtrip g (G1.mem_all g) hg
  · rw [gateName_g2]; exact tbl_g2_roundtrip g (mem_g2 g)
  · rw [gateName_g1]; simpa using g1Name_nil_iff g

/-- no exportable class needs an import line, and the header passes the importer's check -/
theorem header_accepted : (∀ k : Cls, importStrings k = []) ∧
    (Gen.header.toList.filter fun c => !isWs c) = "OPENQASM2.0;".toList :=
  ⟨fun k => tbl_imports_nil k (Cls.mem_all k), tbl_header⟩

/-! ## 2. Wrapper names: concatenation, the "already defined" shortcut, and the `sdg|.` tokeniser -/

/-- `single_qubit_wrapper_info` never fails; whether or not its "already defined" shortcut fires, the gate applied is
    called by the concatenation of the component names (nothing is applied iff that name is empty) -/
theorem wrapper_info (gs : List G1) : ∃ i, singleQubitWrapperInfo gs = .ok i ∧ i.multi = false ∧
    i.usage = (if wrapName gs = [] then Usage.empty else Usage.one (wrapName gs)) ∧ i.imports = [] :=
  wrapperInfo_spec gs

/-- the importer's tokenisation `re.findall("sdg|.", name)` recovers the component classes of any wrapper name:
    for every list of non-identity one-qubit classes, tokenising the concatenated name and looking each token up gives
    the list back -/
theorem tokenise_inverts_wrapper_name (gs : List G1) (hI : ∀ g ∈ gs, g ≠ .I) :
    (tokenise (wrapName gs)).map nameToClass = gs.map fun g => some (Cls.g1 g) := by
  unfold wrapName
  rw [tokenise_flatten _ (by
    intro n hn
    obtain ⟨g, hg, rfl⟩ := List.mem_map.1 hn
    exact g1Name_tokOK g (hI g hg)), List.map_map]
  apply List.map_congr_left
  intro g hg
  exact tbl_g1_roundtrip g (G1.mem_all g) (hI g hg)

/-- a concatenation of two or more gate names is never itself a key of `name_to_class_map`, so the importer takes the
    tokenising branch exactly for genuine composites -/
theorem composite_name_is_not_a_key (gs : List G1) (hI : ∀ g ∈ gs, g ≠ .I) (h2 : 2 ≤ gs.length) :
    nameToClass (wrapName gs) = none :=
  concat_not_a_key gs hI h2

/-! ## 3. openQASM round trip, for every circuit (induction over the operation list) -/

/-- **Round trip through openQASM.**  For every circuit `c` and every operation order `seq` whose operations use only
    registers of `c`: exporting succeeds, importing the exported program succeeds, and the imported circuit has the same
    register counts and — operation by operation, in the same order — the normalised operations of `seq`
    (identities dropped, wrappers reduced to their non-identity classes, a one-class wrapper a plain gate). -/
theorem openqasm_roundtrip (c : Circuit) (seq : List Op) (h : ∀ op ∈ seq, InRange c op) :
    (toOpenqasm c seq).bind fromOpenqasm = .ok { ne := c.ne, np := c.np, nc := c.nc, ops := seq.filterMap normOp } :=
  fromOpenqasm_toOpenqasm c seq h

/-- … hence the same sequence of executed (unwrapped, identity-free) operations, in particular on every register -/
theorem openqasm_roundtrip_same_operations (c c' : Circuit) (seq : List Op) (h : ∀ op ∈ seq, InRange c op)
    (himp : (toOpenqasm c seq).bind fromOpenqasm = .ok c') :
    c'.ne = c.ne ∧ c'.np = c.np ∧ c'.nc = c.nc ∧ flat c'.ops = flat seq ∧
    ∀ r : QReg, (flat c'.ops).filter (fun o => o.qRegs.contains r) = (flat seq).filter (fun o => o.qRegs.contains r) := by
  rw [openqasm_roundtrip c seq h] at himp
  injection himp with himp
  subst himp
  refine ⟨rfl, rfl, rfl, flat_filterMap_normOp seq, fun r => ?_⟩
  show (flat (seq.filterMap normOp)).filter _ = _
  rw [flat_filterMap_normOp]

/-! ## 4. JSON round trip -/

/-- **Round trip through JSON**: same registers and exactly the same operation list (wrappers and identities
    included), for every circuit whose operations use existing registers (a `OneQubitGateWrapper` cannot be
    constructed with an empty list, hence `hw`) -/
theorem json_roundtrip (c : Circuit) (seq : List Op) (h : ∀ op ∈ seq, InRange c op)
    (hw : ∀ op ∈ seq, wrapOK op = true) :
    fromJson (toJson c seq) = .ok { ne := c.ne, np := c.np, nc := c.nc, ops := seq } :=
  fromJson_toJson c seq h hw

/-! ## 5. The text read with standard openQASM 2.0 semantics -/

/-- **composite body order = application order** (the list-reversal lemma behind D21): a wrapper whose `operations` list
    is `gs` acts as `gs` reversed (`OneQubitGateWrapper.unwrap`), and the body of the composite gate it defines lists
    exactly those classes' gate names in that (application) order -/
theorem composite_body_is_application_order (gs : List G1) (q : QReg) :
    (compOf gs).body = ((flat [Op.wrap gs q]).filterMap fun o => match o with | .one g _ => some (g1Name g) | _ => none) := by
  rw [flat_wrap]
  show ((gs.filter (· != .I)).map g1Name).reverse = _
  rw [← List.map_reverse]
  generalize (gs.filter (· != .I)).reverse = l
  induction l with
  | nil => rfl
  | cons g rest ih => simp only [List.map_cons, List.filterMap_cons, ih]

/-- every wrapper with two or more non-identity classes that was added to the circuit has its composite definition in
    the header, and every header entry is a class definition or such a composite -/
theorem header_has_the_composites (c : Circuit) : ∃ defs, headerOf c.ops = .ok ([], defs) ∧ (∀ d ∈ defs, EntryOK d) ∧
    ∀ gs q, Op.wrap gs q ∈ c.ops → 2 ≤ (gs.filter (· != .I)).length → compEntry gs ∈ defs :=
  headerOf_comps c.ops

/-- **standard reading.**  For every circuit and every order `seq` of (some of) its operations, the exported program
    read with standard openQASM 2.0 semantics — a call of a composite gate executes its body in textual order, barriers
    do nothing — is exactly the sequence of the circuit's own primitive operations in application order
    (`stdSpec`: wrappers unwrapped, identities dropped, idioms as measure / conditional gate / reset); `stdOfCircuit`,
    which the driver prints for the correspondence run, computes that same sequence. -/
theorem standard_reading (c : Circuit) (seq : List Op) (hsub : ∀ op ∈ seq, op ∈ c.ops) :
    (∃ p, toOpenqasm c seq = .ok p ∧ qasmStd p = stdSpec seq) ∧ stdOfCircuit seq = .ok (stdSpec seq) :=
  ⟨qasmStd_toOpenqasm c seq hsub, stdOfCircuit_spec seq⟩

/-! ## 6. Text level: register tokens of any length survive the slicing of the parser -/

/-- the importer reads register indices with `int(tok[1:-3])` (single-register and target tokens `<t><n>[0]`) and
    `int(tok[1:-4])` (control token `<t><n>[0],`).  For every register — any number of digits — these recover type and
    index from the token the exporter writes, and `int(str(n)) = n` for the model's printer/reader. -/
theorem register_tokens_roundtrip (q : QReg) :
    regToken 3 (q.render ++ "[0]".toList) = .ok (q.t.ch, q.i) ∧
    regToken 4 (q.render ++ "[0],".toList) = .ok (q.t.ch, q.i) ∧
    regTOfChar q.t.ch = some q.t ∧ readNat (showNat q.i) = some q.i :=
  ⟨regToken_single q, regToken_control q, regTOfChar_ch q.t, readNat_showNat q.i⟩

/-! ## 7. Determinism -/

/-- export is a function of (registers, operations as added, `sequence()` order): the model has no other state.
    (That the *implementation* has none — exporting twice, exporting a deep copy, exporting a rebuilt circuit — is what
    the correspondence run checks; this statement only records that nothing else enters the model.) -/
theorem export_deterministic (c₁ c₂ : Circuit) (s₁ s₂ : List Op) (hc : c₁ = c₂) (hs : s₁ = s₂) :
    toOpenqasm c₁ s₁ = toOpenqasm c₂ s₂ ∧ toJson c₁ s₁ = toJson c₂ s₂ := by
  subst hc; subst hs; exact ⟨rfl, rfl⟩

/-! ## Non-vacuity: a concrete circuit meeting the hypotheses, evaluated by the kernel -/

/-- H e0; W[H,P†,I,Z] p1; CNOT e0→p1; measure-and-reset e1→p0 (c0); classical CZ; Z-measurement; identity; W[I] -/
def demo : Circuit :=
  { ne := 2, np := 2, nc := 1,
    ops := [.one .H ⟨.e, 0⟩, .wrap [.H, .Sdg, .I, .Z] ⟨.p, 1⟩, .ctrl .CNOT ⟨.e, 0⟩ ⟨.p, 1⟩,
            .cctrl .MCR ⟨.e, 1⟩ ⟨.p, 0⟩ 0, .cctrl .CCZ ⟨.e, 1⟩ ⟨.p, 0⟩ 0, .meas ⟨.e, 0⟩ 0, .one .I ⟨.e, 0⟩,
            .wrap [.I] ⟨.p, 1⟩, .wrap [.S, .I] ⟨.p, 0⟩] }

example : ∀ op ∈ demo.ops, InRange demo op := by decide +kernel
example : ∀ op ∈ demo.ops, wrapOK op = true := by decide +kernel
example : (toOpenqasm demo demo.ops).bind fromOpenqasm =
    .ok { ne := 2, np := 2, nc := 1,
          ops := [.one .H ⟨.e, 0⟩, .wrap [.H, .Sdg, .Z] ⟨.p, 1⟩, .ctrl .CNOT ⟨.e, 0⟩ ⟨.p, 1⟩,
                  .cctrl .MCR ⟨.e, 1⟩ ⟨.p, 0⟩ 0, .cctrl .CCZ ⟨.e, 1⟩ ⟨.p, 0⟩ 0, .meas ⟨.e, 0⟩ 0, .one .S ⟨.p, 0⟩] } := by
  decide +kernel
example : fromJson (toJson demo demo.ops) = .ok demo := by decide +kernel
example : (match toOpenqasm demo demo.ops with
    | .ok p => decide (qasmStd p = stdSpec demo.ops) && !(qasmStd p).isEmpty
    | .error _ => false) = true := by decide +kernel
example : ∀ g ∈ [G1.H, G1.Sdg, G1.Z], g ≠ G1.I := by decide +kernel
/-- the text-level parser (regexes, slicing) reads the rendered text of the demo program to the same circuit as the
    statement-level parser of the theorems; register e12 has a two-digit index -/
example : (toOpenqasm demo demo.ops).bind (fun p => fromOpenqasmText p.render) = (toOpenqasm demo demo.ops).bind fromOpenqasm := by
  decide +kernel
example : fromOpenqasmText "OPENQASM 2.0;\nqreg e0[1];qreg e1[1];qreg e2[1];qreg e3[1];qreg e4[1];qreg e5[1];qreg e6[1];qreg e7[1];qreg e8[1];qreg e9[1];qreg e10[1];qreg e11[1];qreg e12[1];\nCX e12[0], e3[0];".toList =
    .ok ⟨13, 0, 0, [.ctrl .CNOT ⟨.e, 12⟩ ⟨.e, 3⟩]⟩ := by decide +kernel

end Graphiq.C14
