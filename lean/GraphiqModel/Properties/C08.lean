/-
  C08 — conversions among graph, stabilizer and density-matrix forms preserve the state.
-/
import GraphiqModel.Proofs.Convert
namespace Graphiq.C08
open Graphiq Graphiq.PRow Graphiq.Tab Graphiq.STab

/-- **graph → stabilizer** (`_graph_to_stabilizer_pure`, every n): row `v` of the produced tableau is `X_v ∏_{w ~ v} Z_w` with sign `+` -/
theorem graph_to_stabilizer_rows (n : Nat) (adj : Nat → Nat → Bool) (v : Nat) :
    ((graphSTab n adj).row v).r = false ∧ (∀ j, ((graphSTab n adj).row v).x j = decide (j = v)) ∧
    (∀ j, j < n → ((graphSTab n adj).row v).z j = adj v j) := by
  refine ⟨rfl, fun j => rfl, fun j hj => ?_⟩
  simp [graphSTab, hj]

/-- **graph → density matrix** (`_graph_to_density_pure`: |+…+⟩ then one CZ per edge, every n, every edge list with distinct
    endpoints): in stabilizer terms the result has, for every vertex `i`, the generator `+X_i ∏_j Z_j^{#edges(i,j) mod 2}`;
    for the edge list of a simple graph this is exactly the graph-state generator `X_i ∏_{j ~ i} Z_j` — the same state that
    graph → stabilizer produces -/
theorem graph_to_density_generators (n : Nat) (edges : List (Nat × Nat)) (hne : ∀ e, e ∈ edges → e.1 ≠ e.2) (i : Nat) :
    let p := (czEdges (plusSTab n) edges).row i
    (∀ j, p.x j = decide (j = i)) ∧ (∀ j, p.z j = edgeParity edges i j) ∧ p.r = false ∧ p.ip = false :=
  czEdges_plus n edges hne i

/-- **state → graph, soundness of what is returned** (every n, every state, every returned gate list): if the validator accepts
    `(graph, gates)` for a stabilizer state, then the gates map the state exactly — signs included — onto the graph state:
    the two generate the same signed group -/
theorem state_to_graph_validator_sound (t : STab) (gates : List Gate) (adj : Nat → Nat → Bool)
    (h : checkConversion t gates adj = true) :
    (t.runCircuit gates).n = t.n ∧ ∀ p, (t.runCircuit gates).Spn p ↔ (graphSTab t.n adj).Spn p := by
  have s := checkConversion_sound t gates adj h
  exact ⟨s.n_eq, fun p => ⟨s.sub p, s.sup p⟩⟩

/- Not theorems of this development (kept visible): (1) `state_to_graph` succeeds on every stabilizer state — false on the current
   code (known finding D40: the Hadamard-position heuristic `_position_finder` fails, e.g. on the one-qubit |0⟩); (2) the
   density-matrix side (negativity-based edge detection, float `det·inv` GF(2) inverses) — compared numerically per input. -/

/-! ### Non-vacuity: the triangle graph through both constructions -/
def tri : Nat → Nat → Bool := fun i j => i != j && i < 3 && j < 3
example : (List.range 3).all (fun i => (List.range 3).all fun j =>
    ((czEdges (plusSTab 3) [(0, 1), (1, 2), (0, 2)]).row i).z j == ((graphSTab 3 tri).row i).z j) = true := by decide
example : checkConversion (graphSTab 3 tri) [] tri = true := by decide +kernel

end Graphiq.C08
