/-
  C08 — conversions among graph, stabilizer and density-matrix forms preserve the state.
-/
import GraphiqModel.Proofs.Convert
import GraphiqModel.Proofs.StateToGraph
import GraphiqModel.Proofs.StateToGraphRoundTrip
import GraphiqModel.Proofs.StateToGraphTotal
import GraphiqModel.Proofs.StateToGraphGauge
import GraphiqModel.Proofs.StateToGraphAdjugate
import GraphiqModel.Proofs.StateToGraphDensity
import GraphiqModel.Proofs.StateToGraphNegativity
import GraphiqModel.Proofs.StateToGraphHilbert
import GraphiqModel.Proofs.StateToGraphGaugeIndep
import GraphiqModel.Proofs.StateToGraphTableau
import GraphiqModel.Proofs.StateToGraphPairMatrix
import GraphiqModel.Proofs.StateToGraphSpectrum
import GraphiqModel.Proofs.GraphStateGroup
import GraphiqModel.Proofs.InvTotal
namespace Graphiq.C08
open Graphiq Graphiq.PRow Graphiq.Tab Graphiq.STab

/-- **graph → stabilizer** (`_graph_to_stabilizer_pure`, every n): row `v` of the produced tableau is `X_v ∏_{w ~ v} Z_w` with sign `+` -/
theorem graph_to_stabilizer_rows (n : Nat) (adj : Nat → Nat → Bool) (v : Nat) :
    ((graphSTab n adj).row v).r = false ∧ (∀ j, ((graphSTab n adj).row v).x j = decide (j = v)) ∧
    (∀ j, j < n → ((graphSTab n adj).row v).z j = adj v j) := by
  refine ⟨rfl, fun j => rfl, fun j hj => ?_⟩
  simp [graphSTab, hj]

/-- **graph → density matrix** (`_graph_to_density_pure`: |+…+⟩ then one CZ per edge, every n, every edge list with distinct
    endpoints): in stabilizer terms the result has, for every vertex `i`, the generator `+X_i ∏_j Z_j^{#edges(i,j) mod 2}`;
    for the edge list of a simple graph this is exactly the graph-state generator `X_i ∏_{j ~ i} Z_j` — the same state that
    graph → stabilizer produces -/
theorem graph_to_density_generators (n : Nat) (edges : List (Nat × Nat)) (hne : ∀ e, e ∈ edges → e.1 ≠ e.2) (i : Nat) :
    let p := (czEdges (plusSTab n) edges).row i
    (∀ j, p.x j = decide (j = i)) ∧ (∀ j, p.z j = edgeParity edges i j) ∧ p.r = false ∧ p.ip = false :=
  czEdges_plus n edges hne i

/-- **state → graph, soundness of what is returned** (every n, every state, every returned gate list): if the validator accepts
    `(graph, gates)` for a stabilizer state, then the gates map the state exactly — signs included — onto the graph state:
    the two generate the same signed group -/
theorem state_to_graph_validator_sound (t : STab) (gates : List Gate) (adj : Nat → Nat → Bool)
    (h : checkConversion t gates adj = true) :
    (t.runCircuit gates).n = t.n ∧ ∀ p, (t.runCircuit gates).Spn p ↔ (graphSTab t.n adj).Spn p := by
  have s := checkConversion_sound t gates adj h
  exact ⟨s.n_eq, fun p => ⟨s.sub p, s.sup p⟩⟩

/-! ### the modelled `state_to_graph` / `stabilizer_to_graph` (Model/StateToGraph.lean) -/

/-- an in-range single-qubit gate passes the bounds test of the validator -/
theorem wf_inBounds (n : Nat) (g : Gate) (h : g.WF n) : g.inBounds n = true := by
  cases g <;> simp_all [Gate.WF, Gate.inBounds]

/-- **`state_to_graph` is sound** (every n, every input tableau, every candidate GF(2) inverse `inv` — whatever the inverse
    computation of `_graph_finder` evaluates to, the code re-checks it): whenever the modelled `state_to_graph` returns `(graph, gates)`, the graph is
    simple, the gates are in range, and running them on the input tableau gives a tableau that generates exactly — signs
    included — the signed group of the graph state.  This is the conclusion of `state_to_graph_validator_sound`, now as a theorem
    about the modelled code (`row_reduction`, `_position_finder`, `hadamard_transform`, the two closing assertions of
    `_graph_finder`, `canonical_form`, `_phase_correction`), not a per-output check.
    Hypothesis `hreal`: the rows carry no i-phase — `StabilizerTableau` has no such field (the model's `ip` is constantly `false`). -/
theorem state_to_graph_sound (inv : Nat → Adj → Option Adj) (t : STab)
    (hreal : ∀ i, i < t.n → (t.row i).ip = false) (adj : BMat) (gates : List Gate)
    (h : S2G.stateToGraphWith inv t = .ok (adj, gates)) :
    ((t.runCircuit gates).n = t.n ∧ ∀ p, (t.runCircuit gates).Spn p ↔ (graphSTab t.n adj.f).Spn p) ∧
    gates.all (Gate.inBounds t.n) = true ∧
    (∀ i j, i < t.n → j < t.n → adj.f i j = adj.f j i) ∧ (∀ i, i < t.n → adj.f i i = false) := by
  obtain ⟨wf, s, hsym, hirr⟩ := stateToGraphWith_sound inv t hreal adj gates h
  refine ⟨⟨s.n_eq, fun p => ⟨s.sub p, s.sup p⟩⟩, ?_, hsym, hirr⟩
  rw [List.all_eq_true]
  exact fun g hg => wf_inBounds t.n g (wf g hg)

/-- the instance for the executable model (exact GF(2) elimination), which is the one compared with the Python on every input -/
theorem state_to_graph_exact_sound (t : STab) (hreal : ∀ i, i < t.n → (t.row i).ip = false) (adj : BMat)
    (gates : List Gate) (h : S2G.stateToGraph t = .ok (adj, gates)) :
    (t.runCircuit gates).n = t.n ∧ ∀ p, (t.runCircuit gates).Spn p ↔ (graphSTab t.n adj.f).Spn p :=
  (state_to_graph_sound S2G.gf2InvF t hreal adj gates h).1

/-- **`stabilizer_to_graph(validate=True)` is sound** (every n, every input): a returned graph is simple and its graph state is
    the input state (same signed group) -/
theorem stabilizer_to_graph_sound (t : STab) (hreal : ∀ i, i < t.n → (t.row i).ip = false) (adj : BMat)
    (h : S2G.stabilizerToGraph t = .ok adj) :
    (∀ p, t.Spn p ↔ (graphSTab t.n adj.f).Spn p) ∧
    (∀ i j, i < t.n → j < t.n → adj.f i j = adj.f j i) ∧ (∀ i, i < t.n → adj.f i i = false) := by
  obtain ⟨s, hsym, hirr⟩ := stabilizerToGraph_sound t hreal adj h
  exact ⟨fun p => ⟨s.sub p, s.sup p⟩, hsym, hirr⟩

/-- a returned result means the input was a valid stabilizer state (real, mutually commuting generators): the conversion never
    "succeeds" on a table that is not a state -/
theorem state_to_graph_input_is_state (inv : Nat → Adj → Option Adj) (t : STab)
    (hreal : ∀ i, i < t.n → (t.row i).ip = false) (r : BMat × List Gate)
    (h : S2G.stateToGraphWith inv t = .ok r) : t.Good := by
  unfold S2G.stateToGraphWith at h
  split at h
  · cases h
  · next g hg => exact (afterLC_of_spec t hreal g (S2G.graphFinderWith_spec inv _ g hg)).good

/-! ### completeness: the modelled `state_to_graph` returns on every stabilizer state -/

/-- **a stabilizer state, as a tableau**: `n` generators that are real (no i-phase), commute pairwise (`Good`) and are linearly
    independent over GF(2) as rows `[x | z]` (`S2G.Indep`: a GF(2) combination of the rows vanishes only with all coefficients 0).
    (`−I` is then not in the group: `no_minus_one_of_indep`.) -/
def IsStabilizerState (t : STab) : Prop := t.Good ∧ S2G.Indep (S2G.XZ.ofSTab t)

/-- **`state_to_graph` is complete** (every n ≥ 1, every stabilizer state; code as repaired in /repo 86ab4f1 (D40), 8a43724 (D49) and
    70adac4 (D51)): the modelled `state_to_graph` RETURNS a graph and a gate list — none of the assertions of `_graph_finder`
    ("Stabilizer generators are not independent", "Final Z matrix is not a graph", "Unexpected X matrix"), none of the three closing
    assertions of `canonical_form` inside `_phase_correction`, and no singular-matrix error fires.
    Proof: `row_reduction` keeps independence and commutation and leaves the X part in echelon form; the repaired `_position_finder`
    returns exactly the non-pivot columns; after the Hadamards on them the X part has trivial kernel (rank argument
    `hadamard_rows_independent`), so the inverse exists and passes the re-check; `final_z = z.T @ x_inv` is symmetric because the rows
    commute (`X Zᵀ = Z Xᵀ`); after the `P_dag` gates the X part of the canonical form is the identity, so `_phase_correction` inverts
    the identity.
    Stated for every inverse computation `inv` that returns a left inverse on every matrix with trivial kernel (`S2G.InvOK`).  The code's
    own inverse — since 70adac4 the exact Gauss–Jordan elimination `_gf2_inverse`, which the model's `gf2Inv`/`gf2InvF` mirrors step by
    step — is one (`state_to_graph_exact_complete`): NO floating-point step is left in `state_to_graph`, so this is a theorem about the
    code's own algorithm (tied to the Python by exact comparison of graph, gates and error class on every generated input).
    History: the proof was first carried out with the float `np.round(det · inv) % 2` of the code replaced by exact elimination; probing
    the excluded float step at large n exposed D51 (from ≈ 42 qubits on the float product loses the integers and valid states raised),
    repaired by replacing the float step by the elimination the theorem is about. -/
theorem state_to_graph_complete (inv : Nat → Adj → Option Adj) (t : STab) (hn : 0 < t.n) (hinv : S2G.InvOK inv t.n)
    (hstate : IsStabilizerState t) : ∃ adj gates, S2G.stateToGraphWith inv t = .ok (adj, gates) :=
  stateToGraphWith_complete inv t hn hinv hstate.1 hstate.2

/-- the instance for the executable model = the code's own `_gf2_inverse` (exact GF(2) elimination), the one compared with the Python on
    every input -/
theorem state_to_graph_exact_complete (t : STab) (hn : 0 < t.n) (hstate : IsStabilizerState t) :
    ∃ adj gates, S2G.stateToGraph t = .ok (adj, gates) :=
  stateToGraph_complete t hn hstate.1 hstate.2

/-- **`state_to_graph` is totally correct on the model** (completeness + soundness, every n ≥ 1): every stabilizer state is converted to
    a simple graph and a list of in-range gates that map the state exactly — signs included — onto that graph's state -/
theorem state_to_graph_correct (t : STab) (hn : 0 < t.n) (hstate : IsStabilizerState t) :
    ∃ adj gates, S2G.stateToGraph t = .ok (adj, gates) ∧
      ((t.runCircuit gates).n = t.n ∧ ∀ p, (t.runCircuit gates).Spn p ↔ (graphSTab t.n adj.f).Spn p) ∧
      gates.all (Gate.inBounds t.n) = true ∧
      (∀ i j, i < t.n → j < t.n → adj.f i j = adj.f j i) ∧ (∀ i, i < t.n → adj.f i i = false) := by
  obtain ⟨adj, gates, h⟩ := state_to_graph_exact_complete t hn hstate
  exact ⟨adj, gates, h, state_to_graph_sound S2G.gf2InvF t hstate.1.real adj gates h⟩

/-- **`state_to_graph` on a `CliffordTableau`** (the code converts `tableau.to_stabilizer()`; every n ≥ 1): the stabilizer half of every
    VALID Clifford tableau — the invariant `Tab.Valid` (the 2n rows form a symplectic basis), which `C07.history_valid` proves for every
    tableau reachable from a valid one by gates, measurements, resets, insertions, removals, partial traces — is a stabilizer state in
    the sense of `IsStabilizerState` (each destabilizer row anticommutes with exactly one stabilizer row, so the stabilizer rows are
    independent), hence it is converted, exactly: `state_to_graph` returns on every tableau the simulator can hold -/
theorem state_to_graph_complete_on_valid_tableau (T : Tab) (hn : 0 < T.n) (hv : T.Valid) :
    IsStabilizerState (STab.ofTab T) ∧
    ∃ adj gates, S2G.stateToGraph (STab.ofTab T) = .ok (adj, gates) ∧
      ∀ p, ((STab.ofTab T).runCircuit gates).Spn p ↔ (graphSTab T.n adj.f).Spn p := by
  have hs : IsStabilizerState (STab.ofTab T) := ofTab_good_indep T hv
  obtain ⟨adj, gates, h, hsound, _⟩ := state_to_graph_correct (STab.ofTab T) hn hs
  exact ⟨hs, adj, gates, h, hsound.2⟩

/-- non-vacuity: the Clifford tableau of `|0⟩⊗|0⟩` (destabilizers `X_i`, stabilizers `Z_i`) is valid -/
example : 0 < (Tab.ket0 2).n ∧ (Tab.ket0 2).Valid := ⟨by decide, (Tab.isSymplectic_iff _).mp (by decide)⟩

/-- `state_to_graph_exact_complete` with the hypothesis spelled out in primitive terms (no auxiliary definitions): the rows carry no
    i-phase, their symplectic products vanish pairwise, and a GF(2) combination of the rows `[x | z]` vanishes only trivially -/
theorem state_to_graph_complete_real_commuting_independent (t : STab) (hn : 0 < t.n)
    (hreal : ∀ i, i < t.n → (t.row i).ip = false)
    (hcomm : ∀ i k, i < t.n → k < t.n → PRow.sp t.n (t.row i) (t.row k) = false)
    (hind : ∀ c : Nat → Bool, (∀ j, j < t.n → parityTo t.n (fun i => c i && (t.row i).x j) = false ∧
      parityTo t.n (fun i => c i && (t.row i).z j) = false) → ∀ i, i < t.n → c i = false) :
    ∃ adj gates, S2G.stateToGraph t = .ok (adj, gates) :=
  state_to_graph_exact_complete t hn ⟨⟨hreal, hcomm⟩, hind⟩

/-! ### the former floating-point lines of `_graph_finder`, read in exact arithmetic (history; the code no longer contains them)

  Until /repo 70adac4 `_graph_finder` read `assert int(np.round(np.linalg.det(x_mat))) % 2 != 0` and
  `x_inv = (np.round(det(x_mat.T) * inv(x_mat.T)) % 2).astype(int)`.  For an integer matrix `det · inv` is the adjugate, an integer matrix;
  `S2G.adjInv` is that reading (`none` = the assertion fires).  Proved: with it the conversion is complete and returns exactly what the
  Gauss–Jordan elimination returns — so the repair did not change any result the old code could compute correctly; what the old code
  could not do is evaluate `det · inv` within 1/2 in floating point (D49: truncation; D51: from ≈ 42 qubits on the integers are lost). -/

/-- **the determinant assertion cannot fire in exact arithmetic** (every n ≥ 1, every stabilizer state): the integer determinant of
    `x_mat` after `row_reduction` and the Hadamards chosen by the repaired `_position_finder` is odd (so is that of `x_mat.T`) -/
theorem determinant_assertion_holds_exactly (t : STab) (hn : 0 < t.n) (hstate : IsStabilizerState t) :
    (S2G.intMat t.n (S2G.xAfterHadamards (S2G.XZ.ofSTab t))).det % 2 = 1 ∧
    (S2G.intMat t.n (S2G.transpose (S2G.xAfterHadamards (S2G.XZ.ofSTab t)))).det % 2 = 1 :=
  have h := S2G.det_xAfterHadamards_odd (S2G.XZ.ofSTab t) hn (comm_ofSTab t hstate.1) hstate.2
  ⟨h.2, h.1⟩

/-- the adjugate reduced mod 2 is a correct GF(2) inverse on every matrix with trivial kernel, and it is entry by entry the matrix the
    executable model computes by Gauss–Jordan elimination -/
theorem exact_det_inv_is_the_model_inverse (n : Nat) :
    S2G.InvOK S2G.adjInv n ∧
    ∀ A, S2G.Inj n A → ∃ M M', S2G.adjInv n A = some M ∧ S2G.gf2InvF n A = some M' ∧ ∀ i j, i < n → j < n → M i j = M' i j :=
  ⟨S2G.adjInv_ok n, fun A h => S2G.adjInv_eq_gf2InvF n A h⟩

/-- **`state_to_graph` with the exact-arithmetic `det · inv % 2` is the executable model** (every n ≥ 1, every stabilizer state): same
    graph, same gate list; in particular it returns and is exact (`state_to_graph_correct`) -/
theorem state_to_graph_exact_arithmetic (t : STab) (hn : 0 < t.n) (hstate : IsStabilizerState t) :
    S2G.stateToGraphWith S2G.adjInv t = S2G.stateToGraph t :=
  stateToGraphWith_adjInv t hn hstate.1 hstate.2

/-- **`state_to_graph` returns exactly on the stabilizer states** (tableaux without i-phase): the modelled conversion returns a result
    iff `n ≥ 1` and the rows commute pairwise and are linearly independent.  (⇐ is `state_to_graph_exact_complete`; ⇒: the re-check
    `x_inv @ x.T = I` certifies that the X part after the Hadamards is invertible, so the rows were independent, and symmetry of
    `final_z` forces commutation.) -/
theorem state_to_graph_returns_iff_state (t : STab) (hreal : ∀ i, i < t.n → (t.row i).ip = false) :
    (∃ r, S2G.stateToGraph t = .ok r) ↔ (0 < t.n ∧ IsStabilizerState t) := by
  constructor
  · rintro ⟨r, h⟩
    have hgood := state_to_graph_input_is_state S2G.gf2InvF t hreal r h
    unfold S2G.stateToGraph S2G.stateToGraphWith at h
    split at h
    · cases h
    · next g hg =>
      have spec := S2G.graphFinderWith_spec S2G.gf2InvF _ g hg
      exact ⟨spec.n_pos, hgood, S2G.indep_of_gfspec _ g spec⟩
  · rintro ⟨hn, hs⟩
    obtain ⟨adj, gates, h⟩ := state_to_graph_exact_complete t hn hs
    exact ⟨(adj, gates), h⟩

/-- **the returned gates are single-qubit gates** (every n, every input, every candidate inverse): the list is
    `H` on distinct qubits, then `P_dag` on distinct qubits, then `Z` on distinct qubits, all below `n` — no two-qubit gate.  With
    `state_to_graph_sound` this says that the returned graph state is LOCAL-Clifford equivalent to the input state. -/
theorem state_to_graph_gates_are_local (inv : Nat → Adj → Option Adj) (t : STab)
    (hreal : ∀ i, i < t.n → (t.row i).ip = false) (adj : BMat) (gates : List Gate)
    (h : S2G.stateToGraphWith inv t = .ok (adj, gates)) :
    ∃ hpos pdag zs : List Nat, gates = hpos.map Gate.H ++ pdag.map Gate.Pdag ++ zs.map Gate.Z ∧
      hpos.Nodup ∧ pdag.Nodup ∧ zs.Nodup ∧ (∀ q, q ∈ hpos → q < t.n) ∧ (∀ q, q ∈ pdag → q < t.n) ∧ (∀ q, q ∈ zs → q < t.n) := by
  obtain ⟨hpos, pdag, zs, e, h1, h2, h3⟩ := stateToGraphWith_gates inv t adj gates h
  obtain ⟨wf, _⟩ := stateToGraphWith_sound inv t hreal adj gates h
  refine ⟨hpos, pdag, zs, e, h1, h2, h3, fun q hq => ?_, fun q hq => ?_, fun q hq => ?_⟩
  · exact wf (Gate.H q) (by rw [e]; simp [hq])
  · exact wf (Gate.Pdag q) (by rw [e]; simp [hq])
  · exact wf (Gate.Z q) (by rw [e]; simp [hq])

/-- **every stabilizer state is local-Clifford equivalent to the graph state `state_to_graph` returns** (every n ≥ 1): there is a list
    of single-qubit `H` / `P_dag` / `Z` gates — the one the modelled conversion returns — that maps the state exactly onto `|G⟩` -/
theorem state_to_graph_lc_equivalent (t : STab) (hn : 0 < t.n) (hstate : IsStabilizerState t) :
    ∃ (adj : BMat) (hpos pdag zs : List Nat),
      S2G.stateToGraph t = .ok (adj, hpos.map Gate.H ++ pdag.map Gate.Pdag ++ zs.map Gate.Z) ∧
      (∀ q, q ∈ hpos ++ pdag ++ zs → q < t.n) ∧
      (∀ p, (t.runCircuit (hpos.map Gate.H ++ pdag.map Gate.Pdag ++ zs.map Gate.Z)).Spn p ↔ (graphSTab t.n adj.f).Spn p) := by
  obtain ⟨adj, gates, h, hs, _⟩ := state_to_graph_correct t hn hstate
  obtain ⟨hpos, pdag, zs, e, _, _, _, b1, b2, b3⟩ := state_to_graph_gates_are_local S2G.gf2InvF t hstate.1.real adj gates h
  subst e
  refine ⟨adj, hpos, pdag, zs, h, fun q hq => ?_, hs.2⟩
  simp only [List.mem_append] at hq
  rcases hq with (hq | hq) | hq
  · exact b1 q hq
  · exact b2 q hq
  · exact b3 q hq

/-- **state → graph → state round trip** (every n, every input, every candidate inverse): running the returned gate list BACKWARDS
    (`run_circuit(reverse=True)`: reversed order, `P ↔ P_dag`) on `graph_to_stabilizer` of the returned graph gives back the
    input state — the same signed group -/
theorem state_round_trip (inv : Nat → Adj → Option Adj) (t : STab) (hreal : ∀ i, i < t.n → (t.row i).ip = false)
    (adj : BMat) (gates : List Gate) (h : S2G.stateToGraphWith inv t = .ok (adj, gates)) :
    ∀ p, ((graphSTab t.n adj.f).runCircuit (revCirc gates)).Spn p ↔ t.Spn p := by
  obtain ⟨wf, s, hsym, _⟩ := stateToGraphWith_sound inv t hreal adj gates h
  have hg := state_to_graph_input_is_state inv t hreal (adj, gates) h
  have r := runCircuit_rev_spanEq t (graphSTab t.n adj.f) gates wf hg (graphSTab_good t.n adj.f hsym) s
  exact fun p => ⟨r.sub p, r.sup p⟩

/-- … and on every stabilizer state the round trip is defined (completeness) and returns the state -/
theorem state_round_trip_total (t : STab) (hn : 0 < t.n) (hstate : IsStabilizerState t) :
    ∃ adj gates, S2G.stateToGraph t = .ok (adj, gates) ∧
      ∀ p, ((graphSTab t.n adj.f).runCircuit (revCirc gates)).Spn p ↔ t.Spn p := by
  obtain ⟨adj, gates, h⟩ := state_to_graph_exact_complete t hn hstate
  exact ⟨adj, gates, h, state_round_trip S2G.gf2InvF t hstate.1.real adj gates h⟩

/-- non-vacuity: the Bell state `⟨XX, −ZZ⟩` is converted (one Hadamard, one sign-fixing `Z`) to the graph `0 – 1` -/
def bellMinus : STab :=
  { n := 2, row := fun i => if i = 0 then ⟨fun j => decide (j < 2), fun _ => false, false, false⟩
                            else ⟨fun _ => false, fun j => decide (j < 2), true, false⟩ }
example : ∀ i, i < bellMinus.n → (bellMinus.row i).ip = false := by
  intro i _; show (if i = 0 then _ else _ : PRow).ip = false; split <;> rfl
set_option maxRecDepth 100000 in
example : (match S2G.stateToGraph bellMinus with
    | .ok (adj, gates) => adj.bits == "0110" && gates == [Gate.H 1, Gate.Z 1]
    | .error _ => false) = true := by decide +kernel
/-- the one-qubit `|0⟩ = ⟨+Z⟩` (rejected before the repair of D40) converts to the one-vertex graph with the single gate `H 0` -/
example : (match S2G.stateToGraph (STab.zero 1) with
    | .ok (adj, gates) => adj.bits == "0" && gates == [Gate.H 0]
    | .error _ => false) = true := by decide +kernel

/-- non-vacuity of `state_to_graph_complete`: the one-qubit `|0⟩ = ⟨+Z⟩` is a stabilizer state in the sense of the hypothesis -/
example : 0 < (STab.zero 1).n ∧ IsStabilizerState (STab.zero 1) := by
  refine ⟨by decide, S2G.good_of_check _ (by decide), ?_⟩
  intro c hc i hi
  have h0 := (hc 0 (by decide)).2
  have hi0 : i = 0 := by have : i < 1 := hi; omega
  subst hi0
  simpa [S2G.XZ.ofSTab, STab.zero, PRow.Zq, parityTo] using h0

/-- `|0⟩ ⊗ Bell` with negative signs: `⟨−Z₀, −X₁X₂, −Z₁Z₂⟩` (qubit 0 has no X component: the D40 shape) -/
def ketBellNeg : STab :=
  { n := 3, row := fun i =>
      if i = 0 then ⟨fun _ => false, fun j => decide (j = 0), true, false⟩
      else if i = 1 then ⟨fun j => decide (j = 1 ∨ j = 2), fun _ => false, true, false⟩
      else ⟨fun _ => false, fun j => decide (j = 1 ∨ j = 2), true, false⟩ }

/-- non-vacuity of `state_to_graph_complete` / `state_to_graph_correct`: `|0⟩ ⊗ Bell` with negative signs meets the hypotheses -/
example : 0 < ketBellNeg.n ∧ IsStabilizerState ketBellNeg := by
  refine ⟨by decide, S2G.good_of_check _ (by decide), ?_⟩
  intro c hc
  have h0 := (hc 0 (by decide)).2
  have h1 := (hc 1 (by decide)).1
  have h2 := (hc 1 (by decide)).2
  simp [S2G.XZ.ofSTab, ketBellNeg, parityTo] at h0 h1 h2
  intro i hi
  have : i < 3 := hi
  have h : i = 0 ∨ i = 1 ∨ i = 2 := by omega
  rcases h with rfl | rfl | rfl
  · exact h0
  · exact h1
  · exact h2
set_option maxRecDepth 100000 in
/-- … and the model converts it to the graph with the single edge `1 – 2` (vertex 0 isolated), gates `H 0, H 2`, then the sign-fixing
    gates `Z 0, Z 1, Z 2` — the same answer as the Python -/
example : (match S2G.stateToGraph ketBellNeg with
    | .ok (adj, gates) => adj.bits == "000001010" && gates == [Gate.H 0, Gate.H 2, Gate.Z 0, Gate.Z 1, Gate.Z 2]
    | .error _ => false) = true := by decide +kernel

/-! ### graph states: the round trip, the tableau is a state, both constructions give the same state -/

/-- the triangle graph -/
def tri : Nat → Nat → Bool := fun i j => i != j && i < 3 && j < 3

/-- **graph → stabilizer → graph** (every n ≥ 1, every simple graph): the modelled `state_to_graph` applied to
    `graph_to_stabilizer(G)` returns `G` itself and an EMPTY gate list (so the gates are trivially the identity on the state),
    and `stabilizer_to_graph(validate=True)` returns `G` -/
theorem graph_round_trip (n : Nat) (hn : 0 < n) (adj : Adj) (hsym : ∀ i j, i < n → j < n → adj i j = adj j i)
    (hirr : ∀ i, i < n → adj i i = false) :
    (∃ g, S2G.stateToGraph (graphSTab n adj) = .ok (g, []) ∧ ∀ i j, i < n → j < n → g.f i j = adj i j) ∧
    (∃ g, S2G.stabilizerToGraph (graphSTab n adj) = .ok g ∧ ∀ i j, i < n → j < n → g.f i j = adj i j) :=
  ⟨stateToGraph_graph n hn adj hsym hirr, stabilizerToGraph_graph n hn adj hsym hirr⟩

/-- **`state_to_graph` depends only on the state, not on the generating set** (every n ≥ 1): two tableaux of real, commuting, independent
    generators that generate the same signed group are converted to the SAME graph with the SAME gate list (independence of the second
    generating set follows from that of the first and is part of the conclusion).  (The Hadamard positions are
    the columns without pivot of the echelon form of the X part, and pivot columns are determined by the row space `{g.x : g ∈ group}`;
    `final_z` is the unique `C` with `z = x·C` on the transformed group; the sign-fixing `Z` gates are read off the canonical form, which is
    unique for the group.)  `stabilizer_to_graph_complete` below is the instance "one of the two is the graph gauge". -/
theorem state_to_graph_depends_only_on_state (t t' : STab) (hn : 0 < t.n) (hstate : IsStabilizerState t)
    (hgood' : t'.Good) (hsame : t.n = t'.n ∧ ∀ p, t.Spn p ↔ t'.Spn p) :
    IsStabilizerState t' ∧ S2G.stateToGraph t = S2G.stateToGraph t' :=
  have hs : SpanEq t t' := ⟨hsame.1, fun p => (hsame.2 p).1, fun p => (hsame.2 p).2⟩
  have hi' := indep_of_spanEq t t' hn hstate.1 hgood' hstate.2 hs
  ⟨⟨hgood', hi'⟩, stateToGraph_gauge_indep t t' hn hstate.1 hgood' hstate.2 hi' hs⟩

/-- non-vacuity of `state_to_graph_depends_only_on_state`: `⟨XX, −ZZ⟩` (`bellMinus`) and `⟨YY, −ZZ⟩` are two different generating sets
    of one state (`YY = XX · (−ZZ)`) -/
def bellMinusYY : STab :=
  { n := 2, row := fun i => if i = 0 then ⟨fun j => decide (j < 2), fun j => decide (j < 2), false, false⟩
                            else ⟨fun _ => false, fun j => decide (j < 2), true, false⟩ }
example : 0 < bellMinus.n ∧ IsStabilizerState bellMinus ∧ bellMinusYY.Good ∧
    (bellMinus.n = bellMinusYY.n ∧ ∀ p, bellMinus.Spn p ↔ bellMinusYY.Spn p) ∧
    ¬ (∀ i, i < 2 → PRow.EqOn 2 (bellMinus.row i) (bellMinusYY.row i)) := by
  have hs : SpanEq bellMinus bellMinusYY := by
    apply spanEq_of_gens bellMinus bellMinusYY rfl
    · intro i hi
      have : i = 0 ∨ i = 1 := by have : i < 2 := hi; omega
      rcases this with rfl | rfl
      · exact InSpan.eqv _ _ (InSpan.mul _ _ (spn_gen bellMinus 0 (by decide)) (spn_gen bellMinus 1 (by decide)))
          (beqOn_eqOn _ _ _ (by decide))
      · exact InSpan.eqv _ _ (spn_gen bellMinus 1 (by decide)) (beqOn_eqOn _ _ _ (by decide))
    · intro i hi
      have : i = 0 ∨ i = 1 := by have : i < 2 := hi; omega
      rcases this with rfl | rfl
      · exact InSpan.eqv _ _ (InSpan.mul _ _ (spn_gen bellMinusYY 0 (by decide)) (spn_gen bellMinusYY 1 (by decide)))
          (beqOn_eqOn _ _ _ (by decide))
      · exact InSpan.eqv _ _ (spn_gen bellMinusYY 1 (by decide)) (beqOn_eqOn _ _ _ (by decide))
  have ind : ∀ t : STab, t.n = 2 → (t.row 0).x 0 = true → (t.row 1).x 0 = false → (t.row 1).z 0 = true → S2G.Indep (S2G.XZ.ofSTab t) := by
    intro t hn2 h00 h10 h1z c hc i hi
    have hn' : (S2G.XZ.ofSTab t).n = 2 := hn2
    rw [hn'] at hc hi
    have a := (hc 0 (by decide)).1
    have b := (hc 0 (by decide)).2
    simp only [parityTo, S2G.XZ.ofSTab, h00, h10, h1z, Bool.and_true, Bool.and_false, Bool.xor_false, Bool.false_xor] at a b
    have h : i = 0 ∨ i = 1 := by omega
    rcases h with rfl | rfl
    · exact a
    · rw [a] at b; simpa using b
  refine ⟨by decide, ⟨S2G.good_of_check _ (by decide), ind _ rfl (by decide) (by decide) (by decide)⟩,
    S2G.good_of_check _ (by decide), ⟨rfl, fun p => ⟨hs.sub p, hs.sup p⟩⟩, ?_⟩
  intro h
  have := ((h 0 (by decide)).1 0 (by decide)).2
  revert this
  decide

/-- **stabilizer → graph recovers `G` from `|G⟩` presented in ANY generating set** (every n ≥ 1, every simple graph, every real
    commuting tableau `t` that generates the signed group of `|G⟩`): the modelled `stabilizer_to_graph(validate=True)` returns `G`
    — `_graph_finder` returns (completeness), the graph it finds is `G` itself, and the closing comparison of the canonical forms
    ("Input stabilizer is not a graph state") does not fire; the modelled `state_to_graph` returns `(G, [])`: no Hadamard, no
    `P_dag`, no sign-fixing `Z`.  (`graph_round_trip` is the special case `t = graph_to_stabilizer(G)`.) -/
theorem stabilizer_to_graph_complete (t : STab) (hn : 0 < t.n) (hg : t.Good) (adj : Adj)
    (hsym : ∀ i j, i < t.n → j < t.n → adj i j = adj j i) (hirr : ∀ i, i < t.n → adj i i = false)
    (hstate : ∀ p, t.Spn p ↔ (graphSTab t.n adj).Spn p) :
    (∃ g, S2G.stabilizerToGraph t = .ok g ∧ ∀ i j, i < t.n → j < t.n → g.f i j = adj i j) ∧
    (∃ g, S2G.stateToGraph t = .ok (g, []) ∧ ∀ i j, i < t.n → j < t.n → g.f i j = adj i j) :=
  have hs : SpanEq t (graphSTab t.n adj) := ⟨rfl, fun p => (hstate p).1, fun p => (hstate p).2⟩
  ⟨stabilizerToGraph_gauge t hn hg adj hsym hirr hs, stateToGraph_gauge t hn hg adj hsym hirr hs⟩

/-- **`stabilizer_to_graph(validate=True)` returns exactly on the graph states** (every n ≥ 1, real commuting generators): it returns a
    graph iff the input generates the signed group of `|G⟩` for some simple graph `G` — and then it returns that `G` -/
theorem stabilizer_to_graph_returns_iff_graph_state (t : STab) (hn : 0 < t.n) (hg : t.Good) :
    (∃ g, S2G.stabilizerToGraph t = .ok g) ↔
    ∃ adj : Adj, (∀ i j, i < t.n → j < t.n → adj i j = adj j i) ∧ (∀ i, i < t.n → adj i i = false) ∧
      ∀ p, t.Spn p ↔ (graphSTab t.n adj).Spn p := by
  constructor
  · rintro ⟨g, h⟩
    obtain ⟨h1, h2, h3⟩ := stabilizer_to_graph_sound t hg.real g h
    exact ⟨g.f, h2, h3, h1⟩
  · rintro ⟨adj, h1, h2, h3⟩
    obtain ⟨⟨g, hgr, _⟩, _⟩ := stabilizer_to_graph_complete t hn hg adj h1 h2 h3
    exact ⟨g, hgr⟩

/-- non-vacuity of `stabilizer_to_graph_complete`: the graph state of the edge `0 – 1` in the generating set `⟨Y₀Y₁, Z₀X₁⟩`
    (`Y₀Y₁ = X₀Z₁ · Z₀X₁`), which is not the graph gauge -/
def edgeYY : STab :=
  { n := 2, row := fun i => if i = 0 then ⟨fun j => decide (j < 2), fun j => decide (j < 2), false, false⟩
                            else ⟨fun j => decide (j = 1), fun j => decide (j = 0), false, false⟩ }
def edge01 : Adj := fun i j => (i == 0 && j == 1) || (i == 1 && j == 0)
example : 0 < edgeYY.n ∧ edgeYY.Good ∧ (∀ i j, i < 2 → j < 2 → edge01 i j = edge01 j i) ∧ (∀ i, i < 2 → edge01 i i = false) ∧
    (∀ p, edgeYY.Spn p ↔ (graphSTab edgeYY.n edge01).Spn p) ∧ ¬ (∀ i, i < 2 → PRow.EqOn 2 (edgeYY.row i) ((graphSTab 2 edge01).row i)) := by
  have hs : SpanEq edgeYY (graphSTab 2 edge01) := by
    apply spanEq_of_gens edgeYY (graphSTab 2 edge01) rfl
    · intro i hi
      have : i = 0 ∨ i = 1 := by have : i < 2 := hi; omega
      rcases this with rfl | rfl
      · exact InSpan.eqv _ _ (InSpan.mul _ _ (spn_gen edgeYY 0 (by decide)) (spn_gen edgeYY 1 (by decide)))
          (beqOn_eqOn _ _ _ (by decide))
      · exact InSpan.eqv _ _ (spn_gen edgeYY 1 (by decide)) (beqOn_eqOn _ _ _ (by decide))
    · intro i hi
      have : i = 0 ∨ i = 1 := by have : i < 2 := hi; omega
      rcases this with rfl | rfl
      · exact InSpan.eqv _ _ (InSpan.mul _ _ (spn_gen (graphSTab 2 edge01) 0 (by decide)) (spn_gen (graphSTab 2 edge01) 1 (by decide)))
          (beqOn_eqOn _ _ _ (by decide))
      · exact InSpan.eqv _ _ (spn_gen (graphSTab 2 edge01) 1 (by decide)) (beqOn_eqOn _ _ _ (by decide))
  refine ⟨by decide, S2G.good_of_check _ (by decide), fun i j hi hj => ?_, by decide, fun p => ⟨hs.sub p, hs.sup p⟩, ?_⟩
  · have h1 : i = 0 ∨ i = 1 := by omega
    have h2 : j = 0 ∨ j = 1 := by omega
    rcases h1 with rfl | rfl <;> rcases h2 with rfl | rfl <;> decide
  intro h
  have := ((h 0 (by decide)).1 0 (by decide)).2
  revert this
  decide

/-- **`graph_to_stabilizer(G)` is a stabilizer state** (every n, every symmetric `adj`): the generators are real and commute
    (`Good`), they are independent (an ordered product of distinct generators has trivial X part only if it is the empty
    product — and every group element is such a product), and `−I` (or `±iI`) is not in the group: the only element with trivial
    Pauli part is `+I` -/
theorem graph_tableau_is_state (n : Nat) (adj : Adj) (hsym : ∀ i j, i < n → j < n → adj i j = adj j i) :
    (graphSTab n adj).Good ∧
    (∀ p, (graphSTab n adj).Spn p → ∃ c : Nat → Bool, EqOn n p (prodTo (graphSTab n adj) c n)) ∧
    (∀ c : Nat → Bool, (∀ j, j < n → (prodTo (graphSTab n adj) c n).x j = false) → ∀ i, i < n → c i = false) ∧
    (∀ p, (graphSTab n adj).Spn p → (∀ j, j < n → p.x j = false) → EqOn n p PRow.one) :=
  ⟨graphSTab_good n adj hsym, fun p hp => spn_normal_form (graphSTab n adj) (graphSTab_good n adj hsym) p hp,
   graphSTab_independent n adj, fun p hp hx => graphSTab_no_minus_one n adj hsym p hp hx⟩

/-- **graph → density and graph → stabilizer denote the same state** (every n, every edge list with distinct endpoints whose
    parity matrix is `adj` — for a simple graph: its edge list): |+…+⟩ followed by one CZ per edge generates exactly the signed
    group of the tableau `[I | adj]` -/
theorem graph_to_density_same_state_as_graph_to_stabilizer (n : Nat) (adj : Adj) (edges : List (Nat × Nat))
    (hne : ∀ e, e ∈ edges → e.1 ≠ e.2) (hA : ∀ i j, i < n → j < n → adj i j = edgeParity edges i j) :
    (czEdges (plusSTab n) edges).n = n ∧
    ∀ p, (czEdges (plusSTab n) edges).Spn p ↔ (graphSTab n adj).Spn p := by
  have s := czEdges_spanEq_graphSTab n adj edges hne hA
  exact ⟨s.n_eq, fun p => ⟨s.sub p, s.sup p⟩⟩

/-- in particular **for every simple graph** with its edge list `list(graph.edges)` (each edge once, `u < v`): graph → density and
    graph → stabilizer denote the same state -/
theorem graph_to_density_same_state_simple_graph (n : Nat) (adj : Adj) (hsym : ∀ i j, i < n → j < n → adj i j = adj j i)
    (hirr : ∀ i, i < n → adj i i = false) :
    ∀ p, (czEdges (plusSTab n) (S2G.edgesOf n adj)).Spn p ↔ (graphSTab n adj).Spn p := by
  have s := czEdges_edgesOf_spanEq n adj hsym hirr
  exact fun p => ⟨s.sub p, s.sup p⟩

example : S2G.edgesOf 3 tri = [(0, 1), (0, 2), (1, 2)] := by decide

/-- non-vacuity: the triangle with its three edges -/
example : (∀ i j, i < 3 → j < 3 → tri i j = tri j i) ∧ (∀ i, i < 3 → tri i i = false) ∧
    (∀ e, e ∈ [(0, 1), (1, 2), (0, 2)] → e.1 ≠ e.2) ∧
    (∀ i j, i < 3 → j < 3 → tri i j = edgeParity [(0, 1), (1, 2), (0, 2)] i j) := by
  refine ⟨fun i j hi hj => ?_, by decide, by decide, fun i j hi hj => ?_⟩ <;>
    (have h1 : i = 0 ∨ i = 1 ∨ i = 2 := by omega
     have h2 : j = 0 ∨ j = 1 ∨ j = 2 := by omega
     rcases h1 with rfl | rfl | rfl <;> rcases h2 with rfl | rfl | rfl <;> decide)

/-! ### Hilbert-space reading (matrices on `2ⁿ` dimensions; the verified semantics of the C07 development)

  `Hilbert.rho n T = ∏_i (1 + P_i)/2` is the density matrix of a stabilizer tableau, `Hilbert.circMat n c` the unitary of a gate list
  (Kronecker products of the graphiq gate matrices: `C07.gate_matrices_are_kronecker_products`), `Hilbert.rho n (STab.zero n)` is
  `|0…0⟩⟨0…0|` (`Hilbert.rho_zero`).  `graphStateMat n A := U |0…0⟩⟨0…0| U†` with `U` = `H` on every qubit, then `CZ` on every edge. -/

/-- **graph → stabilizer produces the graph state, as a matrix; stabilizer → density of it is `|G⟩⟨G|`** (every n, every simple graph): the
    density matrix of the tableau `[I | A]` — `Hilbert.rho`, the ordered product `∏_v (1 + K_v)/2`, which is literally what
    `_stabilizer_to_density_pure` computes (`rho = rho @ (stabilizer_elem + I)/2` over the generators, `stabilizer_elem` the Kronecker
    product of Pauli matrices that `C07.pauli_matrix_is_kronecker_product` identifies with `pauliMat`; the sign vector, which that
    function ignores — D9 —, is zero here) — is `CZ_E H^{⊗n} |0…0⟩⟨0…0| H^{⊗n} CZ_E` -/
theorem graph_to_stabilizer_is_graph_state (n : Nat) (adj : Adj) (hsym : ∀ i j, i < n → j < n → adj i j = adj j i)
    (hirr : ∀ i, i < n → adj i i = false) : Hilbert.rho n (graphSTab n adj) = graphStateMat n adj :=
  rho_graphSTab n adj hsym hirr

/-- **graph → density matrix produces the graph state, as a matrix** (every n, every simple graph): `_graph_to_density_pure` —
    `create_n_plus_state(n)` (the matrix with all entries `2⁻ⁿ`: `plusMat`, which is the density matrix of the generators `X_i`:
    `rho_plusSTab`) conjugated by one CZ per edge of `list(graph.edges)` — is `|G⟩⟨G|`, the same matrix as the density matrix of
    `graph_to_stabilizer(G)` -/
theorem graph_to_density_is_graph_state (n : Nat) (adj : Adj) (hsym : ∀ i j, i < n → j < n → adj i j = adj j i)
    (hirr : ∀ i, i < n → adj i i = false) :
    Hilbert.circMat n ((S2G.edgesOf n adj).map fun e => Gate.CZ e.1 e.2) * plusMat n *
        (Hilbert.circMat n ((S2G.edgesOf n adj).map fun e => Gate.CZ e.1 e.2)).conjTranspose = graphStateMat n adj ∧
    graphStateMat n adj = Hilbert.rho n (graphSTab n adj) :=
  ⟨graph_to_density_mat n adj hsym hirr, (rho_graphSTab n adj hsym hirr).symm⟩

/-- **`state_to_graph`, completeness + soundness on Hilbert space** (every n ≥ 1, every stabilizer state): the modelled conversion
    returns `(G, gates)`, the gates are in range, and `U_gates ρ U_gates† = |G⟩⟨G|` — the returned single-qubit Clifford gates map the
    input state exactly (not only up to a global phase: these are density matrices) onto that graph's state -/
theorem state_to_graph_correct_hilbert (t : STab) (hn : 0 < t.n) (hstate : IsStabilizerState t) :
    ∃ adj gates, S2G.stateToGraph t = .ok (adj, gates) ∧ (∀ g, g ∈ gates → g.WF t.n) ∧
      Hilbert.circMat t.n gates * Hilbert.rho t.n t * (Hilbert.circMat t.n gates).conjTranspose = graphStateMat t.n adj.f :=
  stateToGraph_hilbert t hn hstate.1 hstate.2

/-! ### density matrix → graph: what is exact about the negativity-based edge detection

  `_density_to_graph_pure` decides the pair `i < j` by projecting every other qubit onto `|0⟩` (`project_and_remove`), tracing it out and
  comparing the negativity of the two-qubit state with 0.1.  Proved below, for every n and every simple graph:
  * group level (`density_to_graph_pair_state_partial`) and Hilbert space (`density_to_graph_project_and_remove`): the state handed to
    `negativity` is the graph state of the induced pair; `project_and_remove` is modelled as a map on `2ⁿ × 2ⁿ` complex matrices
    (`projOff` = `⊗_{k∉{i,j}} |0⟩⟨0|`, division by the trace — which is `4/2ⁿ ≠ 0`, so the `1 − P₀` branch of the code is never taken —,
    `ptraceOff` = sum over the basis states of the traced qubits);
  * the two possible states as exact 4×4 rational matrices, the eigenvalues of their partial transposes (roots of the characteristic
    polynomial) and the negativities `Σ(|λ| − λ)/2` = 0 and 1/2 (`density_to_graph_pair_spectrum`, `density_to_graph_pair_negativity`,
    `density_to_graph_edge_rule_partial`).
  NOT proved (so the full statement `density_to_graph(|G⟩⟨G|) = G` is not a theorem): that the numpy code of `project_and_remove` /
  `partial_trace` / `bipartite_partial_transpose` computes these maps (read off the source, compared numerically per input), that
  LAPACK's `eigh` returns the exact eigenvalues to within the margin 0.1 … 0.5, the purity test and the closing `np.allclose`.  The harness compares `project_and_remove` and `negativity` of every pair of every graph on
  ≤ 5 vertices with the two states below (1e-9). -/

/-- **which two-qubit state the code looks at** (every n, every simple graph, every pair `i ≠ j`; group level): the restrictions to
    `(i, j)` of the elements of the group of `|G⟩` that carry no X or Y on the other qubits form exactly the signed group of the two-vertex
    graph state with an edge iff `adj i j` — `⟨X⊗Z, Z⊗X⟩` (edge) or `⟨X⊗I, I⊗X⟩` (no edge).
    (The Hilbert-space counterpart is `density_to_graph_project_and_remove`.) -/
theorem density_to_graph_pair_state_partial (n : Nat) (adj : Adj) (hsym : ∀ i j, i < n → j < n → adj i j = adj j i)
    (hirr : ∀ i, i < n → adj i i = false) (i j : Nat) (hi : i < n) (hj : j < n) (hij : i ≠ j) (P : PRow) :
    PairGroup (graphSTab n adj) i j P ↔ (graphSTab 2 (pairAdj (adj i j))).Spn P :=
  pairGroup_graph n adj hsym hirr i j hi hj hij P

theorem tri_symm : ∀ i j, i < 3 → j < 3 → tri i j = tri j i := by
  intro i j hi hj
  have h1 : i = 0 ∨ i = 1 ∨ i = 2 := by omega
  have h2 : j = 0 ∨ j = 1 ∨ j = 2 := by omega
  rcases h1 with rfl | rfl | rfl <;> rcases h2 with rfl | rfl | rfl <;> decide

/-- non-vacuity: in the triangle, the pair `(0, 2)`: `X₀Z₁Z₂ · (no X/Y on qubit 1)` restricts to `X⊗Z`, a generator of the one-edge state -/
example : PairGroup (graphSTab 3 tri) 0 2 ((graphSTab 2 (pairAdj true)).row 0) :=
  (density_to_graph_pair_state_partial 3 tri tri_symm (by decide) 0 2 (by decide) (by decide) (by decide) _).mpr
    (spn_gen (graphSTab 2 (pairAdj true)) 0 (by decide))

/-- **the two possible pair states and their negativities** (exact 4×4 rational matrices): the stabilizer states of `⟨X⊗I, I⊗X⟩` and
    `⟨X⊗Z, Z⊗X⟩` are `|++⟩⟨++|` and `CZ|++⟩⟨++|CZ`; the partial transpose (`bipartite_partial_transpose(rho, 2, 2, 0)`) of the first is
    positive semidefinite (negative part `0`, negativity 0), that of the second has the Jordan decomposition `posPart − negPart` with
    `tr negPart = 1/2` (negativity 1/2); the threshold 0.1 lies strictly between -/
theorem density_to_graph_pair_negativity :
    (Neg.rhoPlus = (1/4 : ℚ) • (1 + Neg.XI + Neg.IX + Neg.XI * Neg.IX) ∧
     Neg.rhoEdge = (1/4 : ℚ) • (1 + Neg.XZ + Neg.ZX + Neg.XZ * Neg.ZX)) ∧
    (Neg.Jordan (Neg.ptA Neg.rhoPlus) Neg.rhoPlus 0 ∧ Matrix.trace (0 : Neg.M4) = 0) ∧
    (Neg.Jordan (Neg.ptA Neg.rhoEdge) Neg.posPart Neg.negPart ∧ Matrix.trace Neg.negPart = 1/2) ∧
    ((0 : ℚ) ≤ 1/10 ∧ (1/10 : ℚ) < 1/2) :=
  ⟨⟨Neg.rhoPlus_group_sum, Neg.rhoEdge_group_sum⟩, Neg.negativity_plus, Neg.negativity_edge, Neg.threshold_separates⟩

/-- **`project_and_remove(|G⟩⟨G|, everything but i, j)` is the graph state of the induced pair — on Hilbert space** (every n, every
    simple graph, `i < j < n`; `|G⟩⟨G| = graphStateMat n adj`, the matrix `graph_to_density` builds): the projected matrix has trace
    `4/2ⁿ` (never 0) and the normalised partial trace is the density matrix of the two-vertex graph with an edge iff `adj i j` -/
theorem density_to_graph_project_and_remove (n : Nat) (adj : Adj) (hsym : ∀ i j, i < n → j < n → adj i j = adj j i)
    (hirr : ∀ i, i < n → adj i i = false) (i j : Nat) (hij : i < j) (hj : j < n) :
    Matrix.trace (projOff n i j * graphStateMat n adj * projOff n i j) = (1 / 2 : ℂ) ^ n * 4 ∧
    projectAndRemove n i j (graphStateMat n adj) = Hilbert.rho 2 (graphSTab 2 (pairAdj (adj i j))) := by
  rw [← rho_graphSTab n adj hsym hirr]
  exact projectAndRemove_graph n adj hsym hirr i j hij hj

/-- **eigenvalues of the two partial transposes** (roots of the characteristic polynomial with multiplicity, by explicit rational
    diagonalisation) and the negativity `Σ (|λ| − λ)/2` that `dmf.negativity` computes from them: `{1,0,0,0}` → 0 and
    `{−1/2,1/2,1/2,1/2}` → 1/2 -/
theorem density_to_graph_pair_spectrum :
    ((Neg.ptA Neg.rhoPlus).charpoly.roots = {1, 0, 0, 0} ∧ Neg.negativityOf (Neg.ptA Neg.rhoPlus).charpoly.roots = 0) ∧
    ((Neg.ptA Neg.rhoEdge).charpoly.roots = {-1/2, 1/2, 1/2, 1/2} ∧ Neg.negativityOf (Neg.ptA Neg.rhoEdge).charpoly.roots = 1/2) :=
  ⟨Neg.spectrum_plus, Neg.spectrum_edge⟩

/-- **the edge rule, assembled** (every n, every simple graph, `i < j < n`): entry by entry the matrix handed to `negativity` is the
    exact rational matrix `M = rhoEdge` (if `adj i j`) resp. `rhoPlus` (index `2·b₀ + b₁`), and the negativity of `M` — `Σ (|λ| − λ)/2`
    over the eigenvalues of its partial transpose — is `1/2` resp. `0`: above resp. below the threshold 0.1, i.e. the code's test
    `negativity > threshold` holds exactly for the edges of `G`.
    Missing for `density_to_graph(|G⟩⟨G|) = G`: see the section comment (numpy code ↔ these maps, float eigenvalues, purity test). -/
theorem density_to_graph_edge_rule_partial (n : Nat) (adj : Adj) (hsym : ∀ i j, i < n → j < n → adj i j = adj j i)
    (hirr : ∀ i, i < n → adj i i = false) (i j : Nat) (hij : i < j) (hj : j < n) :
    ∃ M : Neg.M4,
      (∀ a b, projectAndRemove n i j (graphStateMat n adj) a b = ((M (idx2 a) (idx2 b) : ℚ) : ℂ)) ∧
      Neg.negativityOf (Neg.ptA M).charpoly.roots = (if adj i j then 1/2 else 0) ∧
      ((1/10 : ℚ) < Neg.negativityOf (Neg.ptA M).charpoly.roots ↔ adj i j = true) := by
  have h := (density_to_graph_project_and_remove n adj hsym hirr i j hij hj).2
  cases he : adj i j
  · refine ⟨Neg.rhoPlus, fun a b => ?_, by simp [Neg.spectrum_plus.2], by rw [Neg.spectrum_plus.2]; norm_num⟩
    rw [h, he]; exact rho2_entries false a b
  · refine ⟨Neg.rhoEdge, fun a b => ?_, by simp [Neg.spectrum_edge.2], by rw [Neg.spectrum_edge.2]; norm_num⟩
    rw [h, he]; exact rho2_entries true a b

/-- non-vacuity of the two Hilbert-space density theorems: the triangle, pair `(0, 2)` -/
example : Matrix.trace (projOff 3 0 2 * graphStateMat 3 tri * projOff 3 0 2) = (1 / 2 : ℂ) ^ 3 * 4 :=
  (density_to_graph_project_and_remove 3 tri tri_symm (by decide) 0 2 (by decide) (by decide)).1

/-! ### the conversions among the three representations of a graph state, together -/

/-- **every conversion among graph, stabilizer and density-matrix form keeps the graph state** (every n ≥ 1, every simple graph `G`;
    conversion functions as modelled, density matrices as exact `2ⁿ × 2ⁿ` complex matrices):
    * g → s and g → dm both denote `|G⟩⟨G|` (`graphStateMat`); s → dm (`_stabilizer_to_density_pure`: the ordered product
      `∏ (1 + K_v)/2 = Hilbert.rho`) of `graph_to_stabilizer(G)` is the matrix g → dm builds;
    * s → g: `stabilizer_to_graph(validate=True)` on `graph_to_stabilizer(G)` returns `G`;
    * dm → g: for every pair `i < j` the negativity test of `_density_to_graph_pure` on `|G⟩⟨G|` (the exact value of the quantity the
      code thresholds) is positive exactly on the edges of `G` — so dm → g returns `G`, and dm → s = g → s ∘ dm → g returns
      `graph_to_stabilizer(G)`.
    (What ties this to `QuantumState.convert_representation`: its dispatch table and wrappers are compared per chain by the harness —
    all 9 ordered pairs and all chains of length 3 — not modelled.) -/
theorem conversions_preserve_graph_state (n : Nat) (hn : 0 < n) (adj : Adj) (hsym : ∀ i j, i < n → j < n → adj i j = adj j i)
    (hirr : ∀ i, i < n → adj i i = false) :
    Hilbert.rho n (graphSTab n adj) = graphStateMat n adj ∧
    Hilbert.circMat n ((S2G.edgesOf n adj).map fun e => Gate.CZ e.1 e.2) * plusMat n *
        (Hilbert.circMat n ((S2G.edgesOf n adj).map fun e => Gate.CZ e.1 e.2)).conjTranspose = graphStateMat n adj ∧
    (∃ g, S2G.stabilizerToGraph (graphSTab n adj) = .ok g ∧ ∀ i j, i < n → j < n → g.f i j = adj i j) ∧
    (∀ i j, i < j → j < n → ∃ M : Neg.M4,
      (∀ a b, projectAndRemove n i j (graphStateMat n adj) a b = ((M (idx2 a) (idx2 b) : ℚ) : ℂ)) ∧
      ((1/10 : ℚ) < Neg.negativityOf (Neg.ptA M).charpoly.roots ↔ adj i j = true)) :=
  ⟨rho_graphSTab n adj hsym hirr, graph_to_density_mat n adj hsym hirr, (graph_round_trip n hn adj hsym hirr).2,
   fun i j hij hj => by
     obtain ⟨M, h1, _, h3⟩ := density_to_graph_edge_rule_partial n adj hsym hirr i j hij hj
     exact ⟨M, h1, h3⟩⟩

/- Not theorems of this development (kept visible): (1) the density-matrix side beyond the theorems above (that the numpy code of
   `project_and_remove` / `partial_trace` / `bipartite_partial_transpose` computes the modelled maps, float eigenvalues, purity test,
   the closing `np.allclose` validation) — compared numerically per input; (2) the
   correspondence of the model with the Python source — exact comparison (graph, gate list, error class) on every generated input, not a
   proof.  No float step is left in `state_to_graph` since /repo 70adac4 (`_gf2_inverse`); completeness was false before the repairs
   86ab4f1 (D40), 8a43724 (D49) and 70adac4 (D51). -/

/-! ### Non-vacuity: the triangle graph through both constructions -/
example : (List.range 3).all (fun i => (List.range 3).all fun j =>
    ((czEdges (plusSTab 3) [(0, 1), (1, 2), (0, 2)]).row i).z j == ((graphSTab 3 tri).row i).z j) = true := by decide
example : checkConversion (graphSTab 3 tri) [] tri = true := by decide +kernel

/-! ### Cross-references (sweep): one notion of "stabilizer state" across C05 / C08 / C11

  `IsStabilizerState` (this file: real, pairwise commuting, `S2G.Indep` rows) is — definitionally — the hypothesis
  `t.Good ∧ t.Indep` of C11's `inverse_circuit_returns_iff_independent` and C05's `canonical_form_returns_iff_independent`
  (`Proofs/InvTotal.lean`), so the four library functions return on exactly the same tableaux. -/

/-- C08's `IsStabilizerState` is C11 / C05's `Good ∧ Indep` -/
theorem isStabilizerState_iff_good_indep (t : STab) : IsStabilizerState t ↔ t.Good ∧ t.Indep := Iff.rfl

/-- **`state_to_graph`, `inverse_circuit` and `canonical_form` return on exactly the same tableaux** (real commuting rows,
    `n ≥ 1`): each returns iff the generators are independent -/
theorem state_to_graph_returns_iff_inverse_circuit_returns (t : STab) (hn : 0 < t.n) (hg : t.Good) :
    ((∃ r, S2G.stateToGraph t = .ok r) ↔ (∃ r, t.inverseCircuit = .ok r)) ∧
    ((∃ r, S2G.stateToGraph t = .ok r) ↔ (∃ r, t.canonicalForm = .ok r)) := by
  have h1 := state_to_graph_returns_iff_state t hg.1
  have h2 := STab.inverseCircuit_returns_iff t hg
  have h3 := STab.canonicalForm_returns_iff t hg
  have h4 : (0 < t.n ∧ IsStabilizerState t) ↔ t.Indep := ⟨fun h => h.2.2, fun h => ⟨hn, hg, h⟩⟩
  exact ⟨h1.trans (h4.trans h2.symm), h1.trans (h4.trans h3.symm)⟩

end Graphiq.C08
