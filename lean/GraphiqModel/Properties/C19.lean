/-
  C19 — random-search solvers are reproducible and report honest, ordered results.

  Property theorems only (helper lemmas live in Proofs/Evo.lean; the model in Model/Evo.lean mirrors
  `RandomSearchSolver.update_hof`, `.tournament_selection`, `EvolutionarySolver.solve`'s generation loop — shared by
  `HybridEvolutionarySolver` — with an explicit heap of mutable circuit objects).

  Reading guide.
  * Everything in §1–§3 is for **all** heaps, halls of fame, populations, configurations (`n_hof`, `n_pop`, `n_stop`,
    tournament size, selection on/off, adaptive on/off), parameter sets (transformations, metric, node count) and draw
    streams; theorems about whole runs are by induction over generations.
  * "Sorted" needs care because `update_hof` compares with `np.isclose`.  Unconditionally, the hall of fame is sorted *up
    to the tolerance between neighbours* (`SortedTol`), and one insertion moves the best score by at most the tolerance.
    The literal reading of the property ("non-decreasing", "never gets worse") is *false* for adversarial scores that
    drift by less than the tolerance per step (`literal_order_refuted`); it is *true at the level of isclose classes*
    whenever `isclose` is an equivalence compatible with `<` on the scores that occur (`Coherent`) — the situation of
    every metric of the library (clusters far narrower than, and much farther apart than, the tolerance).  The driver
    evaluates `coherentOn` on the scores of every replayed run.
  * "Stored score = metric of the stored circuit" is a heap-separation invariant: population circuits are mutated in
    place, so it holds because `update_hof` stores copies and selection deep-copies.  It presupposes that the metric is a
    function of the circuit (forced measurement outcomes); the harness re-evaluates every stored entry.
  * "All settings": `solve` returns exactly on the well-formed configurations — `solve_returns_on_wellformed_configurations`
    (`0 < n_hof ≤ n_pop`, finite metric, valid draws) and `hof_larger_than_population_never_returns` — so the theorems with
    hypothesis `solve … = .ok …` are not vacuous for any such configuration.
  * Beyond the clauses of the property, the same machinery gives: the hall of fame keeps the best of everything evaluated,
    ties are ordered by node count, the tournament winner is the first minimum, `adapt_probabilities` always yields a
    probability vector, `SolverResult.sort_by` is a stable sort of intact rows.
  * Reproducibility: in the model a run *is* a function of the configuration and the consumed draws
    (`run_is_function_of_consumed_draws`).  Independence from the ambient process state (hash order of `set`s) cannot be
    derived for the real transformations; it is the hypothesis of `reproducible_partial`, tested by the harness with
    different `PYTHONHASHSEED`s (it was violated by `get_node_exclude_labels`, which returned `list(set)` over a set holding
    `str` and `int` ids — found by this check, fixed in /repo 6f7407b; the witness is kept as a regression test).
-/
import GraphiqModel.Proofs.Evo
namespace Graphiq.C19
open Graphiq Graphiq.Evo

variable {C D : Type}

/-! ## 1. `update_hof` -/

/-- `update_hof` never changes the number of entries and never invents a score: for **every** heap, hall of fame
    (of length `n_hof`) and population, each entry afterwards is an old entry or carries the score of a population
    member. -/
theorem update_hof_keeps_length (t : Tol) (size : C → Nat) (nHof : Nat) (pop : List PopEntry) (h h' : Heap C)
    (hof hof' : List HofEntry) (hlen : hof.length = nHof)
    (hres : updateHof t size nHof h hof pop = .ok (h', hof')) :
    hof'.length = nHof ∧ ∀ x ∈ hof', x ∈ hof ∨ ∃ e ∈ pop, x.score = e.score :=
  updateHof_length_mem t size nHof pop hlen hres

/-- **Order.**  If the hall of fame is ordered up to the isclose tolerance between neighbours, it is so after
    `update_hof`, whatever the population. -/
theorem update_hof_keeps_sorted (P : Params C D) (t : Tol) (nHof : Nat) (pop : List PopEntry) (h h' : Heap C)
    (hof hof' : List HofEntry) (hinv : HofInv P t h hof) (hlen : hof.length = nHof)
    (hpop : ∀ e ∈ pop, PopHonest P h e) (hres : updateHof t P.size nHof h hof pop = .ok (h', hof')) :
    SortedTol t hof' :=
  (updateHof_inv P t nHof pop hinv hlen hpop hres).1.sorted

/-- **Stores copies.**  After `update_hof` every circuit object referenced by the hall of fame is one it referenced
    before or an object allocated by this call (`circuit.copy()`): it is never an object of the population, the objects
    of different entries are pairwise distinct, and no pre-existing object is modified (`Ext`). -/
theorem update_hof_stores_copies (P : Params C D) (t : Tol) (nHof : Nat) (pop : List PopEntry) (h h' : Heap C)
    (hof hof' : List HofEntry) (hinv : HofInv P t h hof) (hlen : hof.length = nHof)
    (hpop : ∀ e ∈ pop, PopHonest P h e) (hres : updateHof t P.size nHof h hof pop = .ok (h', hof')) :
    Ext h h' ∧ (hofRefs hof').Nodup ∧
    (∀ r ∈ hofRefs hof', r ∈ hofRefs hof ∨ (h.size ≤ r ∧ r < h'.size)) ∧
    (∀ r ∈ hofRefs hof', r ∉ hofRefs hof → r ∉ popRefs pop) := by
  obtain ⟨u1, u2, _, u4⟩ := updateHof_inv P t nHof pop hinv hlen hpop hres
  refine ⟨u2, u1.nodup, u4, ?_⟩
  intro r hr hnew hm
  rcases u4 r hr with hold | ⟨hfresh, _⟩
  · exact hnew hold
  · obtain ⟨e, he, rfl⟩ := mem_popRefs.mp hm
    obtain ⟨c, hc, _⟩ := hpop e he
    have := (Heap.get?_some_iff_lt h e.circ).mp ⟨c, hc⟩
    omega

/-- **Honest.**  If every stored score is the metric of its stored circuit before, and the population's scores are the
    metric of the population's circuits, then every stored score is the metric of its stored circuit afterwards. -/
theorem update_hof_keeps_honest (P : Params C D) (t : Tol) (nHof : Nat) (pop : List PopEntry) (h h' : Heap C)
    (hof hof' : List HofEntry) (hinv : HofInv P t h hof) (hlen : hof.length = nHof)
    (hpop : ∀ e ∈ pop, PopHonest P h e) (hres : updateHof t P.size nHof h hof pop = .ok (h', hof')) :
    ∀ e ∈ hof', HofEntryHonest P h' e :=
  (updateHof_inv P t nHof pop hinv hlen hpop hres).1.honest

/-- **Best score, one member (unconditional).**  Processing one `(score, circuit)` either keeps the first entry — and then
    `score` is not better than it beyond the tolerance — or makes the new member the first entry — and then `score` is
    smaller than, or isclose to, the old best. -/
theorem update_hof_best_one_member (t : Tol) (size : C → Nat) (nHof : Nat) (h h' : Heap C) (hof hof' : List HofEntry)
    (e : PopEntry) (hlen : hof.length = nHof) (hres : updateHofOne t size nHof h hof e = .ok (h', hof')) :
    ∀ a b, hof[0]? = some a → hof'[0]? = some b →
      (b = a ∧ (e.score.isclose t a.score = true ∨ e.score.lt a.score = false)) ∨
      (b.score = e.score ∧ (e.score.isclose t a.score = true ∨ e.score.lt a.score = true)) :=
  (updateHofOne_head t size nHof hlen hres).2.2

/-- **Best score never gets worse, and the best entry is at least as good as everything just evaluated** — exact
    statement on isclose classes, for coherent scores. -/
theorem update_hof_best_never_worse (t : Tol) (S : Score → Prop) (hc : Coherent t S) (size : C → Nat) (nHof : Nat)
    (pop : List PopEntry) (h h' : Heap C) (hof hof' : List HofEntry) (hlen : hof.length = nHof)
    (hS : ∀ x ∈ hof, S x.score) (hSp : ∀ e ∈ pop, S e.score)
    (hres : updateHof t size nHof h hof pop = .ok (h', hof')) :
    ∀ a b, hof[0]? = some a → hof'[0]? = some b →
      ClsLe t b.score a.score ∧ ∀ e ∈ pop, ClsLe t b.score e.score :=
  (updateHof_head t S hc size nHof pop hlen hS hSp hres).2.2

/-- **Ordered by non-decreasing score (class level).**  For coherent scores a tolerance-sorted hall of fame is sorted:
    entry `i` is in a class not above entry `j` for all `i < j`. -/
theorem sorted_means_nondecreasing (t : Tol) (S : Score → Prop) (hc : Coherent t S) (hof : List HofEntry)
    (hS : ∀ e ∈ hof, S e.score) (hs : SortedTol t hof) (i j : Nat) (hij : i < j) (a b : HofEntry)
    (ha : hof[i]? = some a) (hb : hof[j]? = some b) : ClsLe t a.score b.score := by
  have : j = i + (j - i - 1) + 1 := by omega
  rw [this] at hb
  exact sortedTol_pairwise hc hS hs (j - i - 1) i a b ha hb

/-- **The hall of fame keeps the best** (class level, coherent scores, `n_hof > 0`): after `update_hof(population)`
    every population member's score is carried by an entry or the last (worst) entry is not above it — nothing strictly
    better than the worst entry is dropped — and every score kept before is still kept. -/
theorem update_hof_keeps_the_best (t : Tol) (S : Score → Prop) (hc : Coherent t S) (size : C → Nat) (nHof : Nat)
    (hn : 0 < nHof) (pop : List PopEntry) (h h' : Heap C) (hof hof' : List HofEntry) (hlen : hof.length = nHof)
    (hS : ∀ x ∈ hof, S x.score) (hSp : ∀ e ∈ pop, S e.score) (hs : SortedTol t hof)
    (hres : updateHof t size nHof h hof pop = .ok (h', hof')) :
    (∀ e ∈ pop, Kept t hof' e.score) ∧ ∀ s, S s → Kept t hof s → Kept t hof' s :=
  updateHof_kept t S hc size nHof hn pop hlen hS hSp hs hres

/-- **Ties are broken by node count** (coherent scores): if neighbouring entries with isclose scores are ordered by
    the node count of their circuits before `update_hof`, they are afterwards. -/
theorem update_hof_orders_ties_by_node_count (P : Params C D) (t : Tol) (S : Score → Prop) (hc : Coherent t S)
    (nHof : Nat) (pop : List PopEntry) (h h' : Heap C) (hof hof' : List HofEntry) (hinv : HofInv P t h hof)
    (hlen : hof.length = nHof) (hpop : ∀ e ∈ pop, PopHonest P h e) (hS : ∀ x ∈ hof, S x.score)
    (hSp : ∀ e ∈ pop, S e.score) (hst : SizeTie t P.size h hof)
    (hres : updateHof t P.size nHof h hof pop = .ok (h', hof')) : SizeTie t P.size h' hof' :=
  updateHof_sizeTie P t S hc nHof pop hinv hlen hpop hS hSp hst hres

/-! ## 2. `tournament_selection` -/

/-- `min(tourn_pop, key=score)` returns a member of the tournament whose score no member beats. -/
theorem tournament_winner_is_minimal (l : List PopEntry) (b : PopEntry) (h : minByScore l = some b) :
    b ∈ l ∧ ∀ x ∈ l, x.score.lt b.score = false :=
  minByScore_spec h

/-- … and it is the **first** such member (Python's `min` keeps the first minimum): every earlier member of the tournament
    is strictly worse. -/
theorem tournament_winner_is_first_minimum (l : List PopEntry) (b : PopEntry) (h : minByScore l = some b) :
    ∃ i : Nat, l[i]? = some b ∧ (∀ (j : Nat) (x : PopEntry), j < i → l[j]? = some x → b.score.lt x.score = true) ∧
      ∀ x ∈ l, x.score.lt b.score = false :=
  minByScore_first h

/-- **Selection deep-copies.**  With tournament size `k > 0`, the selected population has `n_pop` members; every member
    is a *new* object (allocated by this call), the new objects are pairwise distinct, no pre-existing object is
    modified, each member carries the score of some member of the old population, and — if the old population's scores
    were honest — the new ones are. -/
theorem tournament_selection_deep_copies (P : Params C D) (nPop k : Nat) (hk : k ≠ 0) (h h' : Heap C)
    (pop pop' : List PopEntry) (draws : Nat → List Nat) (hpop : ∀ e ∈ pop, PopHonest P h e)
    (hres : tournamentSelection nPop k h pop draws = .ok (h', pop')) :
    Ext h h' ∧ pop'.length = nPop ∧ (popRefs pop').Nodup ∧ (∀ r ∈ popRefs pop', h.size ≤ r ∧ r < h'.size) ∧
    (∀ a ∈ pop', ∃ b ∈ pop, a.score = b.score) ∧ (∀ a ∈ pop', PopHonest P h' a) := by
  unfold tournamentSelection at hres
  simp only [hk, if_false] at hres
  obtain ⟨t1, t2, t3, t4, t5, t6⟩ := tournamentLoop_spec P pop draws h.size nPop 0 h [] hpop (Nat.le_refl _)
    (by simp) (by simp [popRefs]) (by simp [popRefs]) (by simp) hres
  exact ⟨t1, by simpa using t2, t4, t5, t6, t3⟩

/-! ## 3. The generation loop (`solve`) -/

/-- the state after `__init__` + `population_initialization` satisfies the invariant (every population member is its
    own object; the hall of fame is `n_hof` copies of `(inf, None)`) -/
theorem invariant_initially (P : Params C D) (cfg : Cfg) (tp : TransProbs) (init : List C)
    (hlen : init.length = cfg.nPop) : Inv P cfg (initState cfg tp init) :=
  initState_inv P cfg tp init hlen

/-- **One generation keeps the invariant** (lengths, no dangling or shared objects, hall of fame disjoint from the
    population, stored scores honest, order up to tolerance) — for every configuration, selection on or off, adaptive
    probabilities on or off, and every draw. -/
theorem invariant_generation (P : Params C D) (cfg : Cfg) (dr : Draws D) (g : Nat) (s s' : St C)
    (hinv : Inv P cfg s) (hres : generation P cfg dr g s = .ok s') : Inv P cfg s' :=
  (generation_inv P cfg dr g hinv hres).1

/-- what `update_hof` sees in a generation: the same population objects, mutated in place, each with the metric of *its
    own* circuit as score (no member's score was computed from a circuit that another member's mutation then changed);
    and hall-of-fame objects that survive the generation are bit-for-bit untouched by it. -/
theorem generation_population_scores_honest (P : Params C D) (cfg : Cfg) (dr : Draws D) (g : Nat) (s s' : St C)
    (hinv : Inv P cfg s) (hres : generation P cfg dr g s = .ok s') :
    (∃ h1 pop1, mutatePhase P (dr.mutation g) 0 cfg.nPop s.heap s.pop = .ok (h1, pop1) ∧
      popRefs pop1 = popRefs s.pop ∧ ∀ e ∈ pop1, PopHonest P h1 e) ∧
    (∀ r ∈ hofRefs s.hof, s'.heap.get? r = s.heap.get? r) := by
  obtain ⟨_, ⟨h1, pop1, hm, hr, hh, _⟩, hk⟩ := generation_inv P cfg dr g hinv hres
  exact ⟨⟨h1, pop1, hm, hr, hh⟩, hk⟩

/-- **Whole run.**  If `solve` returns, the final state satisfies the invariant and the result is `hof[0]`. -/
theorem run_invariant_and_result (P : Params C D) (cfg : Cfg) (dr : Draws D) (tp : TransProbs) (init : List C)
    (hlen : init.length = cfg.nPop) (s : St C) (res : HofEntry)
    (hres : solve P cfg dr tp init = .ok (s, res)) : Inv P cfg s ∧ s.hof[0]? = some res := by
  obtain ⟨hg, h0⟩ := solve_spec P cfg dr tp init hres
  exact ⟨generations_inv P cfg dr cfg.nStop 0 (initState_inv P cfg tp init hlen) hg, h0⟩

/-- **Honest result.**  The reported score is the metric of the reported circuit (or the result is the initial
    `(inf, None)`), the reported circuit is not an object of the final population, and every entry of the final hall of
    fame has an honest score. -/
theorem result_is_honest (P : Params C D) (cfg : Cfg) (dr : Draws D) (tp : TransProbs) (init : List C)
    (hlen : init.length = cfg.nPop) (s : St C) (res : HofEntry)
    (hres : solve P cfg dr tp init = .ok (s, res)) :
    HofEntryHonest P s.heap res ∧ (∀ r, res.circ = some r → r ∉ popRefs s.pop) ∧
    (∀ e ∈ s.hof, HofEntryHonest P s.heap e) ∧ s.hof.length = cfg.nHof ∧ SortedTol cfg.tol s.hof := by
  obtain ⟨hinv, h0⟩ := run_invariant_and_result P cfg dr tp init hlen s res hres
  have hmem : res ∈ s.hof := List.mem_of_getElem? h0
  refine ⟨hinv.hof.honest res hmem, ?_, hinv.hof.honest, hinv.hofLen, hinv.hof.sorted⟩
  intro r hr
  exact hinv.disjoint r (List.mem_filterMap.mpr ⟨res, hmem, hr⟩)

/-- **The result is the best entry** (class level, coherent scores): no entry of the final hall of fame is in a class
    below the result's. -/
theorem result_is_best_entry (P : Params C D) (cfg : Cfg) (dr : Draws D) (tp : TransProbs) (init : List C)
    (hlen : init.length = cfg.nPop) (S : Score → Prop) (hc : Coherent cfg.tol S) (hm : ∀ c, S (P.metric c))
    (hinf : S Score.inf) (s : St C) (res : HofEntry) (hres : solve P cfg dr tp init = .ok (s, res)) :
    ∀ x ∈ s.hof, ClsLe cfg.tol res.score x.score := by
  obtain ⟨hinv, h0⟩ := run_invariant_and_result P cfg dr tp init hlen s res hres
  have hS := hinv.hof_scores S hm hinf
  intro x hx
  obtain ⟨j, hj⟩ := List.mem_iff_getElem?.mp hx
  by_cases hj0 : j = 0
  · subst hj0
    rw [h0] at hj
    have : x = res := by simpa using hj.symm
    subst this
    exact ClsLe.refl hc (hS x hx)
  · exact sorted_means_nondecreasing cfg.tol S hc s.hof hS hinv.hof.sorted 0 j (by omega) res x h0 hj

/-- **The best score never gets worse from one generation to the next, nor over any number of generations**
    (class level, coherent scores). -/
theorem best_never_gets_worse (P : Params C D) (cfg : Cfg) (dr : Draws D) (S : Score → Prop)
    (hc : Coherent cfg.tol S) (hm : ∀ c, S (P.metric c)) (hinf : S Score.inf) (fuel g : Nat) (s s' : St C)
    (hinv : Inv P cfg s) (hres : generations P cfg dr g fuel s = .ok s') :
    ∀ a b, s.hof[0]? = some a → s'.hof[0]? = some b → ClsLe cfg.tol b.score a.score :=
  generations_head P cfg dr S hc hm hinf fuel g hinv hres

/-- **The result is at least as good as every circuit the run ever evaluated** (class level, coherent scores): for
    every generation `g < n_stop` the run passes through a state `m` from which the population, as mutated and scored in
    generation `g`, contains no member in a class below the final result's. -/
theorem result_not_worse_than_anything_evaluated (P : Params C D) (cfg : Cfg) (dr : Draws D) (tp : TransProbs)
    (init : List C) (hlen : init.length = cfg.nPop) (S : Score → Prop) (hc : Coherent cfg.tol S)
    (hm : ∀ c, S (P.metric c)) (hinf : S Score.inf) (s : St C) (res : HofEntry)
    (hres : solve P cfg dr tp init = .ok (s, res)) (g : Nat) (hg : g < cfg.nStop) :
    ∃ m h1 pop1, generations P cfg dr 0 g (initState cfg tp init) = .ok m ∧
      mutatePhase P (dr.mutation g) 0 cfg.nPop m.heap m.pop = .ok (h1, pop1) ∧
      (∀ e ∈ pop1, PopHonest P h1 e) ∧ ∀ e ∈ pop1, ClsLe cfg.tol res.score e.score := by
  obtain ⟨hgens, h0⟩ := solve_spec P cfg dr tp init hres
  have hinv0 := initState_inv P cfg tp init hlen
  have e1 : cfg.nStop = g + (1 + (cfg.nStop - g - 1)) := by omega
  rw [e1] at hgens
  obtain ⟨m, hm1, hm2⟩ := generations_split P cfg dr g _ 0 hgens
  obtain ⟨m', hm3, hm4⟩ := generations_split P cfg dr 1 _ (0 + g) hm2
  have hinvm := generations_inv P cfg dr g 0 hinv0 hm1
  -- the single generation g
  simp only [generations] at hm3
  split at hm3
  · simp at hm3
  · next m1 hgen =>
    simp only [Except.ok.injEq] at hm3
    subst hm3
    have hgen' : generation P cfg dr g m = .ok m1 := by simpa using hgen
    have hinvm1 := (generation_inv P cfg dr g hinvm hgen').1
    have hinvs := generations_inv P cfg dr _ _ hinvm1 hm4
    -- heads exist because lengths are n_hof throughout and the final head exists
    have hn : 0 < cfg.nHof := by
      have := (List.getElem?_eq_some_iff.mp h0).1
      rw [hinvs.hofLen] at this; exact this
    obtain ⟨ma, hma⟩ := exists_head m.hof (by rw [hinvm.hofLen]; exact hn)
    obtain ⟨mb, hmb⟩ := exists_head m1.hof (by rw [hinvm1.hofLen]; exact hn)
    obtain ⟨_, h1, pop1, hmut, hle⟩ := generation_head P cfg dr g S hc hm hinf hinvm hgen' _ _ hma hmb
    obtain ⟨⟨h1', pop1', hmut', _, hhon⟩, _⟩ :=
      generation_population_scores_honest P cfg dr g m m1 hinvm hgen'
    rw [hmut] at hmut'
    simp only [Except.ok.injEq, Prod.mk.injEq] at hmut'
    obtain ⟨rfl, rfl⟩ := hmut'
    have hlater := generations_head P cfg dr S hc hm hinf _ _ hinvm1 hm4 _ res hmb h0
    refine ⟨m, h1, pop1, hm1, hmut, hhon, ?_⟩
    intro e he
    have hSe : S e.score := by
      obtain ⟨c, _, hs⟩ := hhon e he
      rw [hs]; exact hm c
    exact ClsLe.trans hc (hinvs.hof_scores S hm hinf res (List.mem_of_getElem? h0))
      (hinvm1.hof_scores S hm hinf _ (List.mem_of_getElem? hmb)) hSe hlater (hle e he)

/-- **Whole run: the final hall of fame is sorted by (score class, node count) and keeps the best of everything
    evaluated** (coherent scores): neighbouring entries with isclose scores are ordered by node count, and for every
    generation `g < n_stop` the score of every population member evaluated in generation `g` is carried by a final
    entry, or the final worst entry is not above it. -/
theorem run_keeps_the_best_sorted_by_class_and_size (P : Params C D) (cfg : Cfg) (dr : Draws D) (tp : TransProbs)
    (init : List C) (hlen : init.length = cfg.nPop) (S : Score → Prop) (hc : Coherent cfg.tol S)
    (hm : ∀ c, S (P.metric c)) (hinf : S Score.inf) (hn : 0 < cfg.nHof) (s : St C) (res : HofEntry)
    (hres : solve P cfg dr tp init = .ok (s, res)) :
    SizeTie cfg.tol P.size s.heap s.hof ∧
    ∀ g, g < cfg.nStop → ∃ m h1 pop1, generations P cfg dr 0 g (initState cfg tp init) = .ok m ∧
      mutatePhase P (dr.mutation g) 0 cfg.nPop m.heap m.pop = .ok (h1, pop1) ∧
      ∀ e ∈ pop1, Kept cfg.tol s.hof e.score := by
  obtain ⟨hgens, _⟩ := solve_spec P cfg dr tp init hres
  have hinv0 := initState_inv P cfg tp init hlen
  refine ⟨generations_sizeTie P cfg dr S hc hm hinf cfg.nStop 0 hinv0 (initState_sizeTie P cfg tp init) hgens, ?_⟩
  intro g hg
  have e1 : cfg.nStop = g + (1 + (cfg.nStop - g - 1)) := by omega
  rw [e1] at hgens
  obtain ⟨m, hm1, hm2⟩ := generations_split P cfg dr g _ 0 hgens
  obtain ⟨m', hm3, hm4⟩ := generations_split P cfg dr 1 _ (0 + g) hm2
  have hinvm := generations_inv P cfg dr g 0 hinv0 hm1
  simp only [generations] at hm3
  split at hm3
  · simp at hm3
  · next m1 hgen =>
    simp only [Except.ok.injEq] at hm3
    subst hm3
    have hgen' : generation P cfg dr g m = .ok m1 := by simpa using hgen
    have hinvm1 := (generation_inv P cfg dr g hinvm hgen').1
    obtain ⟨⟨h1, pop1, hmut, hk⟩, _⟩ := generation_kept P cfg dr g S hc hm hinf hn hinvm hgen'
    obtain ⟨⟨h1', pop1', hmut', _, hhon⟩, _⟩ := generation_population_scores_honest P cfg dr g m m1 hinvm hgen'
    rw [hmut] at hmut'
    simp only [Except.ok.injEq, Prod.mk.injEq] at hmut'
    obtain ⟨rfl, rfl⟩ := hmut'
    refine ⟨m, h1, pop1, hm1, hmut, ?_⟩
    intro e he
    have hSe : S e.score := by
      obtain ⟨c, _, hs⟩ := hhon e he
      rw [hs]; exact hm c
    exact generations_kept P cfg dr S hc hm hinf hn _ _ hinvm1 hm4 e.score hSe (hk e he)

/-- **`solve` returns on every well-formed configuration**: `0 < n_hof ≤ n_pop`, a metric that never returns `inf`,
    `n_pop` initial circuits and — if selection is active with tournament size `k > 0` — tournament draws that are
    non-empty lists of indices `< n_pop` (what `random.choices(population, k=k)` produces).  So the hypothesis
    `solve … = .ok …` of the theorems of this section is met by all of these, for every transformation, every metric,
    every `n_stop` and every mutation draw; and after each generation the hall of fame holds no empty slot. -/
theorem solve_returns_on_wellformed_configurations (P : Params C D) (cfg : Cfg) (dr : Draws D) (tp : TransProbs)
    (init : List C) (hlen : init.length = cfg.nPop) (hfin : FiniteMetric P) (hn : 0 < cfg.nHof)
    (hle : cfg.nHof ≤ cfg.nPop)
    (hd : cfg.selectionActive = true → cfg.tournamentK ≠ 0 → ∀ g, DrawsValid cfg.nPop (dr.tournament g)) :
    ∃ s res, solve P cfg dr tp init = .ok (s, res) :=
  solve_returns P cfg dr tp init hlen hfin hn hle hd

/-- **Boundary of the quantifier "all settings".**  With `n_hof > n_pop` (and `n_stop ≥ 1`) `solve` never returns: the
    code reads `.depth` of a still-empty hall-of-fame slot in `update_logs` during the first generation.  (So every
    theorem above with hypothesis `solve … = .ok …` is about configurations with `n_hof ≤ n_pop` or `n_stop = 0`.) -/
theorem hof_larger_than_population_never_returns (P : Params C D) (cfg : Cfg) (dr : Draws D) (tp : TransProbs)
    (init : List C) (hlt : init.length < cfg.nHof) (hstop : 0 < cfg.nStop) :
    ∀ r, solve P cfg dr tp init ≠ .ok r :=
  solve_fails_of_hof_gt_pop P cfg dr tp init hlt hstop

/-! ## 4. Reproducibility -/

/-- **The run is a function of the configuration and of the draws it consumes**: two draw streams that agree on the
    `n_stop × n_pop` mutation draws and tournament draws give the same final state and result. -/
theorem run_is_function_of_consumed_draws (P : Params C D) (cfg : Cfg) (d1 d2 : Draws D)
    (hag : Draws.AgreeOn cfg d1 d2) (tp : TransProbs) (init : List C) :
    solve P cfg d1 tp init = solve P cfg d2 tp init :=
  solve_congr P cfg d1 d2 hag tp init

/-- Full statement of reproducibility across processes, in model terms: the transformations / metric may depend on an
    ambient process state `σ` (e.g. the hash seed that fixes `set` iteration order); runs with the same seed (= same draw
    stream) must coincide for all `σ`. -/
def reproducible_statement {Sig : Type} (P : Sig → Params C D) (cfg : Cfg) (dr : Draws D) (tp : TransProbs)
    (init : List C) : Prop :=
  ∀ σ σ', solve (P σ) cfg dr tp init = solve (P σ') cfg dr tp init

/-- **Partial**: reproducibility holds when the transformations, the metric and the node count do not depend on the
    process state.  Missing for the full statement: that the *real* transformations have this independence — they pick
    `candidates[ind]` from lists whose order must not depend on `set` iteration order; this is tested with different
    `PYTHONHASHSEED`s by the harness (and the candidate order of `_select_possible_*` is compared with the model's list
    order on every sampled circuit).  It failed for `remove_op` until /repo 6f7407b (`get_node_exclude_labels` returned
    `list(set(dag.nodes) - excluded)`); violations are reported as `repro:hashseed:candidate-order:<transformation>`. -/
theorem reproducible_partial {Sig : Type} (P : Sig → Params C D) (cfg : Cfg) (dr : Draws D) (tp : TransProbs)
    (init : List C) (hindep : ∀ σ σ', P σ = P σ') : reproducible_statement P cfg dr tp init := by
  intro σ σ'
  rw [hindep σ σ']

/-! ## 5. Candidate lists of the two-qubit insertions -/

/-- `_select_possible_cnot_position` returns exactly the ordered pairs of admissible emitter edges that are not
    incompatible — each once per occurrence, in the nested order of `edge_dict["e"]` (the definition is the two nested
    loops over that *list*; no set is iterated). -/
theorem cnot_positions_characterised (d : DagView) (e e' : Edge) :
    (e, e') ∈ d.selectPossibleCnotPosition ↔
      (e ∈ d.eEdges ∧ d.opOf e.dst ≠ .output) ∧ (e' ∈ d.eEdges ∧ d.opOf e'.dst ≠ .output) ∧
      d.incompatible e e' = false := by
  simp only [DagView.selectPossibleCnotPosition, List.mem_flatMap, List.mem_map, List.mem_filter, Prod.mk.injEq]
  constructor
  · rintro ⟨a, ⟨ha1, ha2⟩, b, ⟨⟨hb1, hb2⟩, hb3⟩, rfl, rfl⟩
    exact ⟨⟨ha1, by simpa using ha2⟩, ⟨hb1, by simpa using hb2⟩, by simpa using hb3⟩
  · rintro ⟨⟨ha1, ha2⟩, ⟨hb1, hb2⟩, hb3⟩
    exact ⟨e, ⟨ha1, by simpa using ha2⟩, e', ⟨⟨hb1, by simpa using hb2⟩, by simpa using hb3⟩, rfl, rfl⟩

/-- `_select_possible_measurement_position`: exactly the pairs (admissible emitter edge, admissible photon edge) that are
    not incompatible, in the nested order of the two `edge_dict` lists. -/
theorem measurement_positions_characterised (d : DagView) (e e' : Edge) :
    (e, e') ∈ d.selectPossibleMeasurementPosition ↔
      (e ∈ d.eEdges ∧ d.opOf e.dst ≠ .output ∧ d.opOf e.dst ≠ .measCnotReset ∧ d.opOf e.src ≠ .input ∧
        d.opOf e.src ≠ .measCnotReset) ∧
      (e' ∈ d.pEdges ∧ d.opOf e'.dst ≠ .measCnotReset ∧ d.opOf e'.src ≠ .input) ∧
      d.incompatible e e' = false := by
  simp only [DagView.selectPossibleMeasurementPosition, List.mem_flatMap, List.mem_map, List.mem_filter, Prod.mk.injEq]
  constructor
  · rintro ⟨a, ⟨ha1, ha2⟩, b, ⟨⟨hb1, hb2⟩, hb3⟩, rfl, rfl⟩
    simp only [Bool.and_eq_true, bne_iff_ne, ne_eq, decide_eq_true_eq] at ha2 hb2
    exact ⟨⟨ha1, by simpa using ha2.1.1.1, by simpa using ha2.1.1.2, by simpa using ha2.1.2, by simpa using ha2.2⟩,
      ⟨hb1, by simpa using hb2.1, by simpa using hb2.2⟩, by simpa using hb3⟩
  · rintro ⟨⟨ha1, ha2, ha3, ha4, ha5⟩, ⟨hb1, hb2, hb3⟩, hb4⟩
    refine ⟨e, ⟨ha1, ?_⟩, e', ⟨⟨hb1, ?_⟩, by simpa using hb4⟩, rfl, rfl⟩
    · simp [ha2, ha3, ha4, ha5]
    · simp [hb2, hb3]

/-! ## 5a. `SolverResult.sort_by` -/

/-- sorting a result table by a score column keeps exactly the same rows (every circuit stays with its own properties),
    orders them by non-decreasing key, and is stable -/
theorem solver_result_sort_by (α : Type) (key : α → Score) (rows : List α) :
    (sortRowsBy key rows).Perm rows ∧
    List.Pairwise (fun a b => (key a).le (key b) = true) (sortRowsBy key rows) ∧
    ∀ a b, (key a).le (key b) = true → [a, b].Sublist rows → [a, b].Sublist (sortRowsBy key rows) :=
  sortRowsBy_spec key rows

/-! ## 5b. Transformation probabilities -/

/-- **`adapt_probabilities` always yields a probability vector** with the same transformations in the same order, for
    every `n_stop`, every number of emitters and every positive table; so do the initial tables of both solvers and the
    table of `randomize_circuit`. -/
theorem adapt_probabilities_is_distribution (nStop nEmitter : Nat) (p : TransProbs) (hp : IsDist p) :
    IsDist (adaptProbabilities nStop nEmitter p) ∧ (adaptProbabilities nStop nEmitter p).map (·.1) = p.map (·.1) :=
  adapt_isDist nStop nEmitter p hp.ne_nil hp.1

theorem initial_tables_are_distributions (nEmitter : Nat) :
    IsDist (initTransProbsEvo nEmitter) ∧ IsDist (initTransProbsHybrid nEmitter) ∧ IsDist (randomizeTransProbs nEmitter) :=
  init_tables_isDist nEmitter

/-- **In every generation of every run `np.random.choice` is handed a probability vector** over the same
    transformations (adaptive probabilities on or off). -/
theorem probabilities_stay_distribution (P : Params C D) (cfg : Cfg) (dr : Draws D) (fuel g : Nat) (s s' : St C)
    (hd : IsDist s.transProbs) (hres : generations P cfg dr g fuel s = .ok s') :
    IsDist s'.transProbs ∧ s'.transProbs.map (·.1) = s.transProbs.map (·.1) :=
  generations_transProbs P cfg dr fuel g hd hres

/-- `np.random.choice(len(p), p=p)` as a function of the uniform draw returns a valid index -/
theorem choice_index_valid (p : List Rat) (u : Rat) (hne : p ≠ []) (hpos : 0 < sumQ p) (hu : u < 1) :
    choiceIndex p u < p.length :=
  choiceIndex_lt p u hne hpos hu

/-! ## 6. Non-vacuity: concrete objects satisfying the hypotheses, and the refutation of the literal reading -/

/-- toy instance: a "circuit" is a number, a transformation adds the draw, the metric is `1/(1 + c mod 4)`, the node
    count is the number itself -/
def exP : Params Nat Nat := ⟨fun c d => c + d, fun c => Score.fin (1 / ((c % 4 : Nat) + 1 : Rat)), fun c => c⟩
def exCfg : Cfg :=
  { nHof := 2, nStop := 3, nPop := 3, tournamentK := 2, selectionActive := true, useAdaptProbability := true, nEmitter := 2 }
def exDr : Draws Nat := ⟨fun g j => g + 2 * j + 1, fun g i => [i, (i + g + 1) % 3]⟩
def exRun := solve exP exCfg exDr (initTransProbsEvo 2) [5, 6, 7]

def okWith {α : Type} (r : Except Err α) (f : α → Bool) : Bool :=
  match r with
  | .ok a => f a
  | .error _ => false

/-- a run with selection and adaptive probabilities returns, with a hall of fame of two *different* finite scores held
    in fresh objects (so the hypotheses `solve … = .ok …`, `init.length = n_pop` of §3 are met by a non-trivial run) -/
example : okWith exRun (fun (s, r) => r.score == Score.fin (1 / 4) && s.hof.map (·.score) == [Score.fin (1 / 4), Score.fin (1 / 3)]
    && s.hof.map (·.circ) == [some 11, some 3] && s.pop.map (·.circ) == [12, 13, 14]) = true := by decide +kernel

example : [5, 6, 7].length = exCfg.nPop := rfl

/-- the toy configuration meets the hypotheses of `solve_returns_on_wellformed_configurations` -/
example : FiniteMetric exP ∧ 0 < exCfg.nHof ∧ exCfg.nHof ≤ exCfg.nPop ∧ ∀ g, DrawsValid exCfg.nPop (exDr.tournament g) := by
  refine ⟨fun c => ⟨_, rfl⟩, by decide, by decide, ?_⟩
  intro g i hi
  refine ⟨by simp [exDr], ?_⟩
  intro x hx
  simp only [exDr, List.mem_cons, List.not_mem_nil, or_false] at hx
  have h3 : exCfg.nPop = 3 := rfl
  rcases hx with rfl | rfl
  · exact hi
  · rw [h3]; omega

/-- the scores of the toy metric (and `inf`) are coherent for numpy's tolerances: the hypothesis of the class-level
    theorems is satisfiable by a non-trivial score set -/
def exScores : List Score := [Score.fin 1, Score.fin (1 / 2), Score.fin (1 / 3), Score.fin (1 / 4), Score.inf]

theorem example_scores_coherent : Coherent Tol.numpy (fun a => a ∈ exScores) :=
  coherent_of_coherentOn Tol.numpy exScores (by decide +kernel)

example : ∀ c, exP.metric c ∈ exScores := by
  intro c
  have h : c % 4 = 0 ∨ c % 4 = 1 ∨ c % 4 = 2 ∨ c % 4 = 3 := by omega
  rcases h with h | h | h | h <;> simp [exP, exScores, h] <;> decide +kernel

/-- the infidelities a pure stabilizer target on `n` qubits can produce (the overlap of two stabilizer states is `0` or
    `2^-k`, `0 ≤ k ≤ n` — cited fact), plus `np.inf` -/
def stabInfidelities (n : Nat) : List Score :=
  (Score.fin 1 :: (List.range (n + 1)).map fun k => Score.fin (1 - 1 / (2 ^ k : Rat))) ++ [Score.inf]

/-- **Where the class-level theorems apply to `Infidelity`**: for stabilizer targets of up to 16 qubits the possible
    scores are coherent for numpy's tolerances … -/
theorem stabilizer_infidelities_coherent_up_to_16_qubits :
    Coherent Tol.numpy (fun a => a ∈ stabInfidelities 16) :=
  coherent_of_coherentOn Tol.numpy (stabInfidelities 16) (by decide +kernel)

/-- … and from 17 qubits on they are not (`1-2^-16 ≈ 1-2^-17 ≈ 1-2^-18` but `1-2^-16 ≉ 1-2^-18` at `rtol = 1e-5`): there the
    hall of fame of nearly orthogonal circuits can be out of order by design. -/
theorem stabilizer_infidelities_incoherent_from_17_qubits :
    coherentOn Tol.numpy (stabInfidelities 17) = false := by decide +kernel

/-- float-noise neighbours are coherent too: `0.5` and `0.4999999999999999` are one class -/
example : coherentOn Tol.numpy
    [Score.fin (1 / 2), Score.fin (4503599627370495 / 9007199254740992), Score.fin (3 / 4), Score.fin 0, Score.inf] = true := by
  decide +kernel

/-- **The literal reading is refuted** for scores that drift inside the tolerance: starting from the hall of fame
    `[(1, 10 nodes)]`, the population `[(1 + 9·10⁻⁶, 9 nodes), (1 + 18·10⁻⁶, 8 nodes)]` (each isclose to its predecessor
    and smaller) is inserted *in front*: afterwards the best score is `1 + 18·10⁻⁶`, which is larger than, and not
    isclose to, the previous best `1`, and the entries are in strictly decreasing order.  (So "non-decreasing" / "never
    worse" can only be claimed up to the tolerance between neighbours, or on isclose classes.) -/
theorem literal_order_refuted :
    let h : Heap Nat := ⟨#[10, 9, 8]⟩
    let hof : List HofEntry := [⟨Score.fin 1, some 0⟩, ⟨Score.inf, none⟩, ⟨Score.inf, none⟩]
    let pop : List PopEntry := [⟨Score.fin (1 + 9 / 1000000), 1⟩, ⟨Score.fin (1 + 18 / 1000000), 2⟩]
    okWith (updateHof Tol.numpy (fun c : Nat => c) 3 h hof pop) (fun (_, hof') =>
      hof'.map (·.score) == [Score.fin (1 + 18 / 1000000), Score.fin (1 + 9 / 1000000), Score.fin 1] &&
      (Score.fin 1).lt (Score.fin (1 + 18 / 1000000)) &&
      !(Score.fin (1 + 18 / 1000000)).isclose Tol.numpy (Score.fin 1)) = true := by
  decide +kernel

/-- a parameter family whose transformation depends on the process state (shape of the `list(set)` defect) -/
def exFamily (σ : Bool) : Params Nat Nat := ⟨fun c d => if σ then c + d else c + 2 * d, exP.metric, exP.size⟩

/-- reproducibility genuinely needs the independence hypothesis: with a state-dependent transformation the same draws
    give different halls of fame -/
theorem reproducible_statement_needs_independence :
    ¬ reproducible_statement exFamily exCfg exDr (initTransProbsEvo 2) [5, 6, 7] := by
  intro h
  have h1 : okWith (solve (exFamily true) exCfg exDr (initTransProbsEvo 2) [5, 6, 7])
      (fun (s, _) => s.hof.map (·.score) == [Score.fin (1 / 4), Score.fin (1 / 3)]) = true := by decide +kernel
  have h2 : okWith (solve (exFamily false) exCfg exDr (initTransProbsEvo 2) [5, 6, 7])
      (fun (s, _) => s.hof.map (·.score) == [Score.fin (1 / 4), Score.fin (1 / 3)]) = false := by decide +kernel
  rw [h true false] at h1
  rw [h1] at h2
  exact absurd h2 (by decide)

/-- and it is satisfiable: a constant family is reproducible -/
example : reproducible_statement (fun _ : Bool => exP) exCfg exDr (initTransProbsEvo 2) [5, 6, 7] :=
  reproducible_partial _ _ _ _ _ (fun _ _ => rfl)

/-- the hypothesis `IsDist` is met by the solvers' own tables, and adaptation changes them (non-trivially) -/
example : IsDist (initTransProbsEvo 2) ∧
    (adaptProbabilities 10 2 (initTransProbsEvo 2)).map (·.2) = [13 / 60, 13 / 60, 7 / 20, 13 / 60] :=
  ⟨(init_tables_isDist 2).1, by decide +kernel⟩

example : choiceIndex [1 / 4, 1 / 4, 1 / 2] (1 / 2) = 2 := by decide +kernel

/-- a hall of fame satisfying `HofInv` with real content (used by the hypotheses of §1): two entries pointing to two
    different heap objects with honest scores -/
example : HofInv exP Tol.numpy (⟨#[3, 2]⟩ : Heap Nat) [⟨Score.fin (1 / 4), some 0⟩, ⟨Score.fin (1 / 3), some 1⟩] := by
  refine ⟨?_, ?_, ?_, ?_⟩
  · intro r hr; simp [hofRefs] at hr; rcases hr with rfl | rfl <;> simp [Heap.size]
  · simp [hofRefs]
  · intro e he
    simp at he
    rcases he with rfl | rfl
    · exact ⟨3, rfl, by simp [exP]; decide +kernel⟩
    · exact ⟨2, rfl, by simp [exP]; decide +kernel⟩
  · intro j a b ha hb
    match j, ha, hb with
    | 0, ha, hb =>
      simp at ha hb; subst ha; subst hb
      exact Or.inl (by decide +kernel)
    | j + 1, ha, hb => simp at hb

end Graphiq.C19
