/-
  C12 — the circuit DAG stays structurally consistent under any edit history.

  Property theorems only (lemmas: Proofs/DagBasic.lean, Proofs/Dag.lean; model: Model/Dag.lean).

  `DagInv c` (Proofs/Dag.lean) = there are per-register wires `P k = inp k, n₁, …, n_m, out k` (duplicate-free lists of
  node ids, one per existing register) such that
    * the keyed edges of the graph are exactly the consecutive pairs of the wires (so every register's edges form ONE
      path from its input to its output), the edge list has no duplicates;
    * nodes: ids are unique, the I/O nodes are exactly those of the existing registers and hold Input/Output operations,
      operation nodes have ids in `1.._node_id`;
    * `node_dict[label]` lists each node exactly as often as the label occurs among the node's keys (labels, class name,
      register-type description; "Input"/"Output" for I/O nodes), `edge_dict[t]` lists each edge of type `t` exactly once;
    * the wire of a quantum register visits exactly the operation nodes acting on that register (a classical wire only
      operations that name it);
    * the graph is acyclic.
  The theorems say: DagInv holds initially and after every edit of every finite history (for all sizes), what DagInv
  gives (sources/sinks, single path, indexes, register counts), that a two-qubit insertion on a pair the circuit reports
  compatible keeps it, which edits can change the register counts, and that every linear extension (what
  `nx.topological_sort` returns) runs along every wire in wire order; and (§7) every edit is the obvious list edit on the
  wires — `group_one_qubit_gates` included: it replaces every maximal run of adjacent one-qubit gates of a wire by one
  wrapper holding the run's classes in the order the code collects them, and changes nothing else
  (`group_is_fuse_of_runs_on_wires`).
  Added by the C18 deepening: `validate()` passes on every such circuit (§3); a topological order restricted to a register IS the
  wire (§6); `GroupHyp` — the hypothesis of the fuse refinement — is an invariant of the whole edit API for graphiq-constructed
  operation arguments, so the refinement holds after any history (§9), also with the classical threading of every operation
  (`group_is_fuse_of_runs_on_wired_wires`), as do flatMap-unwrap / filter for `unwrap_nodes` / `remove_identity`, giving a closed-form
  interpreter for rewrite histories (`rewrite_history_on_wired_wires`); `find_incompatible_edges` is characterised exactly, complete
  for cycles and conservative; insertions on input / output edges and on reported-compatible pairs are well-formed calls (§9–§10).
-/
import GraphiqModel.Proofs.PrepOrder
import GraphiqModel.Proofs.Topo
import GraphiqModel.Proofs.FuseLoop
import GraphiqModel.Proofs.MetricsHistInv
import GraphiqModel.Proofs.MetricsHistReach
import GraphiqModel.Proofs.MetricsHist
import GraphiqModel.Proofs.MetricsHistFuse
import GraphiqModel.Proofs.MetricsHistCheck
import GraphiqModel.Proofs.MetricsHistWires
import GraphiqModel.Proofs.MetricsHistValidate
import GraphiqModel.Proofs.MetricsHistNodeEdits
namespace Graphiq.C12
open Graphiq Graphiq.Dag Graphiq.Metrics Relation

/-! ## 1. the edit API -/

/-- the edits of the `CircuitDAG` API (node arguments are operation nodes: integers) -/
inductive Edit where
  | add (op : Op)
  | insertAt (op : Op) (edges : List Edge)
  | removeOp (node : Nat)
  | replaceOp (node : Nat) (op : Op)
  | unwrapNodes
  | removeIdentity
  | groupOneQubitGates
  | addRegister (t : RegType) (size : Nat)

/-- the model's result of an edit: the circuit afterwards (also when the call raises) and the error class -/
def apply (c : Dag) : Edit → Dag.Res
  | .add op => c.add op
  | .insertAt op es => c.insertAt op es
  | .removeOp i => c.removeOp (.op i)
  | .replaceOp i op => c.replaceOp (.op i) op
  | .unwrapNodes => c.unwrapNodes
  | .removeIdentity => c.removeIdentity
  | .groupOneQubitGates => c.groupOneQubitGates
  | .addRegister t size => c.addRegister t size

/-- well-formed use of the API in state `c` (everything else is unconstrained: absent nodes, discontinuous register
    numbers, wrong register sets, register sizes ≠ 1 are allowed and make the call raise) -/
def EditOK (c : Dag) : Edit → Prop
  | .add op => OpWF op
  | .insertAt op es => OpWF op ∧ InsertOK c op es
  | .replaceOp _ op => OpWF op
  | _ => True

/-- run a history; a raising edit leaves its partially applied state and the history continues -/
def run (c : Dag) : List Edit → Dag
  | [] => c
  | e :: es => run (apply c e).1 es

/-- every edit of the history is a well-formed call in the state it is applied to -/
def HistOK (c : Dag) : List Edit → Prop
  | [] => True
  | e :: es => EditOK c e ∧ HistOK (apply c e).1 es

/-! ## 2. DagInv holds initially and after every edit of every history -/

/-- `CircuitDAG(n_emitter, n_photon, n_classical)` satisfies DagInv, for all register counts -/
theorem init_dagInv (ne np nc : Nat) : DagInv (Dag.init ne np nc) := init_good ne np nc

/-- every well-formed edit keeps DagInv — whether it succeeds or raises -/
theorem edit_preserves_dagInv {c : Dag} (h : DagInv c) (e : Edit) (he : EditOK c e) : DagInv (apply c e).1 := by
  obtain ⟨P, g⟩ := h
  cases e with
  | add op => exact add_good g he
  | insertAt op es => exact (insertAt_good g he.1 (InsertOK.of_pre g he.2)).1
  | removeOp i =>
    by_cases hp : NodeId.op i ∈ c.nodeIds
    · exact ⟨_, (removeOp_good g hp).2.1⟩
    · show DagInv (c.removeOp (.op i)).1
      rw [removeOp_absent (opOf_eq_none.mpr hp)]; exact ⟨P, g⟩
  | replaceOp i op => exact ⟨P, (replaceOp_good g he).1⟩
  | unwrapNodes => obtain ⟨P', g', _⟩ := unwrapNodes_good g; exact ⟨P', g'⟩
  | removeIdentity => obtain ⟨P', g', _⟩ := removeIdentity_good g; exact ⟨P', g'⟩
  | groupOneQubitGates => obtain ⟨P', g', _⟩ := groupOneQubitGates_good g; exact ⟨P', g'⟩
  | addRegister t size => exact addRegister_good g t size

/-- **History theorem.**  From any circuit satisfying DagInv, after any finite history of well-formed edits — in any
    order, successful or raising — the circuit satisfies DagInv. -/
theorem history_dagInv (es : List Edit) : ∀ {c : Dag}, DagInv c → HistOK c es → DagInv (run c es) := by
  induction es with
  | nil => intro c h _; exact h
  | cons e rest ih => intro c h hok; exact ih (edit_preserves_dagInv h e hok.1) hok.2

/-- … in particular from every freshly constructed circuit -/
theorem history_from_init (ne np nc : Nat) (es : List Edit) (hok : HistOK (Dag.init ne np nc) es) :
    DagInv (run (Dag.init ne np nc) es) := history_dagInv es (init_dagInv ne np nc) hok

/-- a well-formed `insert_at` does not raise once the register prologue has passed -/
theorem insertAt_succeeds {c : Dag} (h : DagInv c) {op : Op} {es : List Edge} (hop : OpWF op)
    (hok : InsertOK c op es) (hpro : (c.ensureRegs op).2 = none) : (c.insertAt op es).2 = none := by
  obtain ⟨P, g⟩ := h; exact (insertAt_good g hop (InsertOK.of_pre g hok)).2 hpro

/-! ## 3. what DagInv says -/

/-- the circuit is a DAG -/
theorem dagInv_acyclic {c : Dag} (h : DagInv c) : ∀ a, ¬ TransGen c.E a a := by
  obtain ⟨P, g⟩ := h; exact g.acyc

/-- the only sources are the register inputs, the only sinks the register outputs; the I/O nodes present are exactly
    those of the existing registers -/
theorem dagInv_sources_sinks {c : Dag} (h : DagInv c) :
    (∀ n ∈ c.nodeIds, (∀ a, ¬ c.E a n) ↔ ∃ r, n = .inp r) ∧ (∀ n ∈ c.nodeIds, (∀ b, ¬ c.E n b) ↔ ∃ r, n = .out r) ∧
    (∀ r, NodeId.inp r ∈ c.nodeIds ↔ r.idx < c.regs r.ty) ∧ (∀ r, NodeId.out r ∈ c.nodeIds ↔ r.idx < c.regs r.ty) := by
  obtain ⟨P, g⟩ := h
  exact ⟨fun n hn => g.source_iff hn, fun n hn => g.sink_iff hn, g.inv.inp_iff, g.inv.out_iff⟩

/-- every existing register's wire is a single path `in → … → out`: there is a duplicate-free list `mid` of operation
    nodes such that the edges keyed by the register are exactly the consecutive pairs of `in, mid…, out`; for a quantum
    register `mid` consists of exactly the operation nodes acting on it; no edge is keyed by a register that does not
    exist -/
theorem dagInv_wires {c : Dag} (h : DagInv c) (k : Reg) :
    (k.idx < c.regs k.ty →
      ∃ mid : List NodeId, (NodeId.inp k :: (mid ++ [NodeId.out k])).Nodup ∧
        (∀ u v, (⟨u, v, k⟩ : Edge) ∈ c.edges ↔ Consec (NodeId.inp k :: (mid ++ [NodeId.out k])) u v) ∧
        (k.ty ≠ .c → ∀ i op, (NodeId.op i, op) ∈ c.nodes → (NodeId.op i ∈ mid ↔ k ∈ op.qregs)) ∧
        (∀ n ∈ mid, ∃ i, n = NodeId.op i ∧ n ∈ c.nodeIds)) ∧
    (¬ k.idx < c.regs k.ty → ∀ u v, (⟨u, v, k⟩ : Edge) ∉ c.edges) := by
  obtain ⟨P, g⟩ := h
  constructor
  · intro hl
    obtain ⟨mid, hP, hmid⟩ := g.inv.shape k hl
    refine ⟨mid, hP ▸ g.inv.nodup k, ?_, ?_, ?_⟩
    · intro u v; rw [g.inv.edges_iff, hP]
    · intro hq i op hop
      rw [← g.mem.mem_q i op hop k hq, hP]
      simp
    · intro n hn
      obtain ⟨i, hi⟩ := hmid n hn
      exact ⟨i, hi, g.inv.mem_nodes k n (by rw [hP]; simp [hn])⟩
  · intro hl u v hm
    exact hl (g.inv.live_of_edge hm)

/-- the label index and the edge index agree with the graph (as multisets): `node_dict[l]` contains node `n` exactly as
    often as `l` occurs among the keys of `n`'s operation, `edge_dict[t]` contains each edge of type `t` exactly once
    and nothing else; the graph's edge list itself has no duplicates -/
theorem dagInv_indexes {c : Dag} (h : DagInv c) :
    (∀ l n, (dictGet c.nodeDict l).count n = c.indexCount n l) ∧
    (∀ t e, (dictGet c.edgeDict t).count e = if e ∈ c.edges ∧ e.key.ty = t then 1 else 0) ∧ c.edges.Nodup ∧
    c.nodeIds.Nodup := by
  obtain ⟨P, g⟩ := h
  exact ⟨g.inv.nodeDict_ok, g.inv.edgeDict_ok, g.inv.edges_nodup, g.inv.ids_nodup⟩

/-- register counts = number of input nodes per type -/
theorem dagInv_register_counts {c : Dag} (h : DagInv c) (t : RegType) :
    (c.nodeIds.filter (fun n => match n with | .inp r => r.ty = t | _ => false)).length = c.regs t := by
  obtain ⟨P, g⟩ := h; exact g.inv.input_count t

/-- **the code's own structural check passes**: `CircuitDAG.validate()` — acyclic (the model's Kahn-style `isAcyclicB`), every node
    without in-edges holds an `Input`, every node without out-edges an `Output` — returns without raising on every circuit
    satisfying DagInv -/
theorem validate_passes {c : Dag} (h : DagInv c) : c.validate = none := by
  obtain ⟨P, g⟩ := h; exact validate_of_good g

/-- … hence after every history of well-formed edits from a fresh circuit -/
theorem validate_passes_after_every_history (ne np nc : Nat) (es : List Edit) (hok : HistOK (Dag.init ne np nc) es) :
    (run (Dag.init ne np nc) es).validate = none :=
  validate_passes (history_from_init ne np nc es hok)

/-! ## 4. inserting on a pair the circuit reports compatible never creates a cycle -/

/-- **Compatible insertion.**  Let `anc`, `desc` be what networkx returns for `ancestors(first.src)` and
    `descendants(first.dst)` (recorded specification: exactly the nodes with a non-empty path to / from the node).  If
    `second` is an edge of the circuit that `find_incompatible_edges(first)` does not contain, then `insert_at` of an
    operation on the registers of the two edges succeeds and the circuit still satisfies DagInv — in particular it is
    acyclic.  (All register counts and sizes; the registers of the operation exist because its edges do.) -/
theorem compatible_insert_keeps_dagInv {c : Dag} (h : DagInv c) {op : Op} (hop : OpWF op) {first second : Edge}
    {anc desc : List NodeId} {L : List Edge} (hanc : AncSpec c first.src anc) (hdesc : DescSpec c first.dst desc)
    (hL : c.findIncompatibleEdgesWith anc desc first = .ok L) (h1 : first ∈ c.edges) (h2 : second ∈ c.edges)
    (hcompat : second ∉ L) (hq : op.qregs = [first.key, second.key]) (hc : ∀ r ∈ op.cregs, r < c.regs .c) :
    (c.insertAt op [first, second]).2 = none ∧ DagInv (c.insertAt op [first, second]).1 := by
  obtain ⟨P, g⟩ := h
  have hlive : ∀ r ∈ opRegs op, c.live r := by
    intro r hr
    unfold opRegs at hr
    rcases List.mem_append.mp hr with hr | hr
    · rw [hq] at hr; simp at hr
      rcases hr with rfl | rfl
      · exact g.inv.live_of_edge h1
      · exact g.inv.live_of_edge h2
    · obtain ⟨j, hj, rfl⟩ := List.mem_map.mp hr
      exact hc j hj
  have hens : c.ensureRegs op = (c, none) := ensureRegs_live_eq g.inv hop.qregs_ne hlive
  obtain ⟨n1, n2⟩ := compatible_no_path hanc hdesc hL h2 hcompat
  have hok : InsertOK (c.ensureRegs op).1 op [first, second] := by
    rw [hens]
    refine ⟨?_, by simp [hq], ?_⟩
    · intro e he; simp at he; rcases he with rfl | rfl <;> assumption
    · intro e1 he1 e2 he2 hne
      simp at he1 he2
      rcases he1 with rfl | rfl <;> rcases he2 with rfl | rfl
      · exact absurd rfl hne
      · exact n1
      · exact n2
      · exact absurd rfl hne
  have := insertAt_good g hop hok
  exact ⟨this.2 (by rw [hens]), this.1⟩

/-- the model's own breadth-first instances of `ancestors` / `descendants` meet the recorded networkx specification on
    every circuit satisfying DagInv — so the set the model computes for `find_incompatible_edges` (which the harness
    compares with the implementation's on every query) is a verified computation -/
theorem model_reachability_meets_nx_spec {c : Dag} (h : DagInv c) (n : NodeId) :
    AncSpec c n (c.ancestors n) ∧ DescSpec c n (c.descendants n) := by
  obtain ⟨P, g⟩ := h
  exact ⟨ancestors_spec g n, descendants_spec g n⟩

/-- … hence: an edge pair that the model's `find_incompatible_edges` reports compatible can always be used for a
    two-qubit `insert_at`, which succeeds and keeps DagInv (no hypothesis about networkx left) -/
theorem model_compatible_insert_keeps_dagInv {c : Dag} (h : DagInv c) {op : Op} (hop : OpWF op) {first second : Edge}
    {L : List Edge} (hL : c.findIncompatibleEdges first = .ok L) (h1 : first ∈ c.edges) (h2 : second ∈ c.edges)
    (hcompat : second ∉ L) (hq : op.qregs = [first.key, second.key]) (hc : ∀ r ∈ op.cregs, r < c.regs .c) :
    (c.insertAt op [first, second]).2 = none ∧ DagInv (c.insertAt op [first, second]).1 :=
  compatible_insert_keeps_dagInv h hop (model_reachability_meets_nx_spec h first.src).1
    (model_reachability_meets_nx_spec h first.dst).2 hL h1 h2 hcompat hq hc

/-! ## 5. only register-adding edits change the register counts -/

/-- `remove_op`, `replace_op`, `unwrap_nodes`, `remove_identity`, `group_one_qubit_gates` never change the register
    counts; `add` / `insert_at` do not when every register of the operation already exists (otherwise they add exactly
    the missing registers, `ensureRegs`); only `add_*_register` and operations on new registers change them -/
theorem register_counts_change_only_by_register_adding {c : Dag} (h : DagInv c) (e : Edit) (he : EditOK c e) :
    match e with
    | .addRegister _ _ => True
    | .add op => (∀ r ∈ opRegs op, r.idx < c.regs r.ty) → (apply c e).1.regs = c.regs
    | .insertAt op _ => (∀ r ∈ opRegs op, r.idx < c.regs r.ty) → (apply c e).1.regs = c.regs
    | _ => (apply c e).1.regs = c.regs := by
  obtain ⟨P, g⟩ := h
  cases e with
  | addRegister t s => trivial
  | add op =>
    intro hl
    show (c.add op).1.regs = c.regs
    unfold add
    rw [ensureRegs_live_eq g.inv he.qregs_ne hl]
    obtain ⟨_, _, hr, _⟩ := add_good' g he hl
    exact hr
  | insertAt op es =>
    intro hl
    show (c.insertAt op es).1.regs = c.regs
    have hens := ensureRegs_live_eq g.inv he.1.qregs_ne hl
    have hok := he.2
    unfold insertAt
    rw [hens]
    have hlen : es.length = op.qregs.length := by rw [← hok.keys, List.length_map]
    simp only [hlen, ne_eq, not_true_eq_false, if_false]
    obtain ⟨_, _, _, hr, _⟩ := insertAt_good' g he.1 hok
    exact hr
  | removeOp i =>
    show (c.removeOp (.op i)).1.regs = c.regs
    by_cases hp : NodeId.op i ∈ c.nodeIds
    · exact (removeOp_good g hp).2.2.1
    · rw [removeOp_absent (opOf_eq_none.mpr hp)]
  | replaceOp i op => exact (replaceOp_good g he).2
  | unwrapNodes => obtain ⟨_, _, hr⟩ := unwrapNodes_good g; exact hr
  | removeIdentity => obtain ⟨_, _, hr⟩ := removeIdentity_good g; exact hr
  | groupOneQubitGates => obtain ⟨_, _, hr⟩ := groupOneQubitGates_good g; exact hr

/-! ## 6. the sequence handed to compilers -/

/-- **Any linear extension is a valid sequence.**  `sequence()` is `nx.topological_sort(dag)`; its recorded
    specification is "a linear extension of the edge relation" (position function `pos`).  For every such order and
    every register, the operations on the register's wire appear in wire order: if `x` comes before `y` on the wire
    then `pos x < pos y`.  (That networkx returns a linear extension is its recorded contract; the harness checks every
    returned sequence to be one.  Existence: `sequence_is_topological_order` below.) -/
theorem linear_extension_respects_wires {c : Dag} (h : DagInv c) {pos : NodeId → Nat} (hlin : LinearExt c pos) :
    ∃ P : Reg → List NodeId,
      (∀ e, e ∈ c.edges ↔ Consec (P e.key) e.src e.dst) ∧
      ∀ k l1 l2 l3 x y, P k = l1 ++ x :: (l2 ++ y :: l3) → pos x < pos y := by
  obtain ⟨P, g⟩ := h
  exact ⟨P, g.inv.edges_iff, fun k l1 l2 l3 x y hP => pos_lt_of_before g.inv hlin k l1 l2 l3 x y hP⟩

/-- **a topological order exists**: every circuit satisfying DagInv has a position function that increases along
    every edge and is injective on the nodes — so `nx.topological_sort`, whose contract is to return a linear extension
    of an acyclic graph, has something to return, and by `linear_extension_respects_wires` whatever it returns applies
    the operations of every register in wire order -/
theorem sequence_is_topological_order {c : Dag} (h : DagInv c) :
    ∃ pos : NodeId → Nat, LinearExt c pos ∧ ∀ a ∈ c.nodeIds, ∀ b ∈ c.nodeIds, pos a = pos b → a = b :=
  topo_exists h

/-- **a topological order, restricted to a register, IS the wire** (not only ordered like it): for every position function that
    increases along every edge and is injective on the nodes, list the operation nodes by increasing position; the sublist of those
    lying on the wire of an existing register `r` is exactly `wire(r)` without its input and output node — in order, complete, nothing
    else.  (`schedOf` pairs every node with its operation as wired; `Sched.wire` is the statement.) -/
theorem topological_order_restricted_to_register_is_wire {c : Dag} {P : Reg → List NodeId} (g : Good c P) {pos : NodeId → Nat}
    (hlin : LinearExt c pos) (hinj : ∀ a ∈ c.nodeIds, ∀ b ∈ c.nodeIds, pos a = pos b → a = b) (r : Reg) (hl : r.idx < c.regs r.ty) :
    P r = .inp r :: (((schedOf c P pos).map (·.1)).filter (fun n => decide (n ∈ P r)) ++ [.out r]) := by
  have hS := schedOf_sched g hlin hinj
  have key : schedWire (schedOf c P pos) r = ((schedOf c P pos).map (·.1)).filter (fun n => decide (n ∈ P r)) := by
    unfold schedWire
    rw [List.filter_map]
    congr 1
    apply List.filter_congr
    intro p hp
    obtain ⟨i, o, hi, hm, hpo⟩ := hS.op_node hp
    simp only [Function.comp]
    have := mem_opRegs_wiredOp g hm r
    by_cases h : NodeId.op i ∈ P r
    · have h1 : r ∈ opRegs p.2 := hpo ▸ this.mpr h
      have h2 : p.1 ∈ P r := hi ▸ h
      simp [h1, h2]
    · have h1 : r ∉ opRegs p.2 := fun hh => h (this.mp (hpo ▸ hh))
      have h2 : p.1 ∉ P r := fun hh => h (hi ▸ hh)
      simp [h1, h2]
  rw [← key]
  exact hS.wire r hl

/-! ## 7. refinement: every concrete edit is the obvious list edit on the wires

  `Inv c P` relates the concrete state to the abstract wires `P` (unique: `wires_are_determined`).  The primitives act on
  the wires as list edits: append (`_add`), insert between two consecutive entries (`_insert_at`), erase (`remove_op`),
  nothing (`replace_op`), splice-in a list (`unwrap_nodes`, per wrapper node), fuse of the maximal runs of adjacent
  one-qubit gates (`group_one_qubit_gates`). -/

theorem wires_are_determined {c : Dag} {P P' : Reg → List NodeId} (h : Inv c P) (h' : Inv c P') (r : Reg) : P r = P' r :=
  h.paths_unique h' r

theorem add_is_append {c : Dag} {P : Reg → List NodeId} (g : Good c P) {op : Op} (hop : OpWF op)
    (hlive : ∀ r ∈ opRegs op, r.idx < c.regs r.ty) :
    ∃ P', Inv (c.add_ op) P' ∧ (∀ k ∉ opRegs op, P' k = P k) ∧
      ∀ k ∈ opRegs op, ∃ pre, P k = pre ++ [.out k] ∧ P' k = pre ++ [.op (c.nodeId + 1), .out k] :=
  add_refines g hop hlive

theorem insert_at_is_insert_between {c : Dag} {P : Reg → List NodeId} (g : Good c P) {op : Op} (hop : OpWF op)
    {es : List Edge} (hok : InsertOK c op es) :
    ∃ P', Inv (c.insertAt_ op es).1 P' ∧ (∀ k ∉ es.map (·.key), P' k = P k) ∧
      ∀ e ∈ es, ∃ l1 l2, P e.key = l1 ++ e.src :: e.dst :: l2 ∧
        P' e.key = l1 ++ e.src :: .op (c.nodeId + 1) :: e.dst :: l2 :=
  insertAt_refines g hop hok

theorem remove_op_is_erase {c : Dag} {P : Reg → List NodeId} (g : Good c P) {i : Nat} (hi : NodeId.op i ∈ c.nodeIds) :
    Inv (c.removeOp (.op i)).1 (fun k => (P k).erase (.op i)) := removeOp_refines g hi

theorem replace_op_keeps_wires {c : Dag} {P : Reg → List NodeId} (g : Good c P) {i : Nat} {new : Op} (hnew : OpWF new) :
    Inv (c.replaceOp (.op i) new).1 P := replaceOp_refines g hnew

theorem unwrap_is_splice_in {c : Dag} {P : Reg → List NodeId} (g : Good c P) {i : Nat} {w : Op}
    (hw : (NodeId.op i, w) ∈ c.nodes) (hk : w.kind = .wrapper) :
    ∃ r X Y P', w.qregs = [r] ∧ P r = X ++ .op i :: Y ∧
      Good ((c.unwrapOne (.op i) w.unwrap).1.removeOp (.op i)).1 P' ∧
      P' r = X ++ ((List.range w.unwrap.length).map fun j => NodeId.op (c.nodeId + 1 + j)) ++ Y ∧
      (∀ k, k ≠ r → P' k = P k) ∧
      ∀ p ∈ w.unwrap.zipIdx,
        (NodeId.op (c.nodeId + 1 + p.2), p.1) ∈ ((c.unwrapOne (.op i) w.unwrap).1.removeOp (.op i)).1.nodes :=
  unwrapNode_refines g hw hk

/-- **`unwrap_nodes`, whole edit, on the wires**: on a circuit of plain operations (no user labels; wrappers wrap base
    gate classes) every wire afterwards carries, in order, the unwrapped operations of what it carried before
    (`wireOps` = the operations held by the operation nodes of a wire, in wire order) -/
theorem unwrap_nodes_is_flatMap_on_wires {c : Dag} {P : Reg → List NodeId} (g : Good c P) (hpl : AllPlain c) :
    ∃ P', Good c.unwrapNodes.1 P' ∧ ∀ r, wireOps c.unwrapNodes.1 (P' r) = (wireOps c (P r)).flatMap Op.unwrap :=
  unwrapNodes_wires g hpl

/-- **`remove_identity`, whole edit, on the wires**: every wire afterwards carries, in order, the non-identity
    operations it carried before -/
theorem remove_identity_is_filter_on_wires {c : Dag} {P : Reg → List NodeId} (g : Good c P) (hpl : AllPlain c) :
    ∃ P', Good c.removeIdentity.1 P' ∧
      ∀ r, wireOps c.removeIdentity.1 (P' r) = (wireOps c (P r)).filter (fun o => !decide (o.kind = .identity)) :=
  removeIdentity_wires g hpl

/-! ### `group_one_qubit_gates` = fuse of runs

  Definitions (Proofs/Fuse.lean, all pure list functions):
    `gOp o`          the operation is groupable: it carries the label "one-qubit" and its class is a one-qubit gate class
                     (`c.groupable n = gOp (operation of n)` on every circuit satisfying DagInv: `groupable_is_gOp`);
    `kindsOf o`      `o.inner` for a wrapper (`gate_list += op.operations`), `[o.kind]` otherwise;
    `runKinds run`   `run.reverse.flatMap kindsOf` — the loop walks the wire backwards, so the classes of the LAST
                     operation of the run come first (the wrapper's convention: `unwrap()` reverses once more);
    `fuseRun r run`  `[OneQubitGateWrapper(runKinds run, r)]`, or `[]` if that gate list is empty (`if … and gate_list`);
    `fuseWire r l`   forward scan of `l` replacing every maximal run by `fuseRun`;
    `flatOps l`      the primitive gate classes of groupable operations in application order, other operations as they are. -/

/-- on a circuit satisfying DagInv the code's `groupable(node)` is the predicate `gOp` of the node's operation -/
theorem groupable_is_gOp {c : Dag} {P : Reg → List NodeId} (g : Good c P) {i : Nat} {o : Op} (hm : (NodeId.op i, o) ∈ c.nodes) :
    c.groupable (.op i) = gOp o ∧ (∀ r, c.groupable (.inp r) = false ∧ c.groupable (.out r) = false) :=
  ⟨groupable_op g.inv hm, fun r => ⟨groupable_inp g.inv r, groupable_out g.inv r⟩⟩

/-- **what `fuseWire` is** (these equations determine it): a non-groupable operation stays where it is; a maximal run of
    adjacent groupable operations — followed by nothing or by a non-groupable operation — is replaced by `fuseRun` of it,
    i.e. by ONE wrapper on the register whose gate list is `runKinds run` (the run's classes, last operation first;
    nothing if that list is empty); the code's backward scan with a pending gate list (`fuseBack`) computes the same -/
theorem fuse_wire_is_fuse_of_maximal_runs (r : Reg) :
    fuseWire r [] = [] ∧
    (∀ o t, gOp o = false → fuseWire r (o :: t) = o :: fuseWire r t) ∧
    (∀ run t, (∀ o ∈ run, gOp o = true) → (t = [] ∨ ∃ o t', t = o :: t' ∧ gOp o = false) →
      fuseWire r (run ++ t) = fuseRun r run ++ fuseWire r t) ∧
    (∀ run, fuseRun r run =
      if run.reverse.flatMap kindsOf = [] then []
      else [⟨.wrapper, [r], [], ["one-qubit"], run.reverse.flatMap kindsOf⟩]) ∧
    (∀ l, fuseBack r l.reverse [] = fuseWire r l) :=
  ⟨rfl, fun _ t ho => fuseWire_cons_ng r ho t, fun run t hrun hmax => fuseWire_run r run hrun t hmax, fun _ => rfl,
    fuseBack_eq_fuseWire r⟩

/-- fusing does not change the flattened sequence of a wire (pure list fact; the wrapper convention and the backward
    collection order cancel) -/
theorem fuse_preserves_flat (r : Reg) (l : List Op) : flatOps (fuseWire r l) = flatOps l := flatOps_fuseWire r l

/-- **`group_one_qubit_gates`, whole edit, on the wires.**  On a circuit satisfying DagInv whose operations are as
    graphiq constructs them (`GroupHyp`: no user labels, wrappers wrap base classes, every groupable operation is a
    one-qubit gate object — one quantum register, no classical register) the call does not raise, and with `P'` the wires
    afterwards:
      * on every wire the operation sequence is `fuseWire` of what it was: every maximal run of adjacent groupable
        operations is replaced by one wrapper holding the run's classes in the order the code builds the list, every
        other operation stays in place;
      * the nodes that are not groupable stay on their wires, in their order (`Sublist`), and keep their operations
        (only groupable nodes are removed; the wrappers are new nodes);
      * hence the flattened sequence of every wire is unchanged. -/
theorem group_is_fuse_of_runs_on_wires {c : Dag} {P : Reg → List NodeId} (g : Good c P) (hh : GroupHyp c) :
    c.groupOneQubitGates.2 = none ∧ ∃ P', Good c.groupOneQubitGates.1 P' ∧
      (∀ r, wireOps c.groupOneQubitGates.1 (P' r) = fuseWire r (wireOps c (P r))) ∧
      (∀ r, ((P r).filter (fun x => !c.groupable x)).Sublist (P' r)) ∧
      (∀ x, x ∈ c.nodeIds → c.groupable x = false → c.groupOneQubitGates.1.opOf? x = c.opOf? x) ∧
      (∀ r, flatOps (wireOps c.groupOneQubitGates.1 (P' r)) = flatOps (wireOps c (P r))) := by
  obtain ⟨e, P', g', _, hw, hsub, hkeep⟩ := groupOneQubitGates_wires g hh
  exact ⟨e, P', g', hw, hsub, hkeep, fun r => by rw [hw r]; exact flatOps_fuseWire r _⟩

/-! ## 8. non-vacuity: concrete operations, edges and a history satisfy the hypotheses -/

def hE0 : Op := Op.oneQubit .hadamard ⟨.e, 0⟩
def cnotE0P0 : Op := ⟨.cnot, [⟨.e, 0⟩, ⟨.p, 0⟩], [], ["two-qubit"], []⟩
def mcrE0P1 : Op := ⟨.mcr, [⟨.e, 0⟩, ⟨.p, 1⟩], [0], ["two-qubit"], []⟩
def wrapP0 : Op := ⟨.wrapper, [⟨.p, 0⟩], [], ["one-qubit"], [.hadamard, .phase]⟩

example : OpWF hE0 := oneQubit_wf rfl (by decide)

theorem cnot_wf : OpWF cnotE0P0 :=
  { not_input := by decide, not_output := by decide, qregs_ne := by decide, qregs_nodup := by decide,
    cregs_nodup := by decide, qregs_quantum := by decide,
    wrapper_shape := by intro h; exact absurd h (by decide),
    wrapper_key := by intro h; exact absurd h (by decide) }

theorem mcr_wf : OpWF mcrE0P1 :=
  { not_input := by decide, not_output := by decide, qregs_ne := by decide, qregs_nodup := by decide,
    cregs_nodup := by decide, qregs_quantum := by decide,
    wrapper_shape := by intro h; exact absurd h (by decide),
    wrapper_key := by intro h; exact absurd h (by decide) }

theorem wrap_wf : OpWF wrapP0 :=
  { not_input := by decide, not_output := by decide, qregs_ne := by decide, qregs_nodup := by decide,
    cregs_nodup := by decide, qregs_quantum := by decide,
    wrapper_shape := fun _ => ⟨⟨_, rfl⟩, rfl, by decide⟩,
    wrapper_key := fun _ => rfl }

/-- a history over the whole API, with a register-adding operation, a raising call and an insertion, is well-formed
    from `CircuitDAG(1, 1, 0)` — so `history_from_init` applies to it -/
example : HistOK (Dag.init 1 1 0)
    [.add hE0, .insertAt hE0 [⟨.op 1, .out ⟨.e, 0⟩, ⟨.e, 0⟩⟩], .add cnotE0P0, .add mcrE0P1, .add wrapP0, .removeOp 1,
     .removeOp 77, .replaceOp 3 cnotE0P0, .addRegister .e 1, .addRegister .p 2, .unwrapNodes, .removeIdentity,
     .groupOneQubitGates] :=
  ⟨oneQubit_wf rfl (by decide),
   ⟨oneQubit_wf rfl (by decide), ⟨by decide, rfl, by intro e1 h1 e2 h2 hne; simp at h1 h2; subst h1 h2; exact absurd rfl hne⟩⟩,
   cnot_wf, mcr_wf, wrap_wf, trivial, trivial, cnot_wf, trivial, trivial, trivial, trivial, trivial, trivial⟩

/-- a well-formed single-edge insertion: the edge exists (kernel-evaluated on the model) and is keyed by the register -/
example : InsertOK (Dag.init 1 1 0) hE0 [⟨.inp ⟨.e, 0⟩, .out ⟨.e, 0⟩, ⟨.e, 0⟩⟩] :=
  ⟨by decide, rfl, by intro e1 h1 e2 h2 hne; simp at h1 h2; subst h1 h2; exact absurd rfl hne⟩

/-- a two-qubit insertion on a pair the model reports compatible: on `CircuitDAG(1, 1, 0)` the hypotheses of
    `model_compatible_insert_keeps_dagInv` hold for `CNOT e0→p0` on the two (only) edges -/
example :
    (Dag.init 1 1 0).findIncompatibleEdges ⟨.inp ⟨.e, 0⟩, .out ⟨.e, 0⟩, ⟨.e, 0⟩⟩ =
      .ok [⟨.inp ⟨.e, 0⟩, .out ⟨.e, 0⟩, ⟨.e, 0⟩⟩] ∧
    (⟨.inp ⟨.e, 0⟩, .out ⟨.e, 0⟩, ⟨.e, 0⟩⟩ : Edge) ∈ (Dag.init 1 1 0).edges ∧
    (⟨.inp ⟨.p, 0⟩, .out ⟨.p, 0⟩, ⟨.p, 0⟩⟩ : Edge) ∈ (Dag.init 1 1 0).edges ∧
    (⟨.inp ⟨.p, 0⟩, .out ⟨.p, 0⟩, ⟨.p, 0⟩⟩ : Edge) ∉ [(⟨.inp ⟨.e, 0⟩, .out ⟨.e, 0⟩, ⟨.e, 0⟩⟩ : Edge)] ∧
    cnotE0P0.qregs = [⟨.e, 0⟩, ⟨.p, 0⟩] ∧ ∀ r ∈ cnotE0P0.cregs, r < (Dag.init 1 1 0).regs .c :=
  ⟨by rfl, by decide, by decide, by decide, rfl, by decide⟩

/-! ### `group_is_fuse_of_runs_on_wires` -/

def pE0 : Op := Op.oneQubit .phase ⟨.e, 0⟩
def zE0 : Op := Op.oneQubit .sigmaZ ⟨.e, 0⟩
def xP0 : Op := Op.oneQubit .sigmaX ⟨.p, 0⟩

/-- `H e0; P e0; CNOT e0→p0; W[H,P] p0; X p0; MCR e0→p1 (c0); Z e0` -/
def gseq : List Op := [hE0, pE0, cnotE0P0, wrapP0, xP0, mcrE0P1, zE0]

/-- the circuit built from it satisfies the hypotheses of `group_is_fuse_of_runs_on_wires` -/
example : DagInv (build 1 2 1 gseq).1 ∧ GroupHyp (build 1 2 1 gseq).1 := by
  apply groupHyp_of_built 1 2 1 gseq _ (by decide)
  intro op hop
  simp [gseq] at hop
  rcases hop with rfl | rfl | rfl | rfl | rfl | rfl | rfl
  · exact ⟨oneQubit_wf rfl (by decide), plain_oneQubit _ _, fun _ => ⟨⟨_, rfl⟩, rfl⟩⟩
  · exact ⟨oneQubit_wf rfl (by decide), plain_oneQubit _ _, fun _ => ⟨⟨_, rfl⟩, rfl⟩⟩
  · exact ⟨cnot_wf, ⟨⟨by decide, by decide⟩, by decide⟩, fun h => absurd h (by decide)⟩
  · exact ⟨wrap_wf, ⟨⟨by decide, by decide⟩, by decide⟩, fun _ => ⟨⟨_, rfl⟩, rfl⟩⟩
  · exact ⟨oneQubit_wf rfl (by decide), plain_oneQubit _ _, fun _ => ⟨⟨_, rfl⟩, rfl⟩⟩
  · exact ⟨mcr_wf, ⟨⟨by decide, by decide⟩, by decide⟩, fun h => absurd h (by decide)⟩
  · exact ⟨oneQubit_wf rfl (by decide), plain_oneQubit _ _, fun _ => ⟨⟨_, rfl⟩, rfl⟩⟩

/-- the operations on the wire that `reg_gate_history` returns -/
def opsOnWire (c : Dag) (r : Reg) : List Op :=
  match c.regGateHistory r with
  | .ok h => wireOps c h
  | .error _ => []

/-- on it the edit acts non-trivially (kernel-evaluated on the model; the real `group_one_qubit_gates` returns the same
    wires): `H; P` on `e0` become one wrapper with gate list `[Phase, Hadamard]`, the trailing `Z` one with `[SigmaZ]`,
    `W[H,P]; X` on `p0` one with `[SigmaX, Hadamard, Phase]`; CNOT and the measurement stay -/
example : (build 1 2 1 gseq).1.groupOneQubitGates.2 = none ∧
    opsOnWire (build 1 2 1 gseq).1.groupOneQubitGates.1 ⟨.e, 0⟩ =
      [wrapperOn ⟨.e, 0⟩ [.phase, .hadamard], cnotE0P0, mcrE0P1, wrapperOn ⟨.e, 0⟩ [.sigmaZ]] ∧
    opsOnWire (build 1 2 1 gseq).1.groupOneQubitGates.1 ⟨.p, 0⟩ =
      [cnotE0P0, wrapperOn ⟨.p, 0⟩ [.sigmaX, .hadamard, .phase]] := by decide

example : fuseWire ⟨.e, 0⟩ [hE0, pE0, cnotE0P0, mcrE0P1, zE0] =
      [wrapperOn ⟨.e, 0⟩ [.phase, .hadamard], cnotE0P0, mcrE0P1, wrapperOn ⟨.e, 0⟩ [.sigmaZ]] ∧
    fuseWire ⟨.p, 0⟩ [cnotE0P0, wrapP0, xP0] = [cnotE0P0, wrapperOn ⟨.p, 0⟩ [.sigmaX, .hadamard, .phase]] ∧
    flatOps [cnotE0P0, wrapP0, xP0] = [.inr cnotE0P0, .inl .phase, .inl .hadamard, .inl .sigmaX] := by decide

/-! ## 9. `GroupHyp` is an invariant of the edit API: it holds on every reachable circuit

  `GroupHyp c` (hypothesis of `group_is_fuse_of_runs_on_wires`) says that every operation held by the circuit is as
  graphiq's own classes construct it: no user labels, at most two quantum registers, wrappers wrap base gate classes, and an
  operation that carries the label "one-qubit" and is of a one-qubit gate class acts on ONE quantum register and NO classical
  register.  It is a statement about the operation objects only, so it can only be violated by handing the API an operation
  object that graphiq's constructors cannot produce (`GraphiqOp` fails) — never by the edits themselves: -/

/-- a well-formed call whose operation argument (if any) is an object graphiq's classes construct -/
def EditOKg (c : Dag) : Edit → Prop
  | .add op => GraphiqOp op
  | .insertAt op es => GraphiqOp op ∧ InsertOK c op es
  | .replaceOp _ op => GraphiqOp op
  | _ => True

def HistOKg (c : Dag) : List Edit → Prop
  | [] => True
  | e :: es => EditOKg c e ∧ HistOKg (apply c e).1 es

theorem EditOKg.toEditOK {c : Dag} {e : Edit} (h : EditOKg c e) : EditOK c e := by
  cases e with
  | add op => exact h.wf
  | insertAt op es => exact ⟨h.1.wf, h.2⟩
  | replaceOp i op => exact h.wf
  | removeOp i => trivial
  | unwrapNodes => trivial
  | removeIdentity => trivial
  | groupOneQubitGates => trivial
  | addRegister t s => trivial

theorem HistOKg.toHistOK : ∀ {es : List Edit} {c : Dag}, HistOKg c es → HistOK c es
  | [], _, _ => trivial
  | _ :: _, _, h => ⟨h.1.toEditOK, HistOKg.toHistOK h.2⟩

/-- **every edit keeps `GroupHyp`** — `group_one_qubit_gates` itself included (the wrappers it creates are one-qubit gate
    objects wrapping base classes), whether the call succeeds or raises -/
theorem edit_preserves_groupHyp {c : Dag} (h : DagInv c) (hh : GroupHyp c) (e : Edit) (he : EditOKg c e) :
    GroupHyp (apply c e).1 := by
  obtain ⟨P, g⟩ := h
  cases e with
  | add op => exact add_groupHyp g hh he
  | insertAt op es => exact insertAt_groupHyp g hh he.1 he.2
  | removeOp i => exact removeOp_groupHyp g hh _
  | replaceOp i op => exact replaceOp_groupHyp hh _ he
  | unwrapNodes => exact unwrapNodes_groupHyp g hh
  | removeIdentity => exact removeIdentity_groupHyp g hh
  | groupOneQubitGates => exact groupOneQubitGates_groupHyp g hh
  | addRegister t size => exact addRegister_groupHyp g hh t size

/-- … hence every history does -/
theorem history_groupHyp (es : List Edit) : ∀ {c : Dag}, DagInv c → GroupHyp c → HistOKg c es →
    DagInv (run c es) ∧ GroupHyp (run c es) := by
  induction es with
  | nil => intro c h hh _; exact ⟨h, hh⟩
  | cons e rest ih =>
    intro c h hh hok
    exact ih (edit_preserves_dagInv h e hok.1.toEditOK) (edit_preserves_groupHyp h hh e hok.1) hok.2

/-- **`GroupHyp` holds on every circuit reachable from `CircuitDAG(ne, np, nc)`** by any history over the whole edit API —
    add, insert_at, remove_op, replace_op, unwrap_nodes, remove_identity, group_one_qubit_gates, add_*_register, in any
    order, successful or raising — whose operation arguments are graphiq-constructed objects.  So `GroupHyp` is no
    restriction on the circuits `group_one_qubit_gates` can meet: it restricts only the operation objects handed in. -/
theorem groupHyp_on_every_reachable_circuit (ne np nc : Nat) (es : List Edit) (hok : HistOKg (Dag.init ne np nc) es) :
    DagInv (run (Dag.init ne np nc) es) ∧ GroupHyp (run (Dag.init ne np nc) es) :=
  history_groupHyp es (init_dagInv ne np nc) (init_groupHyp ne np nc) hok

/-- **`group_one_qubit_gates` = fuse of runs, with no hypothesis on the circuit**: after any history of edits (with
    graphiq-constructed operations) from a fresh circuit, the call does not raise and acts on the wires as
    `group_is_fuse_of_runs_on_wires` says -/
theorem group_is_fuse_of_runs_after_any_history (ne np nc : Nat) (es : List Edit) (hok : HistOKg (Dag.init ne np nc) es) :
    ∃ P, Good (run (Dag.init ne np nc) es) P ∧
      (run (Dag.init ne np nc) es).groupOneQubitGates.2 = none ∧
      ∃ P', Good (run (Dag.init ne np nc) es).groupOneQubitGates.1 P' ∧
        (∀ r, wireOps (run (Dag.init ne np nc) es).groupOneQubitGates.1 (P' r) =
          fuseWire r (wireOps (run (Dag.init ne np nc) es) (P r))) ∧
        (∀ r, flatOps (wireOps (run (Dag.init ne np nc) es).groupOneQubitGates.1 (P' r)) =
          flatOps (wireOps (run (Dag.init ne np nc) es) (P r))) := by
  obtain ⟨⟨P, g⟩, hh⟩ := groupHyp_on_every_reachable_circuit ne np nc es hok
  obtain ⟨e, P', g', hw, _, _, hfl⟩ := group_is_fuse_of_runs_on_wires g hh
  exact ⟨P, g, e, P', g', hw, hfl⟩

/-- **`group_one_qubit_gates` = fuse of runs, classical wiring included.**  `wiredWire c P r` is the operation sequence of the wire of
    `r` with every operation restricted to the classical registers it is actually threaded on (`insert_at` threads none).  On every
    circuit satisfying DagInv with graphiq-constructed operations the call does not raise, keeps `GroupHyp` and the register counts,
    and every wire's sequence becomes `fuseWire` of what it was: the persisting operations keep their classical threading (classical
    wires are literally unchanged), the wrappers are threaded on their quantum register only. -/
theorem group_is_fuse_of_runs_on_wired_wires {c : Dag} {P : Reg → List NodeId} (g : Good c P) (hh : GroupHyp c) :
    c.groupOneQubitGates.2 = none ∧ ∃ P', Good c.groupOneQubitGates.1 P' ∧ GroupHyp c.groupOneQubitGates.1 ∧
      c.groupOneQubitGates.1.regs = c.regs ∧
      ∀ r, wiredWire c.groupOneQubitGates.1 P' r = fuseWire r (wiredWire c P r) :=
  groupOneQubitGates_wiredWire g hh

/-- **`unwrap_nodes` on the wire sequences as wired**: succeeds, and every wire carries the flatMap-unwrap of what it carried
    (the classical threading of the other operations is unchanged) -/
theorem unwrap_nodes_is_flatMap_on_wired_wires {c : Dag} {P : Reg → List NodeId} (g : Good c P) (hpl : AllPlain c) :
    c.unwrapNodes.2 = none ∧ ∃ P', Good c.unwrapNodes.1 P' ∧ AllPlain c.unwrapNodes.1 ∧
      ∀ r, wiredWire c.unwrapNodes.1 P' r = (wiredWire c P r).flatMap Op.unwrap :=
  unwrapNodes_wiredWire g hpl

/-- **`remove_identity` on the wire sequences as wired**: succeeds, and every wire carries its non-identity operations, in order -/
theorem remove_identity_is_filter_on_wired_wires {c : Dag} {P : Reg → List NodeId} (g : Good c P) (hpl : AllPlain c) :
    c.removeIdentity.2 = none ∧ ∃ P', Good c.removeIdentity.1 P' ∧ AllPlain c.removeIdentity.1 ∧
      ∀ r, wiredWire c.removeIdentity.1 P' r = (wiredWire c P r).filter (fun o => !decide (o.kind = .identity)) :=
  removeIdentity_wiredWire g hpl

/-- the three rewrites of the API (no node argument) -/
inductive Rewrite where
  | unwrapNodes | removeIdentity | groupOneQubitGates

def Rewrite.toEdit : Rewrite → Edit
  | .unwrapNodes => .unwrapNodes
  | .removeIdentity => .removeIdentity
  | .groupOneQubitGates => .groupOneQubitGates

/-- the list edit of a rewrite on the operation sequence of the wire of register `r` -/
def Rewrite.onWire (r : Reg) : Rewrite → List Op → List Op
  | .unwrapNodes, l => l.flatMap Op.unwrap
  | .removeIdentity, l => l.filter (fun o => !decide (o.kind = .identity))
  | .groupOneQubitGates, l => fuseWire r l

/-- **any sequence of rewrites, on the wires as wired**: starting from a circuit satisfying DagInv with graphiq-constructed
    operations, no call raises, and the operation sequence of every wire at the end is obtained from the one at the start by
    applying the rewrites' list edits in order — a closed-form interpreter for rewrite histories (the node identities created on the
    way do not appear) -/
theorem rewrite_history_on_wired_wires (rws : List Rewrite) : ∀ {c : Dag} {P : Reg → List NodeId}, Good c P → GroupHyp c →
    ∃ P', Good (run c (rws.map Rewrite.toEdit)) P' ∧ GroupHyp (run c (rws.map Rewrite.toEdit)) ∧
      (run c (rws.map Rewrite.toEdit)).regs = c.regs ∧
      ∀ r, wiredWire (run c (rws.map Rewrite.toEdit)) P' r = rws.foldl (fun l rw => rw.onWire r l) (wiredWire c P r) := by
  induction rws with
  | nil => intro c P g hh; exact ⟨P, g, hh, rfl, fun _ => rfl⟩
  | cons rw rest ih =>
    intro c P g hh
    cases rw with
    | unwrapNodes =>
      obtain ⟨_, P1, g1, _, hw1⟩ := unwrapNodes_wiredWire g hh.plain
      obtain ⟨_, _, hr1⟩ := unwrapNodes_good g
      obtain ⟨P2, g2, hh2, hr2, hw2⟩ := ih g1 (unwrapNodes_groupHyp g hh)
      exact ⟨P2, g2, hh2, hr2.trans hr1, fun r => (hw2 r).trans (by rw [hw1 r]; rfl)⟩
    | removeIdentity =>
      obtain ⟨_, P1, g1, _, hw1⟩ := removeIdentity_wiredWire g hh.plain
      obtain ⟨_, _, hr1⟩ := removeIdentity_good g
      obtain ⟨P2, g2, hh2, hr2, hw2⟩ := ih g1 (removeIdentity_groupHyp g hh)
      exact ⟨P2, g2, hh2, hr2.trans hr1, fun r => (hw2 r).trans (by rw [hw1 r]; rfl)⟩
    | groupOneQubitGates =>
      obtain ⟨_, P1, g1, hh1, hr1, hw1⟩ := groupOneQubitGates_wiredWire g hh
      obtain ⟨P2, g2, hh2, hr2, hw2⟩ := ih g1 hh1
      exact ⟨P2, g2, hh2, hr2.trans hr1, fun r => (hw2 r).trans (by rw [hw1 r]; rfl)⟩

/-- … evaluated in the kernel on the circuit of §8 with a measurement inserted by `insert_at` (classical register `c0` left
    unthreaded) before the last gate of `e0`: every wire of the grouped circuit, as `reg_gate_history` returns it, carries `fuseWire`
    of the wire before -/
def gInsC : Dag :=
  ((build 1 2 1 gseq).1.insertAt mcrE0P1 [⟨.op 6, .op 7, ⟨.e, 0⟩⟩, ⟨.op 6, .out ⟨.p, 1⟩, ⟨.p, 1⟩⟩]).1

example : gInsC.groupOneQubitGates.2 = none ∧
    ∀ r ∈ liveRegs gInsC, wiredWire gInsC.groupOneQubitGates.1 (wireOf gInsC.groupOneQubitGates.1) r =
      fuseWire r (wiredWire gInsC (wireOf gInsC) r) := by decide +kernel

/-- the hypothesis is sharp in the only direction left: an operation object that is groupable but is NOT a one-qubit gate
    object (here: class `Hadamard`, label "one-qubit", two quantum registers — not constructible with graphiq's classes)
    is not a `GraphiqOp`, and a circuit holding it violates `GroupHyp` -/
def badH : Op := ⟨.hadamard, [⟨.e, 0⟩, ⟨.e, 1⟩], [], ["one-qubit"], []⟩

example : ¬ GraphiqOp badH := fun h => by
  obtain ⟨⟨r, hr⟩, _⟩ := h.shape (by decide)
  simp [badH] at hr

example : ¬ GroupHyp ((Dag.init 2 0 0).add badH).1 := fun hh => by
  obtain ⟨⟨r, hr⟩, _⟩ := hh.shape 1 badH (by decide) (by decide)
  simp [badH] at hr

/-- non-vacuity: the history of §8 (with graphiq-constructed operations) satisfies `HistOKg` -/
example : HistOKg (Dag.init 1 1 0)
    [.add hE0, .insertAt hE0 [⟨.op 1, .out ⟨.e, 0⟩, ⟨.e, 0⟩⟩], .add cnotE0P0, .add mcrE0P1, .add wrapP0, .removeOp 1,
     .removeOp 77, .replaceOp 3 cnotE0P0, .addRegister .e 1, .addRegister .p 2, .unwrapNodes, .removeIdentity,
     .groupOneQubitGates] :=
  have gH : GraphiqOp hE0 := graphiqOp_oneQubit rfl (by decide)
  have gC : GraphiqOp cnotE0P0 := ⟨cnot_wf, ⟨⟨by decide, by decide⟩, by decide⟩, fun h => absurd h (by decide)⟩
  have gM : GraphiqOp mcrE0P1 := ⟨mcr_wf, ⟨⟨by decide, by decide⟩, by decide⟩, fun h => absurd h (by decide)⟩
  have gW : GraphiqOp wrapP0 := ⟨wrap_wf, ⟨⟨by decide, by decide⟩, by decide⟩, fun _ => ⟨⟨_, rfl⟩, rfl⟩⟩
  ⟨gH, ⟨gH, ⟨by decide, rfl, by intro e1 h1 e2 h2 hne; simp at h1 h2; subst h1 h2; exact absurd rfl hne⟩⟩,
   gC, gM, gW, trivial, trivial, gC, trivial, trivial, trivial, trivial, trivial, trivial⟩

/-- **an edge pair the circuit reports compatible is a well-formed `insert_at` argument** (`InsertOK`, the hypothesis of
    `HistOKg` / `edit_preserves_dagInv`): both edges exist, are keyed by the operation's registers, and are pairwise path-free -/
theorem compatible_pair_is_well_formed {c : Dag} (h : DagInv c) {op : Op} {first second : Edge} {L : List Edge}
    (hL : c.findIncompatibleEdges first = .ok L) (h1 : first ∈ c.edges) (h2 : second ∈ c.edges) (hcompat : second ∉ L)
    (hq : op.qregs = [first.key, second.key]) : InsertOK c op [first, second] := by
  obtain ⟨n1, n2⟩ := compatible_no_path (model_reachability_meets_nx_spec h first.src).1
    (model_reachability_meets_nx_spec h first.dst).2 hL h2 hcompat
  refine ⟨?_, by simp [hq], ?_⟩
  · intro e he; simp at he; rcases he with rfl | rfl <;> assumption
  · intro e1 he1 e2 he2 hne
    simp at he1 he2
    rcases he1 with rfl | rfl <;> rcases he2 with rfl | rfl
    · exact absurd rfl hne
    · exact n1
    · exact n2
    · exact absurd rfl hne

/-- **inserting at the beginning of wires is always a well-formed call** (the time-reversed solver's pattern:
    `insert_at(gate, [first out-edge of e<i>_in, first out-edge of p<j>_in])`): existing edges that leave input nodes, one per
    quantum register of the operation and keyed by it, satisfy `InsertOK` — nothing reaches an input node, so no path condition
    is left to check -/
theorem insert_at_input_edges_is_well_formed {c : Dag} (h : DagInv c) {op : Op} {es : List Edge}
    (hmem : ∀ e ∈ es, e ∈ c.edges) (hkeys : es.map (·.key) = op.qregs) (hsrc : ∀ e ∈ es, ∃ r, e.src = NodeId.inp r) :
    InsertOK c op es := by
  obtain ⟨P, g⟩ := h; exact insertOK_of_input_edges g hmem hkeys hsrc

/-- … and so is inserting at the end of wires (edges entering output nodes: appending a gate) -/
theorem insert_at_output_edges_is_well_formed {c : Dag} (h : DagInv c) {op : Op} {es : List Edge}
    (hmem : ∀ e ∈ es, e ∈ c.edges) (hkeys : es.map (·.key) = op.qregs) (hdst : ∀ e ∈ es, ∃ r, e.dst = NodeId.out r) :
    InsertOK c op es := by
  obtain ⟨P, g⟩ := h; exact insertOK_of_output_edges g hmem hkeys hdst

/-- the hypotheses are met by the solver's call on a fresh `CircuitDAG(1, 1, 0)`: a two-qubit gate on the first edges of `e0` and `p0` -/
example : InsertOK (Dag.init 1 1 0) cnotE0P0 [⟨.inp ⟨.e, 0⟩, .out ⟨.e, 0⟩, ⟨.e, 0⟩⟩, ⟨.inp ⟨.p, 0⟩, .out ⟨.p, 0⟩, ⟨.p, 0⟩⟩] :=
  insert_at_input_edges_is_well_formed (init_dagInv 1 1 0) (by decide) rfl
    (by intro e he; simp at he; rcases he with rfl | rfl <;> exact ⟨_, rfl⟩)

/-! ## 9b. the node-addressed edits as functions on the wires

  For `add`, `insert_at`, `remove_op`, `replace_op` — on operations whose registers exist, so that the register prologue does
  nothing — the wires after the edit are an explicit FUNCTION of the wires before and of `_node_id` (no existential): splice the
  new node `_node_id + 1` in front of the output of every register of the operation (`add`) / between the two ends of every given
  edge (`insert_at`), erase the node (`remove_op`), keep everything (`replace_op`).  Folding it over a history gives the wires after
  the history as a closed-form function of the history — the node-level counterpart of `rewrite_history_on_wired_wires`. -/

/-- the list edit of a node-addressed edit on the wires; second component: `_node_id` afterwards -/
def wiresStep (P : Reg → List NodeId) (nid : Nat) : Edit → (Reg → List NodeId) × Nat
  | .add op => (splicePaths (.op (nid + 1)) ((opRegs op).map (lastEdge P)) P, nid + 1)
  | .insertAt _ es => (splicePaths (.op (nid + 1)) es P, nid + 1)
  | .removeOp i => (erasePaths P (.op i), nid)
  | _ => (P, nid)

/-- well-formed node-addressed calls that add no register -/
def NodeEditOK (c : Dag) : Edit → Prop
  | .add op => OpWF op ∧ ∀ r ∈ opRegs op, c.live r
  | .insertAt op es => OpWF op ∧ InsertOK c op es ∧ ∀ r ∈ opRegs op, c.live r
  | .removeOp _ => True
  | .replaceOp _ op => OpWF op
  | _ => False

def NodeHistOK (c : Dag) : List Edit → Prop
  | [] => True
  | e :: es => NodeEditOK c e ∧ NodeHistOK (apply c e).1 es

def wiresRun (P : Reg → List NodeId) (nid : Nat) : List Edit → (Reg → List NodeId) × Nat
  | [] => (P, nid)
  | e :: es => wiresRun (wiresStep P nid e).1 (wiresStep P nid e).2 es

/-- **one node-addressed edit = the list edit `wiresStep` on the wires** -/
theorem node_edit_wires {c : Dag} {P : Reg → List NodeId} (g : Good c P) (e : Edit) (he : NodeEditOK c e) :
    Good (apply c e).1 (wiresStep P c.nodeId e).1 ∧ (apply c e).1.nodeId = (wiresStep P c.nodeId e).2 := by
  cases e with
  | add op => obtain ⟨_, h2, h3⟩ := add_wires_fn g he.1 he.2; exact ⟨h2, h3⟩
  | insertAt op es => obtain ⟨_, h2, h3⟩ := insertAt_wires_fn g he.1 he.2.1 he.2.2; exact ⟨h2, h3⟩
  | removeOp i => exact removeOp_wires_fn g i
  | replaceOp i op => exact replaceOp_wires_fn g i he
  | unwrapNodes => exact absurd he id
  | removeIdentity => exact absurd he id
  | groupOneQubitGates => exact absurd he id
  | addRegister t s => exact absurd he id

/-- **any history of node-addressed edits: the wires are computed by the list edits** — `wiresRun` is a function of the wires at the
    start, of `_node_id` and of the edits only -/
theorem node_history_wires (es : List Edit) : ∀ {c : Dag} {P : Reg → List NodeId}, Good c P → NodeHistOK c es →
    Good (run c es) (wiresRun P c.nodeId es).1 ∧ (run c es).nodeId = (wiresRun P c.nodeId es).2 := by
  induction es with
  | nil => intro c P g _; exact ⟨g, rfl⟩
  | cons e rest ih =>
    intro c P g hok
    obtain ⟨g1, hid⟩ := node_edit_wires g e hok.1
    have := ih g1 hok.2
    rw [hid] at this
    exact this

/-- non-vacuity: on `CircuitDAG(2, 1, 1)` — `add CNOT e0→e1`, `add H p0`, `insert_at` a measurement before both outputs, `insert_at`
    a phase gate before the CNOT, `remove_op 2` — and the wires computed by the list edits (kernel-evaluated): `e0: in, 4, 1, out`,
    `e1: in, 1, 3, out`, `p0: in, 3, out` -/
def nodeHist : List Edit :=
  [.add ⟨.cnot, [⟨.e, 0⟩, ⟨.e, 1⟩], [], ["two-qubit"], []⟩, .add (Op.oneQubit .hadamard ⟨.p, 0⟩),
   .insertAt ⟨.mcr, [⟨.e, 1⟩, ⟨.p, 0⟩], [0], ["two-qubit"], []⟩ [⟨.op 1, .out ⟨.e, 1⟩, ⟨.e, 1⟩⟩, ⟨.op 2, .out ⟨.p, 0⟩, ⟨.p, 0⟩⟩],
   .insertAt (Op.oneQubit .phase ⟨.e, 0⟩) [⟨.inp ⟨.e, 0⟩, .op 1, ⟨.e, 0⟩⟩],
   .removeOp 2]

example : (wiresRun (fun r => [.inp r, .out r]) 0 nodeHist).2 = 4 ∧
    (wiresRun (fun r => [.inp r, .out r]) 0 nodeHist).1 ⟨.e, 0⟩ = [.inp ⟨.e, 0⟩, .op 4, .op 1, .out ⟨.e, 0⟩] ∧
    (wiresRun (fun r => [.inp r, .out r]) 0 nodeHist).1 ⟨.e, 1⟩ = [.inp ⟨.e, 1⟩, .op 1, .op 3, .out ⟨.e, 1⟩] ∧
    (wiresRun (fun r => [.inp r, .out r]) 0 nodeHist).1 ⟨.p, 0⟩ = [.inp ⟨.p, 0⟩, .op 3, .out ⟨.p, 0⟩] ∧
    (wiresRun (fun r => [.inp r, .out r]) 0 nodeHist).1 ⟨.c, 0⟩ = [.inp ⟨.c, 0⟩, .out ⟨.c, 0⟩] := by decide

/-- … and the history satisfies the hypothesis of `node_history_wires` from `CircuitDAG(2, 1, 1)` -/
example : NodeHistOK (Dag.init 2 1 1) nodeHist := by
  have wfC : OpWF ⟨.cnot, [⟨.e, 0⟩, ⟨.e, 1⟩], [], ["two-qubit"], []⟩ :=
    { not_input := by decide, not_output := by decide, qregs_ne := by decide, qregs_nodup := by decide,
      cregs_nodup := by decide, qregs_quantum := by decide,
      wrapper_shape := by intro h; exact absurd h (by decide), wrapper_key := by intro h; exact absurd h (by decide) }
  have wfM : OpWF ⟨.mcr, [⟨.e, 1⟩, ⟨.p, 0⟩], [0], ["two-qubit"], []⟩ :=
    { not_input := by decide, not_output := by decide, qregs_ne := by decide, qregs_nodup := by decide,
      cregs_nodup := by decide, qregs_quantum := by decide,
      wrapper_shape := by intro h; exact absurd h (by decide), wrapper_key := by intro h; exact absurd h (by decide) }
  have wfH : OpWF (Op.oneQubit .hadamard ⟨.p, 0⟩) := oneQubit_wf rfl (by decide)
  have wfP : OpWF (Op.oneQubit .phase ⟨.e, 0⟩) := oneQubit_wf rfl (by decide)
  have h2 : DagInv (run (Dag.init 2 1 1) [.add ⟨.cnot, [⟨.e, 0⟩, ⟨.e, 1⟩], [], ["two-qubit"], []⟩, .add (Op.oneQubit .hadamard ⟨.p, 0⟩)]) :=
    history_from_init 2 1 1 _ ⟨wfC, wfH, trivial⟩
  refine ⟨⟨wfC, by decide⟩, ⟨wfH, by decide⟩, ⟨wfM, ?_, by decide⟩, ⟨wfP, ⟨by decide, rfl, ?_⟩, by decide⟩, trivial, trivial⟩
  · exact insert_at_output_edges_is_well_formed h2 (by decide) rfl
      (by intro e he; simp at he; rcases he with rfl | rfl <;> exact ⟨_, rfl⟩)
  · intro e1 he1 e2 he2 hne
    simp at he1 he2; subst he1 he2; exact absurd rfl hne

/-! ## 10. `find_incompatible_edges`: exactly which edges are reported -/

/-- **Characterisation.**  With `anc` / `desc` meeting the recorded networkx specification, `find_incompatible_edges(first)`
    returns `first` and exactly the edges whose source is a proper ancestor of `first`'s source, or `first`'s target, or a
    descendant of it (the in-edge term of the code is redundant). -/
theorem find_incompatible_edges_characterised {c : Dag} {first : Edge} {anc desc : List NodeId} {L : List Edge}
    (hanc : AncSpec c first.src anc) (hdesc : DescSpec c first.dst desc)
    (hL : c.findIncompatibleEdgesWith anc desc first = .ok L) (e : Edge) :
    e ∈ L ↔ e = first ∨ (e ∈ c.edges ∧ (TransGen c.E e.src first.src ∨ ReflTransGen c.E first.dst e.src)) :=
  findIncompatibleEdgesWith_iff hanc hdesc hL e

/-- **Completeness with respect to cycles**: every edge of the graph on which a joint insertion with `first` would close a cycle
    (a path from `first`'s target to the edge's source, or from the edge's target to `first`'s source) is reported — the
    converse of `compatible_insert_keeps_dagInv`'s use of the set; for the model's own reachability no networkx hypothesis is left -/
theorem find_incompatible_edges_complete {c : Dag} (h : DagInv c) {first e : Edge} {L : List Edge}
    (hL : c.findIncompatibleEdges first = .ok L) (he : e ∈ c.edges)
    (hcyc : ReflTransGen c.E first.dst e.src ∨ ReflTransGen c.E e.dst first.src) : e ∈ L :=
  findIncompatibleEdgesWith_complete (model_reachability_meets_nx_spec h first.src).1
    (model_reachability_meets_nx_spec h first.dst).2 hL he hcyc

/-- **the reported set is conservative, not exact** (kernel-checked witness): on `CNOT e0→e1; H e1`, for `first` = the edge from
    `H` to the output of `e1`, the edge from the CNOT to the output of `e0` is reported incompatible (its source, the CNOT, is
    an ancestor of `H`) although a joint insertion there — appending a two-qubit gate on `e1, e0` — closes no cycle: the call
    succeeds and keeps DagInv.  So the code loses candidate edge pairs but never admits a cyclic one. -/
def cnotE0E1 : Op := ⟨.cnot, [⟨.e, 0⟩, ⟨.e, 1⟩], [], ["two-qubit"], []⟩
def hE1 : Op := Op.oneQubit .hadamard ⟨.e, 1⟩
def cnotE1E0 : Op := ⟨.cnot, [⟨.e, 1⟩, ⟨.e, 0⟩], [], ["two-qubit"], []⟩
def consC : Dag := run (Dag.init 2 0 0) [.add cnotE0E1, .add hE1]

example : (∃ L, consC.findIncompatibleEdges ⟨.op 2, .out ⟨.e, 1⟩, ⟨.e, 1⟩⟩ = .ok L ∧
      (⟨.op 1, .out ⟨.e, 0⟩, ⟨.e, 0⟩⟩ : Edge) ∈ L) ∧
    (consC.insertAt cnotE1E0 [⟨.op 2, .out ⟨.e, 1⟩, ⟨.e, 1⟩⟩, ⟨.op 1, .out ⟨.e, 0⟩, ⟨.e, 0⟩⟩]).2 = none ∧
    (consC.insertAt cnotE1E0 [⟨.op 2, .out ⟨.e, 1⟩, ⟨.e, 1⟩⟩, ⟨.op 1, .out ⟨.e, 0⟩, ⟨.e, 0⟩⟩]).1.isAcyclicB = true :=
  ⟨⟨_, rfl, by decide⟩, by decide, by decide⟩

end Graphiq.C12
