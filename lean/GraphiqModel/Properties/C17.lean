/-
  C17 — density-matrix fidelity, trace distance and partial trace are computed correctly; Infidelity agrees across
  representations.

  Property theorems only (lemmas in Proofs/DMSem.lean).  The model (Model/DMSem.lean) is the exact-arithmetic (ℚ[i]) twin of
  `graphiq/backends/density_matrix/functions.py`; the tie to the floating-point code is the correspondence run of
  harness/c17.py (tolerance 1e-9).

  NOT EXPRESSIBLE, hence not proved: the value of the Uhlmann branch of `fidelity` and of `trace_distance` on
  *non-commuting* mixed pairs (irrational spectra).  On those the check runs the direct oracle only.
-/
import GraphiqModel.Proofs.DMSem
namespace Graphiq.C17
open Graphiq Graphiq.DM

/-! ## (i) `partial_trace` equals the textbook reduced state, for every list of dimensions and every subset -/

/-- **Entry-wise, any value type.**  For every list `dims` of local dimensions (at most 26 spaces — beyond that
    `string.ascii_lowercase[i]` raises), every `keep` and every matrix `ρ`, the entry `(r, c)` that the code computes —
    build `"abc…aBc…" -> "…"`, reshape, `einsum`, reshape back — is `Σ_b ρ[(a,b),(a',b)]`, the sum running over all values `b`
    of the traced positions, `a`/`a'` being the multi-indices of `r`/`c` on the kept positions. -/
theorem partial_trace_entry_is_reduced_state {α : Type} [Add α] [Zero α] (ρ : Nat → Nat → α) (keep dims : List Nat)
    (hn : dims.length ≤ 26) (r c : Nat) :
    partialTraceEntry ssleft ρ keep dims r c = reducedEntry ρ keep dims r c :=
  partialTraceEntry_eq_reduced ρ keep dims hn r c

/-- **The function with its exceptions.**  Whenever `partial_trace` returns, the result has `∏ dims[kept]` rows and every
    entry is the textbook one. -/
theorem partial_trace_is_reduced_state (ρ : Mat) (keep dims : List Nat) (m : Mat) (h : partialTrace ρ keep dims = .ok m) :
    m.n = prodL ((keptPos dims.length keep).map fun i => dims.getD i 0) ∧
    ∀ r c, m.e r c = reducedEntry ρ.e keep dims r c :=
  partialTrace_ok ρ keep dims m h

/-- it returns exactly on well-formed arguments: non-empty `keep` without repetition (as far as the size product can
    tell), all entries in range, at most 26 spaces, matrix size `∏ dims` -/
theorem partial_trace_returns_iff (ρ : Mat) (keep dims : List Nat) :
    (∃ m, partialTrace ρ keep dims = .ok m) ↔
      keep ≠ [] ∧ (∀ k ∈ keep, k < dims.length) ∧ dims.length ≤ 26 ∧ ρ.n = prodL dims ∧
      prodL (keep.map fun i => dims.getD i 0) = prodL ((keptPos dims.length keep).map fun i => dims.getD i 0) :=
  partialTrace_returns_iff ρ keep dims

/-- the multi-index ↔ row-number conversion used on both sides is a bijection: `unflat` inverts `flat` -/
theorem flat_unflat_inverse (ds : List Nat) (k : Nat) (hk : k < prodL ds) : flat ds (unflat ds k) = k :=
  flat_unflat ds k hk

/-- sanity of the specification on two qubits, first kept: `(Tr_2 ρ)[r,c] = ρ[2r, 2c] + ρ[2r+1, 2c+1]` -/
example (ρ : Nat → Nat → Int) (r c : Nat) :
    reducedEntry ρ [0] [2, 2] r c = 0 + ρ (r / 1 * 2 + 0) (c / 1 * 2 + 0) + ρ (r / 1 * 2 + 1) (c / 1 * 2 + 1) := by
  simp [reducedEntry, keptPos, tracedPos, multiIdx, mergeIdx, unflat, flat, prodL, sumL, List.range, List.range.loop, List.idxOf,
    List.findIdx, List.findIdx.go]

/-- **D23, refuted.**  The string of the code before the repair (`"abAB->aA"` for two qubits: traced position written with two
    *different* letters) does not compute the reduced state: on `|0⟩⟨0| ⊗ |+⟩⟨+|` it returns `diag(2, 0)` where the reduced
    state is `diag(1, 0)`. -/
def d23Witness : Mat :=
  Mat.ofRows 4 #[#[⟨1/2, 0⟩, ⟨1/2, 0⟩, 0, 0], #[⟨1/2, 0⟩, ⟨1/2, 0⟩, 0, 0], #[0, 0, 0, 0], #[0, 0, 0, 0]]

theorem old_string_is_wrong :
    (partialTraceOld d23Witness [0] [2, 2]).e 0 0 = ⟨2, 0⟩ ∧ reducedEntry d23Witness.e [0] [2, 2] 0 0 = ⟨1, 0⟩ := by
  decide +kernel

/-- …while the current string is right on the same witness (instance of the general theorem, evaluated) -/
example : (match partialTrace d23Witness [0] [2, 2] with
    | .ok m => m.e 0 0 == ⟨1, 0⟩ && m.e 1 1 == ⟨0, 0⟩ && m.n == 2
    | .error _ => false) = true := by decide +kernel

end Graphiq.C17
