/-
  C17 — density-matrix fidelity, trace distance and partial trace are computed correctly; Infidelity agrees across
  representations.

  Property theorems only (lemmas in Proofs/DMSem.lean).  The model (Model/DMSem.lean) is the exact-arithmetic (ℚ[i]) twin of
  `graphiq/backends/density_matrix/functions.py`; the tie to the floating-point code is the correspondence run of
  harness/c17.py (tolerance 1e-9).

  NOT EXPRESSIBLE, hence not proved: the value of the Uhlmann branch of `fidelity` and of `trace_distance` on
  *non-commuting* mixed pairs (irrational spectra).  On those the check runs the direct oracle only.
-/
import GraphiqModel.Proofs.DMSem
import GraphiqModel.Proofs.C17Bridge
import GraphiqModel.Proofs.C17BridgeUhlmann
import GraphiqModel.Proofs.C17BridgeStab
import GraphiqModel.Proofs.SweepNoisePsd
namespace Graphiq.C17
open Graphiq Graphiq.DM

/-! ## (i) `partial_trace` equals the textbook reduced state, for every list of dimensions and every subset -/

/-- **Entry-wise, any value type.**  For every list `dims` of local dimensions (at most 26 spaces — beyond that
    `string.ascii_lowercase[i]` raises), every `keep` and every matrix `ρ`, the entry `(r, c)` that the code computes —
    build `"abc…aBc…" -> "…"`, reshape, `einsum`, reshape back — is `Σ_b ρ[(a,b),(a',b)]`, the sum running over all values `b`
    of the traced positions, `a`/`a'` being the multi-indices of `r`/`c` on the kept positions. -/
theorem partial_trace_entry_is_reduced_state {α : Type} [Add α] [Zero α] (ρ : Nat → Nat → α) (keep dims : List Nat)
    (hn : dims.length ≤ 26) (r c : Nat) :
    partialTraceEntry ssleft ρ keep dims r c = reducedEntry ρ keep dims r c :=
  partialTraceEntry_eq_reduced ρ keep dims hn r c

/-- **The function with its exceptions.**  Whenever `partial_trace` returns, the result has `∏ dims[kept]` rows and every
    entry is the textbook one. -/
theorem partial_trace_is_reduced_state (ρ : Mat) (keep dims : List Nat) (m : Mat) (h : partialTrace ρ keep dims = .ok m) :
    m.n = prodL ((keptPos dims.length keep).map fun i => dims.getD i 0) ∧
    ∀ r c, m.e r c = reducedEntry ρ.e keep dims r c :=
  partialTrace_ok ρ keep dims m h

/-- it returns exactly on well-formed arguments: non-empty `keep` without repetition (as far as the size product can
    tell), all entries in range, at most 26 spaces, matrix size `∏ dims` -/
theorem partial_trace_returns_iff (ρ : Mat) (keep dims : List Nat) :
    (∃ m, partialTrace ρ keep dims = .ok m) ↔
      keep ≠ [] ∧ (∀ k ∈ keep, k < dims.length) ∧ dims.length ≤ 26 ∧ ρ.n = prodL dims ∧
      prodL (keep.map fun i => dims.getD i 0) = prodL ((keptPos dims.length keep).map fun i => dims.getD i 0) :=
  partialTrace_returns_iff ρ keep dims

/-- the multi-index ↔ row-number conversion used on both sides is a bijection: `unflat` inverts `flat` -/
theorem flat_unflat_inverse (ds : List Nat) (k : Nat) (hk : k < prodL ds) : flat ds (unflat ds k) = k :=
  flat_unflat ds k hk

/-- sanity of the specification on two qubits, first kept: `(Tr_2 ρ)[r,c] = ρ[2r, 2c] + ρ[2r+1, 2c+1]` -/
example (ρ : Nat → Nat → Int) (r c : Nat) :
    reducedEntry ρ [0] [2, 2] r c = 0 + ρ (r / 1 * 2 + 0) (c / 1 * 2 + 0) + ρ (r / 1 * 2 + 1) (c / 1 * 2 + 1) := by
  simp [reducedEntry, keptPos, tracedPos, multiIdx, mergeIdx, unflat, flat, prodL, sumL, List.range, List.range.loop, List.idxOf,
    List.findIdx, List.findIdx.go]

/-- **D23, refuted.**  The string of the code before the repair (`"abAB->aA"` for two qubits: traced position written with two
    *different* letters) does not compute the reduced state: on `|0⟩⟨0| ⊗ |+⟩⟨+|` it returns `diag(2, 0)` where the reduced
    state is `diag(1, 0)`. -/
def d23Witness : Mat :=
  Mat.ofRows 4 #[#[⟨1/2, 0⟩, ⟨1/2, 0⟩, 0, 0], #[⟨1/2, 0⟩, ⟨1/2, 0⟩, 0, 0], #[0, 0, 0, 0], #[0, 0, 0, 0]]

theorem old_string_is_wrong :
    (partialTraceOld d23Witness [0] [2, 2]).e 0 0 = ⟨2, 0⟩ ∧ reducedEntry d23Witness.e [0] [2, 2] 0 0 = ⟨1, 0⟩ := by
  decide +kernel

/-- …while the current string is right on the same witness (instance of the general theorem, evaluated) -/
example : (match partialTrace d23Witness [0] [2, 2] with
    | .ok m => m.e 0 0 == ⟨1, 0⟩ && m.e 1 1 == ⟨0, 0⟩ && m.n == 2
    | .error _ => false) = true := by decide +kernel


/-! ## (ii) `fidelity`: symmetric; the pure-state branch is the clipped overlap -/

/-- **Symmetry**, every pair of equal size: same exception class, same branch, same value in both argument orders
    (`tr(ρσ) = tr(σρ)` in ℚ[i]; the branch conditions are symmetric) -/
theorem fidelity_symmetric (ρ σ : Mat) (h : ρ.n = σ.n) : fidelity ρ σ = fidelity σ ρ := fidelity_symm ρ σ h

/-- **Pure-state branch**: if both arguments pass `is_density_matrix` and at least one passes `is_pure`, the result is
    `Re tr(ρσ)` clipped to `[0,1]` -/
theorem fidelity_pure_is_clipped_overlap (ρ σ : Mat) (hρ : isDensityMatrix ρ = true) (hσ : isDensityMatrix σ = true)
    (hp : isPure ρ = true ∨ isPure σ = true) : fidelity ρ σ = .ok (.val (clip01 (ρ.mul σ).trace.re)) :=
  fidelity_pure_branch ρ σ hρ hσ hp

/-- every value the model's `fidelity` returns lies in `[0,1]` -/
theorem fidelity_in_unit_interval (ρ σ : Mat) (f : Rat) (h : fidelity ρ σ = .ok (.val f)) : 0 ≤ f ∧ f ≤ 1 :=
  fidelity_range ρ σ f h

/-- non-vacuity: `|+⟩⟨+|` and `|0⟩⟨0|` are density matrices, pure, with fidelity `1/2`; a state with itself gives 1 -/
def plusDm : Mat := Mat.ofRows 2 #[#[⟨1/2, 0⟩, ⟨1/2, 0⟩], #[⟨1/2, 0⟩, ⟨1/2, 0⟩]]
example : isDensityMatrix plusDm = true ∧ isPure plusDm = true ∧ isDensityMatrix ket0dm = true := by decide +kernel
example : fidelity plusDm ket0dm = .ok (.val (1/2)) ∧ fidelity plusDm plusDm = .ok (.val 1) := by decide +kernel
/-- a mixed pair goes to the Uhlmann branch, for which the model has no value -/
def halfDm : Mat := Mat.ofRows 2 #[#[⟨1/2, 0⟩, 0], #[0, ⟨1/2, 0⟩]]
example : fidelity halfDm halfDm = .ok .uhlmann := by decide +kernel

/-! ## (iii) Commuting pairs: the closed forms have every property asked of fidelity and trace distance (any dimension) -/

section commuting
open Graphiq.Commuting
variable {ι : Type} [Fintype ι]

/-- `F = (Σ √(p_i q_i))²` lies in `[0,1]`, is symmetric, and is 1 exactly for equal spectra -/
theorem commuting_fidelity_properties {p q : ι → ℝ} (hp : IsProb p) (hq : IsProb q) :
    (0 ≤ F p q ∧ F p q ≤ 1) ∧ F p q = F q p ∧ (F p q = 1 ↔ p = q) :=
  ⟨F_range hp hq, F_symm p q, F_eq_one_iff hp hq⟩

/-- `T = ½ Σ |p_i − q_i|` is a metric bounded by 1 -/
theorem commuting_trace_distance_is_metric {p q r : ι → ℝ} (hp : IsProb p) (hq : IsProb q) :
    0 ≤ T p q ∧ T p q ≤ 1 ∧ T p q = T q p ∧ (T p q = 0 ↔ p = q) ∧ T p r ≤ T p q + T q r :=
  ⟨T_nonneg p q, T_le_one hp hq, T_symm p q, T_eq_zero_iff p q, T_triangle p q r⟩

/-- **Fuchs – van de Graaf** for commuting pairs: `1 − √F ≤ T ≤ √(1 − F)` -/
theorem commuting_fuchs_van_de_graaf {p q : ι → ℝ} (hp : IsProb p) (hq : IsProb q) :
    1 - Real.sqrt (F p q) ≤ T p q ∧ T p q ≤ Real.sqrt (1 - F p q) := fuchs_van_de_graaf hp hq

/-- **The closed forms *are* the Uhlmann fidelity and the trace distance on commuting pairs** (any dimension): for
    `ρ = U diag(p) U†`, `σ = U diag(q) U†` with `U` unitary and `p, q ≥ 0`, the Uhlmann fidelity `(tr √(√ρ σ √ρ))²` and the
    trace distance `½ tr √((ρ−σ)†(ρ−σ))` — `√` the positive semidefinite square root of Mathlib (`CFC.sqrt`) — equal
    `F p q = (Σ √(p_i q_i))²` and `T p q = ½ Σ |p_i − q_i|`.  (Formerly cited as textbook mathematics.)  Together with the
    three theorems above: on commuting pairs fidelity and trace distance have every property asked of them. -/
theorem commuting_closed_forms_are_uhlmann_and_trace_distance [DecidableEq ι] (U : Matrix ι ι ℂ)
    (hU : U.conjTranspose * U = 1) (p q : ι → ℝ) (hp : ∀ i, 0 ≤ p i) (hq : ∀ i, 0 ≤ q i) :
    C17B.uhlmann (C17B.conjDiag U p) (C17B.conjDiag U q) = ((F p q : ℝ) : ℂ) ∧
    C17B.traceDist (C17B.conjDiag U p) (C17B.conjDiag U q) = ((T p q : ℝ) : ℂ) :=
  ⟨C17B.uhlmann_commuting U hU p q hp hq, C17B.traceDist_commuting U hU p q⟩

/-- the rational numbers the driver computes for a commuting pair (`dm.comm`) are these real quantities:
    eigenvalues `a_i²`, `b_i²` with `a_i, b_i ≥ 0` rational -/
theorem model_closed_forms_are_F_and_T (d : Nat) (a b : Fin d → Rat) (ha : ∀ i, 0 ≤ a i) (hb : ∀ i, 0 ≤ b i) :
    ((commFidelity (List.ofFn a) (List.ofFn b) : Rat) : ℝ) = F (fun i => ((a i : Rat) : ℝ) ^ 2) (fun i => ((b i : Rat) : ℝ) ^ 2) ∧
    ((commTraceDist (List.ofFn fun i => a i ^ 2) (List.ofFn fun i => b i ^ 2) : Rat) : ℝ) =
      T (fun i => ((a i : Rat) : ℝ) ^ 2) (fun i => ((b i : Rat) : ℝ) ^ 2) := by
  refine ⟨commFidelity_cast d a b ha hb, ?_⟩
  rw [commTraceDist_cast]
  congr 1 <;> (funext i; push_cast; ring)

/-- non-vacuity: the uniform distribution on two points is a spectrum -/
example : IsProb (fun _ : Fin 2 => (1 / 2 : ℝ)) := ⟨fun _ => by norm_num, by simp⟩
end commuting

open scoped MatrixOrder ComplexOrder in
/-- two clauses of the general statement below (any dimension, Mathlib's `CFC.sqrt`): the
    Uhlmann fidelity is a nonnegative real number, and `F(ρ, ρ) = (tr ρ)²` — 1 for every density matrix. -/
theorem uhlmann_nonneg_and_self {ι : Type} [Fintype ι] [DecidableEq ι] (ρ σ : Matrix ι ι ℂ) (hρ : ρ.PosSemidef) :
    0 ≤ C17B.uhlmann ρ σ ∧ C17B.uhlmann ρ ρ = (Matrix.trace ρ) ^ 2 :=
  ⟨C17B.uhlmann_nonneg ρ σ, C17B.uhlmann_self ρ hρ⟩

open scoped MatrixOrder ComplexOrder in
/-- **The Uhlmann fidelity is symmetric** (any dimension, arbitrary — also non-commuting — positive semidefinite `ρ`, `σ`):
    `(tr √(√ρ σ √ρ))² = (tr √(√σ ρ √σ))²`.  With `A = √ρ`, `B = √σ` the two matrices under the root are `(AB)(AB)†` and
    `(AB)†(AB)`, which have the same characteristic polynomial, hence the same eigenvalues, and the trace of the positive
    square root is the sum of the square roots of the eigenvalues. -/
theorem uhlmann_symmetric {ι : Type} [Fintype ι] [DecidableEq ι] (ρ σ : Matrix ι ι ℂ) (hρ : ρ.PosSemidef)
    (hσ : σ.PosSemidef) : C17B.uhlmann ρ σ = C17B.uhlmann σ ρ :=
  C17B.uhlmann_symm ρ σ hρ hσ

/-- the full statement for arbitrary (non-commuting) density matrices, kept visible.  It is **not expressible** in the
    exact model (matrix square roots of irrational spectra) and is not proved: `uhlmann ρ σ` stands for
    `(tr √(√ρ σ √ρ))²`, `tnorm` for the trace norm. -/
def fidelity_and_trace_distance_statement (uhlmann tdist : Mat → Mat → ℝ) : Prop :=
  ∀ ρ σ τ : Mat, ρ.n = σ.n → σ.n = τ.n → isDensityMatrix ρ = true → isDensityMatrix σ = true → isDensityMatrix τ = true →
    uhlmann ρ σ = uhlmann σ ρ ∧ 0 ≤ uhlmann ρ σ ∧ uhlmann ρ σ ≤ 1 ∧ uhlmann ρ ρ = 1 ∧
    tdist ρ τ ≤ tdist ρ σ + tdist σ τ ∧ tdist ρ σ ≤ 1 ∧
    1 - Real.sqrt (uhlmann ρ σ) ≤ tdist ρ σ ∧ tdist ρ σ ≤ Real.sqrt (1 - uhlmann ρ σ)

/-! ## (iv) `Infidelity` across representations -/

/-- conditional form, as proved before the bridge to the Hilbert-space model existed: the four hypotheses `hdt hds hp hov` are
    now theorems (`stabilizer_density_is_pure_density_matrix`, `stab_overlap_in_unit_interval`); see
    `infidelity_representation_independent` -/
theorem infidelity_representation_independent_of_facts (tt ts : Tab)
    (hsign : ∀ k, k < ts.n → (ts.row (k + ts.n)).r = false)
    (hdt : isDensityMatrix (stabilizerDensity tt) = true) (hds : isDensityMatrix (stabilizerDensity ts) = true)
    (hp : isPure (stabilizerDensity tt) = true) (hov : 0 ≤ stabOverlap tt ts ∧ stabOverlap tt ts ≤ 1) :
    infidelity stabOverlap (.dm (stabilizerDensity tt)) (.dm (stabilizerDensity ts)) = infidelity stabOverlap (.s tt) (.s ts) ∧
    infidelity stabOverlap (.dm (stabilizerDensity tt)) (.s ts) = infidelity stabOverlap (.s tt) (.s ts) :=
  infidelity_rep_independent tt ts hsign hdt hds hp hov

/-- **The exact matrix of a stabilizer state is a pure density matrix for the code's own tests** (every n, every valid
    Clifford tableau): `stabilizerDensity t = ∏_k (I + (−1)^{r_k} g_k)/2`, computed in ℚ[i] as the Python computes it in
    floating point, passes `is_density_matrix` (Hermitian, positive semidefinite by the exact `LDL†` test, trace 1) and
    `is_pure` (`tr ρ² = 1`).  Proof: the matrix *represents* (`Hilbert.Rep`, Proofs/HilbertBridge*.lean) the Mathlib matrix
    `Hilbert.rho`, which is a Hermitian projector of trace 1 (C07); the exact PSD test accepts every representation of a
    positive semidefinite matrix (`C17B.psdElim_complete`: leading entry real ≥ 0, zero pivot ⇒ zero row, Schur
    complement PSD). -/
theorem stabilizer_density_is_pure_density_matrix (t : Tab) (hv : t.isSymplectic = true) :
    isDensityMatrix (stabilizerDensity t) = true ∧ isPure (stabilizerDensity t) = true :=
  have hv' := (Tab.isSymplectic_iff t).1 hv
  ⟨C17B.stabilizerDensity_isDensityMatrix t hv', C17B.stabilizerDensity_isPure t hv'⟩

open scoped ComplexOrder in
/-- **The model's `is_psd` decides positive semidefiniteness** (every size `2^n`): an exact matrix over ℚ[i] that represents
    the complex matrix `M` (`Hilbert.Rep`: same entries, basis strings ↔ indices) passes the Hermitian check plus the symmetric
    `LDL†` elimination **iff** `M` is Hermitian positive semidefinite (Mathlib's `Matrix.PosSemidef`).  Completeness
    (`psdElim_complete`): leading entry real ≥ 0, a zero pivot forces a zero row, the Schur complement is PSD.  Soundness
    (`psdElim_sound`): completing the square, `Q(v) = d·|v_k + S/d|² + Q'(v)`.  The code's `is_psd` runs a floating-point
    Cholesky of `ρ + 1e-15·I`; this is the property that call approximates. -/
theorem exact_psd_test_correct {n : Nat} (m : Mat) (M : Hilbert.DMat n) (hm : Hilbert.Rep n m M) :
    isPsd m = true ↔ M.PosSemidef :=
  C17B.isPsd_rep_iff hm

/-- **`stabOverlap` — the specification of the stabilizer fidelity used in this file — is the value C05's model of
    `inner_product` reports** (every n): `tr(ρ_a ρ_b)` computed in ℚ[i] equals 0 when `inner_product` returns 0 and `2^{-e}`
    when it returns `2^{-e/2}`. -/
theorem stab_overlap_is_stabilizer_fidelity (a b : Tab) (r : Option Nat) (ga : (STab.ofTab a).Good)
    (gb : (STab.ofTab b).Good) (h : STab.innerProduct a b = .ok r) :
    stabOverlap a b = (match r with | none => 0 | some e => (1 / 2 : Rat) ^ e) := by
  rw [C17B.stabOverlap_eq a b r ga gb h]
  cases r <;> rfl

/-- the overlap of two valid tableaux of equal size lies in `[0,1]` -/
theorem stab_overlap_in_unit_interval (a b : Tab) (ha : a.isSymplectic = true) (hb : b.isSymplectic = true)
    (hn : a.n = b.n) : 0 ≤ stabOverlap a b ∧ stabOverlap a b ≤ 1 :=
  C17B.stabOverlap_range a b ((Tab.isSymplectic_iff a).1 ha) ((Tab.isSymplectic_iff b).1 hb) hn

/-- **The two backends compute the same fidelity on stabilizer states** (every n): the density-matrix `fidelity` of the two
    exact matrices takes its pure-state branch and returns exactly `tr(ρ_a ρ_b)` — no clipping occurs — which is the value
    of the stabilizer backend's `fidelity`. -/
theorem dm_fidelity_of_stabilizer_states (a b : Tab) (ha : a.isSymplectic = true) (hb : b.isSymplectic = true)
    (hn : a.n = b.n) :
    fidelity (stabilizerDensity a) (stabilizerDensity b) = .ok (.val (stabOverlap a b)) := by
  have da := stabilizer_density_is_pure_density_matrix a ha
  have db := stabilizer_density_is_pure_density_matrix b hb
  rw [fidelity_pure_branch _ _ da.1 db.1 (Or.inl da.2)]
  have := stab_overlap_in_unit_interval a b ha hb hn
  show Except.ok (FidOut.val (clip01 (stabOverlap a b))) = _
  rw [clip01_id _ this.1 this.2]

/-- **… and that value is `|⟨ψ_a|ψ_b⟩|²`** (every n, valid tableaux of equal size): there are unit vectors `ψ_a`, `ψ_b` with
    `ρ_a = |ψ_a⟩⟨ψ_a|`, `ρ_b = |ψ_b⟩⟨ψ_b|` (`Hilbert.tabRho` is the complex matrix that `stabilizerDensity` represents) whose
    squared inner product is the exact rational overlap — the quantity both backends return as the fidelity. -/
theorem stabilizer_fidelity_is_squared_inner_product (a b : Tab) (ha : a.isSymplectic = true) (hb : b.isSymplectic = true)
    (hn : a.n = b.n) :
    ∃ ψa ψb : Hilbert.Bits a.n → ℂ,
      (∑ x, star (ψa x) * ψa x = 1) ∧ (∑ x, star (ψb x) * ψb x = 1) ∧
      (∀ x y, Hilbert.tabRho a.n a x y = ψa x * star (ψa y)) ∧ (∀ x y, Hilbert.tabRho a.n b x y = ψb x * star (ψb y)) ∧
      ((stabOverlap a b : Rat) : ℂ) = (∑ x, star (ψa x) * ψb x) * star (∑ x, star (ψa x) * ψb x) :=
  C17B.stabOverlap_inner a b ((Tab.isSymplectic_iff a).1 ha) ((Tab.isSymplectic_iff b).1 hb) hn

open scoped MatrixOrder ComplexOrder in
/-- **The pure-state shortcut of `fidelity` is the Uhlmann fidelity** (any dimension): for a unit vector `ψ` and a
    positive semidefinite `σ`, the value `tr(ρσ)` that the code returns when one argument is pure equals
    `(tr √(√ρ σ √ρ))²` — with the pure state `ρ = |ψ⟩⟨ψ|` in either argument position (`√` = Mathlib's `CFC.sqrt`). -/
theorem pure_state_shortcut_is_uhlmann {ι : Type} [Fintype ι] [DecidableEq ι] (ψ : ι → ℂ)
    (hψ : dotProduct (star ψ) ψ = 1) (σ : Matrix ι ι ℂ) (hσ : σ.PosSemidef) :
    C17B.uhlmann (C17B.ketBra ψ) σ = Matrix.trace (C17B.ketBra ψ * σ) ∧
    C17B.uhlmann σ (C17B.ketBra ψ) = Matrix.trace (σ * C17B.ketBra ψ) :=
  ⟨C17B.uhlmann_pure_left ψ hψ σ hσ, C17B.uhlmann_pure_right ψ σ hσ⟩

open scoped MatrixOrder ComplexOrder in
/-- **The model's `fidelity` returns the Uhlmann fidelity on its pure branch** (every n): if the first argument represents a
    pure state `|ψ⟩⟨ψ|` (`ψ` a unit vector) and the second a density matrix (positive semidefinite, trace 1), both arguments
    pass `is_density_matrix`, the first passes `is_pure`, the value `Re tr(ρσ)` lies in `[0,1]` (so `clip` changes nothing)
    and it equals `(tr √(√ρ σ √ρ))²`. -/
theorem dm_fidelity_pure_branch_is_uhlmann {n : Nat} (m m' : Mat) (ψ : Hilbert.Bits n → ℂ) (M' : Hilbert.DMat n)
    (hψ : dotProduct (star ψ) ψ = 1) (hm : Hilbert.Rep n m (C17B.ketBra ψ)) (hm' : Hilbert.Rep n m' M')
    (hM' : M'.PosSemidef) (ht : Matrix.trace M' = 1) :
    ∃ q : Rat, fidelity m m' = .ok (.val q) ∧ ((q : ℝ) : ℂ) = C17B.uhlmann (C17B.ketBra ψ) M' :=
  C17B.fidelity_pure_rep ψ M' hψ hm hm' hM' ht

/-- **The fidelity both backends report for two stabilizer states is their Uhlmann fidelity** (every n, valid tableaux of
    equal size): `(tr √(√ρ_a ρ_b √ρ_a))² = stabOverlap a b`, where `ρ = Hilbert.tabRho` is the complex matrix the exact
    `stabilizerDensity` represents. -/
theorem stabilizer_fidelity_is_uhlmann (a b : Tab) (ha : a.isSymplectic = true) (hb : b.isSymplectic = true)
    (hn : a.n = b.n) :
    C17B.uhlmann (Hilbert.tabRho a.n a) (Hilbert.tabRho a.n b) = ((stabOverlap a b : Rat) : ℂ) :=
  C17B.uhlmann_stabilizer a b ((Tab.isSymplectic_iff a).1 ha) ((Tab.isSymplectic_iff b).1 hb) hn

/-- **`Infidelity` agrees across representations** (every n, all valid tableaux of equal size): it returns the same value
    whether target and state are held as tableaux or both as matrices — unconditionally — and also with the target as a
    matrix and the state as a tableau **provided the state's generators carry no sign** (the region outside known finding
    D9: `_stabilizer_to_density_pure` ignores the sign vector, `d9_sign_vector_ignored`). -/
theorem infidelity_representation_independent (tt ts : Tab) (hn : tt.n = ts.n) (hvt : tt.isSymplectic = true)
    (hvs : ts.isSymplectic = true) :
    infidelity stabOverlap (.dm (stabilizerDensity tt)) (.dm (stabilizerDensity ts)) = infidelity stabOverlap (.s tt) (.s ts) ∧
    ((∀ k, k < ts.n → (ts.row (k + ts.n)).r = false) →
      infidelity stabOverlap (.dm (stabilizerDensity tt)) (.s ts) = infidelity stabOverlap (.s tt) (.s ts)) := by
  have f := dm_fidelity_of_stabilizer_states tt ts hvt hvs hn
  constructor
  · simp only [infidelity, f, Except.map]
  · intro hsign
    have e := stabilizerToDensityPure_eq ts hsign
    simp only [infidelity, e, f, Except.map]

/-- the full statement (no sign hypothesis) — **false for the code as it stands**, see `d9_sign_vector_ignored` -/
def infidelity_representation_independent_statement : Prop :=
  ∀ tt ts : Tab, tt.n = ts.n → tt.isSymplectic = true → ts.isSymplectic = true →
    infidelity stabOverlap (.dm (stabilizerDensity tt)) (.s ts) = infidelity stabOverlap (.s tt) (.s ts)

/-- with a zero sign vector the converter as coded is the true density matrix -/
theorem converter_correct_without_signs (t : Tab) (h : ∀ k, k < t.n → (t.row (k + t.n)).r = false) :
    stabilizerToDensityPure t = stabilizerDensity t := stabilizerToDensityPure_eq t h

/-- **D9, refuted on a witness** (known finding): target `|0⟩⟨0|` as a matrix, state `|1⟩` as a tableau (stabilizer `−Z`).
    `_stabilizer_to_density_pure` drops the sign, so `Infidelity` returns 0 — although the states are orthogonal: both
    other representation combinations return 1. -/
theorem d9_sign_vector_ignored :
    infidelity stabOverlap (.dm ket0dm) (.s (Tab.ket1 1)) = .ok (.val 0) ∧
    infidelity stabOverlap (.s (Tab.ket0 1)) (.s (Tab.ket1 1)) = .ok (.val 1) ∧
    infidelity stabOverlap (.dm ket0dm) (.dm (stabilizerDensity (Tab.ket1 1))) = .ok (.val 1) := d9_witness

/-- non-vacuity: a Bell-type tableau (stabilizers `XX`, `ZZ`, no signs) is valid (hypotheses of
    `infidelity_representation_independent`, `stabilizer_density_is_pure_density_matrix`, `dm_fidelity_of_stabilizer_states`); the
    evaluation agrees with the theorems -/
def bellTab : Tab :=
  Tab.ofRows 2 #[
    PRow.ofArrays #[false,false] #[true,false] false false,
    PRow.ofArrays #[false,true] #[false,false] false false,
    PRow.ofArrays #[true,true] #[false,false] false false,
    PRow.ofArrays #[false,false] #[true,true] false false]
example : isDensityMatrix (stabilizerDensity bellTab) = true ∧ isPure (stabilizerDensity bellTab) = true ∧
    stabOverlap bellTab bellTab = 1 ∧ stabOverlap bellTab (Tab.ket0 2) = 1/2 := by decide +kernel
example : bellTab.isSymplectic = true ∧ (Tab.ket0 2).isSymplectic = true ∧ bellTab.n = (Tab.ket0 2).n ∧
    ∀ k, k < (Tab.ket0 2).n → ((Tab.ket0 2).row (k + (Tab.ket0 2).n)).r = false := by decide

/-- the hypotheses of `dm_fidelity_pure_branch_is_uhlmann` are met by the exact matrix of every valid tableau (first argument) -/
example : ∃ ψ : Hilbert.Bits bellTab.n → ℂ, dotProduct (star ψ) ψ = 1 ∧
    Hilbert.Rep bellTab.n (stabilizerDensity bellTab) (C17B.ketBra ψ) :=
  C17B.stabilizerDensity_rep_ketBra bellTab ((Tab.isSymplectic_iff _).1 (by decide))

/-! ## Cross-references (sweep): one embedding for C01 / C06 / C17

  The bridge of this file (`Hilbert.Rep`, deep-c01) and the embedding C06 uses (`MixDM.toC`, deep-c06) are the same map
  (`Proofs/SweepBridge.lean`); hence the exact tests proved correct here apply to the matrices C06's theorems are about. -/

/-- **one embedding**: `Hilbert.Rep n m M` says exactly "`m` has size `2ⁿ` and `MixDM.toC n m = M`" -/
theorem bridge_is_the_embedding_of_C06 (n : Nat) (m : Mat) (M : Hilbert.DMat n) :
    Hilbert.Rep n m M ↔ m.n = 2 ^ n ∧ MixDM.toC n m = M := Sweep.rep_iff_toC n m M

/-- **the density matrix the exact model of the noisy `DensityMatrixCompiler` returns (C06) passes the exact positivity test
    of this file** — every measurement-free circuit on existing qubits, physical noise parameters, every number of qubits
    (positivity itself is `C06.dm_is_positive_semidefinite`; the test's correctness is `exact_psd_test_correct`) -/
theorem noisy_compiled_dm_passes_the_exact_psd_test (ns : Bool) (ne np nc : Nat) (det : Bool) (ops : List Noise.COp)
    (hw : ∀ op ∈ ops, MixDM.OpOK (ne + np) np op) (hl : ∀ op ∈ ops, MixDM.ParamPhys op.n0 ∧ MixDM.ParamPhys op.n1)
    (d : Noise.DmSt) (ρ : Mat) (h : Noise.compileDM ns ne np nc det ops = .ok d) (hρ : d.ρ = some ρ) :
    isPsd ρ = true :=
  (Sweep.compileDM_isPsd ns ne np nc det ops hw hl d ρ h hρ).1

end Graphiq.C17
