/-
  C06 — noisy simulation is physical, backend-independent and switchable.

  Property theorems only (lemmas in Proofs/Noise.lean).  The model (Model/Noise.lean) mirrors
  `CompilerBase.compile`, the two `_apply_additional_noise`, the three additive noise models on both representations and
  `MixedStabilizer.reduce()`; it is tied to /repo by the correspondence run of harness/c06.py.

  What is proved for all circuits / sizes:  clause (a) — the placement decision tree; clause (b) — weight bookkeeping of
  the mixture, validity of every branch; the switch-off part of clause (d).
  What is *not* a theorem: clause (c) (density matrix = Σ p_k ρ(T_k)) needs the tensor-product lifting of Pauli
  conjugation to n qubits (cited mathematics); the driver evaluates both sides exactly on every correspondence input
  (n ≤ 4).  It is moreover *false* for the code as it stands on circuits that measure after noise (two known findings,
  see `measurement_after_loss_renormalises` and `per_branch_measurement_differs` below).  Positivity of the floating-point
  matrix is checked by the oracle only.
-/
import GraphiqModel.Proofs.Noise
namespace Graphiq.C06
open Graphiq Graphiq.Noise Graphiq.DM

/-! ## (a) Placement: each attached additive noise is applied exactly once per addressed qubit, on the requested side -/

/-- **Noise on, supported operation** (one-qubit gate or CNOT/CZ with additive noise models, on either backend):
    the actions are exactly `before ++ [gate] ++ after`, where `before` / `after` list — control first — each attached
    non-`NoNoise` noise whose `After gate` flag is `False` / `True`, on the qubit it addresses.  This covers all four
    placement branches of a controlled gate, the mixed ones included (D36 repaired). -/
theorem placement_noise_on (be : Backend) (np : Nat) (op : COp) (k : Nat) (hs : Supported op) :
    placeOp true be np op k = .ok (wanted np op k false ++ [Act.gate k] ++ wanted np op k true) :=
  placeOp_supported be np op k hs

/-- an attached control / single noise that is not `NoNoise` occurs exactly once in the actions of its operation -/
theorem control_noise_applied_once (be : Backend) (np : Nat) (op : COp) (k : Nat) (hs : Supported op)
    (hn : op.n0.isNone = false) :
    ∃ tr, placeOp true be np op k = .ok tr ∧ tr.count (Act.noise k 0 (qIndex np op.r1 op.t1) op.n0) = 1 := by
  refine ⟨_, placeOp_supported be np op k hs, ?_⟩
  cases ha : op.n0.after <;> cases hc : op.kind.isCtrlPair <;> cases hn1 : op.n1.isNone <;> cases ha1 : op.n1.after <;>
    simp [wanted, hn, ha, hc, hn1, ha1, List.count_cons]

/-- an attached target noise of a controlled pair that is not `NoNoise` occurs exactly once -/
theorem target_noise_applied_once (be : Backend) (np : Nat) (op : COp) (k : Nat) (hs : Supported op)
    (hc : op.kind.isCtrlPair = true) (hn : op.n1.isNone = false) :
    ∃ tr, placeOp true be np op k = .ok tr ∧ tr.count (Act.noise k 1 (qIndex np op.r2 op.t2) op.n1) = 1 := by
  refine ⟨_, placeOp_supported be np op k hs, ?_⟩
  cases ha : op.n0.after <;> cases hn0 : op.n0.isNone <;> cases ha1 : op.n1.after <;>
    simp [wanted, hn, ha, hc, hn0, ha1, List.count_cons]

/-- **Noise simulation switched off**: whatever is attached, the only action is the gate -/
theorem placement_noise_off (be : Backend) (np : Nat) (op : COp) (k : Nat) :
    placeOp false be np op k = .ok [Act.gate k] := placeOp_off be np op k

/-- **`NoNoise` everywhere** (what an empty noise map produces): the only action is the gate -/
theorem placement_no_noise (ns : Bool) (be : Backend) (np : Nat) (op : COp) (k : Nat)
    (h0 : op.n0.isNone = true) (h1 : op.n1.isNone = true) :
    placeOp ns be np op k = .ok [Act.gate k] := placeOp_none ns be np op k h0 h1

/-- whole circuits: with the switch off the trace is the gate sequence and nothing else -/
theorem trace_noise_off (be : Backend) (np : Nat) (ops : List COp) :
    compileTrace false be np ops = .ok ((List.range ops.length).map Act.gate) := compileTrace_off be np ops

/-! ## (b) Weight bookkeeping of the stabilizer mixture, every circuit -/

/-- **Σ p_k = ∏ (1 − loss_j).**  If `StabilizerCompiler.compile` returns, the placement tree produced a trace and the total
    weight of the resulting mixture is the product of the survival probabilities of the photon-loss events of that trace
    (in particular 1 when there is none). -/
theorem mixture_weight_is_survival_product (ns : Bool) (ne np nc : Nat) (det : Bool) (ops : List COp) (s : StabSt)
    (h : compileStab ns ne np nc det ops = .ok s) :
    ∃ tr, compileTrace ns .stab np ops = .ok tr ∧ Mix.total s.mix = lossFactor tr := by
  obtain ⟨tr, h1, h2⟩ := stabGo_total ns np (ne + np) det ops.toArray ops 0 _ s h
  refine ⟨tr, h1, ?_⟩
  rw [h2]; simp [Mix.total_cons, Mix.total_nil]

/-- single steps: a photon loss multiplies the weight by `1 − rate`; depolarizing noise (filter and `reduce()` as coded) and
    `reduce()` itself keep it -/
theorem loss_scales_weight (r : Rat) (m : Mixture) : Mix.total (Mix.photonLoss r m) = (1 - r) * Mix.total m :=
  Mix.total_photonLoss r m
theorem depolarizing_keeps_weight (p : Rat) (q : Nat) (m m' : Mixture) (h : Mix.depolarize p q m = .ok m') :
    Mix.total m' = Mix.total m := Mix.total_depolarize p q m m' h
theorem reduce_keeps_weight (m : Mixture) : Mix.total (Mix.reduce m.length m) = Mix.total m :=
  Mix.total_reduce m.length m (Nat.le_refl _)

/-- for a probability in [0,1] and non-negative weights the depolarizing step cannot fail unless the whole mixture has
    weight 0 — the situation of D37 (loss rate exactly 1), where the `p_i·factor > 0` filter drops every branch -/
theorem depolarizing_succeeds (p : Rat) (q : Nat) (m : Mixture) (hp0 : 0 ≤ p) (hp1 : p ≤ 1) (hm : ∀ x ∈ m, 0 ≤ x.1)
    (hpos : 0 < Mix.total m) : ∃ m', Mix.depolarize p q m = .ok m' := Mix.depolarize_ok p q m hp0 hp1 hm hpos

/-- D37 as a theorem about the code: a branch of weight 0 is dropped by the filter, the mixture becomes empty and the
    setter's assertion fires -/
theorem d37_empty_mixture (p : Rat) (q : Nat) (t : Tab) : Mix.depolarize p q [(0, t)] = .error .assertion := by
  have e : List.range 4 = [0, 1, 2, 3] := by decide
  simp [Mix.depolarize, Mix.total, qsumL, e]

/-! ## Non-vacuity -/

/-- CNOT(e0 → p0) with depolarizing noise *before* on the control and a Pauli error *after* on the target -/
def exOp : COp := { kind := .cnot, r1 := 0, t1 := .e, r2 := 0, t2 := .p, n0 := .depol (1/3) false, n1 := .pauli .X true }

example : Supported exOp := ⟨Or.inr rfl, rfl, fun _ => rfl⟩
example : placeOp true .stab 1 exOp 7 =
    .ok [Act.noise 7 0 1 (.depol (1/3) false), Act.gate 7, Act.noise 7 1 0 (.pauli .X true)] := by decide +kernel

end Graphiq.C06
