/-
  C06 — noisy simulation is physical, backend-independent and switchable.

  Property theorems only (lemmas in Proofs/Noise.lean, Proofs/Channel.lean, Proofs/MixtureDM*.lean).  The model
  (Model/Noise.lean) mirrors `CompilerBase.compile`, the two `_apply_additional_noise`, the three additive noise models on
  both representations and `MixedStabilizer.reduce()`; it is tied to /repo by the correspondence run of harness/c06.py.

  What is proved for all circuits / sizes:  clause (a) — the placement decision tree; clause (b) — weight bookkeeping of
  the mixture, validity of every branch; clause (c) for measurement-free circuits — the density matrix of the exact
  density-matrix model equals `Σ_k p_k ρ(T_k)` of the stabilizer model's mixture, for every number of qubits (Hilbert-space
  level and, through the embedding `Mat → Matrix (Bits n) (Bits n) ℂ`, entry by entry for the executable models), with its
  consequences: trace = product of survival probabilities, positive semidefinite, same overlap with every stabilizer target;
  both compilers return on the whole class; clause (c) also with measurements on which all branches agree (incl. photon loss);
  the density matrix is physical (PSD, trace = ∏ survival) through arbitrary measurements; clause (d) for whole circuits
  (switch off = noiseless run literally; zero strength = noiseless state).
  Measurements: `compileStab` models `StabilizerCompiler.compile` with the *repaired* joint `MixedStabilizer.apply_measurement`
  (finding F2 fixed); clause (c) then holds for circuits with measurements with no condition on the outcomes
  (`dm_equals_mixture_with_measurements`).  The per-branch measurement of graphiq before that repair is kept as
  `Mix.measureOld` / `compileStabOld` for the historical theorems (`per_branch_measurement_differs`, …) and for checking an
  unrepaired /repo.  What is *not* a theorem: positivity of the floating-point matrix (oracle only); the "probabilistic"
  measurement setting (the draw rule of the repaired routine is modelled as `Mix.measureDraw` and compared per input, not used
  in the theorems).
-/
import GraphiqModel.Proofs.Noise
import GraphiqModel.Proofs.Channel
import GraphiqModel.Proofs.GateTable
import GraphiqModel.Proofs.MixtureDMLockstep
import GraphiqModel.Proofs.MixtureDMTotal
import GraphiqModel.Proofs.MixtureDMPhysMeas
import GraphiqModel.Proofs.MixtureDMZero
import GraphiqModel.Proofs.MixtureDMWeights
import GraphiqModel.Proofs.MixtureDMJointCircuit
import GraphiqModel.Proofs.MixtureDMPerBranch
import GraphiqModel.Proofs.MixtureDMTotalMeas
import GraphiqModel.Proofs.MixtureDMDefined
namespace Graphiq.C06
open Graphiq Graphiq.Noise Graphiq.DM

/-! ## (a) Placement: each attached additive noise is applied exactly once per addressed qubit, on the requested side -/

/-- **Noise on, supported operation** (one-qubit gate or CNOT/CZ with additive noise models, on either backend):
    the actions are exactly `before ++ [gate] ++ after`, where `before` / `after` list — control first — each attached
    non-`NoNoise` noise whose `After gate` flag is `False` / `True`, on the qubit it addresses.  This covers all four
    placement branches of a controlled gate, the mixed ones included (D36 repaired). -/
theorem placement_noise_on (be : Backend) (np : Nat) (op : COp) (k : Nat) (hs : Supported op) :
    placeOp true be np op k = .ok (wanted np op k false ++ [Act.gate k] ++ wanted np op k true) :=
  placeOp_supported be np op k hs

/-- an attached control / single noise that is not `NoNoise` occurs exactly once in the actions of its operation -/
theorem control_noise_applied_once (be : Backend) (np : Nat) (op : COp) (k : Nat) (hs : Supported op)
    (hn : op.n0.isNone = false) :
    ∃ tr, placeOp true be np op k = .ok tr ∧ tr.count (Act.noise k 0 (qIndex np op.r1 op.t1) op.n0) = 1 := by
  refine ⟨_, placeOp_supported be np op k hs, ?_⟩
  cases ha : op.n0.after <;> cases hc : op.kind.isCtrlPair <;> cases hn1 : op.n1.isNone <;> cases ha1 : op.n1.after <;>
    simp [wanted, hn, ha, hc, hn1, ha1, List.count_cons]

/-- an attached target noise of a controlled pair that is not `NoNoise` occurs exactly once -/
theorem target_noise_applied_once (be : Backend) (np : Nat) (op : COp) (k : Nat) (hs : Supported op)
    (hc : op.kind.isCtrlPair = true) (hn : op.n1.isNone = false) :
    ∃ tr, placeOp true be np op k = .ok tr ∧ tr.count (Act.noise k 1 (qIndex np op.r2 op.t2) op.n1) = 1 := by
  refine ⟨_, placeOp_supported be np op k hs, ?_⟩
  cases ha : op.n0.after <;> cases hn0 : op.n0.isNone <;> cases ha1 : op.n1.after <;>
    simp [wanted, hn, ha, hc, hn0, ha1, List.count_cons]

/-- **Noise simulation switched off**: whatever is attached, the only action is the gate -/
theorem placement_noise_off (be : Backend) (np : Nat) (op : COp) (k : Nat) :
    placeOp false be np op k = .ok [Act.gate k] := placeOp_off be np op k

/-- **`NoNoise` everywhere** (what an empty noise map produces): the only action is the gate -/
theorem placement_no_noise (ns : Bool) (be : Backend) (np : Nat) (op : COp) (k : Nat)
    (h0 : op.n0.isNone = true) (h1 : op.n1.isNone = true) :
    placeOp ns be np op k = .ok [Act.gate k] := placeOp_none ns be np op k h0 h1

/-- whole circuits: with the switch off the trace is the gate sequence and nothing else -/
theorem trace_noise_off (be : Backend) (np : Nat) (ops : List COp) :
    compileTrace false be np ops = .ok ((List.range ops.length).map Act.gate) := compileTrace_off be np ops

/-- **whole circuits, noise on**: for a circuit of supported operations (one-qubit gates, CNOT, CZ with additive noise) the
    compile trace of either backend is, operation by operation, [noise asking for "before"] ++ [gate] ++ [noise asking for
    "after"] — every attached non-`NoNoise` noise exactly once, on the qubit it addresses, on the requested side -/
theorem trace_noise_on (be : Backend) (np : Nat) (ops : List COp) (hs : ∀ op ∈ ops, Supported op) :
    compileTrace true be np ops = .ok (Graphiq.MixDM.wantedAll np ops 0) :=
  Graphiq.MixDM.traceGo_supported be np ops 0 hs

/-! ## (b) Weight bookkeeping of the stabilizer mixture, every circuit -/

/-- **Σ p_k = ∏ (1 − loss_j).**  If `StabilizerCompiler.compile` returns, the placement tree produced a trace and the total
    weight of the resulting mixture is the product of the survival probabilities of the photon-loss events of that trace (in
    particular 1 when there is none) — or exactly `0`: the repaired (joint) `apply_measurement` sets every weight to `0.0 · p_i`
    when the outcome it selects carries no weight, which can only happen at a total weight within `np.isclose`'s tolerance
    `1e-8` of 0.  Every circuit, measurements included. -/
theorem mixture_weight_is_survival_product (ns : Bool) (ne np nc : Nat) (det : Bool) (ops : List COp) (s : StabSt)
    (h : compileStab ns ne np nc det ops = .ok s) :
    ∃ tr, compileTrace ns .stab np ops = .ok tr ∧ (Mix.total s.mix = lossFactor tr ∨ Mix.total s.mix = 0) := by
  obtain ⟨tr, h1, h2⟩ := stabGo_total ns np (ne + np) det ops.toArray ops 0 _ s h
  refine ⟨tr, h1, ?_⟩
  rcases h2 with h2 | h2
  · left; rw [h2]; simp [Mix.total_cons, Mix.total_nil]
  · exact Or.inr h2

/-- in particular: a mixture of non-zero weight has exactly the survival product as its weight -/
theorem mixture_weight_is_survival_product_of_ne_zero (ns : Bool) (ne np nc : Nat) (det : Bool) (ops : List COp) (s : StabSt)
    (h : compileStab ns ne np nc det ops = .ok s) (h0 : Mix.total s.mix ≠ 0) :
    ∃ tr, compileTrace ns .stab np ops = .ok tr ∧ Mix.total s.mix = lossFactor tr := by
  obtain ⟨tr, h1, h2⟩ := mixture_weight_is_survival_product ns ne np nc det ops s h
  exact ⟨tr, h1, h2.resolve_right h0⟩

/-- single steps: a photon loss multiplies the weight by `1 − rate`; depolarizing noise (filter and `reduce()` as coded) and
    `reduce()` itself keep it -/
theorem loss_scales_weight (r : Rat) (m : Mixture) : Mix.total (Mix.photonLoss r m) = (1 - r) * Mix.total m :=
  Mix.total_photonLoss r m
theorem depolarizing_keeps_weight (p : Rat) (q : Nat) (m m' : Mixture) (h : Mix.depolarize p q m = .ok m') :
    Mix.total m' = Mix.total m := Mix.total_depolarize p q m m' h
theorem reduce_keeps_weight (m : Mixture) : Mix.total (Mix.reduce m.length m) = Mix.total m :=
  Mix.total_reduce m.length m (Nat.le_refl _)

/-- the density-matrix twin of `loss_scales_weight`: `PhotonLoss` multiplies the trace of the model's exact matrix by `1 − rate` -/
theorem loss_scales_dm_trace (n q : Nat) (r : Rat) (a : Bool) (ρ ρ' : Mat) (h : DMx.applyNoise n (.loss r a) q ρ = .ok ρ') :
    ρ'.trace = GQ.smul (1 - r) ρ.trace := dm_loss_trace n q r a ρ ρ' h

/-- for a probability in [0,1] the depolarizing step never fails on a non-empty mixture, whatever the weights … -/
theorem depolarizing_succeeds (p : Rat) (q : Nat) (m : Mixture) (hp0 : 0 ≤ p) (hp1 : p ≤ 1) (hm : m ≠ []) :
    ∃ m', Mix.depolarize p q m = .ok m' := Mix.depolarize_ok p q m hp0 hp1 hm

/-- … in particular after a photon loss of rate exactly 1 (**D37, repaired**: the filter now tests the Kraus factor, not
    `p_i·factor`, so a branch of weight 0 is kept and the mixture cannot become empty); the weight stays 0 -/
theorem d37_repaired (p : Rat) (q : Nat) (t : Tab) (hp0 : 0 ≤ p) (hp1 : p ≤ 1) :
    ∃ m', Mix.depolarize p q [(0, t)] = .ok m' ∧ Mix.total m' = 0 := by
  obtain ⟨m', h⟩ := Mix.depolarize_ok p q [(0, t)] hp0 hp1 (by simp)
  refine ⟨m', h, ?_⟩
  rw [Mix.total_depolarize p q _ m' h]; simp [Mix.total_cons, Mix.total_nil]

/-- **every `T_k` is a valid tableau.**  For a circuit whose operations address existing qubits (control ≠ target for
    CNOT/CZ), whenever `StabilizerCompiler.compile` returns, every branch of the mixture is a valid `(ne+np)`-qubit Clifford
    tableau — through all gates, per-branch measurements and resets, Pauli errors, depolarizing branching and `reduce()`.
    (Uses the C07 validity theorems.) -/
theorem every_branch_valid (ns : Bool) (ne np nc : Nat) (det : Bool) (ops : List COp)
    (hw : ∀ op ∈ ops, OpWF (ne + np) np op) (s : StabSt) (h : compileStab ns ne np nc det ops = .ok s) :
    ∀ x ∈ s.mix, x.2.n = ne + np ∧ x.2.Valid := compileStab_ok ns ne np nc det ops hw s h

/-- **every weight `p_k` is non-negative**: any circuit — measurements, classically controlled operations and resets included,
    any placement — with photon-loss rates `≤ 1` (the depolarizing filter keeps only positive factors, whatever the probability):
    whenever the stabilizer compile returns, the mixture is a genuine sub-normalised probability mixture -/
theorem every_weight_nonneg (ns : Bool) (ne np nc : Nat) (det : Bool) (ops : List COp)
    (hw : ∀ op ∈ ops, Graphiq.MixDM.LossLe1 op.n0 ∧ Graphiq.MixDM.LossLe1 op.n1) (s : StabSt)
    (h : compileStab ns ne np nc det ops = .ok s) : ∀ x ∈ s.mix, 0 ≤ x.1 :=
  Graphiq.MixDM.compileStab_nonneg ns ne np nc det ops hw s h

/-! ## (c) Density matrix = Σ p_k ρ(T_k), measurement-free circuits, every number of qubits -/

section clause_c
open Graphiq.MixDM Graphiq.Hilbert Matrix

/-- **(c), Hilbert-space level, stabilizer side.**  For a measurement-free circuit on existing qubits (control ≠ target) with
    depolarizing probabilities in `[0,1]` — any Pauli errors, any loss rates, either placement, noise simulation on or off —
    whenever `StabilizerCompiler.compile` returns the mixture `[(w_k, T_k)]`, the placement tree produced a trace `tr` and
    `Σ_k w_k ρ(T_k) = runH tr |0…0⟩⟨0…0|`: the initial state pushed, action by action, through what the density-matrix backend
    applies (`U ρ U†` for a gate, `P ρ P†` for a Pauli error, `(1−p) ρ + p/3 (XρX + YρY + ZρZ)` for depolarizing noise,
    `(1−λ) ρ` for photon loss).  Covers the `factor > 0` filter and `reduce()` as coded.  `2^n × 2^n` complex matrices, all n. -/
theorem mixture_is_hilbert_run (ns : Bool) (ne np nc : Nat) (det : Bool) (ops : List COp)
    (hw : ∀ op ∈ ops, OpOK (ne + np) np op) (s : StabSt) (h : compileStab ns ne np nc det ops = .ok s) :
    ∃ tr, compileTrace ns .stab np ops = .ok tr ∧
      mixRho (ne + np) s.mix = runH np (ne + np) ops.toArray tr (rho0 (ne + np)) ∧ MixN (ne + np) s.mix :=
  compileStab_mixRho ns ne np nc det ops hw s h

/-- **(c), Hilbert-space level, density-matrix side.**  On the same circuits, whenever the exact density-matrix model
    (`Mat` over ℚ[i]; Kronecker-built gate matrices, `apply_unitary` with `hermitianize`, `apply_channel`, tabulation — as
    coded) returns, its matrix, read as a complex matrix on bit strings (row / column `i` ↔ the big-endian bit string of
    `i`), is the same Hilbert-space run of its placement trace, has size `2^n` and is Hermitian. -/
theorem dm_is_hilbert_run (ns : Bool) (ne np nc : Nat) (det : Bool) (ops : List COp)
    (hw : ∀ op ∈ ops, OpOK (ne + np) np op) (d : DmSt) (h : compileDM ns ne np nc det ops = .ok d) :
    ∃ tr, compileTrace ns .dm np ops = .ok tr ∧
      ∃ ρ, d.ρ = some ρ ∧ toC (ne + np) ρ = runH np (ne + np) ops.toArray tr (rho0 (ne + np)) ∧ ρ.n = 2 ^ (ne + np) ∧
        (toC (ne + np) ρ)ᴴ = toC (ne + np) ρ :=
  compileDM_toC ns ne np nc det ops hw d h

/-- on measurement-free operations both backends walk the same placement trace -/
theorem same_trace_both_backends (ns : Bool) (np : Nat) (ops : List COp) (h : ∀ op ∈ ops, MFree op) :
    compileTrace ns .dm np ops = compileTrace ns .stab np ops := traceGo_backend ns np ops 0 h

/-- the single steps behind `mixture_is_hilbert_run`, each for every `n`: a gate on every branch, … -/
theorem gate_on_every_branch (n : Nat) (g : Gate) (hg : g.WF n) (m : Mixture) (hm : MixN n m) :
    mixRho n (Mix.mapTab (fun t => t.map g.act) m) = conjH (gateMat n g) (mixRho n m) := mixRho_mapGate n g hg m hm
/-- … depolarizing branching with its filter, weight check and `reduce()`, … -/
theorem depolarizing_on_mixture (n q : Nat) (hq : q < n) (p : Rat) (hp0 : 0 ≤ p) (hp1 : p ≤ 1) (m m' : Mixture) (hm : MixN n m)
    (h : Mix.depolarize p q m = .ok m') : mixRho n m' = depolH n q p (mixRho n m) :=
  mixRho_depolarize n q hq p hp0 hp1 m m' hm h
/-- … a Pauli error, … -/
theorem pauli_error_on_mixture (n q : Nat) (hq : q < n) (k : PauliK) (m m' : Mixture) (hm : MixN n m)
    (h : Mix.pauliError k q m = .ok m') : mixRho n m' = pauliH n q k (mixRho n m) := mixRho_pauliError n q hq k m m' hm h
/-- … photon loss, … -/
theorem photon_loss_on_mixture (n : Nat) (r : Rat) (m : Mixture) :
    mixRho n (Mix.photonLoss r m) = (((1 - r : ℚ)) : ℂ) • mixRho n m := mixRho_photonLoss n r m
/-- … and **`reduce()` is correct**: merging branches whose tableaux are `__eq__` — with the pop-while-enumerating loop as
    coded — never changes the state the mixture stands for -/
theorem reduce_keeps_state (n : Nat) (m : Mixture) (hm : MixN n m) : mixRho n (Mix.reduce m.length m) = mixRho n m :=
  mixRho_reduce n m.length m (Nat.le_refl _) hm

/-- observation D11 as a kernel-checked fact: because `reduce()` pops from the list it is enumerating, three equal branches
    are merged into *two* (`[2/3, 1/3]`), not one — harmless for the property by `reduce_keeps_state` / `reduce_keeps_weight` -/
theorem reduce_under_merges :
    ((Mix.reduce 3 [(1/3, (Tab.ket0 1).norm), (1/3, (Tab.ket0 1).norm), (1/3, (Tab.ket0 1).norm)]).map fun x => x.1)
      = [2/3, 1/3] := by decide +kernel

/-- the executable `mixtureDensity` (what the driver evaluates) is `Σ_k w_k ρ(T_k)` -/
theorem mixtureDensity_is_mixRho (n : Nat) (m : Mixture) (hm : MixN n m) :
    toC n (mixtureDensity n m) = mixRho n m ∧ (mixtureDensity n m).n = 2 ^ n := toC_mixtureDensity n m hm

/-- clause (c) for measurement-free circuits (where the per-branch-measurement finding does not apply): the operations address
    existing qubits, control ≠ target (what `CircuitDAG` guarantees; `dm_equals_mixture_needs_existing_qubits` shows the
    executable models do disagree without it), depolarizing probabilities lie in `[0,1]` (the property's quantifier). -/
def dm_equals_mixture_statement : Prop :=
  ∀ (ne np nc : Nat) (det : Bool) (ops : List COp) (s : StabSt) (d : DmSt) (ρ : Mat),
    (∀ op ∈ ops, OpOK (ne + np) np op) →
    compileStab true ne np nc det ops = .ok s → compileDM true ne np nc det ops = .ok d → d.ρ = some ρ →
    Mat.EqOn ρ (mixtureDensity (ne + np) s.mix)

/-- **(c): the stabilizer mixture is the density matrix**, every measurement-free noisy circuit, every number of qubits, entry
    by entry in exact arithmetic. -/
theorem dm_equals_mixture : dm_equals_mixture_statement :=
  fun ne np nc det ops s d ρ hw hs hd hρ => MixDM.dm_equals_mixture true ne np nc det ops hw s d ρ hs hd hρ

/-- the same with noise simulation switched off (then both are the noiseless state) or on -/
theorem dm_equals_mixture_any_switch (ns : Bool) (ne np nc : Nat) (det : Bool) (ops : List COp)
    (hw : ∀ op ∈ ops, OpOK (ne + np) np op) (s : StabSt) (d : DmSt) (ρ : Mat)
    (hs : compileStab ns ne np nc det ops = .ok s) (hd : compileDM ns ne np nc det ops = .ok d) (hρ : d.ρ = some ρ) :
    Mat.EqOn ρ (mixtureDensity (ne + np) s.mix) := MixDM.dm_equals_mixture ns ne np nc det ops hw s d ρ hs hd hρ

/-- the hypothesis "existing qubits" cannot be dropped *for the models*: a Pauli error addressed to qubit 5 of a one-qubit
    register is the identity on the tableau (no such column) but `get_one_qubit_gate(1, 5, X)` returns `X` itself.
    (`CircuitDAG` never produces such an operation, and the real `x_gate` asserts `qubit_position < n_qubits`.) -/
theorem dm_equals_mixture_needs_existing_qubits :
    (match compileDM true 1 0 0 true [{ kind := .identity, r1 := 5, t1 := .e, n0 := .pauli .X true }],
           compileStab true 1 0 0 true [{ kind := .identity, r1 := 5, t1 := .e, n0 := .pauli .X true }] with
      | .ok { ρ := some ρ, .. }, .ok s => ρ.e 1 1 == (⟨1, 0⟩ : GQ) && (mixtureDensity 1 s.mix).e 0 0 == (⟨1, 0⟩ : GQ)
      | _, _ => false) = true := by decide +kernel

/-! ### non-vacuity of (c): depolarizing noise + Pauli error + photon loss on a two-qubit circuit -/

/-- `H(e0)` with depolarizing noise after it, then `CNOT(e0 → p0)` with a `Z` error before it on the control and photon loss
    after it on the target -/
def exCircuit : List COp :=
  [ { kind := .h, r1 := 0, t1 := .e, n0 := .depol (1/3) true },
    { kind := .cnot, r1 := 0, t1 := .e, r2 := 0, t2 := .p, n0 := .pauli .Z false, n1 := .loss (1/4) true } ]

example : ∀ op ∈ exCircuit, OpOK (1 + 1) 1 op := by
  intro op h
  simp only [exCircuit, List.mem_cons, List.not_mem_nil, or_false] at h
  rcases h with rfl | rfl
  · exact ⟨⟨by decide, fun h => by simp [Kind.isCtrlPair, Kind.isClassicalCtrl] at h, fun h => by simp [Kind.isCtrlPair] at h⟩,
      Or.inl rfl, ⟨by norm_num, by norm_num⟩, trivial⟩
  · exact ⟨⟨by decide, fun _ => by decide, fun _ => by decide⟩, Or.inr rfl, trivial, trivial⟩

example : ∀ op ∈ exCircuit, Supported op := by
  intro op h
  simp only [exCircuit, List.mem_cons, List.not_mem_nil, or_false] at h
  rcases h with rfl | rfl
  · exact ⟨Or.inl rfl, rfl, fun _ => rfl⟩
  · exact ⟨Or.inr rfl, rfl, fun _ => rfl⟩

example : ∀ op ∈ exCircuit, Graphiq.MixDM.LossLe1 op.n0 ∧ Graphiq.MixDM.LossLe1 op.n1 := by
  intro op h
  simp only [exCircuit, List.mem_cons, List.not_mem_nil, or_false] at h
  rcases h with rfl | rfl
  · exact ⟨(by intro r a e; cases e), (by intro r a e; cases e)⟩
  · refine ⟨(by intro r a e; cases e), ?_⟩
    intro r a e
    injection e with e1 _
    rw [← e1]; norm_num

/-- both compilers return on it: four branches, trace `3/4`, and (as the theorem says) equal matrices -/
example :
    (match compileDM true 1 1 0 true exCircuit, compileStab true 1 1 0 true exCircuit with
      | .ok { ρ := some ρ, .. }, .ok s =>
          ρ.trace == (⟨3/4, 0⟩ : GQ) && s.mix.length == 4 && Mat.beq ρ (mixtureDensity 2 s.mix)
      | _, _ => false) = true := by decide +kernel

/-! ### (c) is not vacuous anywhere on its class: both compilers return -/

/-- **both compilers return on the whole class**: measurement-free operations on existing qubits whose class the stabilizer
    compiler accepts, additive noise with depolarizing probabilities in `[0,1]` and valid Pauli names — no `assert`, no shape
    mismatch, no `np.isclose` failure, no empty mixture; and the results agree.  Every circuit of the class, every n. -/
theorem dm_equals_mixture_on_the_whole_class (ns : Bool) (ne np nc : Nat) (det : Bool) (ops : List COp)
    (hw : ∀ op ∈ ops, OpRuns (ne + np) np op) :
    ∃ s d ρ, compileStab ns ne np nc det ops = .ok s ∧ compileDM ns ne np nc det ops = .ok d ∧ d.ρ = some ρ ∧
      Mat.EqOn ρ (mixtureDensity (ne + np) s.mix) := dm_equals_mixture_total ns ne np nc det ops hw

example : ∀ op ∈ exCircuit, OpRuns (1 + 1) 1 op := by
  intro op h
  simp only [exCircuit, List.mem_cons, List.not_mem_nil, or_false] at h
  rcases h with rfl | rfl
  · exact ⟨⟨⟨by decide, fun h => by simp [Kind.isCtrlPair, Kind.isClassicalCtrl] at h, fun h => by simp [Kind.isCtrlPair] at h⟩,
      Or.inl rfl, ⟨by norm_num, by norm_num⟩, trivial⟩, by simp, rfl, fun _ => rfl, trivial, fun _ => trivial⟩
  · exact ⟨⟨⟨by decide, fun _ => by decide, fun _ => by decide⟩, Or.inr rfl, trivial, trivial⟩, by simp, rfl, fun _ => rfl,
      trivial, fun _ => trivial⟩

/-! ### consequences of (c): the density matrix is physical, and both backends give the same fidelities -/

open scoped ComplexOrder in
/-- **the density-matrix result is positive semidefinite** (as a complex `2^n × 2^n` matrix): every measurement-free circuit on
    existing qubits, depolarizing probabilities in `[0,1]`, loss rates `≤ 1`, every number of qubits.  (About the exact model;
    positivity of the *floating-point* matrix is checked by the oracle.) -/
theorem dm_is_positive_semidefinite (ns : Bool) (ne np nc : Nat) (det : Bool) (ops : List COp)
    (hw : ∀ op ∈ ops, OpOK (ne + np) np op) (hl : ∀ op ∈ ops, ParamPhys op.n0 ∧ ParamPhys op.n1)
    (d : DmSt) (ρ : Mat) (h : compileDM ns ne np nc det ops = .ok d) (hρ : d.ρ = some ρ) :
    (toC (ne + np) ρ).PosSemidef := compileDM_psd ns ne np nc det ops hw hl d ρ h hρ

/-- **its trace is the product of the photon survival probabilities** `∏ (1 − loss_j)` over the loss events of the placement
    trace — exactly, as an element of ℚ[i] -/
theorem dm_trace_is_survival_product (ns : Bool) (ne np nc : Nat) (det : Bool) (ops : List COp)
    (hw : ∀ op ∈ ops, OpOK (ne + np) np op) (d : DmSt) (h : compileDM ns ne np nc det ops = .ok d) :
    ∃ tr ρ, compileTrace ns .dm np ops = .ok tr ∧ d.ρ = some ρ ∧ ρ.trace = ⟨lossFactor tr, 0⟩ :=
  compileDM_trace ns ne np nc det ops hw d h

/-- **same fidelity with any pure stabilizer target**: `tr(ρ ρ_T)` computed on the density-matrix result equals
    `Σ_k w_k tr(ρ_{T_k} ρ_T)`, the weighted sum `Infidelity.evaluate` forms over the branches of the mixture (`tr(ρ_{T_k} ρ_T)`
    being the specification of `sfm.fidelity`, C05), for every target tableau `T` — exact arithmetic -/
theorem same_overlap_with_any_stabilizer_target (ns : Bool) (ne np nc : Nat) (det : Bool) (ops : List COp)
    (hw : ∀ op ∈ ops, OpOK (ne + np) np op) (s : StabSt) (d : DmSt) (ρ : Mat)
    (hs : compileStab ns ne np nc det ops = .ok s) (hd : compileDM ns ne np nc det ops = .ok d) (hρ : d.ρ = some ρ)
    (T : Tab) (hT : T.n = ne + np) :
    (ρ.mul (stabilizerDensity T)).trace = mixOverlapQ T s.mix :=
  overlap_both_backends ns ne np nc det ops hw s d ρ hs hd hρ T hT

example : ∀ op ∈ exCircuit, ParamPhys op.n0 ∧ ParamPhys op.n1 := by
  intro op h
  simp only [exCircuit, List.mem_cons, List.not_mem_nil, or_false] at h
  rcases h with rfl | rfl
  · exact ⟨⟨by norm_num, by norm_num⟩, trivial⟩
  · exact ⟨trivial, by show (1/4 : Rat) ≤ 1; norm_num⟩

end clause_c

/-- **kernel-evaluated cross-check of the executable gate matrices** (finite table; superseded by `dm_equals_mixture`, kept as an
    independent evaluation of the compiled definitions): on 1 qubit, for all 8 signed Pauli matrices, and on 2 qubits, for the
    8 signed one-site generators, every gate matrix of the density-matrix model (H, P, P†, X, Y, Z on each qubit; CNOT, CZ in
    both directions) is unitary and conjugates the Pauli matrix into exactly the signed Pauli matrix of the row that the
    stabilizer model's tableau gate produces. -/
theorem dm_gates_match_tableau_gates_small :
    allGateChecks 1 (allRows 1) = true ∧ allGateChecks 2 (genRows 2) = true := ⟨gates_agree_n1, gates_agree_n2⟩

/-! ### channel identities for arbitrary dimension (Mathlib matrices over ℂ): the density-matrix noise models are physical -/

section channel
open Graphiq.Channel Matrix
open scoped ComplexOrder
variable {n : Type} [Fintype n] [DecidableEq n] {K : Type} [Fintype K]

/-- a mixture of unitary conjugations `ρ ↦ Σ_k f_k U_k ρ U_k†` (depolarizing noise: the four Paulis on one qubit with
    `f = (1−p, p/3, p/3, p/3)`; a Pauli error: one term) multiplies the trace by `Σ f_k` … -/
theorem unitary_mixture_trace (f : K → ℝ) (U : K → Matrix n n ℂ) (hU : ∀ k, (U k)ᴴ * U k = 1) (ρ : Matrix n n ℂ) :
    (mixUnitary f U ρ).trace = ((∑ k, f k : ℝ) : ℂ) * ρ.trace := trace_mixUnitary f U hU ρ

/-- … and preserves positive semidefiniteness when the weights are non-negative -/
theorem unitary_mixture_psd (f : K → ℝ) (hf : ∀ k, 0 ≤ f k) (U : K → Matrix n n ℂ) (ρ : Matrix n n ℂ)
    (hρ : ρ.PosSemidef) : (mixUnitary f U ρ).PosSemidef := posSemidef_mixUnitary f hf U ρ hρ

/-- the depolarizing weights sum to 1 (trace preserved); photon loss scales the trace by the survival probability and
    keeps positivity -/
theorem depolarizing_weights_sum_to_one (p : ℝ) : (1 - p) + p / 3 + p / 3 + p / 3 = 1 := depol_factors p
theorem photon_loss_trace_and_psd (lam : ℝ) (h : lam ≤ 1) (ρ : Matrix n n ℂ) (hρ : ρ.PosSemidef) :
    (((1 - lam : ℝ) : ℂ) • ρ).trace = ((1 - lam : ℝ) : ℂ) * ρ.trace ∧ (((1 - lam : ℝ) : ℂ) • ρ).PosSemidef :=
  ⟨loss_trace lam ρ, loss_posSemidef lam h ρ hρ⟩
end channel

/-! ## (d) Zero strength ⇒ identical to the noiseless run -/

/-- **mixtures**: on a one-branch mixture of positive weight (what every noiseless run is) a noise of zero strength returns the
    same weight and the same tableau (`DepolarizingNoise(0)` re-tabulates it, which is pointwise the identity:
    `tabulation_is_identity`) -/
theorem zero_strength_is_identity_mixture (nm : NoiseM) (hz : nm.isZeroStrength = true) (q : Nat) (w : Rat) (hw : 0 < w) (t : Tab) :
    Mix.applyNoise nm q [(w, t)] = .ok [(w, t)] ∨ Mix.applyNoise nm q [(w, t)] = .ok [(w, t.norm)] :=
  zero_strength_single_branch nm hz q w hw t

theorem tabulation_is_identity (t : Tab) : t.norm.n = t.n ∧ ∀ i, i < 2 * t.n → PRow.EqOn t.n (t.norm.row i) (t.row i) :=
  norm_is_identity t

/-- **density matrices**: `DepolarizingNoise(0)`, `PhotonLoss(0)`, `PauliError("I")` and `NoNoise` return a Hermitian state
    entry by entry -/
theorem zero_strength_is_identity_dm (n q : Nat) (hq : q < n) (ρ : Mat) (hn : ρ.n = pow2 n) (hh : Mat.Herm ρ) (a : Bool)
    (nm : NoiseM) (hz : nm = .depol 0 a ∨ nm = .loss 0 a ∨ nm = .pauli .I a ∨ nm = .none) :
    ∃ ρ', DMx.applyNoise n nm q ρ = .ok ρ' ∧ Mat.EqOn ρ' ρ := by
  rcases hz with h | h | h | h <;> subst h
  · exact dm_depol_zero n q hq ρ hn hh a
  · exact (dm_zero_strength n q ρ hn hh a).1
  · exact (dm_zero_strength n q ρ hn hh a).2.1
  · exact (dm_zero_strength n q ρ hn hh a).2.2

/-! ### (d) for whole circuits -/

section clause_d_circuits
open Graphiq.MixDM

/-- **noise simulation switched off reproduces the noiseless run exactly — any circuit, measurements included, both
    backends**: the result (state, classical register, or exception) is literally the result of compiling the circuit with every
    noise replaced by `NoNoise` (what an empty noise map attaches) with the switch on -/
theorem noise_off_is_the_noiseless_run (ne np nc : Nat) (det : Bool) (ops : List COp) :
    compileStab false ne np nc det ops = compileStab true ne np nc det (ops.map strip) ∧
    compileDM false ne np nc det ops = compileDM true ne np nc det (ops.map strip) :=
  ⟨compileStab_off ne np nc det ops, compileDM_off ne np nc det ops⟩

/-- **noise of zero strength reproduces the noiseless state exactly — whole measurement-free circuits, every n**: if every
    attached noise is `DepolarizingNoise(0)`, `PhotonLoss(0)`, `PauliError("I")` or `NoNoise`, the density matrix equals, entry
    by entry, the density matrix of the circuit without noise, and the two mixtures of the stabilizer backend stand for the same
    state (`Σ w_k ρ(T_k)` equal) -/
theorem zero_strength_is_the_noiseless_state (ns : Bool) (ne np nc : Nat) (det : Bool) (ops : List COp)
    (hw : ∀ op ∈ ops, OpOK (ne + np) np op) (hz : ∀ op ∈ ops, ZeroNoise op) :
    (∀ (d d0 : DmSt) (ρ ρ0 : Mat), compileDM ns ne np nc det ops = .ok d → compileDM ns ne np nc det (ops.map strip) = .ok d0 →
      d.ρ = some ρ → d0.ρ = some ρ0 → Mat.EqOn ρ ρ0) ∧
    (∀ (s s0 : StabSt), compileStab ns ne np nc det ops = .ok s → compileStab ns ne np nc det (ops.map strip) = .ok s0 →
      mixRho (ne + np) s.mix = mixRho (ne + np) s0.mix) :=
  ⟨fun d d0 ρ ρ0 hd hd0 hρ hρ0 => dm_zero_strength ns ne np nc det ops hw hz d d0 ρ ρ0 hd hd0 hρ hρ0,
   fun s s0 hs hs0 => mix_zero_strength ns ne np nc det ops hw hz s s0 hs hs0⟩

/-- a zero-strength circuit: `H` with `DepolarizingNoise(0)`, CNOT with `PauliError("I")` and `PhotonLoss(0)` -/
def exZero : List COp :=
  [ { kind := .h, r1 := 0, t1 := .e, n0 := .depol 0 true },
    { kind := .cnot, r1 := 0, t1 := .e, r2 := 0, t2 := .p, n0 := .pauli .I false, n1 := .loss 0 true } ]

example : ∀ op ∈ exZero, OpOK (1 + 1) 1 op ∧ ZeroNoise op := by
  intro op h
  simp only [exZero, List.mem_cons, List.not_mem_nil, or_false] at h
  rcases h with rfl | rfl
  · exact ⟨⟨⟨by decide, fun h => by simp [Kind.isCtrlPair, Kind.isClassicalCtrl] at h, fun h => by simp [Kind.isCtrlPair] at h⟩,
      Or.inl rfl, ⟨by norm_num, by norm_num⟩, trivial⟩, by decide, by decide⟩
  · exact ⟨⟨⟨by decide, fun _ => by decide, fun _ => by decide⟩, Or.inr rfl, trivial, trivial⟩, by decide, by decide⟩

end clause_d_circuits

/-! ## Measurements after noise -/

/-- **the survival weight survives a measurement** (the defect "measurement after a photon loss renormalises the density
    matrix" is repaired: `apply_measurement` divides by the conditional probability): after `PhotonLoss(1/2)` on `|0⟩` and a Z
    measurement the density matrix has trace 1/2 and the mixture has weight 1/2 -/
theorem measurement_keeps_survival_weight :
    (match compileDM true 1 0 1 true
        [{ kind := .identity, n0 := .loss (1/2) true }, { kind := .measZ }] with
      | .ok { ρ := some ρ, .. } => ρ.trace == ⟨1/2, 0⟩
      | _ => false) = true ∧
    (match compileStab true 1 0 1 true
        [{ kind := .identity, n0 := .loss (1/2) true }, { kind := .measZ }] with
      | .ok s => Mix.total s.mix == 1/2
      | _ => false) = true := by decide +kernel

/-- with loss rate exactly 1 the measured density matrix is the zero matrix, not NaN -/
theorem measurement_after_total_loss_is_zero :
    (match compileDM true 1 0 1 true
        [{ kind := .identity, n0 := .loss 1 true }, { kind := .measZ }] with
      | .ok { ρ := some ρ, .. } => ρ.trace == ⟨0, 0⟩ && ρ.e 0 0 == ⟨0, 0⟩
      | _ => false) = true := by decide +kernel

/-! ### clause (c) with measurements (repaired joint `apply_measurement`) -/

section clause_c_measurements
open Graphiq.MixDM

/-- **clause (c) for circuits with measurements — no condition on the outcomes.**  `compileStab` models
    `StabilizerCompiler.compile` with the repaired `MixedStabilizer.apply_measurement` (joint measurement: one outcome for the
    whole mixture, chosen by the `isclose` rule on the summed branch probabilities; every branch projected on it; total weight
    kept).  Gates, CNOT / CZ with additive noise (depolarizing probabilities in `[0,1]`, loss rates `≤ 1`, Pauli errors, either
    placement), noiseless `MeasurementZ` / `ClassicalCNOT` / `ClassicalCZ` / `MeasurementCNOTandReset` (two distinct qubits), on
    existing qubits: whenever the stabilizer compile returns and the density-matrix compile returns a matrix (not the NaN of a
    zero conditional probability — impossible while `∏ (1 − loss_j) > 1e-8`, see the next theorem), that matrix is
    `Σ_k w_k ρ(T_k)` of the mixture, entry by entry, and both backends leave the same classical register.  Every number of qubits.
    (Before the repair this failed: `per_branch_measurement_differs`, finding F2.) -/
theorem dm_equals_mixture_with_measurements (ns : Bool) (ne np nc : Nat) (det : Bool) (ops : List COp)
    (hw : ∀ op ∈ ops, OpOKJ (ne + np) np op) (s : StabSt) (d : DmSt) (ρ : Mat)
    (hs : compileStab ns ne np nc det ops = .ok s) (hd : compileDM ns ne np nc det ops = .ok d) (hρ : d.ρ = some ρ) :
    Mat.EqOn ρ (mixtureDensity (ne + np) s.mix) ∧ d.creg = s.creg :=
  dm_equals_mixture_repaired ns ne np nc det ops hw s d ρ hs hd hρ

theorem opOKJ_to_OK3 {n np : Nat} {op : COp} (h : OpOKJ n np op) : OpOK3 n np op := by
  cases h with
  | unitary h l0 l1 => exact .unitary h l0 l1
  | meas hk hw _ h0 h1 => exact .meas hk hw h0 h1

/-- **… stated with its weight threshold**: same circuits with loss rates in `[0,1]`; if the survival probability
    `∏ (1 − loss_j)` of the placement trace exceeds `1e-8` (`np.isclose`'s absolute tolerance, below which `apply_measurement`
    of either backend may select an outcome of probability 0), then the density-matrix compile *does* return a matrix, and it is
    `Σ_k w_k ρ(T_k)` of the stabilizer compile's mixture, with equal classical registers -/
theorem dm_equals_mixture_with_measurements_above_the_tolerance (ns : Bool) (ne np nc : Nat) (det : Bool) (ops : List COp)
    (hw : ∀ op ∈ ops, OpOKJ (ne + np) np op) (hl : ∀ op ∈ ops, LossOK op.n0 ∧ LossOK op.n1)
    (tr : List Act) (htr : compileTrace ns .dm np ops = .ok tr) (hτ : tol < lossFactor tr) (s : StabSt) (d : DmSt)
    (hs : compileStab ns ne np nc det ops = .ok s) (hd : compileDM ns ne np nc det ops = .ok d) :
    ∃ ρ, d.ρ = some ρ ∧ Mat.EqOn ρ (mixtureDensity (ne + np) s.mix) ∧ d.creg = s.creg := by
  obtain ⟨ρ, hρ, _⟩ := compileDM_defined ns ne np nc det ops
    (fun op ho => ⟨opOKJ_to_OK3 (hw op ho), hl op ho⟩) tr htr hτ d hd
  exact ⟨ρ, hρ, dm_equals_mixture_repaired ns ne np nc det ops hw s d ρ hs hd hρ⟩

/-- … and then both backends give the same fidelity `tr(ρ ρ_T) = Σ_k w_k tr(ρ_{T_k} ρ_T)` with every stabilizer target `T` -/
theorem same_overlap_with_measurements (ns : Bool) (ne np nc : Nat) (det : Bool) (ops : List COp)
    (hw : ∀ op ∈ ops, OpOKJ (ne + np) np op) (s : StabSt) (d : DmSt) (ρ : Mat)
    (hs : compileStab ns ne np nc det ops = .ok s) (hd : compileDM ns ne np nc det ops = .ok d) (hρ : d.ρ = some ρ)
    (T : Tab) (hT : T.n = ne + np) :
    (ρ.mul (stabilizerDensity T)).trace = mixOverlapQ T s.mix := by
  have he := (dm_equals_mixture_repaired ns ne np nc det ops hw s d ρ hs hd hρ).1
  have hm : MixN (ne + np) s.mix :=
    fun x hx => (compileStab_ok ns ne np nc det ops (fun op ho => (hw op ho).wf) s hs x hx).1
  exact overlap_of_eqOn (ne + np) ρ s.mix hm he T hT

/-- **both compilers return on the whole measurement class** (runnable measurement-free operations and noiseless
    `MeasurementZ` / `ClassicalCNOT` / `ClassicalCZ` / `MeasurementCNOTandReset` on existing qubits): the hypotheses "the
    compile returns" of the theorems above are met by every such circuit, every n -/
theorem both_compilers_return_with_measurements (ns : Bool) (ne np nc : Nat) (det : Bool) (ops : List COp)
    (hw : ∀ op ∈ ops, OpRuns2 (ne + np) np op) :
    (∃ s, compileStab ns ne np nc det ops = .ok s) ∧ (∃ d, compileDM ns ne np nc det ops = .ok d) :=
  ⟨compileStab_runs2 ns ne np nc det ops hw, compileDM_runs2 ns ne np nc det ops hw⟩

/-- HISTORICAL (`Mix.measureOld`: `apply_measurement` of graphiq before the repair of F2).  One per-branch measurement, all
    branches random: the update is `2 Π_o R Π_o` of `R = Σ w_k ρ(T_k)`, and both outcomes have probability `(Σ w_k)/2` -/
theorem uniform_random_measurement (n q : Nat) (hq : q < n) (det : Bool) (m : Mixture) (hg : MixGood n m)
    (hu : Uniform q det true det m) :
    mixRho n (Mix.measureOld q det m).1 = (2 : ℂ) • (projZ n q det * mixRho n m * projZ n q det) ∧
    (∀ s, (mixRho n m * projZ n q s).trace = ((Mix.total m : ℚ) : ℂ) / 2) :=
  ⟨(measure_random n q hq det m hg hu).1, (measure_random n q hq det m hg hu).2.1⟩

/-- HISTORICAL (`Mix.measureOld`) … all branches deterministic with the same outcome `o`: the mixture does not change, `Π_o`
    fixes `R` — so before the repair the per-branch measurement was already right when the branches agreed -/
theorem uniform_deterministic_measurement (n q : Nat) (hq : q < n) (det o : Bool) (m : Mixture) (hg : MixGood n m)
    (hu : Uniform q det false o m) :
    mixRho n (Mix.measureOld q det m).1 = mixRho n m ∧ projZ n q o * mixRho n m * projZ n q o = mixRho n m ∧
    (mixRho n m * projZ n q o).trace = ((Mix.total m : ℚ) : ℂ) :=
  ⟨(measure_det n q hq det o m hg hu).1, (measure_det n q hq det o m hg hu).2.1, (measure_det n q hq det o m hg hu).2.2.1⟩

/-- the reset half of `MeasurementCNOTandReset`, Hilbert-space level: on a mixture whose branches are all fixed by `Π_o` (what the
    joint measurement with outcome `o` leaves) `reset_z(q, 0)` on every branch is `X_q R X_q` if `o = 1` and `R` if `o = 0` —
    and so is the Kraus pair `|0⟩⟨0|_q, |0⟩⟨1|_q` the density-matrix backend applies.  That the second measurement inside
    `reset_z` is deterministic with the same outcome follows from the fixed-point property (`det_of_fixed`). -/
theorem reset_on_fixed_mixture (n q : Nat) (hq : q < n) (det o : Bool) (m : Mixture) (hg : MixGood n m) (hf : Fixed n q o m) :
    mixRho n (Mix.mapTab (fun t => t.resetZ q false det) m) = resetH n q (mixRho n m) := by
  rw [mixRho_reset n q hq det o m hg hf, resetH_of_fixed n q hq o _ (fixed_mixRho n q o m hf)]

/-- non-vacuity: the noisy two-qubit circuit of `exCircuit` (depolarizing, Pauli error, photon loss), then
    `MeasurementCNOTandReset`, a noisy Hadamard, `MeasurementZ` of the emitter and a `ClassicalCNOT` onto the photon -/
def exMeasCircuit : List COp :=
  exCircuit ++ [ { kind := .mcr, r1 := 0, t1 := .e, r2 := 0, t2 := .p, c := 0 },
                 { kind := .h, r1 := 0, t1 := .e, n0 := .depol (1/2) false },
                 { kind := .measZ, r1 := 0, t1 := .e, c := 0 },
                 { kind := .ccnot, r1 := 0, t1 := .e, r2 := 0, t2 := .p, c := 0 } ]

example : ∀ op ∈ exMeasCircuit, OpOKJ (1 + 1) 1 op ∧ LossOK op.n0 ∧ LossOK op.n1 := by
  intro op h
  simp only [exMeasCircuit, exCircuit, List.cons_append, List.nil_append, List.mem_cons, List.not_mem_nil, or_false] at h
  rcases h with rfl | rfl | rfl | rfl | rfl | rfl
  · exact ⟨.unitary ⟨⟨by decide, fun h => by simp [Kind.isCtrlPair, Kind.isClassicalCtrl] at h,
      fun h => by simp [Kind.isCtrlPair] at h⟩, Or.inl rfl, ⟨by norm_num, by norm_num⟩, trivial⟩ ⟨by norm_num, by norm_num⟩ trivial,
      trivial, trivial⟩
  · exact ⟨.unitary ⟨⟨by decide, fun _ => by decide, fun _ => by decide⟩, Or.inr rfl, trivial, trivial⟩ trivial
      (by show (1/4 : Rat) ≤ 1; norm_num), trivial, by show (0 : Rat) ≤ 1/4 ∧ (1/4 : Rat) ≤ 1; constructor <;> norm_num⟩
  · exact ⟨.meas (Or.inr (Or.inr (Or.inr rfl))) ⟨by decide, fun _ => by decide, fun h => by simp [Kind.isCtrlPair] at h⟩
      (fun _ => by decide) rfl rfl, trivial, trivial⟩
  · exact ⟨.unitary ⟨⟨by decide, fun h => by simp [Kind.isCtrlPair, Kind.isClassicalCtrl] at h,
      fun h => by simp [Kind.isCtrlPair] at h⟩, Or.inl rfl, ⟨by norm_num, by norm_num⟩, trivial⟩ ⟨by norm_num, by norm_num⟩ trivial,
      trivial, trivial⟩
  · exact ⟨.meas (Or.inl rfl) ⟨by decide, fun h => by simp [Kind.isCtrlPair, Kind.isClassicalCtrl] at h,
      fun h => by simp [Kind.isCtrlPair] at h⟩ (fun h => by cases h) rfl rfl, trivial, trivial⟩
  · exact ⟨.meas (Or.inr (Or.inl rfl)) ⟨by decide, fun _ => by decide, fun h => by simp [Kind.isCtrlPair] at h⟩
      (fun h => by cases h) rfl rfl, trivial, trivial⟩

example : ∀ op ∈ exMeasCircuit, OpRuns2 (1 + 1) 1 op := by
  intro op h
  simp only [exMeasCircuit, exCircuit, List.cons_append, List.nil_append, List.mem_cons, List.not_mem_nil, or_false] at h
  rcases h with rfl | rfl | rfl | rfl | rfl | rfl
  · exact .unitary ⟨⟨⟨by decide, fun h => by simp [Kind.isCtrlPair, Kind.isClassicalCtrl] at h,
      fun h => by simp [Kind.isCtrlPair] at h⟩, Or.inl rfl, ⟨by norm_num, by norm_num⟩, trivial⟩, by simp, rfl, fun _ => rfl,
      trivial, fun _ => trivial⟩
  · exact .unitary ⟨⟨⟨by decide, fun _ => by decide, fun _ => by decide⟩, Or.inr rfl, trivial, trivial⟩, by simp, rfl,
      fun _ => rfl, trivial, fun _ => trivial⟩
  · exact .meas (Or.inr (Or.inr (Or.inr rfl))) ⟨by decide, fun _ => by decide, fun h => by simp [Kind.isCtrlPair] at h⟩ rfl rfl
  · exact .unitary ⟨⟨⟨by decide, fun h => by simp [Kind.isCtrlPair, Kind.isClassicalCtrl] at h,
      fun h => by simp [Kind.isCtrlPair] at h⟩, Or.inl rfl, ⟨by norm_num, by norm_num⟩, trivial⟩, by simp, rfl, fun _ => rfl,
      trivial, fun _ => trivial⟩
  · exact .meas (Or.inl rfl) ⟨by decide, fun h => by simp [Kind.isCtrlPair, Kind.isClassicalCtrl] at h,
      fun h => by simp [Kind.isCtrlPair] at h⟩ rfl rfl
  · exact .meas (Or.inr (Or.inl rfl)) ⟨by decide, fun _ => by decide, fun h => by simp [Kind.isCtrlPair] at h⟩ rfl rfl

/-- on it both compilers return, the weight is `3/4` (the measurements happen after a photon loss), and — as the theorem says —
    the matrices agree -/
example :
    (match compileDM true 1 1 1 true exMeasCircuit, compileStab true 1 1 1 true exMeasCircuit with
      | .ok { ρ := some ρ, .. }, .ok s => Mix.total s.mix == 3/4 && Mat.beq ρ (mixtureDensity 2 s.mix)
      | _, _ => false) = true := by decide +kernel

/-- the analysis flag `nonUniform` (branches disagree at a measurement) is on for the witness of finding F2 (`X` with depolarizing
    noise, then a Z measurement): the input class on which graphiq before the repair (`compileStabOld`) went wrong -/
theorem per_branch_measurement_is_flagged :
    (match compileStabOld true 1 0 1 true [{ kind := .x, n0 := .depol (1/3) true }, { kind := .measZ }] with
      | .ok s => s.nonUniform
      | _ => false) = true := by decide +kernel

/-! ### the density matrix stays physical through *any* measurement -/

open scoped ComplexOrder in
/-- **the density-matrix result is positive semidefinite and has trace `∏ (1 − loss_j)` — circuits with measurements, no
    condition on the outcomes.**  One-qubit gates, CNOT / CZ with additive noise (depolarizing probabilities in `[0,1]`, loss
    rates `≤ 1`, Pauli errors, either placement), noiseless `MeasurementZ` / `ClassicalCNOT` / `ClassicalCZ` /
    `MeasurementCNOTandReset`, on existing qubits: whenever `DensityMatrixCompiler.compile` returns a matrix (not the NaN it
    produces when it divides by a zero conditional probability), that matrix has size `2^n`, is positive semidefinite, and its
    trace is *exactly* the product of the photon survival probabilities — `apply_measurement` divides by the conditional
    probability, so a measurement after a photon loss keeps the weight (defect F1, repaired; here for every circuit and n). -/
theorem dm_is_physical_with_measurements (ns : Bool) (ne np nc : Nat) (det : Bool) (ops : List COp)
    (hw : ∀ op ∈ ops, OpOK3 (ne + np) np op) (d : DmSt) (h : compileDM ns ne np nc det ops = .ok d) :
    ∃ tr, compileTrace ns .dm np ops = .ok tr ∧
      ∀ ρ, d.ρ = some ρ → ρ.n = 2 ^ (ne + np) ∧ (toC (ne + np) ρ).PosSemidef ∧ ρ.trace = ⟨lossFactor tr, 0⟩ := by
  obtain ⟨tr, htr, g⟩ := compileDM_phys ns ne np nc det ops hw d h
  exact ⟨tr, htr, fun ρ hρ => ⟨(g ρ hρ).size, (g ρ hρ).psd, (g ρ hρ).trace_exact⟩⟩

open scoped ComplexOrder in
/-- **no NaN while the survival probability exceeds `1e-8`** (`np.isclose`'s tolerance): same circuits with loss rates in
    `[0,1]`, measurements with arbitrary outcomes; if `∏ (1 − loss_j) > 1e-8` the density-matrix compile returns a matrix — the
    outcome rule of `apply_measurement` never selects an outcome of probability 0 — and that matrix is physical -/
theorem dm_is_defined_above_the_tolerance (ns : Bool) (ne np nc : Nat) (det : Bool) (ops : List COp)
    (hw : ∀ op ∈ ops, OpOK4 (ne + np) np op) (tr : List Act) (htr : compileTrace ns .dm np ops = .ok tr)
    (hτ : tol < lossFactor tr) (d : DmSt) (h : compileDM ns ne np nc det ops = .ok d) :
    ∃ ρ, d.ρ = some ρ ∧ (toC (ne + np) ρ).PosSemidef ∧ ρ.trace = ⟨lossFactor tr, 0⟩ := by
  obtain ⟨ρ, hρ, g⟩ := compileDM_defined ns ne np nc det ops hw tr htr hτ d h
  exact ⟨ρ, hρ, g.psd, g.trace_exact⟩

/-- it applies to the witness circuit of finding F2 (non-uniform branches): there the two backends differ, but each is physical -/
example : ∀ op ∈ ([{ kind := .x, n0 := .depol (1/3) true }, { kind := .measZ }] : List COp), OpOK3 (1 + 0) 0 op := by
  intro op h
  simp only [List.mem_cons, List.not_mem_nil, or_false] at h
  rcases h with rfl | rfl
  · exact .unitary ⟨⟨by decide, fun h => by simp [Kind.isCtrlPair, Kind.isClassicalCtrl] at h,
      fun h => by simp [Kind.isCtrlPair] at h⟩, Or.inl rfl, ⟨by norm_num, by norm_num⟩, trivial⟩ ⟨by norm_num, by norm_num⟩ trivial
  · exact .meas (Or.inl rfl) ⟨by decide, fun h => by simp [Kind.isCtrlPair, Kind.isClassicalCtrl] at h,
      fun h => by simp [Kind.isCtrlPair] at h⟩ rfl rfl

end clause_c_measurements

/-! ### finding F2 (repaired): the per-branch measurement of graphiq before the repair — HISTORICAL, `…Old` -/

/-- BEFORE the repair of F2 (`compileStabOld` = the compile with `Mix.measureOld`, graphiq before the `fix:` commit that
    introduces the joint measurement): the mixture measured branch by branch — `X` with depolarizing noise then a Z measurement
    (forced outcome 1) left the mixture with overlap `7/9` with `|1⟩`, the density matrix (post-selected on outcome 1) with
    overlap 1 -/
theorem per_branch_measurement_differs :
    (match compileDM true 1 0 1 true [{ kind := .x, n0 := .depol (1/3) true }, { kind := .measZ }],
           compileStabOld true 1 0 1 true [{ kind := .x, n0 := .depol (1/3) true }, { kind := .measZ }] with
      | .ok { ρ := some ρ, .. }, .ok s => ρ.e 1 1 == ⟨1, 0⟩ && (mixtureDensity 1 s.mix).e 1 1 == ⟨7/9, 0⟩
      | _, _ => false) = true := by decide +kernel

/-- BEFORE the repair: **what the per-branch measurement (`Mix.measureOld`) did to the state, any mixture, every n** (the exact
    shape of F2): with `R_rand` / `R_det` the parts of `Σ_k w_k ρ(T_k)` carried by the branches whose outcome is random /
    deterministic, `Σ (measureOld q o m) = 2·Π_o R_rand Π_o + R_det` — the random branches were post-selected on the forced
    outcome, the deterministic ones kept whatever their outcome (a non-selective measurement), whereas the density-matrix backend
    post-selects everything on one outcome.  The two coincided when the branches agreed (`uniform_*_measurement`). -/
theorem per_branch_measurement_semantics (n q : Nat) (hq : q < n) (o : Bool) (m : Mixture) (hg : Graphiq.MixDM.MixGood n m) :
    Graphiq.MixDM.mixRho n (Mix.measureOld q o m).1
      = (2 : ℂ) • (Graphiq.MixDM.projZ n q o * Graphiq.MixDM.mixRho n (Graphiq.MixDM.randomPart q m) * Graphiq.MixDM.projZ n q o)
        + Graphiq.MixDM.mixRho n (Graphiq.MixDM.detPart q m) :=
  Graphiq.MixDM.per_branch_measure_spec n q hq o m hg

/-! ### the repaired (joint) measurement, one step -/

section f2_repair
open Graphiq.MixDM

/-- **the candidate lists of the joint measurement project the state of the mixture**, for every mixture of valid tableaux —
    no agreement between the branches needed — and every n: with one outcome `o` for the whole mixture, branch `k` kept with
    weight `w_k·P_k(o)` (`P_k(o) ∈ {0, ½, 1}` read off the tableau) and measured with forced outcome `o`,
    `Σ cand[o] = Π_o (Σ m) Π_o` and `weight[o] = tr((Σ m) Π_o)`. -/
theorem joint_measurement_projects (n q : Nat) (hq : q < n) (o : Bool) (m : Mixture) (hg : MixGood n m) :
    mixRho n (Mix.measureJoint q o m) = projZ n q o * mixRho n m * projZ n q o ∧
    ((Mix.total (Mix.measureJoint q o m) : ℚ) : ℂ) = (mixRho n m * projZ n q o).trace :=
  ⟨(measureJoint_spec n q hq o m hg).1, (measureJoint_spec n q hq o m hg).2.1⟩

/-- **`MixedStabilizer.apply_measurement` (repaired) agrees with the density-matrix backend on every mixture** (valid branches,
    weights ≥ 0; no agreement between the branches, no weight threshold): whenever `DensityMatrix.apply_measurement` returns a
    matrix, it reports the outcome `Mix.measure` reports (same `isclose` rule on the summed branch probabilities) and the matrix
    is `Σ_k w_k ρ(T_k)` of the mixture `Mix.measure` returns. -/
theorem joint_measurement_agrees_with_density_matrix (n q : Nat) (hq : q < n) (det : Bool) (m : Mixture) (ρ p0 p1 : Mat)
    (hg : MixGood n m) (hnn : MixNonneg m) (hρn : ρ.n = 2 ^ n) (hρ : toC n ρ = mixRho n m)
    (hp : projectorsZ n q = .ok (p0, p1)) (ρ' : Mat) (o : Bool) (h : applyMeasurement ρ p0 p1 det = .ok (some ρ', o)) :
    (Mix.measure q det m).2 = List.replicate (Mix.measure q det m).1.length o ∧
      toC n ρ' = mixRho n (Mix.measure q det m).1 ∧ ρ'.n = 2 ^ n := by
  obtain ⟨h1, h2, h3, _⟩ := joint_measurement_is_dm_measurement n q hq det m ρ p0 p1 hg hnn hρn hρ hp ρ' o h
  exact ⟨by rw [measure_outcomes, h1], h2, h3⟩

/-- the repaired measurement keeps the total weight (or zeroes every weight when the selected outcome carries none) -/
theorem joint_measurement_keeps_weight (q : Nat) (det : Bool) (m : Mixture) :
    Mix.total (Mix.measure q det m).1 = Mix.total m ∨ Mix.total (Mix.measure q det m).1 = 0 := Mix.total_measure q det m

/-- on the F2 witness (`X` with depolarizing noise, then a Z measurement forced to 1) the repaired compile reports outcome 1,
    agrees with the density matrix, and leaves overlap 1 with `|1⟩` (before the repair: `7/9`) -/
theorem joint_measurement_on_the_F2_witness :
    (match compileDM true 1 0 1 true [{ kind := .x, n0 := .depol (1/3) true }, { kind := .measZ }],
           compileStab true 1 0 1 true [{ kind := .x, n0 := .depol (1/3) true }, { kind := .measZ }] with
      | .ok { ρ := some ρ, creg := cd }, .ok s =>
          Mat.beq ρ (mixtureDensity 1 s.mix) && (mixtureDensity 1 s.mix).e 1 1 == (⟨1, 0⟩ : GQ) && s.creg == [1] && cd == [1]
      | _, _ => false) = true := by decide +kernel

/-- the F2 witness circuit lies in the class of `dm_equals_mixture_with_measurements` -/
example : ∀ op ∈ ([{ kind := .x, n0 := .depol (1/3) true }, { kind := .measZ }] : List COp), OpOKJ (1 + 0) 0 op := by
  intro op h
  simp only [List.mem_cons, List.not_mem_nil, or_false] at h
  rcases h with rfl | rfl
  · exact .unitary ⟨⟨by decide, fun h => by simp [Kind.isCtrlPair, Kind.isClassicalCtrl] at h,
      fun h => by simp [Kind.isCtrlPair] at h⟩, Or.inl rfl, ⟨by norm_num, by norm_num⟩, trivial⟩ ⟨by norm_num, by norm_num⟩ trivial
  · exact .meas (Or.inl rfl) ⟨by decide, fun h => by simp [Kind.isCtrlPair, Kind.isClassicalCtrl] at h,
      fun h => by simp [Kind.isCtrlPair] at h⟩ (fun h => by cases h) rfl rfl

end f2_repair

/-! ## Non-vacuity -/

/-- CNOT(e0 → p0) with depolarizing noise *before* on the control and a Pauli error *after* on the target -/
def exOp : COp := { kind := .cnot, r1 := 0, t1 := .e, r2 := 0, t2 := .p, n0 := .depol (1/3) false, n1 := .pauli .X true }

example : Supported exOp := ⟨Or.inr rfl, rfl, fun _ => rfl⟩
example : OpWF 2 1 exOp := ⟨by decide, fun _ => by decide, fun _ => by decide⟩
example : placeOp true .stab 1 exOp 7 =
    .ok [Act.noise 7 0 1 (.depol (1/3) false), Act.gate 7, Act.noise 7 1 0 (.pauli .X true)] := by decide +kernel

end Graphiq.C06
