/-
  C20 — the single-qubit Clifford library is complete, closed and consistently ordered.

  The gate lists and elementary matrices are regenerated from `graphiq/circuit/ops.py` on every run
  (`Generated/CliffTables.lean`); the first two theorems tie the model to them by kernel evaluation, so every statement
  below is about what the source says today.  Matrices are exact Gaussian-integer matrices (Hadamard times √2); equality
  "up to global phase" is equality up to a scalar (`M2.peq`).
-/
import GraphiqModel.Proofs.Clifford1
import GraphiqModel.Proofs.Pauli
import GraphiqModel.Generated.CliffTables
namespace Graphiq.C20
open Graphiq Graphiq.Cliff

/-- the lists of `local_clifford_composition()` in the source are the model's -/
theorem lists_agree_with_source : Repo.compA = compA ∧ Repo.compB = compB := by decide

/-- the matrices of `local_clifford_to_matrix_map` in the source are the model's (exactly; Hadamard scaled by √2) -/
theorem matrices_agree_with_source :
    Repo.mats.map (·.1) = Gen.all ∧ Repo.mats.all (fun gm => gm.2 == gmat gm.1) = true := by decide

/-- exactly 24 members -/
theorem count_24 : all24.length = 24 := by decide

/-- pairwise inequivalent up to global phase -/
theorem pairwise_inequivalent :
    (List.range 24).all (fun i => (List.range 24).all fun j =>
      i == j || !((prodW all24[i]!).peq (prodW all24[j]!))) = true := by decide +kernel

/-- closed under multiplication: the product of any two members is, up to global phase, a member -/
theorem closed_under_multiplication :
    all24.all (fun g => all24.all fun h => (find ((prodW g).mul (prodW h))).isSome) = true := by decide +kernel

/-- **every word** over {I,H,P,X,Y,Z} simplifies to a member whose unitary equals the product of the word up to global phase
    (induction over the word with the kernel-checked 24×6 step table) -/
theorem simplify_total_and_correct (w : List Gen) :
    ∃ m, simplify w = some m ∧ m ∈ all24 ∧ (prodW m).peq (prodW w) = true := simplify_correct w

/-- a (scaled-)unitary that is not a Clifford is rejected: `(3 + 4i·X)` is 5 × a unitary and matches no member -/
theorem non_clifford_rejected : find ⟨⟨3, 0⟩, ⟨0, 4⟩, ⟨0, 4⟩, ⟨3, 0⟩⟩ = none := by decide

/-- a gate list denotes the matrix product in list order: appending a gate multiplies on the right, i.e. the last listed gate
    acts first on a state vector -/
theorem wrapper_denotes_product (w : List Gen) (g : Gen) : prodW (w ++ [g]) = (prodW w).mul (gmat g) := by
  simp [prodW, List.foldl_append]

/-! ### the stabilizer backend applies the same unitaries: one-qubit bridge between matrices and signed Pauli rows -/

def dag (m : M2) : M2 := ⟨⟨m.a.re, -m.a.im⟩, ⟨m.c.re, -m.c.im⟩, ⟨m.b.re, -m.b.im⟩, ⟨m.d.re, -m.d.im⟩⟩

/-- matrix of the one-qubit signed row `(-1)^r σ(x,z)` with σ(1,1) = Y -/
def pauliMat (x z r : Bool) : M2 :=
  let base : M2 := match x, z with
    | false, false => ⟨1, 0, 0, 1⟩
    | true, false => gmat .X
    | true, true => gmat .Y
    | false, true => gmat .Z
  if r then M2.smul ⟨-1, 0⟩ base else base

/-- row map of each generator on qubit 0, as executed by transformation.py -/
def rowAct : Gen → PRow → PRow
  | .I => id | .H => PRow.h 0 | .P => PRow.s 0 | .X => PRow.xg 0 | .Y => PRow.yg 0 | .Z => PRow.zg 0

def row1 (x z r : Bool) : PRow := ⟨fun _ => x, fun _ => z, r, false⟩

/-- **bridge (kernel, all 6 gates × all 8 signed one-qubit Paulis)**: conjugating the Pauli matrix by the gate's matrix gives
    the matrix of the row the stabilizer backend computes, sign included (`U σ U† = |scale|² · σ'`) -/
theorem rows_match_matrices :
    Gen.all.all (fun g => [false, true].all fun x => [false, true].all fun z => [false, true].all fun r =>
      let p' := rowAct g (row1 x z r)
      ((gmat g).mul (pauliMat x z r)).mul (dag (gmat g))
        == M2.smul (if g == .H then ⟨2, 0⟩ else ⟨1, 0⟩) (pauliMat (p'.x 0) (p'.z 0) p'.r)) = true := by decide

/-! ### Non-vacuity -/
example : simplify [.H, .P, .H, .X] = some [.P, .H, .P, .I] := by decide
example : simplify [.Z, .P] = some [.P, .Z] := by decide

end Graphiq.C20
