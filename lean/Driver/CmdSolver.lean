/-
  CmdSolver.lean — driver command for the time-reversed solver model.
-/
import GraphiqModel.Model.Solver
import Driver.Proto
import Driver.CmdStab
namespace Graphiq.CmdSolver
open Graphiq Graphiq.Proto Graphiq.Solver

def regName (np q : Nat) : String := if q < np then s!"p{q}" else s!"e{q - np}"

def tok (np : Nat) : SOp → String
  | .wrap gs q => s!"W:{String.intercalate "." (gs.map Cliff.Gen.name)}:{regName np q}"
  | .emit e p => s!"CX:e{e}:p{p}"
  | .cnotEE c t => s!"CX:e{c}:e{t}"
  | .mcr e p => s!"MCR:e{e}:p{p}:c0"

/-- solver.trs n= x= z= r=  (target stabilizer tableau) -/
def trs (a : Args) : String :=
  match solve (CmdStab.stabOf a) with
  | .error e => s!"err {e}"
  | .ok s =>
    let toks := s.circ.map (tok s.np)
    s!"ok ne={s.ne} np={s.np} ops={if toks.isEmpty then "-" else String.intercalate "," toks}"

def dispatch (cmd : String) (a : Args) : Option String :=
  match cmd with
  | "solver.trs" => some (trs a)
  | _ => none

end Graphiq.CmdSolver
