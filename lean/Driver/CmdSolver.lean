/-
  CmdSolver.lean — driver command for the time-reversed solver model.
-/
import GraphiqModel.Model.Solver
import GraphiqModel.Model.Check
import Driver.Proto
import Driver.CmdStab
namespace Graphiq.CmdSolver
open Graphiq Graphiq.Proto Graphiq.Solver

def regName (q : QReg) : String := match q.ty with | .p => s!"p{q.idx}" | .e => s!"e{q.idx}"

/-- token of a circuit operation in the syntax `circ.check` / `circ.stab` read (only the kinds the solver emits) -/
def tokC : COp → String
  | .wrap gs q => s!"W:{String.intercalate "." (gs.map Cliff.Gen.name)}:{regName q}"
  | .cnot c t => s!"CX:{regName c}:{regName t}"
  | .mcr c t r => s!"MCR:{regName c}:{regName t}:c{r}"
  | _ => "?"

/-! ### branch tags of a run (driver-side instrumentation; the model functions themselves are called unchanged)

  For the evidence and for the model-guided choice of targets in `harness/c02.py`: which SHAPE and SIGN the generators have on which the
  two sign-sensitive steps of the solver act — the emitter-only generator of a time-reversed measurement (`trm:`) and the generator of a
  photon absorption (`abs:`).  Shape: `Z1` one emitter, Pauli Z already; `P1` one emitter, X or Y; `Zk` / `Pk` several emitters
  (all Z / some X or Y); for absorptions the photon's Pauli (`x`, `y`, `z`) comes first.  Sign: `-` iff the sign repair (an X on the
  emitter) fires, i.e. the sign bit of the generator is set when `tableau.phase[generator] == 1` is tested. -/

def emitterShape (s : St) (g : Nat) : String :=
  let sup := (List.range s.ne).filter fun e => (s.t.row g).x (s.np + e) || (s.t.row g).z (s.np + e)
  let xfree := (List.range s.ne).all fun e => !(s.t.row g).x (s.np + e)
  (if xfree then "Z" else "P") ++ (if sup.length ≤ 1 then "1" else "k")

/-- tag of `_time_reversed_measurement` on `s` (the tableau is already in echelon gauge) -/
def trmTag (s : St) : Option String :=
  let cands := (List.range s.t.n).filter fun i => (List.range s.np).all fun j => !(s.t.row i).x j && !(s.t.row i).z j
  match cands with
  | [] => none
  | g :: _ =>
    match emitterIndices s g with
    | [] => none
    | e :: _ =>
      match allEmittersToZ s g true with
      | .error _ => none
      | .ok s1 =>
        match transformGeneratorEmitters s1 g e with
        | .error _ => none
        | .ok s2 => some s!"trm:{emitterShape s g}:{if (s2.t.row g).r then "-" else "+"}"

/-- tag of `_add_photon_absorption(photon)` on `s` -/
def absTag (s : St) (photon : Nat) : Option String :=
  match ((List.range s.t.n).reverse.filter fun i => s.t.leftmost i == some photon).head? with
  | none => none
  | some g =>
    let pt := match s.t.ptype g photon with | 1 => "x" | 2 => "y" | _ => "z"
    let (s0, gl) := changeToZ s g photon
    match addOneQubit s0 gl photon with
    | .error _ => none
    | .ok s1 =>
      match emitterIndices s1 g with
      | [] => none
      | e :: _ =>
        match allEmittersToZ s1 g false with
        | .error _ => none
        | .ok s2 =>
          match transformGeneratorEmitters s2 g e with
          | .error _ => none
          | .ok s3 => some s!"abs:{pt}{emitterShape s g}:{if (s3.t.row g).r then "-" else "+"}"

/-- replay of the photon loop with the model's own functions, collecting the tags -/
def tagsLoop : St → List Nat → List String → List String
  | _, [], acc => acc
  | s, j :: rest, acc =>
    match s.t.rref with
    | .error _ => acc
    | .ok (t1, _) =>
      match t1.heightFuncList with
      | .error _ => acc
      | .ok hl =>
        let hl0 : List Int := 0 :: hl
        let s1 : St := { s with t := t1 }
        let cond := hl0.getD j 0 < hl0.getD (j - 1) 0
        let acc1 := if cond then acc ++ (trmTag s1).toList else acc
        let s3? : Option St :=
          if cond then
            match timeReversedMeasurement s1 (j - 1) with
            | .error _ => none
            | .ok s2 =>
              match s2.t.rref with
              | .error _ => none
              | .ok (t2, _) => some { s2 with t := t2 }
          else some s1
        match s3? with
        | none => acc1
        | some s3 =>
          let acc2 := acc1 ++ (absTag s3 (j - 1)).toList
          match addPhotonAbsorption s3 (j - 1) with
          | .error _ => acc2
          | .ok s4 => tagsLoop s4 rest acc2

def runTags (target : STab) : List String :=
  match determineNEmitters target with
  | .error _ => []
  | .ok ne =>
    let np := target.n
    let t0 := (List.range ne).foldl (fun (acc : STab) _ => (acc.insertQubit acc.n).norm) target
    tagsLoop { np := np, ne := ne, t := t0, circ := [] } ((List.range np).reverse.map (· + 1)) []

/-- solver.tags n= x= z= r=: the branch tags only (cheap pre-selection of targets) -/
def tags (a : Args) : String :=
  let ts := runTags (CmdStab.stabOf a)
  s!"ok tags={if ts.isEmpty then "-" else String.intercalate "|" ts}"

/-- solver.trs n= x= z= r=  (target stabilizer tableau); `zero` = the final working tableau generates the group of |0…0⟩, the hypothesis `hfinal` of
    `C02.solve_sound`, evaluated on every input -/
def trs (a : Args) : String :=
  match solve (CmdStab.stabOf a) with
  | .error e => s!"err {e}"
  | .ok s =>
    let toks := s.cops.map tokC
    let ts := runTags (CmdStab.stabOf a)
    s!"ok ne={s.ne} np={s.np} zero={b01 (s.t.sameGroup (STab.zero (s.np + s.ne)))} tags={if ts.isEmpty then "-" else String.intercalate "|" ts} ops={if toks.isEmpty then "-" else String.intercalate "," toks}"

/-! ### the two tableau-rewriting helpers of the solver on an arbitrary working tableau (helper-level correspondence)

  `solver.trm` / `solver.absorb np= ne= photon= n= x= z= r=`: run the model's `_time_reversed_measurement` / `_add_photon_absorption` on the
  working tableau (n = np + ne qubits, empty circuit) and print the new tableau and the operations recorded (time order). -/

def stOf (a : Args) : St := { np := getNat a "np", ne := getNat a "ne", t := CmdStab.stabOf a, circ := [] }

def showSt (s : St) : String :=
  let toks := s.cops.map tokC
  s!"{CmdStab.showStab s.t} ops={if toks.isEmpty then "-" else String.intercalate "," toks}"

def helperTrm (a : Args) : String :=
  match timeReversedMeasurement (stOf a) (getNat a "photon") with
  | .error e => s!"err {e}"
  | .ok s => s!"ok {showSt s}"

def helperAbsorb (a : Args) : String :=
  match addPhotonAbsorption (stOf a) (getNat a "photon") with
  | .error e => s!"err {e}"
  | .ok s => s!"ok {showSt s}"

def dispatch (cmd : String) (a : Args) : Option String :=
  match cmd with
  | "solver.trs" => some (trs a)
  | "solver.tags" => some (tags a)
  | "solver.trm" => some (helperTrm a)
  | "solver.absorb" => some (helperAbsorb a)
  | _ => none

end Graphiq.CmdSolver
