/-
  CmdSolver.lean — driver command for the time-reversed solver model.
-/
import GraphiqModel.Model.Solver
import GraphiqModel.Model.Check
import Driver.Proto
import Driver.CmdStab
namespace Graphiq.CmdSolver
open Graphiq Graphiq.Proto Graphiq.Solver

def regName (q : QReg) : String := match q.ty with | .p => s!"p{q.idx}" | .e => s!"e{q.idx}"

/-- token of a circuit operation in the syntax `circ.check` / `circ.stab` read (only the kinds the solver emits) -/
def tokC : COp → String
  | .wrap gs q => s!"W:{String.intercalate "." (gs.map Cliff.Gen.name)}:{regName q}"
  | .cnot c t => s!"CX:{regName c}:{regName t}"
  | .mcr c t r => s!"MCR:{regName c}:{regName t}:c{r}"
  | _ => "?"

/-- solver.trs n= x= z= r=  (target stabilizer tableau); `zero` = the final working tableau generates the group of |0…0⟩, the hypothesis `hfinal` of
    `C02.solve_sound`, evaluated on every input -/
def trs (a : Args) : String :=
  match solve (CmdStab.stabOf a) with
  | .error e => s!"err {e}"
  | .ok s =>
    let toks := s.cops.map tokC
    s!"ok ne={s.ne} np={s.np} zero={b01 (s.t.sameGroup (STab.zero (s.np + s.ne)))} ops={if toks.isEmpty then "-" else String.intercalate "," toks}"

def dispatch (cmd : String) (a : Args) : Option String :=
  match cmd with
  | "solver.trs" => some (trs a)
  | _ => none

end Graphiq.CmdSolver
