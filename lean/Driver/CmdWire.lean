/-
  CmdWire.lean — driver commands for the wire-level circuit model (C04, C13).

  circuit encoding (all in one line):
    ne=<n> np=<n> nc=<n> nid=<n> nodes=<id>:<kind>:<gates>:<qregs>:<cregs>:<fixed>;…  wires=<reg>:<id>.<id>…;…
    kind  ∈ W (wrapper; gates = class list, '.'-separated) | G (base gate; gates = one class) | MZ | CNOT | CZ | CCNOT | CCZ | MCR
    gates ∈ I H P Pdg X Y Z ;  regs like e0 p3 c0 ;  '-' = empty list
  edges  <reg>@<pos> ; pairs <edge>+<edge>
-/
import GraphiqModel.Model.EvoMoves
import Driver.Proto
namespace Graphiq.CmdWire
open Graphiq Graphiq.Proto Graphiq.Wire

/-! ### parsing -/

def parseG1 : String → Option G1
  | "I" => some .I | "H" => some .H | "P" => some .P | "Pdg" => some .Pdg
  | "X" => some .X | "Y" => some .Y | "Z" => some .Z
  | _ => none

def showG1 : G1 → String
  | .I => "I" | .H => "H" | .P => "P" | .Pdg => "Pdg" | .X => "X" | .Y => "Y" | .Z => "Z"

def parseReg (s : String) : Option Reg :=
  match s.toList with
  | 'e' :: rest => (String.ofList rest).toNat?.map (Reg.mk .e)
  | 'p' :: rest => (String.ofList rest).toNat?.map (Reg.mk .p)
  | 'c' :: rest => (String.ofList rest).toNat?.map (Reg.mk .c)
  | _ => none

def showReg (r : Reg) : String :=
  (match r.ty with | .e => "e" | .p => "p" | .c => "c") ++ toString r.idx

def dotList (s : String) : List String := if s = "" ∨ s = "-" then [] else splitChar '.' s

def parseKind (k gates : String) : Option Kind :=
  match k with
  | "W" => some (.wrapper ((dotList gates).filterMap parseG1))
  | "G" => (parseG1 gates).map Kind.base
  | "MZ" => some .measZ | "CNOT" => some .cnot | "CZ" => some .cz
  | "CCNOT" => some .ccnot | "CCZ" => some .ccz | "MCR" => some .mcr
  | _ => none

def showKind : Kind → String × String
  | .wrapper gs => ("W", if gs.isEmpty then "-" else String.intercalate "." (gs.map showG1))
  | .base g => ("G", showG1 g)
  | .measZ => ("MZ", "-") | .cnot => ("CNOT", "-") | .cz => ("CZ", "-")
  | .ccnot => ("CCNOT", "-") | .ccz => ("CCZ", "-") | .mcr => ("MCR", "-")

def parseOpFields (kind gates q cr fixed : String) : Option Op := do
  let k ← parseKind kind gates
  pure ⟨k, (dotList q).filterMap parseReg, (dotList cr).filterMap String.toNat?, fixed = "1"⟩

/-- `<kind>:<gates>:<q>:<c>:<fixed>` -/
def parseOp (s : String) : Option Op :=
  match splitChar ':' s with
  | [kind, gates, q, cr, fixed] => parseOpFields kind gates q cr fixed
  | _ => none

def parseNode (s : String) : Option (Nat × Op) :=
  match splitChar ':' s with
  | [id, kind, gates, q, cr, fixed] => do
    let n ← id.toNat?
    let op ← parseOpFields kind gates q cr fixed
    pure (n, op)
  | _ => none

def semiList (s : String) : List String := if s = "" ∨ s = "-" then [] else splitChar ';' s

structure WireTab where
  e : Array (List Nat)
  p : Array (List Nat)
  c : Array (List Nat)

def WireTab.get (w : WireTab) (r : Reg) : List Nat :=
  match r.ty with
  | .e => w.e.getD r.idx []
  | .p => w.p.getD r.idx []
  | .c => w.c.getD r.idx []

def lookupNode (a : Array (Option Op)) (n : Nat) : Option Op := a.getD n none

/-- tabulate a circuit (closure depth 1; see the execution pitfall in CONTRIBUTING) -/
def norm (c : Circuit) : Circuit :=
  let nodes : Array (Option Op) := Array.ofFn (n := c.nid + 1) fun i => c.node i.val
  let w : WireTab := ⟨Array.ofFn (n := c.ne) fun i => c.wire ⟨.e, i.val⟩,
                      Array.ofFn (n := c.np) fun i => c.wire ⟨.p, i.val⟩,
                      Array.ofFn (n := c.nc) fun i => c.wire ⟨.c, i.val⟩⟩
  { c with node := lookupNode nodes, wire := w.get }

def circuitOf (a : Args) : Option Circuit := do
  let ne := getNat a "ne"
  let np := getNat a "np"
  let nc := getNat a "nc"
  let nid := getNat a "nid"
  let nodes ← (semiList (get a "nodes")).mapM parseNode
  let wires ← (semiList (get a "wires")).mapM fun s =>
    match splitChar ':' s with
    | [r, ids] => (parseReg r).map fun rr => (rr, (dotList ids).filterMap String.toNat?)
    | _ => none
  let nodeF : Nat → Option Op := fun n => (nodes.find? fun x => x.1 = n).map (·.2)
  let wireF : Reg → List Nat := fun r => ((wires.find? fun x => x.1 = r).map (·.2)).getD []
  pure (norm ⟨ne, np, nc, nid, nodeF, wireF⟩)

/-! ### printing -/

def showNats' (l : List Nat) : String := if l.isEmpty then "-" else String.intercalate "." (l.map toString)

def showOp (op : Op) : String :=
  let (k, g) := showKind op.kind
  let q := if op.q.isEmpty then "-" else String.intercalate "." (op.q.map showReg)
  s!"{k}:{g}:{q}:{showNats' op.cr}:{b01 op.fixed}"

def showCircuit (c : Circuit) : String :=
  let nodes := c.nodeIds.filterMap fun n => (c.node n).map fun op => s!"{n}:{showOp op}"
  let wires := c.regs.map fun r => s!"{showReg r}:{showNats' (c.wire r)}"
  let ns := if nodes.isEmpty then "-" else String.intercalate ";" nodes
  let ws := if wires.isEmpty then "-" else String.intercalate ";" wires
  s!"ne={c.ne} np={c.np} nc={c.nc} nid={c.nid} nodes={ns} wires={ws}"

def showEdge (e : Edge) : String := s!"{showReg e.r}@{e.pos}"

def parseEdge (s : String) : Option Edge :=
  match splitChar '@' s with
  | [r, p] => do
    let rr ← parseReg r
    let pp ← p.toNat?
    pure ⟨rr, pp⟩
  | _ => none

def parseChoice (s : String) : Option Choice :=
  if s = "" ∨ s = "-" ∨ s = "none" then some .none
  else match splitChar '+' s with
    | [a, b] => do
      let e1 ← parseEdge a
      let e2 ← parseEdge b
      pure (.pair e1 e2)
    | [a] =>
      match parseEdge a with
      | some e => some (.edge e)
      | none => a.toNat?.map Choice.node
    | _ => none

def parseTrans : String → Option Trans
  | "add_emitter_one_qubit_op" => some .addEmitterOneQubitOp
  | "add_photon_one_qubit_op" => some .addPhotonOneQubitOp
  | "replace_photon_one_qubit_op" => some .replacePhotonOneQubitOp
  | "replace_emitter_one_qubit_op" => some .replaceEmitterOneQubitOp
  | "add_emitter_cnot" => some .addEmitterCnot
  | "remove_op" => some .removeOp
  | "add_measurement_cnot_and_reset" => some .addMeasurementCnotAndReset
  | _ => none

def commaList (l : List String) : String := if l.isEmpty then "-" else String.intercalate "," l

def showErr (e : Err) : String := s!"err {e}"

def showV : V → String
  | .inp r => showReg r ++ "_in"
  | .out r => showReg r ++ "_out"
  | .op n => toString n

/-- candidate list of the *first* random draw of a transformation, in the model's (canonical) order;
    `kind` says what the entries are -/
def candsOf (c : Circuit) : Trans → String × List String
  | .addEmitterOneQubitOp =>
    if c.emitterEdgeCands = [] then ("node", (c.replaceCands .e).map toString)
    else ("edge", c.emitterEdgeCands.map showEdge)
  | .addPhotonOneQubitOp =>
    if c.photonEdgeCands = [] then ("node", (c.replaceCands .p).map toString)
    else ("edge", c.photonEdgeCands.map showEdge)
  | .replacePhotonOneQubitOp => ("node", (c.replaceCands .p).map toString)
  | .replaceEmitterOneQubitOp => ("node", (c.replaceCands .e).map toString)
  | .removeOp => ("node", c.removeCands.map toString)
  | .addEmitterCnot => ("pair", c.cnotPairCands.map fun p => showEdge p.1 ++ "+" ++ showEdge p.2)
  | .addMeasurementCnotAndReset => ("pair", c.mcrPairCands.map fun p => showEdge p.1 ++ "+" ++ showEdge p.2)

def showFlat (c : Circuit) : String :=
  let item : Item → String
    | .g g => showG1 g
    | .node k q cr =>
      let qs := String.intercalate "." (q.map showReg)
      s!"{(showKind k).1}({qs}|{showNats' cr})"
  let wires := c.qregs.map fun r =>
    let its := (c.flatWire r).map item
    s!"{showReg r}:{if its.isEmpty then "-" else String.intercalate "." its}"
  String.intercalate ";" wires

def regList (s : String) : List Reg := (listOf s).filterMap parseReg

def gateList (s : String) : List G1 := (dotList s).filterMap parseG1

/-- `fg:<reg>:<gates>` `rf:<reg>:<gates>` `xf:<reg>` `cx:<c>:<t>` `em:<e>:<p>` `mcr:<e>:<p>` `ag:<p>:<gate>` -/
def parseBuildOp (s : String) : Option BuildOp :=
  match splitChar ':' s with
  | ["fg", r, gs] => (parseReg r).map fun rr => .frontGate rr (gateList gs)
  | ["rf", r, gs] => (parseReg r).map fun rr => .replaceFront rr (gateList gs)
  | ["xf", r] => (parseReg r).map .removeFront
  | ["cx", c, t] => do pure (.emitterCnot (← c.toNat?) (← t.toNat?))
  | ["em", e, p] => do pure (.emission (← e.toNat?) (← p.toNat?))
  | ["mcr", e, p] => do pure (.mcr (← e.toNat?) (← p.toNat?))
  | ["ag", p, g] => do pure (.appendGate (← p.toNat?) (← parseG1 g))
  | _ => none

def dispatch (cmd : String) (a : Args) : Option String :=
  match cmd with
  | "wire.check" =>
    match circuitOf a with
    | none => some "err parse"
    | some c => some s!"ok wf={b01 c.wfB} acyclic={b01 c.acyclicB} emit={b01 c.emitCB} n={c.nodeIds.length}"
  | "wire.echo" =>
    match circuitOf a with
    | none => some "err parse"
    | some c => some s!"ok {showCircuit c}"
  | "wire.flat" =>
    match circuitOf a with
    | none => some "err parse"
    | some c => some s!"ok flat={showFlat c}"
  | "wire.incompat" =>
    match circuitOf a, parseEdge (get a "e") with
    | some c, some e =>
      let inf := c.incompatInfo e
      let es := (c.edgesOf .e ++ c.edgesOf .p ++ c.edgesOf .c).filter (c.isIncompatible e inf)
      some s!"ok closed={b01 inf.closed} anc={commaList (inf.anc.map showV)} desc={commaList (inf.desc.map showV)} edges={commaList (es.map showEdge)}"
    | _, _ => some "err parse"
  | "evo.ops" =>
    some s!"ok n={oneQubitOps.length} ops={commaList (oneQubitOps.map fun gs => String.intercalate "." (gs.map showG1))}"
  | "evo.cands" =>
    match circuitOf a, parseTrans (get a "t") with
    | some c, some t =>
      let (k, l) := candsOf c t
      some s!"ok kind={k} n={l.length} cands={commaList l}"
    | _, _ => some "err parse"
  | "evo.step" =>
    match circuitOf a, parseTrans (get a "t"), parseChoice (get a "ch") with
    | some c, some t, some ch =>
      match c.step ⟨t, ch, getNat a "g"⟩ with
      | some c' => some s!"ok {showCircuit c'}"
      | none => some "err notallowed"
    | _, _, _ => some "err parse"
  | "evo.ea" =>
    match getEmissionAssignment (getNat a "np") (getNat a "ne") (natsOf ',' (get a "draws")) with
    | some ea => some s!"ok ea={showNats "," ea}"
    | none => some "err draws"
  | "evo.init" =>
    match initialization (natsOf ',' (get a "ea")) (natsOf ',' (get a "ma")) with
    | .ok c => some s!"ok {showCircuit c}"
    | .error e => some (showErr e)
  | "trs.build" =>
    match (listOf (get a "ops")).mapM parseBuildOp with
    | none => some "err parse"
    | some ops =>
      match solverCircuit (getNat a "ne") (getNat a "np") ops with
      | some c => some s!"ok {showCircuit c}"
      | none =>
        -- say where the discipline was violated
        let rec go (s : BuildSt) (k : Nat) : List BuildOp → String
          | [] => s!"err incomplete emitted={showNats "," s.emitted}"
          | op :: rest => match s.step op with
            | some s' => go s' (k + 1) rest
            | none => s!"err refused at={k}"
        some (go ⟨Circuit.empty (getNat a "ne") (getNat a "np") 1, []⟩ 0 ops)
  | "wire.add" =>
    match circuitOf a, parseOp (get a "op") with
    | some c, some op =>
      match c.add op with
      | .ok c' => some s!"ok {showCircuit c'}"
      | .error e => some (showErr e)
    | _, _ => some "err parse"
  | "wire.insert" =>
    match circuitOf a, parseOp (get a "op") with
    | some c, some op =>
      match c.insertAtE op ((listOf (get a "edges")).filterMap parseEdge) with
      | .ok c' => some s!"ok {showCircuit c'}"
      | .error e => some (showErr e)
    | _, _ => some "err parse"
  | "wire.remove" =>
    match circuitOf a with
    | some c => some s!"ok {showCircuit (c.removeOp (getNat a "n"))}"
    | none => some "err parse"
  | "wire.replace" =>
    match circuitOf a, parseOp (get a "op") with
    | some c, some op =>
      match c.replaceOpE (getNat a "n") op with
      | .ok c' => some s!"ok {showCircuit c'}"
      | .error e => some (showErr e)
    | _, _ => some "err parse"
  | "wire.unwrap" =>
    match circuitOf a with
    | some c => some s!"ok {showCircuit (c.unwrapNodes (natsOf ',' (get a "order")))}"
    | none => some "err parse"
  | "wire.rmid" =>
    match circuitOf a with
    | some c => some s!"ok {showCircuit (c.removeIdentity (natsOf ',' (get a "order")))}"
    | none => some "err parse"
  | "wire.group" =>
    match circuitOf a with
    | some c => some s!"ok {showCircuit (c.groupOneQubitGates (regList (get a "order")))}"
    | none => some "err parse"
  | "wire.assign" =>
    match circuitOf a with
    | some c =>
      match c.assignNoise (natsOf ',' (get a "seq")) with
      | .ok c' => some s!"ok {showCircuit c'}"
      | .error e => some (showErr e)
    | none => some "err parse"
  | _ => none

end Graphiq.CmdWire
