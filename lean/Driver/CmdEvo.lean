/-
  CmdEvo.lean — driver commands of the random-search model (C19).

  Scores travel as exact rationals `num/den` (Python `float.as_integer_ratio()`) or `inf`.
    evo.isclose   a=<s> b=<s>                                   -> ok close=0|1 lt=0|1
    evo.update_hof nhof=N hof=<s:size|s:none,…> pop=<s:size,…>   -> ok hof=<h0,p1,none,…> scores=<s,…> pos=<i|-,…>
    evo.tournament npop=N k=K scores=<s,…> draws=<i.j,i.j,…>     -> ok sel=<j,…> fresh=0|1
    evo.solve     nhof nstop npop k sel adapt nemit kind init=<size.fp,…> gens=<s:size:fp,…|…> tourn=<i.j,…|…>
                                                                -> ok hofs=… pops=… result=… probs=… coherent=…
    evo.adapt     nstop nemit kind steps                         -> ok probs=<p,…|p,…>
    evo.choice    p=<q,…> u=<q>                                  -> ok idx=i
    evo.positions nn= edges=<u.v.k,…> e=<u.v.k,…> p=<…> ops=<kind per node>  -> ok cnot=<…> meas=<…>
-/
import GraphiqModel.Model.Evo
import Driver.Proto
namespace Graphiq.CmdEvo
open Graphiq Graphiq.Proto Graphiq.Evo

def parseRat (s : String) : Option Rat :=
  match splitChar '/' s with
  | [n] => n.toInt?.map fun z => (z : Rat)
  | [n, d] => match n.toInt?, d.toNat? with
    | some z, some m => some (mkRat z m)
    | _, _ => none
  | _ => none

def parseScore (s : String) : Option Score :=
  if s = "inf" then some .inf else (parseRat s).map .fin

def showRat (q : Rat) : String := s!"{q.num}/{q.den}"

def joinOr (sep : String) (l : List String) : String := if l.isEmpty then "-" else String.intercalate sep l

/-- cell of the driver heap for `update_hof` / `tournament`: node count and a tag naming where the content came from -/
structure Cell where
  size : Nat
  tag : Nat
  score : Score := .inf
  deriving Inhabited

def cellParams : Params Cell Cell := ⟨fun _ d => d, fun c => c.score, fun c => c.size⟩

def errS (e : Err) : String := s!"err {e}"

/-! ### evo.isclose -/
def cmdIsclose (a : Args) : String :=
  match parseScore (get a "a"), parseScore (get a "b") with
  | some x, some y => s!"ok close={b01 (x.isclose Tol.numpy y)} lt={b01 (x.lt y)}"
  | _, _ => "err parse"

/-! ### evo.update_hof -/
def cmdUpdateHof (a : Args) : String :=
  let nHof := getNat a "nhof"
  let hofToks := listOf (get a "hof")
  let popToks := listOf (get a "pop")
  let nh := hofToks.length
  -- heap: one cell per non-None hof entry (tag = hof index), then one per population member (tag = nh + j)
  let step1 := hofToks.foldl (fun (acc : Array Cell × List HofEntry × Nat × Bool) tok =>
      let (cells, hof, i, ok) := acc
      match splitChar ':' tok with
      | [s, sz] =>
        match parseScore s with
        | none => (cells, hof, i + 1, false)
        | some sc =>
          if sz = "none" then (cells, hof ++ [⟨sc, none⟩], i + 1, ok)
          else (cells.push ⟨sz.toNat?.getD 0, i, sc⟩, hof ++ [⟨sc, some cells.size⟩], i + 1, ok)
      | _ => (cells, hof, i + 1, false)) (#[], [], 0, true)
  let (cells1, hof, _, ok1) := step1
  let step2 := popToks.foldl (fun (acc : Array Cell × List PopEntry × Nat × Bool) tok =>
      let (cells, pop, j, ok) := acc
      match splitChar ':' tok with
      | [s, sz] =>
        match parseScore s with
        | none => (cells, pop, j + 1, false)
        | some sc => (cells.push ⟨sz.toNat?.getD 0, nh + j, sc⟩, pop ++ [⟨sc, cells.size⟩], j + 1, ok)
      | _ => (cells, pop, j + 1, false)) (cells1, [], 0, ok1)
  let (cells2, pop, _, ok2) := step2
  if !ok2 then "err parse" else
  let h0 : Heap Cell := ⟨cells2⟩
  -- per-member insertion positions (re-running the scan on the evolving state) and the final result
  let rec go (h : Heap Cell) (hf : List HofEntry) (ps : List PopEntry) (pos : List String) :
      Except Err (Heap Cell × List HofEntry × List String) :=
    match ps with
    | [] => .ok (h, hf, pos)
    | e :: rest =>
      let p := match h.get? e.circ with
        | none => "?"
        | some c => match scanHof Tol.numpy (fun c : Cell => c.size) h hf e.score c.size 0 nHof with
          | .ok (some i) => toString i
          | _ => "-"
      match updateHofOne Tol.numpy (fun c : Cell => c.size) nHof h hf e with
      | .error er => .error er
      | .ok (h', hf') => go h' hf' rest (pos ++ [p])
  match go h0 hof pop [] with
  | .error er => errS er
  | .ok (h, hf, pos) =>
    -- cross-check: the fold `updateHof` gives the same result
    let same := match updateHof Tol.numpy (fun c : Cell => c.size) nHof h0 hof pop with
      | .ok (_, hf2) => decide (hf2 = hf)
      | .error _ => false
    let names := hf.map fun e => match e.circ with
      | none => "none"
      | some r => match h.get? r with
        | none => "dangling"
        | some c =>
          if r < cells2.size then (if c.tag < nh then s!"h{c.tag}" else s!"alias-p{c.tag - nh}")
          else (if c.tag < nh then s!"copy-h{c.tag}" else s!"p{c.tag - nh}")
    s!"ok hof={joinOr "," names} scores={joinOr "," (hf.map (·.score.toString))} pos={joinOr "," pos} fold={b01 same}"

/-! ### evo.tournament -/
def cmdTournament (a : Args) : String :=
  let nPop := getNat a "npop"
  let k := getNat a "k"
  let scores := (listOf (get a "scores")).map parseScore
  if scores.any (·.isNone) then "err parse" else
  let scs := scores.map (·.getD .inf)
  let cells : Array Cell := (scs.zipIdx.map fun (s, j) => (⟨0, j, s⟩ : Cell)).toArray
  let pop : List PopEntry := scs.zipIdx.map fun (s, j) => ⟨s, j⟩
  let drs : Array (List Nat) := ((listOf (get a "draws")).map (natsOf '.')).toArray
  match tournamentSelection nPop k (⟨cells⟩ : Heap Cell) pop (fun i => drs.getD i []) with
  | .error er => errS er
  | .ok (h, pop') =>
    let sel := pop'.map fun e => match h.get? e.circ with
      | some c => toString c.tag
      | none => "?"
    let fresh := pop'.all fun e => decide (e.circ ≥ cells.size)
    let distinct := decide ((pop'.map (·.circ)).eraseDups.length = pop'.length)
    s!"ok sel={joinOr "," sel} fresh={b01 fresh} distinct={b01 distinct} scores={joinOr "," (pop'.map (·.score.toString))}"

/-! ### evo.solve — replay of a whole run from the observed draw stream -/

def parseCell (tok : String) : Option Cell :=
  match splitChar ':' tok with
  | [s, sz, fp] => (parseScore s).map fun sc => ⟨sz.toNat?.getD 0, fp.toNat?.getD 0, sc⟩
  | _ => none

/-- tabulated draws: structure of closures over arrays (never a function-returning def with array lets) -/
def mkDraws (muts : Array (Array Cell)) (tourn : Array (Array (List Nat))) : Draws Cell :=
  ⟨fun g j => (muts.getD g #[]).getD j default, fun g i => (tourn.getD g #[]).getD i []⟩

def showHof (h : Heap Cell) (hof : List HofEntry) : String :=
  joinOr "," (hof.map fun e => match e.circ with
    | none => s!"{e.score.toString}:none:none"
    | some r => match h.get? r with
      | none => s!"{e.score.toString}:dangling:{r}"
      | some c => s!"{e.score.toString}:{c.tag}:{r}")

def showProbs (p : TransProbs) : String := joinOr "," (p.map fun kv => showRat kv.2)

def cmdSolve (a : Args) : String :=
  let cfg : Cfg := {
    nHof := getNat a "nhof", nStop := getNat a "nstop", nPop := getNat a "npop", tournamentK := getNat a "k",
    selectionActive := get a "sel" = "1", useAdaptProbability := get a "adapt" = "1", nEmitter := getNat a "nemit" }
  let tp := if get a "kind" = "hybrid" then initTransProbsHybrid cfg.nEmitter else initTransProbsEvo cfg.nEmitter
  let initCells := (listOf (get a "init")).map fun tok =>
    match natsOf '.' tok with
    | [sz, fp] => (⟨sz, fp, .inf⟩ : Cell)
    | _ => default
  let gensRaw := if get a "gens" = "" ∨ get a "gens" = "-" then [] else splitChar '|' (get a "gens")
  let gens := gensRaw.map fun g => (listOf g).map parseCell
  if gens.any (fun g => g.any (·.isNone)) then "err parse" else
  let mutA : Array (Array Cell) := (gens.map fun g => (g.map (·.getD default)).toArray).toArray
  let tournRaw := if get a "tourn" = "" ∨ get a "tourn" = "-" then [] else splitChar '|' (get a "tourn")
  let tournA : Array (Array (List Nat)) := (tournRaw.map fun g => ((listOf g).map (natsOf '.')).toArray).toArray
  let dr := mkDraws mutA tournA
  -- run generation by generation to report the per-generation hall of fame and population references
  let rec go (g fuel : Nat) (s : St Cell) (hofs pops probs : List String) :
      Except String (St Cell × List String × List String × List String) :=
    match fuel with
    | 0 => .ok (s, hofs, pops, probs)
    | fuel + 1 =>
      match generation cellParams cfg dr g s with
      | .error er => .error s!"err {er} gen={g}"
      | .ok s' => go (g + 1) fuel s' (hofs ++ [showHof s'.heap s'.hof])
                    (pops ++ [joinOr "," (s'.pop.map fun e => toString e.circ)]) (probs ++ [showProbs s'.transProbs])
  match go 0 cfg.nStop (initState cfg tp initCells) [] [] [] with
  | .error msg => msg
  | .ok (s, hofs, pops, probs) =>
    match solve cellParams cfg dr tp initCells with
    | .error er => errS er
    | .ok (s2, res) =>
      let same := decide (s2.hof = s.hof) && decide (s2.pop = s.pop)
      let allScores := (mutA.toList.flatMap fun g => g.toList.map (·.score)) ++ [Score.inf]
      let resS := match res.circ with
        | none => s!"{res.score.toString}:none:none"
        | some r => match s2.heap.get? r with
          | none => s!"{res.score.toString}:dangling:{r}"
          | some c => s!"{res.score.toString}:{c.tag}:{r}"
      s!"ok hofs={joinOr "|" hofs} pops={joinOr "|" pops} probs={joinOr "|" probs} result={resS} same={b01 same} coherent={b01 (coherentOn cfg.tol allScores.eraseDups)} heap={s2.heap.size}"

/-! ### evo.adapt / evo.choice -/
def cmdAdapt (a : Args) : String :=
  let nStop := getNat a "nstop"
  let nEmit := getNat a "nemit"
  let tp0 := match get a "kind" with
    | "hybrid" => initTransProbsHybrid nEmit
    | "randomize" => randomizeTransProbs nEmit
    | _ => initTransProbsEvo nEmit
  let steps := getNat a "steps"
  let rec go (k : Nat) (tp : TransProbs) (acc : List String) : List String :=
    match k with
    | 0 => acc
    | k + 1 => let tp' := adaptProbabilities nStop nEmit tp; go k tp' (acc ++ [showProbs tp'])
  s!"ok keys={joinOr "," (tp0.map (·.1.toString))} probs={joinOr "|" (go steps tp0 [showProbs tp0])}"

def cmdChoice (a : Args) : String :=
  let ps := (listOf (get a "p")).map parseRat
  match parseRat (get a "u") with
  | none => "err parse"
  | some u =>
    if ps.any (·.isNone) then "err parse" else
    s!"ok idx={choiceIndex (ps.map (·.getD 0)) u}"

/-! ### evo.positions -/
def parseEdge (tok : String) : Edge :=
  match natsOf '.' tok with
  | [u, v, k] => ⟨u, v, k⟩
  | _ => default

def parseOpK (s : String) : OpK :=
  match s with
  | "i" => .input | "o" => .output | "w" => .oneQubitWrapper | "c" => .cnot | "m" => .measCnotReset | _ => .other

def showPairs (l : List (Edge × Edge)) : String :=
  joinOr "," (l.map fun (e, f) => s!"{e.src}.{e.dst}.{e.key}>{f.src}.{f.dst}.{f.key}")

def cmdPositions (a : Args) : String :=
  let ops : Array OpK := ((listOf (get a "ops")).map parseOpK).toArray
  let d : DagView := {
    edges := (listOf (get a "edges")).map parseEdge, eEdges := (listOf (get a "e")).map parseEdge,
    pEdges := (listOf (get a "p")).map parseEdge, opOf := fun v => ops.getD v .other, nNodes := getNat a "nn" }
  s!"ok cnot={showPairs d.selectPossibleCnotPosition} meas={showPairs d.selectPossibleMeasurementPosition}"

/-! ### evo.sort_by -/
def cmdSortBy (a : Args) : String :=
  let ks := (listOf (get a "keys")).map parseScore
  if ks.any (·.isNone) then "err parse" else
  let rows : List (Score × Nat) := (ks.map (·.getD .inf)).zipIdx
  s!"ok order={joinOr "," ((sortRowsBy (fun r : Score × Nat => r.1) rows).map fun r => toString r.2)}"

def dispatch (cmd : String) (a : Args) : Option String :=
  match cmd with
  | "evo.isclose" => some (cmdIsclose a)
  | "evo.update_hof" => some (cmdUpdateHof a)
  | "evo.tournament" => some (cmdTournament a)
  | "evo.solve" => some (cmdSolve a)
  | "evo.adapt" => some (cmdAdapt a)
  | "evo.choice" => some (cmdChoice a)
  | "evo.positions" => some (cmdPositions a)
  | "evo.sort_by" => some (cmdSortBy a)
  | _ => none

end Graphiq.CmdEvo
