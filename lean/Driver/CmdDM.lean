/-
  CmdDM.lean — driver commands (stub; owned by the group that builds the corresponding model).
-/
import Driver.Proto
namespace Graphiq.CmdDM
open Graphiq Graphiq.Proto

def dispatch (cmd : String) (a : Args) : Option String :=
  match cmd with
  | _ => none

end Graphiq.CmdDM
