/-
  CmdDM.lean — driver commands for the density-matrix / noise models (C17, C06).
  Matrices travel as `n=<size> re=<q,q,…> im=<q,q,…>` (row-major, each `q` = `num/den` or `num`);
  replies carry `m=<re,im;re,im;…>`.
-/
import GraphiqModel.Model.DMSem
import Driver.Proto
import Driver.CmdTab
namespace Graphiq.CmdDM
open Graphiq Graphiq.Proto Graphiq.DM

def parseRat (s : String) : Rat :=
  match splitChar '/' s with
  | [a] => ((a.toInt?.getD 0 : Int) : Rat)
  | [a, b] => mkRat (a.toInt?.getD 0) (b.toNat?.getD 1)
  | _ => 0

def ratsOf (s : String) : List Rat :=
  if s = "" ∨ s = "-" then [] else (splitChar ',' s).map parseRat

def showRats (l : List Rat) : String :=
  if l.isEmpty then "-" else String.intercalate "," (l.map toString)

def matOf (a : Args) (pfx : String := "") : Mat :=
  let n := getNat a (pfx ++ "n")
  let re := (ratsOf (get a (pfx ++ "re"))).toArray
  let im := (ratsOf (get a (pfx ++ "im"))).toArray
  Mat.ofRows n (Array.ofFn (n := n) fun i => Array.ofFn (n := n) fun j =>
    (⟨re.getD (i.val * n + j.val) 0, im.getD (i.val * n + j.val) 0⟩ : GQ))

def showMat (m : Mat) : String := s!"n={m.n} m={m.toStr}"

def showFid : FidOut → String
  | .val f => s!"ok val={f}"
  | .uhlmann => "ok uhlmann"

def ptrace (a : Args) (old : Bool) : String :=
  let ρ := matOf a
  let keep := natsOf ',' (get a "keep")
  let dims := natsOf ',' (get a "dims")
  if old then s!"ok {showMat (partialTraceOld ρ keep dims).norm}"
  else match partialTrace ρ keep dims with
    | .ok m => s!"ok {showMat m.norm}"
    | .error e => s!"err {e}"

def fid (a : Args) : String :=
  let ρ := matOf a "a"
  let σ := matOf a "b"
  let info := s!"purea={b01 (isPure ρ)} pureb={b01 (isPure σ)} dma={b01 (isDensityMatrix ρ)} dmb={b01 (isDensityMatrix σ)} ov={(ρ.mul σ).trace.re} pura={(ρ.mul ρ).trace.re} purb={(σ.mul σ).trace.re}"
  match fidelity ρ σ with
  | .ok f => s!"{showFid f} {info}"
  | .error e => s!"err {e} {info}"

def dispatch (cmd : String) (a : Args) : Option String :=
  match cmd with
  | "dm.ptrace" => some (ptrace a false)
  | "dm.ptrace_old" => some (ptrace a true)
  | "dm.fidelity" => some (fid a)
  | _ => none

end Graphiq.CmdDM
