/-
  CmdDM.lean — driver commands for the density-matrix / noise models (C17, C06).
  Matrices travel as `n=<size> re=<q,q,…> im=<q,q,…>` (row-major, each `q` = `num/den` or `num`);
  replies carry `m=<re,im;re,im;…>`.
-/
import GraphiqModel.Model.Noise
import Driver.Proto
import Driver.CmdTab
namespace Graphiq.CmdDM
open Graphiq Graphiq.Proto Graphiq.DM Graphiq.Noise

def parseRat (s : String) : Rat :=
  match splitChar '/' s with
  | [a] => ((a.toInt?.getD 0 : Int) : Rat)
  | [a, b] => mkRat (a.toInt?.getD 0) (b.toNat?.getD 1)
  | _ => 0

def ratsOf (s : String) : List Rat :=
  if s = "" ∨ s = "-" then [] else (splitChar ',' s).map parseRat

def showRats (l : List Rat) : String :=
  if l.isEmpty then "-" else String.intercalate "," (l.map toString)

def matOf (a : Args) (pfx : String := "") : Mat :=
  let n := getNat a (pfx ++ "n")
  let re := (ratsOf (get a (pfx ++ "re"))).toArray
  let im := (ratsOf (get a (pfx ++ "im"))).toArray
  Mat.ofRows n (Array.ofFn (n := n) fun i => Array.ofFn (n := n) fun j =>
    (⟨re.getD (i.val * n + j.val) 0, im.getD (i.val * n + j.val) 0⟩ : GQ))

def showMat (m : Mat) : String := s!"n={m.n} m={m.toStr}"

def showFid : FidOut → String
  | .val f => s!"ok val={f}"
  | .uhlmann => "ok uhlmann"

def ptrace (a : Args) (old : Bool) : String :=
  let ρ := matOf a
  let keep := natsOf ',' (get a "keep")
  let dims := natsOf ',' (get a "dims")
  if old then s!"ok {showMat (partialTraceOld ρ keep dims).norm}"
  else match partialTrace ρ keep dims with
    | .ok m => s!"ok {showMat m.norm}"
    | .error e => s!"err {e}"

def fid (a : Args) : String :=
  let ρ := matOf a "a"
  let σ := matOf a "b"
  let info := s!"purea={b01 (isPure ρ)} pureb={b01 (isPure σ)} dma={b01 (isDensityMatrix ρ)} dmb={b01 (isDensityMatrix σ)} ov={(ρ.mul σ).trace.re} pura={(ρ.mul ρ).trace.re} purb={(σ.mul σ).trace.re}"
  match fidelity ρ σ with
  | .ok f => s!"{showFid f} {info}"
  | .error e => s!"err {e} {info}"


/-! ### C06: noisy compilation -/

def parseNoise (s : String) : NoiseM :=
  let parts := splitChar '@' s
  let aft : Bool := (parts.getD 2 "a") = "a"
  match parts.headD "N" with
  | "N" => .none
  | "D" => .depol (parseRat (parts.getD 1 "0")) aft
  | "L" => .loss (parseRat (parts.getD 1 "0")) aft
  | "P" =>
    let k : PauliK := match parts.getD 1 "I" with
      | "I" => .I | "X" => .X | "Y" => .Y | "Z" => .Z | _ => .bad
    .pauli k aft
  | "R" => .replace
  | _ => .other

def parseKind : String → Kind
  | "input" => .input | "output" => .output | "identity" => .identity
  | "h" => .h | "s" => .s | "sdg" => .sdg | "x" => .x | "y" => .y | "z" => .z
  | "cnot" => .cnot | "cz" => .cz | "ccnot" => .ccnot | "ccz" => .ccz | "mcr" => .mcr | "measz" => .measZ
  | _ => .param

def parseRegT : String → RegT
  | "p" => .p | "c" => .c | _ => .e

/-- `kind:r1:t1:r2:t2:c:n0:n1` -/
def parseCOp (s : String) : COp :=
  let f := (splitChar ':' s).toArray
  { kind := parseKind (f.getD 0 ""), r1 := (f.getD 1 "0").toNat?.getD 0, t1 := parseRegT (f.getD 2 "e"),
    r2 := (f.getD 3 "0").toNat?.getD 0, t2 := parseRegT (f.getD 4 "e"), c := (f.getD 5 "0").toNat?.getD 0,
    n0 := parseNoise (f.getD 6 "N"), n1 := parseNoise (f.getD 7 "N") }

def showAct : Act → String
  | .gate k => s!"g{k}"
  | .noise k side q _ => s!"n{k}.{side}.{q}"
  | .replace k => s!"r{k}"

def showTrace (l : List Act) : String := if l.isEmpty then "-" else String.intercalate "," (l.map showAct)

def showTabC (t : Tab) : String :=
  let rows := 2 * t.n
  s!"{bits2ToString rows t.n fun i j => (t.row i).x j}/{bits2ToString rows t.n fun i j => (t.row i).z j}/{bitsToString rows fun i => (t.row i).r}/{bitsToString rows fun i => (t.row i).ip}"

def showMix (m : Mixture) : String :=
  if m.isEmpty then "-" else String.intercalate ";" (m.map fun (p, t) => s!"{p}|{showTabC t}")

def noiseRun (a : Args) : String :=
  let ops := (listOf (get a "ops")).map parseCOp
  let ns := get a "ns" = "1"
  let ne := getNat a "ne"
  let np := getNat a "np"
  let nc := getNat a "nc"
  let det := get a "det" = "1"
  let be : Backend := if get a "be" = "dm" then .dm else .stab
  let tr := match compileTrace ns be np ops with
    | .ok t => showTrace t
    | .error e => s!"err:{e}"
  match be with
  | .stab =>
    -- `meas=old`: graphiq before the repair of finding F2 (per-branch `apply_measurement`); default: the joint measurement
    match (if get a "meas" = "old" then compileStabOld ns ne np nc det ops else compileStab ns ne np nc det ops) with
    | .error e => s!"err {e} trace={tr}"
    | .ok s =>
      let md := if get a "want" = "mixdm" then s!" {showMat (mixtureDensity (ne + np) s.mix).norm}" else ""
      s!"ok trace={tr} total={Mix.total s.mix} rec={showNats "," s.creg} lossmeas={b01 s.lossMeas} nonunif={b01 s.nonUniform} branches={s.mix.length} mix={showMix s.mix}{md}"
  | .dm =>
    match compileDM ns ne np nc det ops with
    | .error e => s!"err {e} trace={tr}"
    | .ok s =>
      match s.ρ with
      | none => s!"ok trace={tr} nan=1 rec={showNats "," s.creg}"
      | some ρ => s!"ok trace={tr} nan=0 tr={ρ.trace.re} psd={b01 (isPsd ρ)} rec={showNats "," s.creg} {showMat ρ}"

/-- the "probabilistic" setting of the repaired `MixedStabilizer.apply_measurement`: compile `ops` (stabilizer backend), then
    measure qubit `q` with the scripted draw `u = np.random.random()` -/
def noiseMeasDraw (a : Args) : String :=
  let ops := (listOf (get a "ops")).map parseCOp
  let ne := getNat a "ne"
  let np := getNat a "np"
  let nc := getNat a "nc"
  match compileStab true ne np nc true ops with
  | .error e => s!"err {e}"
  | .ok s =>
    let r := Mix.measureDraw (getNat a "q") (parseRat (get a "u")) s.mix
    s!"ok outcome={b01 (r.2.headD false)} outs={r.2.length} branches={r.1.length} total={Mix.total r.1} mix={showMix r.1}"

def noiseTrace (a : Args) : String :=
  let ops := (listOf (get a "ops")).map parseCOp
  let ns := get a "ns" = "1"
  let np := getNat a "np"
  let one (be : Backend) : String := match compileTrace ns be np ops with
    | .ok t => showTrace t
    | .error e => s!"err:{e}"
  s!"ok dm={one .dm} stab={one .stab}"


/-- map for one register type: `h=D@1/3@a;x=P@X@b+N`  (a value `a+b` is a list of two noises) -/
def parseMap (s : String) : NoiseMapFor :=
  let ents := if s = "" ∨ s = "-" then [] else (splitChar ';' s).map fun e =>
    match splitChar '=' e with
    | [k, v] => (parseKind k, (splitChar '+' v).map parseNoise)
    | _ => (Kind.param, [])
  fun k => (ents.find? fun e => e.1 == k).map (·.2)

/-- `kind:t1:t2` or `wrap.h.s.x:t1` -/
def parseWOp (s : String) : WOp :=
  let f := (splitChar ':' s).toArray
  let head := splitChar '.' (f.getD 0 "")
  if head.headD "" = "wrap" then
    { kind := .identity, wrapped := head.tail.map parseKind, t1 := parseRegT (f.getD 1 "e") }
  else { kind := parseKind (f.getD 0 ""), t1 := parseRegT (f.getD 1 "e"), t2 := parseRegT (f.getD 2 "e") }

def showNoise : NoiseM → String
  | .none => "N"
  | .depol p a => s!"D@{p}@{if a then "a" else "b"}"
  | .loss r a => s!"L@{r}@{if a then "a" else "b"}"
  | .pauli k a =>
    let ks := match k with | .I => "I" | .X => "X" | .Y => "Y" | .Z => "Z" | .bad => "B"
    s!"P@{ks}@{if a then "a" else "b"}"
  | .replace => "R"
  | .other => "O"

def noiseAssign (a : Args) : String :=
  let mapE := parseMap (get a "mape")
  let mapP := parseMap (get a "mapp")
  let ctl (k : String) : Option NoiseMapFor := if has a k then some (parseMap (get a k)) else none
  let mapCtl : RegT → RegT → Option NoiseMapFor := fun t1 t2 =>
    let c (t : RegT) := if t == .p then "p" else "e"
    ctl ("map" ++ c t1 ++ c t2)
  let ops := (listOf (get a "ops")).map parseWOp
  let outs := ops.map fun op => match noisyGate mapE mapP mapCtl op with
    | .ok l => String.intercalate "+" (l.map showNoise)
    | .error e => s!"err:{e}"
  s!"ok noises={if outs.isEmpty then "-" else String.intercalate "," outs}"

/-- `OneQubitGateWrapper.unwrap()` for a list noise: `ops=h.s.x noise=tok+tok+tok` → applied order -/
def noiseUnwrap (a : Args) : String :=
  let kinds := (splitChar '.' (get a "ops")).map parseKind
  let ns := (splitChar '+' (get a "noise")).map parseNoise
  let r := if get a "single" = "1" then unwrapSingle kinds (ns.headD .none) else unwrapList kinds ns
  let showK : Kind → String
    | .h => "h" | .s => "s" | .sdg => "sdg" | .x => "x" | .y => "y" | .z => "z" | .identity => "identity" | _ => "?"
  s!"ok seq={String.intercalate "," (r.map fun (k, n) => showK k ++ "=" ++ showNoise n)}"


/-! ### C17: commuting pairs, evolution of a given matrix, Infidelity dispatch -/

/-- `dm.evolve n=… re=… im=… nq=<qubits> ops=<COp tokens, registers of type p>`: apply the gates of
    `DensityMatrixCompiler.compile_one_gate` to a given matrix -/
def evolve (a : Args) : String :=
  let ρ := matOf a
  let nq := getNat a "nq"
  let ops := (listOf (get a "ops")).map parseCOp
  let r := ops.foldl (fun (acc : Except Err DmSt) op => match acc with
    | .error e => .error e
    | .ok s => dmGate nq nq true op s) (.ok { ρ := some ρ, creg := [] })
  match r with
  | .ok { ρ := some m, .. } => s!"ok {showMat m}"
  | .ok _ => "ok nan=1"
  | .error e => s!"err {e}"

/-- eigenvalue vectors `p_i = ka_i²/s`, `q_i = kb_i²/s` of a commuting pair: Uhlmann fidelity and trace distance -/
def comm (a : Args) : String :=
  let ka := ratsOf (get a "ka")
  let kb := ratsOf (get a "kb")
  let sq := parseRat (get a "s")
  let sa := ka.map fun k => k * k / sq
  let sb := kb.map fun k => k * k / sq
  -- a_i b_i = ka_i kb_i / s
  let f := commFidelity (ka.map fun k => k) (kb.map fun k => k / sq)
  s!"ok f={f} t={commTraceDist sa sb} p={showRats sa} q={showRats sb}"

def repOf (a : Args) (kind pfx : String) : Rep :=
  if kind = "s" then .s (CmdTab.tabOf a pfx) else .dm (matOf a pfx)

def infid (a : Args) : String :=
  let t := repOf a (get a "trep") "t"
  let s := repOf a (get a "srep") "s"
  let extra := match t, s with
    | .s tt, .s ts => s!" overlap={stabOverlap tt ts}"
    | .dm mt, .s ts => s!" overlap_signed={((mt.mul (stabilizerDensity ts)).trace.re)} overlap_coded={((mt.mul (stabilizerToDensityPure ts)).trace.re)}"
    | _, _ => ""
  match infidelity stabOverlap t s with
  | .ok f => s!"{showFid f}{extra}"
  | .error e => s!"err {e}{extra}"

def stab2dm (a : Args) : String :=
  let t := CmdTab.tabOf a
  s!"ok {showMat (stabilizerToDensityPure t)} signed={(stabilizerDensity t).toStr}"


/-- solver map: `h=tok;cnot_control=tok;cnot_target=tok` -/
def parseSolverMap (s : String) : MapKey → Option NoiseM :=
  let ents : List (MapKey × NoiseM) := if s = "" ∨ s = "-" then [] else (splitChar ';' s).map fun e =>
    match splitChar '=' e with
    | [k, v] =>
      let parts := splitChar '_' k
      let kind := parseKind (parts.headD "")
      let key : MapKey := match parts.getD 1 "" with
        | "control" => .control kind | "target" => .target kind | _ => .name kind
      (key, parseNoise v)
    | _ => (.name .param, .none)
  fun k => (ents.find? fun e => e.1 == k).map (·.2)

def noiseIdentify (a : Args) : String :=
  let mp := parseSolverMap (get a "map")
  let kinds := (listOf (get a "ops")).map parseKind
  s!"ok noises={String.intercalate "," (kinds.map fun k => showNoise (identifyNoise k mp))}"

def dispatch (cmd : String) (a : Args) : Option String :=
  match cmd with
  | "dm.ptrace" => some (ptrace a false)
  | "dm.ptrace_old" => some (ptrace a true)
  | "dm.fidelity" => some (fid a)
  | "dm.evolve" => some (evolve a)
  | "dm.comm" => some (comm a)
  | "dm.infid" => some (infid a)
  | "dm.stab2dm" => some (stab2dm a)
  | "noise.run" => some (noiseRun a)
  | "noise.trace" => some (noiseTrace a)
  | "noise.measdraw" => some (noiseMeasDraw a)
  | "noise.assign" => some (noiseAssign a)
  | "noise.unwrap" => some (noiseUnwrap a)
  | "noise.identify" => some (noiseIdentify a)
  | _ => none

end Graphiq.CmdDM
