/-
  Main.lean — line-protocol driver for the executable model.  One request per line on stdin, one reply per line.
-/
import Driver.Proto
import Driver.CmdTab
open Graphiq Graphiq.Proto

def handle (line : String) : String :=
  let (cmd, a) := parseLine line
  if cmd = "" then "err empty" else
  match CmdTab.dispatch cmd a with
  | some r => r
  | none => "err unknown-command"

partial def loop (hin hout : IO.FS.Stream) : IO Unit := do
  let line ← hin.getLine
  if line.isEmpty then return ()
  hout.putStrLn (handle line)
  hout.flush
  loop hin hout

def main : IO Unit := do
  loop (← IO.getStdin) (← IO.getStdout)
