/-
  Main.lean — line-protocol driver for the executable model.  One request per line on stdin, one reply per line.
  Each model group owns one `Cmd*.lean` with a `dispatch : String → Args → Option String`.
-/
import Driver.Proto
import Driver.CmdTab
import Driver.CmdStab
import Driver.CmdDag
import Driver.CmdWire
import Driver.CmdExport
import Driver.CmdGraph
import Driver.CmdDM
import Driver.CmdEvo
import Driver.CmdCliff
import Driver.CmdCirc
import Driver.CmdSolver
import Driver.CmdConv
open Graphiq Graphiq.Proto

def dispatchers : List (String → Args → Option String) :=
  [CmdTab.dispatch, CmdStab.dispatch, CmdDag.dispatch, CmdWire.dispatch, CmdExport.dispatch,
   CmdGraph.dispatch, CmdDM.dispatch, CmdEvo.dispatch, CmdCliff.dispatch, CmdCirc.dispatch, CmdSolver.dispatch, CmdConv.dispatch]

def handle (line : String) : String :=
  let (cmd, a) := parseLine line
  if cmd = "" then "err empty" else
  match dispatchers.findSome? (fun d => d cmd a) with
  | some r => r
  | none => "err unknown-command"

partial def loop (hin hout : IO.FS.Stream) : IO Unit := do
  let line ← hin.getLine
  if line.isEmpty then return ()
  hout.putStrLn (handle line)
  hout.flush
  loop hin hout

def main : IO Unit := do
  loop (← IO.getStdin) (← IO.getStdout)
