/-
  CmdTab.lean — driver commands for the Clifford-tableau model (C07, C01).
-/
import GraphiqModel.Model.Tableau
import Driver.Proto
namespace Graphiq.CmdTab
open Graphiq Graphiq.Proto

def tabOf (a : Args) (pfx : String := "") : Tab :=
  let n := getNat a (pfx ++ "n")
  let xs := rowsOf n (get a (pfx ++ "x"))
  let zs := rowsOf n (get a (pfx ++ "z"))
  let r := bitsArr (get a (pfx ++ "r"))
  let ip := bitsArr (get a (pfx ++ "i"))
  Tab.ofRows n (Array.ofFn (n := 2 * n) fun i =>
    PRow.ofArrays (xs.getD i.val #[]) (zs.getD i.val #[]) (r.getD i.val false) (ip.getD i.val false))

def showTab (t : Tab) : String :=
  let rows := 2 * t.n
  s!"n={t.n} x={bits2ToString rows t.n fun i j => (t.row i).x j} z={bits2ToString rows t.n fun i j => (t.row i).z j} r={bitsToString rows fun i => (t.row i).r} i={bitsToString rows fun i => (t.row i).ip}"

structure RunSt where
  t : Tab
  outs : List String := []
  brs : List String := []

def guard (c : Bool) (k : Unit → Except Err α) : Except Err α := if c then k () else .error .assertion

/-- one op of `tab.run`; ops are `name:arg:arg…` -/
def stepOp (s : RunSt) (op : String) : Except Err RunSt :=
  let parts := splitChar ':' op
  let name := parts.headD ""
  let arg (k : Nat) : Nat := ((parts.getD (k+1) "").toNat?).getD 0
  let argB (k : Nat) : Bool := (parts.getD (k+1) "") = "1"
  let t := s.t
  let gate1 (f : Tab → Nat → Tab) : Except Err RunSt :=
    guard (arg 0 < t.n) fun _ => .ok { s with t := (f t (arg 0)).norm, brs := s.brs ++ ["gate1"] }
  let gate2 (f : Tab → Nat → Nat → Tab) : Except Err RunSt :=
    guard (arg 0 < t.n && arg 1 < t.n) fun _ => .ok { s with t := (f t (arg 0) (arg 1)).norm, brs := s.brs ++ ["gate2"] }
  match name with
  | "h" => gate1 Tab.hGate
  | "s" => gate1 Tab.sGate
  | "sdg" => gate1 Tab.sdgGate
  | "x" => gate1 Tab.xGate
  | "y" => gate1 Tab.yGate
  | "z" => gate1 Tab.zGate
  | "cnot" => gate2 Tab.cnotGate
  | "cz" => gate2 Tab.czGate
  | "swap" => gate2 Tab.swapGate
  | "meas" =>
    match t.zMeasure? (arg 0) (argB 1) with
    | .error e => .error e
    | .ok (t', o, p) => .ok { t := t'.norm, outs := s.outs ++ [b01 o ++ (if p ≠ 0 then "r" else "d")],
                              brs := s.brs ++ [if p ≠ 0 then "meas:random" else "meas:det"] }
  | "resetz" | "resetx" | "resety" =>
    guard (arg 0 < t.n) fun _ =>
      let br := if (t.pivot (arg 0)).isSome then "reset:random" else "reset:det"
      let t' := match name with
        | "resetz" => t.resetZ (arg 0) (argB 1) (argB 2)
        | "resetx" => t.resetX (arg 0) (argB 1) (argB 2)
        | _ => t.resetY (arg 0) (argB 1) (argB 2)
      .ok { s with t := t'.norm, brs := s.brs ++ [br] }
  | "insert" =>
    match t.insertQubit? (arg 0) with
    | .error e => .error e
    | .ok t' => .ok { s with t := t'.norm, brs := s.brs ++ ["insert"] }
  | "add" => .ok { s with t := t.addQubit.norm, brs := s.brs ++ ["add"] }
  | "remove" =>
    let br := if (t.pivot (arg 0)).isSome then "remove:random"
              else if (filterTo t.n fun i => (t.row i).x (arg 0)).length > 1 then "remove:det-many" else "remove:det-one"
    match t.removeQubit? (arg 0) (argB 1) with
    | .error e => .error e
    | .ok t' => .ok { s with t := t'.norm, brs := s.brs ++ [br] }
  | "ptrace" =>
    -- ptrace:<keep '.'-separated or ->:<outcome bits>
    let keep := natsOf '.' (parts.getD 1 "-")
    let os := (parts.getD 2 "").toList.map (fun c => decide (c = '1'))
    match t.partialTrace keep os with
    | .error e => .error e
    | .ok t' => .ok { s with t := t'.norm, brs := s.brs ++ ["ptrace"] }
  | _ => .error .value

def run (a : Args) : String :=
  let t := tabOf a
  let ops := listOf (get a "ops")
  let rec go (s : RunSt) (l : List String) (k : Nat) : String :=
    match l with
    | [] => s!"ok {showTab s.t} outs={if s.outs.isEmpty then "-" else String.intercalate "," s.outs} valid={b01 s.t.isSymplectic} br={if s.brs.isEmpty then "-" else String.intercalate "," s.brs}"
    | op :: rest =>
      match stepOp s op with
      | .error e => s!"err {e} at={k} {showTab s.t}"
      | .ok s' => go s' rest (k+1)
  go { t := t } ops 0

def tensor (a : Args) : String :=
  let t1 := tabOf a "a"
  let t2 := tabOf a "b"
  let t := (Tab.tensor2 t1 t2).norm
  s!"ok {showTab t} valid={b01 t.isSymplectic}"

def mk (a : Args) : String :=
  let n := getNat a "n"
  let t := match get a "kind" with
    | "ket0" => Tab.ket0 n | "ket1" => Tab.ket1 n | _ => Tab.plus n
  s!"ok {showTab t.norm}"

def valid (a : Args) : String := s!"ok valid={b01 (tabOf a).isSymplectic}"

def dispatch (cmd : String) (a : Args) : Option String :=
  match cmd with
  | "tab.run" => some (run a)
  | "tab.tensor" => some (tensor a)
  | "tab.mk" => some (mk a)
  | "tab.valid" => some (valid a)
  | _ => none

end Graphiq.CmdTab
