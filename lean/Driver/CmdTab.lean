/-
  CmdTab.lean — driver commands for the Clifford-tableau model (C07, C01).
-/
import GraphiqModel.Model.Tableau
import Driver.Proto
namespace Graphiq.CmdTab
open Graphiq Graphiq.Proto

def tabOf (a : Args) (pfx : String := "") : Tab :=
  let n := getNat a (pfx ++ "n")
  let xs := rowsOf n (get a (pfx ++ "x"))
  let zs := rowsOf n (get a (pfx ++ "z"))
  let r := bitsArr (get a (pfx ++ "r"))
  let ip := bitsArr (get a (pfx ++ "i"))
  Tab.ofRows n (Array.ofFn (n := 2 * n) fun i =>
    PRow.ofArrays (xs.getD i.val #[]) (zs.getD i.val #[]) (r.getD i.val false) (ip.getD i.val false))

def showTab (t : Tab) : String :=
  let rows := 2 * t.n
  s!"n={t.n} x={bits2ToString rows t.n fun i j => (t.row i).x j} z={bits2ToString rows t.n fun i j => (t.row i).z j} r={bitsToString rows fun i => (t.row i).r} i={bitsToString rows fun i => (t.row i).ip}"

structure RunSt where
  t : Tab
  outs : List String := []
  brs : List String := []

def parseOp (op : String) : Option Tab.Op :=
  let parts := splitChar ':' op
  let name := parts.headD ""
  let arg (k : Nat) : Nat := ((parts.getD (k+1) "").toNat?).getD 0
  let argB (k : Nat) : Bool := (parts.getD (k+1) "") = "1"
  match name with
  | "h" => some (.h (arg 0)) | "s" => some (.s (arg 0)) | "sdg" => some (.sdg (arg 0))
  | "x" => some (.x (arg 0)) | "y" => some (.y (arg 0)) | "z" => some (.z (arg 0))
  | "cnot" => some (.cnot (arg 0) (arg 1)) | "cz" => some (.cz (arg 0) (arg 1)) | "swap" => some (.swap (arg 0) (arg 1))
  | "meas" => some (.meas (arg 0) (argB 1))
  | "resetz" => some (.resetZ (arg 0) (argB 1) (argB 2))
  | "resetx" => some (.resetX (arg 0) (argB 1) (argB 2))
  | "resety" => some (.resetY (arg 0) (argB 1) (argB 2))
  | "insert" => some (.insert (arg 0)) | "add" => some .add
  | "remove" => some (.remove (arg 0) (argB 1))
  | "ptrace" => some (.ptrace (natsOf '.' (parts.getD 1 "-")) ((parts.getD 2 "").toList.map (fun c => decide (c = '1'))))
  | _ => none

/-- branch tag of the model for the evidence histogram -/
def branchOf (t : Tab) : Tab.Op → String
  | .h _ | .s _ | .sdg _ | .x _ | .y _ | .z _ => "gate1"
  | .cnot _ _ | .cz _ _ | .swap _ _ => "gate2"
  | .meas q _ => if (t.pivot q).isSome then "meas:random" else "meas:det"
  | .resetZ q _ _ | .resetX q _ _ | .resetY q _ _ => if (t.pivot q).isSome then "reset:random" else "reset:det"
  | .insert _ => "insert" | .add => "add"
  | .remove q _ =>
    if (t.pivot q).isSome then "remove:random"
    else if (filterTo t.n fun i => (t.row i).x q).length > 1 then "remove:det-many" else "remove:det-one"
  | .ptrace _ _ => "ptrace"

/-- the extended ops: `measx:q:o` (`measure_x`), `measy:q:o` (`measure_y`), `xmeas:q:o` (`x_measurement_gate` /
    `Stabilizer.apply_x_measurement`); everything else is a base op -/
def parseOpX (op : String) : Option Tab.OpX :=
  let parts := splitChar ':' op
  let name := parts.headD ""
  let arg (k : Nat) : Nat := ((parts.getD (k+1) "").toNat?).getD 0
  let argB (k : Nat) : Bool := (parts.getD (k+1) "") = "1"
  match name with
  | "measx" => some (.measX (arg 0) (argB 1))
  | "measy" => some (.measY (arg 0) (argB 1))
  | "xmeas" => some (.xMeasGate (arg 0) (argB 1))
  | "cy" => some (.cy (arg 0) (arg 1))
  | "traceout" => some (.traceOut (natsOf '.' (parts.getD 1 "-")) ((parts.getD 2 "").toList.map (fun c => decide (c = '1'))))
  | _ => (parseOp op).map .base

def branchOfX (t : Tab) : Tab.OpX → String
  | .base op => branchOf t op
  | .measX q _ => if ((t.hGate q).pivot q).isSome then "measx:random" else "measx:det"
  | .xMeasGate q _ => if ((t.hGate q).pivot q).isSome then "xmeas:random" else "xmeas:det"
  | .measY q _ => if (((t.sdgGate q).hGate q).pivot q).isSome then "measy:random" else "measy:det"
  | .cy _ _ => "gate2:cy"
  | .traceOut _ _ => "trace_out_qubits"

/-- one op of `tab.run`; ops are `name:arg:arg…` -/
def stepOp (s : RunSt) (ops : String) : Except Err RunSt :=
  match parseOpX ops with
  | none => .error .value
  | some op =>
    match s.t.applyOpX op with
    | .error e => .error e
    | .ok (t', out) =>
      .ok { t := t'.norm
            outs := match out with
              | some (o, rnd) => s.outs ++ [b01 o ++ (if rnd then "r" else "d")]
              | none => s.outs
            brs := s.brs ++ [branchOfX s.t op] }

def run (a : Args) : String :=
  let t := tabOf a
  let ops := listOf (get a "ops")
  let rec go (s : RunSt) (l : List String) (k : Nat) : String :=
    match l with
    | [] => s!"ok {showTab s.t} outs={if s.outs.isEmpty then "-" else String.intercalate "," s.outs} valid={b01 s.t.isSymplectic} br={if s.brs.isEmpty then "-" else String.intercalate "," s.brs}"
    | op :: rest =>
      match stepOp s op with
      | .error e => s!"err {e} at={k} {showTab s.t}"
      | .ok s' => go s' rest (k+1)
  go { t := t } ops 0

def tensor (a : Args) : String :=
  let t1 := tabOf a "a"
  let t2 := tabOf a "b"
  let t := (Tab.tensor2 t1 t2).norm
  s!"ok {showTab t} valid={b01 t.isSymplectic}"

/-- `tensor([f0, f1, …])` with `k` factors (args prefixed `f0`, `f1`, …) -/
def tensorN (a : Args) : String :=
  let k := getNat a "k"
  let fs := (List.range k).map fun i => tabOf a s!"f{i}"
  match fs with
  | [] => "err value"
  | t0 :: rest =>
    let t := (Tab.tensorList t0 rest).norm
    s!"ok {showTab t} valid={b01 t.isSymplectic}"

/-- `trace_out_qubits(positions)`: `pos=` list of positions, `os=` outcome bits -/
def traceOut (a : Args) : String :=
  let t := tabOf a
  let pos := natsOf '.' (get a "pos")
  let os := (get a "os").toList.map (fun c => decide (c = '1'))
  match t.applyOpX (.traceOut pos os) with
  | .ok (t', _) => let t' := t'.norm; s!"ok {showTab t'} valid={b01 t'.isSymplectic}"
  | .error e => s!"err {e}"

def mk (a : Args) : String :=
  let n := getNat a "n"
  let t := match get a "kind" with
    | "ket0" => Tab.ket0 n | "ket1" => Tab.ket1 n | _ => Tab.plus n
  s!"ok {showTab t.norm}"

def valid (a : Args) : String := s!"ok valid={b01 (tabOf a).isSymplectic}"

def dispatch (cmd : String) (a : Args) : Option String :=
  match cmd with
  | "tab.run" => some (run a)
  | "tab.tensor" => some (tensor a)
  | "tab.tensorn" => some (tensorN a)
  | "tab.traceout" => some (traceOut a)
  | "tab.mk" => some (mk a)
  | "tab.valid" => some (valid a)
  | _ => none

end Graphiq.CmdTab
