/-
  CmdCliff.lean — driver commands (stub; owned by the group that builds the corresponding model).
-/
import Driver.Proto
namespace Graphiq.CmdCliff
open Graphiq Graphiq.Proto

def dispatch (cmd : String) (a : Args) : Option String :=
  match cmd with
  | _ => none

end Graphiq.CmdCliff
