/-
  CmdCliff.lean — driver commands for the single-qubit Clifford library model (C20).
-/
import GraphiqModel.Model.Clifford1
import Driver.Proto
namespace Graphiq.CmdCliff
open Graphiq Graphiq.Proto Graphiq.Cliff

def wordOf (s : String) : Option (List Gen) := (listOf s).mapM Gen.ofName
def showWord (w : List Gen) : String := if w.isEmpty then "-" else String.intercalate "," (w.map Gen.name)

def showM (m : M2) : String :=
  String.intercalate ";" (m.entries.map fun e => s!"{e.re}:{e.im}")

def simplifyCmd (a : Args) : String :=
  match wordOf (get a "w") with
  | none => "err value"
  | some w =>
    match simplify w with
    | none => "err value"
    | some m => s!"ok g={showWord m} prod={showM (prodW w)}"

def all24Cmd : String :=
  "ok lists=" ++ String.intercalate "|" (all24.map showWord)

/-- find a member for an explicit Gaussian-integer matrix `m=re:im;re:im;re:im;re:im` -/
def findCmd (a : Args) : String :=
  match (splitChar ';' (get a "m")).map (fun t => intsOf ':' t) with
  | [[a1, a2], [b1, b2], [c1, c2], [d1, d2]] =>
    match find ⟨⟨a1, a2⟩, ⟨b1, b2⟩, ⟨c1, c2⟩, ⟨d1, d2⟩⟩ with
    | none => "err value"
    | some m => s!"ok g={showWord m}"
  | _ => "err value"

def dispatch (cmd : String) (a : Args) : Option String :=
  match cmd with
  | "cliff.simplify" => some (simplifyCmd a)
  | "cliff.all24" => some all24Cmd
  | "cliff.find" => some (findCmd a)
  | _ => none

end Graphiq.CmdCliff
